/* C06: driver of the elliptic-curve layer (src/math/ec.c, ecp.c).
   usage: drv_ec exec                 commands on stdin (curves and point lists computed by TLC: spec/gen/Gen_ECSmall.tla);
                                      one ndjson row per (operation, aliasing, representation, first operand): results as
                                      indices into the curve's point list (0 = O, -2 = not a listed point, -9 = not applicable)
          drv_ec record <quick|thorough>   self-contained lines (curve, operands, results as 16-bit limbs) judged by
                                      spec/trace/Trace_EC.tla: small curves, multi-word subgroup curves, bign curves
   Every field / curve description and every stack is malloc'ed at exactly its documented _keep() / _deep() size,
   every point buffer at exactly its documented number of words.  Deterministic given VERIF_SEED: the seed selects
   the Z coordinates of projective representations and seeded scalars, never the structure. */
#include "vx.h"
#include <stdarg.h>
#include <bee2/core/mem.h>
#include <bee2/core/util.h>
#include <bee2/core/obj.h>
#include <bee2/core/hex.h>
#include <bee2/math/ww.h>
#include <bee2/math/zz.h>
#include <bee2/math/gfp.h>
#include <bee2/math/ecp.h>
#include <bee2/crypto/bign.h>
#include <bee2/crypto/bign96.h>

/* ------------------------------------------------------------------ exact-size memory */
/* Fresh memory is filled with VERIF_FILL (default 0).  NOTE: the J functions signal O by zeroing Z only and leave
   X, Y as they were; the debug build's ASSERT(ecpSeemsOn3(..)) of the NEXT function then reads whatever the buffer
   (or ecMulA's / ecAddMulA's stack) held before.  With a fill >= p (VERIF_FILL=255) the assert-enabled builds abort
   on admissible inputs (points of order 2, ecAddMulA's initial O); this is reported, not hidden: see checks/C06.py. */
static int FILL = 0;
static void* xalloc(size_t size)
{
	void* p = malloc(size ? size : 1);
	if (!p) { fprintf(stderr, "out of memory\n"); exit(3); }
	memset(p, FILL, size);
	return p;
}
#define WALLOC(nw) ((word*)xalloc((nw) * sizeof(word)))
/* stacks: one exact-size block per distinct depth */
static size_t SLACK = 0;        /* VERIF_STACK_SLACK: extra octets per stack; 0 = exactly the documented depth */
static struct { size_t size; void* p; } STK[512];
static int NSTK;
static void* stk(size_t size)
{
	int i;
	for (i = 0; i < NSTK; ++i) if (STK[i].size == size) return STK[i].p;
	if (NSTK == 512) { fprintf(stderr, "too many stack sizes\n"); exit(3); }
	STK[NSTK].size = size; STK[NSTK].p = xalloc(size + SLACK);
	return STK[NSTK++].p;
}

/* ------------------------------------------------------------------ curves */
typedef struct
{
	char name[48];
	size_t no, n;
	qr_o* f; ec_o* ec;
	size_t npts;            /* affine points in the list */
	octet* oct;             /* npts * 2 * no octets */
	word* aff;              /* npts * 2n words (internal representation) */
	octet ord[80]; size_t ord_len;      /* order of the listed group, little-endian */
	long long iord;         /* the same as an integer (it is small) */
	int* ht; size_t hmask;  /* hash: octets -> index */
	struct { size_t mo; octet d[64]; } mult[8]; int nmult;
} curve_t;

static unsigned long long hash_oct(const octet* p, size_t n)
{
	unsigned long long h = 1469598103934665603ull;
	while (n--) h = (h ^ *p++) * 1099511628211ull;
	return h ^ (h >> 29);
}
static void curve_free(curve_t* c)
{
	free(c->f); free(c->ec); free(c->oct); free(c->aff); free(c->ht);
	memset(c, 0, sizeof(*c));
}
/* field and curve from little-endian octet strings of length no */
static int curve_create(curve_t* c, const char* name, size_t no, const octet* p, const octet* a, const octet* b)
{
	memset(c, 0, sizeof(*c));
	snprintf(c->name, sizeof(c->name), "%s", name);
	c->no = no; c->n = W_OF_O(no);
	c->f = (qr_o*)xalloc(gfpCreate_keep(no));
	if (!gfpCreate(c->f, p, no, stk(gfpCreate_deep(no)))) return 0;
	c->ec = (ec_o*)xalloc(ecpCreateJ_keep(c->n));
	if (!ecpCreateJ(c->ec, c->f, a, b, stk(ecpCreateJ_deep(c->n, c->f->deep)))) return 0;
	return 1;
}
static int curve_points(curve_t* c, const octet* pts, size_t npts)
{
	size_t i, n = c->n, no = c->no, hs = 16;
	c->npts = npts;
	c->oct = (octet*)xalloc(npts * 2 * no);
	memcpy(c->oct, pts, npts * 2 * no);
	c->aff = WALLOC(npts * 2 * n);
	while (hs < 4 * npts + 4) hs *= 2;
	c->hmask = hs - 1;
	c->ht = (int*)xalloc(hs * sizeof(int));
	for (i = 0; i < hs; ++i) c->ht[i] = -1;
	for (i = 0; i < npts; ++i)
	{
		size_t h;
		if (!qrFrom(c->aff + 2 * n * i, pts + 2 * no * i, c->f, stk(c->f->deep)) ||
			!qrFrom(c->aff + 2 * n * i + n, pts + 2 * no * i + no, c->f, stk(c->f->deep)))
			return 0;
		h = hash_oct(pts + 2 * no * i, 2 * no) & c->hmask;
		while (c->ht[h] >= 0) h = (h + 1) & c->hmask;
		c->ht[h] = (int)i;
	}
	return 1;
}
/* index of an affine point given in internal representation (1..npts), -2 if it is not listed */
static int lookup(const curve_t* c, const word* a)
{
	octet o[2 * 80]; size_t h;
	qrTo(o, a, c->f, stk(c->f->deep));
	qrTo(o + c->no, a + c->n, c->f, stk(c->f->deep));
	h = hash_oct(o, 2 * c->no) & c->hmask;
	while (c->ht[h] >= 0)
	{
		if (memcmp(c->oct + 2 * c->no * c->ht[h], o, 2 * c->no) == 0) return c->ht[h] + 1;
		h = (h + 1) & c->hmask;
	}
	return -2;
}
#define AFF(c, idx) ((c)->aff + 2 * (c)->n * ((idx) - 1))
static void* ecstk(const curve_t* c) { return stk(c->ec->deep); }

/* a seeded field element (internal representation), optionally non-zero */
static void rnd_f(word* t, const curve_t* c, int nonzero)
{
	octet o[80]; size_t bits = wwBitSize(c->f->mod, c->n);
	for (;;)
	{
		vxRandBuf(o, c->no);
		if (bits % 8) o[c->no - 1] &= (octet)((1u << (bits % 8)) - 1);
		if (!qrFrom(t, o, c->f, stk(c->f->deep))) continue;
		if (nonzero && qrIsZero(t, c->f)) continue;
		return;
	}
}
/* Jacobian representation of point idx (0 = O) in dst[3n]: rep 0 = canonical (Z = 1; O = (1:1:0)), rep 1 = seeded Z */
static void mkJ(word* dst, const curve_t* c, int idx, int rep)
{
	const size_t n = c->n; const qr_o* f = c->f; void* st = ecstk(c);
	if (idx == 0)
	{
		if (rep == 0) qrSetUnity(dst, f), qrSetUnity(dst + n, f);
		else rnd_f(dst, c, 0), rnd_f(dst + n, c, 0);
		qrSetZero(dst + 2 * n, f);
		return;
	}
	if (rep == 0) { ecFromA(dst, AFF(c, idx), c->ec, st); return; }
	{
		word* z = WALLOC(n); word* z2 = WALLOC(n);
		rnd_f(z, c, 1);
		qrSqr(z2, z, f, st);
		qrMul(dst, AFF(c, idx), z2, f, st);
		qrMul(z2, z2, z, f, st);
		qrMul(dst + n, AFF(c, idx) + n, z2, f, st);
		qrCopy(dst + 2 * n, z, f);
		free(z); free(z2);
	}
}
/* index of a Jacobian point */
static int idxJ(const curve_t* c, const word* j)
{
	word* a = WALLOC(2 * c->n); int r;
	r = ecToA(a, j, c->ec, ecstk(c)) ? lookup(c, a) : 0;
	free(a);
	return r;
}

/* ------------------------------------------------------------------ rows */
static void row_begin(const curve_t* c, const char* op, const char* al, int rep)
{
	jBegin(); jStr("curve", c->name); jStr("op", op); jStr("al", al); jInt("rep", rep);
}
static void row_end(const long long* row, size_t n) { jIntArr("row", row, n); jEnd(); }

/* pairs: add / sub in J, AJ (mixed), AA forms for every ordered pair under the admissible aliasings */
static void do_pairs(const curve_t* c)
{
	static const char* OPS[6] = { "addJ", "subJ", "addAJ", "subAJ", "addAA", "subAA" };
	static const char* ALS[4] = { "none", "c=a", "c=b", "a=b" };
	const size_t n = c->n; const ec_o* ec = c->ec; void* st = ecstk(c);
	const int N = (int)c->npts + 1;
	long long* row = (long long*)xalloc(N * sizeof(long long));
	int op, al, rep, i, j;
	for (op = 0; op < 6; ++op)
	for (al = 0; al < 4; ++al)
	for (rep = 0; rep < 2; ++rep)
	{
		const int mixed = op == 2 || op == 3, aa = op >= 4;
		const size_t na = aa ? 2 * n : 3 * n;                   /* words of operand a */
		const size_t nb = (mixed || aa) ? 2 * n : 3 * n;        /* words of operand b */
		const size_t nc = aa ? 2 * n : 3 * n;
		if (aa && rep) continue;
		if (mixed && al == 3) continue;                          /* a projective, b affine: never the same buffer */
		if (al == 3)
		{
			/* a and b are the same buffer, c distinct: the diagonal */
			word* A = WALLOC(na); word* C = WALLOC(nc);
			row_begin(c, OPS[op], ALS[al], rep); jInt("diag", 1);
			for (i = 0; i < N; ++i)
			{
				if (aa && i == 0) { row[i] = -9; continue; }
				if (aa)
				{
					bool_t r;
					wwCopy(A, AFF(c, i), 2 * n);
					r = op == 4 ? ecpAddAA(C, A, A, ec, stk(ecpAddAA_deep(n, c->f->deep))) :
						ecpSubAA(C, A, A, ec, stk(ecpSubAA_deep(n, c->f->deep)));
					row[i] = r ? lookup(c, C) : 0;
				}
				else
				{
					mkJ(A, c, i, rep);
					if (op == 0) ecAdd(C, A, A, ec, st); else ecSub(C, A, A, ec, st);
					row[i] = idxJ(c, C);
				}
			}
			row_end(row, N);
			free(A); free(C);
			continue;
		}
		for (i = 0; i < N; ++i)
		{
			if (aa && i == 0) continue;
			row_begin(c, OPS[op], ALS[al], rep); jInt("i", i);
			for (j = 0; j < N; ++j)
			{
				/* fresh exact-size buffers for each call: c = b needs room for the result in b's buffer */
				word* A = WALLOC(al == 1 ? (na > nc ? na : nc) : na);
				word* B = WALLOC(al == 2 ? (nb > nc ? nb : nc) : nb);
				word* C = al == 0 ? WALLOC(nc) : (al == 1 ? A : B);
				if ((mixed || aa) && j == 0) { row[j] = -9; goto next; }
				if (aa) wwCopy(A, AFF(c, i), 2 * n); else mkJ(A, c, i, rep);
				if (mixed || aa) wwCopy(B, AFF(c, j), 2 * n); else mkJ(B, c, j, rep);
				switch (op)
				{
				case 0: ecAdd(C, A, B, ec, st); row[j] = idxJ(c, C); break;
				case 1: ecSub(C, A, B, ec, st); row[j] = idxJ(c, C); break;
				case 2: ecAddA(C, A, B, ec, st); row[j] = idxJ(c, C); break;
				case 3: ecSubA(C, A, B, ec, st); row[j] = idxJ(c, C); break;
				case 4: row[j] = ecpAddAA(C, A, B, ec, stk(ecpAddAA_deep(n, c->f->deep))) ? lookup(c, C) : 0; break;
				case 5: row[j] = ecpSubAA(C, A, B, ec, stk(ecpSubAA_deep(n, c->f->deep))) ? lookup(c, C) : 0; break;
				}
			next:
				if (al == 0) free(C);
				free(A); free(B);
			}
			row_end(row, N);
		}
	}
	free(row);
}

/* unary: neg, dbl, tpl (J), dblA (affine -> J), negA (affine), fromA/toA round trip */
static void do_unary(const curve_t* c)
{
	static const char* OPS[6] = { "negJ", "dblJ", "tplJ", "dblAJ", "negA", "fromAtoA" };
	const size_t n = c->n; const ec_o* ec = c->ec; void* st = ecstk(c);
	const int N = (int)c->npts + 1;
	long long* row = (long long*)xalloc(N * sizeof(long long));
	int op, al, rep, i;
	for (op = 0; op < 6; ++op)
	for (al = 0; al < 2; ++al)
	for (rep = 0; rep < 2; ++rep)
	{
		const int affin = op >= 3;
		if (affin && rep) continue;
		row_begin(c, OPS[op], al ? "b=a" : "none", rep);
		for (i = 0; i < N; ++i)
		{
			const size_t na = affin ? (al && op != 4 ? 3 * n : 2 * n) : 3 * n;
			word* A; word* B;
			if (affin && i == 0) { row[i] = -9; continue; }
			A = WALLOC(na);
			B = al ? A : WALLOC(op == 4 ? 2 * n : 3 * n);
			if (affin) wwCopy(A, AFF(c, i), 2 * n); else mkJ(A, c, i, rep);
			switch (op)
			{
			case 0: ecNeg(B, A, ec, st); row[i] = idxJ(c, B); break;
			case 1: ecDbl(B, A, ec, st); row[i] = idxJ(c, B); break;
			case 2: ec->tpl(B, A, ec, st); row[i] = idxJ(c, B); break;
			case 3: ecDblA(B, A, ec, st); row[i] = idxJ(c, B); break;
			case 4: ecpNegA(B, A, ec); row[i] = lookup(c, B); break;
			case 5:
				if (!ecFromA(B, A, ec, st)) { row[i] = -3; break; }
				if (al) row[i] = ecToA(B, B, ec, st) ? lookup(c, B) : 0;
				else row[i] = idxJ(c, B);
				break;
			}
			if (!al) free(B);
			free(A);
		}
		row_end(row, N);
	}
	free(row);
}

/* scalar k (+ the registered multiple of the order of length mo when hi) in m = W_OF_O(mo) words */
static int scalar(word* d, size_t mo, const curve_t* c, long long k, int hi)
{
	const size_t m = W_OF_O(mo);
	octet o[64]; size_t i; unsigned carry;
	memset(o, 0, sizeof(o));
	if (hi)
	{
		int t;
		for (t = 0; t < c->nmult && c->mult[t].mo != mo; ++t);
		if (t == c->nmult) return 0;
		memcpy(o, c->mult[t].d, mo);
	}
	for (i = 0, carry = 0; i < mo; ++i)
	{
		unsigned v = o[i] + (i < 8 ? (unsigned)((unsigned long long)k >> (8 * i)) & 255 : 0) + carry;
		o[i] = (octet)v; carry = v >> 8;
	}
	if (carry || mo % O_PER_W) return 0;
	wwFrom(d, o, mo);
	(void)m;
	return 1;
}
/* the list of scalars of a command: ks=all (0..K) or ks=a,b,c */
static size_t parse_ks(const vx_cmd* cmd, const curve_t* c, long long** ks, long long from)
{
	const char* v = vxArg(cmd, "ks");
	long long K = 2 * c->iord + 2;
	size_t cnt = 0;
	if (!v || strcmp(v, "all") == 0)
	{
		long long k;
		*ks = (long long*)xalloc((size_t)(K + 1) * sizeof(long long));
		for (k = from; k <= K; ++k) (*ks)[cnt++] = k;
		return cnt;
	}
	*ks = (long long*)xalloc((strlen(v) / 2 + 2) * sizeof(long long));
	while (*v)
	{
		(*ks)[cnt++] = strtoll(v, (char**)&v, 10);
		if (*v == ',') ++v;
	}
	return cnt;
}
static void do_mul(const curve_t* c, const vx_cmd* cmd, int hasorder)
{
	const size_t n = c->n, mo = (size_t)vxInt(cmd, "mo", 8), m = W_OF_O(mo);
	const int hi = (int)vxInt(cmd, "hi", 0);
	long long* ks; size_t nk = parse_ks(cmd, c, &ks, hasorder ? 1 : 0), t;
	long long* row = (long long*)xalloc(nk * sizeof(long long));
	int i;
	if (mo % O_PER_W) { free(ks); free(row); return; }         /* this scalar length does not exist in this build */
	for (i = 1; i <= (int)c->npts; ++i)
	{
		jBegin(); jStr("curve", c->name); jStr("op", hasorder ? "hasOrderA" : "mulA"); jInt("mo", (long long)mo);
		jInt("hi", hi); jInt("i", i); jIntArr("ks", ks, nk);
		for (t = 0; t < nk; ++t)
		{
			word* d = WALLOC(m); word* b = WALLOC(2 * n);
			if (!scalar(d, mo, c, ks[t], hi)) row[t] = -9;
			else if (hasorder)
				row[t] = ecHasOrderA(AFF(c, i), c->ec, d, m, stk(ecHasOrderA_deep(n, c->ec->d, c->ec->deep, m)));
			else
				row[t] = ecMulA(b, AFF(c, i), c->ec, d, m, stk(ecMulA_deep(n, c->ec->d, c->ec->deep, m))) ? lookup(c, b) : 0;
			free(d); free(b);
		}
		row_end(row, nk);
	}
	free(ks); free(row);
}
/* d1 P_i + d2 P_j (+ d3 P_l): rows over j */
static void do_addmul(const curve_t* c, const vx_cmd* cmd)
{
	const size_t n = c->n, mo1 = (size_t)vxInt(cmd, "mo1", 8), mo2 = (size_t)vxInt(cmd, "mo2", 8), mo3 = (size_t)vxInt(cmd, "mo3", 8);
	const size_t m1 = W_OF_O(mo1), m2 = W_OF_O(mo2), m3 = W_OF_O(mo3);
	const int hi = (int)vxInt(cmd, "hi", 0);
	const long long d1 = vxInt(cmd, "d1", 0), d2 = vxInt(cmd, "d2", 0), d3 = vxInt(cmd, "d3", -1);
	const int l = (int)vxInt(cmd, "l", 1), i0 = (int)vxInt(cmd, "i", 0);
	const int N = (int)c->npts;
	long long* row = (long long*)xalloc((N + 1) * sizeof(long long));
	int i, j;
	if (mo1 % O_PER_W || mo2 % O_PER_W || mo3 % O_PER_W) { free(row); return; }
	for (i = 1; i <= N; ++i)
	{
		if (i0 && i != i0) continue;
		jBegin(); jStr("curve", c->name); jStr("op", d3 >= 0 ? "addMulA3" : "addMulA"); jInt("mo1", (long long)mo1); jInt("mo2", (long long)mo2);
		jInt("hi", hi); jInt("i", i); jInt("d1", d1); jInt("d2", d2);
		if (d3 >= 0) jInt("mo3", (long long)mo3), jInt("d3", d3), jInt("l", l);
		row[0] = -9;
		for (j = 1; j <= N; ++j)
		{
			word* e1 = WALLOC(m1); word* e2 = WALLOC(m2); word* e3 = WALLOC(m3); word* b = WALLOC(2 * n);
			bool_t r;
			if (!scalar(e1, mo1, c, d1, hi) || !scalar(e2, mo2, c, d2, hi) || !scalar(e3, mo3, c, d3 >= 0 ? d3 : 0, hi)) row[j] = -9;
			else
			{
				if (d3 >= 0)
					r = ecAddMulA(b, c->ec, stk(ecAddMulA_deep(n, c->ec->d, c->ec->deep, 3, m1, m2, m3)), 3,
						AFF(c, i), e1, m1, AFF(c, j), e2, m2, AFF(c, l), e3, m3);
				else
					r = ecAddMulA(b, c->ec, stk(ecAddMulA_deep(n, c->ec->d, c->ec->deep, 2, m1, m2)), 2,
						AFF(c, i), e1, m1, AFF(c, j), e2, m2);
				row[j] = r ? lookup(c, b) : 0;
			}
			free(e1); free(e2); free(e3); free(b);
		}
		row_end(row, (size_t)N + 1);
	}
	free(row);
}
/* ecpIsOnA on every (x, y) in [0, 2^bits)^2 (one-word fields, plain representation) */
static void do_ison(const curve_t* c, const vx_cmd* cmd)
{
	const long long lim = 1ll << vxInt(cmd, "bits", 4);
	long long x, y, ys[8]; size_t cnt;
	if (c->n != 1) return;
	for (x = 0; x < lim; ++x)
	{
		cnt = 0;
		for (y = 0; y < lim; ++y)
		{
			word* a = WALLOC(2);
			a[0] = (word)x; a[1] = (word)y;
			if (ecpIsOnA(a, c->ec, stk(ecpIsOnA_deep(1, c->f->deep))) && cnt < 8) ys[cnt++] = y;
			free(a);
		}
		jBegin(); jStr("curve", c->name); jStr("op", "isOnA"); jInt("x", x); jIntArr("ys", ys, cnt); jEnd();
	}
}
static void do_swu(const curve_t* c)
{
	long long p, s;
	long long* row;
	if (c->n != 1) return;
	p = (long long)c->f->mod[0];            /* the modulus itself is kept as a plain number */
	row = (long long*)xalloc((size_t)p * sizeof(long long));
	for (s = 0; s < p; ++s)
	{
		word* a = WALLOC(c->n); word* b = WALLOC(2 * c->n);
		octet o[8]; size_t t;
		for (t = 0; t < c->no; ++t) o[t] = (octet)(s >> (8 * t));
		qrFrom(a, o, c->f, stk(c->f->deep));
		ecpSWU(b, a, c->ec, stk(ecpSWU_deep(c->n, c->f->deep)));
		row[s] = lookup(c, b);
		free(a); free(b);
	}
	jBegin(); jStr("curve", c->name); jStr("op", "swu"); row_end(row, (size_t)p);
	free(row);
}

static int run_exec(void)
{
	static curve_t C;
	char* line = 0; size_t cap = 0; int have = 0;
	vx_cmd cmd;
	while (getline(&line, &cap, stdin) > 0)
	{
		if (!vxParse(&cmd, line)) continue;
		if (strcmp(cmd.op, "curve") == 0)
		{
			size_t no = (size_t)vxInt(&cmd, "no", 0), l1, l2, l3, l4, l5;
			octet* p = vxHex(&cmd, "p", &l1); octet* a = vxHex(&cmd, "a", &l2); octet* b = vxHex(&cmd, "b", &l3);
			octet* pts = vxHex(&cmd, "pts", &l4); octet* ord = vxHex(&cmd, "ord", &l5);
			if (have) curve_free(&C);
			have = 0;
			if (l1 != no || l2 != no || l3 != no || l4 % (2 * no) || l5 > sizeof(C.ord) ||
				!curve_create(&C, vxArg(&cmd, "name"), no, p, a, b) || !curve_points(&C, pts, l4 / (2 * no)))
			{
				jBegin(); jStr("curve", vxArg(&cmd, "name")); jStr("op", "create"); jInt("ok", 0); jEnd();
			}
			else
			{
				size_t i;
				memcpy(C.ord, ord, l5); C.ord_len = l5;
				for (C.iord = 0, i = l5; i--;) C.iord = C.iord * 256 + ord[i];
				have = 1;
				jBegin(); jStr("curve", C.name); jStr("op", "create"); jInt("ok", 1); jInt("n", (long long)C.n);
				jInt("W", B_PER_W); jInt("valid", ecpIsValid(C.ec, stk(ecpIsValid_deep(C.n, C.f->deep)))); jEnd();
			}
			free(p); free(a); free(b); free(pts); free(ord);
			continue;
		}
		if (!have) continue;
		if (strcmp(cmd.op, "mult") == 0)
		{
			size_t l; octet* d = vxHex(&cmd, "d", &l);
			if (C.nmult < 8 && l <= 64) { C.mult[C.nmult].mo = l; memcpy(C.mult[C.nmult].d, d, l); ++C.nmult; }
			free(d);
		}
		else if (strcmp(cmd.op, "pairs") == 0) do_pairs(&C);
		else if (strcmp(cmd.op, "unary") == 0) do_unary(&C);
		else if (strcmp(cmd.op, "mul") == 0) do_mul(&C, &cmd, 0);
		else if (strcmp(cmd.op, "hasorder") == 0) do_mul(&C, &cmd, 1);
		else if (strcmp(cmd.op, "addmul") == 0) do_addmul(&C, &cmd);
		else if (strcmp(cmd.op, "ison") == 0) do_ison(&C, &cmd);
		else if (strcmp(cmd.op, "swu") == 0) do_swu(&C);
		fflush(stdout);
	}
	if (have) curve_free(&C);
	free(line);
	return 0;
}

int main(int argc, char** argv)
{
	vxSeed(vxEnvSeed());
	if (getenv("VERIF_FILL")) FILL = atoi(getenv("VERIF_FILL"));
	if (getenv("VERIF_STACK_SLACK")) SLACK = (size_t)atoi(getenv("VERIF_STACK_SLACK"));
	if (argc >= 2 && strcmp(argv[1], "exec") == 0) return run_exec();
	fprintf(stderr, "usage: drv_ec exec | record <tier>\n");
	return 2;
}
