/* C07, exact stack depths of the arithmetic layers: every function of zz / pp / pri / zm / gfp / gf2 / qr that
   takes a scratch stack is called with a stack malloc'ed at EXACTLY its X_deep() size (and ring descriptions at
   exactly X_keep()), for operand lengths 1..9 words (and unequal lengths), in the ASan / assert build.  The values
   are judged elsewhere (C05); here only the sensors decide.  One ndjson line per call. */
#include "vx.h"
#include <bee2/core/mem.h>
#include <bee2/core/util.h>
#include <bee2/core/prng.h>
#include <bee2/core/word.h>
#include <bee2/math/ww.h>
#include <bee2/math/zz.h>
#include <bee2/math/pp.h>
#include <bee2/math/pri.h>
#include <bee2/math/zm.h>
#include <bee2/math/gfp.h>
#include <bee2/math/gf2.h>
#include <bee2/math/qr.h>

static size_t ncalls = 0;
static void* st(size_t deep) { void* p = malloc(deep ? deep : 1); memset(p, 0xC3, deep ? deep : 1); return p; }
static word* ww(size_t n) { word* p = (word*)malloc(O_OF_W(n ? n : 1)); vxRandBuf(p, O_OF_W(n)); return p; }
static void done(const char* f, size_t n, size_t m, size_t deep)
{
	++ncalls; jBegin(); jStr("op", f); jInt("n", (long long)n); jInt("m", (long long)m); jInt("deep", (long long)deep); jEnd();
}
#define CALL(name, n, m, deep, stmt) do { size_t d_ = (deep); void* s = st(d_); stmt; free(s); done(name, n, m, d_); } while (0)

static void zzAll(size_t n, size_t m)
{
	word* a = ww(n); word* b = ww(m); word* c = ww(2 * (n + m) + 2); word* q = ww(n + m + 2); word* mod = ww(n); word* x = ww(n); word* y = ww(n);
	word* da = ww(n + m); word* db = ww(n + m); word* bp = ww(n + 3);
	a[n - 1] |= 1; b[m - 1] |= 1; mod[0] |= 1; mod[n - 1] |= (word)1 << (B_PER_W - 1);
	zzMod(x, a, n, mod, n, c); zzMod(y, q, n, mod, n, c);	/* x, y < mod (uses c as a generous stack) */
	CALL("zzMul", n, m, zzMul_deep(n, m), zzMul(c, a, n, b, m, s));
	CALL("zzSqr", n, 0, zzSqr_deep(n), zzSqr(c, a, n, s));
	CALL("zzSqrt", n, 0, zzSqrt_deep(n), zzSqrt(c, a, n, s));
	if (n >= m) { CALL("zzDiv", n, m, zzDiv_deep(n, m), zzDiv(q, c, a, n, b, m, s)); CALL("zzMod", n, m, zzMod_deep(n, m), zzMod(c, a, n, b, m, s)); }
	CALL("zzGCD", n, m, zzGCD_deep(n, m), zzGCD(c, a, n, b, m, s));
	CALL("zzIsCoprime", n, m, zzIsCoprime_deep(n, m), zzIsCoprime(a, n, b, m, s));
	CALL("zzLCM", n, m, zzLCM_deep(n, m), zzLCM(c, a, n, b, m, s));
	CALL("zzExGCD", n, m, zzExGCD_deep(n, m), zzExGCD(c, da, db, a, n, b, m, s));
	{ word* ob = ww(m); memcpy(ob, b, O_OF_W(m)); ob[0] |= 1; CALL("zzJacobi", n, m, zzJacobi_deep(n, m), zzJacobi(a, n, ob, m, s)); free(ob); }
	if (n == m)
	{
		CALL("zzMulMod", n, 0, zzMulMod_deep(n), zzMulMod(c, x, y, mod, n, s));
		CALL("zzMulWMod", n, 0, zzMulWMod_deep(n), zzMulWMod(c, x, 0x1234567, mod, n, s));
		CALL("zzSqrMod", n, 0, zzSqrMod_deep(n), zzSqrMod(c, x, mod, n, s));
		CALL("zzInvMod", n, 0, zzInvMod_deep(n), zzInvMod(c, x, mod, n, s));
		CALL("zzDivMod", n, 0, zzDivMod_deep(n), zzDivMod(c, y, x, mod, n, s));
		if (!wwIsZero(x, n)) CALL("zzAlmostInvMod", n, 0, zzAlmostInvMod_deep(n), zzAlmostInvMod(c, x, mod, n, s));
		CALL("zzPowerMod", n, n, zzPowerMod_deep(n, n), zzPowerMod(c, x, n, y, n, mod, s));
		CALL("zzPowerMod", n, 1, zzPowerMod_deep(n, 1), zzPowerMod(c, x, n, y, 1, mod, s));
		{ word* t = ww(2 * n); t[2 * n - 1] = 0; if (n > 1) t[2 * n - 2] >>= 1; CALL("zzRed", n, 0, zzRed_deep(n), zzRed(t, mod, n, s)); free(t); }
		{ word* t = ww(2 * n); CALL("zzRedBarrStart", n, 0, zzRedBarrStart_deep(n), zzRedBarrStart(bp, mod, n, s)); CALL("zzRedBarr", n, 0, zzRedBarr_deep(n), zzRedBarr(t, mod, n, bp, s)); free(t); }
		{ word* t = ww(2 * n); zzMul(t, x, n, y, n, c); CALL("zzRedMont", n, 0, zzRedMont_deep(n), zzRedMont(t, mod, n, wordNegInv(mod[0]), s)); free(t); }
		if (n >= 2)
		{
			word* cm = ww(n); word* t = ww(2 * n); size_t i; for (i = 0; i < n; ++i) cm[i] = WORD_MAX; cm[0] = (word)0 - 0x5F;
			zzMod(x, a, n, cm, n, c); zzMul(t, x, n, x, n, c);
			CALL("zzRedCrand", n, 0, zzRedCrand_deep(n), zzRedCrand(t, cm, n, s));
			zzMul(t, x, n, x, n, c);
			CALL("zzRedCrandMont", n, 0, zzRedCrandMont_deep(n), zzRedCrandMont(t, cm, n, wordNegInv(cm[0]), s));
			free(cm); free(t);
		}
	}
	free(a); free(b); free(c); free(q); free(mod); free(x); free(y); free(da); free(db); free(bp);
}

static void ppAll(size_t n, size_t m)
{
	word* a = ww(n); word* b = ww(m); word* c = ww(2 * (n + m) + 2); word* q = ww(n + m + 2); word* mod = ww(n); word* x = ww(n); word* y = ww(n);
	word* da = ww(n + m); word* db = ww(n + m);
	a[n - 1] |= 1; b[m - 1] |= 1; mod[0] |= 1; mod[n - 1] = ((word)1 << (B_PER_W - 1)) | (mod[n - 1] >> 1); mod[0] |= 1;
	memcpy(x, a, O_OF_W(n)); x[n - 1] &= WORD_MAX >> 1; memcpy(y, q, O_OF_W(n)); y[n - 1] &= WORD_MAX >> 1;	/* deg < deg mod */
	CALL("ppMul", n, m, ppMul_deep(n, m), ppMul(c, a, n, b, m, s));
	CALL("ppSqr", n, 0, ppSqr_deep(n), ppSqr(c, a, n, s));
	CALL("ppMulW", n, 0, ppMulW_deep(n), ppMulW(c, a, n, 0x8001, s));
	CALL("ppAddMulW", n, 0, ppAddMulW_deep(n), ppAddMulW(c, a, n, 0x8001, s));
	if (n >= m) { CALL("ppDiv", n, m, ppDiv_deep(n, m), ppDiv(q, c, a, n, b, m, s)); CALL("ppMod", n, m, ppMod_deep(n, m), ppMod(c, a, n, b, m, s)); }
	CALL("ppGCD", n, m, ppGCD_deep(n, m), ppGCD(c, a, n, b, m, s));
	CALL("ppExGCD", n, m, ppExGCD_deep(n, m), ppExGCD(c, da, db, a, n, b, m, s));
	if (n == m)
	{
		CALL("ppMulMod", n, 0, ppMulMod_deep(n), ppMulMod(c, x, y, mod, n, s));
		CALL("ppSqrMod", n, 0, ppSqrMod_deep(n), ppSqrMod(c, x, mod, n, s));
		if (!wwIsZero(x, n)) { CALL("ppInvMod", n, 0, ppInvMod_deep(n), ppInvMod(c, x, mod, n, s)); CALL("ppDivMod", n, 0, ppDivMod_deep(n), ppDivMod(c, y, x, mod, n, s)); }
		{ word* t = ww(2 * n); t[2 * n - 1] = 0; CALL("ppRed", n, 0, ppRed_deep(n), ppRed(t, mod, n, s)); free(t); }
		CALL("ppIsIrred", n, 0, ppIsIrred_deep(n), ppIsIrred(mod, n, s));
		CALL("ppMinPolyMod", n, 0, ppMinPolyMod_deep(n), ppMinPolyMod(c, x, mod, n, s));
		{ size_t l = 16 * n; word* sq = ww(W_OF_B(2 * l)); word* mp = ww(W_OF_B(l + 1)); CALL("ppMinPoly", l, 0, ppMinPoly_deep(l), ppMinPoly(mp, sq, l, s)); free(sq); free(mp); }
	}
	free(a); free(b); free(c); free(q); free(mod); free(x); free(y); free(da); free(db);
}

static octet combo[256];
static void priAll(size_t n)
{
	word* a = ww(n); word* p = ww(n + 2); size_t bc = priBaseSize() < 40 ? priBaseSize() : 40;
	a[0] |= 1; a[n - 1] |= (word)1 << (B_PER_W - 1);
	CALL("priIsSieved", n, bc, priIsSieved_deep(bc), priIsSieved(a, n, bc, s));
	CALL("priIsSmooth", n, bc, priIsSmooth_deep(n), priIsSmooth(a, n, bc, s));
	CALL("priRMTest", n, 2, priRMTest_deep(n), priRMTest(a, n, 2, s));
	CALL("priIsPrime", n, 0, priIsPrime_deep(n), priIsPrime(a, n, s));
	CALL("priIsSGPrime", n, 0, priIsSGPrime_deep(n), priIsSGPrime(a, n, s));
	CALL("priNextPrime", n, bc, priNextPrime_deep(n, bc), priNextPrime(p, a, n, 20, bc, 2, s));
	CALL("priIsPrimeW", 1, 0, priIsPrimeW_deep(), priIsPrimeW(a[0], s));
	CALL("priNextPrimeW", 1, 0, priNextPrimeW_deep(), priNextPrimeW(p, a[0] >> 1, s));
	CALL("zzPowerModW", 1, 0, zzPowerModW_deep(), zzPowerModW(a[0], 12345, a[0] | 3, s));
	if (n <= 4)
	{
		size_t l = B_PER_W * n + 20; word* pp = ww(W_OF_B(l) + 1); word* q = ww(n); q[0] |= 3; q[n - 1] |= (word)1 << (B_PER_W - 1);	/* odd, bit length B_PER_W * n, so that bitlen(q) + 1 <= l <= 2 bitlen(q) */
		prngCOMBOStart(combo, 17);
		CALL("priExtendPrime", l, n, priExtendPrime_deep(l, n, bc), priExtendPrime(pp, l, q, n, 30, bc, prngCOMBOStepR, combo, s));
		free(pp); free(q);
	}
	free(a); free(p);
}

/* rings: description of exactly X_keep() octets, creation stack of exactly X_deep(), operations with exactly r->deep */
static void ringOps(const char* nm, qr_o* r, size_t no)
{
	size_t n = r->n; word* a = ww(n); word* b = ww(n); word* c = ww(n); octet* oa = (octet*)malloc(no); octet* ob = (octet*)malloc(no);
	void* s = st(r->deep);
	memset(oa, 0, no); memset(ob, 0, no); oa[0] = 3; ob[0] = 7; if (no > 1) oa[no / 2] = 0x11, ob[no - 2] = 0x22;
	if (qrFrom(a, oa, r, s) && qrFrom(b, ob, r, s))
	{
		qrMul(c, a, b, r, s); qrSqr(c, a, r, s); qrInv(c, a, r, s); qrDiv(c, a, b, r, s); qrAdd(c, a, b, r); qrTo(oa, c, r, s);
		{ void* s2 = st(qrPower_deep(n, n, r->deep)); qrPower(c, a, b, n, r, s2); free(s2); }
	}
	free(s); free(a); free(b); free(c); free(oa); free(ob);
	done(nm, n, no, r->deep);
}
static void rings(size_t no)
{
	octet* mod = (octet*)malloc(no); qr_o* r; void* s;
	vxRandBuf(mod, no); mod[0] |= 1; mod[no - 1] |= 0x80;
	r = (qr_o*)st(zmCreatePlain_keep(no)); s = st(zmCreatePlain_deep(no)); zmCreatePlain(r, mod, no, s); free(s); ringOps("zmCreatePlain", r, no); free(r);
	r = (qr_o*)st(zmCreateBarr_keep(no)); s = st(zmCreateBarr_deep(no)); zmCreateBarr(r, mod, no, s); free(s); ringOps("zmCreateBarr", r, no); free(r);
	r = (qr_o*)st(zmCreateMont_keep(no)); s = st(zmCreateMont_deep(no)); zmCreateMont(r, mod, no, s); free(s); ringOps("zmCreateMont", r, no); free(r);
	r = (qr_o*)st(zmCreate_keep(no)); s = st(zmCreate_deep(no)); zmCreate(r, mod, no, s); free(s); ringOps("zmCreate", r, no); free(r);
	{ size_t l = 8 * no; r = (qr_o*)st(zmMontCreate_keep(no)); s = st(zmMontCreate_deep(no)); zmMontCreate(r, mod, no, l, s); free(s); ringOps("zmMontCreate", r, no); free(r); }
	if (no >= 2 * O_PER_W && no % O_PER_W == 0)
	{	/* Crandall modulus B^n - c */
		memset(mod, 0xFF, no); mod[0] = 0x43;
		r = (qr_o*)st(zmCreateCrand_keep(no)); s = st(zmCreateCrand_deep(no)); zmCreateCrand(r, mod, no, s); free(s); ringOps("zmCreateCrand", r, no); free(r);
		r = (qr_o*)st(zmCreate_keep(no)); s = st(zmCreate_deep(no)); zmCreate(r, mod, no, s); free(s); ringOps("zmCreate(crand)", r, no); free(r);
	}
	{	/* a prime field: 2^(8 no) - small c, first c giving an odd number; gfpIsValid decides primality itself */
		memset(mod, 0xFF, no); mod[0] = 0xC5;
		r = (qr_o*)st(gfpCreate_keep(no)); s = st(gfpCreate_deep(no));
		if (gfpCreate(r, mod, no, s)) { void* s2 = st(gfpIsValid_deep(r->n)); gfpIsValid(r, s2); free(s2); ringOps("gfpCreate", r, no); }
		free(s); free(r);
	}
	free(mod);
}
static void gf2s(void)
{
	static const size_t F[][4] = {{71, 6, 0, 0}, {73, 25, 0, 0}, {79, 9, 0, 0}, {89, 38, 0, 0}, {113, 9, 0, 0}, {127, 1, 0, 0}, {128, 7, 2, 1}, {131, 8, 3, 2},
		{163, 7, 6, 3}, {191, 9, 0, 0}, {233, 9, 4, 1}, {257, 12, 0, 0}, {307, 8, 4, 2}, {367, 21, 0, 0}, {431, 5, 3, 1}, {256, 10, 5, 2}, {192, 7, 2, 1}};
	size_t i;
	for (i = 0; i < sizeof(F) / sizeof(F[0]); ++i)
	{
		size_t m = F[i][0], n = W_OF_B(m), no = O_OF_B(m); qr_o* f = (qr_o*)st(gf2Create_keep(m)); void* s = st(gf2Create_deep(m));
		if (gf2Create(f, F[i], s))
		{
			word* a = ww(n); word* c = ww(n); void* s2;
			wwTrimHi(a, n, m); a[0] |= 1;
			s2 = st(gf2IsValid_deep(n)); gf2IsValid(f, s2); free(s2);
			s2 = st(gf2Tr_deep(n, f->deep)); gf2Tr(a, f, s2); free(s2);
			if (m % 2) { word* b = ww(n); wwTrimHi(b, n, m); s2 = st(gf2QSolve_deep(n, f->deep)); gf2QSolve(c, a, b, f, s2); free(s2); free(b); }
			ringOps("gf2Create", f, no);
			free(a); free(c);
		}
		free(s); free(f);
	}
}

/* multiplication-type functions at longer operands (the Karatsuba recursions of zz / pp change shape with the parity of
   every level): result buffers of exactly the documented length (n + m, 2n words), stacks of exactly X_deep() */
static void mulBig(size_t n, size_t m)
{
	word* a = ww(n); word* b = ww(m); word* mod = ww(n); word* x = ww(n); word* y = ww(n);
	mod[0] |= 1; mod[n - 1] |= (word)1 << (B_PER_W - 1);
	{ word* c = ww(n + m); CALL("zzMul", n, m, zzMul_deep(n, m), zzMul(c, a, n, b, m, s)); free(c); }
	{ word* c = ww(n + m); CALL("ppMul", n, m, ppMul_deep(n, m), ppMul(c, a, n, b, m, s)); free(c); }
	if (n == m)
	{
		void* t = st(zzMod_deep(n, n)); zzMod(x, a, n, mod, n, t); zzMod(y, b, n, mod, n, t); free(t);
		{ word* c = ww(2 * n); CALL("zzSqr", n, 0, zzSqr_deep(n), zzSqr(c, a, n, s)); free(c); }
		{ word* c = ww(2 * n); CALL("ppSqr", n, 0, ppSqr_deep(n), ppSqr(c, a, n, s)); free(c); }
		{ word* c = ww(n); CALL("zzMulMod", n, 0, zzMulMod_deep(n), zzMulMod(c, x, y, mod, n, s)); free(c); }
		{ word* c = ww(n); x[n - 1] &= WORD_MAX >> 1; y[n - 1] &= WORD_MAX >> 1; CALL("ppMulMod", n, 0, ppMulMod_deep(n), ppMulMod(c, x, y, mod, n, s)); free(c); }
	}
	free(a); free(b); free(mod); free(x); free(y);
}

int main(int argc, char** argv)
{
	size_t n, m, top = (argc > 2 && strcmp(argv[2], "thorough") == 0) ? 21 : 10;
	vxSeed(vxEnvSeed());
	for (n = 1; n <= top; ++n)
	{
		zzAll(n, n); ppAll(n, n);
		for (m = 1; m <= top; m += (n % 3) + 1) if (m != n) { zzAll(n, m); ppAll(n, m); }
		if (n <= 8) priAll(n);
	}
	for (n = 9; n <= (top > 10 ? 53u : 33u); ++n)
	{
		mulBig(n, n);
		if (n > 9) { mulBig(n, n - 1); mulBig(n - 1, n); mulBig(n + 2, n); mulBig(n, 2 * n + 1); }
	}
	for (n = 1; n <= 9 * O_PER_W; n += (n < 2 * O_PER_W ? 1 : 5)) rings(n);
	gf2s();
	jBegin(); jStr("op", "total"); jInt("n", (long long)ncalls); jInt("m", 0); jInt("deep", 0); jEnd();
	return 0;
}
