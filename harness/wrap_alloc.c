/* C09/C15: link-time interposition of the allocator
   (-Wl,--wrap=malloc,--wrap=realloc,--wrap=free,--wrap=calloc).

   Between waCallBegin() and waCallEnd() every allocator call is
   - counted (allocation attempts 1, 2, ... of the call),
   - failed deliberately when the attempt number equals the fault position (failAt),
   - logged as an event of the Heap state machine (spec/sm/Heap.tla): blocks are named by the
     attempt number that created them, so identities are small and reproducible,
   - and, at free time, SNAPSHOT: the block still belongs to the caller, so its whole requested
     size is compared with memWipe()'s deterministic pattern
         p[0] = c,  p[i+1] = p[i] + 17 + ((addr + i + 1) & 15)   (mod 256)
     (mem.c: `*(p++) = (octet)ctr, ctr += 17 + ((size_t)p & 15)`): the first octet fixes the start
     counter, hence one pass decides "wiped as a whole by one memWipe" — a later partial
     overwrite or a wipe of a prefix only is detected.  Second, weaker signal: a content search
     for the registered secrets of the call (8-octet windows at 8-aligned offsets of each secret).
   realloc is allocate - copy - snapshot - free, so that the old block is judged as well.
   Outside a call the wrappers are transparent and nothing is logged (harness noise excluded).
   Events are buffered in static memory (no allocation, no stdio inside the wrappers). */
#include <stdio.h>
#include <stdlib.h>
#include <string.h>
#include <stdint.h>

void* __real_malloc(size_t);
void* __real_realloc(void*, size_t);
void* __real_calloc(size_t, size_t);
void __real_free(void*);

#define WA_MAXEV 8192
#define WA_MAXBLK 1024
#define WA_MAXSEC 24
#define WA_SECLEN 96

enum { WA_ALLOC = 1, WA_ALLOCFAIL, WA_REALLOC, WA_REALLOCFAIL, WA_FREE, WA_FREEUNKNOWN };

typedef struct { int type; long b, b2; size_t n; int wiped, hit, zero; } wa_event;
typedef struct { void* p; size_t n; long b; } wa_block;

static int wa_active = 0;
static long wa_fail_at = 0;          /* 0 = no injection */
static long wa_count = 0;            /* allocation attempts of the current call */
static long wa_nfailed = 0;
static wa_event wa_ev[WA_MAXEV];
static int wa_nev = 0, wa_overflow = 0;
static wa_block wa_blk[WA_MAXBLK];
static int wa_nblk = 0;
static unsigned char wa_sec[WA_MAXSEC][WA_SECLEN];
static size_t wa_seclen[WA_MAXSEC];
static int wa_nsec = 0;
static const char* wa_fn = "";
static int wa_secret = 0;
static long wa_peak_live = 0;

static wa_event* waEv(int type)
{
	wa_event* e;
	if (wa_nev >= WA_MAXEV) { wa_overflow = 1; return &wa_ev[WA_MAXEV - 1]; }
	e = &wa_ev[wa_nev++];
	memset(e, 0, sizeof *e);
	e->type = type;
	return e;
}

static int waFind(void* p)
{
	int i;
	for (i = 0; i < wa_nblk; ++i) if (wa_blk[i].p == p) return i;
	return -1;
}

/* whole block carries memWipe's pattern */
static int waIsWiped(const unsigned char* p, size_t n)
{
	size_t i, ctr;
	if (n == 0) return 1;
	ctr = p[0];
	for (i = 0; i < n; ++i)
	{
		if (p[i] != (unsigned char)ctr) return 0;
		ctr += 17 + ((size_t)(p + i + 1) & 15);
	}
	return 1;
}

/* constant fill (zeros or any other single octet): an overwrite by memset-like code is a wipe too,
   whatever pattern memWipe happens to use */
static int waIsZero(const unsigned char* p, size_t n)
{
	size_t i;
	for (i = 1; i < n; ++i) if (p[i] != p[0]) return 0;
	return 1;
}

static const unsigned char* waMem(const unsigned char* h, size_t hn, const unsigned char* nd, size_t nn)
{
	size_t i;
	if (nn == 0 || hn < nn) return 0;
	for (i = 0; i + nn <= hn; ++i)
		if (h[i] == nd[0] && memcmp(h + i, nd, nn) == 0) return h + i;
	return 0;
}

/* some 8-octet window (8-aligned inside the secret) of a registered secret occurs in the block */
static int waHasSecret(const unsigned char* p, size_t n)
{
	int s; size_t off;
	for (s = 0; s < wa_nsec; ++s)
		for (off = 0; off + 8 <= wa_seclen[s]; off += 8)
			if (waMem(p, n, wa_sec[s] + off, 8)) return 1;
	return 0;
}

static void* waAlloc(size_t n, int zero)
{
	void* p;
	wa_event* e;
	++wa_count;
	if (wa_fail_at && wa_count == wa_fail_at)
	{
		e = waEv(WA_ALLOCFAIL); e->b = wa_count; e->n = n;
		++wa_nfailed;
		return 0;
	}
	p = zero ? __real_calloc(1, n ? n : 1) : __real_malloc(n ? n : 1);
	if (!p) { e = waEv(WA_ALLOCFAIL); e->b = wa_count; e->n = n; ++wa_nfailed; return 0; }
	if (wa_nblk < WA_MAXBLK)
	{
		wa_blk[wa_nblk].p = p; wa_blk[wa_nblk].n = n; wa_blk[wa_nblk].b = wa_count; ++wa_nblk;
		if (wa_nblk > wa_peak_live) wa_peak_live = wa_nblk;
	}
	else wa_overflow = 1;
	e = waEv(WA_ALLOC); e->b = wa_count; e->n = n;
	return p;
}

void* __wrap_malloc(size_t n)
{
	if (!wa_active) return __real_malloc(n);
	return waAlloc(n, 0);
}

void* __wrap_calloc(size_t a, size_t b)
{
	if (!wa_active) return __real_calloc(a, b);
	if (b && a > (size_t)-1 / b) return 0;
	return waAlloc(a * b, 1);
}

void __wrap_free(void* p)
{
	int i; wa_event* e;
	if (!wa_active) { __real_free(p); return; }
	if (!p) return;
	i = waFind(p);
	if (i < 0)
	{
		/* not a block of this call: double free or foreign pointer; do not touch the allocator */
		waEv(WA_FREEUNKNOWN);
		return;
	}
	e = waEv(WA_FREE);
	e->b = wa_blk[i].b; e->n = wa_blk[i].n;
	e->wiped = waIsWiped((const unsigned char*)p, wa_blk[i].n);
	e->zero = waIsZero((const unsigned char*)p, wa_blk[i].n);
	e->hit = waHasSecret((const unsigned char*)p, wa_blk[i].n);
	wa_blk[i] = wa_blk[--wa_nblk];
	__real_free(p);
}

void* __wrap_realloc(void* p, size_t n)
{
	int i; void* q; wa_event* e; size_t old;
	if (!wa_active) return __real_realloc(p, n);
	if (!p) return waAlloc(n, 0);
	if (n == 0) { __wrap_free(p); return 0; }
	i = waFind(p);
	if (i < 0) { waEv(WA_FREEUNKNOWN); return 0; }
	++wa_count;
	if ((wa_fail_at && wa_count == wa_fail_at) || !(q = __real_malloc(n)))
	{
		e = waEv(WA_REALLOCFAIL); e->b = wa_blk[i].b; e->b2 = wa_count; e->n = n;
		++wa_nfailed;
		return 0;                       /* the old block stays valid, as the C standard says */
	}
	old = wa_blk[i].n;
	memcpy(q, p, old < n ? old : n);
	e = waEv(WA_REALLOC);
	e->b = wa_blk[i].b; e->b2 = wa_count; e->n = n;
	e->wiped = waIsWiped((const unsigned char*)p, old);
	e->zero = waIsZero((const unsigned char*)p, old);
	e->hit = waHasSecret((const unsigned char*)p, old);
	wa_blk[i].p = q; wa_blk[i].n = n; wa_blk[i].b = wa_count;
	__real_free(p);
	return q;
}

/* ------------------------------------------------------------------ API for the driver */

void waSecretClear(void) { wa_nsec = 0; }

/* register a secret of the next call (copied; at least 8 octets to be searchable) */
void waSecretAdd(const void* p, size_t n)
{
	if (!p || n < 8 || wa_nsec >= WA_MAXSEC) return;
	if (n > WA_SECLEN) n = WA_SECLEN;
	memcpy(wa_sec[wa_nsec], p, n);
	wa_seclen[wa_nsec++] = n;
}

void waCallBegin(const char* fn, int secret, long fail_at)
{
	wa_fn = fn; wa_secret = secret; wa_fail_at = fail_at;
	wa_count = 0; wa_nfailed = 0; wa_nev = 0; wa_overflow = 0; wa_nblk = 0; wa_peak_live = 0;
	wa_active = 1;
}

/* blocks the call left behind: snapshot them as well (dirty = live and not wiped) */
static long wa_dirty[64]; static int wa_ndirty = 0;
void waCallEnd(void)
{
	int i;
	wa_active = 0;
	wa_ndirty = 0;
	for (i = 0; i < wa_nblk; ++i)
		if (!waIsWiped((const unsigned char*)wa_blk[i].p, wa_blk[i].n) &&
			!waIsZero((const unsigned char*)wa_blk[i].p, wa_blk[i].n) && wa_ndirty < 64)
			wa_dirty[wa_ndirty++] = wa_blk[i].b;
}

long waAllocCount(void) { return wa_count; }
long waFailedCount(void) { return wa_nfailed; }
long waLiveCount(void) { return wa_nblk; }
int waOverflow(void) { return wa_overflow; }
int waEventCount(void) { return wa_nev; }

/* release what the call left behind (after it has been reported), so that ASan stays quiet */
void waReleaseLeaked(void)
{
	int i;
	for (i = 0; i < wa_nblk; ++i) __real_free(wa_blk[i].p);
	wa_nblk = 0;
}

/* statistics of the weaker signal over the events of the last call */
void waSignals(int* frees, int* unwiped, int* hits)
{
	int i; *frees = *unwiped = *hits = 0;
	for (i = 0; i < wa_nev; ++i)
		if (wa_ev[i].type == WA_FREE || wa_ev[i].type == WA_REALLOC)
		{
			++*frees;
			if (!wa_ev[i].wiped) ++*unwiped;
			if (wa_ev[i].hit) ++*hits;
		}
}

/* write the events of the last call as ndjson lines of the Heap trace */
void waFlush(FILE* f, long id, long err)
{
	int i;
	fprintf(f, "{\"e\":\"Reset\",\"id\":%ld}\n", id);
	fprintf(f, "{\"e\":\"CallBegin\",\"id\":%ld,\"fn\":\"%s\",\"secret\":%s,\"failAt\":%ld}\n",
		id, wa_fn, wa_secret ? "true" : "false", wa_fail_at);
	for (i = 0; i < wa_nev; ++i)
	{
		const wa_event* e = &wa_ev[i];
		switch (e->type)
		{
		case WA_ALLOC:
			fprintf(f, "{\"e\":\"Alloc\",\"id\":%ld,\"b\":%ld,\"n\":%lu}\n", id, e->b, (unsigned long)e->n); break;
		case WA_ALLOCFAIL:
			fprintf(f, "{\"e\":\"AllocFail\",\"id\":%ld,\"b\":%ld,\"n\":%lu}\n", id, e->b, (unsigned long)e->n); break;
		case WA_REALLOC:
			fprintf(f, "{\"e\":\"Realloc\",\"id\":%ld,\"b\":%ld,\"b2\":%ld,\"n\":%lu,\"wiped\":%s,\"hit\":%s}\n",
				id, e->b, e->b2, (unsigned long)e->n, e->wiped ? "true" : "false", e->hit ? "true" : "false"); break;
		case WA_REALLOCFAIL:
			fprintf(f, "{\"e\":\"ReallocFail\",\"id\":%ld,\"b\":%ld,\"b2\":%ld,\"n\":%lu}\n", id, e->b, e->b2, (unsigned long)e->n); break;
		case WA_FREE:
			fprintf(f, "{\"e\":\"Free\",\"id\":%ld,\"b\":%ld,\"n\":%lu,\"wiped\":%s,\"hit\":%s,\"zero\":%s}\n",
				id, e->b, (unsigned long)e->n, e->wiped ? "true" : "false", e->hit ? "true" : "false",
				e->zero ? "true" : "false"); break;
		default:
			fprintf(f, "{\"e\":\"FreeUnknown\",\"id\":%ld}\n", id); break;
		}
	}
	fprintf(f, "{\"e\":\"CallEnd\",\"id\":%ld,\"err\":%ld,\"live\":%d,\"dirty\":[", id, err, wa_nblk);
	for (i = 0; i < wa_ndirty; ++i) fprintf(f, i ? ",%ld" : "%ld", wa_dirty[i]);
	fprintf(f, "]}\n");
}
