/* C04: bake (BMQV, BSTS, BPACE) and BAUTH driver.
   stdin: one case per line
     bake id=N proto=BMQV|BSTS|BPACE|BAUTH l=128|192|256 kca=0|1 kcb=0|1 mode=steps|run
          at=none|setup|M1..M4 part=<name> kind=<kind> who=A|B|- j=<octet index inside the part> mask=<xor mask>
   The case is executed on the real Start/StepN functions (mode=steps) or through RunA/RunB over an in-memory
   channel (mode=run) with keys, passwords, hello strings and generator tapes derived from VERIF_SEED and id.
   The attacker's action is made concrete here:
     flip   octet j of the part xor mask          other  another valid point (k G by the library's own functions)
     neg    (x, p - y)                             off    a valid point with one bit of y changed, checked off the curve
     xgep   x replaced by p                        zero   all-zero octets
     set-up: hello (one octet of A's / B's helloa differs), pwd, key (another valid private key), cert.reject (a name
     octet the peer's validator refuses), cert.off (public key off the curve in the certificate the peer sees),
     cert.data (an octet the validators do not look at).
   Output: one ndjson line per case (op = "run"): the descriptor, the concrete altered point (pt) and the original one
   (orig) for alterations of points, the return code of every executed step, who holds a key, whether the keys agree.
   Judged by spec/trace/Trace_Bake.tla.  States are allocated at exactly their _keep() sizes, messages at their lengths. */
#include "vx.h"
#include <bee2/core/err.h>
#include <bee2/core/mem.h>
#include <bee2/crypto/bign.h>
#include <bee2/crypto/bake.h>
#include <bee2/crypto/btok.h>

static const char* errName(err_t e)
{
	static char buf[32];
	switch (e)
	{
	case ERR_OK: return "OK";
	case ERR_BAD_INPUT: return "BAD_INPUT";
	case ERR_BAD_POINT: return "BAD_POINT";
	case ERR_BAD_PARAMS: return "BAD_PARAMS";
	case ERR_BAD_CERT: return "BAD_CERT";
	case ERR_BAD_LOGIC: return "BAD_LOGIC";
	case ERR_BAD_RNG: return "BAD_RNG";
	case ERR_AUTH: return "AUTH";
	case ERR_FILE_NOT_FOUND: return "BLOCKED";
	case ERR_BAD_PUBKEY: return "BAD_PUBKEY";
	case ERR_BAD_KEYTOKEN: return "BAD_KEYTOKEN";
	}
	sprintf(buf, "E%u", (unsigned)e);
	return buf;
}
static void* xalloc(size_t n) { void* p = malloc(n ? n : 1); if (!p) { fprintf(stderr, "driver: out of memory\n"); exit(3); } memset(p, 0, n ? n : 1); return p; }

/* ---- generator tapes: one per party, restartable */
typedef struct { uint64_t s0, s; } tape_t;
static void tapeGen(void* buf, size_t count, void* st)
{
	tape_t* t = (tape_t*)st; octet* b = (octet*)buf;
	while (count--)
	{
		uint64_t z = (t->s += 0x9E3779B97F4A7C15ull);
		z = (z ^ (z >> 30)) * 0xBF58476D1CE4E5B9ull; z = (z ^ (z >> 27)) * 0x94D049BB133111EBull;
		*b++ = (octet)((z ^ (z >> 31)) >> 17);
	}
}

/* ---- certificates: name[8] || serial[1] || pubkey[l/2]; validators */
#define CERT_HDR 9
static octet g_truepub[2][128];      /* the true public keys of A and B (own-certificate validator stub) */
static size_t g_l;
static err_t valStrict(octet* pubkey, const bign_params* params, const octet* data, size_t len)
{
	size_t pl = params->l / 2;
	if (len != CERT_HDR + pl || (data[0] != 'A' && data[0] != 'B') || memcmp(data + 1, "0000001", 7) != 0)
		return ERR_BAD_CERT;
	if (pubkey) memcpy(pubkey, data + CERT_HDR, pl);
	return ERR_OK;
}
/* a party's validator of its OWN certificate: lenient, and it knows its public key */
static err_t valOwnA(octet* pubkey, const bign_params* params, const octet* data, size_t len)
{ (void)data; (void)len; if (pubkey) memcpy(pubkey, g_truepub[0], params->l / 2); return ERR_OK; }
static err_t valOwnB(octet* pubkey, const bign_params* params, const octet* data, size_t len)
{ (void)data; (void)len; if (pubkey) memcpy(pubkey, g_truepub[1], params->l / 2); return ERR_OK; }

/* ---- the case */
typedef struct
{
	long id; char proto[8]; size_t l, no; int kca, kcb; char mode[8];
	char at[8], part[8], kind[16], who[4]; long j; int mask;
	bign_params params[1];
	octet d[2][64];              /* long-term private keys as USED by A, B */
	octet certdata[2][2][CERT_HDR + 128];   /* [holder X][certificate of Y as X has / sends it] */
	bake_cert cert[2][2];
	octet hello[2][2][16];       /* [party][a|b] */
	size_t hal, hbl;             /* lengths of helloa / hellob (both parties use the same; 0 = absent) */
	octet pwd[2][8];
	tape_t tape[2];
	/* observations */
	octet orig[128], pt[128]; int havept;
	char steps[16][24]; int nsteps;
	int done[2]; octet key[2][32];
} bcase;

static void logStep(bcase* c, const char* step, err_t rc)
{
	if (c->nsteps < 16) sprintf(c->steps[c->nsteps++], "%s=%s", step, errName(rc));
}

/* ---- concrete alterations of a part [off, off + len) of a message */
static void subFromP(octet* y, const octet* p, size_t no)     /* y <- p - y (little-endian) */
{
	size_t i; int borrow = 0;
	for (i = 0; i < no; ++i) { int t = (int)p[i] - (int)y[i] - borrow; borrow = t < 0; y[i] = (octet)(t + (borrow ? 256 : 0)); }
}
static void alterPart(bcase* c, octet* msg, size_t off, size_t len, int isPoint)
{
	size_t no = c->no; octet* p = msg + off;
	if (isPoint) memcpy(c->orig, p, 2 * no);
	if (strcmp(c->kind, "flip") == 0)
		p[(size_t)c->j % len] ^= (octet)(c->mask ? c->mask : 1);
	else if (strcmp(c->kind, "other") == 0)
	{
		octet priv[64]; tape_t t = {0, (uint64_t)c->id * 7919u + 13u};
		if (bignKeypairGen(priv, p, c->params, tapeGen, &t) != ERR_OK) { fprintf(stderr, "driver: cannot build another point\n"); exit(3); }
	}
	else if (strcmp(c->kind, "neg") == 0) subFromP(p + no, c->params->p, no);
	else if (strcmp(c->kind, "off") == 0)
	{
		int b = 0;
		do p[no + (size_t)(b / 8)] ^= (octet)(1 << (b % 8)), ++b; while (bignPubkeyVal(c->params, p) == ERR_OK && b < 64);
	}
	else if (strcmp(c->kind, "xgep") == 0) memcpy(p, c->params->p, no);
	else if (strcmp(c->kind, "zero") == 0) memset(p, 0, 2 * no);
	if (isPoint) { memcpy(c->pt, p, 2 * no); c->havept = 1; }
}
/* offset / length of a named part inside message `name` of the protocol; 0 if the part is not there */
static int partSpan(const bcase* c, const char* name, size_t mlen, size_t* off, size_t* len, int* isPoint)
{
	size_t no = c->no; const char* p = c->part;
	*isPoint = 0;
	if (strcmp(name, c->at) != 0) return 0;
	if (strcmp(c->proto, "BMQV") == 0)
	{
		if (!strcmp(name, "M1") && !strcmp(p, "Vb")) { *off = 0; *len = 2 * no; *isPoint = 1; return 1; }
		if (!strcmp(name, "M2") && !strcmp(p, "Va")) { *off = 0; *len = 2 * no; *isPoint = 1; return 1; }
		if (!strcmp(name, "M2") && !strcmp(p, "Ta")) { *off = 2 * no; *len = 8; return 1; }
		if (!strcmp(name, "M3") && !strcmp(p, "Tb")) { *off = 0; *len = 8; return 1; }
	}
	else if (strcmp(c->proto, "BSTS") == 0)
	{
		if (!strcmp(name, "M1") && !strcmp(p, "Vb")) { *off = 0; *len = 2 * no; *isPoint = 1; return 1; }
		if (!strcmp(name, "M2") && !strcmp(p, "Va")) { *off = 0; *len = 2 * no; *isPoint = 1; return 1; }
		if (!strcmp(name, "M2") && !strcmp(p, "Ya")) { *off = 2 * no; *len = mlen - 2 * no - 8; return 1; }
		if (!strcmp(name, "M2") && !strcmp(p, "Ta")) { *off = mlen - 8; *len = 8; return 1; }
		if (!strcmp(name, "M3") && !strcmp(p, "Yb")) { *off = 0; *len = mlen - 8; return 1; }
		if (!strcmp(name, "M3") && !strcmp(p, "Tb")) { *off = mlen - 8; *len = 8; return 1; }
	}
	else if (strcmp(c->proto, "BPACE") == 0)
	{
		if (!strcmp(name, "M1") && !strcmp(p, "Yb")) { *off = 0; *len = no / 2; return 1; }
		if (!strcmp(name, "M2") && !strcmp(p, "Ya")) { *off = 0; *len = no / 2; return 1; }
		if (!strcmp(name, "M2") && !strcmp(p, "Va")) { *off = no / 2; *len = 2 * no; *isPoint = 1; return 1; }
		if (!strcmp(name, "M3") && !strcmp(p, "Vb")) { *off = 0; *len = 2 * no; *isPoint = 1; return 1; }
		if (!strcmp(name, "M3") && !strcmp(p, "Tb")) { *off = 2 * no; *len = 8; return 1; }
		if (!strcmp(name, "M4") && !strcmp(p, "Ta")) { *off = 0; *len = 8; return 1; }
	}
	else
	{
		if (!strcmp(name, "M1") && !strcmp(p, "Vct")) { *off = 0; *len = 2 * no; *isPoint = 1; return 1; }
		if (!strcmp(name, "M1") && !strcmp(p, "Zct")) { *off = 2 * no; *len = no / 2 + 16; return 1; }
		if (!strcmp(name, "M2") && !strcmp(p, "Tt")) { *off = 0; *len = 8; return 1; }
		if (!strcmp(name, "M2") && !strcmp(p, "Rt")) { *off = 8; *len = 16; return 1; }
		if (!strcmp(name, "M3") && !strcmp(p, "Zct2")) { *off = 0; *len = mlen - 8; return 1; }
		if (!strcmp(name, "M3") && !strcmp(p, "Tct")) { *off = mlen - 8; *len = 8; return 1; }
	}
	return 0;
}
static void attack(bcase* c, const char* name, octet* msg, size_t mlen)
{
	size_t off, len; int isPoint;
	if (partSpan(c, name, mlen, &off, &len, &isPoint) && off + len <= mlen && len)
		alterPart(c, msg, off, len, isPoint);
}

/* ---- set-up */
static void setup(bcase* c)
{
	int X, Y; size_t pl = c->l / 2; octet pub[2][128]; tape_t t;
	const char* oid = c->l == 128 ? "1.2.112.0.2.0.34.101.45.3.1" : c->l == 192 ? "1.2.112.0.2.0.34.101.45.3.2" : "1.2.112.0.2.0.34.101.45.3.3";
	int isSetup = strcmp(c->at, "setup") == 0; int w = c->who[0] == 'B';
	if (bignParamsStd(c->params, oid) != ERR_OK) { fprintf(stderr, "driver: no parameters\n"); exit(3); }
	c->no = c->l / 4; g_l = c->l;
	t.s0 = t.s = vxEnvSeed() * 1000003u + (uint64_t)c->id * 31u + 5u;
	for (X = 0; X < 2; ++X)
	{
		if (bignKeypairGen(c->d[X], pub[X], c->params, tapeGen, &t) != ERR_OK) exit(3);
		memcpy(g_truepub[X], pub[X], pl);
		for (Y = 0; Y < 2; ++Y)
		{
			memcpy(c->hello[X][Y], Y ? "hello from B...." : "hello from A....", 16);
		}
		tapeGen(c->pwd[X], 8, &t);
		c->tape[X].s0 = c->tape[X].s = t.s + 77u * (uint64_t)(X + 1);
	}
	memcpy(c->pwd[1], c->pwd[0], 8);
	for (X = 0; X < 2; ++X) for (Y = 0; Y < 2; ++Y)
	{
		octet* dd = c->certdata[X][Y];
		dd[0] = Y ? 'B' : 'A'; memcpy(dd + 1, "0000001", 7); dd[8] = 0x11; memcpy(dd + CERT_HDR, pub[Y], pl);
		c->cert[X][Y].data = dd; c->cert[X][Y].len = CERT_HDR + pl;
		c->cert[X][Y].val = X == Y ? (X ? valOwnB : valOwnA) : valStrict;
	}
	{	/* hello strings of different lengths, one or both absent (bake.h: both are optional) */
		static const size_t LA[6] = { 16, 9, 0, 4, 16, 5 }, LB[6] = { 16, 4, 7, 0, 5, 16 };
		c->hal = LA[(size_t)(c->id * 7 + 3) % 6]; c->hbl = LB[(size_t)(c->id * 7 + 3) % 6];
		if (isSetup && strcmp(c->kind, "hello") == 0 && c->hal < 4) c->hal = 9;
	}
	if (!isSetup) return;
	if (strcmp(c->kind, "hello") == 0) c->hello[w][0][3] ^= 0x20;             /* who's view of helloa differs */
	else if (strcmp(c->kind, "pwd") == 0) c->pwd[w][2] ^= 0x01;
	else if (strcmp(c->kind, "key") == 0) { octet pubx[128]; tape_t t2 = {0, t.s + 991u}; if (bignKeypairGen(c->d[w], pubx, c->params, tapeGen, &t2) != ERR_OK) exit(3); }
	else
	{
		/* the certificate of `who` as the peer gets it: the peer's copy (BMQV; BAUTH: the terminal's certificate),
		   the holder's own data otherwise (it travels inside a message) */
		int peerCopy = strcmp(c->proto, "BMQV") == 0 || (strcmp(c->proto, "BAUTH") == 0 && w == 0);
		octet* dd = peerCopy ? c->certdata[1 - w][w] : c->certdata[w][w];
		if (strcmp(c->kind, "cert.reject") == 0) dd[4] ^= 0x01;
		else if (strcmp(c->kind, "cert.data") == 0) dd[8] ^= 0x01;
		else if (strcmp(c->kind, "cert.off") == 0)
		{
			int b = 0;
			do dd[CERT_HDR + c->no + (size_t)(b / 8)] ^= (octet)(1 << (b % 8)), ++b; while (bignPubkeyVal(c->params, dd + CERT_HDR) == ERR_OK && b < 64);
		}
	}
}
static void settingsOf(bcase* c, int X, bake_settings* s)
{
	memset(s, 0, sizeof *s);
	s->kca = c->kca; s->kcb = c->kcb;
	s->helloa = c->hal ? c->hello[X][0] : 0; s->helloa_len = c->hal; s->hellob = c->hbl ? c->hello[X][1] : 0; s->hellob_len = c->hbl;
	s->rng = tapeGen; s->rng_state = &c->tape[X];
}

/* ---- mode = steps */
#define STOP(step, rc) do { logStep(c, step, rc); if ((rc) != ERR_OK) goto end; } while (0)
/* (one function per protocol: the label `end` is local to each) */
static void stepsBMQV(bcase* c)
{
	bake_settings sa[1], sb[1]; err_t rc; size_t no = c->no, cl = CERT_HDR + c->l / 2;
	void* stA = 0; void* stB = 0; octet *m1 = 0, *m2 = 0, *m3 = 0, *m4 = 0; size_t n1, n2, n3, n4;
	int aDone = 0, bDone = 0;
	settingsOf(c, 0, sa); settingsOf(c, 1, sb);
	(void)cl; (void)n4; (void)m4;
		stA = xalloc(bakeBMQV_keep(c->l)); stB = xalloc(bakeBMQV_keep(c->l));
		rc = bakeBMQVStart(stB, c->params, sb, c->d[1], &c->cert[1][1]); STOP("StartB", rc);
		rc = bakeBMQVStart(stA, c->params, sa, c->d[0], &c->cert[0][0]); STOP("StartA", rc);
		n1 = 2 * no; m1 = (octet*)xalloc(n1);
		rc = bakeBMQVStep2(m1, stB); STOP("Step2", rc); attack(c, "M1", m1, n1);
		n2 = 2 * no + (c->kca ? 8u : 0); m2 = (octet*)xalloc(n2);
		rc = bakeBMQVStep3(m2, m1, &c->cert[0][1], stA); STOP("Step3", rc); attack(c, "M2", m2, n2);
		if (!c->kcb) aDone = 1;
		n3 = c->kcb ? 8u : 0; m3 = (octet*)xalloc(n3);
		rc = bakeBMQVStep4(m3, m2, &c->cert[1][0], stB); STOP("Step4", rc); attack(c, "M3", m3, n3);
		bDone = 1;
		if (c->kcb) { rc = bakeBMQVStep5(m3, stA); STOP("Step5", rc); aDone = 1; }
	end:
		if (aDone) c->done[0] = bakeBMQVStepG(c->key[0], stA) == ERR_OK;
		if (bDone) c->done[1] = bakeBMQVStepG(c->key[1], stB) == ERR_OK;
	free(stA); free(stB); free(m1); free(m2); free(m3); free(m4);
}
static void stepsBSTS(bcase* c)
{
	bake_settings sa[1], sb[1]; err_t rc; size_t no = c->no, cl = CERT_HDR + c->l / 2;
	void* stA = 0; void* stB = 0; octet *m1 = 0, *m2 = 0, *m3 = 0, *m4 = 0; size_t n1, n2, n3, n4;
	int aDone = 0, bDone = 0;
	settingsOf(c, 0, sa); settingsOf(c, 1, sb);
	(void)cl; (void)n4; (void)m4;
		stA = xalloc(bakeBSTS_keep(c->l)); stB = xalloc(bakeBSTS_keep(c->l));
		rc = bakeBSTSStart(stB, c->params, sb, c->d[1], &c->cert[1][1]); STOP("StartB", rc);
		rc = bakeBSTSStart(stA, c->params, sa, c->d[0], &c->cert[0][0]); STOP("StartA", rc);
		n1 = 2 * no; m1 = (octet*)xalloc(n1);
		rc = bakeBSTSStep2(m1, stB); STOP("Step2", rc); attack(c, "M1", m1, n1);
		n2 = 3 * no + cl + 8; m2 = (octet*)xalloc(n2);
		rc = bakeBSTSStep3(m2, m1, stA); STOP("Step3", rc); attack(c, "M2", m2, n2);
		n3 = no + cl + 8; m3 = (octet*)xalloc(n3);
		rc = bakeBSTSStep4(m3, m2, n2, valStrict, stB); STOP("Step4", rc); attack(c, "M3", m3, n3);
		bDone = 1;
		rc = bakeBSTSStep5(m3, n3, valStrict, stA); STOP("Step5", rc); aDone = 1;
	end:
		if (aDone) c->done[0] = bakeBSTSStepG(c->key[0], stA) == ERR_OK;
		if (bDone) c->done[1] = bakeBSTSStepG(c->key[1], stB) == ERR_OK;
	free(stA); free(stB); free(m1); free(m2); free(m3); free(m4);
}
static void stepsBPACE(bcase* c)
{
	bake_settings sa[1], sb[1]; err_t rc; size_t no = c->no, cl = CERT_HDR + c->l / 2;
	void* stA = 0; void* stB = 0; octet *m1 = 0, *m2 = 0, *m3 = 0, *m4 = 0; size_t n1, n2, n3, n4;
	int aDone = 0, bDone = 0;
	settingsOf(c, 0, sa); settingsOf(c, 1, sb);
	(void)cl; (void)n4; (void)m4;
		stA = xalloc(bakeBPACE_keep(c->l)); stB = xalloc(bakeBPACE_keep(c->l));
		rc = bakeBPACEStart(stB, c->params, sb, c->pwd[1], 8); STOP("StartB", rc);
		rc = bakeBPACEStart(stA, c->params, sa, c->pwd[0], 8); STOP("StartA", rc);
		n1 = no / 2; m1 = (octet*)xalloc(n1);
		rc = bakeBPACEStep2(m1, stB); STOP("Step2", rc); attack(c, "M1", m1, n1);
		n2 = 5 * no / 2; m2 = (octet*)xalloc(n2);
		rc = bakeBPACEStep3(m2, m1, stA); STOP("Step3", rc); attack(c, "M2", m2, n2);
		n3 = 2 * no + (c->kcb ? 8u : 0); m3 = (octet*)xalloc(n3);
		rc = bakeBPACEStep4(m3, m2, stB); STOP("Step4", rc); attack(c, "M3", m3, n3);
		if (!c->kca) bDone = 1;
		n4 = c->kca ? 8u : 0; m4 = (octet*)xalloc(n4);
		rc = bakeBPACEStep5(m4, m3, stA); STOP("Step5", rc); attack(c, "M4", m4, n4);
		aDone = 1;
		if (c->kca) { rc = bakeBPACEStep6(m4, stB); STOP("Step6", rc); bDone = 1; }
	end:
		if (aDone) c->done[0] = bakeBPACEStepG(c->key[0], stA) == ERR_OK;
		if (bDone) c->done[1] = bakeBPACEStepG(c->key[1], stB) == ERR_OK;
	free(stA); free(stB); free(m1); free(m2); free(m3); free(m4);
}
static void stepsBAUTH(bcase* c)
{
	bake_settings sa[1], sb[1]; err_t rc; size_t no = c->no, cl = CERT_HDR + c->l / 2;
	void* stA = 0; void* stB = 0; octet *m1 = 0, *m2 = 0, *m3 = 0, *m4 = 0; size_t n1, n2, n3, n4;
	int aDone = 0, bDone = 0;
	settingsOf(c, 0, sa); settingsOf(c, 1, sb);
	(void)cl; (void)n4; (void)m4;
		stA = xalloc(btokBAuthT_keep(c->l)); stB = xalloc(btokBAuthCT_keep(c->l));
		rc = btokBAuthCTStart(stB, c->params, sb, c->d[1], &c->cert[1][1]); STOP("StartB", rc);
		rc = btokBAuthTStart(stA, c->params, sa, c->d[0], &c->cert[0][0]); STOP("StartA", rc);
		n1 = 2 * no + no / 2 + 16; m1 = (octet*)xalloc(n1);
		rc = btokBAuthCTStep2(m1, &c->cert[1][0], stB); STOP("Step2", rc); attack(c, "M1", m1, n1);
		n2 = 8 + (c->kcb ? 16u : 0); m2 = (octet*)xalloc(n2);
		rc = btokBAuthTStep3(m2, m1, stA); STOP("Step3", rc); attack(c, "M2", m2, n2);
		if (!c->kcb) aDone = 1;
		n3 = c->kcb ? no + cl + 8 : 0; m3 = (octet*)xalloc(n3);
		rc = btokBAuthCTStep4(m3, m2, stB); STOP("Step4", rc); attack(c, "M3", m3, n3);
		bDone = 1;
		if (c->kcb) { rc = btokBAuthTStep5(m3, n3, valStrict, stA); STOP("Step5", rc); aDone = 1; }
	end:
		if (aDone) c->done[0] = btokBAuthTStepG(c->key[0], stA) == ERR_OK;
		if (bDone) c->done[1] = btokBAuthCTStepG(c->key[1], stB) == ERR_OK;
	free(stA); free(stB); free(m1); free(m2); free(m3); free(m4);
}
static void runSteps(bcase* c)
{
	if (strcmp(c->proto, "BMQV") == 0) stepsBMQV(c);
	else if (strcmp(c->proto, "BSTS") == 0) stepsBSTS(c);
	else if (strcmp(c->proto, "BPACE") == 0) stepsBPACE(c);
	else stepsBAUTH(c);
}

/* ---- mode = run: RunA / RunB over an in-memory channel (the file-like channel of test/crypto/bake_test.c) */
typedef struct { int valid; octet buf[1024]; size_t len; } msg_t;
static msg_t g_msgs[4];
static bcase* g_case;
typedef struct { size_t i, offset; } file_st;
static err_t chWrite(size_t* written, const void* buf, size_t count, void* file)
{
	file_st* f = (file_st*)file; static const char* names[] = {"M1", "M2", "M3", "M4"};
	if (f->i >= 4) return ERR_FILE_WRITE;
	if (count > sizeof(g_msgs[f->i].buf)) return ERR_OUTOFMEMORY;
	g_msgs[f->i].valid = 1; memcpy(g_msgs[f->i].buf, buf, count);
	*written = g_msgs[f->i].len = count;
	attack(g_case, names[f->i], g_msgs[f->i].buf, count);     /* the attacker sits on the channel */
	++f->i; f->offset = 0;
	return ERR_OK;
}
static err_t chRead(size_t* read, void* buf, size_t count, void* file)
{
	file_st* f = (file_st*)file;
	if (f->i >= 4) return ERR_FILE_READ;
	if (!g_msgs[f->i].valid) return ERR_FILE_NOT_FOUND;
	/* every second case: a 512-octet read (the block-wise collection of M2 / M3 in the BSTS drivers) is delivered in pieces of at
	   most 100 octets, reporting ERR_OK while more of the message remains (defs.h, read_i: "possibly fewer than count octets
	   ... waiting for data in the channel").  The fixed-size messages are read by the drivers with ONE read whose delivered
	   length is not looked at, so short reads are not applied to them (observation in DESIGN.md) */
	if (g_case && (g_case->id / 2) % 2 && count >= 512 && g_msgs[f->i].len - f->offset > 100)
	{
		memcpy(buf, g_msgs[f->i].buf + f->offset, *read = 100);
		f->offset += 100;
		return ERR_OK;
	}
	if (count + f->offset > g_msgs[f->i].len)
	{
		memcpy(buf, g_msgs[f->i].buf + f->offset, *read = g_msgs[f->i].len - f->offset);
		++f->i; f->offset = 0;
		return ERR_MAX;
	}
	memcpy(buf, g_msgs[f->i].buf + f->offset, *read = count);
	f->offset += count;
	if (f->offset == g_msgs[f->i].len) ++f->i, f->offset = 0;
	return ERR_OK;
}
static void runRun(bcase* c)
{
	bake_settings sa[1], sb[1]; err_t ca = ERR_FILE_NOT_FOUND, cb = ERR_FILE_NOT_FOUND; int it;
	file_st fa[1], fb[1];
	memset(g_msgs, 0, sizeof g_msgs); g_case = c;
	for (it = 0; it < 6 && (ca == ERR_FILE_NOT_FOUND || cb == ERR_FILE_NOT_FOUND); ++it)
	{
		int before = g_msgs[0].valid + g_msgs[1].valid + g_msgs[2].valid + g_msgs[3].valid;
		settingsOf(c, 0, sa); settingsOf(c, 1, sb);
		c->tape[0].s = c->tape[0].s0; c->tape[1].s = c->tape[1].s0;
		fa->i = fa->offset = fb->i = fb->offset = 0;
		if (strcmp(c->proto, "BMQV") == 0)
		{
			cb = bakeBMQVRunB(c->key[1], c->params, sb, c->d[1], &c->cert[1][1], &c->cert[1][0], chRead, chWrite, fb);
			ca = bakeBMQVRunA(c->key[0], c->params, sa, c->d[0], &c->cert[0][0], &c->cert[0][1], chRead, chWrite, fa);
		}
		else if (strcmp(c->proto, "BSTS") == 0)
		{
			cb = bakeBSTSRunB(c->key[1], c->params, sb, c->d[1], &c->cert[1][1], valStrict, chRead, chWrite, fb);
			ca = bakeBSTSRunA(c->key[0], c->params, sa, c->d[0], &c->cert[0][0], valStrict, chRead, chWrite, fa);
		}
		else
		{
			cb = bakeBPACERunB(c->key[1], c->params, sb, c->pwd[1], 8, chRead, chWrite, fb);
			ca = bakeBPACERunA(c->key[0], c->params, sa, c->pwd[0], 8, chRead, chWrite, fa);
		}
		if (before == g_msgs[0].valid + g_msgs[1].valid + g_msgs[2].valid + g_msgs[3].valid && it > 0) break;   /* no progress */
	}
	logStep(c, "RunA", ca); logStep(c, "RunB", cb);
	c->done[0] = ca == ERR_OK; c->done[1] = cb == ERR_OK;
}

int main(int argc, char** argv)
{
	static char line[1 << 12]; vx_cmd cmd; (void)argc; (void)argv;
	while (fgets(line, sizeof line, stdin))
	{
		static bcase c; int i; const char* a;
		if (!vxParse(&cmd, line)) continue;
		memset(&c, 0, sizeof c);
		c.id = (long)vxInt(&cmd, "id", 0); c.l = (size_t)vxInt(&cmd, "l", 128);
		c.kca = (int)vxInt(&cmd, "kca", 1); c.kcb = (int)vxInt(&cmd, "kcb", 1);
		c.j = (long)vxInt(&cmd, "j", 0); c.mask = (int)vxInt(&cmd, "mask", 1);
#define SARG(field, nm, def) do { a = vxArg(&cmd, nm); strncpy(c.field, a ? a : def, sizeof c.field - 1); } while (0)
		SARG(proto, "proto", "BMQV"); SARG(mode, "mode", "steps"); SARG(at, "at", "none"); SARG(part, "part", "-");
		SARG(kind, "kind", "-"); SARG(who, "who", "-");
		setup(&c);
		if (strcmp(c.mode, "run") == 0 && strcmp(c.proto, "BAUTH") != 0) runRun(&c); else runSteps(&c);
		jBegin(); jStr("e", "Op"); jStr("op", "run"); jInt("id", c.id); jStr("proto", c.proto); jInt("l", (long long)c.l);
		jBool("kca", c.kca); jBool("kcb", c.kcb); jStr("mode", c.mode);
		jStr("at", c.at); jStr("part", c.part); jStr("kind", c.kind); jStr("who", c.who); jInt("j", c.j); jInt("mask", c.mask);
		jOct("pt", c.pt, c.havept ? 2 * c.no : 0); jOct("orig", c.orig, c.havept ? 2 * c.no : 0);
		jSep(); fprintf(vx_out, "\"steps\":[");
		for (i = 0; i < c.nsteps; ++i) fprintf(vx_out, "%s\"%s\"", i ? "," : "", c.steps[i]);
		fputc(']', vx_out);
		jBool("doneA", c.done[0]); jBool("doneB", c.done[1]);
		jBool("agree", c.done[0] && c.done[1] && memcmp(c.key[0], c.key[1], 32) == 0);
		jEnd();
	}
	fflush(stdout);
	return 0;
}
