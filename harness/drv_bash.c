/* C03: bash-f / bash-hash / bash-prg, brng, botp.
   record <what> <tier>  : enumerated-structure calls of the library, one ndjson line per call
                           (what = bash | brng | botp | suites); data octets from VERIF_SEED
   scripts <n> <len>     : seeded random command scripts of the programmable automaton
                           (Pattern S trace: one line per call with the projected state)
   replay                : stdin = command scripts predicted by the specification
                           (spec/mc/MC_BashPrg); executes them, compares after every command,
                           prints one result line per case
   steps                 : (C10) stdin = fragment scripts on the Start/Step/Get bundles with Get positions
                           and state relocation; one line per script
   overlap               : (C11) stdin = "overlap f=bashHash l= len= doff=": hash placed inside / around src in one arena
   platform              : prints the bash-f platform compiled into the library */
#include "vx.h"
#include <bee2/core/err.h>
#include <bee2/core/mem.h>
#include <bee2/core/str.h>
#include <bee2/core/tm.h>
#include <bee2/crypto/bash.h>
#include <bee2/crypto/belt.h>
#include <bee2/crypto/brng.h>
#include <bee2/crypto/botp.h>

extern const char bash_platform[];

/* mirror of bash_prg_st (src/crypto/bash/bash_prg.c) for the projected state */
typedef struct { size_t l; size_t d; octet s[192]; size_t buf_len; size_t pos; octet t[192]; } prg_view;

static octet* st_alloc(size_t n) { octet* p = (octet*)calloc(n + 64, 1); if (!p) exit(3); return p; }

static const char* errName(err_t e)
{
	if (e == ERR_OK) return "OK";
	if (e == ERR_BAD_PARAMS) return "BAD_PARAMS";
	if (e == ERR_BAD_FORMAT) return "BAD_FORMAT";
	if (e == ERR_BAD_PWD) return "BAD_PWD";
	if (e == ERR_BAD_TIME) return "BAD_TIME";
	if (e == ERR_BAD_INPUT) return "BAD_INPUT";
	return "OTHER";
}
static void jS(const char* k, const char* s) { jOct(k, s, strlen(s)); }
static int thorough = 0;

/* ------------------------------------------------------------------ bash */
static void recBashF(const octet in[192], const char* cls)
{
	octet buf[192]; octet* stack = st_alloc(bashF_deep());
	memcpy(buf, in, 192);
	bashF(buf, stack);
	jBegin(); jStr("op", "bashF"); jStr("cls", cls); jOct("in", in, 192); jOct("out", buf, 192); jEnd();
	free(stack);
}

static void recHashLine(const char* via, size_t l, const octet* in, size_t n, const octet* out, size_t outlen, err_t rc)
{
	char cls[64];
	size_t b = 192 - l / 2;
	sprintf(cls, "%s:l=%u:len=%s", via, (unsigned)l,
		n == 0 ? "0" : n == 1 ? "1" : n == b - 1 ? "b-1" : n == b ? "b" : n == b + 1 ? "b+1" : n == 2 * b ? "2b" : "other");
	jBegin(); jStr("op", "bashHash"); jStr("cls", cls); jInt("l", (long long)l); jOct("in", in, n);
	jOct("out", out, outlen); jStr("err", errName(rc)); jEnd();
}

static void recBash(void)
{
	octet in[192]; size_t l, i, k;
	octet* data = st_alloc(1024); octet hash[64];
	octet* state = st_alloc(bashHash_keep());
	/* bash-f: fixed patterns, one-hot words, seeded */
	memset(in, 0, 192); recBashF(in, "zero");
	memset(in, 0xFF, 192); recBashF(in, "ones");
	memcpy(in, beltH(), 192); recBashF(in, "beltH");
	for (i = 0; i < 24; i += thorough ? 1 : 5)
	{
		memset(in, 0, 192); in[8 * i + (i % 8)] = (octet)(1u << (i % 8)); recBashF(in, "onehot");
	}
	for (i = 0; i < (thorough ? 40u : 6u); ++i) { vxRandBuf(in, 192); recBashF(in, "random"); }
	/* bash-hash one-shot: every level x lengths straddling the rate */
	for (l = 16; l <= 256; l += 16)
	{
		size_t b = 192 - l / 2;
		size_t lens[6]; lens[0] = 0; lens[1] = 1; lens[2] = b - 1; lens[3] = b; lens[4] = b + 1; lens[5] = 2 * b;
		for (k = 0; k < 6; ++k)
		{
			err_t rc;
			vxRandBuf(data, lens[k]);
			memset(hash, 0, 64);
			rc = bashHash(hash, l, data, lens[k]);
			recHashLine("oneshot", l, data, lens[k], hash, l / 4, rc);
		}
	}
	/* levels outside the family are refused */
	{
		static const size_t badl[] = {0, 8, 24, 264, 272, 512};
		for (k = 0; k < 6; ++k)
		{
			err_t rc; vxRandBuf(data, 10); memset(hash, 0, 64);
			rc = bashHash(hash, badl[k], data, 10);
			jBegin(); jStr("op", "bashHash"); jStr("cls", "badlevel"); jInt("l", (long long)badl[k]); jOct("in", data, 10);
			jOct("out", hash, 0); jStr("err", errName(rc)); jEnd();
		}
	}
	/* chained hashing: splits around the rate, partial outputs, continuation after StepG, StepV */
	{
		static const size_t lv[] = {128, 192, 256, 80, 16};
		size_t li;
		for (li = 0; li < (thorough ? 5u : 4u); ++li)
		{
			size_t b, sp[6][3], si;
			l = lv[li]; b = 192 - l / 2;
			sp[0][0] = 1, sp[0][1] = b - 1, sp[0][2] = 0;
			sp[1][0] = b - 1, sp[1][1] = 1, sp[1][2] = 1;
			sp[2][0] = b, sp[2][1] = b, sp[2][2] = 0;
			sp[3][0] = 0, sp[3][1] = b + 1, sp[3][2] = 0;
			sp[4][0] = b + 1, sp[4][1] = b - 1, sp[4][2] = 0;
			sp[5][0] = b - 2, sp[5][1] = 1, sp[5][2] = b + 1;
			for (si = 0; si < 6; ++si)
			{
				size_t n = sp[si][0] + sp[si][1] + sp[si][2], outlen;
				vxRandBuf(data, n);
				bashHashStart(state, l);
				bashHashStepH(data, sp[si][0], state);
				bashHashStepH(data + sp[si][0], sp[si][1], state);
				/* intermediate StepG (partial output), then hashing continues */
				outlen = si % 3 == 0 ? 1 : si % 3 == 1 ? l / 4 - 1 : l / 4;
				memset(hash, 0, 64); bashHashStepG(hash, outlen, state);
				recHashLine("steps", l, data, sp[si][0] + sp[si][1], hash, outlen, ERR_OK);
				bashHashStepH(data + sp[si][0] + sp[si][1], sp[si][2], state);
				memset(hash, 0, 64); bashHashStepG(hash, l / 4, state);
				recHashLine("cont", l, data, n, hash, l / 4, ERR_OK);
				/* StepV: right tag, right prefix, tags corrupted in the first / last octet */
				{
					octet tag[64]; int v;
					for (v = 0; v < 4; ++v)
					{
						size_t tl = v == 1 ? l / 8 : l / 4; bool_t ok;
						memcpy(tag, hash, 64);
						if (v == 2) tag[0] ^= 1;
						if (v == 3) tag[tl - 1] ^= 0x80;
						ok = bashHashStepV(tag, tl, state);
						jBegin(); jStr("op", "bashHashV"); jStr("cls", v == 0 ? "verify:right" : v == 1 ? "verify:prefix" : v == 2 ? "verify:first" : "verify:last");
						jInt("l", (long long)l); jOct("in", data, n); jOct("tag", tag, tl); jBool("ok", ok != 0); jEnd();
					}
				}
			}
		}
	}
	free(data); free(state);
}

/* ------------------------------------------------------------------ brng */
static void ivClass(octet iv[32], int nff, int below)
{
	/* counter = little-endian number: nff low octets FF (the increment carries through them);
	   below: one less, so that the carry happens at the second increment */
	vxRandBuf(iv, 32);
	memset(iv, 0xFF, (size_t)nff);
	if (nff < 32 && iv[nff] == 0xFF) iv[nff] = 0x7F;
	if (below && nff > 0) iv[0] = 0xFE;
}

static void recCTR(const octet key[32], const octet iv[32], const octet* x, size_t n, const char* cls)
{
	octet* buf = st_alloc(n); octet iv2[32]; err_t rc;
	memcpy(buf, x, n); memcpy(iv2, iv, 32);
	rc = brngCTRRand(buf, n, key, iv2);
	jBegin(); jStr("op", "brngCTR"); jStr("cls", cls); jOct("key", key, 32); jOct("iv", iv, 32); jOct("x", x, n);
	jOct("out", buf, n); jOct("iv2", iv2, 32); jStr("err", errName(rc)); jEnd();
	free(buf);
}

static void jOctArr(const char* k, octet* const* parts, const size_t* lens, size_t cnt)
{
	size_t i, j;
	jSep(); fprintf(vx_out, "\"%s\":[", k);
	for (i = 0; i < cnt; ++i)
	{
		fputs(i ? ",[" : "[", vx_out);
		for (j = 0; j < lens[i]; ++j) fprintf(vx_out, j ? ",%u" : "%u", parts[i][j]);
		fputc(']', vx_out);
	}
	fputc(']', vx_out);
}

static void recCTRSteps(const octet key[32], const octet iv[32], const size_t* lens, size_t cnt, int zero, const char* cls)
{
	octet* xs[8]; octet* ys[8]; octet iv2[32]; size_t i;
	octet* state = st_alloc(brngCTR_keep());
	/* iv == 0: brng.h "a null iv may be passed: the zero synchro value is used" (logged as 32 zero octets) */
	brngCTRStart(state, key, iv);
	if (!iv) { static const octet zero32[32] = {0}; iv = zero32; }
	for (i = 0; i < cnt; ++i)
	{
		xs[i] = st_alloc(lens[i]); ys[i] = st_alloc(lens[i]);
		if (!zero) vxRandBuf(xs[i], lens[i]);
		memcpy(ys[i], xs[i], lens[i]);
		brngCTRStepR(ys[i], lens[i], state);
	}
	brngCTRStepG(iv2, state);
	jBegin(); jStr("op", "brngCTRSteps"); jStr("cls", cls); jOct("key", key, 32); jOct("iv", iv, 32);
	jOctArr("xs", xs, lens, cnt); jOctArr("outs", ys, lens, cnt); jOct("iv2", iv2, 32); jEnd();
	for (i = 0; i < cnt; ++i) free(xs[i]), free(ys[i]);
	free(state);
}

static void recBrng(void)
{
	octet key[32], iv[32]; octet* x = st_alloc(512);
	static const int nffs[] = {0, 1, 4, 8, 16, 24, 31, 32};
	static const size_t counts[] = {0, 1, 31, 32, 33, 64, 100};
	static const size_t hl[] = {0, 1, 32, 64, 65, 100};
	size_t i, j; int below;
	char cls[64];
	/* CTR: IV classes, three blocks, zero-filled buffer (and a seeded buffer = additional word X) */
	for (below = 0; below < 2; ++below)
	for (i = 0; i < 8; ++i)
	{
		if (below && nffs[i] == 0) continue;
		vxRandBuf(key, 32); ivClass(iv, nffs[i], below);
		sprintf(cls, "iv:ff=%d%s:zero", nffs[i], below ? ":below" : "");
		memset(x, 0, 512); recCTR(key, iv, x, 96, cls);
		if (nffs[i] == 8 || nffs[i] == 32 || thorough)
		{
			sprintf(cls, "iv:ff=%d%s:x", nffs[i], below ? ":below" : "");
			vxRandBuf(x, 96); recCTR(key, iv, x, 96, cls);
		}
	}
	/* the all-ones IV itself (no seeded octet at all) */
	memset(iv, 0xFF, 32); memset(key, 0, 32); memset(x, 0, 512); recCTR(key, iv, x, 64, "iv:FF..FF:zerokey");
	/* CTR: output lengths */
	for (j = 0; j < 7; ++j)
	{
		vxRandBuf(key, 32); vxRandBuf(iv, 32); vxRandBuf(x, counts[j]);
		sprintf(cls, "count=%u", (unsigned)counts[j]); recCTR(key, iv, x, counts[j], cls);
	}
	/* CTR: chained calls with buffering of the incomplete block */
	{
		static const size_t seqs[][5] = {{32, 32, 32, 0, 0}, {16, 16, 32, 0, 0}, {5, 27, 32, 0, 0}, {33, 31, 1, 0, 0},
			{0, 32, 0, 7, 0}, {100, 28, 4, 0, 0}, {1, 1, 1, 29, 33}, {31, 2, 0, 0, 0}};
		for (i = 0; i < 8; ++i)
		{
			int nff = i == 3 ? 32 : i == 5 ? 8 : i == 6 ? 31 : 0;
			vxRandBuf(key, 32); ivClass(iv, nff, 0);
			sprintf(cls, "steps:%u:iv:ff=%d", (unsigned)i, nff);
			recCTRSteps(key, iv, seqs[i], 5, i % 2, cls);
		}
		/* the null-pointer form of the synchro value (the form rng.c uses), and the explicit zero value */
		vxRandBuf(key, 32);
		recCTRSteps(key, 0, seqs[0], 5, 0, "steps:0:iv:null");
		recCTRSteps(key, 0, seqs[3], 5, 1, "steps:3:iv:null");
		memset(iv, 0, 32); recCTRSteps(key, iv, seqs[0], 5, 0, "steps:0:iv:zero");
	}
	/* HMAC: key / IV lengths, one-shot */
	{
		octet k[128], v[128], out[128];
		for (i = 0; i < 6; ++i)
		for (j = 0; j < 6; ++j)
		{
			err_t rc; size_t n = (i + j) % 3 == 0 ? 33 : (i + j) % 3 == 1 ? 64 : 7;
			vxRandBuf(k, hl[i]); vxRandBuf(v, hl[j]);
			rc = brngHMACRand(out, n, k, hl[i], v, hl[j]);
			sprintf(cls, "hmac:key=%u:iv=%u", (unsigned)hl[i], (unsigned)hl[j]);
			jBegin(); jStr("op", "brngHMAC"); jStr("cls", cls); jOct("key", k, hl[i]); jOct("iv", v, hl[j]);
			jInt("n", (long long)n); jOct("out", out, n); jStr("err", errName(rc)); jEnd();
		}
		/* chained calls */
		{
			static const size_t seqs[][5] = {{32, 11, 19, 2, 32}, {0, 1, 31, 1, 0}, {33, 33, 0, 0, 0}, {64, 1, 32, 0, 0}, {7, 60, 0, 32, 1}, {32, 40, 5, 0, 0}};
			static const size_t ivl[] = {32, 65, 0, 100, 64, 1};
			for (i = 0; i < 6; ++i)
			{
				octet* ys[5]; octet* state = st_alloc(brngHMAC_keep());
				vxRandBuf(k, 32); vxRandBuf(v, ivl[i]);
				if (ivl[i] <= 64)
				{	/* brng.h: for iv_len <= 64 the synchro value is saved in the state: the caller's exact-size buffer is overwritten and released */
					octet* tiv = (octet*)malloc(ivl[i] ? ivl[i] : 1); if (!tiv) exit(3); memcpy(tiv, v, ivl[i]);
					brngHMACStart(state, k, 32, tiv, ivl[i]);
					memset(tiv, 0xEE, ivl[i] ? ivl[i] : 1); free(tiv);
				}
				else
				brngHMACStart(state, k, 32, v, ivl[i]);
				for (j = 0; j < 5; ++j) { ys[j] = st_alloc(seqs[i][j]); brngHMACStepR(ys[j], seqs[i][j], state); }
				sprintf(cls, "hmacsteps:%u", (unsigned)i);
				jBegin(); jStr("op", "brngHMACSteps"); jStr("cls", cls); jOct("key", k, 32); jOct("iv", v, ivl[i]);
				{ long long ns[5]; for (j = 0; j < 5; ++j) ns[j] = (long long)seqs[i][j]; jIntArr("ns", ns, 5); }
				jOctArr("outs", ys, seqs[i], 5); jEnd();
				for (j = 0; j < 5; ++j) free(ys[j]);
				free(state);
			}
		}
	}
	free(x);
}

/* ------------------------------------------------------------------ botp */
static void ctrClass(octet ctr[8], int c)
{
	vxRandBuf(ctr, 8);
	switch (c)
	{
	case 1: ctr[7] = 0xFF; if (ctr[6] == 0xFF) ctr[6] = 1; break;      /* ...FF */
	case 2: ctr[7] = ctr[6] = 0xFF; if (ctr[5] == 0xFF) ctr[5] = 1; break;
	case 3: memset(ctr + 1, 0xFF, 7); if (ctr[0] == 0xFF) ctr[0] = 0; break;
	case 4: memset(ctr, 0xFF, 8); break;                               /* FF..FF */
	case 5: memset(ctr, 0, 8); break;
	default: break;
	}
}
static const char* ctrName[] = {"random", "..FF", "..FFFF", "xxFF..FF", "FF..FF", "00..00"};

static void recBotp(void)
{
	octet mac[64], key[128], ctr[8], ctr2[8]; char otp[32]; char cls[96];
	size_t digit, i, j; int c;
	octet* state = st_alloc(botpHOTP_keep() + botpTOTP_keep() + botpOCRA_keep());
	/* dynamic truncation: every offset, every digit count, top bit set, leading zeros */
	for (i = 0; i < 16; ++i)
	{
		size_t ml = i % 3 == 0 ? 20 : i % 3 == 1 ? 32 : 64;
		digit = 4 + i % 6;
		vxRandBuf(mac, ml); mac[ml - 1] = (octet)((mac[ml - 1] & 0xF0) | i); mac[i] |= 0x80;
		botpDT(otp, digit, mac, ml);
		sprintf(cls, "dt:off=%u:digit=%u:len=%u", (unsigned)i, (unsigned)digit, (unsigned)ml);
		jBegin(); jStr("op", "dt"); jStr("cls", cls); jOct("mac", mac, ml); jInt("digit", (long long)digit); jS("otp", otp); jEnd();
	}
	for (digit = 4; digit <= 9; ++digit)
	{
		/* small values: leading zeros; maximal value */
		for (c = 0; c < 3; ++c)
		{
			vxRandBuf(mac, 32); i = mac[31] & 15;
			if (c == 0) mac[i] = 0x80, mac[i + 1] = 0, mac[i + 2] = 0, mac[i + 3] = (octet)(1 + vxRandN(9));
			if (c == 1) mac[i] = mac[i + 1] = mac[i + 2] = mac[i + 3] = 0xFF;
			botpDT(otp, digit, mac, 32);
			sprintf(cls, "dt:digit=%u:%s", (unsigned)digit, c == 0 ? "small" : c == 1 ? "max" : "random");
			jBegin(); jStr("op", "dt"); jStr("cls", cls); jOct("mac", mac, 32); jInt("digit", (long long)digit); jS("otp", otp); jEnd();
		}
	}
	/* counter */
	for (c = 0; c < 6; ++c)
	{
		ctrClass(ctr, c); memcpy(ctr2, ctr, 8); botpCtrNext(ctr2);
		sprintf(cls, "ctrNext:%s", ctrName[c]);
		jBegin(); jStr("op", "ctrNext"); jStr("cls", cls); jOct("ctr", ctr, 8); jOct("out", ctr2, 8); jEnd();
	}
	/* HOTP: digits (also outside 6..8) x counters x key lengths; chained generation; verification */
	{
		static const size_t kl[] = {32, 0, 1, 33, 64, 100};
		for (digit = 5; digit <= 9; ++digit)
		for (c = 0; c < 6; ++c)
		{
			size_t klen = kl[(digit + (size_t)c) % 6]; err_t rc;
			if (!thorough && digit != 6 && digit != 8 && c != 4 && c != 1) continue;
			vxRandBuf(key, klen); ctrClass(ctr, c); memset(otp, 0, sizeof otp);
			rc = botpHOTPRand(otp, digit, key, klen, ctr);
			sprintf(cls, "hotp:digit=%u:ctr=%s:key=%u", (unsigned)digit, ctrName[c], (unsigned)klen);
			jBegin(); jStr("op", "hotp"); jStr("cls", cls); jInt("digit", (long long)digit); jOct("key", key, klen);
			jOct("ctr", ctr, 8); jS("otp", otp); jStr("err", errName(rc)); jEnd();
			if (rc == ERR_OK)
			{
				/* verification: right password, wrong digit, wrong length */
				int v;
				for (v = 0; v < 3; ++v)
				{
					char o2[32]; err_t r2;
					strcpy(o2, otp);
					if (v == 1) o2[digit - 1] = (char)('0' + (o2[digit - 1] - '0' + 1) % 10);
					if (v == 2) o2[digit - 1] = 0;
					r2 = botpHOTPVerify(o2, key, klen, ctr);
					sprintf(cls, "hotpV:digit=%u:%s", (unsigned)digit, v == 0 ? "right" : v == 1 ? "wrongdigit" : "short");
					jBegin(); jStr("op", "hotpV"); jStr("cls", cls); jS("otp", o2); jOct("key", key, klen);
					jOct("ctr", ctr, 8); jStr("err", errName(r2)); jEnd();
				}
			}
		}
		for (c = 0; c < 6; ++c)
		{
			/* Start, StepS, StepR x 3, StepV (right / wrong), StepG */
			char o[3][16]; char ov[16]; bool_t okR, okW; octet ctrW[8];
			digit = 6 + (size_t)c % 3;
			vxRandBuf(key, 32); ctrClass(ctr, c);
			if (c == 1) ctr[7] = 0xFE;              /* the carry happens inside the chain */
			botpHOTPStart(state, digit, key, 32);
			botpHOTPStepS(state, ctr);
			botpHOTPStepR(o[0], state); botpHOTPStepR(o[1], state); botpHOTPStepR(o[2], state);
			botpHOTPStepG(ctr2, state);
			/* wrong password: the counter must stay; right password: advances */
			strcpy(ov, o[0]); ov[0] = (char)('0' + (ov[0] - '0' + 3) % 10);
			botpHOTPStepS(state, ctr);
			okW = botpHOTPStepV(ov, state); botpHOTPStepG(ctrW, state);
			okR = botpHOTPStepV(o[0], state);
			sprintf(cls, "hotpSeq:ctr=%s", ctrName[c]);
			jBegin(); jStr("op", "hotpSeq"); jStr("cls", cls); jInt("digit", (long long)digit); jOct("key", key, 32); jOct("ctr", ctr, 8);
			jS("o1", o[0]); jS("o2", o[1]); jS("o3", o[2]); jOct("ctr2", ctr2, 8); jS("ow", ov);
			jBool("okW", okW != 0); jOct("ctrW", ctrW, 8); jBool("okR", okR != 0);
			botpHOTPStepG(ctr2, state); jOct("ctrR", ctr2, 8); jEnd();
		}
	}
	/* TOTP: time encodings */
	{
		static const unsigned long long ts[] = {0ull, 1ull, 48305509ull, 0xFFFFFFFFull, 0x100000000ull, 0x0102030405060708ull,
			0x7FFFFFFFFFFFFFFFull, 0xFFFFFFFFFFFFFFFEull, 0xFFFFFFFFFFFFFFFFull};
		for (i = 0; i < 9; ++i)
		{
			tm_time_t t = (tm_time_t)ts[i]; err_t rc; int v;
			digit = 6 + i % 3;
			vxRandBuf(key, 32); memset(otp, 0, sizeof otp);
			rc = botpTOTPRand(otp, digit, key, 32, t);
			sprintf(cls, "totp:t=%u:digit=%u", (unsigned)i, (unsigned)digit);
			jBegin(); jStr("op", "totp"); jStr("cls", cls); jInt("digit", (long long)digit); jOct("key", key, 32);
			jLimbs16("t", &t, 8); jS("otp", otp); jStr("err", errName(rc)); jEnd();
			for (v = 0; v < 2 && rc == ERR_OK; ++v)
			{
				char o2[32]; err_t r2; strcpy(o2, otp);
				if (v == 1) o2[0] = (char)('0' + (o2[0] - '0' + 7) % 10);
				r2 = botpTOTPVerify(o2, key, 32, t);
				sprintf(cls, "totpV:%s", v ? "wrong" : "right");
				jBegin(); jStr("op", "totpV"); jStr("cls", cls); jS("otp", o2); jOct("key", key, 32);
				jLimbs16("t", &t, 8); jStr("err", errName(r2)); jEnd();
			}
		}
		/* digits outside 6..8 */
		for (digit = 4; digit <= 10; digit += 1)
		{
			tm_time_t t = 1000; err_t rc;
			if (digit >= 6 && digit <= 8) continue;
			vxRandBuf(key, 32); memset(otp, 0, sizeof otp);
			rc = botpTOTPRand(otp, digit, key, 32, t);
			sprintf(cls, "totp:baddigit=%u", (unsigned)digit);
			jBegin(); jStr("op", "totp"); jStr("cls", cls); jInt("digit", (long long)digit); jOct("key", key, 32);
			jLimbs16("t", &t, 8); jS("otp", ""); jStr("err", errName(rc)); jEnd();
		}
	}
	/* OCRA: suites x challenge lengths x counters x times */
	{
		static const char* suites[] = {
			"OCRA-1:HOTP-HBELT-6:QN08", "OCRA-1:HOTP-HBELT-4:C-QA04", "OCRA-1:HOTP-HBELT-9:QH64-T1H",
			"OCRA-1:HOTP-HBELT-8:C-QN08-PHBELT-S064-T1M", "OCRA-1:HOTP-HBELT-5:QA10-PSHA1", "OCRA-1:HOTP-HBELT-7:C-QN16-PSHA512-S512",
			"OCRA-1:HOTP-HBELT-8:QN08-PSHA256-T59S", "OCRA-1:HOTP-HBELT-6:C-QH32-S001-T48H", "OCRA-1:HOTP-HBELT-6:QN08-S000",
			"OCRA-1:HOTP-HBELT-3:QN08", "OCRA-1:HOTP-HBELT-6:QN08-T60S"};
		static const size_t qmax[] = {8, 4, 64, 8, 10, 16, 8, 32, 8, 8, 8};
		octet q[200], p[64], s[512];
		for (i = 0; i < 11; ++i)
		for (j = 0; j < 5; ++j)
		{
			size_t qlen = j == 0 ? 4 : j == 1 ? qmax[i] : j == 2 ? 2 * qmax[i] : j == 3 ? 3 : 2 * qmax[i] + 1;
			tm_time_t t; err_t rc; int v;
			if (!thorough && i >= 4 && j >= 3 && i != 5) continue;
			c = (int)((i + j) % 6);
			vxRandBuf(key, 32); vxRandBuf(q, qlen); vxRandBuf(p, 64); vxRandBuf(s, 512); ctrClass(ctr, c);
			t = (tm_time_t)(j == 2 && i == 3 ? -1 : (long long)(vxRand64() >> (8 * (j + 1))));
			memset(otp, 0, sizeof otp);
			rc = botpOCRARand(otp, suites[i], key, 32, q, qlen, ctr, p, s, t);
			sprintf(cls, "ocra:suite=%u:q=%s:ctr=%s", (unsigned)i, j == 0 ? "4" : j == 1 ? "qmax" : j == 2 ? "2qmax" : j == 3 ? "3" : "2qmax+1", ctrName[c]);
			jBegin(); jStr("op", "ocra"); jStr("cls", cls); jS("suite", suites[i]); jOct("key", key, 32); jOct("q", q, qlen);
			jOct("ctr", ctr, 8); jOct("p", p, 64); jOct("s", s, 512); jLimbs16("t", &t, 8); jS("otp", otp); jStr("err", errName(rc)); jEnd();
			for (v = 0; v < 3 && rc == ERR_OK && j < 2; ++v)
			{
				char o2[32]; err_t r2; strcpy(o2, otp);
				if (v == 1) o2[1] = (char)('0' + (o2[1] - '0' + 5) % 10);
				if (v == 2) strcat(o2, "0");
				r2 = botpOCRAVerify(o2, suites[i], key, 32, q, qlen, ctr, p, s, t);
				sprintf(cls, "ocraV:suite=%u:%s", (unsigned)i, v == 0 ? "right" : v == 1 ? "wrong" : "long");
				jBegin(); jStr("op", "ocraV"); jStr("cls", cls); jS("suite", suites[i]); jOct("key", key, 32); jOct("q", q, qlen);
				jOct("ctr", ctr, 8); jOct("p", p, 64); jOct("s", s, 512); jLimbs16("t", &t, 8); jS("otp", o2); jStr("err", errName(r2)); jEnd();
			}
		}
		/* chained: Start, StepS, StepR x 2 (counter advances), StepV wrong / right, StepG */
		for (i = 0; i < 8; ++i)
		{
			char o1[16], o2[16], ow[16]; tm_time_t t = (tm_time_t)(vxRand64() >> 20); bool_t okS, okW, okR; octet ctrW[8], ctrR[8];
			size_t qlen = 4 + i;
			c = (int)(i % 6);
			vxRandBuf(key, 32); vxRandBuf(q, qlen); vxRandBuf(p, 64); vxRandBuf(s, 512); ctrClass(ctr, c);
			if (c == 1) ctr[7] = 0xFE;
			okS = botpOCRAStart(state, suites[i], key, 32);
			botpOCRAStepS(state, ctr, p, s);
			botpOCRAStepR(o1, q, qlen, t, state); botpOCRAStepR(o2, q, qlen, t, state);
			botpOCRAStepG(ctr2, state);
			strcpy(ow, o1); ow[0] = (char)('0' + (ow[0] - '0' + 1) % 10);
			botpOCRAStepS(state, ctr, p, s);
			okW = botpOCRAStepV(ow, q, qlen, t, state); botpOCRAStepG(ctrW, state);
			okR = botpOCRAStepV(o1, q, qlen, t, state); botpOCRAStepG(ctrR, state);
			sprintf(cls, "ocraSeq:suite=%u:ctr=%s", (unsigned)i, ctrName[c]);
			jBegin(); jStr("op", "ocraSeq"); jStr("cls", cls); jS("suite", suites[i]); jBool("okS", okS != 0); jOct("key", key, 32); jOct("q", q, qlen);
			jOct("ctr", ctr, 8); jOct("p", p, 64); jOct("s", s, 512); jLimbs16("t", &t, 8);
			jS("o1", o1); jS("o2", o2); jOct("ctr2", ctr2, 8); jS("ow", ow); jBool("okW", okW != 0); jOct("ctrW", ctrW, 8);
			jBool("okR", okR != 0); jOct("ctrR", ctrR, 8); jEnd();
		}
	}
	free(state);
}

/* OCRA suites: stdin = one candidate per line; prints acceptance by botpOCRAStart */
static void recSuites(void)
{
	char line[512]; octet key[32];
	octet* state = st_alloc(botpOCRA_keep());
	memset(key, 7, 32);
	while (fgets(line, sizeof line, stdin))
	{
		size_t n = strlen(line); bool_t ok;
		while (n && (line[n - 1] == '\n' || line[n - 1] == '\r')) line[--n] = 0;
		ok = botpOCRAStart(state, line, key, 32);
		jBegin(); jStr("op", "ocraSuite"); jStr("cls", "suite"); jS("suite", line); jBool("ok", ok != 0); jEnd();
	}
	free(state);
}

/* ------------------------------------------------------------------ automaton: recorded random scripts */
static void logState(const char* e, const void* state)
{
	const prg_view* v = (const prg_view*)state;
	jStr("e", e); jInt("pos", (long long)v->pos); jInt("buflen", (long long)v->buf_len);
	jInt("l", (long long)v->l); jInt("d", (long long)v->d); jOct("s", v->s, 192);
}

static size_t lenClass(const void* state)
{
	const prg_view* v = (const prg_view*)state;
	size_t rem = v->buf_len - v->pos, b = v->buf_len;
	switch (vxRandN(10))
	{
	case 0: return 0;
	case 1: return 1;
	case 2: return rem - 1;
	case 3: return rem;
	case 4: return rem + 1;
	case 5: return b;
	case 6: return rem + b;
	case 7: return rem + b + 1;
	case 8: return 2 * b + 3;
	default: return vxRandN(b);
	}
}

static void recScripts(long n, long len)
{
	octet* state = st_alloc(bashPrg_keep());
	octet* buf = st_alloc(1024); octet* in = st_alloc(1024);
	octet ann[64], key[64];
	long sc, k;
	for (sc = 0; sc < n; ++sc)
	{
		static const size_t ls[] = {128, 192, 256};
		size_t l = ls[sc % 3], d = 1 + (size_t)(sc / 3) % 2;
		int keyed = (sc / 6) % 2 == 0;
		size_t al = 4 * vxRandN(16), kl = keyed ? (vxRandN(3) == 0 ? 60 : l / 8 + 4 * vxRandN((60 - l / 8) / 4 + 1)) : 0;
		int cur = 0;   /* 0 idle, 1 absorb, 2 squeeze, 3 encr, 4 decr */
		vxRandBuf(ann, al); vxRandBuf(key, kl);
		jBegin(); jStr("e", "Reset"); jEnd();
		bashPrgStart(state, l, d, ann, al, key, kl);
		jBegin(); logState("Start", state); jOct("ann", ann, al); jOct("key", key, kl); jEnd();
		for (k = 0; k < len; ++k)
		{
			const prg_view* v = (const prg_view*)state;
			int km = 16 * (192 - v->buf_len) == v->l * (2 + v->d);
			size_t r = vxRandN(100), cnt;
			if (cur && r < 45)
			{
				/* one more step of the running command */
				cnt = lenClass(state);
				vxRandBuf(in, cnt); memcpy(buf, in, cnt);
				switch (cur)
				{
				case 1: bashPrgAbsorbStep(buf, cnt, state); jBegin(); logState("AbsorbStep", state); jOct("data", in, cnt); jEnd(); break;
				case 2: bashPrgSqueezeStep(buf, cnt, state); jBegin(); logState("SqueezeStep", state); jInt("n", (long long)cnt); jOct("out", buf, cnt); jEnd(); break;
				case 3: bashPrgEncrStep(buf, cnt, state); jBegin(); logState("EncrStep", state); jOct("data", in, cnt); jOct("out", buf, cnt); jEnd(); break;
				default: bashPrgDecrStep(buf, cnt, state); jBegin(); logState("DecrStep", state); jOct("data", in, cnt); jOct("out", buf, cnt); jEnd(); break;
				}
				continue;
			}
			r = vxRandN(km ? 7 : 5);
			switch (r)
			{
			case 0: bashPrgAbsorbStart(state); cur = 1; jBegin(); logState("AbsorbStart", state); jEnd(); break;
			case 1: bashPrgSqueezeStart(state); cur = 2; jBegin(); logState("SqueezeStart", state); jEnd(); break;
			case 2: bashPrgRatchet(state); cur = 0; jBegin(); logState("Ratchet", state); jEnd(); break;
			case 3: case 4:
				al = 4 * vxRandN(16);
				kl = r == 3 ? 0 : (vxRandN(3) == 0 ? 60 : v->l / 8 + 4 * vxRandN((60 - v->l / 8) / 4 + 1));
				vxRandBuf(ann, al); vxRandBuf(key, kl);
				bashPrgRestart(ann, al, key, kl, state); cur = 0;
				jBegin(); logState("Restart", state); jOct("ann", ann, al); jOct("key", key, kl); jEnd(); break;
			case 5: bashPrgEncrStart(state); cur = 3; jBegin(); logState("EncrStart", state); jEnd(); break;
			default: bashPrgDecrStart(state); cur = 4; jBegin(); logState("DecrStart", state); jEnd(); break;
			}
		}
	}
	free(state); free(buf); free(in);
}

/* ------------------------------------------------------------------ automaton: replay of predicted scripts */
static char rp_what[256];
static int cmpState(const vx_cmd* c, const void* state)
{
	const prg_view* v = (const prg_view*)state; size_t n; octet* es;
	long long ep = vxInt(c, "pos", -1), eb = vxInt(c, "buflen", -1);
	if (ep >= 0 && (size_t)ep != v->pos) { sprintf(rp_what, "pos: got %u expected %lld", (unsigned)v->pos, ep); return 0; }
	if (eb >= 0 && (size_t)eb != v->buf_len) { sprintf(rp_what, "buflen: got %u expected %lld", (unsigned)v->buf_len, eb); return 0; }
	es = vxHex(c, "s", &n);
	if (es)
	{
		int same = n == 192 && memcmp(es, v->s, 192) == 0;
		free(es);
		if (!same) { sprintf(rp_what, "state s differs"); return 0; }
	}
	return 1;
}
static int cmpOut(const vx_cmd* c, const octet* got, size_t n)
{
	size_t en; octet* eo = vxHex(c, "out", &en); int same;
	if (!eo) return 1;
	same = en == n && memcmp(eo, got, n) == 0;
	free(eo);
	if (!same) sprintf(rp_what, "output differs");
	return same;
}

static void replay(void)
{
	static char line[1 << 16];
	vx_cmd c; char id[256] = ""; int active = 0, ok = 1, step = 0, failstep = -1; char failop[32] = "", failwhat[256] = "";
	octet* state = st_alloc(bashPrg_keep());
	octet* buf = st_alloc(4096);
	long ncmd = 0;
	while (fgets(line, sizeof line, stdin))
	{
		size_t n = 0, m = 0; octet* a; octet* b;
		if (!vxParse(&c, line)) continue;
		if (strcmp(c.op, "case") == 0)
		{
			strncpy(id, vxArg(&c, "id") ? vxArg(&c, "id") : "?", 255); active = 1; ok = 1; step = 0; failstep = -1; ncmd = 0;
			continue;
		}
		if (strcmp(c.op, "end") == 0)
		{
			jBegin(); jStr("op", "replay"); jStr("id", id); jBool("ok", ok); jInt("cmds", ncmd);
			if (!ok) { jInt("step", failstep); jStr("at", failop); jStr("what", failwhat); }
			jEnd(); active = 0; continue;
		}
		if (!active || !ok) continue;       /* after the first disagreement the rest of the case is skipped */
		++step; ++ncmd; rp_what[0] = 0;
		if (strcmp(c.op, "start") == 0)
		{
			a = vxHex(&c, "ann", &n); b = vxHex(&c, "key", &m);
			bashPrgStart(state, (size_t)vxInt(&c, "l", 128), (size_t)vxInt(&c, "d", 1), a, n, b, m);
			free(a); free(b);
			ok = cmpState(&c, state);
		}
		else if (strcmp(c.op, "restart") == 0)
		{
			a = vxHex(&c, "ann", &n); b = vxHex(&c, "key", &m);
			bashPrgRestart(a, n, b, m, state);
			free(a); free(b);
			ok = cmpState(&c, state);
		}
		else if (strcmp(c.op, "absorbStart") == 0) { bashPrgAbsorbStart(state); ok = cmpState(&c, state); }
		else if (strcmp(c.op, "squeezeStart") == 0) { bashPrgSqueezeStart(state); ok = cmpState(&c, state); }
		else if (strcmp(c.op, "encrStart") == 0) { bashPrgEncrStart(state); ok = cmpState(&c, state); }
		else if (strcmp(c.op, "decrStart") == 0) { bashPrgDecrStart(state); ok = cmpState(&c, state); }
		else if (strcmp(c.op, "ratchet") == 0) { bashPrgRatchet(state); ok = cmpState(&c, state); }
		else if (strcmp(c.op, "absorbStep") == 0)
		{
			a = vxHex(&c, "data", &n); bashPrgAbsorbStep(a, n, state); free(a);
			ok = cmpState(&c, state);
		}
		else if (strcmp(c.op, "squeezeStep") == 0)
		{
			n = (size_t)vxInt(&c, "n", 0); memset(buf, 0xA5, n + 8);
			bashPrgSqueezeStep(buf, n, state);
			ok = cmpOut(&c, buf, n) && cmpState(&c, state);
			if (ok && buf[n] != 0xA5) { ok = 0; sprintf(rp_what, "write past the output buffer"); }
		}
		else if (strcmp(c.op, "encrStep") == 0 || strcmp(c.op, "decrStep") == 0)
		{
			a = vxHex(&c, "data", &n); memcpy(buf, a, n); buf[n] = 0xA5; free(a);
			if (c.op[0] == 'e') bashPrgEncrStep(buf, n, state); else bashPrgDecrStep(buf, n, state);
			ok = cmpOut(&c, buf, n) && cmpState(&c, state);
			if (ok && buf[n] != 0xA5) { ok = 0; sprintf(rp_what, "write past the buffer"); }
		}
		else { ok = 0; sprintf(rp_what, "unknown command"); }
		if (!ok) { failstep = step; strncpy(failop, c.op, 31); strncpy(failwhat, rp_what, 255); }
	}
	free(state); free(buf);
}


/* ------------------------------------------------------------------ C10: fragment scripts on the Start/Step/Get bundles
   stdin: lines "steps b=<bundle> p=<parameter index> script=S<n>,G,V,R,..."
     S<n> one Step on a fresh exact-size fragment of n octets, G Get at this position (V = Get + Verify where
     the bundle has one), R relocation of the state (copied to a fresh buffer, the old copy overwritten with 0x5A
     and kept allocated until the end of the script).
   One ndjson line per script, judged by spec/trace/Trace_Bash.tla (op "steps"). */
enum { SB_HASH, SB_ABSORB, SB_SQUEEZE, SB_ENCR, SB_DECR, SB_CTR, SB_HMAC, SB_HOTP, SB_TOTP, SB_OCRA, SB_N };
static const char* SBN[SB_N] = {"bashHash", "prgAbsorb", "prgSqueeze", "prgEncr", "prgDecr", "brngCTR", "brngHMAC", "hotp", "totp", "ocra"};
static const char steps_suite[] = "OCRA-1:HOTP-HBELT-8:C-QN08-PHBELT-S064-T1M";

typedef struct { size_t xlen, k, tlen; octet tag[64]; } sget_t;

static int runSteps(int b, size_t p, const char* script)
{
	static const size_t hl[] = {128, 192, 256, 16, 80};
	static const size_t ivl[] = {32, 65, 0, 64, 100, 1};
	size_t l = 128, d = 1, al = 0, kl = 0, keep, cap = 8192, inl = 0, outl = 0, ng = 0, nx = 0, vbad = 0, digit = 6, ivlen = 32, i;
	octet ann[64], key[64], iv[128], ctr[8], pp[64], ss[512], q[16], pre[64];
	octet* in = st_alloc(cap); octet* out = st_alloc(cap);
	octet* frs[64]; size_t frl[64]; octet* ous[64]; size_t oul[64];
	char otp[32]; sget_t gets[64]; void* st; void* olds[64]; size_t nold = 0;
	tm_time_t t = (tm_time_t)(vxRand64() >> 24);
	const char* c = script;
	vxRandBuf(key, 64); vxRandBuf(iv, 128); vxRandBuf(ann, 64); vxRandBuf(pp, 64); vxRandBuf(ss, 512); vxRandBuf(q, 16); vxRandBuf(pre, 64);
	ctrClass(ctr, (int)(p % 6));
	switch (b)
	{
	case SB_HASH: l = hl[p % 5]; keep = bashHash_keep(); break;
	case SB_ABSORB: case SB_SQUEEZE: case SB_ENCR: case SB_DECR:
		l = hl[p % 3]; d = 1 + (p / 3) % 2;
		kl = (b == SB_ENCR || b == SB_DECR || (p / 6) % 2 == 0) ? l / 8 + 4 * ((p / 12) % 2) : 0; al = 4 * (p % 5);
		keep = bashPrg_keep(); break;
	case SB_CTR: keep = brngCTR_keep(); break;
	case SB_HMAC: keep = brngHMAC_keep(); ivlen = ivl[p % 6]; kl = p % 2 ? 32 : 40; break;
	case SB_HOTP: keep = botpHOTP_keep(); digit = 6 + p % 3; break;
	case SB_TOTP: keep = botpTOTP_keep(); digit = 6 + p % 3; break;
	default: keep = botpOCRA_keep(); digit = 8; break;
	}
	st = st_alloc(keep);
	switch (b)
	{
	case SB_HASH: bashHashStart(st, l); break;
	case SB_ABSORB: bashPrgStart(st, l, d, ann, al, key, kl); bashPrgAbsorbStart(st); break;
	case SB_SQUEEZE: bashPrgStart(st, l, d, ann, al, key, kl); bashPrgAbsorb(pre, 64, st); bashPrgSqueezeStart(st); break;
	case SB_ENCR: bashPrgStart(st, l, d, ann, al, key, kl); bashPrgEncrStart(st); break;
	case SB_DECR: bashPrgStart(st, l, d, ann, al, key, kl); bashPrgDecrStart(st); break;
	case SB_CTR: brngCTRStart(st, key, iv); break;
	case SB_HMAC:
		if (ivlen <= 64)
		{	/* brng.h: for iv_len <= 64 the synchro value is SAVED in the state - the caller's buffer (exact size) is
			   overwritten and released right after Start */
			octet* tiv = (octet*)malloc(ivlen ? ivlen : 1); if (!tiv) exit(3); memcpy(tiv, iv, ivlen);
			brngHMACStart(st, key, kl, tiv, ivlen);
			memset(tiv, 0xEE, ivlen ? ivlen : 1); free(tiv);
		}
		else brngHMACStart(st, key, kl, iv, ivlen);
		break;
	case SB_HOTP: botpHOTPStart(st, digit, key, 32); botpHOTPStepS(st, ctr); break;
	case SB_TOTP: botpTOTPStart(st, digit, key, 32); break;
	default: if (!botpOCRAStart(st, steps_suite, key, 32)) return 2; botpOCRAStepS(st, ctr, pp, ss); break;
	}
	while (*c)
	{
		char op = *c++; size_t n = 0;
		while (*c >= '0' && *c <= '9') n = n * 10 + (size_t)(*c++ - '0');
		if (*c == ',') ++c;
		if (op == 'R')
		{
			void* st2 = st_alloc(keep);
			if (nold >= 64) return 2;
			memcpy(st2, st, keep); memset(st, 0x5A, keep); olds[nold++] = st; st = st2;
		}
		else if (op == 'S')
		{
			octet* fr = (octet*)malloc(n ? n : 1);
			if (inl + n > cap || nx >= 64) return 2;
			vxRandBuf(fr, n); memcpy(in + inl, fr, n);
			frs[nx] = (octet*)malloc(n ? n : 1); memcpy(frs[nx], fr, n); frl[nx] = n;
			switch (b)
			{
			case SB_HASH: bashHashStepH(fr, n, st); break;
			case SB_ABSORB: bashPrgAbsorbStep(fr, n, st); break;
			case SB_SQUEEZE: bashPrgSqueezeStep(fr, n, st); break;
			case SB_ENCR: bashPrgEncrStep(fr, n, st); break;
			case SB_DECR: bashPrgDecrStep(fr, n, st); break;
			case SB_CTR: brngCTRStepR(fr, n, st); break;
			case SB_HMAC: brngHMACStepR(fr, n, st); break;
			case SB_HOTP: botpHOTPStepR(otp, st); n = strlen(otp); memcpy(fr = (octet*)realloc(fr, n + 1), otp, n); break;
			case SB_TOTP: botpTOTPStepR(otp, t, st); n = strlen(otp); memcpy(fr = (octet*)realloc(fr, n + 1), otp, n); break;
			default: botpOCRAStepR(otp, q, 8, t, st); n = strlen(otp); memcpy(fr = (octet*)realloc(fr, n + 1), otp, n); break;
			}
			ous[nx] = (octet*)malloc(n ? n : 1); memcpy(ous[nx], fr, n); oul[nx] = n;
			if (outl + n <= cap) memcpy(out + outl, fr, n), outl += n;
			if (b < SB_HOTP) inl += n;
			++nx; free(fr);
		}
		else if (op == 'G' || op == 'V')
		{
			sget_t* g = &gets[ng];
			if (ng >= 64) return 2;
			g->xlen = inl; g->k = nx; g->tlen = 0;
			switch (b)
			{
			case SB_HASH:
				g->tlen = l / 4; bashHashStepG(g->tag, g->tlen, st);
				if (op == 'V')
				{
					octet bad[64]; memcpy(bad, g->tag, g->tlen); bad[vxRandN(g->tlen)] ^= (octet)(1u << vxRandN(8));
					if (!bashHashStepV(g->tag, g->tlen, st)) ++vbad;
					if (bashHashStepV(bad, g->tlen, st)) ++vbad;
				}
				break;
			case SB_ABSORB:
			{	/* what a squeeze at this position would return: on a copy, the automaton itself goes on absorbing */
				void* cp = st_alloc(keep); memcpy(cp, st, keep);
				g->tlen = 32; bashPrgSqueeze(g->tag, 32, cp); free(cp); break;
			}
			case SB_CTR: g->tlen = 32; brngCTRStepG(g->tag, st); break;
			case SB_HOTP: g->tlen = 8; botpHOTPStepG(g->tag, st); break;
			case SB_OCRA: g->tlen = 8; botpOCRAStepG(g->tag, st); break;
			default: break;
			}
			if (g->tlen) ++ng;
		}
	}
	jBegin(); jStr("op", "steps"); jStr("b", SBN[b]); jStr("script", script); jInt("l", (long long)l); jInt("d", (long long)d);
	jInt("digit", (long long)digit); jOct("ann", ann, al); jOct("key", key, b == SB_CTR || b >= SB_HOTP ? 32 : kl); jOct("iv", iv, b == SB_CTR ? 32 : ivlen);
	jOct("pre", pre, 64); jOct("ctr", ctr, 8); jOct("p", pp, 64); jOct("s", ss, 512); jOct("q", q, 8); jLimbs16("t", &t, 8); jS("suite", steps_suite);
	jOct("in", in, inl); jOct("out", out, outl); jOctArr("xs", frs, frl, nx); jOctArr("outs", ous, oul, nx);
	jInt("vbad", (long long)vbad);
	jSep(); fprintf(vx_out, "\"gets\":[");
	for (i = 0; i < ng; ++i)
	{
		size_t j; fprintf(vx_out, "%s{\"xlen\":%u,\"k\":%u,\"tag\":[", i ? "," : "", (unsigned)gets[i].xlen, (unsigned)gets[i].k);
		for (j = 0; j < gets[i].tlen; ++j) fprintf(vx_out, j ? ",%u" : "%u", gets[i].tag[j]);
		fprintf(vx_out, "]}");
	}
	fputc(']', vx_out);
	jEnd();
	for (i = 0; i < nx; ++i) free(frs[i]), free(ous[i]);
	for (i = 0; i < nold; ++i) free(olds[i]);
	free(st); free(in); free(out);
	return 0;
}

static int stepsMain(void)
{
	static char line[1 << 16]; vx_cmd c;
	while (fgets(line, sizeof line, stdin))
	{
		const char* bn; const char* script; int b;
		if (!vxParse(&c, line)) continue;
		bn = vxArg(&c, "b"); script = vxArg(&c, "script");
		if (!bn || !script) continue;
		for (b = 0; b < SB_N; ++b) if (strcmp(SBN[b], bn) == 0) break;
		if (b == SB_N) { fprintf(stderr, "unknown bundle %s\n", bn); return 3; }
		if (runSteps(b, (size_t)vxInt(&c, "p", 0), script)) return 2;
	}
	return 0;
}

/* ------------------------------------------------------------------ C11: overlapping buffers of the one-shot hash
   stdin: lines "overlap f=bashHash l=<level> len=<N> doff=<D>"   (bash.h, bashHash: the buffers may overlap)
   One arena holds src at offset BASE and the hash at BASE + doff; the input is snapshotted before the call.
   Output: an ordinary "bashHash" line (judged by Trace_Bash!LineOk) with cls = overlap:... and doff. */
#define OV_ARENA 4096
#define OV_BASE 1024
static int overlapMain(void)
{
	static char line[1 << 12]; vx_cmd c;
	while (fgets(line, sizeof line, stdin))
	{
		const char* f; size_t l, len; long doff; octet* arena; octet* snap; octet res[64]; err_t rc; char cls[96];
		if (!vxParse(&c, line)) continue;
		f = vxArg(&c, "f");
		if (f && strcmp(f, "bashHashStepG") == 0)
		{	/* bash.h: "hash and state may overlap" (no continuation): hash = state + off, any overlap incl. straddling;
			   off=keep asks for the state size */
			size_t keep = bashHash_keep(), hl; long off; octet* ar; octet* st; octet* msg; octet out[64];
			l = (size_t)vxInt(&c, "l", 128); len = (size_t)vxInt(&c, "len", 32); hl = (size_t)vxInt(&c, "hlen", l / 4); off = (long)vxInt(&c, "off", 0);
			if (vxArg(&c, "q")) { jBegin(); jStr("op", "keep"); jInt("keep", (long long)keep); jEnd(); continue; }
			if (l == 0 || l > 256 || l % 16 || hl > l / 4 || hl == 0 || off <= -(long)hl || off >= (long)keep) return 2;
			ar = (octet*)malloc(keep + 128); st = ar + 64; msg = (octet*)malloc(len ? len : 1); vxRandBuf(msg, len);
			bashHashStart(st, l); bashHashStepH(msg, len, st); bashHashStepG(st + off, hl, st);
			memcpy(out, st + off, hl);
			sprintf(cls, "overlap:stepG:l=%u:hlen=%u:off=%ld", (unsigned)l, (unsigned)hl, off);
			jBegin(); jStr("op", "bashHash"); jStr("cls", cls); jInt("l", (long long)l); jOct("in", msg, len);
			jOct("out", out, hl); jStr("err", "OK"); jInt("doff", off); jEnd();
			free(ar); free(msg); continue;
		}
		if (!f || strcmp(f, "bashHash") != 0) { fprintf(stderr, "unknown function %s\n", f ? f : "?"); return 3; }
		l = (size_t)vxInt(&c, "l", 128); len = (size_t)vxInt(&c, "len", 32); doff = (long)vxInt(&c, "doff", 0);
		if (l == 0 || l > 256 || l % 16 || len > 2048 || doff < -(long)OV_BASE || doff > (long)(len + 512)) return 2;
		arena = (octet*)malloc(OV_ARENA); snap = (octet*)malloc(len ? len : 1);
		vxRandBuf(arena, OV_ARENA); memcpy(snap, arena + OV_BASE, len);
		rc = bashHash(arena + OV_BASE + doff, l, arena + OV_BASE, len);
		memcpy(res, arena + OV_BASE + doff, l / 4);
		sprintf(cls, "overlap:l=%u:len=%u:doff=%ld", (unsigned)l, (unsigned)len, doff);
		jBegin(); jStr("op", "bashHash"); jStr("cls", cls); jInt("l", (long long)l); jOct("in", snap, len);
		jOct("out", res, l / 4); jStr("err", errName(rc)); jInt("doff", doff); jEnd();
		free(arena); free(snap);
	}
	return 0;
}

int main(int argc, char** argv)
{
	const char* mode = argc > 1 ? argv[1] : "record";
	vxSeed(vxEnvSeed());
	if (strcmp(mode, "platform") == 0) { printf("%s\n", bash_platform); return 0; }
	if (strcmp(mode, "record") == 0)
	{
		const char* what = argc > 2 ? argv[2] : "bash";
		thorough = argc > 3 && strcmp(argv[3], "thorough") == 0;
		if (strcmp(what, "bash") == 0) recBash();
		else if (strcmp(what, "brng") == 0) recBrng();
		else if (strcmp(what, "botp") == 0) recBotp();
		else if (strcmp(what, "suites") == 0) recSuites();
		else return 2;
		return 0;
	}
	if (strcmp(mode, "scripts") == 0)
	{
		recScripts(argc > 2 ? atol(argv[2]) : 12, argc > 3 ? atol(argv[3]) : 10);
		return 0;
	}
	if (strcmp(mode, "replay") == 0) { replay(); return 0; }
	if (strcmp(mode, "steps") == 0) return stepsMain();
	if (strcmp(mode, "overlap") == 0) return overlapMain();
	return 2;
}
