/* API completion, miscellaneous group (suite "misc" of C07 / C19): exported functions that no other driver calls.
     core/prng.h   prngSTBStart / prngSTBStepR / prngSTB_keep, prngEcho*, prngCOMBO* judged as functions
     core/rng.h    rngTestFIPS1..4 on constructed 2500-octet buffers at both edges of every acceptance interval
     crypto/bash.h the bash256 / bash384 / bash512 macro families; the one-call commands bashPrgAbsorb / Squeeze / Encr / Decr
     core/tm.h     tmDate / tmDate2 / tmTime / tmTimeRound over a STUBBED clock (time() below, TZ set by the driver)
   record <tier> : one ndjson line per case, judged by spec/trace/Trace_Misc.tla.
   Every buffer and state is malloc'ed at exactly the documented size; the line format has octet arrays and small
   integers only (no size_t-dependent value), so all build configurations must print identical lines.
   Seeds vary data octets and orders only; lengths, classes, fragmentations, edges are enumerated.
   Left out: rngESRead / rngESTest / rngESHealth / rngESHealth2 (environment), tmTicks / tmFreq / tmSpeed (hardware timer). */
#include "vx.h"
#include <time.h>
#include <bee2/core/err.h>
#include <bee2/core/mem.h>
#include <bee2/core/prng.h>
#include <bee2/core/rng.h>
#include <bee2/core/tm.h>
#include <bee2/crypto/bash.h>

static int thorough = 0;
static void* xalloc(size_t n) { void* p = malloc(n ? n : 1); if (!p) exit(3); return p; }
static void* xdup(const void* s, size_t n) { void* p = xalloc(n); if (n) memcpy(p, s, n); return p; }
static void jSizes(const char* k, const size_t* a, size_t n)
{
	size_t i; jSep(); fprintf(vx_out, "\"%s\":[", k);
	for (i = 0; i < n; ++i) fprintf(vx_out, i ? ",%u" : "%u", (unsigned)a[i]);
	fputc(']', vx_out);
}
static size_t sum(const size_t* a, size_t n) { size_t s = 0; while (n--) s += a[n]; return s; }

/* ------------------------------------------------------------------ the stubbed clock (tm.c calls time()) */
static time_t stub_time = 0; static int stub_fail = 0;
time_t time(time_t* p) { time_t t = stub_fail ? (time_t)-1 : stub_time; if (p) *p = t; return t; }

/* ------------------------------------------------------------------ fragment scripts */
#define MAXFR 80
typedef struct { size_t n; size_t fr[MAXFR]; } script_t;
static script_t scripts[64]; static size_t nscripts = 0;
static void addScript(const size_t* fr, size_t n) { scripts[nscripts].n = n; memcpy(scripts[nscripts].fr, fr, n * sizeof(size_t)); ++nscripts; }
static void mkScripts(const size_t* singles, size_t ns, const size_t* oneshots, size_t no)
{
	static const size_t m1[] = {1, 2, 7, 8, 9, 31, 32, 33}, m2[] = {33, 32, 31, 9, 8, 7, 2, 1}, m3[] = {0, 1, 0, 33, 0, 2, 31, 0},
		m4[] = {7, 9, 8, 8, 1, 31, 1, 32, 2, 3, 5, 4, 4};
	size_t i, k, fr[MAXFR];
	nscripts = 0;
	for (i = 0; i < ns; ++i)
	{	/* the same fragment length until at least 66 octets are out */
		size_t cnt = (66 + singles[i] - 1) / singles[i];
		if (cnt > MAXFR) cnt = MAXFR;
		for (k = 0; k < cnt; ++k) fr[k] = singles[i];
		addScript(fr, cnt);
	}
	for (i = 0; i < no; ++i) addScript(oneshots + i, 1);
	addScript(m1, 8); addScript(m2, 8); addScript(m3, 8); addScript(m4, 13);
}

/* ------------------------------------------------------------------ prngSTB */
static void stbLine(const u16* z, const script_t* sc)
{
	void* st = xalloc(prngSTB_keep()); size_t total = sum(sc->fr, sc->n), pos = 0, i;
	octet* out = (octet*)xalloc(total); u16* zc = z ? (u16*)xdup(z, 62) : 0; long long zl[31];
	prngSTBStart(st, zc);
	if (zc) free(zc);									/* the state keeps no reference to z */
	for (i = 0; i < sc->n; ++i)
	{
		octet* b = (octet*)xalloc(sc->fr[i]);
		prngSTBStepR(b, sc->fr[i], st);
		memcpy(out + pos, b, sc->fr[i]); pos += sc->fr[i]; free(b);
	}
	for (i = 0; i < 31; ++i) zl[i] = z ? z[i] : 0;
	jBegin(); jStr("op", "stb"); jInt("znull", z ? 0 : 1); jIntArr("z", zl, z ? 31 : 0); jSizes("frags", sc->fr, sc->n); jOct("out", out, total); jEnd();
	free(out); free(st);
}
static void recStb(void)
{
	static const size_t singles[] = {1, 2, 7, 8, 9, 31, 32, 33}, oneshots[] = {0, 1, 2, 7, 8, 9, 31, 32, 33, 128, 255, 256, 257};
	u16 z[31]; size_t c, i, s, nrand = thorough ? 8 : 2;
	mkScripts(singles, 8, oneshots, 13);
	for (c = 0; c < 6 + nrand; ++c)
	{
		for (i = 0; i < 31; ++i)
			z[i] = c == 1 ? (u16)(i + 1) : c == 2 ? 1 : c == 3 ? 65256 : c == 4 ? (i % 2 ? 65256 : 1) : c == 5 ? (u16)(65226 + i) : (u16)(1 + vxRandN(65256));
		for (s = 0; s < nscripts; ++s)
		{
			if (!thorough && c >= 2 && (s + c) % 3) continue;		/* quick: NULL and 1..31 with every script, the other classes with a third */
			stbLine(c == 0 ? 0 : z, &scripts[s]);
		}
	}
}

/* ------------------------------------------------------------------ prngEcho */
static void recEcho(void)
{
	static const size_t lens[] = {1, 2, 7, 8, 9, 31, 32, 33};
	size_t li, s, i;
	for (li = 0; li < 8; ++li)
	{
		size_t len = lens[li];
		size_t oneshots[] = {0, 1, len - 1, len, len + 1, 2 * len + 1, 70};
		mkScripts(lens, 8, oneshots, 7);
		for (s = 0; s < nscripts; ++s)
		{
			const script_t* sc = &scripts[s]; size_t total = sum(sc->fr, sc->n), pos = 0;
			octet* seed = (octet*)xalloc(len); void* st = xalloc(prngEcho_keep()); octet* out = (octet*)xalloc(total);
			if (!thorough && (s + li) % 2) { free(seed); free(st); free(out); continue; }
			vxRandBuf(seed, len);
			prngEchoStart(st, seed, len);
			for (i = 0; i < sc->n; ++i)
			{
				octet* b = (octet*)xalloc(sc->fr[i]);
				prngEchoStepR(b, sc->fr[i], st);
				memcpy(out + pos, b, sc->fr[i]); pos += sc->fr[i]; free(b);
			}
			jBegin(); jStr("op", "echo"); jOct("seed", seed, len); jSizes("frags", sc->fr, sc->n); jOct("out", out, total); jEnd();
			free(seed); free(st); free(out);
		}
	}
}

/* ------------------------------------------------------------------ prngCOMBO */
static void recCombo(void)
{
	static const size_t singles[] = {1, 2, 3, 4, 5, 7, 8, 9, 31, 32, 33}, oneshots[] = {0, 1, 3, 4, 5, 300};
	u32 seeds[12] = {0, 1, 17, 0x7FFFFFFFu, 0x80000000u, 0xFFFFFFFFu, 0xE0948042u, 0xE0948043u};
	size_t c, s, i, nseeds = thorough ? 12 : 10;
	for (c = 8; c < 12; ++c) seeds[c] = (u32)vxRand64();
	mkScripts(singles, 11, oneshots, 6);
	for (c = 0; c < nseeds; ++c)
		for (s = 0; s < nscripts; ++s)
		{
			const script_t* sc = &scripts[s]; size_t total = sum(sc->fr, sc->n), pos = 0;
			void* st; octet* out; octet* one; octet sd[4];
			if (!thorough && (s + c) % 3) continue;
			st = xalloc(prngCOMBO_keep()); out = (octet*)xalloc(total); one = (octet*)xalloc(total);
			prngCOMBOStart(st, seeds[c]);
			for (i = 0; i < sc->n; ++i)
			{
				octet* b = (octet*)xalloc(sc->fr[i]);
				prngCOMBOStepR(b, sc->fr[i], st);
				memcpy(out + pos, b, sc->fr[i]); pos += sc->fr[i]; free(b);
			}
			free(st); st = xalloc(prngCOMBO_keep());
			prngCOMBOStart(st, seeds[c]); prngCOMBOStepR(one, total, st);
			sd[0] = (octet)seeds[c]; sd[1] = (octet)(seeds[c] >> 8); sd[2] = (octet)(seeds[c] >> 16); sd[3] = (octet)(seeds[c] >> 24);
			jBegin(); jStr("op", "combo"); jOct("seed", sd, 4); jSizes("frags", sc->fr, sc->n); jOct("out", out, total); jOct("one", one, total); jEnd();
			free(st); free(out); free(one);
		}
}

/* ------------------------------------------------------------------ rngTestFIPS1..4 */
#define NB 20000
static void setBit(octet* buf, size_t i, int b) { if (b) buf[i / 8] |= (octet)(1u << i % 8); else buf[i / 8] &= (octet)~(1u << i % 8); }
static void fipsLine(const char* cls, const long long* want, size_t nw, const octet* src)
{
	octet* buf = (octet*)xdup(src, 2500); long long res[4];
	res[0] = rngTestFIPS1(buf) ? 1 : 0; res[1] = rngTestFIPS2(buf) ? 1 : 0; res[2] = rngTestFIPS3(buf) ? 1 : 0; res[3] = rngTestFIPS4(buf) ? 1 : 0;
	jBegin(); jStr("op", "fips"); jStr("cls", cls); jIntArr("want", want, nw); jIntArr("res", res, 4); jOct("buf", buf, 2500); jEnd();
	free(buf);
}
/* exactly k ones; tail = the last 32 bits (the part FIPS1 reads separately when words have 64 bits): 0 random, 1 all ones, 2 all zeros;
   3: head = the first 64 bits all ones */
static void fipsOnes(size_t k, int tail)
{
	static size_t perm[NB]; octet buf[2500]; size_t lo = 0, hi = NB, i, need = k; long long want;
	memset(buf, 0, 2500);
	if (tail == 1) { for (i = NB - 32; i < NB; ++i) setBit(buf, i, 1); hi = NB - 32; need -= 32; }
	else if (tail == 2) hi = NB - 32;
	else if (tail == 3) { for (i = 0; i < 64; ++i) setBit(buf, i, 1); lo = 64; need -= 64; }
	if (k == NB) { memset(buf, 0xFF, 2500); need = 0; }
	for (i = lo; i < hi; ++i) perm[i] = i;
	for (i = lo; i < lo + need && i < hi; ++i)
	{	/* partial Fisher-Yates: need distinct positions */
		size_t j = i + vxRandN(hi - i), t = perm[i]; perm[i] = perm[j]; perm[j] = t;
		setBit(buf, perm[i], 1);
	}
	want = (long long)k;
	fipsLine("ones", &want, 1, buf);
}
/* tetrad counts with sum 5000 and sum of squares T (variant = which solution), tetrads in seeded order */
static int fipsPoker(long long T, size_t variant)
{
	long c[16]; long a, b, e, g, D, delta = (long)(T - 1562504); size_t i, n = 0, skip = 0; static octet tet[5000]; octet buf[2500]; long long want;
	/* sixteen counts near 312.5 (eight of 312, eight of 313: sum of squares 1562504).  A coarse deviation D on one pair
	   (adds 2D^2 - 2D; the variant picks D), then four small free deviations balanced on a fifth count make up the rest */
	if (delta < 0) return 0;
	for (D = 0; 2 * (D + 1) * (D + 1) - 2 * (D + 1) <= delta - 100; ++D);
	if ((long)variant <= D) D -= (long)variant; else skip = variant - (size_t)D, D = 0;
	delta -= 2 * D * D - 2 * D;
	for (a = 0; a <= 40; ++a)
		for (b = -40; b <= 40; ++b)
			for (e = -40; e <= 40; ++e)
				for (g = -40; g <= 40; ++g)
					if (a * a + b * b + e * e + g * g + (a + b + e + g) * (a + b + e + g) + 2 * b + 2 * g == delta && skip-- == 0)
					{
						for (i = 0; i < 16; ++i) c[i] = i % 2 ? 313 : 312;
						c[0] += a; c[1] += b; c[2] += e; c[3] += g; c[4] -= a + b + e + g; c[14] += D; c[15] -= D;
						goto build;
					}
	return 0;
build:
	{	/* which tetrad value gets which count: rotated by the variant */
		long long ss = 0;
		for (i = 0; i < 16; ++i) ss += (long long)c[i] * c[i];
		if (ss != T) return 0;
		for (i = 0; i < 16; ++i) { long k; for (k = 0; k < c[i]; ++k) tet[n++] = (octet)((i + 5 * variant) % 16); }
		for (i = 5000; i > 1; --i) { size_t j = vxRandN(i); octet t = tet[i - 1]; tet[i - 1] = tet[j]; tet[j] = t; }
		for (i = 0; i < 2500; ++i) buf[i] = (octet)(tet[2 * i] | tet[2 * i + 1] << 4);
		want = 16 * T - 25000000;
		fipsLine("poker", &want, 1, buf);
	}
	return 1;
}
/* runs: the count of runs of bit value b in length class j (6 = 6 and longer) is val, every other count strictly inside its interval */
static const long RLO[7] = {0, 2315, 1114, 527, 240, 103, 103}, RHI[7] = {0, 2685, 1386, 723, 384, 209, 209};
static int fipsRuns(int b, int j, long val, int first)
{
	static const long base[7] = {0, 2500, 1250, 625, 312, 156, 156};
	long n[2][7], D, F, N6, R, q, r; int k, bb, ob = 1 - b; size_t cnt[2], pos = 0, i, ix[2] = {0, 0}; static long len[2][6000]; octet buf[2500]; long long want[3];
	for (bb = 0; bb < 2; ++bb) for (k = 1; k <= 6; ++k) n[bb][k] = base[k];
	D = val - base[j]; n[b][j] = val;
	if (D < 0)		/* add -D runs of bit b elsewhere, short classes first */
		for (k = 1; k <= 6 && D < 0; ++k) { long cap = RHI[k] - 1 - n[b][k], t; if (k == j) continue; t = cap < -D ? cap : -D; n[b][k] += t; D += t; }
	else			/* remove D runs of bit b elsewhere, long classes first */
		for (k = 6; k >= 1 && D > 0; --k) { long cap = n[b][k] - (RLO[k] + 1), t; if (k == j) continue; t = cap < D ? cap : D; n[b][k] -= t; D -= t; }
	if (D != 0) return 0;
	for (;;)
	{	/* the runs of 6 and more take the remaining bits: 6 .. 20 each; otherwise move runs of the other bit between classes */
		F = 0; for (bb = 0; bb < 2; ++bb) for (k = 1; k <= 5; ++k) F += k * n[bb][k];
		N6 = n[0][6] + n[1][6]; R = NB - F;
		if (R < 6 * N6)
		{
			int from, to;
			for (from = 5; from >= 2; --from) if (n[ob][from] > RLO[from] + 1) break;
			for (to = 1; to < from; ++to) if (n[ob][to] < RHI[to] - 1) break;
			if (from < 2 || to >= from) return 0;
			--n[ob][from]; ++n[ob][to];
		}
		else if (R > 20 * N6)
		{
			int from, to;
			for (from = 1; from <= 4; ++from) if (n[ob][from] > RLO[from] + 1) break;
			for (to = 5; to > from; --to) if (n[ob][to] < RHI[to] - 1) break;
			if (from > 4 || to <= from) return 0;
			--n[ob][from]; ++n[ob][to];
		}
		else break;
	}
	q = R / N6; r = R % N6;
	for (bb = 0; bb < 2; ++bb)
	{
		cnt[bb] = 0;
		for (k = 1; k <= 5; ++k) for (i = 0; i < (size_t)n[bb][k]; ++i) len[bb][cnt[bb]++] = k;
		for (i = 0; i < (size_t)n[bb][6]; ++i) len[bb][cnt[bb]++] = q + (r-- > 0 ? 1 : 0);
		for (i = cnt[bb]; i > 1; --i) { size_t x = vxRandN(i); long t = len[bb][i - 1]; len[bb][i - 1] = len[bb][x]; len[bb][x] = t; }
	}
	if (cnt[0] != cnt[1]) return 0;
	memset(buf, 0, 2500);
	for (bb = first; ix[0] < cnt[0] || ix[1] < cnt[1]; bb = 1 - bb)
	{
		long l = len[bb][ix[bb]++];
		for (i = 0; i < (size_t)l; ++i, ++pos) { if (pos >= NB) return 0; setBit(buf, pos, bb); }
	}
	if (pos != NB) return 0;
	want[0] = b; want[1] = j; want[2] = val;
	fipsLine("runs", want, 3, buf);
	return 1;
}
/* longest run: L bits of value b from bit s, in a background without runs longer than 6 */
static void fipsLong(int b, size_t L, size_t s)
{
	static const octet bg[16] = {0x55, 0xAA, 0x33, 0xCC, 0x66, 0x99, 0x5A, 0xA5, 0x69, 0x96, 0x35, 0xCA, 0x53, 0xAC, 0x36, 0xC9};
	octet buf[2500]; size_t i; long long want[3];
	for (i = 0; i < 2500; ++i) buf[i] = bg[vxRandN(16)];
	for (i = s; i < s + L; ++i) setBit(buf, i, b);
	if (s > 0) setBit(buf, s - 1, !b);
	if (s + L < NB) setBit(buf, s + L, !b);
	want[0] = b; want[1] = (long long)L; want[2] = (long long)s;
	fipsLine("long", want, 3, buf);
}
static int recFips(void)
{
	static const size_t K[] = {9725, 9726, 10274, 10275, 9724, 9727, 10273, 10276, 0, 64, 10000, 19968, 20000};
	static const long long T[] = {1563174, 1563176, 1576928, 1576930, 1562504, 1563172, 1563178, 1576926, 1576932};
	static const size_t LL[] = {25, 26, 24, 27, 33, 64, 200};
	size_t i, v, nk = thorough ? 13 : 4, nt = thorough ? 9 : 4, nl = thorough ? 7 : 2, nv = thorough ? 4 : 2;
	int b, j, t;
	for (i = 0; i < nk; ++i)
		for (t = 0; t < 4; ++t)
		{
			if ((t == 1 && K[i] < 32) || (t == 2 && K[i] > NB - 32) || (t == 3 && K[i] < 64)) continue;
			if (K[i] == NB && t) continue;
			fipsOnes(K[i], t);
		}
	for (i = 0; i < nt; ++i)
		for (v = 0; v < nv; ++v)
			if (!fipsPoker(T[i], v)) { fprintf(stderr, "drv_misc: no tetrad counts for T=%lld variant %u\n", T[i], (unsigned)v); return 2; }
	for (b = 0; b < 2; ++b)
		for (j = 1; j <= 6; ++j)
		{
			long vals[6]; size_t nvv = 4;
			vals[0] = RLO[j] - 1; vals[1] = RLO[j]; vals[2] = RHI[j]; vals[3] = RHI[j] + 1;
			if (thorough) vals[4] = RLO[j] + 1, vals[5] = RHI[j] - 1, nvv = 6;
			for (v = 0; v < nvv; ++v)
				if (!fipsRuns(b, j, vals[v], (int)((v + (size_t)j) % 2))) { fprintf(stderr, "drv_misc: no run layout for b=%d j=%d val=%ld\n", b, j, vals[v]); return 2; }
		}
	for (b = 0; b < 2; ++b)
		for (i = 0; i < nl; ++i)
		{
			size_t L = LL[i];
			/* start, end, across an octet / 32-bit / 64-bit boundary, into the last 32 bits, inside one word */
			size_t S[] = {0, NB - L, 8 * 77 - 3, 32 * 101 - 13, 64 * 150 - 13, L <= 44 ? NB - 32 - 12 : NB - L - 1, 64 * 40 + 1};
			size_t ns = (thorough || L <= 26) ? 7 : 3;
			for (v = 0; v < ns; ++v) fipsLong(b, L, S[v]);
		}
	{	/* seeded random buffers, plain and with a density of ones near the monobit edges */
		octet buf[2500]; size_t nr = thorough ? 40 : 4;
		for (v = 0; v < nr; ++v) { vxRandBuf(buf, 2500); fipsLine("rand", 0, 0, buf); }
		for (v = 0; v < nr; ++v)
		{
			size_t pm = v % 2 ? 4870 : 5130;	/* P(bit = 1) in 1/10000: mean 9740 / 10260 ones, standard deviation 70 */
			memset(buf, 0, 2500);
			for (i = 0; i < NB; ++i) if (vxRandN(10000) < pm) setBit(buf, i, 1);
			fipsLine("rand", 0, 0, buf);
		}
	}
	return 0;
}

/* ------------------------------------------------------------------ bash256 / bash384 / bash512 */
typedef struct {
	size_t nnn;
	void (*start)(void*); void (*stepH)(const void*, size_t, void*); void (*stepG)(octet*, void*); void (*stepG2)(octet*, size_t, void*);
	int (*stepV)(const octet*, void*); int (*stepV2)(const octet*, size_t, void*); err_t (*hash)(octet*, const void*, size_t); size_t (*keep)(void);
} fam_t;
#define FAM(N) \
	static void start##N(void* st) { bash##N##Start(st); } \
	static void stepH##N(const void* b, size_t n, void* st) { bash##N##StepH(b, n, st); } \
	static void stepG##N(octet* h, void* st) { bash##N##StepG(h, st); } \
	static void stepG2##N(octet* h, size_t n, void* st) { bash##N##StepG2(h, n, st); } \
	static int stepV##N(const octet* h, void* st) { return bash##N##StepV(h, st) ? 1 : 0; } \
	static int stepV2##N(const octet* h, size_t n, void* st) { return bash##N##StepV2(h, n, st) ? 1 : 0; } \
	static err_t hash##N(octet* h, const void* s, size_t n) { return bash##N##Hash(h, s, n); } \
	static size_t keep##N(void) { return bash##N##_keep(); }
FAM(256) FAM(384) FAM(512)
static const fam_t fams[3] = {
	{256, start256, stepH256, stepG256, stepG2256, stepV256, stepV2256, hash256, keep256},
	{384, start384, stepH384, stepG384, stepG2384, stepV384, stepV2384, hash384, keep384},
	{512, start512, stepH512, stepG512, stepG2512, stepV512, stepV2512, hash512, keep512}};

static void recBashNNN(void)
{
	size_t f, i, k;
	for (f = 0; f < 3; ++f)
	{
		const fam_t* fm = &fams[f]; size_t hl = fm->nnn / 8, blk = 192 - fm->nnn / 4;
		size_t counts[] = {0, 1, blk - 1, blk, blk + 1, 2 * blk, 2 * blk + 7};
		size_t mix[4][8] = {{1, 2, 7, 8, 9, 31, 32, 33}, {blk - 1, 1, blk, blk + 1}, {0, 33, 0, blk}, {blk, blk}};
		size_t mixn[4] = {8, 4, 4, 2}, hlens[4] = {0, 1, hl - 1, hl};
		for (i = 0; i < 7; ++i)
		{
			octet* in = (octet*)xalloc(counts[i]); octet* h = (octet*)xalloc(hl); err_t e;
			vxRandBuf(in, counts[i]);
			e = fm->hash(h, in, counts[i]);
			jBegin(); jStr("op", "bashNNN"); jInt("nnn", (long long)fm->nnn); jStr("via", "Hash"); jOct("in", in, counts[i]); jOct("out", h, hl);
			jStr("err", e == ERR_OK ? "OK" : "OTHER"); jEnd();
			free(in); free(h);
		}
		for (i = 0; i < 4; ++i)
		{
			size_t total = sum(mix[i], mixn[i]), pos = 0, pre = 0, hlen = hlens[i];
			octet* in = (octet*)xalloc(total); void* st = xalloc(fm->keep());
			octet* g1 = (octet*)xalloc(hl); octet* g2 = (octet*)xalloc(hlen); octet* g = (octet*)xalloc(hl); octet* bad = (octet*)xalloc(hl); octet* bad2 = (octet*)xalloc(hlen);
			int v, vbad, v2, v2bad;
			vxRandBuf(in, total);
			fm->start(st);
			for (k = 0; k < mixn[i]; ++k)
			{
				octet* fr = (octet*)xdup(in + pos, mix[i][k]);
				fm->stepH(fr, mix[i][k], st); pos += mix[i][k]; free(fr);
				if (k == 1) { fm->stepG(g1, st); pre = pos; }		/* a hash value in the middle; hashing goes on */
			}
			fm->stepG2(g2, hlen, st);
			fm->stepG(g, st);
			memcpy(bad, g, hl); bad[vxRandN(hl)] ^= (octet)(1u << vxRandN(8));
			v = fm->stepV(g, st); vbad = fm->stepV(bad, st);
			if (hlen) { memcpy(bad2, g, hlen); bad2[vxRandN(hlen)] ^= (octet)(1u << vxRandN(8)); }
			v2 = fm->stepV2(g, hlen, st); v2bad = hlen ? fm->stepV2(bad2, hlen, st) : 0;
			jBegin(); jStr("op", "bashNNN"); jInt("nnn", (long long)fm->nnn); jStr("via", "Steps"); jSizes("frags", mix[i], mixn[i]); jOct("in", in, total);
			jInt("pre", (long long)pre); jOct("g1", g1, hl); jInt("hlen", (long long)hlen); jOct("g2", g2, hlen); jOct("g", g, hl);
			jInt("v", v); jInt("vbad", vbad); jInt("v2", v2); jInt("v2bad", v2bad); jEnd();
			free(in); free(st); free(g1); free(g2); free(g); free(bad); free(bad2);
		}
	}
}

/* ------------------------------------------------------------------ one-call commands of the automaton */
/* mirror of bash_prg_st (src/crypto/bash/bash_prg.c) for the projected state */
typedef struct { size_t l; size_t d; octet s[192]; size_t buf_len; size_t pos; octet t[192]; } prg_view;
static void stepped(void (*step)(void*, size_t, void*), octet* buf, size_t n, void* st)
{	/* the Step form in three fragments of exact size */
	size_t cut[4], i; cut[0] = 0; cut[1] = n / 3; cut[2] = n - n / 4; cut[3] = n;
	for (i = 0; i < 3; ++i)
	{
		size_t m = cut[i + 1] - cut[i]; octet* fr = (octet*)xdup(buf + cut[i], m);
		step(fr, m, st); memcpy(buf + cut[i], fr, m); free(fr);
	}
}
static void absorbStep(void* b, size_t n, void* st) { bashPrgAbsorbStep(b, n, st); }
static void recPrg(void)
{
	static const size_t LV[3] = {128, 192, 256};
	size_t li, d, keyed, c, idx = 0;
	for (li = 0; li < 3; ++li) for (d = 1; d <= 2; ++d) for (keyed = 0; keyed < 2; ++keyed)
	{
		size_t l = LV[li];
		for (c = 0; c < 7; ++c, ++idx)
		{
			size_t kl = keyed ? (idx % 3 == 0 ? l / 8 : idx % 3 == 1 ? l / 8 + 4 : 60) : 0, al = idx % 4 == 0 ? 0 : idx % 4 == 1 ? 4 : idx % 4 == 2 ? 32 : 60;
			size_t r = keyed ? (1536 - l - d * l / 2) / 8 : (1536 - 2 * d * l) / 8;
			size_t x1c[] = {0, 1, r - 1, r, r + 1, 2 * r, 2 * r + 3}, x1l = x1c[c], x2l = c == 0 ? 0 : idx % 2 ? 5 : r,	/* class 0: both texts empty - a command with no data still is a command */ n = idx % 3 ? 32 : r + 1, alen = idx % 3 == 0 ? 0 : idx % 3 == 1 ? 7 : r;
			octet* ann; octet* key; octet* a; octet* x1; octet* x2; octet* y1; octet* y2; octet* t; octet* dx1; octet* dx2; octet* dt; octet* sy1; octet* sy2; octet* st_;
			void* st; void* st2; void* st3; const prg_view* pv;
			if (!thorough && c != 0 && (c + idx / 7) % 7 > 1) continue;		/* quick: two of the seven length classes per (l, d, mode), rotating */
			ann = (octet*)xalloc(al); key = (octet*)xalloc(kl); a = (octet*)xalloc(alen); x1 = (octet*)xalloc(x1l); x2 = (octet*)xalloc(x2l);
			vxRandBuf(ann, al); vxRandBuf(key, kl); vxRandBuf(a, alen); vxRandBuf(x1, x1l); vxRandBuf(x2, x2l);
			y1 = (octet*)xdup(x1, x1l); y2 = (octet*)xdup(x2, x2l); t = (octet*)xalloc(n);
			st = xalloc(bashPrg_keep()); st2 = xalloc(bashPrg_keep()); st3 = xalloc(bashPrg_keep());
			/* (1) the one-call commands */
			bashPrgStart(st, l, d, ann, al, key, kl);
			bashPrgAbsorb(a, alen, st);
			if (keyed) { bashPrgEncr(y1, x1l, st); bashPrgEncr(y2, x2l, st); bashPrgSqueeze(t, n, st); }
			else { bashPrgAbsorb(x1, x1l, st); bashPrgSqueeze(t, n, st); bashPrgSqueeze(y2, x2l, st); }
			/* (2) keyed: decryption of what (1) produced, on a second automaton */
			dx1 = (octet*)xdup(y1, x1l); dx2 = (octet*)xdup(y2, x2l); dt = (octet*)xalloc(n);
			if (keyed)
			{
				bashPrgStart(st2, l, d, ann, al, key, kl);
				bashPrgAbsorb(a, alen, st2);
				bashPrgDecr(dx1, x1l, st2); bashPrgDecr(dx2, x2l, st2); bashPrgSqueeze(dt, n, st2);
			}
			/* (3) the same commands as Start + Step in fragments, on a third automaton */
			sy1 = (octet*)xdup(x1, x1l); sy2 = (octet*)xdup(x2, x2l); st_ = (octet*)xalloc(n);
			bashPrgStart(st3, l, d, ann, al, key, kl);
			{ octet* ac = (octet*)xdup(a, alen); bashPrgAbsorbStart(st3); stepped(absorbStep, ac, alen, st3); free(ac); }
			if (keyed)
			{
				bashPrgEncrStart(st3); stepped(bashPrgEncrStep, sy1, x1l, st3);
				bashPrgEncrStart(st3); stepped(bashPrgEncrStep, sy2, x2l, st3);
				bashPrgSqueezeStart(st3); stepped(bashPrgSqueezeStep, st_, n, st3);
			}
			else
			{
				octet* xc = (octet*)xdup(x1, x1l); bashPrgAbsorbStart(st3); stepped(absorbStep, xc, x1l, st3); free(xc);
				bashPrgSqueezeStart(st3); stepped(bashPrgSqueezeStep, st_, n, st3);
				bashPrgSqueezeStart(st3); stepped(bashPrgSqueezeStep, sy2, x2l, st3);
			}
			jBegin(); jStr("op", "prg"); jInt("l", (long long)l); jInt("d", (long long)d); jOct("ann", ann, al); jOct("key", key, kl);
			jInt("buflen", (long long)((const prg_view*)st)->buf_len);
			jOct("a", a, alen); jOct("x1", x1, x1l); jOct("x2", x2, x2l); jInt("n", (long long)n);
			pv = (const prg_view*)st; jOct("y1", y1, x1l); jOct("y2", y2, x2l); jOct("t", t, n); jOct("s", pv->s, 192); jInt("pos", (long long)pv->pos);
			if (keyed) { pv = (const prg_view*)st2; jOct("dx1", dx1, x1l); jOct("dx2", dx2, x2l); jOct("dt", dt, n); jOct("ds", pv->s, 192); jInt("dpos", (long long)pv->pos); }
			pv = (const prg_view*)st3; jOct("sy1", sy1, x1l); jOct("sy2", sy2, x2l); jOct("st", st_, n); jOct("ss", pv->s, 192); jInt("spos", (long long)pv->pos);
			jEnd();
			free(ann); free(key); free(a); free(x1); free(x2); free(y1); free(y2); free(t); free(dx1); free(dx2); free(dt); free(sy1); free(sy2); free(st_);
			free(st); free(st2); free(st3);
		}
	}
}

/* ------------------------------------------------------------------ tm.h over the stubbed clock */
static void setClock(long days, long sod, int fail) { stub_time = (time_t)days * 86400 + (time_t)sod; stub_fail = fail; }
static void recTm(void)
{
	static const long DAYS[] = {0, 10956, 10957, 11016, 11017, 19782, 20088, 20723, 24855, 47481, 47482, 47540, 47541};
	static const long SOD[] = {0, 1, 43200, 86399};
	static const struct { const char* tz; long off; } TZS[] = {{"UTC0", 0}, {"AAA-3", 10800}, {"BBB5", -18000}, {"CCC-14", 50400}, {"DDD12", -43200}};
	size_t i, j, z; int mask, fail;
	for (z = 0; z < 5; ++z)
	{
		setenv("TZ", TZS[z].tz, 1); tzset();
		for (i = 0; i < sizeof(DAYS) / sizeof(DAYS[0]); ++i)
			for (j = 0; j < 4; ++j)
				for (fail = 0; fail < 2; ++fail)
				{
					octet* date = (octet*)xalloc(6); bool_t rc;
					if (fail && (i % 4 || j)) { free(date); continue; }
					if (!thorough && !fail && (i + j + z) % 2) { free(date); continue; }
					setClock(DAYS[i], SOD[j], fail);
					for (mask = 0; mask < 8; ++mask)
					{
						size_t* y = mask & 4 ? (size_t*)xalloc(sizeof(size_t)) : 0; size_t* m = mask & 2 ? (size_t*)xalloc(sizeof(size_t)) : 0;
						size_t* d = mask & 1 ? (size_t*)xalloc(sizeof(size_t)) : 0;
						if (!thorough && mask != 7 && mask != (int)((i + j) % 7)) { free(y); free(m); free(d); continue; }
						if (y) *y = 0; if (m) *m = 0; if (d) *d = 0;
						rc = tmDate(y, m, d);
						jBegin(); jStr("op", "tmDate"); jInt("days", DAYS[i]); jInt("sod", SOD[j]); jInt("off", TZS[z].off); jInt("fail", fail); jInt("mask", mask);
						jInt("rc", rc ? 1 : 0); jInt("y", y ? (long long)*y : -1); jInt("m", m ? (long long)*m : -1); jInt("d", d ? (long long)*d : -1); jEnd();
						free(y); free(m); free(d);
					}
					memset(date, 0xEE, 6);
					rc = tmDate2(date);
					jBegin(); jStr("op", "tmDate2"); jInt("days", DAYS[i]); jInt("sod", SOD[j]); jInt("off", TZS[z].off); jInt("fail", fail);
					jInt("rc", rc ? 1 : 0); jOct("date", date, 6); jEnd();
					free(date);
				}
	}
	setenv("TZ", "UTC0", 1); tzset();
	for (i = 0; i < sizeof(DAYS) / sizeof(DAYS[0]); ++i)
		for (fail = 0; fail < 2; ++fail)
		{
			static const long TS[] = {0, 1, 30, 60, 86400, 86401};
			long sod = SOD[i % 4]; tm_time_t t; size_t k, q;
			setClock(DAYS[i], sod, fail);
			t = tmTime();
			jBegin(); jStr("op", "tmTime"); jInt("days", DAYS[i]); jInt("sod", sod); jInt("fail", fail); jInt("err", t == TIME_ERR ? 1 : 0);
			jInt("rdays", t == TIME_ERR ? -1 : (long long)(t / 86400)); jInt("rsod", t == TIME_ERR ? -1 : (long long)(t % 86400)); jEnd();
			for (k = 0; k < 6; ++k)
				for (q = 0; q < 4; ++q)
				{	/* t0: the epoch, the same instant, one second later (error), 10000 days earlier + 7 s */
					long d0 = q == 0 ? 0 : q == 3 ? (DAYS[i] > 10000 ? DAYS[i] - 10000 : 0) : DAYS[i], s0 = q == 0 ? 0 : q == 1 ? sod : q == 2 ? sod + 1 : 7;
					tm_time_t t0, r;
					if (q == 0 && DAYS[i] > 23000) continue;			/* the difference must fit a TLC integer */
					if (q == 2 && s0 == 86400) d0 += 1, s0 = 0;
					if (!thorough && (k + q + i) % 2) continue;
					t0 = (tm_time_t)d0 * 86400 + (tm_time_t)s0;
					r = tmTimeRound(t0, (tm_time_t)TS[k]);
					jBegin(); jStr("op", "tmTimeRound"); jInt("days", DAYS[i]); jInt("sod", sod); jInt("fail", fail); jInt("days0", d0); jInt("sod0", s0);
					jInt("ts", TS[k]); jInt("err", r == TIME_ERR ? 1 : 0); jInt("q", r == TIME_ERR ? -1 : (long long)r); jEnd();
				}
		}
}

int main(int argc, char** argv)
{
	const char* what = argc > 3 ? argv[3] : "all";
	if (argc < 2 || strcmp(argv[1], "record")) { fprintf(stderr, "usage: drv_misc record <quick|thorough> [stb|echo|combo|fips|bash|prg|tm]\n"); return 2; }
	thorough = argc > 2 && strcmp(argv[2], "thorough") == 0;
#define PART(name) (strcmp(what, "all") == 0 || strcmp(what, name) == 0)
	/* every part draws from its own seeded stream, so that a part can be recorded alone with the same data */
	if (PART("stb")) { vxSeed(vxEnvSeed() * 8 + 1); recStb(); }
	if (PART("echo")) { vxSeed(vxEnvSeed() * 8 + 2); recEcho(); }
	if (PART("combo")) { vxSeed(vxEnvSeed() * 8 + 3); recCombo(); }
	if (PART("fips")) { vxSeed(vxEnvSeed() * 8 + 4); if (recFips()) return 2; }
	if (PART("bash")) { vxSeed(vxEnvSeed() * 8 + 5); recBashNNN(); }
	if (PART("prg")) { vxSeed(vxEnvSeed() * 8 + 6); recPrg(); }
	if (PART("tm")) { vxSeed(vxEnvSeed() * 8 + 7); recTm(); }
	return 0;
}
