/* C07: the shared generator writes exactly the requested number of octets: rngStepR (with entropy refresh from the
   hardware / system sources) and rngStepR2 into buffers of EXACTLY count octets for every count 0..67 and a few long ones,
   rngESRead of every source into exact buffers; sensors only (the octets are random), one line per call without data. */
#include "vx.h"
#include <bee2/core/err.h>
#include <bee2/core/rng.h>

int main(void)
{
	static const size_t LONG[] = { 127, 128, 129, 255, 256, 257, 2499, 2500, 2501 };
	static const char* const SRC[] = { "trng", "trng2", "timer", "sys", "sys2" };
	size_t n, i; err_t rc = rngCreate(0, 0);
	jBegin(); jStr("op", "rngCreate"); jInt("rc", rc); jEnd();
	if (rc != ERR_OK) return 0;
	for (i = 0; i < 68 + sizeof(LONG) / sizeof(LONG[0]); ++i)
	{
		octet* buf; 
		n = i < 68 ? i : LONG[i - 68];
		buf = (octet*)malloc(n ? n : 1); rngStepR(buf, n, 0); free(buf);
		buf = (octet*)malloc(n ? n : 1); rngStepR2(buf, n, 0); free(buf);
		jBegin(); jStr("op", "rngStepR+R2"); jInt("n", (long long)n); jEnd();
	}
	for (i = 0; i < sizeof(SRC) / sizeof(SRC[0]); ++i)
		for (n = 0; n < 20; ++n)
		{
			octet* buf = (octet*)malloc(n ? n : 1); size_t read = 0; err_t e = rngESRead(&read, buf, n, SRC[i]);
			free(buf);
			jBegin(); jStr("op", "rngESRead"); jStr("src", SRC[i]); jInt("n", (long long)n); jBool("within", e != ERR_OK || read <= n); jEnd();
		}
	rngClose();
	return 0;
}
