/* API completion of the core helper layer: every exported helper of core/mem.h, core/str.h, core/util.h,
   core/obj.h, the U64 pair of core/dec.h and the u32-array editions of the belt block cipher / belt-compress
   that no other driver calls.  Record mode only:  drv_core record <quick|thorough>
   One ndjson line per call (the interval predicates: one line per batch of placements), judged by
   spec/trace/Trace_Core.tla against spec/ref/Core.tla.
   Rules of the driver:
   - structure (lengths, placements, aliasing, classes) is enumerated, VERIF_SEED only picks data octets;
   - every buffer handed to the library is malloc'ed at exactly the documented size (a zero-length buffer is the
     one-past-the-end pointer of a 1-octet block), so that the sanitizer builds see every over-read / over-write;
   - the line format does not depend on the word size: octet arrays and small integers only (a 32- or 64-bit value
     is logged as its little-endian octets, computed arithmetically);
   - what the function may touch is logged BEFORE and AFTER ("pre" / "post" = all buffers of the call laid side by
     side), so the specification also decides the frame (nothing else changes). */
#include "vx.h"
#include <stdarg.h>
#include <bee2/core/mem.h>
#include <bee2/core/str.h>
#include <bee2/core/dec.h>
#include <bee2/core/util.h>
#include <bee2/core/obj.h>
#include <bee2/crypto/belt.h>

static int THOROUGH = 0;
static const size_t LENS[] = { 0, 1, 7, 8, 9, 15, 16, 17, 31, 32, 33 };
#define NLENS (sizeof(LENS) / sizeof(LENS[0]))
static char g_cls[96];
#define CLS(...) snprintf(g_cls, sizeof g_cls, __VA_ARGS__)

/* ------------------------------------------------------------------ exact-size buffers */
static octet* xalloc(size_t n)
{
	octet* b = (octet*)malloc(n ? n : 1);
	if (!b) abort();
	return n ? b : b + 1;
}
static void xfree(void* p, size_t n) { if (p) free(n ? (octet*)p : (octet*)p - 1); }
static octet* xrand(size_t n) { octet* b = xalloc(n); vxRandBuf(b, n); return b; }

/* virtual arena: k separately malloc'ed segments laid side by side; a buffer (o, n) lies inside one segment */
#define VA_MAXSEG 4
typedef struct { size_t k, total; size_t len[VA_MAXSEG], start[VA_MAXSEG]; octet* base[VA_MAXSEG]; } va_t;
static void vaNew(va_t* v, size_t k, ...)
{
	va_list ap; size_t i;
	va_start(ap, k);
	v->k = k; v->total = 0;
	for (i = 0; i < k; ++i)
	{
		v->len[i] = va_arg(ap, size_t); v->start[i] = v->total; v->total += v->len[i];
		v->base[i] = xrand(v->len[i]);
	}
	va_end(ap);
}
static void vaFree(va_t* v) { size_t i; for (i = 0; i < v->k; ++i) xfree(v->base[i], v->len[i]); }
static octet* vaPtr(const va_t* v, size_t o, size_t n)
{
	size_t i;
	for (i = 0; i < v->k; ++i)
		if (o >= v->start[i] && o + n <= v->start[i] + v->len[i])
			return v->base[i] + (o - v->start[i]);
	fprintf(stderr, "drv_core: buffer (%zu, %zu) crosses a segment\n", o, n); abort();
}
static void jVa(const char* k, const va_t* v)
{
	size_t i, j, first = 1;
	jSep(); fprintf(vx_out, "\"%s\":[", k);
	for (i = 0; i < v->k; ++i) for (j = 0; j < v->len[i]; ++j) fprintf(vx_out, first ? "%u" : ",%u", v->base[i][j]), first = 0;
	fputc(']', vx_out);
}
static void head(const char* op) { jBegin(); jStr("op", op); jStr("cls", g_cls); }
#define JSZ(k, v) jInt(k, (long long)(v))

/* little-endian octets of integers, computed arithmetically */
static void le32(octet o[4], u32 w) { o[0] = (octet)w; o[1] = (octet)(w >> 8); o[2] = (octet)(w >> 16); o[3] = (octet)(w >> 24); }
static u32 ld32(const octet o[4]) { return (u32)o[0] | (u32)o[1] << 8 | (u32)o[2] << 16 | (u32)o[3] << 24; }
static void le64(octet o[8], uint64_t w) { int i; for (i = 0; i < 8; ++i) o[i] = (octet)(w >> (8 * i)); }
static void jU32(const char* k, u32 w) { octet o[4]; le32(o, w); jOct(k, o, 4); }
static void jU64(const char* k, uint64_t w) { octet o[8]; le64(o, w); jOct(k, o, 8); }

/* ================================================================== mem.h: functions that write */
/* mode of a call with two buffers of n octets: how they are placed */
static void memTwo(const char* op, size_t n)
{
	/* placements of (first, second) buffer: separate blocks; one block, touching, both orders; one block with a gap */
	static const char* PL[] = { "sep", "sep-rev", "touch", "touch-rev", "gap" };
	size_t pl;
	for (pl = 0; pl < 5; ++pl)
	{
		va_t v; size_t o1, o2; octet *p1, *p2;
		if (pl == 0) vaNew(&v, 2, n, n), o1 = 0, o2 = n;
		else if (pl == 1) vaNew(&v, 2, n, n), o1 = n, o2 = 0;
		else if (pl == 2) vaNew(&v, 1, 2 * n), o1 = 0, o2 = n;
		else if (pl == 3) vaNew(&v, 1, 2 * n), o1 = n, o2 = 0;
		else vaNew(&v, 1, 2 * n + 3), o1 = n + 2, o2 = 1;
		p1 = vaPtr(&v, o1, n); p2 = vaPtr(&v, o2, n);
		CLS("n=%zu:%s", n, PL[pl]);
		head(op); JSZ("n", n);
		if (!strcmp(op, "memCopy")) { JSZ("do", o1); JSZ("so", o2); jVa("pre", &v); memCopy(p1, p2, n); }
		else if (!strcmp(op, "memSwap")) { JSZ("o1", o1); JSZ("o2", o2); jVa("pre", &v); memSwap(p1, p2, n); }
		else { JSZ("do", o1); JSZ("so", o2); jVa("pre", &v); memXor2(p1, p2, n); }
		jVa("post", &v); jEnd();
		vaFree(&v);
	}
}

static void memMoveCases(size_t n)
{
	/* every relative position of the destination: delta = dest - src */
	long long delta, lo = -(long long)n - 1, hi = (long long)n + 1;
	for (delta = lo; delta <= hi; ++delta)
	{
		va_t v; size_t so, dd;
		if (!THOROUGH && !(delta == lo || delta == lo + 1 || delta == lo + 2 || delta == -(long long)(n / 2) || delta == -1 || delta == 0 ||
			delta == 1 || delta == (long long)(n / 2) || delta == hi - 2 || delta == hi - 1 || delta == hi))
			continue;
		if (delta < 0) dd = 0, so = (size_t)(-delta); else so = 0, dd = (size_t)delta;
		vaNew(&v, 1, (so > dd ? so : dd) + n);		/* the block is exactly the union of both buffers (plus the gap, if any) */
		CLS("n=%zu:delta=%lld", n, delta);
		head("memMove"); JSZ("n", n); JSZ("do", dd); JSZ("so", so); jVa("pre", &v);
		memMove(vaPtr(&v, dd, n), vaPtr(&v, so, n), n);
		jVa("post", &v); jEnd();
		vaFree(&v);
	}
	{	/* separate blocks */
		va_t v; vaNew(&v, 2, n, n);
		CLS("n=%zu:sep", n);
		head("memMove"); JSZ("n", n); JSZ("do", n); JSZ("so", 0); jVa("pre", &v);
		memMove(vaPtr(&v, n, n), vaPtr(&v, 0, n), n);
		jVa("post", &v); jEnd(); vaFree(&v);
	}
}

static void memOne(size_t n)
{
	/* functions of one buffer: the buffer is a block of its own ("exact") or lies inside a block with one octet on each side */
	int inner, f;
	static const octet CS[] = { 0x00, 0x5C, 0xFF };
	for (inner = 0; inner < 2; ++inner)
		for (f = 0; f < 7; ++f)
		{
			va_t v; size_t o = inner ? 1 : 0; octet* p;
			vaNew(&v, 1, inner ? n + 2 : n); p = vaPtr(&v, o, n);
			CLS("n=%zu:%s", n, inner ? "inner" : "exact");
			switch (f)
			{
			case 0: case 1: case 2:
				head("memSet"); JSZ("n", n); JSZ("o", o); jInt("c", CS[f]); jVa("pre", &v); memSet(p, CS[f], n); break;
			case 3: head("memSetZero"); JSZ("n", n); JSZ("o", o); jVa("pre", &v); memSetZero(p, n); break;
			case 4: head("memNeg"); JSZ("n", n); JSZ("o", o); jVa("pre", &v); memNeg(p, n); break;
			case 5: head("memRev"); JSZ("n", n); JSZ("o", o); jVa("pre", &v); memRev(p, n); break;
			default:
				{	/* memNonZeroSize: the significant part ends at every position */
					size_t z;
					for (z = 0; z <= n; z += (THOROUGH || n < 10 || z + 2 >= n) ? 1 : n / 3)
					{
						size_t r;
						vxRandBuf(p, n); memset(p + z, 0, n - z); if (z) p[z - 1] |= (octet)(1u << (z % 8));
						head("memNonZeroSize"); JSZ("n", n); JSZ("o", o); jVa("pre", &v);
						r = memNonZeroSize(p, n);
						JSZ("res", r); jVa("post", &v); jEnd();
					}
					vaFree(&v);
					continue;
				}
			}
			jVa("post", &v); jEnd();
			vaFree(&v);
		}
}

static void memXorCases(size_t n)
{
	/* dest either coincides with or is disjoint from each source (mem.h); the sources may overlap each other freely */
	struct { const char* name; size_t k; size_t l[3]; size_t d, s1, s2; } P[] = {
		{ "sep",        3, { n, n, n }, 0, n, 2 * n },
		{ "sep-perm",   3, { n, n, n }, 2 * n, 0, n },
		{ "d=s1",       2, { n, n, 0 }, 0, 0, n },
		{ "d=s2",       2, { n, n, 0 }, n, 0, n },
		{ "d=s1=s2",    1, { n, 0, 0 }, 0, 0, 0 },
		{ "s1=s2",      2, { n, n, 0 }, 0, n, n },
		{ "s1^s2+1",    2, { n, n + 1, 0 }, 0, n, n + 1 },
		{ "s1^s2+half", 2, { n, n + n / 2, 0 }, 0, n + n / 2, n },
		{ "touch-dss",  1, { 3 * n, 0, 0 }, 0, n, 2 * n },
		{ "touch-sds",  1, { 3 * n, 0, 0 }, n, 0, 2 * n },
		{ "touch-ssd",  1, { 3 * n, 0, 0 }, 2 * n, n, 0 },
		{ "touch-d=s1", 1, { 2 * n, 0, 0 }, n, n, 0 },
	};
	size_t i;
	for (i = 0; i < sizeof(P) / sizeof(P[0]); ++i)
	{
		va_t v;
		if (P[i].k == 3) vaNew(&v, 3, P[i].l[0], P[i].l[1], P[i].l[2]);
		else if (P[i].k == 2) vaNew(&v, 2, P[i].l[0], P[i].l[1]);
		else vaNew(&v, 1, P[i].l[0]);
		CLS("n=%zu:%s", n, P[i].name);
		head("memXor"); JSZ("n", n); JSZ("do", P[i].d); JSZ("s1", P[i].s1); JSZ("s2", P[i].s2); jVa("pre", &v);
		memXor(vaPtr(&v, P[i].d, n), vaPtr(&v, P[i].s1, n), vaPtr(&v, P[i].s2, n), n);
		jVa("post", &v); jEnd();
		vaFree(&v);
	}
	{	/* memXor2 with dest == src */
		va_t v; vaNew(&v, 1, n);
		CLS("n=%zu:same", n);
		head("memXor2"); JSZ("n", n); JSZ("do", 0); JSZ("so", 0); jVa("pre", &v);
		memXor2(vaPtr(&v, 0, n), vaPtr(&v, 0, n), n);
		jVa("post", &v); jEnd(); vaFree(&v);
	}
}

static void memCopyIfCases(size_t n)
{
	int dn, sn;
	for (dn = 0; dn < 2; ++dn) for (sn = 0; sn < 2; ++sn)
	{
		va_t v; octet *d, *s;
		vaNew(&v, 2, n, n);
		d = dn ? 0 : vaPtr(&v, 0, n); s = sn ? 0 : vaPtr(&v, n, n);
		CLS("n=%zu:dnull=%d:snull=%d", n, dn, sn);
		head("memCopyIf"); JSZ("n", n); JSZ("do", 0); JSZ("so", n); jInt("dn", dn); jInt("sn", sn); jVa("pre", &v);
		memCopyIf(d, s, n);
		jVa("post", &v); jEnd(); vaFree(&v);
	}
}

/* ================================================================== mem.h: interval predicates */
/* intervals of the arena 0..A in the canonical order: by offset, then by length */
typedef struct { size_t o, n; } iv_t;
static size_t ivAll(iv_t* iv, size_t A)
{
	size_t o, n, k = 0;
	for (o = 0; o <= A; ++o) for (n = 0; o + n <= A; ++n) iv[k].o = o, iv[k].n = n, ++k;
	return k;
}
static long long g_res[1 << 16];

static void disjointCases(void)
{
	static iv_t iv[64];
	size_t A, K, i, j, k, l, r;
	octet* a;
	/* equal sizes: memIsDisjoint / memIsSameOrDisjoint; one line per size, all pairs of offsets */
	A = 8; a = xrand(A);
	for (k = 0; k <= A; ++k)
	{
		int f;
		for (f = 0; f < 2; ++f)
		{
			r = 0;
			for (i = 0; i + k <= A; ++i) for (j = 0; j + k <= A; ++j)
				g_res[r++] = f ? memIsSameOrDisjoint(a + i, a + j, k) : memIsDisjoint(a + i, a + j, k);
			CLS("A=%zu:n=%zu", A, k);
			head(f ? "memIsSameOrDisjoint" : "memIsDisjoint"); JSZ("A", A); JSZ("n", k); jIntArr("res", g_res, r); jEnd();
		}
	}
	xfree(a, A);
	/* two intervals: one line per first interval, the second runs over all intervals */
	A = 6; a = xrand(A); K = ivAll(iv, A);
	for (i = 0; i < K; ++i)
	{
		for (r = 0, j = 0; j < K; ++j) g_res[r++] = memIsDisjoint2(a + iv[i].o, iv[i].n, a + iv[j].o, iv[j].n);
		CLS("A=%zu:iv=%zu+%zu", A, iv[i].o, iv[i].n);
		head("memIsDisjoint2"); JSZ("A", A); JSZ("o1", iv[i].o); JSZ("n1", iv[i].n); jIntArr("res", g_res, r); jEnd();
	}
	xfree(a, A);
	/* three intervals: one line per first interval, (second, third) run over all pairs */
	A = THOROUGH ? 6 : 4; a = xrand(A); K = ivAll(iv, A);
	for (i = 0; i < K; ++i)
	{
		for (r = 0, j = 0; j < K; ++j) for (k = 0; k < K; ++k)
			g_res[r++] = memIsDisjoint3(a + iv[i].o, iv[i].n, a + iv[j].o, iv[j].n, a + iv[k].o, iv[k].n);
		CLS("A=%zu:iv=%zu+%zu", A, iv[i].o, iv[i].n);
		head("memIsDisjoint3"); JSZ("A", A); JSZ("o1", iv[i].o); JSZ("n1", iv[i].n); jIntArr("res", g_res, r); jEnd();
	}
	xfree(a, A);
	/* four intervals: one line per (first, second), (third, fourth) run over all pairs */
	A = THOROUGH ? 4 : 3; a = xrand(A); K = ivAll(iv, A);
	for (i = 0; i < K; ++i) for (j = 0; j < K; ++j)
	{
		for (r = 0, k = 0; k < K; ++k) for (l = 0; l < K; ++l)
			g_res[r++] = memIsDisjoint4(a + iv[i].o, iv[i].n, a + iv[j].o, iv[j].n, a + iv[k].o, iv[k].n, a + iv[l].o, iv[l].n);
		CLS("A=%zu:iv=%zu+%zu,%zu+%zu", A, iv[i].o, iv[i].n, iv[j].o, iv[j].n);
		head("memIsDisjoint4"); JSZ("A", A); JSZ("o1", iv[i].o); JSZ("n1", iv[i].n); JSZ("o2", iv[j].o); JSZ("n2", iv[j].n);
		jIntArr("res", g_res, r); jEnd();
	}
	xfree(a, A);
}

static void alignedCases(void)
{
	/* the block is aligned at 4096, so the address modulo a block size dividing 4096 is the offset modulo that size
	   (for other block sizes the verdict depends on the absolute address, which is not reproducible) */
	static const size_t OFF[] = { 0, 1, 2, 3, 4, 5, 6, 7, 8, 9, 12, 15, 16, 17, 24, 31, 32, 33, 48, 63, 64, 65, 96, 127, 128, 129, 255, 256, 257,
		511, 512, 513, 1023, 1024, 1536, 2047, 2048, 2049, 3072, 4095, 4096, 4097, 6144 };
	octet* a = 0; size_t size, i; long long offs[64];
	if (posix_memalign((void**)&a, 4096, 8192)) abort();
	for (size = 1; size <= 4096; size *= 2)
	{
		for (i = 0; i < sizeof(OFF) / sizeof(OFF[0]); ++i) offs[i] = (long long)OFF[i], g_res[i] = memIsAligned(a + OFF[i], size);
		CLS("size=%zu", size);
		head("memIsAligned"); JSZ("size", size); JSZ("base", 4096); jIntArr("offs", offs, i); jIntArr("res", g_res, i); jEnd();
	}
	free(a);
}

/* ================================================================== str.h */
static char* salloc(const octet* s, size_t n)
{
	char* p = (char*)xalloc(n + 1);
	memcpy(p, s, n); p[n] = 0;
	return p;
}
static octet* srand_(size_t n)		/* n random non-zero octets */
{
	octet* s = xalloc(n); size_t i;
	for (i = 0; i < n; ++i) s[i] = (octet)(1 + vxRandN(255));
	return s;
}
static void str1(const char* op, const octet* s, size_t n)
{
	char* p = salloc(s, n); long long r;
	r = !strcmp(op, "strLen") ? (long long)strLen(p) : !strcmp(op, "strIsValid") ? strIsValid(p) :
		!strcmp(op, "strIsNumeric") ? strIsNumeric(p) : !strcmp(op, "strIsAlphanumeric") ? strIsAlphanumeric(p) : strIsPrintable(p);
	head(op); jOct("s", s, n); jInt("res", r); jOct("post", p, n + 1); jEnd();
	xfree(p, n + 1);
}
static void str2(const char* op, const octet* a, size_t na, const octet* b, size_t nb)
{
	char* p = salloc(a, na); char* q = salloc(b, nb); long long r;
	r = !strcmp(op, "strCmp") ? strCmp(p, q) : !strcmp(op, "strEq") ? strEq(p, q) :
		!strcmp(op, "strStartsWith") ? strStartsWith(p, q) : strEndsWith(p, q);
	head(op); jOct("a", a, na); jOct("b", b, nb); jInt("res", r); jEnd();
	xfree(p, na + 1); xfree(q, nb + 1);
}

static void strBasics(size_t n)
{
	octet* s = srand_(n); size_t i;
	static const size_t EXTRA[] = { 0, 1, 100 };
	CLS("n=%zu:random", n);
	str1("strLen", s, n); str1("strIsValid", s, n);
	{	/* strLen2 with the window shorter / equal / longer than the string */
		size_t cs[8], k = 0;
		cs[k++] = 0; if (n > 1) cs[k++] = n / 2; if (n) cs[k++] = n - 1;
		for (i = 0; i < 3; ++i) cs[k++] = n + EXTRA[i];
		for (i = 0; i < k; ++i)
		{
			char* p = salloc(s, n); size_t r;
			CLS("n=%zu:count=%s%zu", n, cs[i] < n ? "n-" : "n+", cs[i] < n ? n - cs[i] : cs[i] - n);
			r = strLen2(p, cs[i]);
			head("strLen2"); jOct("s", s, n); JSZ("count", cs[i]); JSZ("res", r); jEnd();
			xfree(p, n + 1);
		}
	}
	CLS("n=%zu:random", n);
	{	/* strCopy into a buffer of exactly strLen + 1 octets */
		char* p = salloc(s, n); char* d = (char*)xrand(n + 1);
		strCopy(d, p);
		head("strCopy"); jOct("s", s, n); jOct("out", d, n + 1); jOct("post", p, n + 1); jEnd();
		xfree(p, n + 1); xfree(d, n + 1);
	}
	{	char* p = salloc(s, n);
		strRev(p);
		head("strRev"); jOct("s", s, n); jOct("out", p, n + 1); jEnd();
		xfree(p, n + 1);
	}
	{	static const octet CH[] = { 'x', 0x01, 0x7F, 0x80, 0xFF };
		for (i = 0; i < sizeof CH; ++i)
		{
			char* p = salloc(s, n);
			CLS("n=%zu:ch=%u", n, CH[i]);
			strSet(p, (char)CH[i]);
			head("strSet"); jOct("s", s, n); jInt("c", CH[i]); jOct("out", p, n + 1); jEnd();
			xfree(p, n + 1);
		}
	}
	xfree(s, n);
}

static void strCmpCases(size_t n)
{
	/* equal strings; first difference at position p with every ordering of boundary octets (0x7F / 0x80: signedness of char);
	   one string a proper prefix of the other */
	static const octet PAIRS[][2] = { { 0x01, 0x02 }, { 0x7F, 0x80 }, { 0x01, 0xFF }, { 0x30, 0x39 }, { 0xFE, 0xFF }, { 0x41, 0x61 } };
	octet* a = srand_(n + 2); octet* b = xalloc(n + 2); size_t p, k, i;
	memcpy(b, a, n + 2);
	CLS("n=%zu:equal", n); str2("strCmp", a, n, b, n); str2("strEq", a, n, b, n);
	CLS("n=%zu:prefix+1", n); str2("strCmp", a, n, b, n + 1); str2("strCmp", a, n + 1, b, n); str2("strEq", a, n, b, n + 1); str2("strEq", a, n + 1, b, n);
	CLS("n=%zu:prefix+2", n); str2("strCmp", a, n, b, n + 2); str2("strCmp", a, n + 2, b, n);
	for (k = 0; k < 3 && n; ++k)
	{
		p = k == 0 ? 0 : k == 1 ? n / 2 : n - 1;
		if ((k == 1 && (p == 0 || p == n - 1)) || (k == 2 && p == 0)) continue;
		for (i = 0; i < sizeof(PAIRS) / 2; ++i)
		{
			size_t t;
			memcpy(b, a, n + 2);
			a[p] = PAIRS[i][0]; b[p] = PAIRS[i][1];
			for (t = p + 1; t < n; ++t) b[t] = (octet)(1 + vxRandN(255));		/* later octets arbitrary */
			CLS("n=%zu:diff@%s:%02X<%02X", n, k == 0 ? "first" : k == 1 ? "mid" : "last", PAIRS[i][0], PAIRS[i][1]);
			str2("strCmp", a, n, b, n); str2("strCmp", b, n, a, n);
			if (i < 2) str2("strEq", a, n, b, n);
			/* different lengths AND a difference before the shorter one ends */
			if (i == 1) { str2("strCmp", a, n, b, p + 1); str2("strCmp", b, p + 1, a, n); }
		}
	}
	xfree(a, n + 2); xfree(b, n + 2);
}

static void strClassCases(void)
{
	/* every octet value c = 1..255 inside a string of digits (digits belong to all three alphabets), at the first / middle / last
	   position of strings of the length classes; pure strings of each alphabet; the empty string */
	static const char DIG[] = "0123456789";
	static const char ALNUM[] = "0123456789ABCDEFGHIJKLMNOPQRSTUVWXYZabcdefghijklmnopqrstuvwxyz";
	static const char PRN[] = "0123456789ABCDEFGHIJKLMNOPQRSTUVWXYZabcdefghijklmnopqrstuvwxyz '()+,-./:=?";
	unsigned c; size_t i;
	for (c = 1; c < 256; ++c)
	{
		size_t n = LENS[1 + c % (NLENS - 1)], p = (c / 11) % 3 == 0 ? 0 : (c / 11) % 3 == 1 ? n / 2 : n - 1;
		octet* s = xalloc(n);
		for (i = 0; i < n; ++i) s[i] = (octet)DIG[vxRandN(10)];
		s[p] = (octet)c;
		CLS("c=%u:n=%zu:@%zu", c, n, p);
		str1("strIsNumeric", s, n); str1("strIsAlphanumeric", s, n); str1("strIsPrintable", s, n);
		xfree(s, n);
	}
	CLS("pure:digits"); str1("strIsNumeric", (const octet*)DIG, 10); str1("strIsAlphanumeric", (const octet*)DIG, 10); str1("strIsPrintable", (const octet*)DIG, 10);
	CLS("pure:alnum"); str1("strIsNumeric", (const octet*)ALNUM, 62); str1("strIsAlphanumeric", (const octet*)ALNUM, 62); str1("strIsPrintable", (const octet*)ALNUM, 62);
	CLS("pure:printable"); str1("strIsNumeric", (const octet*)PRN, 74); str1("strIsAlphanumeric", (const octet*)PRN, 74); str1("strIsPrintable", (const octet*)PRN, 74);
	CLS("empty"); str1("strIsNumeric", (const octet*)"", 0); str1("strIsAlphanumeric", (const octet*)"", 0); str1("strIsPrintable", (const octet*)"", 0);
	for (i = 0; i < NLENS; ++i)
	{	/* strings over each alphabet of every length class */
		size_t n = LENS[i], j; octet* s = xalloc(n);
		CLS("n=%zu:digits", n); for (j = 0; j < n; ++j) s[j] = (octet)DIG[vxRandN(10)]; str1("strIsNumeric", s, n);
		CLS("n=%zu:alnum", n); for (j = 0; j < n; ++j) s[j] = (octet)ALNUM[vxRandN(62)]; str1("strIsNumeric", s, n); str1("strIsAlphanumeric", s, n);
		CLS("n=%zu:printable", n); for (j = 0; j < n; ++j) s[j] = (octet)PRN[vxRandN(74)]; str1("strIsAlphanumeric", s, n); str1("strIsPrintable", s, n);
		xfree(s, n);
	}
}

static void strAffixCases(size_t n)
{
	/* prefix / suffix of length m: true affix; one octet changed at its first / middle / last position; longer than the string */
	size_t ms[8], k = 0, i, j;
	octet* s = srand_(n);
	ms[k++] = 0; if (n >= 1) ms[k++] = 1; if (n >= 4) ms[k++] = n / 2; if (n >= 3) ms[k++] = n - 1; if (n >= 2) ms[k++] = n;
	for (i = 0; i < k; ++i)
	{
		size_t m = ms[i]; octet* x = xalloc(m + 1);
		CLS("n=%zu:m=%zu:true", n, m);
		str2("strStartsWith", s, n, s, m); str2("strEndsWith", s, n, s + (n - m), m);
		for (j = 0; j < 3 && m; ++j)
		{
			size_t p = j == 0 ? 0 : j == 1 ? m / 2 : m - 1;
			if ((j == 1 && (p == 0 || p == m - 1)) || (j == 2 && p == 0)) continue;
			CLS("n=%zu:m=%zu:diff@%s", n, m, j == 0 ? "first" : j == 1 ? "mid" : "last");
			memcpy(x, s, m); x[p] = (octet)(1 + (x[p] + vxRandN(254)) % 255); if (x[p] == s[p]) x[p] = (octet)(s[p] == 1 ? 2 : 1);
			str2("strStartsWith", s, n, x, m);
			memcpy(x, s + (n - m), m); x[p] = (octet)(s[n - m + p] == 0x41 ? 0x42 : 0x41);
			str2("strEndsWith", s, n, x, m);
		}
		xfree(x, m + 1);
	}
	{	/* the affix is longer than the string: the string extended at the far / near end */
		static const size_t EXT[] = { 1, 8 };
		for (i = 0; i < 2; ++i)
		{
			size_t m = n + EXT[i]; octet* x = srand_(m);
			CLS("n=%zu:m=n+%zu:longer", n, EXT[i]);
			memcpy(x, s, n); str2("strStartsWith", s, n, x, m);			/* s is a proper prefix of x */
			vxRandBuf(x, m); for (j = 0; j < m; ++j) if (!x[j]) x[j] = 1;
			memcpy(x + EXT[i], s, n); str2("strEndsWith", s, n, x, m);	/* s is a proper suffix of x */
			memcpy(x, s, n); str2("strEndsWith", s, n, x, m);
			xfree(x, m);
		}
	}
	if (n >= 2)
	{	/* the affix occurs, but one position off the end it is asked for */
		CLS("n=%zu:shifted", n);
		str2("strStartsWith", s, n, s + 1, n - 1); str2("strEndsWith", s, n, s, n - 1);
		str2("strStartsWith", s, n, s + 1, 1); str2("strEndsWith", s, n, s + n - 2, 1);
	}
	xfree(s, n);
}

/* ================================================================== dec.h (U64) */
#ifdef U64_SUPPORT
static void decCases(void)
{
	static const uint64_t NUM[] = { 0, 1, 9, 10, 99, 100, 4294967295ull, 4294967296ull, 9999999999999999999ull, 10000000000000000000ull,
		18446744073709551615ull, 18446744073709551614ull, 9223372036854775808ull, 1234567890123456789ull };
	static const char* STR[] = { "", "0", "9", "10", "0000", "4294967295", "4294967296", "18446744073709551615", "18446744073709551616",
		"18446744073709551617", "99999999999999999999", "00018446744073709551615", "184467440737095516150", "36893488147419103232",
		"100000000000000000000000", "9223372036854775807", "9223372036854775808" };
	size_t i, c, nn = sizeof(NUM) / sizeof(NUM[0]);
	for (i = 0; i < nn + 4; ++i)
	{
		uint64_t num = i < nn ? NUM[i] : vxRand64();
		for (c = 0; c <= 23; c += (THOROUGH || i < 4 || c >= 18 || c < 2) ? 1 : 5)
		{
			char* d = (char*)xrand(c + 1);
			CLS("count=%zu:%s", c, i < nn ? "boundary" : "random");
			decFromU64(d, c, num);
			head("decFromU64"); JSZ("count", c); jU64("v", num); jOct("out", d, c + 1); jEnd();
			xfree(d, c + 1);
		}
	}
	for (i = 0; i < sizeof(STR) / sizeof(STR[0]) + 27; ++i)
	{
		char buf[40]; const char* s; size_t n, j; char* p; uint64_t r;
		if (i < sizeof(STR) / sizeof(STR[0])) s = STR[i], CLS("len=%zu:boundary", strlen(s));
		else
		{	/* random digits of every length 0..26 */
			n = i - sizeof(STR) / sizeof(STR[0]);
			for (j = 0; j < n; ++j) buf[j] = (char)('0' + vxRandN(10));
			buf[n] = 0; s = buf; CLS("len=%zu:random", n);
		}
		n = strlen(s); p = salloc((const octet*)s, n);
		r = decToU64(p);
		head("decToU64"); jOct("s", s, n); jU64("res", r); jEnd();
		xfree(p, n + 1);
	}
}
#endif

/* ================================================================== util.h */
static size_t callMin(size_t n, const size_t* a)
{
	switch (n)
	{
	case 1: return utilMin(1, a[0]);
	case 2: return utilMin(2, a[0], a[1]);
	case 3: return utilMin(3, a[0], a[1], a[2]);
	case 4: return utilMin(4, a[0], a[1], a[2], a[3]);
	case 5: return utilMin(5, a[0], a[1], a[2], a[3], a[4]);
	default: return utilMin(6, a[0], a[1], a[2], a[3], a[4], a[5]);
	}
}
static size_t callMax(size_t n, const size_t* a)
{
	switch (n)
	{
	case 1: return utilMax(1, a[0]);
	case 2: return utilMax(2, a[0], a[1]);
	case 3: return utilMax(3, a[0], a[1], a[2]);
	case 4: return utilMax(4, a[0], a[1], a[2], a[3]);
	case 5: return utilMax(5, a[0], a[1], a[2], a[3], a[4]);
	default: return utilMax(6, a[0], a[1], a[2], a[3], a[4], a[5]);
	}
}
static void jSizes(const char* k, const size_t* a, size_t n)
{
	size_t i, j; octet o[8];
	jSep(); fprintf(vx_out, "\"%s\":[", k);
	for (i = 0; i < n; ++i)
	{
		le64(o, (uint64_t)a[i]);
		fputs(i ? ",[" : "[", vx_out);
		for (j = 0; j < 8; ++j) fprintf(vx_out, j ? ",%u" : "%u", o[j]);
		fputc(']', vx_out);
	}
	fputc(']', vx_out);
}
static void minMaxCases(void)
{
	/* n = 1..6 numbers; the extreme value at every position; ties; the ends of the range of size_t */
	static const size_t POOL[] = { 0, 1, 2, 255, 256, 65535, 65536, 2147483647u, 2147483648u, 4294967295u, (size_t)-1 / 2, (size_t)-1 - 1, (size_t)-1 };
	size_t n, pos, i, np = sizeof(POOL) / sizeof(POOL[0]);
	for (n = 1; n <= 6; ++n)
		for (pos = 0; pos < n; ++pos)
		{
			int kind;
			for (kind = 0; kind < (pos == 0 ? 6 : 4); ++kind)
			{
				size_t a[6], r;
				for (i = 0; i < n; ++i) a[i] = kind < 2 ? POOL[2 + vxRandN(np - 4)] : (size_t)vxRand64() >> vxRandN(40);
				if (kind == 0) a[pos] = POOL[vxRandN(2)];				/* unique minimum candidates 0 / 1 */
				else if (kind == 1) a[pos] = POOL[np - 1 - vxRandN(2)];	/* maximum candidates */
				else if (kind == 3 && n > 1) a[(pos + 1) % n] = a[pos];	/* tie */
				else if (kind >= 4) for (i = 0; i < n; ++i) a[i] = kind == 4 ? (size_t)-1 : 0;	/* every number is the end of the range */
				CLS("n=%zu:pos=%zu:%s", n, pos, kind == 0 ? "low" : kind == 1 ? "high" : kind == 2 ? "random" : kind == 3 ? "tie" : kind == 4 ? "all-max" : "all-zero");
				r = callMin(n, a); head("utilMin"); jSizes("args", a, n); jU64("res", r); jEnd();
				r = callMax(n, a); head("utilMax"); jSizes("args", a, n); jU64("res", r); jEnd();
			}
		}
}

/* checksum of a message given in parts: the state returned by one call is passed to the next (util.h) */
static void sumCase(int fnv, const octet* msg, size_t n, const size_t* cut, size_t ncut)
{
	size_t i, at = 0; u32 st = fnv ? 2166136261u : 0; octet o[4];
	head(fnv ? "utilFNV32" : "utilCRC32");
	jU32("st", st);
	jSep(); fprintf(vx_out, "\"parts\":[");
	for (i = 0; i <= ncut; ++i)
	{
		size_t end = i < ncut ? cut[i] : n, j;
		fputs(i ? ",[" : "[", vx_out);
		for (j = at; j < end; ++j) fprintf(vx_out, j > at ? ",%u" : "%u", msg[j]);
		fputc(']', vx_out); at = end;
	}
	fputc(']', vx_out);
	jSep(); fprintf(vx_out, "\"res\":[");
	for (at = 0, i = 0; i <= ncut; ++i)
	{
		size_t end = i < ncut ? cut[i] : n; octet* part = xalloc(end - at);
		memcpy(part, msg + at, end - at);
		st = fnv ? utilFNV32(part, end - at, st) : utilCRC32(part, end - at, st);
		le32(o, st);
		fprintf(vx_out, "%s[%u,%u,%u,%u]", i ? "," : "", o[0], o[1], o[2], o[3]);
		xfree(part, end - at); at = end;
	}
	fputc(']', vx_out);
	jEnd();
}
static void sumCases(void)
{
	int fnv; size_t i, c;
	for (fnv = 0; fnv < 2; ++fnv)
	{
		octet one[1]; octet* big;
		CLS("check-string"); sumCase(fnv, (const octet*)"123456789", 9, 0, 0);
		CLS("check-string:a"); sumCase(fnv, (const octet*)"a", 1, 0, 0);
		CLS("check-string:foobar"); sumCase(fnv, (const octet*)"foobar", 6, 0, 0);
		for (c = 0; c < 256; ++c) { one[0] = (octet)c; CLS("one-octet:%zu", c); sumCase(fnv, one, 1, 0, 0); }		/* every entry of a 256-entry table */
		for (i = 0; i < NLENS; ++i)
		{
			size_t n = LENS[i], cut[3]; octet* m = xrand(n);
			CLS("n=%zu:whole", n); sumCase(fnv, m, n, 0, 0);
			CLS("n=%zu:0|n", n); cut[0] = 0; sumCase(fnv, m, n, cut, 1);
			CLS("n=%zu:n|0", n); cut[0] = n; sumCase(fnv, m, n, cut, 1);
			if (n >= 2) { CLS("n=%zu:1|n-1", n); cut[0] = 1; sumCase(fnv, m, n, cut, 1); CLS("n=%zu:half", n); cut[0] = n / 2; sumCase(fnv, m, n, cut, 1); }
			if (n >= 3) { CLS("n=%zu:three", n); cut[0] = n / 3; cut[1] = n - 1; sumCase(fnv, m, n, cut, 2); }
			xfree(m, n);
		}
		big = xrand(300);
		CLS("n=300:whole"); sumCase(fnv, big, 300, 0, 0);
		{ size_t cut[3] = { 33, 33, 256 }; CLS("n=300:33|0|223|44"); sumCase(fnv, big, 300, cut, 3); }
		memset(big, 0, 300); CLS("n=300:zeros"); sumCase(fnv, big, 300, 0, 0);
		memset(big, 0xFF, 300); CLS("n=300:ones"); sumCase(fnv, big, 300, 0, 0);
		xfree(big, 300);
	}
}

/* ================================================================== belt.h: u32-array editions of the block cipher, belt-compress */
static void fmtLoad(u32* w, const octet* o, size_t nw) { size_t i; for (i = 0; i < nw; ++i) w[i] = ld32(o + 4 * i); }
static void fmtStore(octet* o, const u32* w, size_t nw) { size_t i; for (i = 0; i < nw; ++i) le32(o + 4 * i, w[i]); }
static void beltCases(void)
{
	size_t nk = THOROUGH ? 8 : 4, nb = THOROUGH ? 8 : 4, ki, bi, i;
	for (ki = 0; ki < nk; ++ki)
	{
		u32* key = (u32*)xalloc(32); octet ko[32];
		if (ki < 3)
		{	/* formatted key made by the library's own expansion from 16 / 24 / 32 octets */
			size_t kl = 16 + 8 * ki; octet* k0 = xrand(kl);
			beltKeyExpand2(key, k0, kl); xfree(k0, kl);
		}
		else { vxRandBuf(ko, 32); if (ki == 3) memset(ko, 0xFF, 32); fmtLoad(key, ko, 8); }
		fmtStore(ko, key, 8);
		for (bi = 0; bi < nb; ++bi)
		{
			octet in[16], out[16]; u32* blk; u32* w[4]; int f;
			vxRandBuf(in, 16); if (bi == 0) memset(in, 0, 16); else if (bi == 1) memset(in, 0xFF, 16);
			CLS("key=%s:block=%s", ki < 3 ? (ki == 0 ? "expand16" : ki == 1 ? "expand24" : "expand32") : ki == 3 ? "ones" : "random",
				bi == 0 ? "zeros" : bi == 1 ? "ones" : "random");
			for (f = 0; f < 2; ++f)
			{
				blk = (u32*)xalloc(16); fmtLoad(blk, in, 4);
				if (f == 0) beltBlockEncr2(blk, key); else beltBlockDecr2(blk, key);
				fmtStore(out, blk, 4);
				head(f == 0 ? "beltBlockEncr2" : "beltBlockDecr2"); jOct("key", ko, 32); jOct("a", in, 16); jOct("out", out, 16); jEnd();
				xfree(blk, 16);
				/* four separate words */
				for (i = 0; i < 4; ++i) w[i] = (u32*)xalloc(4), *w[i] = ld32(in + 4 * i);
				if (f == 0) beltBlockEncr3(w[0], w[1], w[2], w[3], key); else beltBlockDecr3(w[0], w[1], w[2], w[3], key);
				for (i = 0; i < 4; ++i) le32(out + 4 * i, *w[i]), xfree(w[i], 4);
				head(f == 0 ? "beltBlockEncr3" : "beltBlockDecr3"); jOct("key", ko, 32); jOct("a", in, 16); jOct("out", out, 16); jEnd();
			}
		}
		{	/* the key is not modified */
			octet k2[32]; fmtStore(k2, key, 8);
			if (memcmp(k2, ko, 32)) { CLS("key-modified"); head("beltBlockKeyFrame"); jOct("key", ko, 32); jOct("out", k2, 32); jEnd(); }
		}
		xfree(key, 32);
	}
	for (i = 0; i < (THOROUGH ? 24u : 8u); ++i)
	{
		octet ho[32], xo[32], s0[16], out1[32], out2[32], s2[16], xafter[32];
		u32* h = (u32*)xalloc(32); u32* X = (u32*)xalloc(32); u32* s = (u32*)xalloc(16); void* stack = xalloc(beltCompr_deep());
		vxRandBuf(ho, 32); vxRandBuf(xo, 32); vxRandBuf(s0, 16);
		if (i == 0) memset(ho, 0, 32), memset(xo, 0, 32), memset(s0, 0, 16);
		if (i == 1) memset(ho, 0xFF, 32), memset(xo, 0xFF, 32);
		CLS(i == 0 ? "zeros" : i == 1 ? "ones" : "random");
		fmtLoad(h, ho, 8); fmtLoad(X, xo, 8);
		beltCompr(h, X, stack);
		fmtStore(out1, h, 8); fmtStore(xafter, X, 8);
		fmtLoad(h, ho, 8); fmtLoad(s, s0, 4);
		beltCompr2(s, h, X, stack);
		fmtStore(out2, h, 8); fmtStore(s2, s, 4);
		head("beltCompr"); jOct("h", ho, 32); jOct("x", xo, 32); jOct("s", s0, 16); jOct("out", out1, 32); jOct("xpost", xafter, 32);
		jOct("out2", out2, 32); jOct("s2", s2, 16); jEnd();
		xfree(h, 32); xfree(X, 32); xfree(s, 16); xfree(stack, beltCompr_deep());
	}
}

/* ================================================================== obj.h */
/* Objects are built and decoded by this driver from the layout stated in obj.h (header obj_hdr_t, then the pointer table,
   object pointers first), never through the library's own pointer-shifting code.  Every address is logged as (block, offset)
   of one of the blocks of the case (1, 2: the blocks holding the objects of the call, 3: an external object, 4: external data).
   A pointer of an object's table is logged as [kind, block, offset]: kind 0 null; 1 "own": into the fragment of the object
   that owns the table (offset from that object's start; obj.h: such references follow the object when it moves); 2 any other
   address inside a known block (obj.h: "внешние ссылки остаются постоянными"); 3 anywhere else. */
#define HS (sizeof(obj_hdr_t))
#define PS (sizeof(void*))
typedef struct { const octet* base; size_t len; } region_t;
typedef struct { size_t o, n; } range_t;
typedef struct { octet* base; size_t keep; range_t data[16]; size_t ndata; } built_t;
#define NBLK 5
static region_t g_blk[NBLK];
static void blkSet(int i, const octet* base, size_t len) { g_blk[i].base = base; g_blk[i].len = len; }

static void putHdr(octet* at, size_t keep, size_t pc, size_t oc) { obj_hdr_t h; h.keep = keep; h.p_count = pc; h.o_count = oc; memcpy(at, &h, HS); }
static void getHdr(const octet* at, obj_hdr_t* h) { memcpy(h, at, HS); }
static void putPtr(octet* obj, size_t i, const void* p) { memcpy(obj + HS + i * PS, &p, PS); }
static const octet* getPtr(const octet* obj, size_t i) { const octet* p; memcpy(&p, obj + HS + i * PS, PS); return p; }
static void addData(built_t* b, size_t o, size_t n) { b->data[b->ndata].o = o; b->data[b->ndata].n = n; ++b->ndata; vxRandBuf(b->base + o, n); }

/* (block, offset) of an address; block 0 = not inside a known block */
static void absAddr(const octet* p, long long out[2])
{
	int r;
	out[0] = 0; out[1] = 0;
	for (r = 1; r < NBLK; ++r)
		if (g_blk[r].base && p >= g_blk[r].base && p < g_blk[r].base + g_blk[r].len)
		{
			out[0] = r; out[1] = (long long)(p - g_blk[r].base);
			return;
		}
}
static void classify(const octet* p, const octet* owner, size_t owner_keep, long long out[3])
{
	long long a[2];
	out[0] = 0; out[1] = 0; out[2] = 0;
	if (!p) return;
	if (owner && p >= owner && p < owner + owner_keep) { out[0] = 1; out[2] = (long long)(p - owner); return; }
	absAddr(p, a);
	out[0] = a[0] ? 2 : 3; out[1] = a[0]; out[2] = a[1];
}
static void jAt(const char* key, const octet* p) { long long a[2]; absAddr(p, a); jIntArr(key, a, 2); }
/* the objects reachable from `top` through object pointers, depth first, each once */
static void jNodes(const char* key, const octet* top)
{
	const octet* todo[32]; const octet* seen[32]; size_t nt = 0, ns = 0, i, first = 1;
	jSep(); fprintf(vx_out, "\"%s\":[", key);
	todo[nt++] = top;
	while (nt)
	{
		const octet* o = todo[--nt]; obj_hdr_t h; long long c[2]; int dup = 0, fits;
		for (i = 0; i < ns; ++i) if (seen[i] == o) dup = 1;
		if (dup || ns == 32) continue;
		seen[ns++] = o;
		absAddr(o, c); getHdr(o, &h);
		/* the table is decoded only if it lies inside the object and the object inside its block */
		fits = h.o_count <= h.p_count && h.p_count < 64 && HS + PS * h.p_count <= h.keep && c[0] != 0 &&
			(size_t)c[1] + h.keep <= g_blk[c[0]].len;
		fprintf(vx_out, "%s{\"b\":%lld,\"at\":%lld,\"keep\":%lld,\"pc\":%lld,\"oc\":%lld,\"ptrs\":[", first ? "" : ",", c[0], c[1],
			(long long)h.keep, (long long)h.p_count, (long long)h.o_count);
		first = 0;
		if (fits)
		{
			const octet* kids[64]; size_t nk = 0;
			for (i = 0; i < h.p_count; ++i)
			{
				const octet* p = getPtr(o, i); long long t[3];
				classify(p, o, h.keep, t);
				fprintf(vx_out, "%s[%lld,%lld,%lld]", i ? "," : "", t[0], t[1], t[2]);
				if (i < h.o_count && (t[0] == 1 || t[0] == 2)) kids[nk++] = p;
			}
			while (nk) if (nt < 32) todo[nt++] = kids[--nk]; else --nk;	/* pushed in reverse: visited in table order */
		}
		fputs("]}", vx_out);
	}
	fputc(']', vx_out);
}
/* the plain-data octets of an object built by this driver (b2: a second object placed at `shift`) */
static void jData(const char* key, const octet* base, const built_t* b, size_t shift, const built_t* b2)
{
	size_t i, j, first = 1;
	jSep(); fprintf(vx_out, "\"%s\":[", key);
	for (i = 0; i < b->ndata; ++i) for (j = 0; j < b->data[i].n; ++j) fprintf(vx_out, first ? "%u" : ",%u", base[b->data[i].o + j]), first = 0;
	if (b2) for (i = 0; i < b2->ndata; ++i) for (j = 0; j < b2->data[i].n; ++j) fprintf(vx_out, first ? "%u" : ",%u", base[shift + b2->data[i].o + j]), first = 0;
	fputc(']', vx_out);
}

/* external blocks every object may refer to: a data block and an operable object with a pointer of its own */
static octet* g_xd; static octet* g_xo; static size_t g_xo_len;
#define XD_LEN 16
static void extMake(void)
{
	g_xd = xrand(XD_LEN);
	g_xo_len = HS + 1 * PS + 8; g_xo = xrand(g_xo_len);
	putHdr(g_xo, g_xo_len, 1, 0); putPtr(g_xo, 0, g_xo + HS + PS + 3);
	blkSet(3, g_xo, g_xo_len); blkSet(4, g_xd, XD_LEN);
}
static void extFree(void) { xfree(g_xd, XD_LEN); xfree(g_xo, g_xo_len); }

/* a leaf with pc pointers and d data octets at `at` inside b; pointers: own data (first / last octet), external data, null */
static size_t mkLeaf(built_t* b, size_t at, size_t pc, size_t d)
{
	size_t keep = HS + pc * PS + d, i; octet* o = b->base + at;
	putHdr(o, keep, pc, 0);
	for (i = 0; i < pc; ++i)
		putPtr(o, i, i % 4 == 0 ? (d ? o + HS + pc * PS : 0) : i % 4 == 1 ? g_xd + 3 : i % 4 == 2 ? (d ? o + keep - 1 : 0) : 0);
	addData(b, at + HS + pc * PS, d);
	return keep;
}
#define NSHAPES 7
static const char* SHAPE[NSHAPES] = { "leaf0", "leaf1", "leaf3", "nest1", "nest2", "mixed", "leaf0-nodata" };
static size_t shapeKeep(int shape, size_t d)
{
	switch (shape)
	{
	case 0: return HS + d;
	case 1: return HS + PS + d;
	case 2: return HS + 3 * PS + d;
	case 3: return (HS + 3 * PS + d) + (HS + 2 * PS + d);
	case 4: return (HS + 2 * PS + d) + (HS + 2 * PS + d) + (HS + 2 * PS + d);
	case 5: return (HS + 4 * PS + d) + (HS + 1 * PS + 8);
	default: return HS;
	}
}
/* builds the shape at b->base (b->keep octets) */
static void mkShape(built_t* b, int shape, size_t d)
{
	octet* o = b->base; size_t own;
	b->ndata = 0;
	switch (shape)
	{
	case 0: mkLeaf(b, 0, 0, d); break;
	case 1: mkLeaf(b, 0, 1, d); break;
	case 2: mkLeaf(b, 0, 3, d); break;
	case 3:	/* outer: [inner object, own data, external data]; inner: leaf with 2 pointers */
		own = HS + 3 * PS + d;
		putHdr(o, b->keep, 3, 1); addData(b, HS + 3 * PS, d);
		mkLeaf(b, own, 2, d);
		putPtr(o, 0, o + own); putPtr(o, 1, d ? o + HS + 3 * PS + d / 2 : 0); putPtr(o, 2, g_xd);
		break;
	case 4:	/* outer -> mid -> inner; the inner object also refers to the outer's data (outside its own fragment: stays put) */
		own = HS + 2 * PS + d;
		putHdr(o, b->keep, 2, 1); addData(b, HS + 2 * PS, d);
		putHdr(o + own, 2 * own, 2, 1); addData(b, own + HS + 2 * PS, d);
		putHdr(o + 2 * own, own, 2, 0); addData(b, 2 * own + HS + 2 * PS, d);
		putPtr(o, 0, o + own); putPtr(o, 1, d ? o + HS + 2 * PS : 0);
		putPtr(o + own, 0, o + 2 * own); putPtr(o + own, 1, d ? o + own + HS + 2 * PS + d - 1 : 0);
		putPtr(o + 2 * own, 0, d ? o + 2 * own + HS + 2 * PS : 0); putPtr(o + 2 * own, 1, d ? o + HS + 2 * PS + 1 % d : g_xd + 1);
		break;
	case 5:	/* outer with two object pointers: an internal leaf and the external object; a pointer into the inner's data; null */
		own = HS + 4 * PS + d;
		putHdr(o, b->keep, 4, 2); addData(b, HS + 4 * PS, d);
		mkLeaf(b, own, 1, 8);
		putPtr(o, 0, o + own); putPtr(o, 1, g_xo); putPtr(o, 2, o + own + HS + PS + 5); putPtr(o, 3, 0);
		break;
	default: putHdr(o, HS, 0, 0); break;
	}
}
static void mkBuilt(built_t* b, int shape, size_t d, size_t extra)
{
	b->keep = shapeKeep(shape, d); b->base = xrand(b->keep + extra);
	mkShape(b, shape, d);
}
static void jPtrs(const char* key, const octet* o, size_t pc, size_t keep, int via)
{
	size_t i; long long t[3];
	jSep(); fprintf(vx_out, "\"%s\":[", key);
	for (i = 0; i < pc; ++i)
	{
		classify(via == 0 ? getPtr(o, i) : via == 1 ? objPtr(o, i, octet) : objCPtr(o, i, octet), o, keep, t);
		fprintf(vx_out, "%s[%lld,%lld,%lld]", i ? "," : "", t[0], t[1], t[2]);
	}
	fputc(']', vx_out);
}

static void objAccCases(void)
{
	/* the accessor macros read what the layout rules say was written */
	size_t pcs[] = { 0, 1, 3, 5 }, i, k;
	for (k = 0; k < 4; ++k)
	{
		size_t pc = pcs[k], oc = pc / 2, d = 8 * k + (k == 1 ? 5 : 0), keep = HS + pc * PS + d;
		octet* o = xrand(keep); long long t[3];
		putHdr(o, keep, pc, oc);
		for (i = 0; i < pc; ++i) putPtr(o, i, i % 3 == 0 ? o + HS + pc * PS + i : i % 3 == 1 ? g_xd + i : 0);
		blkSet(1, o, keep); blkSet(2, 0, 0);
		CLS("pc=%zu:oc=%zu:d=%zu", pc, oc, d);
		head("objAcc"); JSZ("hs", HS); JSZ("ps", PS); JSZ("keep", keep); JSZ("pc", pc); JSZ("oc", oc);
		JSZ("gkeep", objKeep(o)); JSZ("gpc", objPCount(o)); JSZ("goc", objOCount(o)); JSZ("gend", objEnd(o, octet) - o);
		jPtrs("ptrs", o, pc, keep, 0); jPtrs("gptrs", o, pc, keep, 1); jPtrs("gcptrs", o, pc, keep, 2);
		if (pc)
		{	/* objPtr is an lvalue: store through it, read back through the table */
			classify(g_xd + 7, o, keep, t); jIntArr("store", t, 3);
			objPtr(o, pc - 1, octet) = g_xd + 7;
			classify(getPtr(o, pc - 1), o, keep, t); jIntArr("stored", t, 3);
		}
		jEnd();
		xfree(o, keep);
	}
}

static void objOperableCases(void)
{
	/* operable shapes, and the same shapes with one layout rule broken in the object itself / in a nested object */
	int shape; size_t di;
	static const size_t DS[] = { 0, 8, 24 };
	for (shape = 0; shape < NSHAPES; ++shape) for (di = 0; di < 3; ++di)
	{
		int mut;
		for (mut = 0; mut < 7; ++mut)
		{
			built_t b; obj_hdr_t h; octet* tgt; int r, r2;
			size_t depth = mut < 4 ? 0 : 1 + (size_t)(mut - 4) / 2;
			if ((shape == 6 && di) || (mut == 3 && shape >= 3 && shape != 6)) continue;
			mkBuilt(&b, shape, DS[di], 0);
			/* the object whose header is broken: the top one, or the one `depth` object pointers down */
			tgt = b.base;
			if (mut >= 4)
			{
				size_t dd; int ok = 1;
				for (dd = 0; dd < depth && ok; ++dd)
				{
					getHdr(tgt, &h);
					if (h.o_count == 0) ok = 0; else tgt = (octet*)getPtr(tgt, 0);
				}
				if (!ok || tgt == g_xo) { xfree(b.base, b.keep); continue; }
			}
			getHdr(tgt, &h);
			switch (mut)
			{
			case 0: break;															/* operable as built */
			case 1: putHdr(tgt, h.keep, h.p_count, h.p_count + 1); break;			/* more object pointers than pointers */
			case 2: putHdr(tgt, HS + PS * h.p_count - 1, h.p_count, h.o_count); break;	/* the table does not fit in keep (by one octet) */
			case 3: putHdr(tgt, HS + PS * h.p_count, h.p_count, h.o_count); break;	/* exactly header + table: still operable */
			case 4: case 6: putHdr(tgt, h.keep, h.p_count, h.p_count + 1); break;
			default: putHdr(tgt, HS + PS * h.p_count - 1, h.p_count, h.o_count); break;
			}
			blkSet(1, b.base, b.keep); blkSet(2, 0, 0);
			CLS("%s:d=%zu:%s", SHAPE[shape], DS[di], mut == 0 ? "asbuilt" : mut == 1 ? "top:oc>pc" : mut == 2 ? "top:keep<table" : mut == 3 ? "top:keep=table" :
				mut == 4 ? "nested1:oc>pc" : mut == 5 ? "nested1:keep<table" : "nested2:oc>pc");
			r = objIsOperable(b.base); r2 = objIsOperable2(b.base);
			head("objIsOperable"); JSZ("hs", HS); JSZ("ps", PS); jNodes("nodes", b.base); jInt("res", r); jInt("res2", r2); jEnd();
			xfree(b.base, b.keep);
		}
	}
	{	/* an external referenced object that is not operable makes the referring object inoperable */
		built_t b; int r, r2;
		mkBuilt(&b, 5, 8, 0);
		putHdr(g_xo, g_xo_len, 1, 2);
		blkSet(1, b.base, b.keep); blkSet(2, 0, 0);
		CLS("mixed:d=8:external:oc>pc");
		r = objIsOperable(b.base); r2 = objIsOperable2(b.base);
		head("objIsOperable"); JSZ("hs", HS); JSZ("ps", PS); jNodes("nodes", b.base); jInt("res", r); jInt("res2", r2); jEnd();
		putHdr(g_xo, g_xo_len, 1, 0);
		xfree(b.base, b.keep);
	}
}

static void objCopyCases(int overlap)
{
	int shape; size_t di;
	static const size_t DS[] = { 0, 8, 24, 5 };
	for (shape = 0; shape < NSHAPES; ++shape) for (di = 0; di < 4; ++di)
	{
		int pl;
		if ((shape == 6 && di) || (DS[di] == 5 && shape > 2)) continue;
		/* placements of dest: a block of its own; the same block: touching after / before, overlapping by +-8 and by half */
		for (pl = overlap ? 3 : 0; pl < (overlap ? 7 : 3); ++pl)
		{
			built_t b; size_t keep = shapeKeep(shape, DS[di]); octet *arena = 0, *src, *dst; size_t alen = 0;
			long long delta = pl == 1 ? (long long)keep : pl == 2 ? -(long long)keep : pl == 3 ? 8 : pl == 4 ? -8 :
				pl == 5 ? (long long)(keep / 2 / 8 * 8) : -(long long)(keep / 2 / 8 * 8);
			if (pl >= 5 && (keep / 2 / 8 * 8 == 0 || keep / 2 / 8 * 8 == 8)) continue;
			if (pl >= 3 && !THOROUGH && DS[di] == 24) continue;
			b.keep = keep;
			if (pl == 0) { src = xrand(keep); dst = xrand(keep); blkSet(1, src, keep); blkSet(2, dst, keep); }
			else
			{
				alen = keep + (size_t)(delta < 0 ? -delta : delta); arena = xrand(alen);
				src = delta > 0 ? arena : arena + (size_t)(-delta); dst = delta > 0 ? arena + (size_t)delta : arena;
				blkSet(1, arena, alen); blkSet(2, 0, 0);
			}
			b.base = src; mkShape(&b, shape, DS[di]);
			CLS("%s:d=%zu:%s", SHAPE[shape], DS[di], pl == 0 ? "sep" : pl == 1 ? "touch-after" : pl == 2 ? "touch-before" : pl == 3 ? "overlap+8" :
				pl == 4 ? "overlap-8" : pl == 5 ? "overlap+half" : "overlap-half");
			head("objCopy"); JSZ("hs", HS); JSZ("ps", PS); JSZ("keep", keep); jAt("sat", src); jAt("dat", dst);
			jNodes("src", src); jData("srcimg", src, &b, 0, 0);
			objCopy(dst, src);
			jNodes("dst", dst); jData("dstimg", dst, &b, 0, 0);
			if (pl < 3) { jNodes("src2", src); jData("src2img", src, &b, 0, 0); }		/* the source is left as it was */
			jEnd();
			if (pl == 0) { xfree(src, keep); xfree(dst, keep); } else xfree(arena, alen);
		}
	}
}

static void objAppendCases(void)
{
	/* containers: objects whose slot i refers to the object to be appended (as the library's callers do);
	   the container's block has exactly keep(dest) + keep(src) octets */
	int cshape, sshape; size_t di;
	static const size_t DS[] = { 0, 8, 5 };
	for (cshape = 3; cshape <= 5; ++cshape) for (sshape = 0; sshape < NSHAPES; ++sshape) for (di = 0; di < 3; ++di)
	{
		size_t slot, nslot = cshape == 5 ? 2 : 1;
		if ((sshape == 6 && di) || (DS[di] == 5 && sshape > 2)) continue;
		if (!THOROUGH && cshape == 4 && di == 1) continue;
		for (slot = 0; slot < nslot; ++slot)
		{
			built_t d, s; size_t dd = DS[di] == 5 ? 8 : DS[di];
			mkBuilt(&s, sshape, DS[di], 0);
			mkBuilt(&d, cshape, dd, s.keep);
			putPtr(d.base, slot, s.base);		/* before the call the slot refers to the (external) object that is about to be appended */
			blkSet(1, d.base, d.keep + s.keep); blkSet(2, s.base, s.keep);
			CLS("%s<-%s:d=%zu:slot=%zu", SHAPE[cshape], SHAPE[sshape], DS[di], slot);
			head("objAppend"); JSZ("hs", HS); JSZ("ps", PS); JSZ("i", slot); jAt("dat", d.base); jAt("sat", s.base);
			jNodes("d", d.base); jData("dimg", d.base, &d, 0, 0);
			jNodes("s", s.base); jData("simg", s.base, &s, 0, 0);
			objAppend(d.base, s.base, slot);
			jNodes("d2", d.base); jData("d2img", d.base, &d, d.keep, &s);
			jNodes("s2", s.base); jData("s2img", s.base, &s, 0, 0);
			jEnd();
			xfree(s.base, s.keep); xfree(d.base, d.keep + s.keep);
		}
	}
	for (di = 0; di < 2; ++di)
	{	/* an object appended to itself (its slot refers to a nested object of its own before the call) */
		built_t d; size_t k0;
		mkBuilt(&d, 3, DS[di], shapeKeep(3, DS[di])); k0 = d.keep;
		blkSet(1, d.base, 2 * k0); blkSet(2, 0, 0);
		CLS("nest1<-itself:d=%zu", DS[di]);
		head("objAppend"); JSZ("hs", HS); JSZ("ps", PS); JSZ("i", 0); jAt("dat", d.base); jAt("sat", d.base);
		jNodes("d", d.base); jData("dimg", d.base, &d, 0, 0);
		jNodes("s", d.base); jData("simg", d.base, &d, 0, 0);
		objAppend(d.base, d.base, 0);
		jNodes("d2", d.base); jData("d2img", d.base, &d, k0, &d);
		jEnd();
		xfree(d.base, 2 * k0);
	}
}

/* ================================================================== */
int main(int argc, char** argv)
{
	size_t i;
	if (argc < 2 || strcmp(argv[1], "record")) { fprintf(stderr, "usage: drv_core record <quick|thorough>\n"); return 2; }
	THOROUGH = argc > 2 && strcmp(argv[2], "thorough") == 0;
	vxSeed(vxEnvSeed());
	for (i = 0; i < NLENS; ++i)
	{
		size_t n = LENS[i];
		memTwo("memCopy", n); memTwo("memSwap", n); memTwo("memXor2", n);
		memMoveCases(n); memOne(n); memXorCases(n); memCopyIfCases(n);
	}
	disjointCases();
	alignedCases();
	for (i = 0; i < NLENS; ++i) { strBasics(LENS[i]); strCmpCases(LENS[i]); strAffixCases(LENS[i]); }
	strClassCases();
#ifdef U64_SUPPORT
	decCases();
#endif
	minMaxCases();
	sumCases();
	beltCases();
	extMake();
	objAccCases(); objOperableCases(); objCopyCases(0); objAppendCases();
	objCopyCases(1);		/* dest overlapping src (objCopy moves with memMove; obj.h does not exclude it) */
	extFree();
	return 0;
}
