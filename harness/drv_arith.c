/* C05 / C14 part 1: record-direction driver of the arithmetic layer.
   usage: drv_arith record <quick|thorough> [family ...]       (families: zz red mod ww pp word qr ring pri; default all;
   "ring" = only the alias macros of qr.h / zm.h / gfp.h, which "qr" includes)
   Enumerates STRUCTURE (operand lengths, boundary-alphabet shapes, modulus classes, aliasing) and fills
   only the "seeded" positions from VERIF_SEED.  One ndjson line per library call:
   fam, op, ed (def|safe|fast: edition called BY NAME through SAFE()/FAST()), W (bits per word), n, m,
   operands and results as arrays of 16-bit limbs (little-endian host), flags as integers,
   cls (structural class) and alias (aliasing pattern) for the violation key. */
#include "vx.h"
#include <bee2/core/mem.h>
#include <bee2/core/util.h>
#include <bee2/core/safe.h>
#include <bee2/core/word.h>
#include <bee2/core/u16.h>
#include <bee2/core/u32.h>
#include <bee2/core/u64.h>
#include <bee2/math/ww.h>
#include <bee2/math/zz.h>
#include <bee2/math/pp.h>
#include <bee2/math/qr.h>
#include <bee2/math/zm.h>
#include <bee2/math/gfp.h>
#include <bee2/math/gf2.h>
#include <bee2/math/pri.h>

#define NW 100                       /* capacity of an operand in words */
#define BMAX WORD_MAX
#define BHALF WORD_BIT_HI

static int THOROUGH = 0;
static octet STACK[1 << 21];
typedef struct { word v[NW]; size_t n; char nm[64]; } num;

/* ------------------------------------------------------------------ logging */
static const char* g_op = "";
static void LB(const char* fam, const char* op, const char* ed)
{
	g_op = op;
	jBegin(); jStr("fam", fam); jStr("op", op); jStr("ed", ed); jInt("W", B_PER_W);
}
static int g_hung;
static long canary_check(void);
static void LE_(const char* cls, const char* alias)
{
	if (g_hung == 1) jInt("hang", 1); else if (g_hung == 2) jInt("abort", 1); else if (g_hung == 3) jInt("skip", 1);
	g_hung = 0;
	{ long ov = canary_check(); if (ov >= 0) jInt("overrun", ov + 1); }
	jStr("cls", cls); jStr("alias", alias); jEnd();
}
#define LW(k, p, nwords) jLimbs16(k, p, (nwords) * O_PER_W)
static void LWord(const char* k, word w) { LW(k, &w, 1); }
static char CLS[256];
#define MKCLS(...) snprintf(CLS, sizeof(CLS), __VA_ARGS__)

/* ------------------------------------------------------------------ boundary alphabet */
static const char* AN[9] = { "0", "1", "2", "h-1", "h", "h+1", "B-2", "B-1", "s" };
static word rnd_word(void) { word w; vxRandBuf(&w, sizeof(w)); return w; }
static word alpha(int i)
{
	switch (i)
	{
	case 0: return 0; case 1: return 1; case 2: return 2;
	case 3: return BHALF - 1; case 4: return BHALF; case 5: return BHALF + 1;
	case 6: return BMAX - 1; case 7: return BMAX;
	default: return rnd_word();
	}
}

/* shapes of an n-word operand */
enum { S_ZERO, S_ONE, S_MAX, S_TWO, S_MAX1, S_HIBIT, S_HIBIT1, S_TOPONE, S_TOPONE1, S_ALT, S_RAND, S_RANDLO, NSH };
static const char* SN[NSH] = { "zero", "one", "max", "two", "max-1", "hibit", "hibit-1", "topone", "topone-1", "alt", "rand", "randlo" };
static size_t nshapes(size_t n) { return n == 0 ? 1 : n == 1 ? 9 : NSH; }
/* output canaries: set_fill(X, n, 0x5A) on one of the static result arrays declares "the call may write n words of X";
   the rest of the array is filled with a canary, and the end of the line (LE_) reports "overrun" if a word beyond
   the declared length has changed (the documented output length was exceeded) */
#define CANARY ((word)0xA7A7A7A7A7A7A7A7ull)
static struct { word* v; size_t n; } g_can[8]; static int g_ncan = 0;
static int is_result_array(const word* v);
static void set_fill(word* v, size_t n, word f)
{
	size_t i; for (i = 0; i < n; ++i) v[i] = f;
	if (f == 0x5A && is_result_array(v) && n <= NW && g_ncan < 8)
	{
		int k; for (k = 0; k < g_ncan; ++k) if (g_can[k].v == v) { g_can[k] = g_can[g_ncan - 1]; --g_ncan; break; }
		for (i = n; i < NW; ++i) v[i] = CANARY;
		g_can[g_ncan].v = v; g_can[g_ncan].n = n; ++g_ncan;
	}
}
static long canary_check(void)
{
	int k; size_t i; long bad = -1;
	for (k = 0; k < g_ncan; ++k) for (i = g_can[k].n; i < NW; ++i) if (g_can[k].v[i] != CANARY) { bad = (long)(i - g_can[k].n); goto out; }
out:
	g_ncan = 0; return bad;
}
static void mkshape(num* o, size_t n, int s)
{
	size_t i;
	memset(o->v, 0, sizeof(o->v)); o->n = n;
	if (n == 0) { strcpy(o->nm, "empty"); return; }
	if (n == 1) { o->v[0] = alpha(s); snprintf(o->nm, sizeof(o->nm), "w%s", AN[s]); return; }
	strcpy(o->nm, SN[s]);
	switch (s)
	{
	case S_ZERO: break;
	case S_ONE: o->v[0] = 1; break;
	case S_TWO: o->v[0] = 2; break;
	case S_MAX: set_fill(o->v, n, BMAX); break;
	case S_MAX1: set_fill(o->v, n, BMAX); o->v[0] = BMAX - 1; break;
	case S_HIBIT: o->v[n - 1] = BHALF; break;
	case S_HIBIT1: set_fill(o->v, n, BMAX); o->v[n - 1] = BHALF - 1; break;
	case S_TOPONE: o->v[n - 1] = 1; break;
	case S_TOPONE1: set_fill(o->v, n - 1, BMAX); break;
	case S_ALT: for (i = 0; i < n; ++i) o->v[i] = (i & 1) ? 0 : BMAX; break;
	case S_RAND: vxRandBuf(o->v, n * O_PER_W); break;
	case S_RANDLO: vxRandBuf(o->v, (n - 1) * O_PER_W); break;
	}
}
/* operand whose words are the digits of g in base 9 over the alphabet (word 0 = lowest digit) */
static size_t ngrid(size_t n) { size_t r = 1; while (n--) r *= 9; return r; }
static void mkgrid(num* o, size_t n, size_t g)
{
	size_t i; char* p = o->nm;
	memset(o->v, 0, sizeof(o->v)); o->n = n;
	p += sprintf(p, "g");
	for (i = 0; i < n; ++i, g /= 9) { o->v[i] = alpha((int)(g % 9)); p += sprintf(p, "%s%s", i ? "." : "", AN[g % 9]); }
}
/* pair selection: thorough = all pairs; quick = pairs touching an essential shape, the diagonal and its neighbour */
static int pairsel(size_t i, size_t j, size_t P)
{
	if (THOROUGH || P <= 9) return 1;
	return i <= S_MAX || j <= S_MAX || i == j || j == (i + 1) % P;
}
/* operand lengths */
static const size_t LEN_Q[] = { 0, 1, 2, 3, 4, 6 };
static const size_t LEN_T[] = { 0, 1, 2, 3, 4, 5, 6, 7, 8, 9, 10, 11, 16, 19, 20, 21 };
static size_t nlens(void) { return THOROUGH ? COUNT_OF(LEN_T) : COUNT_OF(LEN_Q); }
static size_t lens(size_t i) { return THOROUGH ? LEN_T[i] : LEN_Q[i]; }

/* ------------------------------------------------------------------ moduli */
enum { M_CR1, M_CRP, M_CR2, M_CRMAX, M_CRH, M_ODDHI, M_ODDLO, M_ODDTOP1, M_EVENHI, M_EVENLO, M_TOP1, M_HIBIT, M_ODDMIN, M_MERS, M_THREE, M_TWO, M_ODD3, NMC };
static const char* MN[NMC] = { "crand-c1", "crand-prime", "crand-c2-even", "crand-cmax", "crand-chalf", "odd-hi", "odd-lo", "odd-top1",
	"even-hi", "even-lo", "pow-top1", "pow-hibit", "odd-min", "mersenne-prime", "three", "two", "odd-3x" };
static const unsigned CRP[][2] = { {32,5},{64,59},{96,17},{128,159},{160,47},{192,237},{224,63},{256,189},{288,167},{320,197},
	{352,657},{384,317},{416,435},{448,203},{480,47},{512,569},{544,759},{576,789},{608,527},{640,305},{672,399},{704,245},
	{736,509},{768,825},{800,105},{832,143},{864,243},{896,213},{928,645},{960,167},{992,1779},{1024,105},{1056,725},{1088,89},
	{1120,2555},{1152,927},{1184,107},{1216,563},{1248,635},{1280,1175},{1312,509},{1344,1175} };
static const unsigned MERS[] = { 31, 61, 89, 107, 127, 521, 607, 1279 };
static int mod_is_crand(int c) { return c <= M_CRH; }
/* returns 0 when the class does not exist for this n */
static int mkmod(num* o, size_t n, int c)
{
	size_t i, bits = n * B_PER_W;
	memset(o->v, 0, sizeof(o->v)); o->n = n; strcpy(o->nm, MN[c]);
	if (n == 0) return 0;
	switch (c)
	{
	case M_CR1: set_fill(o->v, n, BMAX); return bits > 1;
	case M_CRP:
		for (i = 0; i < COUNT_OF(CRP); ++i) if (CRP[i][0] == bits) { set_fill(o->v, n, BMAX); o->v[0] = (word)0 - (word)CRP[i][1]; return 1; }
		return 0;
	case M_CR2: set_fill(o->v, n, BMAX); o->v[0] = BMAX - 1; return 1;
	case M_CRMAX: set_fill(o->v, n, BMAX); o->v[0] = 1; return n >= 2;           /* c = B - 1 */
	case M_CRH: set_fill(o->v, n, BMAX); o->v[0] = BHALF - 1; return n >= 2;      /* c = B/2 + 1 */
	case M_ODDHI: vxRandBuf(o->v, n * O_PER_W); o->v[0] |= 1; o->v[n - 1] |= BHALF; return 1;
	case M_ODDLO: vxRandBuf(o->v, n * O_PER_W); o->v[0] |= 1; o->v[n - 1] &= BHALF - 1; o->v[n - 1] |= (n == 1 ? 5 : 1); return 1;
	case M_ODDTOP1: if (n < 2) return 0; vxRandBuf(o->v, (n - 1) * O_PER_W); o->v[0] |= 1; o->v[n - 1] = 1; return 1;
	case M_EVENHI: vxRandBuf(o->v, n * O_PER_W); o->v[0] &= ~(word)1; o->v[n - 1] |= BHALF; return 1;
	case M_EVENLO: vxRandBuf(o->v, n * O_PER_W); o->v[0] &= ~(word)1; o->v[n - 1] &= BHALF - 1; o->v[n - 1] |= 4; return 1;
	case M_TOP1: if (n < 2) return 0; o->v[n - 1] = 1; return 1;                   /* B^(n-1) */
	case M_HIBIT: o->v[n - 1] = BHALF; return 1;                                   /* B^n / 2 */
	case M_ODDMIN: if (n < 2) return 0; o->v[n - 1] = 1; o->v[0] = 1; return 1;    /* B^(n-1) + 1 */
	case M_MERS:
		for (i = 0; i < COUNT_OF(MERS); ++i)
			if (MERS[i] > (n - 1) * B_PER_W && MERS[i] < bits)
			{
				set_fill(o->v, n, BMAX); o->v[n - 1] = (WORD_1 << (MERS[i] % B_PER_W)) - 1;
				return 1;
			}
		return 0;
	case M_THREE: if (n != 1) return 0; o->v[0] = 3; return 1;
	case M_TWO: if (n != 1) return 0; o->v[0] = 2; return 1;
	case M_ODD3:       /* 3 * (seeded odd): composite with a known small factor */
		vxRandBuf(o->v, n * O_PER_W); o->v[0] |= 1; o->v[n - 1] &= (BHALF >> 1) - 1; o->v[n - 1] |= 1;
		zzMulW(o->v, o->v, n, 3); return 1;
	}
	return 0;
}
static int mod_is_odd(const num* m) { return (m->v[0] & 1) != 0; }

/* residues modulo mod (all < mod) */
enum { R_ZERO, R_ONE, R_TWO, R_NC, R_M1, R_M2, R_HALF, R_HALF1, R_RAND, R_RAND2, NRES };
static const char* RN[NRES] = { "0", "1", "2", "3", "m-1", "m-2", "(m-1)/2", "(m+1)/2", "rand", "rand2" };
static void mkres(num* o, const num* mod, int r)
{
	size_t n = mod->n; word t[NW];
	memset(o->v, 0, sizeof(o->v)); o->n = n; strcpy(o->nm, RN[r]);
	switch (r)
	{
	case R_ZERO: break;
	case R_ONE: o->v[0] = 1; break;
	case R_TWO: o->v[0] = 2; break;
	case R_NC:         /* a small divisor of the modulus when it has one (3, 5, 7): a non-invertible residue */
		o->v[0] = zzModW(mod->v, n, 3) == 0 ? 3 : zzModW(mod->v, n, 5) == 0 ? 5 : zzModW(mod->v, n, 7) == 0 ? 7 : 3;
		if (zzModW(mod->v, n, o->v[0]) == 0 && wwCmpW(mod->v, n, o->v[0]) > 0) strcpy(o->nm, "small-divisor-of-mod");
		break;
	case R_M1: wwCopy(o->v, mod->v, n); zzSubW2(o->v, n, 1); break;
	case R_M2: wwCopy(o->v, mod->v, n); zzSubW2(o->v, n, 2); break;
	case R_HALF: wwCopy(o->v, mod->v, n); zzSubW2(o->v, n, 1); wwShLo(o->v, n, 1); break;
	case R_HALF1: wwCopy(o->v, mod->v, n); zzSubW2(o->v, n, 1); wwShLo(o->v, n, 1); zzAddW2(o->v, n, 1); break;
	default:
		vxRandBuf(t, 2 * n * O_PER_W > sizeof(t) ? sizeof(t) : 2 * n * O_PER_W);
		zzMod(o->v, t, 2 * n, mod->v, n, STACK);
		break;
	}
	/* keep the precondition a < mod whatever the modulus (mod = 2, 3: small residues wrap) */
	if (wwCmp(o->v, mod->v, n) >= 0) zzMod(o->v, o->v, n, mod->v, n, STACK);
	if (wwIsZero(o->v, n)) strcpy(o->nm, "0"); else if (wwIsW(o->v, n, 1)) strcpy(o->nm, "1");
}


/* ------------------------------------------------------------------ guarded calls: a call that does not return within
   ~0.15 s of CPU time (the longest legitimate call takes microseconds) or that aborts on an assertion is logged with
   "hang":1 / "abort":1 instead of stopping the driver (the trace module rejects such lines) */
#include <setjmp.h>
#include <signal.h>
#include <sys/time.h>
static sigjmp_buf HJ;
static volatile unsigned long g_callno = 0, g_seen = 0;
static volatile int g_in = 0, g_ticks = 0;
/* g_hung: 1 hang, 2 abort */
static void on_tick(int sig)
{
	(void)sig;
	if (g_in && g_callno == g_seen) { if (++g_ticks >= 3) { g_ticks = 0; siglongjmp(HJ, 1); } }
	else g_seen = g_callno, g_ticks = 0;
}
/* after HANG_CAP hangs / aborts of one function on one structural signature (g_sig, set by the caller: the shape of
   the operand that matters; "" = the function as a whole) the remaining calls with that signature are not made
   (logged with "skip":1) */
#define HANG_CAP 3
static const char* g_sig = "";
static struct { char key[96]; int cnt; } g_bad[128];
static int bad_count(const char* op, int add)
{
	int i; char key[96];
	snprintf(key, sizeof(key), "%s|%s", op, g_sig);
	for (i = 0; i < 128 && g_bad[i].key[0]; ++i) if (strcmp(g_bad[i].key, key) == 0) return g_bad[i].cnt += add;
	if (add && i < 128) { strcpy(g_bad[i].key, key); g_bad[i].cnt = add; return add; }
	return 0;
}
static void on_abort(int sig) { (void)sig; if (g_in) siglongjmp(HJ, 2); _exit(134); }
static void guard_init(void)
{
	struct itimerval it; struct sigaction sa;
	memset(&sa, 0, sizeof(sa)); sa.sa_handler = on_tick; sa.sa_flags = SA_NODEFER; sigaction(SIGVTALRM, &sa, 0);
	memset(&sa, 0, sizeof(sa)); sa.sa_handler = on_abort; sa.sa_flags = SA_NODEFER; sigaction(SIGABRT, &sa, 0);
	it.it_interval.tv_sec = 0; it.it_interval.tv_usec = 50000; it.it_value = it.it_interval;
	setitimer(ITIMER_VIRTUAL, &it, 0);
}
#define CALL(stmt) do { int j_; ++g_callno; \
	if (bad_count(g_op, 0) >= HANG_CAP) { g_hung = 3; break; } \
	j_ = sigsetjmp(HJ, 0); if (j_ == 0) { g_in = 1; stmt; } else { g_hung = j_; bad_count(g_op, 1); } g_in = 0; } while (0)

/* ------------------------------------------------------------------ zz: additive / multiplicative */
static word A[NW], B_[NW], C[NW], D[NW], E[NW], F[NW];
static int is_result_array(const word* v) { return v == C || v == D || v == E || v == F; }

typedef word (*f_cab)(word*, const word*, const word*, size_t);
static void do_cab(const char* op, f_cab f, const num* a, const num* b, int alias)
{
	size_t n = a->n; word r; const char* an = "none";
	wwCopy(A, a->v, n); wwCopy(B_, b->v, n); set_fill(C, n, 0x5A);
	LB("zz", op, "def"); jInt("n", n); LW("a", A, n); LW("b", B_, n);
	switch (alias)
	{
	case 1: CALL(r = f(A, A, B_, n)); wwCopy(C, A, n); an = "c=a"; break;
	case 2: CALL(r = f(B_, A, B_, n)); wwCopy(C, B_, n); an = "c=b"; break;
	case 3: CALL(r = f(C, A, A, n)); an = "a=b"; break;       /* only called with equal operands */
	case 4: CALL(r = f(A, A, A, n)); wwCopy(C, A, n); an = "c=a=b"; break;
	default: CALL(r = f(C, A, B_, n));
	}
	LW("c", C, n); LWord("ret", r);
	MKCLS("a=%s,b=%s", a->nm, b->nm); LE_(CLS, an);
}
typedef word (*f_ba)(word*, const word*, size_t);
static void do_ba(const char* op, f_ba f, const num* a, const num* b, int alias)
{
	size_t n = a->n; word r; const char* an = "none";
	wwCopy(A, a->v, n); wwCopy(B_, b->v, n);
	LB("zz", op, "def"); jInt("n", n); LW("a", A, n); LW("b", B_, n);
	if (alias == 3) { CALL(r = f(A, A, n)); wwCopy(B_, A, n); an = "b=a"; }
	else CALL(r = f(B_, A, n));
	LW("c", B_, n); LWord("ret", r);
	MKCLS("a=%s,b=%s", a->nm, b->nm); LE_(CLS, an);
}
typedef word (*f_baw)(word*, const word*, size_t, word);
/* inout: b is also an input (zzAddMulW, zzSubMulW) */
static void do_baw(const char* op, f_baw f, const num* a, const num* b, word w, const char* wn, int inout, int alias)
{
	size_t n = a->n; word r; const char* an = "none";
	wwCopy(A, a->v, n); if (inout) wwCopy(B_, b->v, n); else set_fill(B_, n, 0x5A);
	LB("zz", op, "def"); jInt("n", n); LW("a", A, n); if (inout) LW("b", B_, n); LWord("w", w);
	if (alias) { CALL(r = f(A, A, n, w)); wwCopy(B_, A, n); an = "b=a"; }
	else CALL(r = f(B_, A, n, w));
	LW("c", B_, n); LWord("ret", r);
	if (inout) MKCLS("a=%s,b=%s,w=%s", a->nm, b->nm, wn); else MKCLS("a=%s,w=%s", a->nm, wn);
	LE_(CLS, an);
}
typedef word (*f_aw)(word*, size_t, word);
static void do_aw2(const char* op, f_aw f, const num* a, word w, const char* wn)
{
	size_t n = a->n; word r;
	wwCopy(A, a->v, n);
	LB("zz", op, "def"); jInt("n", n); LW("a", A, n); LWord("w", w);
	CALL(r = f(A, n, w));
	LW("c", A, n); LWord("ret", r);
	MKCLS("a=%s,w=%s", a->nm, wn); LE_(CLS, "none");
}
typedef word (*f_caw)(const word*, size_t, word);
static void do_modw(const char* op, f_caw f, const num* a, word w, const char* wn)
{
	size_t n = a->n; word r;
	wwCopy(A, a->v, n);
	LB("zz", op, "def"); jInt("n", n); LW("a", A, n); LWord("w", w);
	CALL(r = f(A, n, w));
	LWord("ret", r);
	MKCLS("a=%s,w=%s", a->nm, wn); LE_(CLS, "none");
}
typedef bool_t (*f_sumeq)(const word*, const word*, const word*, size_t);
static void do_sumeq(const char* ed, f_sumeq f, const num* c, const num* a, const num* b, const char* cn)
{
	size_t n = a->n; bool_t r;
	LB("zz", "zzIsSumEq", ed); jInt("n", n); LW("c", c->v, n); LW("a", a->v, n); LW("b", b->v, n);
	CALL(r = f(c->v, a->v, b->v, n));
	jInt("ret", r);
	MKCLS("a=%s,b=%s,c=%s", a->nm, b->nm, cn); LE_(CLS, "none");
}
typedef bool_t (*f_sumweq)(const word*, const word*, size_t, word);
static void do_sumweq(const char* ed, f_sumweq f, const num* b, const num* a, word w, const char* wn, const char* bn)
{
	size_t n = a->n; bool_t r;
	LB("zz", "zzIsSumWEq", ed); jInt("n", n); LW("b", b->v, n); LW("a", a->v, n); LWord("w", w);
	CALL(r = f(b->v, a->v, n, w));
	jInt("ret", r);
	MKCLS("a=%s,w=%s,b=%s", a->nm, wn, bn); LE_(CLS, "none");
}

static void fam_zz_add(void)
{
	size_t li, i, j, n, P; int k; num a, b, c;
	for (li = 0; li < nlens(); ++li)
	{
		n = lens(li); P = nshapes(n);
		for (i = 0; i < P; ++i)
		{
			mkshape(&a, n, (int)i);
			/* unary */
			LB("zz", "zzIsEven", "def"); jInt("n", n); LW("a", a.v, n); jInt("ret", zzIsEven(a.v, n)); MKCLS("a=%s", a.nm); LE_(CLS, "none");
			LB("zz", "zzIsOdd", "def"); jInt("n", n); LW("a", a.v, n); jInt("ret", zzIsOdd(a.v, n)); MKCLS("a=%s", a.nm); LE_(CLS, "none");
			wwCopy(A, a.v, n); set_fill(C, n, 0x5A);
			LB("zz", "zzNeg", "def"); jInt("n", n); LW("a", A, n); CALL(zzNeg(C, A, n)); LW("c", C, n); MKCLS("a=%s", a.nm); LE_(CLS, "none");
			LB("zz", "zzNeg", "def"); jInt("n", n); LW("a", A, n); CALL(zzNeg(A, A, n)); LW("c", A, n); MKCLS("a=%s", a.nm); LE_(CLS, "b=a");
			/* with a word from the alphabet */
			for (k = 0; k < 9; ++k)
			{
				word w = alpha(k);
				do_baw("zzAddW", zzAddW, &a, 0, w, AN[k], 0, k % 3 == 1);
				do_baw("zzSubW", zzSubW, &a, 0, w, AN[k], 0, k % 3 == 2);
				do_baw("zzMulW", zzMulW, &a, 0, w, AN[k], 0, k % 3 == 0);
				do_aw2("zzAddW2", zzAddW2, &a, w, AN[k]);
				do_aw2("zzSubW2", zzSubW2, &a, w, AN[k]);
				if (w != 0)
				{
					do_baw("zzDivW", zzDivW, &a, 0, w, AN[k], 0, k % 2);
					do_modw("zzModW", zzModW, &a, w, AN[k]);
				}
				/* a + w == b ?  with b = a + w (exact), a + w + 1, and the wrapped sum when there is a carry */
				{
					word cy;
					b = a; CALL(cy = zzAddW2(b.v, n, w));
					do_sumweq("safe", SAFE(zzIsSumWEq), &b, &a, w, AN[k], cy ? "sum-wrapped" : "sum");
					do_sumweq("fast", FAST(zzIsSumWEq), &b, &a, w, AN[k], cy ? "sum-wrapped" : "sum");
					if (n) { b.v[(i + k) % n] ^= WORD_1 << ((i * 7 + k) % B_PER_W);
						do_sumweq("safe", SAFE(zzIsSumWEq), &b, &a, w, AN[k], "sum-flip");
						do_sumweq("fast", FAST(zzIsSumWEq), &b, &a, w, AN[k], "sum-flip"); }
				}
			}
			/* small divisors for zzModW2: w*w <= B */
			{
				static const char* w2n[] = { "1", "2", "3", "sqrtB-1", "sqrtB" };
				word w2[5] = { 1, 2, 3, WORD_BIT_HALF - 1, WORD_BIT_HALF };
				for (k = 0; k < 5; ++k) do_modw("zzModW2", zzModW2, &a, w2[k], w2n[k]);
			}
			/* binary */
			for (j = 0; j < P; ++j)
			{
				int al;
				if (!pairsel(i, j, P)) continue;
				mkshape(&b, n, (int)j);
				al = (int)((i + j) % 3);
				do_cab("zzAdd", zzAdd, &a, &b, 0);
				do_cab("zzSub", zzSub, &a, &b, 0);
				if (al) do_cab("zzAdd", zzAdd, &a, &b, al), do_cab("zzSub", zzSub, &a, &b, al);
				do_ba("zzAdd2", zzAdd2, &a, &b, 0);
				do_ba("zzSub2", zzSub2, &a, &b, 0);
				if (i == j && n)
				{
					do_cab("zzAdd", zzAdd, &a, &a, 3); do_cab("zzAdd", zzAdd, &a, &a, 4);
					do_cab("zzSub", zzSub, &a, &a, 3); do_cab("zzSub", zzSub, &a, &a, 4);
					do_ba("zzAdd2", zzAdd2, &a, &a, 3); do_ba("zzSub2", zzSub2, &a, &a, 3);
				}
				/* sum == c ? */
				{
					word cy;
					c.n = n; CALL(cy = zzAdd(c.v, a.v, b.v, n));
					do_sumeq("safe", SAFE(zzIsSumEq), &c, &a, &b, cy ? "sum-wrapped" : "sum");
					do_sumeq("fast", FAST(zzIsSumEq), &c, &a, &b, cy ? "sum-wrapped" : "sum");
					if (n) { c.v[(i + j) % n] ^= WORD_1 << ((i * 5 + j) % B_PER_W);
						do_sumeq("safe", SAFE(zzIsSumEq), &c, &a, &b, "sum-flip");
						do_sumeq("fast", FAST(zzIsSumEq), &c, &a, &b, "sum-flip"); }
				}
				/* b +- a * w */
				for (k = 0; k < 9; k += (THOROUGH ? 1 : 2))
				{
					word w = alpha((int)((k + i) % 9));
					do_baw("zzAddMulW", zzAddMulW, &a, &b, w, AN[(k + i) % 9], 1, 0);
					do_baw("zzSubMulW", zzSubMulW, &a, &b, w, AN[(k + i) % 9], 1, 0);
				}
				if (i == j && n)
				{
					do_baw("zzAddMulW", zzAddMulW, &a, &a, BMAX, "B-1", 1, 1);
					do_baw("zzSubMulW", zzSubMulW, &a, &a, BMAX, "B-1", 1, 1);
				}
			}
		}
	}
	/* zzAdd3: unequal lengths */
	{
		static const size_t NM[][2] = { {0,0},{0,1},{1,0},{1,2},{2,1},{1,3},{3,1},{2,3},{3,2},{3,3},{1,6},{6,2},{0,4} };
		for (li = 0; li < COUNT_OF(NM); ++li)
		{
			size_t m; n = NM[li][0]; m = NM[li][1];
			for (i = 0; i < nshapes(n); ++i) for (j = 0; j < nshapes(m); ++j)
			{
				word r; size_t mx = n > m ? n : m;
				if (!pairsel(i, j, 12)) continue;
				mkshape(&a, n, (int)i); mkshape(&b, m, (int)j);
				set_fill(C, mx, 0x5A);
				LB("zz", "zzAdd3", "def"); jInt("n", n); jInt("m", m); LW("a", a.v, n); LW("b", b.v, m);
				CALL(r = zzAdd3(C, a.v, n, b.v, m));
				LW("c", C, mx); LWord("ret", r);
				MKCLS("a=%s,b=%s", a.nm, b.nm); LE_(CLS, "none");
			}
		}
	}
}

/* ------------------------------------------------------------------ zz: products, roots, division */
static void log_mul(const num* a, const num* b)
{
	size_t n = a->n, m = b->n;
	set_fill(C, n + m, 0x5A);
	LB("zz", "zzMul", "def"); jInt("n", n); jInt("m", m); LW("a", a->v, n); LW("b", b->v, m);
	CALL(zzMul(C, a->v, n, b->v, m, STACK));
	LW("c", C, n + m); MKCLS("a=%s,b=%s", a->nm, b->nm); LE_(CLS, "none");
}
static void log_div(const num* a, const num* b, const char* cls)
{
	size_t n = a->n, m = b->n;
	/* q and r disjoint, r disjoint from a */
	set_fill(C, n - m + 1, 0x5A); set_fill(D, m, 0x5A);
	LB("zz", "zzDiv", "def"); jInt("n", n); jInt("m", m); LW("a", a->v, n); LW("b", b->v, m);
	CALL(zzDiv(C, D, a->v, n, b->v, m, STACK));
	LW("q", C, n - m + 1); LW("r", D, m); LE_(cls, "none");
	/* r == a */
	wwCopy(A, a->v, n); set_fill(C, n - m + 1, 0x5A);
	LB("zz", "zzDiv", "def"); jInt("n", n); jInt("m", m); LW("a", A, n); LW("b", b->v, m);
	CALL(zzDiv(C, A, A, n, b->v, m, STACK));
	LW("q", C, n - m + 1); LW("r", A, m); LE_(cls, "r=a");
}
static void log_mod(const num* a, const num* b, const char* cls)
{
	size_t n = a->n, m = b->n;
	set_fill(D, m, 0x5A);
	LB("zz", "zzMod", "def"); jInt("n", n); jInt("m", m); LW("a", a->v, n); LW("b", b->v, m);
	CALL(zzMod(D, a->v, n, b->v, m, STACK));
	LW("r", D, m); LE_(cls, "none");
	if (n >= m)
	{
		wwCopy(A, a->v, n);
		LB("zz", "zzMod", "def"); jInt("n", n); jInt("m", m); LW("a", A, n); LW("b", b->v, m);
		CALL(zzMod(A, A, n, b->v, m, STACK));
		LW("r", A, m); LE_(cls, "r=a");
	}
}
/* divisor shapes (top word non-zero) */
enum { DV_ONE, DV_MAX, DV_HIBIT, DV_HIBITMAX, DV_HIBIT1, DV_TOPONE, DV_TOPONEMAX, DV_RANDHI, DV_RANDLO, DV_KNUTH, NDV };
static const char* DVN[NDV] = { "d-one", "d-max", "d-hibit", "d-hibit-lowmax", "d-hibit-1", "d-topone", "d-topone-lowmax", "d-rand-hi", "d-rand-lo", "d-knuth" };
static int mkdiv(num* o, size_t m, int s)
{
	memset(o->v, 0, sizeof(o->v)); o->n = m; strcpy(o->nm, DVN[s]);
	switch (s)
	{
	case DV_ONE: if (m != 1) return 0; o->v[0] = 1; return 1;
	case DV_MAX: set_fill(o->v, m, BMAX); return 1;
	case DV_HIBIT: o->v[m - 1] = BHALF; return 1;
	case DV_HIBITMAX: set_fill(o->v, m, BMAX); o->v[m - 1] = BHALF; return m >= 2;
	case DV_HIBIT1: set_fill(o->v, m, BMAX); o->v[m - 1] = BHALF - 1; return 1;
	case DV_TOPONE: o->v[m - 1] = 1; return m >= 2;
	case DV_TOPONEMAX: set_fill(o->v, m, BMAX); o->v[m - 1] = 1; return m >= 2;
	case DV_RANDHI: vxRandBuf(o->v, m * O_PER_W); o->v[m - 1] |= BHALF; return 1;
	case DV_RANDLO: vxRandBuf(o->v, m * O_PER_W); o->v[m - 1] &= 0xFF; o->v[m - 1] |= 1; return 1;
	case DV_KNUTH: /* B/2 : 0 : B-1 : the low word defeats the two-word trial quotient */
		if (m < 3) return 0; o->v[m - 1] = BHALF; o->v[0] = BMAX; return 1;
	}
	return 0;
}
static void fam_zz_mul(void)
{
	static const size_t NMQ[][2] = { {0,0},{0,2},{1,0},{1,1},{1,2},{2,1},{2,2},{3,3},{2,4},{4,4},{1,6},{6,6},{9,9},{10,10},{11,10},{21,20} };
	static const size_t NMT[][2] = { {0,0},{0,2},{1,0},{1,1},{1,2},{2,1},{2,2},{3,3},{2,4},{4,4},{1,6},{6,6},{5,7},{8,8},{9,9},{9,10},{10,10},{11,10},{11,11},
		{16,16},{19,19},{20,20},{21,21},{21,20},{1,21},{21,2},{12,13} };
	static const int MS[] = { S_ZERO, S_ONE, S_MAX, S_HIBIT, S_TOPONE1, S_ALT, S_RAND };
	size_t t, i, j, cnt = THOROUGH ? COUNT_OF(NMT) : COUNT_OF(NMQ); num a, b;
	for (t = 0; t < cnt; ++t)
	{
		size_t n = THOROUGH ? NMT[t][0] : NMQ[t][0], m = THOROUGH ? NMT[t][1] : NMQ[t][1];
		size_t Pn = n <= 1 ? nshapes(n) : COUNT_OF(MS), Pm = m <= 1 ? nshapes(m) : COUNT_OF(MS);
		for (i = 0; i < Pn; ++i) for (j = 0; j < Pm; ++j)
		{
			mkshape(&a, n, n <= 1 ? (int)i : MS[i]); mkshape(&b, m, m <= 1 ? (int)j : MS[j]);
			log_mul(&a, &b);
		}
	}
	/* squares and square roots */
	for (t = 0; t < nlens(); ++t)
	{
		size_t n = lens(t), P = nshapes(n);
		for (i = 0; i < P; ++i)
		{
			bool_t r; size_t k = (n + 1) / 2;
			mkshape(&a, n, (int)i);
			set_fill(C, 2 * n, 0x5A);
			LB("zz", "zzSqr", "def"); jInt("n", n); LW("a", a.v, n); CALL(zzSqr(C, a.v, n, STACK)); LW("c", C, 2 * n);
			MKCLS("a=%s", a.nm); LE_(CLS, "none");
			set_fill(D, k, 0x5A);
			LB("zz", "zzSqrt", "def"); jInt("n", n); LW("a", a.v, n); CALL(r = zzSqrt(D, a.v, n, STACK)); LW("c", D, k); jInt("ret", r);
			MKCLS("a=%s", a.nm); LE_(CLS, "none");
			/* perfect squares s^2 and their neighbours s^2 - 1, s^2 + 1 (s = the k low words of a) */
			if (n >= 1 && n % 2 == 0)
			{
				int dlt;
				for (dlt = -1; dlt <= 1; ++dlt)
				{
					CALL(zzSqr(E, a.v, k, STACK));
					if (dlt < 0 && !wwIsZero(E, n)) zzSubW2(E, n, 1); else if (dlt > 0 && !wwIsRepW(E, n, BMAX)) zzAddW2(E, n, 1);
					set_fill(D, k, 0x5A);
					LB("zz", "zzSqrt", "def"); jInt("n", n); LW("a", E, n); CALL(r = zzSqrt(D, E, n, STACK)); LW("c", D, k); jInt("ret", r);
					MKCLS("a=sqr(%s)%+d", a.nm, dlt); LE_(CLS, "none");
				}
			}
		}
	}
}
static void fam_zz_div(void)
{
	static const size_t NMQ[][2] = { {1,1},{2,1},{3,1},{6,1},{2,2},{3,2},{4,2},{3,3},{4,3},{6,3},{5,4},{6,6} };
	static const size_t NMT[][2] = { {1,1},{2,1},{3,1},{6,1},{21,1},{2,2},{3,2},{4,2},{3,3},{4,3},{6,3},{5,4},{6,6},{8,4},{9,5},{12,6},{16,8},{20,10},{21,11},{21,20},{21,21},{42,21} };
	static const int AS[] = { S_ZERO, S_ONE, S_MAX, S_HIBIT, S_TOPONE, S_TOPONE1, S_ALT, S_RAND, S_RANDLO };
	size_t t, i, cnt = THOROUGH ? COUNT_OF(NMT) : COUNT_OF(NMQ); int s; num a, b, q, r;
	for (t = 0; t < cnt; ++t)
	{
		size_t n = THOROUGH ? NMT[t][0] : NMQ[t][0], m = THOROUGH ? NMT[t][1] : NMQ[t][1];
		for (s = 0; s < NDV; ++s)
		{
			if (!mkdiv(&b, m, s)) continue;
			/* plain shapes of the dividend */
			for (i = 0; i < (n <= 1 ? nshapes(n) : COUNT_OF(AS)); ++i)
			{
				mkshape(&a, n, n <= 1 ? (int)i : AS[i]);
				MKCLS("a=%s,b=%s", a.nm, b.nm);
				{ char c2[256]; strcpy(c2, CLS); log_div(&a, &b, c2); log_mod(&a, &b, c2); }
			}
			/* structured dividends a = q*b + r, q drawn word by word from the alphabet, r in {0, 1, b-1}: exact multiples,
			   maximal remainders and the Knuth-D estimate corrections */
			{
				size_t nq = n - m + 1, G = nq <= (THOROUGH ? 3u : 2u) ? ngrid(nq) : nshapes(nq), g; int rk;
				for (g = 0; g < G; ++g)
				{
					if (nq <= (THOROUGH ? 3u : 2u)) mkgrid(&q, nq, g); else mkshape(&q, nq, (int)g);
					for (rk = 0; rk < 3; ++rk)
					{
						word prod[2 * NW];
						memset(r.v, 0, sizeof(r.v));
						if (rk == 1) r.v[0] = 1; else if (rk == 2) { wwCopy(r.v, b.v, m); zzSubW2(r.v, m, 1); }
						if (rk == 1 && m == 1 && b.v[0] == 1) continue;     /* r < b */
						CALL(zzMul(prod, q.v, nq, b.v, m, STACK));                  /* nq + m = n + 1 words */
						if (zzAdd3(prod, prod, n + 1, r.v, m) || prod[n] != 0) continue;   /* does not fit n words */
						wwCopy(a.v, prod, n); a.n = n;
						MKCLS("a=q*b+r,q=%s,r=%s,b=%s", q.nm, rk == 0 ? "0" : rk == 1 ? "1" : "b-1", b.nm);
						{ char c2[256]; strcpy(c2, CLS); log_div(&a, &b, c2); log_mod(&a, &b, c2); }
					}
				}
			}
			/* trial quotient over-estimates: a = (k+1) * (b with its low words cleared) + small */
			if (m >= 2 && n > m)
			{
				int k;
				for (k = 1; k < 9; ++k)
				{
					word bt[NW], prod[2 * NW]; word kw = alpha(k);
					if (kw == BMAX) kw = BMAX - 1;
					memset(bt, 0, sizeof(bt)); bt[m - 1] = b.v[m - 1];
					memset(prod, 0, sizeof(prod));
					prod[m] = zzMulW(prod, bt, m, kw + 1);                  /* (k+1) * top(b) * B^(m-1) */
					memset(a.v, 0, sizeof(a.v)); a.n = n;
					wwCopy(a.v + (n - m - 1), prod, m + 1);                /* placed at the top of the dividend */
					a.v[0] |= (k & 1);
					MKCLS("a=(k+1)*top(b)<<,k=%s,b=%s", AN[k], b.nm);
					{ char c2[256]; strcpy(c2, CLS); log_div(&a, &b, c2); log_mod(&a, &b, c2); }
				}
			}
		}
		/* a < b : shorter or smaller dividend for zzMod */
		if (m >= 2)
		{
			mkdiv(&b, m, DV_RANDHI);
			for (i = 0; i < m; ++i) { mkshape(&a, i, i <= 1 ? 0 : S_RAND); if (i == 1) a.v[0] = BMAX; MKCLS("a-shorter,n=%u,b=%s", (unsigned)i, b.nm); { char c2[256]; strcpy(c2, CLS); log_mod(&a, &b, c2); } }
		}
	}
}

/* ------------------------------------------------------------------ zz: gcd family */
static void fam_zz_gcd(void)
{
	static const size_t NMQ[][2] = { {1,1},{2,1},{1,2},{2,2},{3,2},{3,3},{4,4} };
	static const size_t NMT[][2] = { {1,1},{2,1},{1,2},{2,2},{3,2},{3,3},{4,4},{2,5},{6,6},{8,8},{9,4},{12,12} };
	static const int GS[] = { S_ONE, S_MAX, S_TWO, S_HIBIT, S_TOPONE, S_TOPONE1, S_ALT, S_RAND, S_RANDLO };
	size_t t, i, j, cnt = THOROUGH ? COUNT_OF(NMT) : COUNT_OF(NMQ); num a, b;
	for (t = 0; t < cnt; ++t)
	{
		size_t n = THOROUGH ? NMT[t][0] : NMQ[t][0], m = THOROUGH ? NMT[t][1] : NMQ[t][1], mn = n < m ? n : m;
		size_t Pn = n == 1 ? 9 : COUNT_OF(GS), Pm = m == 1 ? 9 : COUNT_OF(GS);
		for (i = 0; i < Pn; ++i) for (j = 0; j < Pm; ++j)
		{
			int var;
			mkshape(&a, n, n == 1 ? (int)i : GS[i]); mkshape(&b, m, m == 1 ? (int)j : GS[j]);
			/* var 1: common factor: both multiplied by a common word (kept in length) */
			for (var = 0; var < 2; ++var)
			{
				char c2[256];
				if (var == 1)
				{
					word g = (i + j) % 2 ? 0x10001u : 6u;
					if (n < 2 || m < 2) continue;
					a.v[n - 1] = 0; b.v[m - 1] = 0; a.v[n - 1] = zzMulW(a.v, a.v, n - 1, g); b.v[m - 1] = zzMulW(b.v, b.v, m - 1, g);
				}
				MKCLS("a=%s,b=%s%s", a.nm, b.nm, var ? ",common-factor" : ""); strcpy(c2, CLS);
				{ bool_t r; LB("zz", "zzIsCoprime", "def"); jInt("n", n); jInt("m", m); LW("a", a.v, n); LW("b", b.v, m);
				  CALL(r = zzIsCoprime(a.v, n, b.v, m, STACK)); jInt("ret", r); LE_(c2, "none"); }
				if (wwIsZero(a.v, n) || wwIsZero(b.v, m)) continue;         /* pre: a != 0 && b != 0 */
				set_fill(C, mn, 0x5A);
				LB("zz", "zzGCD", "def"); jInt("n", n); jInt("m", m); LW("a", a.v, n); LW("b", b.v, m);
				CALL(zzGCD(C, a.v, n, b.v, m, STACK)); LW("c", C, mn); LE_(c2, "none");
				set_fill(C, n + m, 0x5A);
				LB("zz", "zzLCM", "def"); jInt("n", n); jInt("m", m); LW("a", a.v, n); LW("b", b.v, m);
				CALL(zzLCM(C, a.v, n, b.v, m, STACK)); LW("c", C, n + m); LE_(c2, "none");
				set_fill(C, mn, 0x5A); set_fill(D, m, 0x5A); set_fill(E, n, 0x5A);
				LB("zz", "zzExGCD", "def"); jInt("n", n); jInt("m", m); LW("a", a.v, n); LW("b", b.v, m);
				CALL(zzExGCD(C, D, E, a.v, n, b.v, m, STACK)); LW("d", C, mn); LW("da", D, m); LW("db", E, n); LE_(c2, "none");
				if (b.v[0] & 1)
				{
					int r;
					LB("zz", "zzJacobi", "def"); jInt("n", n); jInt("m", m); LW("a", a.v, n); LW("b", b.v, m);
					CALL(r = zzJacobi(a.v, n, b.v, m, STACK)); jInt("ret", r); LE_(c2, "none");
				}
			}
		}
	}
}

/* gcd of the form (2^k + 1) 2^s: the power of two that the binary algorithm splits off crosses word boundaries
   and the top word of the gcd is smaller than 2^(s mod B_PER_W) for some (k, s) */
static void fam_zz_gcd_shifted(void)
{
	const size_t W = B_PER_W;
	const size_t KS[] = { 1, W / 2 - 1, W - 6, W - 5, W - 2, W - 1, W, 2 * W - 5, 2 * W - 1 };
	const size_t SS[] = { 1, 5, W - 1, W, W + 5, 2 * W - 1 };
	static const word XY[][2] = { {3, 5}, {1, 1}, {1, 3}, {7, 2} };
	size_t ki, si, ci; num a, b;
	for (ki = 0; ki < COUNT_OF(KS); ++ki) for (si = 0; si < COUNT_OF(SS); ++si) for (ci = 0; ci < (THOROUGH ? 4u : 2u); ++ci)
	{
		size_t k = KS[ki], sh = SS[si], n = (k + 1 + sh + 3 + W - 1) / W, mn = n; char c2[256];
		memset(a.v, 0, sizeof(a.v)); memset(b.v, 0, sizeof(b.v)); a.n = b.n = n;
		wwSetBit(a.v, k + sh, 1); wwSetBit(a.v, sh, 1); wwCopy(b.v, a.v, n);
		zzMulW(a.v, a.v, n, XY[ci][0]); zzMulW(b.v, b.v, n, XY[ci][1]);
		snprintf(c2, sizeof(c2), "gcd=(2^k+1)2^s,k=%s,s=%s,cof=%u:%u", ki == 0 ? "1" : ki == 1 ? "W/2-1" : ki == 2 ? "W-6" : ki == 3 ? "W-5" : ki == 4 ? "W-2" : ki == 5 ? "W-1" : ki == 6 ? "W" : ki == 7 ? "2W-5" : "2W-1",
			si == 0 ? "1" : si == 1 ? "5" : si == 2 ? "W-1" : si == 3 ? "W" : si == 4 ? "W+5" : "2W-1", (unsigned)XY[ci][0], (unsigned)XY[ci][1]);
		set_fill(C, mn, 0x5A);
		LB("zz", "zzGCD", "def"); jInt("n", n); jInt("m", n); LW("a", a.v, n); LW("b", b.v, n);
		CALL(zzGCD(C, a.v, n, b.v, n, STACK)); LW("c", C, mn); LE_(c2, "none");
		set_fill(C, 2 * n, 0x5A);
		LB("zz", "zzLCM", "def"); jInt("n", n); jInt("m", n); LW("a", a.v, n); LW("b", b.v, n);
		CALL(zzLCM(C, a.v, n, b.v, n, STACK)); LW("c", C, 2 * n); LE_(c2, "none");
		set_fill(C, mn, 0x5A); set_fill(D, n, 0x5A); set_fill(E, n, 0x5A);
		LB("zz", "zzExGCD", "def"); jInt("n", n); jInt("m", n); LW("a", a.v, n); LW("b", b.v, n);
		CALL(zzExGCD(C, D, E, a.v, n, b.v, n, STACK)); LW("d", C, mn); LW("da", D, n); LW("db", E, n); LE_(c2, "none");
	}
}

/* Jacobi symbol with a shorter than b, fixed operands: a from the alphabet (1 word), b = 5*B + t (2 words), t odd */
static void fam_zz_jacobi_short(void)
{
	int k, r; word t; num a, b; char c2[96];
	for (k = 1; k < 8; ++k) for (t = 3; t <= 41; t += 2)
	{
		mkshape(&a, 1, k); memset(b.v, 0, sizeof(b.v)); b.n = 2; b.v[0] = t; b.v[1] = 5;
		snprintf(c2, sizeof(c2), "a=%s,b=5B+%u", a.nm, (unsigned)t);
		LB("zz", "zzJacobi", "def"); jInt("n", 1); jInt("m", 2); LW("a", a.v, 1); LW("b", b.v, 2);
		CALL(r = zzJacobi(a.v, 1, b.v, 2, STACK)); jInt("ret", r); LE_(c2, "none");
	}
}

/* ------------------------------------------------------------------ zz: modular arithmetic */
typedef void (*f_cabm)(word*, const word*, const word*, const word*, size_t);
static void do_cabm(const char* op, const char* ed, f_cabm f, const num* a, const num* b, const num* mod, int alias)
{
	size_t n = mod->n; const char* an = "none";
	wwCopy(A, a->v, n); wwCopy(B_, b->v, n); set_fill(C, n, 0x5A);
	LB("zz", op, ed); jInt("n", n); LW("a", A, n); LW("b", B_, n); LW("mod", mod->v, n);
	switch (alias)
	{
	case 1: CALL(f(A, A, B_, mod->v, n)); wwCopy(C, A, n); an = "c=a"; break;
	case 2: CALL(f(B_, A, B_, mod->v, n)); wwCopy(C, B_, n); an = "c=b"; break;
	case 3: CALL(f(C, A, A, mod->v, n)); an = "a=b"; break;
	case 4: CALL(f(A, A, A, mod->v, n)); wwCopy(C, A, n); an = "c=a=b"; break;
	default: CALL(f(C, A, B_, mod->v, n));
	}
	LW("c", C, n); MKCLS("mod=%s,a=%s,b=%s", mod->nm, a->nm, b->nm); LE_(CLS, an);
}
typedef void (*f_bawm)(word*, const word*, word, const word*, size_t);
static void do_bawm(const char* op, const char* ed, f_bawm f, const num* a, word w, const char* wn, const num* mod, int alias)
{
	size_t n = mod->n;
	wwCopy(A, a->v, n); set_fill(C, n, 0x5A);
	LB("zz", op, ed); jInt("n", n); LW("a", A, n); LWord("w", w); LW("mod", mod->v, n);
	if (alias) { CALL(f(A, A, w, mod->v, n)); wwCopy(C, A, n); } else CALL(f(C, A, w, mod->v, n));
	LW("c", C, n); MKCLS("mod=%s,a=%s,w=%s", mod->nm, a->nm, wn); LE_(CLS, alias ? "b=a" : "none");
}
typedef void (*f_bam)(word*, const word*, const word*, size_t);
static void do_bam(const char* op, const char* ed, f_bam f, const num* a, const num* mod, int alias)
{
	size_t n = mod->n;
	wwCopy(A, a->v, n); set_fill(C, n, 0x5A);
	LB("zz", op, ed); jInt("n", n); LW("a", A, n); LW("mod", mod->v, n);
	if (alias) { CALL(f(A, A, mod->v, n)); wwCopy(C, A, n); } else CALL(f(C, A, mod->v, n));
	LW("c", C, n); MKCLS("mod=%s,a=%s", mod->nm, a->nm); LE_(CLS, alias ? "b=a" : "none");
}
static void fam_zz_mod(void)
{
	static const size_t LQ[] = { 1, 2, 3, 4 }, LT[] = { 1, 2, 3, 4, 5, 6, 8, 9, 16, 21 };
	size_t t, cnt = THOROUGH ? COUNT_OF(LT) : COUNT_OF(LQ); int mc, i, j; num mod, a, b;
	for (t = 0; t < cnt; ++t)
	{
		size_t n = THOROUGH ? LT[t] : LQ[t];
		for (mc = 0; mc < NMC; ++mc)
		{
			if (!mkmod(&mod, n, mc)) continue;
			if (n == 1 && mod.v[0] < 2) continue;
			for (i = 0; i < NRES; ++i)
			{
				mkres(&a, &mod, i);
				do_bam("zzNegMod", "safe", SAFE(zzNegMod), &a, &mod, 0); do_bam("zzNegMod", "fast", FAST(zzNegMod), &a, &mod, 0);
				do_bam("zzNegMod", "safe", SAFE(zzNegMod), &a, &mod, 1); do_bam("zzNegMod", "fast", FAST(zzNegMod), &a, &mod, 1);
				do_bam("zzDoubleMod", "safe", SAFE(zzDoubleMod), &a, &mod, i % 2); do_bam("zzDoubleMod", "fast", FAST(zzDoubleMod), &a, &mod, i % 2);
				if (mod_is_odd(&mod))
					do_bam("zzHalfMod", "safe", SAFE(zzHalfMod), &a, &mod, i % 2), do_bam("zzHalfMod", "fast", FAST(zzHalfMod), &a, &mod, i % 2);
				/* with a word w < mod */
				for (j = 0; j < 9; ++j)
				{
					word w = alpha(j);
					if (n == 1 && w >= mod.v[0]) continue;
					if (!THOROUGH && (i + j) % 2) continue;
					do_bawm("zzAddWMod", "safe", SAFE(zzAddWMod), &a, w, AN[j], &mod, j % 2); do_bawm("zzAddWMod", "fast", FAST(zzAddWMod), &a, w, AN[j], &mod, j % 2);
					do_bawm("zzSubWMod", "safe", SAFE(zzSubWMod), &a, w, AN[j], &mod, j % 2); do_bawm("zzSubWMod", "fast", FAST(zzSubWMod), &a, w, AN[j], &mod, j % 2);
					wwCopy(A, a.v, n); set_fill(C, n, 0x5A);
					LB("zz", "zzMulWMod", "def"); jInt("n", n); LW("a", A, n); LWord("w", w); LW("mod", mod.v, n);
					CALL(zzMulWMod(C, A, w, mod.v, n, STACK)); LW("c", C, n); MKCLS("mod=%s,a=%s,w=%s", mod.nm, a.nm, AN[j]); LE_(CLS, "none");
				}
				/* unary with stack */
				wwCopy(A, a.v, n); set_fill(C, n, 0x5A);
				LB("zz", "zzSqrMod", "def"); jInt("n", n); LW("a", A, n); LW("mod", mod.v, n);
				CALL(zzSqrMod(C, A, mod.v, n, STACK)); LW("c", C, n); MKCLS("mod=%s,a=%s", mod.nm, a.nm); LE_(CLS, "none");
				if (mod_is_odd(&mod))
				{
					set_fill(C, n, 0x5A);
					LB("zz", "zzInvMod", "def"); jInt("n", n); LW("a", A, n); LW("mod", mod.v, n);
					g_sig = a.nm; CALL(zzInvMod(C, A, mod.v, n, STACK)); g_sig = ""; LW("c", C, n); MKCLS("mod=%s,a=%s", mod.nm, a.nm); LE_(CLS, "none");
					if (!wwIsZero(A, n))
					{
						size_t k;
						set_fill(C, n, 0x5A);
						LB("zz", "zzAlmostInvMod", "def"); jInt("n", n); LW("a", A, n); LW("mod", mod.v, n);
						CALL(k = zzAlmostInvMod(C, A, mod.v, n, STACK)); LW("c", C, n); jInt("ret", (long long)k);
						MKCLS("mod=%s,a=%s", mod.nm, a.nm); LE_(CLS, "none");
					}
				}
				for (j = 0; j < NRES; ++j)
				{
					int al = (i + j) % 3;
					if (!THOROUGH && !(i <= R_ONE || j <= R_ONE || i == R_M1 || j == R_M1 || i == j || j == (i + 1) % NRES)) continue;
					mkres(&b, &mod, j);
					do_cabm("zzAddMod", "safe", SAFE(zzAddMod), &a, &b, &mod, 0); do_cabm("zzAddMod", "fast", FAST(zzAddMod), &a, &b, &mod, 0);
					do_cabm("zzSubMod", "safe", SAFE(zzSubMod), &a, &b, &mod, 0); do_cabm("zzSubMod", "fast", FAST(zzSubMod), &a, &b, &mod, 0);
					if (al)
					{
						do_cabm("zzAddMod", "safe", SAFE(zzAddMod), &a, &b, &mod, al); do_cabm("zzAddMod", "fast", FAST(zzAddMod), &a, &b, &mod, al);
						do_cabm("zzSubMod", "safe", SAFE(zzSubMod), &a, &b, &mod, al); do_cabm("zzSubMod", "fast", FAST(zzSubMod), &a, &b, &mod, al);
					}
					if (i == j && i < R_RAND)
					{
						do_cabm("zzAddMod", "safe", SAFE(zzAddMod), &a, &a, &mod, 3); do_cabm("zzAddMod", "fast", FAST(zzAddMod), &a, &a, &mod, 4);
						do_cabm("zzSubMod", "safe", SAFE(zzSubMod), &a, &a, &mod, 4); do_cabm("zzSubMod", "fast", FAST(zzSubMod), &a, &a, &mod, 3);
					}
					wwCopy(A, a.v, n); wwCopy(B_, b.v, n); set_fill(C, n, 0x5A);
					LB("zz", "zzMulMod", "def"); jInt("n", n); LW("a", A, n); LW("b", B_, n); LW("mod", mod.v, n);
					CALL(zzMulMod(C, A, B_, mod.v, n, STACK)); LW("c", C, n); MKCLS("mod=%s,a=%s,b=%s", mod.nm, a.nm, b.nm); LE_(CLS, "none");
					if (mod_is_odd(&mod))
					{
						set_fill(C, n, 0x5A);
						LB("zz", "zzDivMod", "def"); jInt("n", n); LW("dv", A, n); LW("a", B_, n); LW("mod", mod.v, n);
						g_sig = b.nm; CALL(zzDivMod(C, A, B_, mod.v, n, STACK)); g_sig = ""; LW("c", C, n); MKCLS("mod=%s,dv=%s,a=%s", mod.nm, a.nm, b.nm); LE_(CLS, "none");
					}
				}
			}
		}
	}
}

/* ------------------------------------------------------------------ zz: powers */
static void fam_zz_pow(void)
{
	static const size_t NM[][2] = { {1,1},{1,2},{2,1},{2,2},{3,1} };
	static const int PMC[] = { M_CRP, M_ODDHI, M_ODDLO, M_EVENHI, M_HIBIT, M_THREE, M_TWO, M_MERS };
	static const int PR[] = { R_ZERO, R_ONE, R_TWO, R_M1, R_RAND };
	size_t t, i, j, k; num mod, a, e;
	for (t = 0; t < (THOROUGH ? COUNT_OF(NM) : 3u); ++t)
	{
		size_t n = NM[t][0], m = NM[t][1];
		for (k = 0; k < COUNT_OF(PMC); ++k)
		{
			if (!mkmod(&mod, n, PMC[k])) continue;
			for (i = 0; i < COUNT_OF(PR); ++i)
			{
				static const int ES[] = { S_ZERO, S_ONE, S_TWO, S_MAX, S_HIBIT, S_RAND };
				mkres(&a, &mod, PR[i]);
				for (j = 0; j < COUNT_OF(ES); ++j)
				{
					if (m == 1) { static const int E1[] = { 0, 1, 2, 4, 7, 8 }; mkshape(&e, 1, E1[j]); } else mkshape(&e, m, ES[j]);
					if (!THOROUGH && m > 1 && (i + j) % 2) continue;
					set_fill(C, n, 0x5A);
					LB("zz", "zzPowerMod", "def"); jInt("n", n); jInt("m", m); LW("a", a.v, n); LW("b", e.v, m); LW("mod", mod.v, n);
					CALL(zzPowerMod(C, a.v, n, e.v, m, mod.v, STACK)); LW("c", C, n);
					MKCLS("mod=%s,a=%s,e=%s", mod.nm, a.nm, e.nm); LE_(CLS, "none");
				}
			}
		}
	}
	/* word-sized: a^b mod m over the alphabet */
	for (i = 0; i < 9; ++i) for (j = 0; j < 9; ++j) for (k = 2; k < 9; ++k)
	{
		word aw = alpha((int)i), bw = alpha((int)j), mw = alpha((int)k), r;
		if (!THOROUGH && (i + j + k) % 3) continue;
		if (mw < 2) continue;            /* moduli > 1 */
		CALL(r = zzPowerModW(aw, bw, mw, STACK));
		LB("zz", "zzPowerModW", "def"); LWord("a", aw); LWord("b", bw); LWord("mod", mw); LWord("ret", r);
		MKCLS("a=%s,b=%s,mod=%s", AN[i], AN[j], AN[k]); LE_(CLS, "none");
	}
}

/* ------------------------------------------------------------------ zz: reductions of [2n]a modulo [n]mod */
enum { RD_RED, RD_CRAND, RD_BARR, RD_MONT, RD_CRANDMONT, NRD };
static const char* RDN[NRD] = { "zzRed", "zzRedCrand", "zzRedBarr", "zzRedMont", "zzRedCrandMont" };
static word BARR[NW];
/* ed: 0 def (zzRed only), 1 safe, 2 fast */
static void call_red(int rd, int ed, word* a, const num* mod, word mont)
{
	size_t n = mod->n;
	switch (rd)
	{
	case RD_RED: CALL(zzRed(a, mod->v, n, STACK)); break;
	case RD_CRAND: if (ed == 1) CALL(SAFE(zzRedCrand)(a, mod->v, n, STACK)); else CALL(FAST(zzRedCrand)(a, mod->v, n, STACK)); break;
	case RD_BARR: if (ed == 1) CALL(SAFE(zzRedBarr)(a, mod->v, n, BARR, STACK)); else CALL(FAST(zzRedBarr)(a, mod->v, n, BARR, STACK)); break;
	case RD_MONT: if (ed == 1) CALL(SAFE(zzRedMont)(a, mod->v, n, mont, STACK)); else CALL(FAST(zzRedMont)(a, mod->v, n, mont, STACK)); break;
	case RD_CRANDMONT: if (ed == 1) CALL(SAFE(zzRedCrandMont)(a, mod->v, n, mont, STACK)); else CALL(FAST(zzRedCrandMont)(a, mod->v, n, mont, STACK)); break;
	}
}
static void log_red(int rd, const word* a2n, const num* mod, word mont, const char* cls)
{
	size_t n = mod->n; int ed;
	for (ed = (rd == RD_RED ? 0 : 1); ed <= (rd == RD_RED ? 0 : 2); ++ed)
	{
		wwCopy(A, a2n, 2 * n);
		LB("zz", RDN[rd], ed == 0 ? "def" : ed == 1 ? "safe" : "fast"); jInt("n", n); LW("a", A, 2 * n); LW("mod", mod->v, n);
		call_red(rd, ed, A, mod, mont);
		LW("c", A, n); LE_(cls, "none");
	}
}
static const char* ktopclass(const num* k)
{
	size_t n = k->n, i;
	if (n == 0) return "k-empty";
	if (k->v[n - 1] == 0) { for (i = 0; i < n; ++i) if (k->v[i]) return "k-short"; return "k-zero"; }
	return (k->v[n - 1] & 1) ? "k-top-odd" : "k-top-even";
}
static void fam_zz_red(void)
{
	static const size_t LQ[] = { 1, 2, 3, 4 }, LT[] = { 1, 2, 3, 4, 5, 6, 8, 9, 10, 16, 21 };
	size_t t, cnt = THOROUGH ? COUNT_OF(LT) : COUNT_OF(LQ), g; int mc, rd, s, rk; num mod, k, x;
	word a2[2 * NW + 2];
	for (t = 0; t < cnt; ++t)
	{
		size_t n = THOROUGH ? LT[t] : LQ[t];
		size_t kgrid = n <= (THOROUGH ? 3u : 2u);
		for (mc = 0; mc < NMC; ++mc)
		{
			word mont = 0; char c2[256];
			if (!mkmod(&mod, n, mc)) continue;
			if (n == 1 && mod.v[0] < 2) continue;
			if (mod_is_odd(&mod)) mont = wordNegInv(mod.v[0]);
			/* Barrett parameter (and its own value) */
			set_fill(BARR, n + 2, 0x5A);
			LB("zz", "zzRedBarrStart", "def"); jInt("n", n); LW("mod", mod.v, n);
			CALL(zzRedBarrStart(BARR, mod.v, n, STACK)); LW("c", BARR, n + 2); MKCLS("mod=%s", mod.nm); LE_(CLS, "none");
			for (rd = 0; rd < NRD; ++rd)
			{
				int mont_like = rd == RD_MONT || rd == RD_CRANDMONT;
				if ((rd == RD_CRAND || rd == RD_CRANDMONT) && !(mod_is_crand(mc) && n >= 2)) continue;
				if (mont_like && !mod_is_odd(&mod)) continue;
				/* plain shapes of the 2n-word input (a < mod * R for the Montgomery reductions) */
				for (s = 0; s < NSH; ++s)
				{
					mkshape(&x, 2 * n, s);
					if (mont_like && wwCmp(x.v + n, mod.v, n) >= 0) continue;
					MKCLS("mod=%s,a=%s", mod.nm, x.nm); strcpy(c2, CLS);
					log_red(rd, x.v, &mod, mont, c2);
				}
				/* a = mod*R - 1: the largest admissible input of the Montgomery reductions */
				if (mont_like)
				{
					memset(a2, 0, sizeof(a2)); wwCopy(a2 + n, mod.v, n); CALL(zzSubW2(a2, 2 * n, 1));
					MKCLS("mod=%s,a=mod*R-1", mod.nm); strcpy(c2, CLS); log_red(rd, a2, &mod, mont, c2);
				}
				/* multiples of the modulus: a = k*mod + r, k drawn word by word from the alphabet, r in {0, 1, mod-1} */
				{
					size_t G = kgrid ? ngrid(n) : nshapes(n);
					for (g = 0; g < G; ++g)
					{
						if (kgrid) mkgrid(&k, n, g); else mkshape(&k, n, (int)g);
						for (rk = 0; rk < 3; ++rk)
						{
							if (rk && kgrid && n > 1 && !THOROUGH && g % 7) continue;
							CALL(zzMul(a2, k.v, n, mod.v, n, STACK));
							if (rk == 1) { if (zzAddW2(a2, 2 * n, 1)) continue; }
							else if (rk == 2) { word tm[NW]; wwCopy(tm, mod.v, n); CALL(zzSubW2(tm, n, 1)); if (zzAdd3(a2, a2, 2 * n, tm, n)) continue; }
							MKCLS("mod=%s,a=k*mod%s,%s,k=%s", mod.nm, rk == 0 ? "" : rk == 1 ? "+1" : "+mod-1", ktopclass(&k), k.nm); strcpy(c2, CLS);
							log_red(rd, a2, &mod, mont, c2);
						}
					}
				}
			}
		}
	}
}

/*@MORE@*/
/* ------------------------------------------------------------------ ww */
#define WL(fam_op, ed_) LB("ww", fam_op, ed_)
static void ww_cmp_all(const num* a, const num* b, const char* cls)
{
	size_t n = a->n; int r;
	WL("wwEq", "safe"); jInt("n", n); LW("a", a->v, n); LW("b", b->v, n); CALL(r = SAFE(wwEq)(a->v, b->v, n)); jInt("ret", r); LE_(cls, "none");
	WL("wwEq", "fast"); jInt("n", n); LW("a", a->v, n); LW("b", b->v, n); CALL(r = FAST(wwEq)(a->v, b->v, n)); jInt("ret", r); LE_(cls, "none");
	WL("wwCmp", "safe"); jInt("n", n); LW("a", a->v, n); LW("b", b->v, n); CALL(r = SAFE(wwCmp)(a->v, b->v, n)); jInt("ret", r); LE_(cls, "none");
	WL("wwCmp", "fast"); jInt("n", n); LW("a", a->v, n); LW("b", b->v, n); CALL(r = FAST(wwCmp)(a->v, b->v, n)); jInt("ret", r); LE_(cls, "none");
}
static void fam_ww(void)
{
	size_t li, i, j, n, P; int k; num a, b;
	for (li = 0; li < nlens(); ++li)
	{
		n = lens(li); P = nshapes(n);
		if (n > 8 && n != 21) continue;
		for (i = 0; i < P; ++i)
		{
			int r; size_t sz;
			mkshape(&a, n, (int)i);
			MKCLS("a=%s", a.nm);
			set_fill(C, n, 0x5A);
			WL("wwCopy", "def"); jInt("n", n); LW("a", a.v, n); CALL(wwCopy(C, a.v, n)); LW("c", C, n); LE_(CLS, "none");
			WL("wwSetZero", "def"); jInt("n", n); wwCopy(C, a.v, n); CALL(wwSetZero(C, n)); LW("c", C, n); LE_(CLS, "none");
			WL("wwIsZero", "safe"); jInt("n", n); LW("a", a.v, n); CALL(r = SAFE(wwIsZero)(a.v, n)); jInt("ret", r); LE_(CLS, "none");
			WL("wwIsZero", "fast"); jInt("n", n); LW("a", a.v, n); CALL(r = FAST(wwIsZero)(a.v, n)); jInt("ret", r); LE_(CLS, "none");
			WL("wwWordSize", "def"); jInt("n", n); LW("a", a.v, n); CALL(sz = wwWordSize(a.v, n)); jInt("ret", (long long)sz); LE_(CLS, "none");
			WL("wwOctetSize", "def"); jInt("n", n); LW("a", a.v, n); CALL(sz = wwOctetSize(a.v, n)); jInt("ret", (long long)sz); LE_(CLS, "none");
			WL("wwBitSize", "def"); jInt("n", n); LW("a", a.v, n); CALL(sz = wwBitSize(a.v, n)); jInt("ret", (long long)sz); LE_(CLS, "none");
			WL("wwLoZeroBits", "def"); jInt("n", n); LW("a", a.v, n); CALL(sz = wwLoZeroBits(a.v, n)); jInt("ret", (long long)sz); LE_(CLS, "none");
			WL("wwHiZeroBits", "def"); jInt("n", n); LW("a", a.v, n); CALL(sz = wwHiZeroBits(a.v, n)); jInt("ret", (long long)sz); LE_(CLS, "none");
			/* single-bit words: sizes at every word boundary */
			if (i == 0 && n)
			{
				size_t pos;
				for (pos = 0; pos < n * B_PER_W; pos += (pos % B_PER_W == B_PER_W - 2 || pos % B_PER_W == B_PER_W - 1 || pos % B_PER_W == 0) ? 1 : (B_PER_W / 2 - 1))
				{
					char c2[64]; snprintf(c2, sizeof(c2), "a=bit%u", (unsigned)pos);
					memset(A, 0, sizeof(word) * n); wwSetBit(A, pos, 1);
					WL("wwBitSize", "def"); jInt("n", n); LW("a", A, n); CALL(sz = wwBitSize(A, n)); jInt("ret", (long long)sz); LE_(c2, "none");
					WL("wwOctetSize", "def"); jInt("n", n); LW("a", A, n); CALL(sz = wwOctetSize(A, n)); jInt("ret", (long long)sz); LE_(c2, "none");
					WL("wwWordSize", "def"); jInt("n", n); LW("a", A, n); CALL(sz = wwWordSize(A, n)); jInt("ret", (long long)sz); LE_(c2, "none");
					WL("wwLoZeroBits", "def"); jInt("n", n); LW("a", A, n); CALL(sz = wwLoZeroBits(A, n)); jInt("ret", (long long)sz); LE_(c2, "none");
					WL("wwHiZeroBits", "def"); jInt("n", n); LW("a", A, n); CALL(sz = wwHiZeroBits(A, n)); jInt("ret", (long long)sz); LE_(c2, "none");
				}
			}
			/* with a machine word */
			for (k = 0; k < 9; ++k)
			{
				word w = alpha(k); char c2[96];
				snprintf(c2, sizeof(c2), "a=%s,w=%s", a.nm, AN[k]);
				WL("wwCmpW", "safe"); jInt("n", n); LW("a", a.v, n); LWord("w", w); CALL(r = SAFE(wwCmpW)(a.v, n, w)); jInt("ret", r); LE_(c2, "none");
				WL("wwCmpW", "fast"); jInt("n", n); LW("a", a.v, n); LWord("w", w); CALL(r = FAST(wwCmpW)(a.v, n, w)); jInt("ret", r); LE_(c2, "none");
				WL("wwIsW", "safe"); jInt("n", n); LW("a", a.v, n); LWord("w", w); CALL(r = SAFE(wwIsW)(a.v, n, w)); jInt("ret", r); LE_(c2, "none");
				WL("wwIsW", "fast"); jInt("n", n); LW("a", a.v, n); LWord("w", w); CALL(r = FAST(wwIsW)(a.v, n, w)); jInt("ret", r); LE_(c2, "none");
				WL("wwIsRepW", "safe"); jInt("n", n); LW("a", a.v, n); LWord("w", w); CALL(r = SAFE(wwIsRepW)(a.v, n, w)); jInt("ret", r); LE_(c2, "none");
				WL("wwIsRepW", "fast"); jInt("n", n); LW("a", a.v, n); LWord("w", w); CALL(r = FAST(wwIsRepW)(a.v, n, w)); jInt("ret", r); LE_(c2, "none");
				if (i == 0 && (n > 0 || w == 0))
				{
					snprintf(c2, sizeof(c2), "w=%s", AN[k]);
					set_fill(C, n, 0x5A); WL("wwSetW", "def"); jInt("n", n); LWord("w", w); CALL(wwSetW(C, n, w)); LW("c", C, n); LE_(c2, "none");
					wwCopy(A, C, n);
					WL("wwIsW", "safe"); jInt("n", n); LW("a", A, n); LWord("w", w); CALL(r = SAFE(wwIsW)(A, n, w)); jInt("ret", r); LE_(c2, "a=setw");
					WL("wwIsW", "fast"); jInt("n", n); LW("a", A, n); LWord("w", w); CALL(r = FAST(wwIsW)(A, n, w)); jInt("ret", r); LE_(c2, "a=setw");
					WL("wwCmpW", "safe"); jInt("n", n); LW("a", A, n); LWord("w", w); CALL(r = SAFE(wwCmpW)(A, n, w)); jInt("ret", r); LE_(c2, "a=setw");
					WL("wwCmpW", "fast"); jInt("n", n); LW("a", A, n); LWord("w", w); CALL(r = FAST(wwCmpW)(A, n, w)); jInt("ret", r); LE_(c2, "a=setw");
					set_fill(C, n, 0x5A); WL("wwRepW", "def"); jInt("n", n); LWord("w", w); CALL(wwRepW(C, n, w)); LW("c", C, n); LE_(c2, "none");
					wwCopy(A, C, n);
					WL("wwIsRepW", "safe"); jInt("n", n); LW("a", A, n); LWord("w", w); CALL(r = SAFE(wwIsRepW)(A, n, w)); jInt("ret", r); LE_(c2, "a=repw");
					WL("wwIsRepW", "fast"); jInt("n", n); LW("a", A, n); LWord("w", w); CALL(r = FAST(wwIsRepW)(A, n, w)); jInt("ret", r); LE_(c2, "a=repw");
					if (n) { A[n - 1] ^= 1;
					WL("wwIsRepW", "safe"); jInt("n", n); LW("a", A, n); LWord("w", w); CALL(r = SAFE(wwIsRepW)(A, n, w)); jInt("ret", r); LE_(c2, "a=repw-flip-top");
					WL("wwIsRepW", "fast"); jInt("n", n); LW("a", A, n); LWord("w", w); CALL(r = FAST(wwIsRepW)(A, n, w)); jInt("ret", r); LE_(c2, "a=repw-flip-top"); }
				}
			}
			/* shifts, trims, bits */
			if (n)
			{
				static const size_t SHB[] = { 0, 1, 7, 8, 15, 16, 17, 31, 32, 33, 63, 64, 65, 127, 128, 129 };
				size_t t;
				for (t = 0; t < COUNT_OF(SHB) + 3; ++t)
				{
					size_t sh = t < COUNT_OF(SHB) ? SHB[t] : t == COUNT_OF(SHB) ? n * B_PER_W - 1 : t == COUNT_OF(SHB) + 1 ? n * B_PER_W : n * B_PER_W + 3;
					char c2[96]; word cw = alpha((int)((t + i) % 9)), rw;
					if (!THOROUGH && (t + i) % 2 && sh != 1 && sh != B_PER_W) continue;
					snprintf(c2, sizeof(c2), "a=%s,shift=%u%s", a.nm, (unsigned)sh, sh >= n * B_PER_W ? ">=len" : "");
					wwCopy(A, a.v, n); WL("wwShLo", "def"); jInt("n", n); LW("a", A, n); jInt("shift", (long long)sh); CALL(wwShLo(A, n, sh)); LW("c", A, n); LE_(c2, "none");
					wwCopy(A, a.v, n); WL("wwShHi", "def"); jInt("n", n); LW("a", A, n); jInt("shift", (long long)sh); CALL(wwShHi(A, n, sh)); LW("c", A, n); LE_(c2, "none");
					wwCopy(A, a.v, n); WL("wwTrimLo", "def"); jInt("n", n); LW("a", A, n); jInt("pos", (long long)sh); CALL(wwTrimLo(A, n, sh)); LW("c", A, n); LE_(c2, "none");
					wwCopy(A, a.v, n); WL("wwTrimHi", "def"); jInt("n", n); LW("a", A, n); jInt("pos", (long long)sh); CALL(wwTrimHi(A, n, sh)); LW("c", A, n); LE_(c2, "none");
					if (sh <= B_PER_W)        /* one carry word can fill at most B_PER_W freed positions */
					{
						snprintf(c2, sizeof(c2), "a=%s,shift=%u,carry=%s", a.nm, (unsigned)sh, AN[(t + i) % 9]);
						wwCopy(A, a.v, n); WL("wwShLoCarry", "def"); jInt("n", n); LW("a", A, n); jInt("shift", (long long)sh); LWord("w", cw);
						CALL(rw = wwShLoCarry(A, n, sh, cw)); LW("c", A, n); LWord("ret", rw); LE_(c2, "none");
						wwCopy(A, a.v, n); WL("wwShHiCarry", "def"); jInt("n", n); LW("a", A, n); jInt("shift", (long long)sh); LWord("w", cw);
						CALL(rw = wwShHiCarry(A, n, sh, cw)); LW("c", A, n); LWord("ret", rw); LE_(c2, "none");
					}
					if (sh < n * B_PER_W)
					{
						size_t wd;
						snprintf(c2, sizeof(c2), "a=%s,pos=%u", a.nm, (unsigned)sh);
						WL("wwTestBit", "def"); jInt("n", n); LW("a", a.v, n); jInt("pos", (long long)sh); CALL(r = wwTestBit(a.v, sh)); jInt("ret", r); LE_(c2, "none");
						wwCopy(A, a.v, n); WL("wwSetBit", "def"); jInt("n", n); LW("a", A, n); jInt("pos", (long long)sh); jInt("val", (int)(t % 2)); CALL(wwSetBit(A, sh, (bool_t)(t % 2))); LW("c", A, n); LE_(c2, "none");
						wwCopy(A, a.v, n); WL("wwFlipBit", "def"); jInt("n", n); LW("a", A, n); jInt("pos", (long long)sh); CALL(wwFlipBit(A, sh)); LW("c", A, n); LE_(c2, "none");
						for (wd = 0; wd <= B_PER_W; wd += (wd < 2 || wd >= B_PER_W - 1) ? 1 : (B_PER_W / 2 - 1))
						{
							word v = alpha((int)((wd + t) % 9));
							if (sh + wd > n * B_PER_W) break;
							snprintf(c2, sizeof(c2), "a=%s,pos=%u,width=%u", a.nm, (unsigned)sh, (unsigned)wd);
							WL("wwGetBits", "def"); jInt("n", n); LW("a", a.v, n); jInt("pos", (long long)sh); jInt("width", (long long)wd); CALL(rw = wwGetBits(a.v, sh, wd)); LWord("ret", rw); LE_(c2, "none");
							wwCopy(A, a.v, n); WL("wwSetBits", "def"); jInt("n", n); LW("a", A, n); jInt("pos", (long long)sh); jInt("width", (long long)wd); LWord("w", v);
							CALL(wwSetBits(A, sh, wd, v)); LW("c", A, n); LE_(c2, "none");
						}
					}
				}
			}
			/* binary */
			for (j = 0; j < P; ++j)
			{
				char c2[128];
				if (!pairsel(i, j, P)) continue;
				mkshape(&b, n, (int)j);
				snprintf(c2, sizeof(c2), "a=%s,b=%s", a.nm, b.nm);
				ww_cmp_all(&a, &b, c2);
				wwCopy(A, a.v, n); wwCopy(B_, b.v, n); set_fill(C, n, 0x5A);
				WL("wwXor", "def"); jInt("n", n); LW("a", A, n); LW("b", B_, n); CALL(wwXor(C, A, B_, n)); LW("c", C, n); LE_(c2, "none");
				WL("wwXor", "def"); jInt("n", n); LW("a", A, n); LW("b", B_, n); CALL(wwXor(A, A, B_, n)); LW("c", A, n); LE_(c2, "c=a");
				wwCopy(A, a.v, n);
				WL("wwXor2", "def"); jInt("n", n); LW("a", A, n); LW("b", B_, n); CALL(wwXor2(B_, A, n)); LW("c", B_, n); LE_(c2, "none");
				wwCopy(B_, b.v, n);
				WL("wwSwap", "def"); jInt("n", n); LW("a", A, n); LW("b", B_, n); CALL(wwSwap(A, B_, n)); LW("c", A, n); LW("d", B_, n); LE_(c2, "none");
				/* equal except for one word: first difference at every position (C14 part 1) */
				if (i == j && n)
				{
					size_t pos;
					for (pos = 0; pos < n; ++pos)
					{
						num b2 = a;
						b2.v[pos] ^= (pos % 2) ? BHALF : 1;
						snprintf(c2, sizeof(c2), "a=%s,b=a^word%u", a.nm, (unsigned)pos);
						ww_cmp_all(&a, &b2, c2); ww_cmp_all(&b2, &a, c2);
					}
					snprintf(c2, sizeof(c2), "a=%s,b=a", a.nm);
					{ int r2; WL("wwEq", "safe"); jInt("n", n); LW("a", a.v, n); LW("b", a.v, n); CALL(r2 = SAFE(wwEq)(a.v, a.v, n)); jInt("ret", r2); LE_(c2, "a=b");
					  WL("wwCmp", "fast"); jInt("n", n); LW("a", a.v, n); LW("b", a.v, n); CALL(r2 = FAST(wwCmp)(a.v, a.v, n)); jInt("ret", r2); LE_(c2, "a=b"); }
				}
			}
		}
	}
	/* wwCmp2: different lengths */
	{
		static const size_t NM[][2] = { {0,0},{0,1},{1,0},{1,2},{2,1},{1,3},{3,1},{2,3},{3,2},{0,3},{4,2},{2,6} };
		for (li = 0; li < COUNT_OF(NM); ++li)
		{
			size_t m; n = NM[li][0]; m = NM[li][1];
			for (i = 0; i < nshapes(n); ++i) for (j = 0; j < nshapes(m); ++j)
			{
				int r; char c2[128];
				if (!pairsel(i, j, 12)) continue;
				mkshape(&a, n, (int)i); mkshape(&b, m, (int)j);
				/* make the common part equal on the diagonal so that the extra words decide */
				if (i == j) wwCopy(n < m ? b.v : a.v, n < m ? a.v : b.v, n < m ? n : m);
				snprintf(c2, sizeof(c2), "a=%s,b=%s%s", a.nm, b.nm, i == j ? ",common-equal" : "");
				WL("wwCmp2", "safe"); jInt("n", n); jInt("m", m); LW("a", a.v, n); LW("b", b.v, m); CALL(r = SAFE(wwCmp2)(a.v, n, b.v, m)); jInt("ret", r); LE_(c2, "none");
				WL("wwCmp2", "fast"); jInt("n", n); jInt("m", m); LW("a", a.v, n); LW("b", b.v, m); CALL(r = FAST(wwCmp2)(a.v, n, b.v, m)); jInt("ret", r); LE_(c2, "none");
			}
		}
	}
}

/* ------------------------------------------------------------------ pp: polynomials over GF(2) */
#define PL(op_) LB("pp", op_, "def")
static void pp_mul_line(const num* a, const num* b)
{
	size_t n = a->n, m = b->n;
	set_fill(C, n + m, 0x5A);
	PL("ppMul"); jInt("n", n); jInt("m", m); LW("a", a->v, n); LW("b", b->v, m);
	CALL(ppMul(C, a->v, n, b->v, m, STACK));
	LW("c", C, n + m); MKCLS("a=%s,b=%s", a->nm, b->nm); LE_(CLS, "none");
}
static void pp_div_lines(const num* a, const num* b, const char* cls)
{
	size_t n = a->n, m = b->n;
	if (n >= m)
	{
		set_fill(C, n - m + 1, 0x5A); set_fill(D, n, 0x5A);
		PL("ppDiv"); jInt("n", n); jInt("m", m); LW("a", a->v, n); LW("b", b->v, m);
		CALL(ppDiv(C, D, a->v, n, b->v, m, STACK));
		LW("q", C, n - m + 1); LW("r", D, m); LE_(cls, "none");
		wwCopy(A, a->v, n); set_fill(C, n - m + 1, 0x5A);
		PL("ppDiv"); jInt("n", n); jInt("m", m); LW("a", A, n); LW("b", b->v, m);
		CALL(ppDiv(C, A, A, n, b->v, m, STACK));
		LW("q", C, n - m + 1); LW("r", A, m); LE_(cls, "r=a");
	}
	set_fill(D, m > n ? m : n, 0x5A);
	PL("ppMod"); jInt("n", n); jInt("m", m); LW("a", a->v, n); LW("b", b->v, m);
	CALL(ppMod(D, a->v, n, b->v, m, STACK));
	LW("r", D, m); LE_(cls, "none");
}
/* moduli of GF(2)[x] of n words: top word non-zero */
enum { PM_X, PM_TOPBIT1, PM_MAX, PM_RANDHI, PM_RANDLO, PM_TOPONE1, PM_IRRED, NPM };
static const char* PMN[NPM] = { "x^k", "x^k+1", "all-ones", "rand-hi-odd", "rand-lo-odd", "X^(n-1)+1", "irreducible" };
/* irreducible polynomials x^m + x^k3 + x^k2 + x^k1 + 1 (or trinomials, k2 = k1 = 0) of degree m */
static const unsigned IRR[][4] = { {7,1,0,0},{15,1,0,0},{17,3,0,0},{31,3,0,0},{33,10,0,0},{63,1,0,0},{64,4,3,1},{65,18,0,0},{127,1,0,0},{128,7,2,1},
	{129,5,0,0},{163,7,6,3},{191,9,0,0},{193,15,0,0},{233,74,0,0},{255,52,0,0},{257,12,0,0},{283,12,7,5},{409,87,0,0},{571,10,5,2},
	/* more pentanomials (irreducible: checked with ppIsIrred): every order of m mod B_PER_W against the middle exponents */
	{131,8,3,2},{139,8,5,3},{197,9,4,2},{200,5,3,2},
	/* thorough tier only (IRR_QUICK entries above) */
	{136,8,3,2},{138,8,7,1},{141,10,4,1},{149,10,9,7},{158,8,6,5},{164,10,8,7},{165,9,8,3},{195,8,3,2},{203,8,7,1},{205,9,5,2},{96,10,9,6},
	{107,9,7,4},{115,8,7,5},{125,7,6,5},{256,10,5,2},{320,4,3,1},{384,12,3,2},{448,11,6,4},{512,8,5,2} };
#define IRR_QUICK 24
static int mkpmod(num* o, size_t n, int c)
{
	size_t i;
	memset(o->v, 0, sizeof(o->v)); o->n = n; strcpy(o->nm, PMN[c]);
	if (n == 0) return 0;
	switch (c)
	{
	case PM_X: o->v[n - 1] = BHALF; return 1;
	case PM_TOPBIT1: o->v[n - 1] = BHALF; o->v[0] |= 1; return 1;
	case PM_MAX: set_fill(o->v, n, BMAX); return 1;
	case PM_RANDHI: vxRandBuf(o->v, n * O_PER_W); o->v[n - 1] |= BHALF; o->v[0] |= 1; return 1;
	case PM_RANDLO: vxRandBuf(o->v, n * O_PER_W); o->v[n - 1] &= 0xFF; o->v[n - 1] |= 2; o->v[0] |= 1; return 1;
	case PM_TOPONE1: if (n < 2) return 0; o->v[n - 1] = 1; o->v[0] = 1; return 1;
	case PM_IRRED:
		for (i = 0; i < COUNT_OF(IRR); ++i)
			if (IRR[i][0] / B_PER_W + 1 == n)
			{
				wwSetBit(o->v, IRR[i][0], 1); wwSetBit(o->v, IRR[i][1], 1); o->v[0] |= 1;
				if (IRR[i][2]) wwSetBit(o->v, IRR[i][2], 1), wwSetBit(o->v, IRR[i][3], 1);
				snprintf(o->nm, sizeof(o->nm), "irreducible-deg%u", IRR[i][0]);
				return 1;
			}
		return 0;
	}
	return 0;
}
/* element of degree < deg(mod) */
enum { PR_ZERO, PR_ONE, PR_X, PR_MAXDEG, PR_ALL, PR_RAND, PR_RAND2, NPR };
static const char* PRN[NPR] = { "0", "1", "x", "x^(d-1)", "all-below-d", "rand", "rand2" };
static void mkpres(num* o, const num* mod, int r)
{
	size_t n = mod->n, d = ppDeg(mod->v, n);
	memset(o->v, 0, sizeof(o->v)); o->n = n; strcpy(o->nm, PRN[r]);
	switch (r)
	{
	case PR_ZERO: break;
	case PR_ONE: o->v[0] = 1; break;
	case PR_X: o->v[0] = 2; break;
	case PR_MAXDEG: if (d) wwSetBit(o->v, d - 1, 1); break;
	case PR_ALL: set_fill(o->v, n, BMAX); break;
	default: vxRandBuf(o->v, n * O_PER_W); break;
	}
	wwTrimHi(o->v, n, d);
}
static void fam_pp(void)
{
	/* unrolled kernels 1..9 words, Karatsuba from 10 (even / odd splits), unequal lengths */
	static const size_t NMQ[][2] = { {0,0},{0,2},{1,0},{1,1},{1,2},{2,1},{2,2},{3,3},{4,4},{5,5},{6,6},{7,7},{8,8},{9,9},{9,10},{10,10},{11,10},{11,11},{19,19},{20,20},{21,21},{21,20},{3,8},{1,12} };
	static const size_t NMT[][2] = { {0,0},{0,2},{1,0},{1,1},{1,2},{2,1},{2,2},{3,3},{4,4},{5,5},{6,6},{7,7},{8,8},{9,9},{9,10},{10,9},{10,10},{11,10},{10,11},{11,11},
		{12,12},{13,13},{14,14},{15,15},{16,16},{17,17},{18,18},{19,19},{20,20},{21,21},{21,20},{20,21},{3,8},{1,12},{12,1},{10,21},{22,22},{23,23},{24,24},{32,32},{40,40} };
	static const int MS[] = { S_ZERO, S_ONE, S_MAX, S_HIBIT, S_ALT, S_RAND, S_RANDLO };
	size_t t, i, j, cnt = THOROUGH ? COUNT_OF(NMT) : COUNT_OF(NMQ); int k, pc; num a, b, mod;
	for (t = 0; t < cnt; ++t)
	{
		size_t n = THOROUGH ? NMT[t][0] : NMQ[t][0], m = THOROUGH ? NMT[t][1] : NMQ[t][1];
		size_t Pn = n <= 1 ? nshapes(n) : COUNT_OF(MS), Pm = m <= 1 ? nshapes(m) : COUNT_OF(MS);
		for (i = 0; i < Pn; ++i) for (j = 0; j < Pm; ++j)
		{
			if (!THOROUGH && n >= 9 && !(i == j || i + 1 == Pn || j + 1 == Pm || (i == 2 && j == 2))) continue;
			mkshape(&a, n, n <= 1 ? (int)i : MS[i]); mkshape(&b, m, m <= 1 ? (int)j : MS[j]);
			pp_mul_line(&a, &b);
		}
	}
	/* degree, squares, products with a word */
	for (t = 0; t < nlens(); ++t)
	{
		size_t n = lens(t), P = nshapes(n);
		for (i = 0; i < P; ++i)
		{
			size_t d;
			mkshape(&a, n, (int)i); MKCLS("a=%s", a.nm);
			PL("ppDeg"); jInt("n", n); LW("a", a.v, n); CALL(d = ppDeg(a.v, n)); jInt("ret", d == SIZE_MAX ? -1 : (long long)d); LE_(CLS, "none");
			set_fill(C, 2 * n, 0x5A);
			PL("ppSqr"); jInt("n", n); LW("a", a.v, n); CALL(ppSqr(C, a.v, n, STACK)); LW("c", C, 2 * n); LE_(CLS, "none");
			for (k = 0; k < 9; ++k)
			{
				word w = alpha(k), r; char c2[96];
				snprintf(c2, sizeof(c2), "a=%s,w=%s", a.nm, AN[k]);
				wwCopy(A, a.v, n); set_fill(C, n, 0x5A);
				PL("ppMulW"); jInt("n", n); LW("a", A, n); LWord("w", w); CALL(r = ppMulW(C, A, n, w, STACK)); LW("c", C, n); LWord("ret", r); LE_(c2, "none");
				if (k % 2) { PL("ppMulW"); jInt("n", n); LW("a", A, n); LWord("w", w); CALL(r = ppMulW(A, A, n, w, STACK)); LW("c", A, n); LWord("ret", r); LE_(c2, "b=a"); }
				wwCopy(A, a.v, n); mkshape(&b, n, (int)((i + k) % P)); wwCopy(B_, b.v, n);
				snprintf(c2, sizeof(c2), "a=%s,b=%s,w=%s", a.nm, b.nm, AN[k]);
				PL("ppAddMulW"); jInt("n", n); LW("a", A, n); LW("b", B_, n); LWord("w", w); CALL(r = ppAddMulW(B_, A, n, w, STACK)); LW("c", B_, n); LWord("ret", r); LE_(c2, "none");
			}
		}
	}
	/* division / remainder / gcd */
	{
		static const size_t DQ[][2] = { {1,1},{2,1},{3,1},{2,2},{3,2},{4,2},{3,3},{6,3},{5,4},{1,2},{0,1} };
		static const size_t DT[][2] = { {1,1},{2,1},{3,1},{2,2},{3,2},{4,2},{3,3},{6,3},{5,4},{1,2},{0,1},{8,4},{12,6},{21,11},{21,21},{42,21},{20,10},{2,5} };
		size_t dcnt = THOROUGH ? COUNT_OF(DT) : COUNT_OF(DQ);
		for (t = 0; t < dcnt; ++t)
		{
			size_t n = THOROUGH ? DT[t][0] : DQ[t][0], m = THOROUGH ? DT[t][1] : DQ[t][1];
			for (pc = 0; pc < NPM; ++pc)
			{
				if (!mkpmod(&b, m, pc)) continue;
				for (i = 0; i < (n <= 1 ? nshapes(n) : COUNT_OF(MS)); ++i)
				{
					char c2[128];
					mkshape(&a, n, n <= 1 ? (int)i : MS[i]);
					snprintf(c2, sizeof(c2), "a=%s,b=%s", a.nm, b.nm);
					pp_div_lines(&a, &b, c2);
					if (n == 0 || wwIsZero(a.v, n)) continue;          /* gcd: a != 0 && b != 0 */
					{
						size_t mn = n < m ? n : m;
						set_fill(C, mn, 0x5A);
						PL("ppGCD"); jInt("n", n); jInt("m", m); LW("a", a.v, n); LW("b", b.v, m); CALL(ppGCD(C, a.v, n, b.v, m, STACK)); LW("c", C, mn); LE_(c2, "none");
						set_fill(C, mn, 0x5A); set_fill(D, m, 0x5A); set_fill(E, n, 0x5A);
						PL("ppExGCD"); jInt("n", n); jInt("m", m); LW("a", a.v, n); LW("b", b.v, m);
						CALL(ppExGCD(C, D, E, a.v, n, b.v, m, STACK)); LW("d", C, mn); LW("da", D, m); LW("db", E, n); LE_(c2, "none");
					}
				}
				/* exact multiples a = q * b and a = q * b + (b - 1 shape) */
				if (n >= m)
				{
					size_t nq = n - m;
					for (i = 0; i < (nq <= 1 ? nshapes(nq) : COUNT_OF(MS)); ++i)
					{
						num q; char c2[128]; word prod[2 * NW];
						mkshape(&q, nq, nq <= 1 ? (int)i : MS[i]);
						memset(prod, 0, sizeof(prod));
						ppMul(prod, q.v, nq, b.v, m, STACK);
						wwCopy(a.v, prod, n); a.n = n;
						snprintf(c2, sizeof(c2), "a=q*b,q=%s,b=%s", q.nm, b.nm);
						pp_div_lines(&a, &b, c2);
						if (!wwIsZero(a.v, n))
						{
							set_fill(C, m, 0x5A);
							PL("ppGCD"); jInt("n", n); jInt("m", m); LW("a", a.v, n); LW("b", b.v, m); CALL(ppGCD(C, a.v, n, b.v, m, STACK)); LW("c", C, m); LE_(c2, "none");
							set_fill(C, m, 0x5A); set_fill(D, m, 0x5A); set_fill(E, n, 0x5A);
							PL("ppExGCD"); jInt("n", n); jInt("m", m); LW("a", a.v, n); LW("b", b.v, m);
							CALL(ppExGCD(C, D, E, a.v, n, b.v, m, STACK)); LW("d", C, m); LW("da", D, m); LW("db", E, n); LE_(c2, "none");
						}
					}
				}
			}
		}
	}
	/* modular arithmetic and reductions */
	{
		static const size_t LQ[] = { 1, 2, 3, 4 }, LT[] = { 1, 2, 3, 4, 5, 6, 9, 10, 11, 21 };
		size_t lcnt = THOROUGH ? COUNT_OF(LT) : COUNT_OF(LQ);
		for (t = 0; t < lcnt; ++t)
		{
			size_t n = THOROUGH ? LT[t] : LQ[t];
			for (pc = 0; pc < NPM; ++pc)
			{
				if (!mkpmod(&mod, n, pc)) continue;
				if (ppDeg(mod.v, n) < 1) continue;
				/* reduction of [2n]a */
				for (i = 0; i < COUNT_OF(MS); ++i)
				{
					mkshape(&a, 2 * n, MS[i]);
					wwCopy(A, a.v, 2 * n);
					PL("ppRed"); jInt("n", n); LW("a", A, 2 * n); LW("mod", mod.v, n); CALL(ppRed(A, mod.v, n, STACK)); LW("c", A, n);
					MKCLS("mod=%s,a=%s", mod.nm, a.nm); LE_(CLS, "none");
				}
				for (i = 0; i < NPR; ++i)
				{
					mkpres(&a, &mod, (int)i);
					wwCopy(A, a.v, n); set_fill(C, n, 0x5A);
					PL("ppSqrMod"); jInt("n", n); LW("a", A, n); LW("mod", mod.v, n); CALL(ppSqrMod(C, A, mod.v, n, STACK)); LW("c", C, n);
					MKCLS("mod=%s,a=%s", mod.nm, a.nm); LE_(CLS, "none");
					if (mod.v[0] & 1)
					{
						set_fill(C, n, 0x5A);
						PL("ppInvMod"); jInt("n", n); LW("a", A, n); LW("mod", mod.v, n); g_sig = a.nm; CALL(ppInvMod(C, A, mod.v, n, STACK)); g_sig = ""; LW("c", C, n);
						MKCLS("mod=%s,a=%s", mod.nm, a.nm); LE_(CLS, "none");
					}
					for (j = 0; j < NPR; ++j)
					{
						if (!THOROUGH && !(i == j || j == (i + 1) % NPR || j <= PR_ONE || i <= PR_ONE)) continue;
						mkpres(&b, &mod, (int)j);
						wwCopy(B_, b.v, n); set_fill(C, n, 0x5A);
						PL("ppMulMod"); jInt("n", n); LW("a", A, n); LW("b", B_, n); LW("mod", mod.v, n); CALL(ppMulMod(C, A, B_, mod.v, n, STACK)); LW("c", C, n);
						MKCLS("mod=%s,a=%s,b=%s", mod.nm, a.nm, b.nm); LE_(CLS, "none");
						if (mod.v[0] & 1)
						{
							set_fill(C, n, 0x5A);
							PL("ppDivMod"); jInt("n", n); LW("dv", A, n); LW("a", B_, n); LW("mod", mod.v, n); g_sig = b.nm; CALL(ppDivMod(C, A, B_, mod.v, n, STACK)); g_sig = ""; LW("c", C, n);
							MKCLS("mod=%s,dv=%s,a=%s", mod.nm, a.nm, b.nm); LE_(CLS, "none");
						}
					}
				}
			}
		}
	}
	/* special reductions: trinomials / pentanomials of the table that satisfy the preconditions, the belt polynomial */
	for (t = 0; t < COUNT_OF(IRR); ++t)
	{
		size_t m = IRR[t][0], k3 = IRR[t][1], n = W_OF_B(m);
		if (!THOROUGH && t >= IRR_QUICK) continue;
		for (i = 0; i < COUNT_OF(MS); ++i)
		{
			mkshape(&a, 2 * n, MS[i]);
			/* the input of a field reduction is a product of two elements: degree <= 2(m-1) */
			wwTrimHi(a.v, 2 * n, 2 * m - 1);
			if (IRR[t][2] == 0 && m % 8 != 0 && k3 > 0 && m - k3 >= B_PER_W)
			{
				pp_trinom_st p; p.m = m; p.k = k3;
				wwCopy(A, a.v, 2 * n);
				PL("ppRedTrinomial"); jInt("n", n); LW("a", A, 2 * n); jInt("m", m); jInt("k", k3); CALL(ppRedTrinomial(A, &p)); LW("c", A, n);
				MKCLS("m=%u,k=%u,a=%s", (unsigned)m, (unsigned)k3, a.nm); LE_(CLS, "none");
			}
			if (IRR[t][2] != 0 && m - k3 >= B_PER_W && k3 < B_PER_W)
			{
				pp_pentanom_st p; p.m = m; p.k = k3; p.l = IRR[t][2]; p.l1 = IRR[t][3];
				wwCopy(A, a.v, 2 * n);
				PL("ppRedPentanomial"); jInt("n", n); LW("a", A, 2 * n); jInt("m", m); jInt("k", k3); jInt("l", p.l); jInt("l1", p.l1);
				CALL(ppRedPentanomial(A, &p)); LW("c", A, n);
				MKCLS("m=%u,k=%u,a=%s", (unsigned)m, (unsigned)k3, a.nm); LE_(CLS, "none");
			}
		}
	}
	for (i = 0; i < NSH; ++i)
	{
		size_t n = W_OF_B(128);
		mkshape(&a, 2 * n, (int)i);
		wwCopy(A, a.v, 2 * n);
		PL("ppRedBelt"); jInt("n", n); LW("a", A, 2 * n); CALL(ppRedBelt(A)); LW("c", A, n); MKCLS("a=%s", a.nm); LE_(CLS, "none");
	}
	/* irreducibility: table polynomials (irreducible), their neighbours and products (reducible), small complete range */
	for (t = 0; t < COUNT_OF(IRR); ++t)
	{
		size_t m = IRR[t][0], n = W_OF_B(m + 1); bool_t r; int var;
		if (!THOROUGH && (m > 200 || t >= 20)) continue;
		for (var = 0; var < 4; ++var)
		{
			memset(A, 0, sizeof(A));
			wwSetBit(A, m, 1); wwSetBit(A, IRR[t][1], 1); A[0] |= 1;
			if (IRR[t][2]) wwSetBit(A, IRR[t][2], 1), wwSetBit(A, IRR[t][3], 1);
			if (var == 1) wwFlipBit(A, m / 2 + 1);                    /* even weight: divisible by x + 1 */
			else if (var == 2) A[0] ^= 1;                               /* no constant term: divisible by x */
			else if (var == 3) { if (2 * m + 1 > 21 * B_PER_W) continue; ppSqr(B_, A, n, STACK); wwCopy(A, B_, 2 * n); n = W_OF_B(2 * m + 1); }   /* a square */
			PL("ppIsIrred"); jInt("n", n); LW("a", A, n); CALL(r = ppIsIrred(A, n, STACK)); jInt("ret", r);
			MKCLS("deg=%u,%s", (unsigned)(var == 3 ? 2 * m : m), var == 0 ? "irreducible" : var == 1 ? "even-weight" : var == 2 ? "no-constant-term" : "square"); LE_(CLS, "none");
		}
	}
	for (k = 2; k < (THOROUGH ? 1024 : 256); ++k)
	{
		word w = (word)k; bool_t r;
		PL("ppIsIrred"); jInt("n", 1); LW("a", &w, 1); CALL(r = ppIsIrred(&w, 1, STACK)); jInt("ret", r); LE_("small-complete", "none");
	}
	/* minimal polynomial of a linear recurrent sequence of 2l bits generated by a polynomial of degree <= l */
	{
		static const size_t LS[] = { 1, 2, 3, 7, 8, 15, 16, 17, 31, 32, 33, 63, 64, 65, 100, 128 };
		for (t = 0; t < COUNT_OF(LS); ++t)
		{
			size_t l = LS[t], d, var;
			for (var = 0; var < 5; ++var)
			{
				word ch[NW], st[NW]; size_t pos, nb = W_OF_B(2 * l), no = W_OF_B(l + 1);
				d = var == 0 ? 0 : var == 1 ? 1 : var == 2 ? l : var == 3 ? (l + 1) / 2 : l - (l > 1);
				/* characteristic polynomial of degree d (seeded), initial state (seeded, non-zero for d > 0) */
				memset(ch, 0, sizeof(ch)); memset(st, 0, sizeof(st));
				vxRandBuf(ch, W_OF_B(d + 1) * O_PER_W); wwTrimHi(ch, W_OF_B(d + 1), d); wwSetBit(ch, d, 1);
				if (var == 1) ch[0] = 3;                                /* x + 1: the all-ones sequence */
				/* sequence s_0 .. s_{2l-1}; s_j is stored in bit 2l-1-j */
				memset(A, 0, sizeof(A));
				for (pos = 0; pos < 2 * l; ++pos)
				{
					bool_t bit;
					if (pos < d) bit = var == 1 ? 1 : (bool_t)(vxRand64() & 1);
					else { size_t i2; bit = 0; for (i2 = 0; i2 < d; ++i2) if (wwTestBit(ch, i2)) bit ^= wwTestBit(A, 2 * l - 1 - (pos - d + i2)); }
					wwSetBit(A, 2 * l - 1 - pos, bit);
				}
				set_fill(C, no, 0x5A);
				PL("ppMinPoly"); jInt("l", l); LW("a", A, nb); CALL(ppMinPoly(C, A, l, STACK)); LW("c", C, no);
				MKCLS("l=%u,gen-degree=%s", (unsigned)l, var == 0 ? "0" : var == 1 ? "1(ones)" : var == 2 ? "l" : var == 3 ? "l/2" : "l-1"); LE_(CLS, "none");
			}
		}
	}
}

/* ------------------------------------------------------------------ word / u16 / u32 / u64 helpers */
static void w1_begin(const char* famw, const char* fn, const char* ed, const void* w, size_t bits)
{
	LB("word", "word1", ed); jStr("famw", famw); jStr("fn", fn); jInt("bits", (long long)bits); jLimbs16("w", w, bits / 8);
}
#define W1_INT(T, PFX, BITS, FN, ED, CALLEE) do { T x_ = (T)v; long long r_ = 0; w1_begin(PFX, FN, ED, &x_, BITS); CALL(r_ = (long long)CALLEE(x_)); jInt("ret", r_); LE_(cls, "none"); } while (0)
#define W1_W(T, PFX, BITS, FN, CALLEE) do { T x_ = (T)v, r_ = 0; w1_begin(PFX, FN, "def", &x_, BITS); CALL(r_ = CALLEE(x_)); jLimbs16("ret", &r_, BITS / 8); LE_(cls, "none"); } while (0)
#define WROT(T, PFX, BITS, FN, MAC) do { T x_ = (T)v, r_; LB("word", "wordRot", "def"); jStr("famw", PFX); jStr("fn", FN); jInt("bits", BITS); jLimbs16("w", &x_, BITS / 8); jInt("d", (long long)d); \
	r_ = MAC(x_, d); jLimbs16("ret", &r_, BITS / 8); LE_(cls, "none"); } while (0)
static void word_value(u64 v, const char* cls)
{
	size_t d;
	W1_W(u32, "u32", 32, "Rev", u32Rev); W1_W(u32, "u32", 32, "Bitrev", u32Bitrev); W1_W(u32, "u32", 32, "Shuffle", u32Shuffle); W1_W(u32, "u32", 32, "Deshuffle", u32Deshuffle);
	W1_INT(u32, "u32", 32, "Weight", "def", u32Weight); W1_INT(u32, "u32", 32, "Parity", "def", u32Parity);
	W1_INT(u32, "u32", 32, "CTZ", "safe", SAFE(u32CTZ)); W1_INT(u32, "u32", 32, "CTZ", "fast", FAST(u32CTZ));
	W1_INT(u32, "u32", 32, "CLZ", "safe", SAFE(u32CLZ)); W1_INT(u32, "u32", 32, "CLZ", "fast", FAST(u32CLZ));
	if (v & 1) W1_W(u32, "u32", 32, "NegInv", u32NegInv);
	W1_W(u64, "u64", 64, "Rev", u64Rev); W1_W(u64, "u64", 64, "Rev_", u64Rev_); W1_W(u64, "u64", 64, "Bitrev", u64Bitrev); W1_W(u64, "u64", 64, "Shuffle", u64Shuffle); W1_W(u64, "u64", 64, "Deshuffle", u64Deshuffle);
	W1_INT(u64, "u64", 64, "Weight", "def", u64Weight); W1_INT(u64, "u64", 64, "Parity", "def", u64Parity);
	W1_INT(u64, "u64", 64, "CTZ", "safe", SAFE(u64CTZ)); W1_INT(u64, "u64", 64, "CTZ", "fast", FAST(u64CTZ));
	W1_INT(u64, "u64", 64, "CLZ", "safe", SAFE(u64CLZ)); W1_INT(u64, "u64", 64, "CLZ", "fast", FAST(u64CLZ));
	if (v & 1) W1_W(u64, "u64", 64, "NegInv", u64NegInv);
	/* the machine word aliases (word.h) */
	W1_W(word, "word", B_PER_W, "Rev", wordRev); W1_W(word, "word", B_PER_W, "Bitrev", wordBitrev);
	W1_W(word, "word", B_PER_W, "Shuffle", wordShuffle); W1_W(word, "word", B_PER_W, "Deshuffle", wordDeshuffle);
	W1_INT(word, "word", B_PER_W, "Weight", "def", wordWeight); W1_INT(word, "word", B_PER_W, "Parity", "def", wordParity);
	W1_INT(word, "word", B_PER_W, "CTZ", "safe", SAFE(wordCTZ)); W1_INT(word, "word", B_PER_W, "CTZ", "fast", FAST(wordCTZ));
	W1_INT(word, "word", B_PER_W, "CLZ", "safe", SAFE(wordCLZ)); W1_INT(word, "word", B_PER_W, "CLZ", "fast", FAST(wordCLZ));
	if (v & 1) W1_W(word, "word", B_PER_W, "NegInv", wordNegInv);
	for (d = 1; d < 64; d += (d < 2 || d == 15 || d == 16 || d == 31 || d == 32 || d >= 62) ? 1 : (d < 15 ? 13 : d < 31 ? 14 : 15))
	{
		if (d < 32) { WROT(u32, "u32", 32, "RotHi", u32RotHi); WROT(u32, "u32", 32, "RotLo", u32RotLo); }
		WROT(u64, "u64", 64, "RotHi", u64RotHi); WROT(u64, "u64", 64, "RotLo", u64RotLo);
		if (d < B_PER_W) { WROT(word, "word", B_PER_W, "RotHi", wordRotHi); WROT(word, "word", B_PER_W, "RotLo", wordRotLo); }
	}
}
/* comparison macros of word.h: 6 relations x 3 result kinds (int truth value, WORD_0 / WORD_1, WORD_0 / WORD_MAX) on all pairs
   of the boundary alphabet (0, 1, 2, h-1, h, h+1, B-2, B-1, seeded); "expr" = the arguments are expressions (x ^ z with
   z = 0): the macro has to parenthesise its parameters */
static void wcmp_emit(const char* rel, const char* kind, const char* fn, word a, word b, int isint, long long ri, word rw,
	const char* cls, const char* alias)
{
	LB("word", "wordCmp", "def"); jStr("famw", "word"); jStr("fn", fn); jStr("rel", rel); jStr("kind", kind); jInt("bits", B_PER_W);
	LWord("a", a); LWord("b", b);
	if (isint) jInt("ret", ri); else LWord("ret", rw);
	LE_(cls, alias);
}
#define WCMP3(REL, X, Y, cls, alias) do { \
	wcmp_emit(#REL, "int", #REL, a, b, 1, (long long)(word##REL(X, Y)), 0, cls, alias); \
	wcmp_emit(#REL, "01", #REL "01", a, b, 0, 0, word##REL##01(X, Y), cls, alias); \
	wcmp_emit(#REL, "0M", #REL "0M", a, b, 0, 0, word##REL##0M(X, Y), cls, alias); } while (0)
#define WCMP18(X, Y, cls, alias) do { WCMP3(Eq, X, Y, cls, alias); WCMP3(Neq, X, Y, cls, alias); WCMP3(Less, X, Y, cls, alias); \
	WCMP3(Leq, X, Y, cls, alias); WCMP3(Greater, X, Y, cls, alias); WCMP3(Geq, X, Y, cls, alias); } while (0)
static void fam_word_cmp(void)
{
	int i, j; volatile word z = 0; char cls[64];
	for (i = 0; i < 9; ++i) for (j = 0; j < 9; ++j)
	{
		word a = alpha(i), b = alpha(j);
		snprintf(cls, sizeof(cls), "(a,b)=(%s,%s)", AN[i], AN[j]);
		WCMP18(a, b, cls, "none");
		if ((i + j) % 4 == 0) WCMP18(a ^ z, b ^ z, cls, "expr");
		if (i == 8 && j == 8) { b = a; WCMP18(a, b, "(a,b)=(s,same)", "none"); b = a + 1; WCMP18(a, b, "(a,b)=(s,s+1)", "none"); b = a - 1; WCMP18(a, b, "(a,b)=(s,s-1)", "none"); }
	}
}
#define U16BLK(FN, ED, EXPR) do { for (base = 0; base < 65536; base += 256) { long long out[256]; int i_; \
	for (i_ = 0; i_ < 256; ++i_) { u16 x = (u16)(base + i_); out[i_] = (long long)(EXPR); } \
	LB("word", "u16blk", ED); jStr("fn", FN); jInt("base", base); jInt("d", d); jIntArr("out", out, 256); LE_("complete", "none"); } } while (0)
static void fam_word(void)
{
	int k, i; long base; long d = 0;
	/* all 65536 16-bit words through every u16 helper */
	U16BLK("Rev", "def", u16Rev(x)); U16BLK("Bitrev", "def", u16Bitrev(x)); U16BLK("Weight", "def", u16Weight(x)); U16BLK("Parity", "def", u16Parity(x));
	U16BLK("CTZ", "safe", SAFE(u16CTZ)(x)); U16BLK("CTZ", "fast", FAST(u16CTZ)(x)); U16BLK("CLZ", "safe", SAFE(u16CLZ)(x)); U16BLK("CLZ", "fast", FAST(u16CLZ)(x));
	U16BLK("Shuffle", "def", u16Shuffle(x)); U16BLK("Deshuffle", "def", u16Deshuffle(x));
	U16BLK("NegInv", "def", (x & 1) ? u16NegInv(x) : 0);
	for (d = 1; d < 16; d += (THOROUGH ? 1 : 7)) { U16BLK("RotHi", "def", u16RotHi(x, d)); U16BLK("RotLo", "def", u16RotLo(x, d)); }
	/* wider words: boundary alphabets of both widths, walking one / walking zero, seeded */
	{
		static const u64 BV[] = { 0, 1, 2, 3, 0x7FFF, 0x8000, 0xFFFF, 0x10000, 0x7FFFFFFFull, 0x80000000ull, 0x80000001ull, 0xFFFFFFFEull, 0xFFFFFFFFull, 0x100000000ull,
			0x7FFFFFFFFFFFFFFFull, 0x8000000000000000ull, 0x8000000000000001ull, 0xFFFFFFFFFFFFFFFEull, 0xFFFFFFFFFFFFFFFFull, 0xAAAAAAAAAAAAAAAAull, 0x5555555555555555ull,
			0x00FF00FF00FF00FFull, 0x0123456789ABCDEFull, 0xFFFFFFFF00000000ull };
		char cls[64];
		for (k = 0; k < (int)COUNT_OF(BV); ++k) { snprintf(cls, sizeof(cls), "boundary%d", k); word_value(BV[k], cls); }
		for (k = 0; k < 64; ++k) { snprintf(cls, sizeof(cls), "walking-one%d", k); word_value((u64)1 << k, cls); snprintf(cls, sizeof(cls), "walking-zero%d", k); word_value(~((u64)1 << k), cls); }
		for (k = 0; k < (THOROUGH ? 200 : 16); ++k) { word_value(vxRand64(), "seeded"); }
	}
	/* load / store / octet reversal of arrays */
	for (k = 0; k <= 25; ++k)
	{
		octet src[32], dst[40]; u16 a16[20]; u32 a32[10]; u64 a64[5];
		for (i = 0; i < 32; ++i) src[i] = (octet)(k % 3 == 0 ? 0x80 + i : k % 3 == 1 ? 0xFF : vxRand64());
#define FROMTO(T, ARR, BITS, FROM, TO, REV2) do { size_t cnt = ((size_t)k + BITS / 8 - 1) / (BITS / 8); \
		memset(ARR, 0x5A, sizeof(ARR)); LB("word", "wFrom", "def"); jInt("Wd", BITS); jOct("octs", src, (size_t)k); CALL(FROM(ARR, src, (size_t)k)); jLimbs16("out", ARR, cnt * (BITS / 8)); LE_("count", "none"); \
		memset(dst, 0x5A, sizeof(dst)); LB("word", "wTo", "def"); jInt("Wd", BITS); jInt("count", k); jLimbs16("a", ARR, cnt * (BITS / 8)); CALL(TO(dst, (size_t)k, ARR)); jOct("out", dst, (size_t)k); LE_("count", "none"); \
		LB("word", "wRev2", "def"); jInt("Wd", BITS); jLimbs16("a", ARR, cnt * (BITS / 8)); CALL(REV2(ARR, cnt)); jLimbs16("out", ARR, cnt * (BITS / 8)); LE_("count", "none"); } while (0)
		FROMTO(u16, a16, 16, u16From, u16To, u16Rev2);
		FROMTO(u32, a32, 32, u32From, u32To, u32Rev2);
		FROMTO(u64, a64, 64, u64From, u64To, u64Rev2);
		/* the machine-word aliases of ww.h: wwFrom, wwTo, wwRev2 */
		{ word aw[8]; FROMTO(word, aw, B_PER_W, wwFrom, wwTo, wwRev2); }
	}
	fam_word_cmp();
}

/* ------------------------------------------------------------------ qr: rings Z/(mod) built by zmCreate* */
typedef void (*f_zmcreate)(qr_o*, const octet*, size_t, void*);
static octet QRMEM[5][1 << 16];
static void qr_line_begin(const char* op, const char* ctor, const char* strat, const octet* mod, size_t no)
{
	LB("qr", op, "def"); jStr("ctor", ctor); jStr("strat", strat); jInt("no", (long long)no); jOct("mod", mod, no);
}
static void qr_ring(qr_o* r, const char* ctor, const char* strat, const num* mod, const octet* modo, size_t no)
{
	size_t n = r->n; int i, j; num a, b; octet ao[NW * 8], bo[NW * 8], co[NW * 8]; char c2[200];
	/* unity */
	qr_line_begin("qrUnity", ctor, strat, modo, no); CALL(qrTo(co, r->unity, r, STACK)); jOct("out", co, no); MKCLS("mod=%s", mod->nm); LE_(CLS, "none");
	/* qrFrom accepts canonical representatives only: mod - 1 yes, mod no, all-FF no (unless mod = all-FF + ...) */
	for (i = 0; i < 3; ++i)
	{
		bool_t ok;
		wwCopy(A, mod->v, n); if (i == 0) zzSubW2(A, n, 1); else if (i == 2) set_fill(A, n, BMAX);
		wwTo(ao, no, A);
		qr_line_begin("qrFrom", ctor, strat, modo, no); jOct("a", ao, no); CALL(ok = qrFrom(B_, ao, r, STACK)); jInt("ret", ok);
		MKCLS("mod=%s,a=%s", mod->nm, i == 0 ? "m-1" : i == 1 ? "m" : "FF"); LE_(CLS, "none");
	}
	for (i = 0; i < NRES; ++i)
	{
		mkres(&a, mod, i); wwTo(ao, no, a.v);
		if (!qrFrom(A, ao, r, STACK)) continue;
		snprintf(c2, sizeof(c2), "mod=%s,a=%s", mod->nm, a.nm);
		qr_line_begin("qrNeg", ctor, strat, modo, no); jOct("a", ao, no); CALL(qrNeg(C, A, r)); qrTo(co, C, r, STACK); jOct("out", co, no); LE_(c2, "none");
		qr_line_begin("qrSqr", ctor, strat, modo, no); jOct("a", ao, no); CALL(qrSqr(C, A, r, STACK)); qrTo(co, C, r, STACK); jOct("out", co, no); LE_(c2, "none");
		if (i != R_ZERO && mod_is_odd(mod))       /* zmInv / zmDiv are zzInvMod / zzDivMod: odd moduli only */
		{
			qr_line_begin("qrInv", ctor, strat, modo, no); jOct("a", ao, no); g_sig = a.nm; CALL(qrInv(C, A, r, STACK)); g_sig = ""; qrTo(co, C, r, STACK); jOct("out", co, no); LE_(c2, "none");
		}
		/* power with exponents 0, 1, 2, a 1-word and a 2-word value */
		for (j = 0; j < 5; ++j)
		{
			word e[2]; size_t m = j < 4 ? 1 : 2; char c3[240];
			e[0] = j == 0 ? 0 : j == 1 ? 1 : j == 2 ? 2 : rnd_word(); e[1] = j == 4 ? 5 : 0;
			if (!THOROUGH && n > 2 && j >= 3 && i % 2) continue;
			snprintf(c3, sizeof(c3), "%s,e=%s", c2, j == 0 ? "0" : j == 1 ? "1" : j == 2 ? "2" : j == 3 ? "rand1" : "rand2");
			qr_line_begin("qrPower", ctor, strat, modo, no); jOct("a", ao, no); LW("e", e, m); CALL(qrPower(C, A, e, m, r, STACK)); qrTo(co, C, r, STACK); jOct("out", co, no); LE_(c3, "none");
		}
		for (j = 0; j < NRES; ++j)
		{
			if (!THOROUGH && !(i <= R_ONE || j <= R_ONE || i == R_M1 || j == R_M1 || i == j || j == (i + 1) % NRES)) continue;
			mkres(&b, mod, j); wwTo(bo, no, b.v);
			if (!qrFrom(B_, bo, r, STACK)) continue;
			snprintf(c2, sizeof(c2), "mod=%s,a=%s,b=%s", mod->nm, a.nm, b.nm);
			qr_line_begin("qrAdd", ctor, strat, modo, no); jOct("a", ao, no); jOct("b", bo, no); CALL(qrAdd(C, A, B_, r)); qrTo(co, C, r, STACK); jOct("out", co, no); LE_(c2, "none");
			qr_line_begin("qrSub", ctor, strat, modo, no); jOct("a", ao, no); jOct("b", bo, no); CALL(qrSub(C, A, B_, r)); qrTo(co, C, r, STACK); jOct("out", co, no); LE_(c2, "none");
			qr_line_begin("qrMul", ctor, strat, modo, no); jOct("a", ao, no); jOct("b", bo, no); CALL(qrMul(C, A, B_, r, STACK)); qrTo(co, C, r, STACK); jOct("out", co, no); LE_(c2, "none");
			if (i != R_ZERO && mod_is_odd(mod))
			{
				/* b / a */
				qr_line_begin("qrDiv", ctor, strat, modo, no); jOct("a", ao, no); jOct("b", bo, no); g_sig = a.nm; CALL(qrDiv(C, B_, A, r, STACK)); g_sig = ""; qrTo(co, C, r, STACK); jOct("out", co, no); LE_(c2, "none");
			}
		}
	}
}
/* ------------------------------------------------------------------ alias macros of qr.h, zm.h, gfp.h
   zmAdd / zmSub / zmNeg / gfpDouble / gfpHalf / qrIsUnity / qrCmp / zmIsIn expand to the DEFAULT name of zzAddMod, zzSubMod,
   zzNegMod, zzDoubleMod, zzHalfMod, wwEq, wwCmp.  Every macro is expanded twice: with that name bound to the regular and to
   the fast edition of the callee (lines with ed = safe | fast, C14 part 1).  The macro text is the header's. */
#define ALIAS_WRAPPERS(SFX) \
static void al_add_##SFX(word* c, const word* a, const word* b, const qr_o* r) { zmAdd(c, a, b, r); } \
static void al_sub_##SFX(word* c, const word* a, const word* b, const qr_o* r) { zmSub(c, a, b, r); } \
static void al_neg_##SFX(word* b, const word* a, const qr_o* r) { zmNeg(b, a, r); } \
static void al_dbl_##SFX(word* b, const word* a, const qr_o* r) { gfpDouble(b, a, r); } \
static void al_half_##SFX(word* b, const word* a, const qr_o* r) { gfpHalf(b, a, r); } \
static bool_t al_isin_##SFX(const word* a, const qr_o* r) { return zmIsIn(a, r); } \
static bool_t al_isunity_##SFX(const word* a, const qr_o* r) { return qrIsUnity(a, r); } \
static int al_cmp_##SFX(const word* b, const word* a, const qr_o* r) { return qrCmp(b, a, r); }
#define zzAddMod SAFE(zzAddMod)
#define zzSubMod SAFE(zzSubMod)
#define zzNegMod SAFE(zzNegMod)
#define zzDoubleMod SAFE(zzDoubleMod)
#define zzHalfMod SAFE(zzHalfMod)
#define wwEq SAFE(wwEq)
#define wwCmp SAFE(wwCmp)
ALIAS_WRAPPERS(safe)
#undef zzAddMod
#undef zzSubMod
#undef zzNegMod
#undef zzDoubleMod
#undef zzHalfMod
#undef wwEq
#undef wwCmp
#define zzAddMod FAST(zzAddMod)
#define zzSubMod FAST(zzSubMod)
#define zzNegMod FAST(zzNegMod)
#define zzDoubleMod FAST(zzDoubleMod)
#define zzHalfMod FAST(zzHalfMod)
#define wwEq FAST(wwEq)
#define wwCmp FAST(wwCmp)
ALIAS_WRAPPERS(fast)
#undef zzAddMod
#undef zzSubMod
#undef zzNegMod
#undef zzDoubleMod
#undef zzHalfMod
#undef wwEq
#undef wwCmp
typedef struct {
	void (*add)(word*, const word*, const word*, const qr_o*); void (*sub)(word*, const word*, const word*, const qr_o*);
	void (*neg)(word*, const word*, const qr_o*); void (*dbl)(word*, const word*, const qr_o*); void (*half)(word*, const word*, const qr_o*);
	bool_t (*isin)(const word*, const qr_o*); bool_t (*isunity)(const word*, const qr_o*); int (*cmp)(const word*, const word*, const qr_o*);
} alias_tab;
static const alias_tab ALT[2] = {
	{ al_add_safe, al_sub_safe, al_neg_safe, al_dbl_safe, al_half_safe, al_isin_safe, al_isunity_safe, al_cmp_safe },
	{ al_add_fast, al_sub_fast, al_neg_fast, al_dbl_fast, al_half_fast, al_isin_fast, al_isunity_fast, al_cmp_fast } };
static const char* EDN[2] = { "safe", "fast" };
static void qr_begin_ed(const char* op, const char* ed, const char* ctor, const char* strat, const octet* mod, size_t no)
{
	LB("qr", op, ed); jStr("ctor", ctor); jStr("strat", strat); jInt("no", (long long)no); jOct("mod", mod, no);
}
/* gfp: the ring is a prime field built by gfpCreate (gfpDouble / gfpHalf are called as well) */
static void ring_alias(qr_o* r, const char* ctor, const char* strat, const num* mod, const octet* modo, size_t no, int gfp)
{
	size_t n = r->n; int i, j, ed; num a, b; octet ao[NW * 8], bo[NW * 8], co[NW * 8]; char c2[200]; bool_t ok; int sg;
	int known = strcmp(strat, "unknown") != 0;
	/* zmIsValid: the description as built, and with the top word of the modulus cleared (the third condition of zm.h) */
	for (i = 0; i < 2; ++i)
	{
		word top = r->mod[n - 1];
		if (i) r->mod[n - 1] = 0;
		ok = 0; qr_begin_ed("zmIsValid", "def", ctor, strat, modo, no); LW("top", r->mod + n - 1, 1); CALL(ok = zmIsValid(r)); jInt("ret", ok);
		r->mod[n - 1] = top;
		MKCLS("mod=%s,%s", mod->nm, i ? "top-word-cleared" : "as-built"); LE_(CLS, "none");
	}
	/* zmIsIn on raw arrays of n words around the modulus */
	for (i = 0; i < 8; ++i)
	{
		static const char* RW[8] = { "0", "1", "m-1", "m", "m+1", "FF", "rand", "m^1" };
		wwCopy(A, mod->v, n);
		switch (i)
		{
		case 0: wwSetZero(A, n); break; case 1: wwSetZero(A, n); A[0] = 1; break; case 2: zzSubW2(A, n, 1); break; case 3: break;
		case 4: if (zzAddW2(A, n, 1)) continue; break; case 5: set_fill(A, n, BMAX); break; case 6: vxRandBuf(A, n * O_PER_W); break;
		default: A[0] ^= 1; break;
		}
		for (ed = 0; ed < 2; ++ed)
		{
			ok = 0; qr_begin_ed("zmIsIn", EDN[ed], ctor, strat, modo, no); LW("aw", A, n); CALL(ok = ALT[ed].isin(A, r)); jInt("ret", ok);
			MKCLS("mod=%s,aw=%s", mod->nm, RW[i]); LE_(CLS, "none");
		}
	}
	for (i = 0; i < NRES; ++i)
	{
		mkres(&a, mod, i); wwTo(ao, no, a.v);
		if (!qrFrom(A, ao, r, STACK)) continue;
		snprintf(c2, sizeof(c2), "mod=%s,a=%s", mod->nm, a.nm);
		for (ed = 0; ed < 2; ++ed)
		{
			ok = 0; qr_begin_ed("qrIsUnity", EDN[ed], ctor, strat, modo, no); jOct("a", ao, no); CALL(ok = ALT[ed].isunity(A, r)); jInt("ret", ok); LE_(c2, "none");
			set_fill(C, n, 0x5A); if ((i + ed) % 2) wwCopy(C, A, n);
			qr_begin_ed("zmNeg", EDN[ed], ctor, strat, modo, no); jOct("a", ao, no);
			if ((i + ed) % 2) CALL(ALT[ed].neg(C, C, r)); else CALL(ALT[ed].neg(C, A, r));
			qrTo(co, C, r, STACK); jOct("out", co, no); LE_(c2, (i + ed) % 2 ? "b=a" : "none");
			if (gfp)
			{
				set_fill(C, n, 0x5A); if ((i + ed) % 2 == 0) wwCopy(C, A, n);
				qr_begin_ed("gfpDouble", EDN[ed], ctor, strat, modo, no); jOct("a", ao, no);
				if ((i + ed) % 2 == 0) CALL(ALT[ed].dbl(C, C, r)); else CALL(ALT[ed].dbl(C, A, r));
				qrTo(co, C, r, STACK); jOct("out", co, no); LE_(c2, (i + ed) % 2 == 0 ? "b=a" : "none");
				set_fill(C, n, 0x5A); if ((i + ed) % 2) wwCopy(C, A, n);
				qr_begin_ed("gfpHalf", EDN[ed], ctor, strat, modo, no); jOct("a", ao, no);
				if ((i + ed) % 2) CALL(ALT[ed].half(C, C, r)); else CALL(ALT[ed].half(C, A, r));
				qrTo(co, C, r, STACK); jOct("out", co, no); LE_(c2, (i + ed) % 2 ? "b=a" : "none");
			}
		}
		/* a + 1 (separate and in place), a - 1 (in place by definition of the macro) */
		set_fill(C, n, 0x5A);
		qr_begin_ed("qrAddUnity", "def", ctor, strat, modo, no); jOct("a", ao, no); CALL(qrAddUnity(C, A, r)); qrTo(co, C, r, STACK); jOct("out", co, no); LE_(c2, "none");
		set_fill(C, n, 0x5A); wwCopy(C, A, n);
		qr_begin_ed("qrAddUnity", "def", ctor, strat, modo, no); jOct("a", ao, no); CALL(qrAddUnity(C, C, r)); qrTo(co, C, r, STACK); jOct("out", co, no); LE_(c2, "b=a");
		set_fill(C, n, 0x5A); wwCopy(C, A, n);
		qr_begin_ed("qrSubUnity", "def", ctor, strat, modo, no); jOct("a", ao, no); CALL(qrSubUnity(C, r)); qrTo(co, C, r, STACK); jOct("out", co, no); LE_(c2, "in-place");
		for (j = 0; j < NRES; ++j)
		{
			int al = (i + j) % 3;
			if (!THOROUGH && !(i <= R_ONE || j <= R_ONE || i == R_M1 || j == R_M1 || i == j || j == (i + 1) % NRES)) continue;
			mkres(&b, mod, j); wwTo(bo, no, b.v);
			if (!qrFrom(B_, bo, r, STACK)) continue;
			snprintf(c2, sizeof(c2), "mod=%s,a=%s,b=%s", mod->nm, a.nm, b.nm);
			for (ed = 0; ed < 2; ++ed)
			{
				if (known)
				{
					sg = 2; qr_begin_ed("qrCmp", EDN[ed], ctor, strat, modo, no); jOct("a", ao, no); jOct("b", bo, no);
					CALL(sg = ALT[ed].cmp(A, B_, r)); jInt("ret", sg); LE_(c2, i == j ? "a=b" : "none");
				}
				/* c disjoint, c == a, c == b (qr_add_i: c either does not overlap or coincides with each of a, b) */
				set_fill(C, n, 0x5A); if (al == 1) wwCopy(C, A, n); else if (al == 2) wwCopy(C, B_, n);
				qr_begin_ed("zmAdd", EDN[ed], ctor, strat, modo, no); jOct("a", ao, no); jOct("b", bo, no);
				if (al == 1) CALL(ALT[ed].add(C, C, B_, r)); else if (al == 2) CALL(ALT[ed].add(C, A, C, r)); else CALL(ALT[ed].add(C, A, B_, r));
				qrTo(co, C, r, STACK); jOct("out", co, no); LE_(c2, al == 1 ? "c=a" : al == 2 ? "c=b" : "none");
				set_fill(C, n, 0x5A); if (al == 2) wwCopy(C, A, n); else if (al == 0) wwCopy(C, B_, n);
				qr_begin_ed("zmSub", EDN[ed], ctor, strat, modo, no); jOct("a", ao, no); jOct("b", bo, no);
				if (al == 2) CALL(ALT[ed].sub(C, C, B_, r)); else if (al == 0) CALL(ALT[ed].sub(C, A, C, r)); else CALL(ALT[ed].sub(C, A, B_, r));
				qrTo(co, C, r, STACK); jOct("out", co, no); LE_(c2, al == 2 ? "c=a" : al == 0 ? "c=b" : "none");
			}
		}
	}
}
/* what: 1 = the function table (qr_ring), 2 = the alias macros (ring_alias) */
static void fam_qr(int what)
{
	static const size_t LQ[] = { 1, 2, 3, 4 }, LT[] = { 1, 2, 3, 4, 5, 6, 8, 9 };
	static const char* SNM[4] = { "plain", "crand", "barr", "mont" };
	size_t t, cnt = THOROUGH ? COUNT_OF(LT) : COUNT_OF(LQ); int mc, k; num mod;
	for (t = 0; t < cnt; ++t)
	{
		size_t n = THOROUGH ? LT[t] : LQ[t];
		for (mc = 0; mc < NMC; ++mc)
		{
			octet modo[NW * 8]; size_t no; qr_o* rr[5]; int have[5]; const char* strat = "unknown";
			if (!mkmod(&mod, n, mc)) continue;
			if (n == 1 && mod.v[0] < 2) continue;
			no = wwOctetSize(mod.v, n);
			if (W_OF_O(no) != n) continue;
			wwTo(modo, no, mod.v);
			if (zmCreate_keep(no) > sizeof(QRMEM[0]) || zmCreate_deep(no) > sizeof(STACK)) continue;
			for (k = 0; k < 5; ++k) rr[k] = (qr_o*)QRMEM[k], have[k] = 0, memset(QRMEM[k], 0xA5, zmCreate_keep(no));	/* dirty memory */
			zmCreatePlain(rr[0], modo, no, STACK); have[0] = 1;
			if (mod_is_crand(mc) && n >= 2 && no == n * O_PER_W) zmCreateCrand(rr[1], modo, no, STACK), have[1] = 1;
			zmCreateBarr(rr[2], modo, no, STACK); have[2] = 1;
			if (mod_is_odd(&mod)) zmCreateMont(rr[3], modo, no, STACK), have[3] = 1;
			zmCreate(rr[4], modo, no, STACK); have[4] = 1;
			for (k = 0; k < 4; ++k) if (have[k] && rr[k]->mul == rr[4]->mul && rr[k]->from == rr[4]->from) { strat = SNM[k]; break; }
			if (what & 1) qr_ring(rr[4], "zmCreate", strat, &mod, modo, no);
			if (what & 2) ring_alias(rr[4], "zmCreate", strat, &mod, modo, no, 0);
			if (THOROUGH || n <= 2)
				for (k = 0; k < 4; ++k) if (have[k])
				{
					char cn[32]; snprintf(cn, sizeof(cn), "zmCreate%c%s", SNM[k][0] - 32, SNM[k] + 1);
					if (what & 1) qr_ring(rr[k], cn, SNM[k], &mod, modo, no);
					if ((what & 2) && (THOROUGH || n <= 1 || k == 3)) ring_alias(rr[k], cn, SNM[k], &mod, modo, no, 0);
				}
			/* prime moduli: the same ring as a field GF(p) built by gfpCreate */
			if ((what & 2) && (mc == M_CRP || mc == M_MERS || mc == M_THREE || mc == M_ODDHI || mc == M_ODDLO))
			{
				num pm = mod; bool_t ok = TRUE;
				if (mc == M_ODDHI || mc == M_ODDLO)
				{
					/* the least prime >= the seeded odd number, of the same bit length (the generator of the INPUT, not judged here) */
					ok = priNextPrime_deep(n, 64) <= sizeof(STACK) && priNextPrime(pm.v, mod.v, n, SIZE_MAX, 64, 24, STACK);
					snprintf(pm.nm, sizeof(pm.nm), "prime-%s", mc == M_ODDHI ? "hi" : "lo");
				}
				if (ok && wwOctetSize(pm.v, n) == no && gfpCreate_keep(no) <= sizeof(QRMEM[0]) && gfpCreate_deep(no) <= sizeof(STACK))
				{
					octet po[NW * 8]; qr_o* f = (qr_o*)QRMEM[0]; const char* fs = "unknown";
					wwTo(po, no, pm.v);
					if (gfpCreate(f, po, no, STACK))
					{
						/* the strategy gfpCreate selected: compare with the explicitly built rings of the same modulus */
						qr_o* t = (qr_o*)QRMEM[1];
						zmCreatePlain(t, po, no, STACK); if (t->mul == f->mul && t->from == f->from) fs = "plain";
						if (mod_is_crand(mc) && n >= 2 && no == n * O_PER_W) { zmCreateCrand(t, po, no, STACK); if (t->mul == f->mul && t->from == f->from) fs = "crand"; }
						zmCreateBarr(t, po, no, STACK); if (t->mul == f->mul && t->from == f->from) fs = "barr";
						zmCreateMont(t, po, no, STACK); if (t->mul == f->mul && t->from == f->from) fs = "mont";
						ring_alias(f, "gfpCreate", fs, &pm, po, no, 1);
					}
				}
			}
		}
	}
}

/* ------------------------------------------------------------------ zm: the "pure" Montgomery ring of zmMontCreate (R = 2^l, elements kept as they are):
   mul: a b R^-1, sqr: a^2 R^-1, inv: a^-1 R^2, div: dv a^-1 R, unity: R (all mod mod).  l ranges over bitlen(mod) .. B_OF_W(n):
   zm.h says "l need not be a multiple of B_PER_W" and the code requires mod < R <= B^n (the header's "B^n <= R" read with the inequality
   the implementation asserts and its only callers - l + 2 = B_OF_W(n) - satisfy) */
static void fam_zm_mont2(void)
{
	static const size_t LQ[] = { 1, 2, 3 }, LT[] = { 1, 2, 3, 4, 5, 6, 9 };
	size_t t, cnt = THOROUGH ? COUNT_OF(LT) : COUNT_OF(LQ); int mc, i, j, li; num mod, a, b;
	for (t = 0; t < cnt; ++t)
	{
		size_t n = THOROUGH ? LT[t] : LQ[t];
		for (mc = 0; mc < NMC; ++mc)
		{
			octet modo[NW * 8]; size_t no, bl, ls[4]; qr_o* r = (qr_o*)QRMEM[0];
			if (!mkmod(&mod, n, mc) || !mod_is_odd(&mod)) continue;
			if (n == 1 && mod.v[0] < 3) continue;
			no = wwOctetSize(mod.v, n);
			if (W_OF_O(no) != n) continue;
			wwTo(modo, no, mod.v);
			if (zmMontCreate_keep(no) > sizeof(QRMEM[0]) || zmMontCreate_deep(no) > sizeof(STACK)) continue;
			bl = wwBitSize(mod.v, n);
			ls[0] = B_OF_W(n); ls[1] = bl; ls[2] = bl + 1 <= B_OF_W(n) ? bl + 1 : bl; ls[3] = (bl + B_OF_W(n)) / 2;
			for (li = 0; li < 4; ++li)
			{
				size_t l = ls[li]; int dup = 0;
				for (i = 0; i < li; ++i) if (ls[i] == l) dup = 1;
				if (dup) continue;
				memset(r, 0xA5, zmMontCreate_keep(no));
				zmMontCreate(r, modo, no, l, STACK);
#define MB(op_) LB("zz", op_, "def"); jInt("n", n); jInt("l", (long long)l); LW("mod", mod.v, n)
				MB("mont2Unity"); LW("c", r->unity, n); MKCLS("mod=%s,l=%s", mod.nm, li == 0 ? "nW" : li == 1 ? "bits" : li == 2 ? "bits+1" : "mid"); LE_(CLS, "none");
				for (i = 0; i < NRES; ++i)
				{
					mkres(&a, &mod, i);
					wwCopy(A, a.v, n); set_fill(C, n, 0x5A);
					MB("mont2Sqr"); LW("a", A, n); CALL(qrSqr(C, A, r, STACK)); LW("c", C, n);
					MKCLS("mod=%s,l=%s,a=%s", mod.nm, li == 0 ? "nW" : li == 1 ? "bits" : li == 2 ? "bits+1" : "mid", a.nm); LE_(CLS, "none");
					if (zzIsCoprime(A, n, mod.v, n, STACK))
					{
						set_fill(C, n, 0x5A);
						MB("mont2Inv"); LW("a", A, n); g_sig = a.nm; CALL(qrInv(C, A, r, STACK)); g_sig = ""; LW("c", C, n);
						MKCLS("mod=%s,l=%s,a=%s", mod.nm, li == 0 ? "nW" : li == 1 ? "bits" : li == 2 ? "bits+1" : "mid", a.nm); LE_(CLS, "none");
					}
					for (j = 0; j < NRES; ++j)
					{
						if (!THOROUGH && !(i <= R_ONE || j <= R_ONE || i == R_M1 || j == R_M1 || i == j || j == (i + 1) % NRES)) continue;
						mkres(&b, &mod, j);
						wwCopy(A, a.v, n); wwCopy(B_, b.v, n); set_fill(C, n, 0x5A);
						MB("mont2Mul"); LW("a", A, n); LW("b", B_, n); CALL(qrMul(C, A, B_, r, STACK)); LW("c", C, n);
						MKCLS("mod=%s,l=%s,a=%s,b=%s", mod.nm, li == 0 ? "nW" : li == 1 ? "bits" : li == 2 ? "bits+1" : "mid", a.nm, b.nm); LE_(CLS, "none");
						if (zzIsCoprime(B_, n, mod.v, n, STACK))
						{
							set_fill(C, n, 0x5A);
							MB("mont2Div"); LW("dv", A, n); LW("a", B_, n); g_sig = b.nm; CALL(qrDiv(C, A, B_, r, STACK)); g_sig = ""; LW("c", C, n);
							MKCLS("mod=%s,l=%s,dv=%s,a=%s", mod.nm, li == 0 ? "nW" : li == 1 ? "bits" : li == 2 ? "bits+1" : "mid", a.nm, b.nm); LE_(CLS, "none");
						}
					}
				}
#undef MB
			}
		}
	}
}

/* ------------------------------------------------------------------ gf2: fields GF(2^m) built by gf2Create (trinomials / pentanomials) */
static void fam_gf2(void)
{
	size_t t; int i, j;
	for (t = 0; t < COUNT_OF(IRR); ++t)
	{
		size_t p[4]; qr_o* f = (qr_o*)QRMEM[0]; size_t m = IRR[t][0], n, no; num mod, a, b; octet ao[NW * 8], bo[NW * 8], co[NW * 8]; char c2[160];
		p[0] = m; p[1] = IRR[t][1]; p[2] = IRR[t][2]; p[3] = IRR[t][3];
		if (!THOROUGH && t >= IRR_QUICK) continue;
		/* preconditions of ppRedTrinomial / ppRedPentanomial */
		if (p[2] == 0 && !(m % 8 != 0 && p[1] > 0 && m - p[1] >= B_PER_W)) continue;
		if (p[2] != 0 && !(m - p[1] >= B_PER_W && p[1] < B_PER_W)) continue;
		if (gf2Create_keep(m) > sizeof(QRMEM[0]) || gf2Create_deep(m) > sizeof(STACK)) continue;
		memset(f, 0xA5, gf2Create_keep(m));		/* the description is built in memory that held other data */
		if (!gf2Create(f, p, STACK)) continue;
		n = f->n; no = f->no;
		memset(mod.v, 0, sizeof(mod.v)); mod.n = W_OF_B(m + 1); wwSetBit(mod.v, m, 1); wwSetBit(mod.v, p[1], 1); mod.v[0] |= 1;
		if (p[2]) wwSetBit(mod.v, p[2], 1), wwSetBit(mod.v, p[3], 1);
		snprintf(mod.nm, sizeof(mod.nm), "deg%u", (unsigned)m);
#define GB(op_) LB("gf2", op_, "def"); jInt("m", (long long)m); jInt("k", (long long)p[1]); jInt("l", (long long)p[2]); jInt("l1", (long long)p[3]); jInt("no", (long long)no)
		for (i = 0; i < NPR; ++i)
		{
			mkpres(&a, &mod, i); wwTo(ao, no, a.v);
			if (!qrFrom(A, ao, f, STACK)) continue;
			snprintf(c2, sizeof(c2), "field=%s,a=%s", mod.nm, a.nm);
			GB("qrSqr"); jOct("a", ao, no); CALL(qrSqr(C, A, f, STACK)); qrTo(co, C, f, STACK); jOct("out", co, no); LE_(c2, "none");
			if (i != PR_ZERO) { GB("qrInv"); jOct("a", ao, no); g_sig = a.nm; CALL(qrInv(C, A, f, STACK)); g_sig = ""; qrTo(co, C, f, STACK); jOct("out", co, no); LE_(c2, "none"); }
			for (j = 0; j < NPR; ++j)
			{
				mkpres(&b, &mod, j); wwTo(bo, no, b.v);
				if (!qrFrom(B_, bo, f, STACK)) continue;
				snprintf(c2, sizeof(c2), "field=%s,a=%s,b=%s", mod.nm, a.nm, b.nm);
				GB("qrAdd"); jOct("a", ao, no); jOct("b", bo, no); CALL(qrAdd(C, A, B_, f)); qrTo(co, C, f, STACK); jOct("out", co, no); LE_(c2, "none");
				GB("qrMul"); jOct("a", ao, no); jOct("b", bo, no); CALL(qrMul(C, A, B_, f, STACK)); qrTo(co, C, f, STACK); jOct("out", co, no); LE_(c2, "none");
				if (i != PR_ZERO) { GB("qrDiv"); jOct("a", ao, no); jOct("b", bo, no); g_sig = a.nm; CALL(qrDiv(C, B_, A, f, STACK)); g_sig = ""; qrTo(co, C, f, STACK); jOct("out", co, no); LE_(c2, "none"); }
			}
		}
		/* gf2.h: extension degree, membership of raw arrays of n words, additive alias macros */
		{
			size_t d = 0, ns = nshapes(n), pos;
			snprintf(c2, sizeof(c2), "field=%s", mod.nm);
			GB("gf2Deg"); CALL(d = gf2Deg(f)); jInt("ret", (long long)d); LE_(c2, "none");
			for (i = 0; i < (int)ns + 3; ++i)
			{
				bool_t in = 0;
				if (i < (int)ns) mkshape(&a, n, i);
				else
				{
					pos = i == (int)ns ? m - 1 : i == (int)ns + 1 ? m : n * B_PER_W - 1;
					if (pos >= n * B_PER_W) continue;
					memset(a.v, 0, sizeof(a.v)); a.n = n; wwSetBit(a.v, pos, 1);
					strcpy(a.nm, i == (int)ns ? "x^(m-1)" : i == (int)ns + 1 ? "x^m" : "x^(nW-1)");
				}
				GB("gf2IsIn"); LW("aw", a.v, n); CALL(in = gf2IsIn(a.v, f)); jInt("ret", in);
				snprintf(c2, sizeof(c2), "field=%s,aw=%s", mod.nm, a.nm); LE_(c2, "none");
			}
			for (i = 0; i < NPR; ++i)
			{
				mkpres(&a, &mod, i); wwTo(ao, no, a.v);
				if (!qrFrom(A, ao, f, STACK)) continue;
				snprintf(c2, sizeof(c2), "field=%s,a=%s", mod.nm, a.nm);
				set_fill(C, n, 0x5A);
				GB("gf2Neg"); jOct("a", ao, no); CALL(gf2Neg(C, A, f)); qrTo(co, C, f, STACK); jOct("out", co, no); LE_(c2, "none");
				set_fill(C, n, 0x5A); wwCopy(C, A, n);
				GB("gf2Neg"); jOct("a", ao, no); CALL(gf2Neg(C, C, f)); qrTo(co, C, f, STACK); jOct("out", co, no); LE_(c2, "b=a");
				for (j = 0; j < NPR; ++j)
				{
					int al = (i + j) % 3;
					mkpres(&b, &mod, j); wwTo(bo, no, b.v);
					if (!qrFrom(B_, bo, f, STACK)) continue;
					snprintf(c2, sizeof(c2), "field=%s,a=%s,b=%s", mod.nm, a.nm, b.nm);
					set_fill(C, n, 0x5A); if (al == 1) wwCopy(C, A, n); else if (al == 2) wwCopy(C, B_, n);
					GB("gf2Add"); jOct("a", ao, no); jOct("b", bo, no);
					if (al == 1) CALL(gf2Add(C, C, B_, f)); else if (al == 2) CALL(gf2Add(C, A, C, f)); else CALL(gf2Add(C, A, B_, f));
					qrTo(co, C, f, STACK); jOct("out", co, no); LE_(c2, al == 1 ? "c=a" : al == 2 ? "c=b" : "none");
					set_fill(C, n, 0x5A); if (al == 2) wwCopy(C, A, n); else if (al == 0) wwCopy(C, B_, n);
					GB("gf2Sub"); jOct("a", ao, no); jOct("b", bo, no);
					if (al == 2) CALL(gf2Sub(C, C, B_, f)); else if (al == 0) CALL(gf2Sub(C, A, C, f)); else CALL(gf2Sub(C, A, B_, f));
					qrTo(co, C, f, STACK); jOct("out", co, no); LE_(c2, al == 2 ? "c=a" : al == 0 ? "c=b" : "none");
					/* b <- b + a, b <- b - a */
					set_fill(C, n, 0x5A); wwCopy(C, B_, n);
					GB("gf2Add2"); jOct("a", ao, no); jOct("b", bo, no); CALL(gf2Add2(C, A, f)); qrTo(co, C, f, STACK); jOct("out", co, no); LE_(c2, "none");
					set_fill(C, n, 0x5A); wwCopy(C, B_, n);
					GB("gf2Sub2"); jOct("a", ao, no); jOct("b", bo, no); CALL(gf2Sub2(C, A, f)); qrTo(co, C, f, STACK); jOct("out", co, no); LE_(c2, "none");
				}
			}
		}
	}
}

/* ------------------------------------------------------------------ ww: window NAF (the recoding used by ecMulA) */
static void naf_line(const word* a, size_t n, size_t w, const char* cls)
{
	size_t l = 0;
	wwCopy(A, a, n); set_fill(C, 2 * n + 1, 0x5A);
	WL("wwNAF", "def"); jInt("n", n); jInt("w", (long long)w); LW("a", A, n);
	CALL(l = wwNAF(C, A, n, w));
	LW("naf", C, 2 * n + 1); jInt("ret", (long long)l); LE_(cls, "none");
}
static const char* posname(size_t pos, size_t n, size_t w, char* buf)
{
	size_t W = B_PER_W, top = n * W;
	if (pos == 0) return "0"; if (pos == 1) return "1";
	if (pos == top - 1) return "nW-1"; if (pos == top - 2) return "nW-2";
	if (pos == w - 1) return "w-1"; if (pos == w) return "w"; if (pos == W - 1) return "W-1"; if (pos == W) return "W";
	if (pos + w + 1 == top) return "nW-w-1"; if (pos + w == top) return "nW-w";
	sprintf(buf, "%u", (unsigned)pos); return buf;
}
static void fam_ww_naf(void)
{
	const size_t W = B_PER_W;
	size_t WQ[] = { 2, 3, 4, 5, 6, B_PER_W - 1 }, WT[B_PER_W - 2], nw, wi, n, w, i, t; num a; char c2[160], pb[24];
	for (i = 0; i < B_PER_W - 2; ++i) WT[i] = i + 2;           /* thorough: every admissible width 2 <= w < B_PER_W */
	nw = THOROUGH ? COUNT_OF(WT) : COUNT_OF(WQ);
	for (n = 0; n <= (THOROUGH ? 5u : 4u); ++n) for (wi = 0; wi < nw; ++wi)
	{
		w = THOROUGH ? WT[wi] : WQ[wi];
		for (i = 0; i < nshapes(n); ++i) { mkshape(&a, n, (int)i); snprintf(c2, sizeof(c2), "w=%u,a=%s", (unsigned)w, a.nm); naf_line(a.v, n, w, c2); }
		if (n == 0) continue;
		/* periodic patterns: runs of ones of length run separated by gap zeros (long carry chains of the recoding) */
		{
			size_t runs[6], gaps[2], ri, gi, pos, k;
			runs[0] = 1; runs[1] = 2; runs[2] = 3; runs[3] = w - 1; runs[4] = w; runs[5] = w + 1; gaps[0] = 1; gaps[1] = w;
			for (ri = 0; ri < 6; ++ri) for (gi = 0; gi < 2; ++gi)
			{
				if (runs[ri] == 0 || (ri >= 3 && runs[ri] <= 3)) continue;
				memset(a.v, 0, sizeof(a.v)); a.n = n;
				for (pos = 0; pos < n * W; pos += runs[ri] + gaps[gi]) for (k = 0; k < runs[ri] && pos + k < n * W; ++k) wwSetBit(a.v, pos + k, 1);
				snprintf(c2, sizeof(c2), "w=%u,a=runs(%s)gap(%s)", (unsigned)w, ri == 0 ? "1" : ri == 1 ? "2" : ri == 2 ? "3" : ri == 3 ? "w-1" : ri == 4 ? "w" : "w+1", gi ? "w" : "1");
				naf_line(a.v, n, w, c2);
			}
		}
		/* single bits */
		{
			size_t P[10], np = 0;
			P[np++] = 0; P[np++] = 1; P[np++] = w - 1; P[np++] = w; P[np++] = W - 1; P[np++] = W; P[np++] = n * W - w - 1; P[np++] = n * W - w; P[np++] = n * W - 2; P[np++] = n * W - 1;
			for (t = 0; t < np; ++t)
			{
				size_t u; int dup = 0;
				if (P[t] >= n * W) continue;
				for (u = 0; u < t; ++u) if (P[u] == P[t]) dup = 1;
				if (dup) continue;
				memset(a.v, 0, sizeof(a.v)); a.n = n; wwSetBit(a.v, P[t], 1);
				snprintf(c2, sizeof(c2), "w=%u,a=bit(%s)", (unsigned)w, posname(P[t], n, w, pb)); naf_line(a.v, n, w, c2);
				/* all ones below the bit / above the bit */
				memset(a.v, 0, sizeof(a.v)); for (u = 0; u <= P[t]; ++u) wwSetBit(a.v, u, 1);
				snprintf(c2, sizeof(c2), "w=%u,a=ones-below(%s)", (unsigned)w, posname(P[t], n, w, pb)); naf_line(a.v, n, w, c2);
				memset(a.v, 0, sizeof(a.v)); for (u = P[t]; u < n * W; ++u) wwSetBit(a.v, u, 1);
				snprintf(c2, sizeof(c2), "w=%u,a=ones-from(%s)", (unsigned)w, posname(P[t], n, w, pb)); naf_line(a.v, n, w, c2);
			}
		}
		/* a = (2^w - k) 2^j, k odd < 2^(w-1): the NAF ends with  -k, 0 (w-1 times), 1  = the suffix that ww.h replaces */
		{
			word ks[3]; size_t js[5], ki, ji;
			ks[0] = 1; ks[1] = 3; ks[2] = (WORD_1 << (w - 1)) - 1;
			js[0] = 0; js[1] = 1; js[2] = W - 1; js[3] = n * W - w - 1; js[4] = n * W - w;
			for (ki = 0; ki < 3; ++ki) for (ji = 0; ji < 5; ++ji)
			{
				if (ks[ki] >= (WORD_1 << (w - 1)) || (ki == 1 && w < 4) || js[ji] + w > n * W || (ji >= 2 && js[ji] <= 1) || (ji >= 3 && js[ji] == W - 1)) continue;
				memset(a.v, 0, sizeof(a.v)); a.n = n;
				a.v[0] = (WORD_1 << w) - ks[ki]; if (n >= 2) wwShHi(a.v, n, js[ji]); else a.v[0] <<= js[ji];
				snprintf(c2, sizeof(c2), "w=%u,a=(2^w-%s)<<%s", (unsigned)w, ki == 0 ? "1" : ki == 1 ? "3" : "(2^(w-1)-1)",
					ji == 0 ? "0" : ji == 1 ? "1" : ji == 2 ? "(W-1)" : ji == 3 ? "(nW-w-1)" : "(nW-w)");
				naf_line(a.v, n, w, c2);
			}
		}
		for (t = 0; t < (THOROUGH ? 4u : 2u); ++t) { mkshape(&a, n, n == 1 ? 8 : S_RAND); snprintf(c2, sizeof(c2), "w=%u,a=rand", (unsigned)w); naf_line(a.v, n, w, c2); }
	}
}

/* ------------------------------------------------------------------ generator tapes (gen_i): seeded pseudorandom octets, all-FF, all-00 */
typedef struct { int mode; size_t used; } tape_st;
static const char* TPN[3] = { "seeded", "FF", "00" };
static void tape_gen(void* buf, size_t count, void* state)
{
	tape_st* t = (tape_st*)state;
	if (t->mode == 0) vxRandBuf(buf, count); else memset(buf, t->mode == 1 ? 0xFF : 0, count);
	t->used += count;
}
/* zz: random residues.  The header promises the range of the result and, for octets of good quality, success */
static void fam_zz_rand(void)
{
	static const size_t LQ[] = { 1, 2, 3, 4 }, LT[] = { 1, 2, 3, 4, 5, 6, 9, 16, 21 };
	size_t t, cnt = THOROUGH ? COUNT_OF(LT) : COUNT_OF(LQ); int mc, nz, tp; num mod;
	for (t = 0; t < cnt; ++t)
	{
		size_t n = THOROUGH ? LT[t] : LQ[t];
		for (mc = -1; mc < NMC; ++mc)
		{
			if (mc < 0) { if (n != 1) continue; memset(mod.v, 0, sizeof(mod.v)); mod.n = 1; mod.v[0] = 1; strcpy(mod.nm, "one"); }
			else if (!mkmod(&mod, n, mc)) continue;
			if (mod.v[n - 1] == 0) continue;                         /* pre: mod[n - 1] != 0 */
			for (nz = 0; nz < 2; ++nz) for (tp = 0; tp < 5; ++tp)
			{
				tape_st ts; bool_t ok = 0;
				if (nz && n == 1 && mod.v[0] == 1) continue;         /* pre: mod != 1 */
				ts.mode = tp < 3 ? 0 : tp - 2; ts.used = 0;
				set_fill(C, n, 0x5A);
				LB("zz", nz ? "zzRandNZMod" : "zzRandMod", "def"); jInt("n", n); LW("mod", mod.v, n); jStr("tape", TPN[ts.mode]);
				if (nz) CALL(ok = zzRandNZMod(C, mod.v, n, tape_gen, &ts)); else CALL(ok = zzRandMod(C, mod.v, n, tape_gen, &ts));
				LW("c", C, n); jInt("ret", ok); jInt("used", (long long)ts.used);
				MKCLS("mod=%s,tape=%s", mod.nm, TPN[ts.mode]); LE_(CLS, "none");
			}
		}
	}
}

/* ------------------------------------------------------------------ pri: remainders modulo the factor base, prime extension */
static word MODS[1024 + 8];
static void num_of_u64(num* o, u64 v, const char* nm)
{
	memset(o->v, 0, sizeof(o->v)); strcpy(o->nm, nm);
#if (B_PER_W == 64)
	o->v[0] = (word)v; o->n = 1;
#else
	o->v[0] = (word)v; o->v[1] = (word)(v >> 32); o->n = o->v[1] ? 2 : 1;
#endif
}
static void fam_pri(void)
{
	static const size_t CQ[] = { 0, 1, 2, 3, 4, 5, 6, 7, 8, 9, 10, 11, 12, 16, 17, 31, 32, 33, 64, 95, 96 };
	static const size_t LQ[] = { 0, 1, 2, 3, 4, 6, 9 }, LT[] = { 0, 1, 2, 3, 4, 5, 6, 8, 9, 16, 17, 21 };
	static const int PS[] = { S_ZERO, S_ONE, S_MAX, S_HIBIT, S_ALT, S_RAND };
	size_t li, i, ci, lcnt = THOROUGH ? COUNT_OF(LT) : COUNT_OF(LQ), base = priBaseSize(); num a; char c2[128];
	for (li = 0; li < lcnt; ++li)
	{
		size_t n = THOROUGH ? LT[li] : LQ[li], P = n <= 1 ? nshapes(n) : COUNT_OF(PS) + 2;
		for (i = 0; i < P; ++i)
		{
			if (n <= 1 || i < COUNT_OF(PS)) mkshape(&a, n, n <= 1 ? (int)i : PS[i]);
			else
			{
				/* multiples of elements of the factor base: the product of the first k primes that fits / (B^n - 1) rounded down to a multiple of the last prime */
				memset(a.v, 0, sizeof(a.v)); a.n = n;
				if (i == COUNT_OF(PS))
				{
					/* 3 * 5 * 7 * ... as long as the product fits n words */
					size_t k; word t[NW];
					a.v[0] = 1;
					for (k = 0; k < base; ++k) { wwCopy(t, a.v, n); if (zzMulW(t, t, n, priBasePrime(k))) break; wwCopy(a.v, t, n); }
					strcpy(a.nm, "product-of-base-primes");
				}
				else { word r; set_fill(a.v, n, BMAX); r = zzModW(a.v, n, priBasePrime(base - 1)); zzSubW2(a.v, n, r); strcpy(a.nm, "multiple-of-last-base-prime"); }
			}
			for (ci = 0; ci < COUNT_OF(CQ) + 2; ++ci)
			{
				size_t count = ci < COUNT_OF(CQ) ? CQ[ci] : ci == COUNT_OF(CQ) ? base - 1 : base;
				word* out = count <= 96 ? C : MODS; long ov = -1; size_t k;
				if (!THOROUGH && ci >= 13 && (ci + i + li) % 3) continue;
				wwCopy(A, a.v, n);
				if (out == C) set_fill(C, count, 0x5A); else for (k = 0; k < COUNT_OF(MODS); ++k) MODS[k] = k < count ? 0x5A : CANARY;
				LB("pri", "priBaseMod", "def"); jInt("n", n); jInt("count", (long long)count); LW("a", A, n);
				CALL(priBaseMod(out, A, n, count));
				LW("mods", out, count);
				if (out == MODS) { for (k = count; k < COUNT_OF(MODS); ++k) if (MODS[k] != CANARY) { ov = (long)(k - count); break; } if (ov >= 0) jInt("overrun", ov + 1); }
				snprintf(c2, sizeof(c2), "a=%s,count=%s", a.nm, count == base ? "base" : count == base - 1 ? "base-1" : ""); if (count < base - 1) sprintf(c2 + strlen(c2), "%u", (unsigned)count);
				LE_(c2, "none");
			}
		}
	}
	/* priExtendPrime2 / priExtendPrime: p = 2 q a r + 1 of l bits, l <= 81 (primality of p is decided exactly by the specification) */
	{
		static const struct { const char* nm; unsigned bits; u64 q; } QS[] = { { "3", 2, 3 }, { "7", 3, 7 }, { "257", 9, 257 }, { "65537", 17, 65537 },
			{ "2^31-1", 31, 0x7FFFFFFFull }, { "2^61-1", 61, 0x1FFFFFFFFFFFFFFFull }, { "2^64-59", 64, 0xFFFFFFFFFFFFFFC5ull } };
		static const struct { const char* nm; u64 a; } AS2[] = { { "1", 1 }, { "2", 2 }, { "3", 3 }, { "12", 12 }, { "65537", 65537 }, { "2^20", 1u << 20 } };
		size_t qi, ai, lk, bc; num q, av; word qa[8];
		for (qi = 0; qi < COUNT_OF(QS); ++qi) for (ai = 0; ai <= COUNT_OF(AS2); ++ai)
		{
			size_t lmin, lmax, ls[6], nl = 0, u; int two = ai < COUNT_OF(AS2);
			num_of_u64(&q, QS[qi].q, QS[qi].nm);
			if (two) num_of_u64(&av, AS2[ai].a, AS2[ai].nm); else num_of_u64(&av, 1, "1");
			memset(qa, 0, sizeof(qa)); zzMul(qa, q.v, q.n, av.v, av.n, STACK);
			lmin = wwBitSize(qa, q.n + av.n) + 1; lmax = 2 * QS[qi].bits; if (lmax > 81) lmax = 81;
			if (lmin > lmax) continue;
			ls[nl++] = lmin; ls[nl++] = lmin + 1; ls[nl++] = (lmin + lmax) / 2; ls[nl++] = lmax - 1; ls[nl++] = lmax; ls[nl++] = lmin + 13;
			for (lk = 0; lk < nl; ++lk)
			{
				size_t l = ls[lk], np, trials; int dup = 0, must; bool_t ok = 0; tape_st ts;
				for (u = 0; u < lk; ++u) if (ls[u] == l) dup = 1;
				if (dup || l < lmin || l > lmax) continue;
				if (!THOROUGH && (qi + ai + lk) % 2 && lk != 5) continue;
				np = W_OF_B(l); bc = (qi + ai + lk) % 3 == 0 ? 0 : (qi + ai + lk) % 3 == 1 ? 10 : base;
				/* at least 2^12 admissible r and every candidate is tried (trials = SIZE_MAX): a prime exists and has to be found.
				   Tight lengths (a handful of admissible r, possibly none of them giving a prime) get a finite number of
				   candidates: with trials = SIZE_MAX the search is unbounded by definition when no prime of the form exists
				   (observed: q = 257, l = 10; q = 2^31 - 1, l = 32 do not return) */
				must = l >= lmin + 13 && !(lk == 2 && (qi + ai) % 2);
				trials = must ? SIZE_MAX : (lk == 2 && (qi + ai) % 2) ? 1 : 200;
				if (priExtendPrime2_deep(l, q.n, av.n, bc) > sizeof(STACK)) continue;
				ts.mode = 0; ts.used = 0;
				set_fill(C, np, 0x5A);
				LB("pri", two ? "priExtendPrime2" : "priExtendPrime", "def"); jInt("n", q.n); jInt("l", (long long)l); LW("q", q.v, q.n);
				if (two) { jInt("m", av.n); LW("a", av.v, av.n); }
				jInt("trials", trials == SIZE_MAX ? -1 : (long long)trials); jInt("base_count", (long long)bc); jInt("mustfind", must);
				if (two) CALL(ok = priExtendPrime2(C, l, q.v, q.n, av.v, av.n, trials, bc, tape_gen, &ts, STACK));
				else CALL(ok = priExtendPrime(C, l, q.v, q.n, trials, bc, tape_gen, &ts, STACK));
				LW("p", C, np); jInt("ret", ok);
				snprintf(c2, sizeof(c2), "q=%s,a=%s,l=%s,trials=%s,base=%s", q.nm, av.nm, lk == 0 ? "lmin" : lk == 1 ? "lmin+1" : lk == 2 ? "mid" : lk == 3 ? "lmax-1" : lk == 4 ? "lmax" : "lmin+13",
					trials == SIZE_MAX ? "all" : trials == 1 ? "1" : "200", bc == 0 ? "0" : bc == 10 ? "10" : "all");
				LE_(c2, "none");
			}
		}
	}
}
/*@ENDMORE@*/
static int has(int argc, char** argv, const char* f)
{
	int i; for (i = 3; i < argc; ++i) if (strcmp(argv[i], f) == 0) return 1;
	return 0;
}

int main(int argc, char** argv)
{
	int i, all = argc <= 3;
	if (argc < 3 || strcmp(argv[1], "record")) { fprintf(stderr, "usage: drv_arith record quick|thorough [zz red mod ww pp word qr ring pri]\n"); return 2; }
	THOROUGH = strcmp(argv[2], "thorough") == 0;
	vxSeed(vxEnvSeed());
	guard_init();
	/* VX_UNBUF=1: flush every line (to locate a crash) */
	if (getenv("VX_UNBUF")) setvbuf(stdout, 0, _IOLBF, 0);
	else { static char obuf[1 << 20]; setvbuf(stdout, obuf, _IOFBF, sizeof(obuf)); }
#define WANT(f) (all || has(argc, argv, f))
	for (i = 0; i < 1; ++i)
	{
		if (WANT("zz")) { fam_zz_add(); fam_zz_mul(); fam_zz_div(); fam_zz_gcd(); fam_zz_gcd_shifted(); fam_zz_jacobi_short(); fam_zz_pow(); fam_zz_rand(); fam_zm_mont2(); }
		if (WANT("mod")) fam_zz_mod();
		if (WANT("red")) fam_zz_red();
		if (WANT("ww")) { fam_ww(); fam_ww_naf(); }
		if (WANT("pp")) fam_pp();
		if (WANT("word")) fam_word();
		if (WANT("qr")) { fam_qr(3); fam_gf2(); }
		else if (has(argc, argv, "ring")) fam_qr(2);
		if (WANT("pri")) fam_pri();
	}
	fflush(stdout);
	return 0;
}
