/* C06, binary curves: driver of src/math/ec2.c (Lopez-Dahab and affine arithmetic on y^2 + xy = x^3 + A x^2 + B over
   GF(2^m)) and of ecMulA / ecAddMulA / ecHasOrderA (src/math/ec.c) on such curves.
   usage: drv_ec2 exec     commands on stdin; the curves are COMPLETE curves over a subfield GF(2^d) of GF(2^m) whose
                           field embedding, point list and tables are computed by TLC (spec/gen/Gen_EC2Small.tla); one
                           ndjson row per (operation, aliasing, representation, first operand): results as indices into
                           the curve's point list (0 = O, -2 = not a listed point, -9 = not applicable)
          drv_ec2 record   commands on stdin (the same curves, plus "std" = the DSTU 4145 standard curves): self-contained
                           lines (field polynomial, A, B, operands and results as 16-bit limbs) judged by
                           spec/trace/Trace_EC2.tla
   Every field / curve description and every stack is malloc'ed at exactly its documented _keep() / _deep() size, every
   point buffer at exactly its documented number of words.  Deterministic given VERIF_SEED: the seed selects the Z
   coordinates of projective representations and seeded scalars / points, never the structure.
   Aliasing: the ec_o interfaces (ec.h) allow c == a and c == b (never generated: a == b == c); ec2.h documents no
   aliasing for ec2AddAA / ec2SubAA / ec2NegA, so these are called with an output that overlaps no input (reading both
   inputs from one buffer, "a=b", is no overlap with the output). */
#include "vx.h"
#include <stdarg.h>
#include <bee2/core/mem.h>
#include <bee2/core/util.h>
#include <bee2/core/obj.h>
#include <bee2/core/hex.h>
#include <bee2/math/ww.h>
#include <bee2/math/zz.h>
#include <bee2/math/gf2.h>
#include <bee2/math/ec2.h>
#include <bee2/crypto/dstu.h>
#include <signal.h>
#if defined(__has_feature)
#if __has_feature(address_sanitizer)
#define DRV_ASAN 1
void __sanitizer_print_stack_trace(void);
#endif
#endif
/* a debug assertion of the library only prints file::line and aborts: add the call stack (sanitizer builds) so that
   the check can name the function that tripped it */
static void on_abort(int sig)
{
	(void)sig;
#ifdef DRV_ASAN
	__sanitizer_print_stack_trace();
#endif
}

/* ------------------------------------------------------------------ exact-size memory */
/* Fresh memory is filled with VERIF_FILL (default 0).  The LD functions signal O by zeroing Z only and leave X, Y as
   they were: with a fill outside the field (VERIF_FILL=255, m not a multiple of the word size) the next function's
   debug precondition reads whatever the buffer (or ecMulA's stack) held before. */
static int FILL = 0;
static void* xalloc(size_t size)
{
	void* p = malloc(size ? size : 1);
	if (!p) { fprintf(stderr, "out of memory\n"); exit(3); }
	memset(p, FILL, size);
	return p;
}
#define WALLOC(nw) ((word*)xalloc((nw) * sizeof(word)))
static size_t SLACK = 0;        /* VERIF_STACK_SLACK: extra octets per stack; 0 = exactly the documented depth */
static struct { size_t size; void* p; } STK[512];
static int NSTK;
static void* stk(size_t size)
{
	int i;
	for (i = 0; i < NSTK; ++i) if (STK[i].size == size) return STK[i].p;
	if (NSTK == 512) { fprintf(stderr, "too many stack sizes\n"); exit(3); }
	STK[NSTK].size = size; STK[NSTK].p = xalloc(size + SLACK);
	return STK[NSTK++].p;
}

/* ------------------------------------------------------------------ curves */
#define MAXNO 80
typedef struct
{
	char name[48];
	size_t poly[4];
	size_t m, no, n;
	qr_o* f; ec_o* ec;
	size_t npts;            /* affine points in the list */
	octet* oct;             /* npts * 2 * no octets */
	word* aff;              /* npts * 2n words */
	octet ord[80]; size_t ord_len;
	long long iord;
	int* ht; size_t hmask;
	struct { size_t mo; octet d[64]; } mult[8]; int nmult;
	octet* elts; size_t nelts;      /* the elements of the subfield, no octets each */
} curve_t;

static unsigned long long hash_oct(const octet* p, size_t n)
{
	unsigned long long h = 1469598103934665603ull;
	while (n--) h = (h ^ *p++) * 1099511628211ull;
	return h ^ (h >> 29);
}
static void curve_free(curve_t* c)
{
	free(c->f); free(c->ec); free(c->oct); free(c->aff); free(c->ht); free(c->elts);
	memset(c, 0, sizeof(*c));
}
static int curve_create(curve_t* c, const char* name, const size_t poly[4], const octet* a, const octet* b)
{
	memset(c, 0, sizeof(*c));
	snprintf(c->name, sizeof(c->name), "%s", name);
	memcpy(c->poly, poly, sizeof(c->poly));
	c->m = poly[0]; c->no = O_OF_B(c->m); c->n = W_OF_B(c->m);
	c->f = (qr_o*)xalloc(gf2Create_keep(c->m));
	if (!gf2Create(c->f, c->poly, stk(gf2Create_deep(c->m)))) return 0;
	if (c->f->n != c->n || c->f->no != c->no) return 0;
	c->ec = (ec_o*)xalloc(ec2CreateLD_keep(c->n));
	if (!ec2CreateLD(c->ec, c->f, a, b, stk(ec2CreateLD_deep(c->n, c->f->deep)))) return 0;
	return 1;
}
static int curve_points(curve_t* c, const octet* pts, size_t npts)
{
	size_t i, n = c->n, no = c->no, hs = 16;
	c->npts = npts;
	c->oct = (octet*)xalloc(npts * 2 * no);
	memcpy(c->oct, pts, npts * 2 * no);
	c->aff = WALLOC(npts * 2 * n);
	while (hs < 4 * npts + 4) hs *= 2;
	c->hmask = hs - 1;
	c->ht = (int*)xalloc(hs * sizeof(int));
	for (i = 0; i < hs; ++i) c->ht[i] = -1;
	for (i = 0; i < npts; ++i)
	{
		size_t h;
		if (!qrFrom(c->aff + 2 * n * i, pts + 2 * no * i, c->f, stk(c->f->deep)) ||
			!qrFrom(c->aff + 2 * n * i + n, pts + 2 * no * i + no, c->f, stk(c->f->deep)))
			return 0;
		h = hash_oct(pts + 2 * no * i, 2 * no) & c->hmask;
		while (c->ht[h] >= 0) h = (h + 1) & c->hmask;
		c->ht[h] = (int)i;
	}
	return 1;
}
/* index of an affine point (1..npts), -2 if it is not listed */
static int lookup(const curve_t* c, const word* a)
{
	octet o[2 * MAXNO]; size_t h;
	if (!gf2IsIn(a, c->f) || !gf2IsIn(a + c->n, c->f)) return -2;
	qrTo(o, a, c->f, stk(c->f->deep));
	qrTo(o + c->no, a + c->n, c->f, stk(c->f->deep));
	h = hash_oct(o, 2 * c->no) & c->hmask;
	while (c->ht[h] >= 0)
	{
		if (memcmp(c->oct + 2 * c->no * c->ht[h], o, 2 * c->no) == 0) return c->ht[h] + 1;
		h = (h + 1) & c->hmask;
	}
	return -2;
}
#define AFF(c, idx) ((c)->aff + 2 * (c)->n * ((idx) - 1))
static void* ecstk(const curve_t* c) { return stk(c->ec->deep); }

/* a seeded field element, optionally non-zero */
static void rnd_f(word* t, const curve_t* c, int nonzero)
{
	octet o[MAXNO];
	for (;;)
	{
		vxRandBuf(o, c->no);
		if (c->m % 8) o[c->no - 1] &= (octet)((1u << (c->m % 8)) - 1);
		if (!qrFrom(t, o, c->f, stk(c->f->deep))) continue;
		if (nonzero && qrIsZero(t, c->f)) continue;
		return;
	}
}
/* Lopez-Dahab representation (X : Y : Z) ~ (X / Z, Y / Z^2) of point idx (0 = O) in dst[3n]:
   rep 0 = canonical (Z = 1; O = (1 : 0 : 0)), rep 1 = seeded Z (O: seeded X, Y) */
static void mkLD(word* dst, const curve_t* c, int idx, int rep)
{
	const size_t n = c->n; const qr_o* f = c->f; void* st = ecstk(c);
	if (idx == 0)
	{
		if (rep == 0) qrSetUnity(dst, f), qrSetZero(dst + n, f);
		else rnd_f(dst, c, 0), rnd_f(dst + n, c, 0);
		qrSetZero(dst + 2 * n, f);
		return;
	}
	if (rep == 0) { ecFromA(dst, AFF(c, idx), c->ec, st); return; }
	{
		word* z = WALLOC(n); word* z2 = WALLOC(n);
		rnd_f(z, c, 1);
		qrMul(dst, AFF(c, idx), z, f, st);
		qrSqr(z2, z, f, st);
		qrMul(dst + n, AFF(c, idx) + n, z2, f, st);
		qrCopy(dst + 2 * n, z, f);
		free(z); free(z2);
	}
}

/* ------------------------------------------------------------------ rows */
static void row_begin(const curve_t* c, const char* op, const char* al, int rep)
{
	jBegin(); jStr("curve", c->name); jStr("op", op); jStr("al", al); jInt("rep", rep);
}
static void row_end(const long long* row, size_t n) { jIntArr("row", row, n); jEnd(); }

/* pairs: op 0..5 = addLD subLD addALD subALD addAA subAA; al 0..3 = none, c=a, c=b, a=b (one buffer, needs i == j).
   Returns 1 and the affine result in out[2n], 0 for O, -9 if not applicable.  Fresh exact-size buffers per call. */
static const char* POPS[6] = { "addLD", "subLD", "addALD", "subALD", "addAA", "subAA" };
static const char* PALS[4] = { "none", "c=a", "c=b", "a=b" };
static int pair_call(const curve_t* c, int op, int al, int rep, int i, int j, word* out)
{
	const size_t n = c->n; const ec_o* ec = c->ec; void* st = ecstk(c);
	const int mixed = op == 2 || op == 3, aa = op >= 4;
	const size_t na = aa ? 2 * n : 3 * n;
	const size_t nb = (mixed || aa) ? 2 * n : 3 * n;
	const size_t nc = aa ? 2 * n : 3 * n;
	word *A, *B, *C; int r = 0; bool_t ok = TRUE;
	if (aa && (rep || i == 0)) return -9;
	if ((mixed || aa) && j == 0) return -9;
	if (aa && (al == 1 || al == 2)) return -9;              /* ec2.h documents no overlap of c with a or b */
	if (al == 3 && (mixed || i != j)) return -9;
	A = WALLOC(al == 1 ? (na > nc ? na : nc) : na);
	B = al == 3 ? A : WALLOC(al == 2 ? (nb > nc ? nb : nc) : nb);
	C = (al == 0 || al == 3) ? WALLOC(nc) : (al == 1 ? A : B);
	if (aa) wwCopy(A, AFF(c, i), 2 * n); else mkLD(A, c, i, rep);
	if (al != 3) { if (mixed || aa) wwCopy(B, AFF(c, j), 2 * n); else mkLD(B, c, j, rep); }
	switch (op)
	{
	case 0: ecAdd(C, A, B, ec, st); break;
	case 1: ecSub(C, A, B, ec, st); break;
	case 2: ecAddA(C, A, B, ec, st); break;
	case 3: ecSubA(C, A, B, ec, st); break;
	case 4: ok = ec2AddAA(C, A, B, ec, stk(ec2AddAA_deep(n, c->f->deep))); break;
	case 5: ok = ec2SubAA(C, A, B, ec, stk(ec2SubAA_deep(n, c->f->deep))); break;
	}
	if (aa) { if (ok) wwCopy(out, C, 2 * n), r = 1; }
	else r = ecToA(out, C, ec, st) ? 1 : 0;
	if (al == 0 || al == 3) free(C);
	if (al != 3) free(B);
	free(A);
	return r;
}
static void do_pairs(const curve_t* c)
{
	const int N = (int)c->npts + 1;
	long long* row = (long long*)xalloc(N * sizeof(long long));
	word* out = WALLOC(2 * c->n);
	int op, al, rep, i, j, r;
	for (op = 0; op < 6; ++op)
	for (al = 0; al < 4; ++al)
	for (rep = 0; rep < 2; ++rep)
	{
		if (pair_call(c, op, al, rep, 1, 1, out) == -9) continue;
		if (al == 3)
		{
			row_begin(c, POPS[op], PALS[al], rep); jInt("diag", 1);
			for (i = 0; i < N; ++i)
				r = pair_call(c, op, al, rep, i, i, out), row[i] = r == 1 ? lookup(c, out) : r;
			row_end(row, N);
			continue;
		}
		for (i = 0; i < N; ++i)
		{
			if (pair_call(c, op, al, rep, i, 1, out) == -9) continue;
			row_begin(c, POPS[op], PALS[al], rep); jInt("i", i);
			for (j = 0; j < N; ++j)
				r = pair_call(c, op, al, rep, i, j, out), row[j] = r == 1 ? lookup(c, out) : r;
			row_end(row, N);
		}
	}
	free(row); free(out);
}

/* unary: negLD, dblLD, dblALD (affine -> LD), negA (affine), fromAtoA round trip.
   al 0 = separate buffers, 1 = output over the input (ec.h interfaces only), 2 = negA with the output buffer directly
   behind the input buffer (two adjacent, non-overlapping affine points of 2n words each) */
static const char* UOPS[5] = { "negLD", "dblLD", "dblALD", "negA", "fromAtoA" };
static const char* UALS[3] = { "none", "b=a", "adjacent" };
static int unary_call(const curve_t* c, int op, int al, int rep, int i, word* out)
{
	const size_t n = c->n; const ec_o* ec = c->ec; void* st = ecstk(c);
	const int affin = op >= 2;
	word *A, *B; int r;
	if (affin && (rep || i == 0)) return -9;
	if (op == 3 && al == 1) return -9;                      /* ec2NegA: no aliasing documented */
	if (al == 2 && op != 3) return -9;
	if (al == 2)
	{
		A = WALLOC(4 * n); B = A + 2 * n;
		wwCopy(A, AFF(c, i), 2 * n);
		ec2NegA(B, A, ec);
		wwCopy(out, B, 2 * n);
		free(A);
		return 1;
	}
	A = WALLOC(affin ? (al ? 3 * n : 2 * n) : 3 * n);
	B = al ? A : WALLOC(op == 3 ? 2 * n : 3 * n);
	if (affin) wwCopy(A, AFF(c, i), 2 * n); else mkLD(A, c, i, rep);
	switch (op)
	{
	case 0: ecNeg(B, A, ec, st); break;
	case 1: ecDbl(B, A, ec, st); break;
	case 2: ecDblA(B, A, ec, st); break;
	case 3: ec2NegA(B, A, ec); break;
	case 4: ecFromA(B, A, ec, st); break;
	}
	if (op == 3) wwCopy(out, B, 2 * n), r = 1;
	else if (op == 4 && al) { r = ecToA(B, B, ec, st) ? 1 : 0; if (r) wwCopy(out, B, 2 * n); }
	else r = ecToA(out, B, ec, st) ? 1 : 0;
	if (!al) free(B);
	free(A);
	return r;
}
static void do_unary(const curve_t* c)
{
	const int N = (int)c->npts + 1;
	long long* row = (long long*)xalloc(N * sizeof(long long));
	word* out = WALLOC(2 * c->n);
	int op, al, rep, i, r;
	for (op = 0; op < 5; ++op)
	for (al = 0; al < 3; ++al)
	for (rep = 0; rep < 2; ++rep)
	{
		if (unary_call(c, op, al, rep, 1, out) == -9) continue;
		row_begin(c, UOPS[op], UALS[al], rep);
		for (i = 0; i < N; ++i)
			r = unary_call(c, op, al, rep, i, out), row[i] = r == 1 ? lookup(c, out) : r;
		row_end(row, N);
	}
	free(row); free(out);
}

/* scalar k (+ the registered multiple of the order of length mo when hi) in W_OF_O(mo) words */
static int scalar(word* d, size_t mo, const curve_t* c, long long k, int hi)
{
	octet o[64]; size_t i; unsigned carry;
	memset(o, 0, sizeof(o));
	if (hi)
	{
		int t;
		for (t = 0; t < c->nmult && c->mult[t].mo != mo; ++t);
		if (t == c->nmult) return 0;
		memcpy(o, c->mult[t].d, mo);
	}
	for (i = 0, carry = 0; i < mo; ++i)
	{
		unsigned v = o[i] + (i < 8 ? (unsigned)((unsigned long long)k >> (8 * i)) & 255 : 0) + carry;
		o[i] = (octet)v; carry = v >> 8;
	}
	if (carry || mo % O_PER_W) return 0;
	wwFrom(d, o, mo);
	return 1;
}
static size_t parse_ks(const vx_cmd* cmd, const curve_t* c, long long** ks, long long from)
{
	const char* v = vxArg(cmd, "ks");
	long long K = 2 * c->iord + 2;
	size_t cnt = 0;
	if (!v || strcmp(v, "all") == 0)
	{
		long long k;
		*ks = (long long*)xalloc((size_t)(K + 1) * sizeof(long long));
		for (k = from; k <= K; ++k) (*ks)[cnt++] = k;
		return cnt;
	}
	*ks = (long long*)xalloc((strlen(v) / 2 + 2) * sizeof(long long));
	while (*v)
	{
		(*ks)[cnt++] = strtoll(v, (char**)&v, 10);
		if (*v == ',') ++v;
	}
	return cnt;
}
static void do_mul(const curve_t* c, const vx_cmd* cmd, int hasorder)
{
	const size_t n = c->n, mo = (size_t)vxInt(cmd, "mo", 8), m = W_OF_O(mo);
	const int hi = (int)vxInt(cmd, "hi", 0);
	long long* ks; size_t nk = parse_ks(cmd, c, &ks, hasorder ? 1 : 0), t;
	long long* row = (long long*)xalloc(nk * sizeof(long long));
	int i;
	if (mo % O_PER_W) { free(ks); free(row); return; }
	for (i = 1; i <= (int)c->npts; ++i)
	{
		jBegin(); jStr("curve", c->name); jStr("op", hasorder ? "hasOrderA" : "mulA"); jInt("mo", (long long)mo);
		jInt("hi", hi); jInt("i", i); jIntArr("ks", ks, nk);
		for (t = 0; t < nk; ++t)
		{
			word* d = WALLOC(m); word* b = WALLOC(2 * n);
			if (!scalar(d, mo, c, ks[t], hi)) row[t] = -9;
			else if (hasorder)
				row[t] = ecHasOrderA(AFF(c, i), c->ec, d, m, stk(ecHasOrderA_deep(n, c->ec->d, c->ec->deep, m)));
			else
				row[t] = ecMulA(b, AFF(c, i), c->ec, d, m, stk(ecMulA_deep(n, c->ec->d, c->ec->deep, m))) ? lookup(c, b) : 0;
			free(d); free(b);
		}
		row_end(row, nk);
	}
	free(ks); free(row);
}
/* d1 P_i + d2 P_j (+ d3 P_l): rows over j */
static void do_addmul(const curve_t* c, const vx_cmd* cmd)
{
	const size_t n = c->n, mo1 = (size_t)vxInt(cmd, "mo1", 8), mo2 = (size_t)vxInt(cmd, "mo2", 8), mo3 = (size_t)vxInt(cmd, "mo3", 8);
	const size_t m1 = W_OF_O(mo1), m2 = W_OF_O(mo2), m3 = W_OF_O(mo3);
	const int hi = (int)vxInt(cmd, "hi", 0);
	const long long d1 = vxInt(cmd, "d1", 0), d2 = vxInt(cmd, "d2", 0), d3 = vxInt(cmd, "d3", -1);
	const int l = (int)vxInt(cmd, "l", 1), i0 = (int)vxInt(cmd, "i", 0);
	const int N = (int)c->npts;
	long long* row = (long long*)xalloc((N + 1) * sizeof(long long));
	int i, j;
	if (mo1 % O_PER_W || mo2 % O_PER_W || mo3 % O_PER_W) { free(row); return; }
	for (i = 1; i <= N; ++i)
	{
		if (i0 && i != i0) continue;
		jBegin(); jStr("curve", c->name); jStr("op", d3 >= 0 ? "addMulA3" : "addMulA"); jInt("mo1", (long long)mo1); jInt("mo2", (long long)mo2);
		jInt("hi", hi); jInt("i", i); jInt("d1", d1); jInt("d2", d2);
		if (d3 >= 0) jInt("mo3", (long long)mo3), jInt("d3", d3), jInt("l", l);
		row[0] = -9;
		for (j = 1; j <= N; ++j)
		{
			word* e1 = WALLOC(m1); word* e2 = WALLOC(m2); word* e3 = WALLOC(m3); word* b = WALLOC(2 * n);
			bool_t r;
			if (!scalar(e1, mo1, c, d1, hi) || !scalar(e2, mo2, c, d2, hi) || !scalar(e3, mo3, c, d3 >= 0 ? d3 : 0, hi)) row[j] = -9;
			else
			{
				if (d3 >= 0)
					r = ecAddMulA(b, c->ec, stk(ecAddMulA_deep(n, c->ec->d, c->ec->deep, 3, m1, m2, m3)), 3,
						AFF(c, i), e1, m1, AFF(c, j), e2, m2, AFF(c, l), e3, m3);
				else
					r = ecAddMulA(b, c->ec, stk(ecAddMulA_deep(n, c->ec->d, c->ec->deep, 2, m1, m2)), 2,
						AFF(c, i), e1, m1, AFF(c, j), e2, m2);
				row[j] = r ? lookup(c, b) : 0;
			}
			free(e1); free(e2); free(e3); free(b);
		}
		row_end(row, (size_t)N + 1);
	}
	free(row);
}
/* ec2IsOnA on every (x, y) of the subfield (elements in code order), and on listed points whose coordinates are moved
   out of the field (a bit >= m set): v 0 = the listed points themselves */
static void do_ison(const curve_t* c)
{
	const size_t n = c->n, q = c->nelts; size_t x, y, cnt, v;
	word* e = WALLOC(q * n);
	long long* ys = (long long*)xalloc((q + 1) * sizeof(long long));
	for (x = 0; x < q; ++x) qrFrom(e + x * n, c->elts + x * c->no, c->f, stk(c->f->deep));
	for (x = 0; x < q; ++x)
	{
		for (cnt = 0, y = 0; y < q; ++y)
		{
			word* a = WALLOC(2 * n);
			wwCopy(a, e + x * n, n); wwCopy(a + n, e + y * n, n);
			if (ec2IsOnA(a, c->ec, stk(ec2IsOnA_deep(n, c->f->deep)))) ys[cnt++] = (long long)y;
			free(a);
		}
		jBegin(); jStr("curve", c->name); jStr("op", "isOnA"); jInt("x", (long long)x); jIntArr("ys", ys, cnt); jEnd();
	}
	for (v = 0; v < 6; ++v)
	{
		size_t i, tot = 0, acc = 0;
		if (v && c->m % B_PER_W == 0) break;                /* every word vector is a field element */
		for (i = 1; i <= c->npts; ++i)
		{
			word* a = WALLOC(2 * n);
			wwCopy(a, AFF(c, i), 2 * n);
			switch (v)
			{
			case 1: wwSetBit(a, c->m, 1); break;                               /* x + t^m */
			case 2: wwSetBit(a + n, c->m, 1); break;                           /* y + t^m */
			case 3: wwSetBit(a, B_OF_W(n) - 1, 1); break;                      /* top bit of the last word of x */
			case 4: wwSetBit(a + n, B_OF_W(n) - 1, 1); break;
			case 5: memset(a, 0xFF, O_OF_W(n)); break;
			}
			++tot;
			if (ec2IsOnA(a, c->ec, stk(ec2IsOnA_deep(n, c->f->deep)))) ++acc;
			free(a);
		}
		jBegin(); jStr("curve", c->name); jStr("op", "isOnOut"); jInt("v", (long long)v); jInt("tot", (long long)tot); jInt("acc", (long long)acc); jEnd();
	}
	free(e); free(ys);
}

/* ================================================================== record direction: self-contained lines */
static void jArr16(const octet* o, size_t no)
{
	size_t i;
	fputc('[', vx_out);
	for (i = 0; i + 1 < no; i += 2) fprintf(vx_out, i ? ",%u" : "%u", o[i] | (o[i + 1] << 8));
	if (no & 1) fprintf(vx_out, no > 1 ? ",%u" : "%u", o[no - 1]);
	fputc(']', vx_out);
}
/* affine point (0 = O) as [[x limbs],[y limbs]] or [] */
static void jP(const char* k, const curve_t* c, const word* aff)
{
	octet o[MAXNO];
	jSep(); fprintf(vx_out, "\"%s\":[", k);
	if (aff)
	{
		qrTo(o, aff, c->f, stk(c->f->deep)); jArr16(o, c->no); fputc(',', vx_out);
		qrTo(o, aff + c->n, c->f, stk(c->f->deep)); jArr16(o, c->no);
	}
	fputc(']', vx_out);
}
static void jPi(const char* k, const curve_t* c, int idx) { jP(k, c, idx ? AFF(c, idx) : 0); }
static void jF(const char* k, const curve_t* c, const word* a)
{
	octet o[MAXNO];
	qrTo(o, a, c->f, stk(c->f->deep)); jLimbs16(k, o, c->no);
}
/* a word vector as 16-bit limbs without trailing zero limbs (the same text for every word size) */
static void jW(const char* k, const word* w, size_t m)
{
	octet o[200]; size_t no = O_OF_W(m);
	wwTo(o, no, w);
	while (no >= 2 && o[no - 1] == 0 && o[no - 2] == 0) no -= 2;
	jLimbs16(k, o, no);
}
static void rec_begin(const curve_t* c, const char* op)
{
	long long p[4];
	p[0] = (long long)c->poly[0]; p[1] = (long long)c->poly[1]; p[2] = (long long)c->poly[2]; p[3] = (long long)c->poly[3];
	jBegin(); jStr("op", op); jStr("cv", c->name); jIntArr("poly", p, 4);
	jF("A", c, c->ec->A); jF("B", c, c->ec->B);
}
/* d[mo octets] = k + ord * T, T a seeded number that fills the remaining bits (hi) or 0 */
static void big_scalar(octet* d, size_t mo, unsigned long long ord, unsigned long long k, int hi)
{
	size_t i, tb; unsigned long long carry; int ob = 0;
	octet t[64];
	memset(d, 0, mo); memset(t, 0, sizeof(t));
	while ((ord >> ob) != 0) ++ob;
	if (hi && mo * 8 > (size_t)ob + 10)
	{
		tb = mo * 8 - ob - 2;
		vxRandBuf(t, mo);
		for (i = tb; i < mo * 8; ++i) t[i / 8] &= (octet)~(1u << (i % 8));
		t[(tb - 1) / 8] |= (octet)(1u << ((tb - 1) % 8));
	}
	for (i = 0, carry = k; i < mo; ++i)
	{
		carry += (unsigned long long)t[i] * ord;
		d[i] = (octet)carry; carry >>= 8;
	}
}
static void rec_pairs(const curve_t* c, int all_ops)
{
	const int N = (int)c->npts + 1;
	word* out = WALLOC(2 * c->n);
	int i, j, op, r;
	for (i = 0; i < N; ++i)
	for (j = 0; j < N; ++j)
	for (op = 0; op < 6; ++op)
	{
		int al = (i + 2 * j + op) % 4, rep = (i + j + op) % 2;
		if (!all_ops && op != (i + 3 * j) % 6) continue;
		if (op >= 4) rep = 0;
		r = pair_call(c, op, al, rep, i, j, out);
		if (r == -9) { al = (i + j) % 3; r = pair_call(c, op, al, rep, i, j, out); }
		if (r == -9) { al = 0; r = pair_call(c, op, al, rep, i, j, out); }
		if (r == -9) continue;
		rec_begin(c, "pair"); jStr("f", POPS[op]); jStr("al", PALS[al]); jInt("rep", rep);
		jPi("P", c, i); jPi("Q", c, j); jP("R", c, r ? out : 0); jEnd();
	}
	free(out);
}
static void rec_unary(const curve_t* c)
{
	const int N = (int)c->npts + 1;
	word* out = WALLOC(2 * c->n);
	int i, op, al, r;
	for (i = 0; i < N; ++i)
	for (op = 0; op < 5; ++op)
	for (al = 0; al < 3; ++al)
	{
		int rep = (i + op + al) % 2;
		if (op >= 2) rep = 0;
		r = unary_call(c, op, al, rep, i, out);
		if (r == -9) continue;
		rec_begin(c, "unary"); jStr("f", UOPS[op]); jStr("al", UALS[al]); jInt("rep", rep);
		jPi("P", c, i); jP("R", c, r ? out : 0); jEnd();
	}
	free(out);
}
/* scalar multiples on a group of small known order: d = k + ord * T in mo octets */
static void rec_mulsub(const curve_t* c, int every)
{
	static const size_t MO[3] = { 8, 16, 48 };
	const size_t n = c->n;
	const int N = (int)c->npts;
	long long k; int i, t = 0;
	word* b = WALLOC(2 * n);
	for (i = 1; i <= N; i += every)
	for (k = 0; k <= 2 * c->iord + 2; ++k, ++t)
	{
		const size_t mo = MO[t % 3], m = W_OF_O(mo);
		const int hi = (t / 3) % 2;
		octet d[64]; word* dw = WALLOC(m); bool_t r;
		big_scalar(d, mo, (unsigned long long)c->iord, (unsigned long long)k, hi);
		wwFrom(dw, d, mo);
		r = ecMulA(b, AFF(c, i), c->ec, dw, m, stk(ecMulA_deep(n, c->ec->d, c->ec->deep, m)));
		rec_begin(c, "mulsub"); jInt("ord", c->iord); jLimbs16("d", d, mo); jPi("P", c, i); jP("R", c, r ? b : 0); jEnd();
		if (k >= 1 && (t % 4) == 0)
		{
			r = ecHasOrderA(AFF(c, i), c->ec, dw, m, stk(ecHasOrderA_deep(n, c->ec->d, c->ec->deep, m)));
			rec_begin(c, "hasordersub"); jInt("ord", c->iord); jLimbs16("d", d, mo); jPi("P", c, i); jBool("res", r); jEnd();
		}
		if ((t % 5) == 0 && i < N)
		{
			word e2 = (word)(k + 1);
			r = ecAddMulA(b, c->ec, stk(ecAddMulA_deep(n, c->ec->d, c->ec->deep, 2, m, (size_t)1)), 2,
				AFF(c, i), dw, m, AFF(c, i + 1), &e2, (size_t)1);
			rec_begin(c, "addmulsub"); jInt("ord", c->iord); jLimbs16("d", d, mo); jInt("e", k + 1);
			jPi("P", c, i); jPi("Q", c, i + 1); jP("R", c, r ? b : 0); jEnd();
		}
		free(dw);
	}
	free(b);
}
/* ec2IsOnA on listed points, on points with a coordinate replaced by another subfield element / moved out of the field.
   The raw words are what the function sees: they are logged as such. */
static void rec_ison(const curve_t* c, int ws)
{
	const size_t n = c->n; int i, v;
	for (i = 1; i <= (int)c->npts; ++i)
	for (v = 0; v < (ws ? 7 : 5); ++v)                          /* 5, 6 depend on the word size: not for the suites */
	{
		word* a = WALLOC(2 * n); bool_t r;
		/* no spare bit in the last word (suites: in the last word of either word size) */
		if (v >= 3 && (c->m % B_PER_W == 0 || (!ws && c->m % 32 == 0))) { free(a); continue; }
		wwCopy(a, AFF(c, i), 2 * n);
		switch (v)
		{
		case 1: wwCopy(a + n, AFF(c, (i % (int)c->npts) + 1) + n, n); break;      /* y of the next point */
		case 2: a[n] ^= 1; break;                                                 /* y + 1: on the curve iff x = 1 */
		case 3: wwSetBit(a, c->m, 1); break;
		case 4: wwSetBit(a + n, c->m, 1); break;
		case 5: wwSetBit(a, B_OF_W(n) - 1, 1); break;
		case 6: memset(a + n, 0xFF, O_OF_W(n)); break;
		}
		r = ec2IsOnA(a, c->ec, stk(ec2IsOnA_deep(n, c->f->deep)));
		rec_begin(c, "ison"); jInt("v", v); jW("x", a, n); jW("y", a + n, n); jBool("res", r); jEnd();
		free(a);
	}
}

/* ---- the standard DSTU 4145 curves: boundary scalars, value lines (a few) and law lines (volume) */
static int mulG(const curve_t* c, word* r, const word* base, const word* d, size_t m)
{
	return ecMulA(r, base, c->ec, d, m, stk(ecMulA_deep(c->n, c->ec->d, c->ec->deep, m)));
}
static void rec_mul_line(const curve_t* c, const char* cls, const word* base, const word* d, size_t m, int heavy)
{
	word* r = WALLOC(2 * c->n); int ok = mulG(c, r, base, d, m);
	rec_begin(c, "mul"); jStr("cls", cls); jInt("heavy", heavy); jW("d", d, m); jP("P", c, base); jP("R", c, ok ? r : 0); jEnd();
	free(r);
}
static void rng_vx(void* buf, size_t count, void* state) { (void)state; vxRandBuf(buf, count); }
static void rec_std(const char* name, const char* oid, int nheavy, int nlaws)
{
	static curve_t C; curve_t* c = &C;
	dstu_params* dp = (dstu_params*)xalloc(sizeof(dstu_params));
	size_t poly[4], no, n, n1, nq;
	octet ao[MAXNO];
	word *G, *d, *e, *qw, *r1, *r2, *P;
	int t, ok1, ok2;
	if (dstuParamsStd(dp, oid) != ERR_OK) { fprintf(stderr, "%s: no such parameters\n", oid); exit(4); }
	poly[0] = dp->p[0]; poly[1] = dp->p[1]; poly[2] = dp->p[2]; poly[3] = dp->p[3];
	no = O_OF_B(poly[0]); n = W_OF_B(poly[0]);
	memset(ao, 0, sizeof(ao)); ao[0] = dp->A;
	/* the standard fixes no base point except for the first curve: a seeded point of order n (DSTU 6.8) */
	if (memIsZero(dp->P, 2 * no) && dstuPointGen(dp->P, dp, rng_vx, 0) != ERR_OK) { fprintf(stderr, "%s: no base point\n", name); exit(4); }
	if (!curve_create(c, name, poly, ao, dp->B) ||
		!ecCreateGroup(c->ec, dp->P, dp->P + no, dp->n, no, dp->c, stk(ecCreateGroup_deep(c->f->deep)))) { fprintf(stderr, "%s: cannot create\n", name); exit(4); }
	n1 = W_OF_O(no + 8);                    /* a scalar 8 octets longer than the order's buffer (any word size) */
	d = WALLOC(n1); e = WALLOC(n1); qw = WALLOC(n1); r1 = WALLOC(2 * n); r2 = WALLOC(2 * n); P = WALLOC(2 * n);
	G = c->ec->base;
	wwSetZero(qw, n1); wwFrom(qw, dp->n, no);
	nq = wwWordSize(qw, n1);                /* significant words of the order */
	/* the group description: hv 0 = the standard's order; 1, 2 = order +- 2^(m/2 + 3) (cofactor times that is outside the
	   Hasse interval whatever the trace is, yet the numbers have the same length); 3, 4 = order +- 1; 5 = order + 2^(m/2 - 3)
	   (mostly inside: the specification decides); 6 = order + 2^(m - 3); 7 = the cofactor + 1 */
	{
		int hv;
		for (hv = 0; hv < 8; ++hv)
		{
			octet qv[MAXNO + 8]; u32 cof = dp->c; size_t k = 0; int sub = 0;
			switch (hv)
			{
			case 1: k = poly[0] / 2 + 3; break;
			case 2: k = poly[0] / 2 + 3; sub = 1; break;
			case 3: k = 0; break;
			case 4: k = 0; sub = 1; break;
			case 5: k = poly[0] / 2 - 3; break;
			case 6: k = poly[0] - 3; break;
			case 7: ++cof; break;
			}
			wwCopy(d, qw, n1);
			if (hv >= 1 && hv <= 6)
			{
				wwSetZero(e, n1); wwSetBit(e, k, 1);
				if (sub) zzSub2(d, e, n1); else zzAdd2(d, e, n1);
			}
			memset(qv, 0, sizeof(qv)); wwTo(qv, no, d);
			if (!ecCreateGroup(c->ec, dp->P, dp->P + no, qv, no, cof, stk(ecCreateGroup_deep(c->f->deep)))) continue;
			rec_begin(c, "group"); jInt("hv", hv); jLimbs16("q", qv, no); jInt("cof", (long long)cof); jP("P", c, c->ec->base);
			if (hv == 0) jBool("valid", ec2IsValid(c->ec, stk(ec2IsValid_deep(n))));
			jBool("seems", ec2SeemsValidGroup(c->ec, stk(ec2SeemsValidGroup_deep(n, c->f->deep))));
			jBool("ison", ec2IsOnA(c->ec->base, c->ec, stk(ec2IsOnA_deep(n, c->f->deep)))); jEnd();
		}
		ecCreateGroup(c->ec, dp->P, dp->P + no, dp->n, no, dp->c, stk(ecCreateGroup_deep(c->f->deep)));
	}
	wwSetZero(d, n1); rec_mul_line(c, "0", G, d, nq, 0);
	d[0] = 1; rec_mul_line(c, "1", G, d, nq, 0); rec_mul_line(c, "1:8 octets", G, d, W_OF_O(8), 0);
	d[0] = 2; rec_mul_line(c, "2", G, d, n1, 0);
	d[0] = 3; rec_mul_line(c, "3", G, d, W_OF_O(8), 0);
	t = 0;
	wwCopy(d, qw, n1); zzSubW2(d, n1, 1); if (t++ < nheavy) rec_mul_line(c, "q-1", G, d, nq, 1);
	wwSetZero(d, n1); vxRandBuf(d, no); if (t++ < nheavy) rec_mul_line(c, "seeded", G, d, nq, 1);
	wwSetZero(d, n1); d[nq] = 1; if (t++ < nheavy) rec_mul_line(c, "2^|q|", G, d, n1, 1);
	wwCopy(d, qw, n1); zzAddW2(d, n1, 1); if (t++ < nheavy) rec_mul_line(c, "q+1", G, d, nq, 1);
	vxRandBuf(d, no + 8); if (t++ < nheavy) rec_mul_line(c, "seeded:m=n+1", G, d, n1, 1);
	/* q G = O: reported as FALSE by ecMulA, TRUE by ecHasOrderA */
	ok1 = mulG(c, r1, G, qw, nq); ok2 = ecHasOrderA(G, c->ec, qw, nq, stk(ecHasOrderA_deep(n, c->ec->d, c->ec->deep, nq)));
	rec_begin(c, "law_order"); jLimbs16("q", dp->n, no); jP("P", c, G); jBool("mul_affine", ok1); jBool("hasorder", ok2);
	ok1 = mulG(c, r1, G, qw, n1); jBool("mul_affine_m1", ok1); jEnd();
	for (t = 0; t < nlaws; ++t)
	{
		const word* base = G; size_t m = (t % 3 == 2) ? n1 : nq;
		if (t % 2) { wwSetZero(e, n1); vxRandBuf(e, no); zzMod(e, e, nq, qw, nq, stk(zzMod_deep(nq, nq))); mulG(c, P, G, e, nq); base = P; }
		switch (t % 5)
		{
		case 0: wwSetZero(d, n1); vxRandBuf(d, no); break;
		case 1: wwCopy(d, qw, n1); zzSubW2(d, n1, 2); break;
		case 2: wwCopy(d, qw, n1); zzSubW2(d, n1, 1); break;
		case 3: wwCopy(d, qw, n1); break;
		default: wwSetZero(d, n1); vxRandBuf(d, no / 2 + 1); break;
		}
		wwCopy(e, d, n1); zzAddW2(e, n1, 1);
		ok1 = mulG(c, r1, base, d, m); ok2 = mulG(c, r2, base, e, m);
		rec_begin(c, "law_succ"); jW("d", d, m); jW("e", e, m); jP("P", c, base); jP("R1", c, ok1 ? r1 : 0); jP("R2", c, ok2 ? r2 : 0); jEnd();
		wwSetZero(d, n1); vxRandBuf(d, no); zzMod(d, d, nq, qw, nq, stk(zzMod_deep(nq, nq)));
		if (t % 4 == 1) wwSetW(d, n1, 1);
		if (wwIsZero(d, nq)) d[0] = 5;
		wwSetZero(e, n1); zzSub(e, qw, d, nq);
		ok1 = mulG(c, r1, base, d, nq); ok2 = mulG(c, r2, base, e, nq);
		rec_begin(c, "law_neg"); jLimbs16("q", dp->n, no); jW("d", d, nq); jW("e", e, nq); jP("P", c, base); jP("R1", c, ok1 ? r1 : 0); jP("R2", c, ok2 ? r2 : 0); jEnd();
		if (t % 2)
		{
			word* s1 = WALLOC(2 * n); word* s2 = WALLOC(2 * n); word* s3 = WALLOC(2 * n); int o1, o2, o3;
			wwSetZero(d, n1); vxRandBuf(d, no); wwSetZero(e, n1); vxRandBuf(e, no);
			if (t % 4 == 3) wwSetZero(e, nq), e[0] = 1;
			o1 = mulG(c, s1, G, d, nq); o2 = mulG(c, s2, P, e, nq);
			o3 = ecAddMulA(s3, c->ec, stk(ecAddMulA_deep(n, c->ec->d, c->ec->deep, 2, nq, nq)), 2, G, d, nq, P, e, nq);
			rec_begin(c, "law_addmul"); jP("R1", c, o1 ? s1 : 0); jP("R2", c, o2 ? s2 : 0); jP("R", c, o3 ? s3 : 0); jEnd();
			free(s1); free(s2); free(s3);
		}
	}
	free(d); free(e); free(qw); free(r1); free(r2); free(P); free(dp);
	curve_free(c);
}

/* ------------------------------------------------------------------ command loop (both modes) */
static int run(int record)
{
	static curve_t C;
	char* line = 0; size_t cap = 0; int have = 0;
	vx_cmd cmd;
	while (getline(&line, &cap, stdin) > 0)
	{
		if (!vxParse(&cmd, line)) continue;
		if (strcmp(cmd.op, "curve") == 0)
		{
			size_t l2, l3, l4, l5, l6, poly[4], no;
			octet* a = vxHex(&cmd, "a", &l2); octet* b = vxHex(&cmd, "b", &l3);
			octet* pts = vxHex(&cmd, "pts", &l4); octet* ord = vxHex(&cmd, "ord", &l5); octet* elts = vxHex(&cmd, "elts", &l6);
			poly[0] = (size_t)vxInt(&cmd, "m", 0); poly[1] = (size_t)vxInt(&cmd, "k", 0);
			poly[2] = (size_t)vxInt(&cmd, "l", 0); poly[3] = (size_t)vxInt(&cmd, "l1", 0);
			no = O_OF_B(poly[0]);
			if (have) curve_free(&C);
			have = 0;
			if (no > MAXNO || l2 != no || l3 != no || l4 % (2 * no) || l6 % no || l5 > sizeof(C.ord) ||
				!curve_create(&C, vxArg(&cmd, "name"), poly, a, b) || !curve_points(&C, pts, l4 / (2 * no)))
			{
				if (!record) { jBegin(); jStr("curve", vxArg(&cmd, "name")); jStr("op", "create"); jInt("ok", 0); jEnd(); }
			}
			else
			{
				size_t i;
				memcpy(C.ord, ord, l5); C.ord_len = l5;
				for (C.iord = 0, i = l5; i--;) C.iord = C.iord * 256 + ord[i];
				C.elts = (octet*)xalloc(l6); memcpy(C.elts, elts, l6); C.nelts = l6 / no;
				have = 1;
				if (!record)
				{
					jBegin(); jStr("curve", C.name); jStr("op", "create"); jInt("ok", 1); jInt("n", (long long)C.n);
					jInt("W", B_PER_W); jInt("valid", ec2IsValid(C.ec, stk(ec2IsValid_deep(C.n))));
					/* ec.h: "the pointer to an unsupported function must be null" (tripling is not supported in LD coordinates) -
					   whatever the memory of the description held before; the field description must be valid in dirty memory too */
					jInt("tplnull", C.ec->tpl == 0); jInt("fvalid", gf2IsValid(C.f, stk(gf2IsValid_deep(C.n)))); jEnd();
				}
			}
			free(a); free(b); free(pts); free(ord); free(elts);
			continue;
		}
		if (record && strcmp(cmd.op, "std") == 0)
		{
			rec_std(vxArg(&cmd, "name"), vxArg(&cmd, "oid"), (int)vxInt(&cmd, "heavy", 0), (int)vxInt(&cmd, "laws", 4));
			continue;
		}
		if (!have) continue;
		if (strcmp(cmd.op, "mult") == 0)
		{
			size_t l; octet* d = vxHex(&cmd, "d", &l);
			if (C.nmult < 8 && l <= 64) { C.mult[C.nmult].mo = l; memcpy(C.mult[C.nmult].d, d, l); ++C.nmult; }
			free(d);
		}
		else if (record)
		{
			if (strcmp(cmd.op, "rpairs") == 0) rec_pairs(&C, (int)vxInt(&cmd, "all", 0));
			else if (strcmp(cmd.op, "runary") == 0) rec_unary(&C);
			else if (strcmp(cmd.op, "rmulsub") == 0) rec_mulsub(&C, (int)vxInt(&cmd, "every", 3));
			else if (strcmp(cmd.op, "rison") == 0) rec_ison(&C, (int)vxInt(&cmd, "ws", 0));
		}
		else if (strcmp(cmd.op, "pairs") == 0) do_pairs(&C);
		else if (strcmp(cmd.op, "unary") == 0) do_unary(&C);
		else if (strcmp(cmd.op, "mul") == 0) do_mul(&C, &cmd, 0);
		else if (strcmp(cmd.op, "hasorder") == 0) do_mul(&C, &cmd, 1);
		else if (strcmp(cmd.op, "addmul") == 0) do_addmul(&C, &cmd);
		else if (strcmp(cmd.op, "ison") == 0) do_ison(&C);
		fflush(stdout);
	}
	if (have) curve_free(&C);
	free(line);
	return 0;
}

int main(int argc, char** argv)
{
	vxSeed(vxEnvSeed());
	signal(SIGABRT, on_abort);
	if (getenv("VERIF_FILL")) FILL = atoi(getenv("VERIF_FILL"));
	if (getenv("VERIF_STACK_SLACK")) SLACK = (size_t)atoi(getenv("VERIF_STACK_SLACK"));
	if (argc >= 2 && strcmp(argv[1], "exec") == 0) return run(0);
	if (argc >= 2 && strcmp(argv[1], "record") == 0) return run(1);
	fprintf(stderr, "usage: drv_ec2 exec | record   (commands on stdin)\n");
	return 2;
}
