/* C20: extraction of the transition table of btokPwdTransition, replay of event
   histories, and seeded random walks (record direction). */
#include "vx.h"
#include <bee2/crypto/btok.h>

static const char* evn[] = {"pin_ok","pin_bad","pin_deactivate","pin_activate",
	"can_ok","can_bad","puk_ok","puk_bad","auth_close"};

static int evIndex(const char* s)
{
	int i;
	for (i = 0; i < 9; ++i) if (strcmp(evn[i], s) == 0) return i;
	return atoi(s);
}

static void emit(const char* tag, int pin, int auth, int ev, int ok, int pin2, int auth2)
{
	jBegin(); jStr("e", tag); jInt("pin", pin); jInt("auth", auth);
	if (ev >= 0 && ev < 9) jStr("ev", evn[ev]); else jStr("ev", "out_of_range");
	jInt("evn", ev); jBool("ok", ok); jInt("pin2", pin2); jInt("auth2", auth2); jEnd();
}

int main(int argc, char** argv)
{
	const char* mode = argc > 1 ? argv[1] : "table";
	if (strcmp(mode, "table") == 0)
	{
		int pin, auth, ev;
		static const int evs[] = {0,1,2,3,4,5,6,7,8,9,10,11,64,255,-1,1000000};
		for (pin = 0; pin < 16; ++pin)
		for (auth = 0; auth < 4; ++auth)
		for (ev = 0; ev < (int)(sizeof(evs)/sizeof(evs[0])); ++ev)
		{
			btok_pwd_state st; bool_t ok;
			st.pin = (btok_pin_state)pin; st.auth = (btok_auth_state)auth;
			ok = btokPwdTransition(&st, (btok_pwd_event)evs[ev]);
			emit("T", pin, auth, evs[ev], ok != 0, (int)st.pin, (int)st.auth);
		}
	}
	else if (strcmp(mode, "walk") == 0)
	{
		/* stdin: lines "walk pin=P auth=A evs=e1,e2,..." ; prints one line per step */
		char line[1 << 16]; vx_cmd c;
		while (fgets(line, sizeof line, stdin))
		{
			btok_pwd_state st; char* evs; char* tok;
			if (!vxParse(&c, line)) continue;
			st.pin = (btok_pin_state)vxInt(&c, "pin", 15);
			st.auth = (btok_auth_state)vxInt(&c, "auth", 0);
			jBegin(); jStr("e", "Reset"); jInt("pin", st.pin); jInt("auth", st.auth); jEnd();
			evs = (char*)vxArg(&c, "evs");
			for (tok = evs ? strtok(evs, ",") : 0; tok; tok = strtok(0, ","))
			{
				int ev = evIndex(tok), p = st.pin, a = st.auth;
				bool_t ok = btokPwdTransition(&st, (btok_pwd_event)ev);
				emit("Ev", p, a, ev, ok != 0, (int)st.pin, (int)st.auth);
			}
		}
	}
	else if (strcmp(mode, "record") == 0)
	{
		/* seeded random walks: argv[2] = number of walks, argv[3] = steps per walk */
		long walks = argc > 2 ? atol(argv[2]) : 100, steps = argc > 3 ? atol(argv[3]) : 60, w, s;
		vxSeed(vxEnvSeed());
		for (w = 0; w < walks; ++w)
		{
			btok_pwd_state st;
			st.pin = (btok_pin_state)vxRandN(16); st.auth = auth_none;
			jBegin(); jStr("e", "Reset"); jInt("pin", st.pin); jInt("auth", st.auth); jEnd();
			for (s = 0; s < steps; ++s)
			{
				/* bias towards bad events so that blocked states are reached */
				static const int bias[] = {0,1,1,1,2,3,4,5,6,7,7,7,8,1,7,6,2,3};
				int ev = bias[vxRandN(sizeof(bias)/sizeof(bias[0]))], p = st.pin, a = st.auth;
				bool_t ok = btokPwdTransition(&st, (btok_pwd_event)ev);
				emit("Ev", p, a, ev, ok != 0, (int)st.pin, (int)st.auth);
			}
		}
	}
	return 0;
}
