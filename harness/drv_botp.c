/* C03: call histories on ONE botp state object (botpHOTP* / botpTOTP* / botpOCRA* Start/StepS/StepR/StepV/StepG).
   run            : stdin = histories (one call per line, "case id=.." .. "end"), e.g. enumerated by spec/mc/MC_BotpSM;
                    every call is executed on one real state object and logged with everything it returned
   rand <n> <len> : n seeded random histories of len calls each (record direction), same log
   Log = ndjson, one line per call, histories separated by {"e":"Reset","id":..}:
     {"e":"HotpStart","digit":d,"key":[..]}            {"e":"HotpStepS","ctr":[8],"pc":[8]}
     {"e":"HotpStepR","otp":[codes],"pc":[8]}          {"e":"HotpStepV","arg":[codes],"ok":b,"pc":[8]}
     {"e":"HotpStepG","got":[8],"pc":[8]}              {"e":"Move","pc":[8]}
     {"e":"TotpStart",..} {"e":"TotpStepR","t":[4 limbs],"otp":..} {"e":"TotpStepV","t":..,"arg":..,"ok":b}
     {"e":"OcraStart","suite":[codes],"key":[..],"ok":b} {"e":"OcraStepS","ctr":..,"p":..,"s":..,"pc":..}
     {"e":"OcraStepR","q":..,"t":..,"otp":..,"pc":..}  {"e":"OcraStepV","q":..,"t":..,"arg":..,"ok":b,"pc":..} {"e":"OcraStepG","got":..,"pc":..}
   pc = the counter the object holds after the call: StepG on a byte copy of the object ("Состояние можно копировать
   как фрагмент памяти"), logged once StepS was called (HOTP, OCRA).  The object lives in a block of exactly
   _keep() octets followed by a canary; output buffers are canaried too; a violated canary is logged as {"e":"CANARY"}. */
#include "vx.h"
#include <bee2/core/err.h>
#include <bee2/core/mem.h>
#include <bee2/core/str.h>
#include <bee2/core/tm.h>
#include <bee2/crypto/botp.h>

enum { F_NONE, F_HOTP, F_TOTP, F_OCRA };
#define CAN 16

typedef struct
{
	int fam; size_t keep; octet* st; int sset;     /* sset: StepS was called after the last Start */
	octet* olds[64]; size_t nold;
} obj_t;

static void jS(const char* k, const char* s) { jOct(k, s, strlen(s)); }

static octet* blk(size_t keep)
{
	octet* p = (octet*)malloc(keep + CAN);
	if (!p) exit(3);
	memset(p, 0xC3, keep); memset(p + keep, 0xA7, CAN);
	return p;
}
static int blkOk(const octet* p, size_t keep)
{
	size_t i; for (i = 0; i < CAN; ++i) if (p[keep + i] != 0xA7) return 0;
	return 1;
}
static void canary(const char* what) { jBegin(); jStr("e", "CANARY"); jStr("what", what); jEnd(); }

static void objFree(obj_t* o)
{
	size_t i;
	for (i = 0; i < o->nold; ++i) free(o->olds[i]);
	o->nold = 0;
	if (o->st) free(o->st);
	o->st = 0; o->fam = F_NONE; o->sset = 0; o->keep = 0;
}
/* a new Start: the object is re-formed in the same block when the bundle is the same, else in a fresh block */
static void objFor(obj_t* o, int fam)
{
	size_t keep = fam == F_HOTP ? botpHOTP_keep() : fam == F_TOTP ? botpTOTP_keep() : botpOCRA_keep();
	if (o->fam != fam || !o->st)
	{
		objFree(o);
		o->st = blk(keep); o->keep = keep; o->fam = fam;
	}
	o->sset = 0;
}
static void objCheck(obj_t* o) { if (o->st && !blkOk(o->st, o->keep)) canary("state block"); }
/* relocation: copy to a fresh block, scribble the old one (kept allocated so that the address is not reused) */
static void objMove(obj_t* o)
{
	octet* n;
	if (!o->st || o->nold >= 64) return;
	n = blk(o->keep); memcpy(n, o->st, o->keep);
	memset(o->st, 0x5A, o->keep);
	o->olds[o->nold++] = o->st; o->st = n;
}
/* projected counter: StepG on a byte copy */
static void logPc(obj_t* o)
{
	octet pc[8 + CAN]; octet* cp;
	if (!o->sset || (o->fam != F_HOTP && o->fam != F_OCRA)) return;
	cp = blk(o->keep); memcpy(cp, o->st, o->keep);
	memset(pc, 0xA7, sizeof pc);
	if (o->fam == F_HOTP) botpHOTPStepG(pc, cp); else botpOCRAStepG(pc, cp);
	jOct("pc", pc, 8);
	free(cp);
}

/* output buffer of a password with canaries on both sides */
typedef struct { char pre[CAN]; char s[32]; char post[CAN]; } otp_t;
static void otpInit(otp_t* b) { memset(b, 0x7E, sizeof *b); }
static int otpOk(const otp_t* b, size_t digit)
{
	size_t i;
	for (i = 0; i < CAN; ++i) if (b->pre[i] != 0x7E || b->post[i] != 0x7E) return 0;
	for (i = digit + 1; i < 32; ++i) if (b->s[i] != 0x7E) return 0;       /* exactly digit + 1 octets are written */
	return b->s[digit] == 0;
}

static tm_time_t timeOf(const octet be[8])
{
	uint64_t v = 0; int i;
	for (i = 0; i < 8; ++i) v = (v << 8) | be[i];
	return (tm_time_t)v;
}

/* ---- the calls (each logs its line) */
static size_t g_digit = 0;       /* digits of the current object (known from Start: the checks of the output buffer) */

static void doHotpStart(obj_t* o, size_t digit, const octet* key, size_t klen)
{
	objFor(o, F_HOTP);
	botpHOTPStart(o->st, digit, key, klen); g_digit = digit;
	jBegin(); jStr("e", "HotpStart"); jInt("digit", (long long)digit); jOct("key", key, klen); jEnd();
	objCheck(o);
}
static void doHotpS(obj_t* o, const octet ctr[8])
{
	botpHOTPStepS(o->st, ctr); o->sset = 1;
	jBegin(); jStr("e", "HotpStepS"); jOct("ctr", ctr, 8); logPc(o); jEnd();
	objCheck(o);
}
static void doHotpR(obj_t* o, char* out)
{
	otp_t b; otpInit(&b);
	botpHOTPStepR(b.s, o->st);
	if (!otpOk(&b, g_digit)) { b.s[31] = 0; canary("otp buffer"); }
	jBegin(); jStr("e", "HotpStepR"); jS("otp", b.s); logPc(o); jEnd();
	if (out) strcpy(out, b.s);
	objCheck(o);
}
static void doHotpV(obj_t* o, const char* arg)
{
	bool_t ok = botpHOTPStepV(arg, o->st);
	jBegin(); jStr("e", "HotpStepV"); jS("arg", arg); jBool("ok", ok != 0); logPc(o); jEnd();
	objCheck(o);
}
static void doHotpG(obj_t* o)
{
	octet c[8 + CAN]; memset(c, 0xA7, sizeof c);
	botpHOTPStepG(c, o->st);
	if (c[8] != 0xA7) canary("ctr buffer");
	jBegin(); jStr("e", "HotpStepG"); jOct("got", c, 8); logPc(o); jEnd();
	objCheck(o);
}
static void doMove(obj_t* o)
{
	objMove(o);
	jBegin(); jStr("e", "Move"); logPc(o); jEnd();
}
static void doTotpStart(obj_t* o, size_t digit, const octet* key, size_t klen)
{
	objFor(o, F_TOTP);
	botpTOTPStart(o->st, digit, key, klen); g_digit = digit;
	jBegin(); jStr("e", "TotpStart"); jInt("digit", (long long)digit); jOct("key", key, klen); jEnd();
	objCheck(o);
}
static void doTotpR(obj_t* o, tm_time_t t, char* out)
{
	otp_t b; otpInit(&b);
	botpTOTPStepR(b.s, t, o->st);
	if (!otpOk(&b, g_digit)) { b.s[31] = 0; canary("otp buffer"); }
	jBegin(); jStr("e", "TotpStepR"); jLimbs16("t", &t, 8); jS("otp", b.s); jEnd();
	if (out) strcpy(out, b.s);
	objCheck(o);
}
static void doTotpV(obj_t* o, tm_time_t t, const char* arg)
{
	bool_t ok = botpTOTPStepV(arg, t, o->st);
	jBegin(); jStr("e", "TotpStepV"); jLimbs16("t", &t, 8); jS("arg", arg); jBool("ok", ok != 0); jEnd();
	objCheck(o);
}
static int doOcraStart(obj_t* o, const char* suite, const octet* key, size_t klen)
{
	bool_t ok;
	objFor(o, F_OCRA);
	ok = botpOCRAStart(o->st, suite, key, klen);
	/* digits of the suite: "OCRA-1:HOTP-HBELT-d:..." */
	g_digit = ok && strlen(suite) > 18 ? (size_t)(suite[18] - '0') : 0;
	jBegin(); jStr("e", "OcraStart"); jS("suite", suite); jOct("key", key, klen); jBool("ok", ok != 0); jEnd();
	objCheck(o);
	return ok != 0;
}
static void doOcraS(obj_t* o, const octet ctr[8], const octet* p, size_t plen, const octet* s, size_t slen)
{
	botpOCRAStepS(o->st, ctr, p, s); o->sset = 1;
	jBegin(); jStr("e", "OcraStepS"); jOct("ctr", ctr, 8); jOct("p", p, plen); jOct("s", s, slen); logPc(o); jEnd();
	objCheck(o);
}
static void doOcraR(obj_t* o, const octet* q, size_t qlen, tm_time_t t, char* out)
{
	otp_t b; otpInit(&b);
	botpOCRAStepR(b.s, q, qlen, t, o->st);
	if (!otpOk(&b, g_digit)) { b.s[31] = 0; canary("otp buffer"); }
	jBegin(); jStr("e", "OcraStepR"); jOct("q", q, qlen); jLimbs16("t", &t, 8); jS("otp", b.s); logPc(o); jEnd();
	if (out) strcpy(out, b.s);
	objCheck(o);
}
static void doOcraV(obj_t* o, const octet* q, size_t qlen, tm_time_t t, const char* arg)
{
	bool_t ok = botpOCRAStepV(arg, q, qlen, t, o->st);
	jBegin(); jStr("e", "OcraStepV"); jOct("q", q, qlen); jLimbs16("t", &t, 8); jS("arg", arg); jBool("ok", ok != 0); logPc(o); jEnd();
	objCheck(o);
}
static void doOcraG(obj_t* o)
{
	octet c[8 + CAN]; memset(c, 0xA7, sizeof c);
	botpOCRAStepG(c, o->st);
	if (c[8] != 0xA7) canary("ctr buffer");
	jBegin(); jStr("e", "OcraStepG"); jOct("got", c, 8); logPc(o); jEnd();
	objCheck(o);
}

/* ------------------------------------------------------------------ run: histories from stdin */
static char* hexStr(const vx_cmd* c, const char* k)      /* hex of character codes -> C string */
{
	size_t n; octet* b = vxHex(c, k, &n); char* s = (char*)malloc(n + 1);
	if (b) memcpy(s, b, n);
	s[n] = 0; free(b); return s;
}

static int runMain(void)
{
	static char line[1 << 16]; vx_cmd c; obj_t o; int active = 0, dead = 0;
	memset(&o, 0, sizeof o);
	while (fgets(line, sizeof line, stdin))
	{
		size_t n = 0, m = 0, k = 0; octet *a = 0, *b = 0, *d = 0; char* s = 0;
		if (!vxParse(&c, line)) continue;
		if (strcmp(c.op, "case") == 0)
		{
			objFree(&o); active = 1; dead = 0;
			jBegin(); jStr("e", "Reset"); jStr("id", vxArg(&c, "id") ? vxArg(&c, "id") : "?"); jEnd();
			continue;
		}
		if (strcmp(c.op, "end") == 0) { objFree(&o); active = 0; continue; }
		if (!active) continue;
		if (strcmp(c.op, "HotpStart") == 0) { a = vxHex(&c, "key", &n); doHotpStart(&o, (size_t)vxInt(&c, "digit", 6), a, n); dead = 0; }
		else if (strcmp(c.op, "TotpStart") == 0) { a = vxHex(&c, "key", &n); doTotpStart(&o, (size_t)vxInt(&c, "digit", 6), a, n); dead = 0; }
		else if (strcmp(c.op, "OcraStart") == 0) { a = vxHex(&c, "key", &n); s = hexStr(&c, "suite"); dead = !doOcraStart(&o, s, a, n); }
		else if (dead || !o.st) { jBegin(); jStr("e", "SKIPPED"); jStr("op", c.op); jEnd(); }     /* never on a generated history */
		else if (strcmp(c.op, "Move") == 0) doMove(&o);
		else if (o.fam == F_HOTP && strcmp(c.op, "HotpStepS") == 0) { a = vxHex(&c, "ctr", &n); if (n == 8) doHotpS(&o, a); }
		else if (o.fam == F_HOTP && strcmp(c.op, "HotpStepR") == 0) doHotpR(&o, 0);
		else if (o.fam == F_HOTP && strcmp(c.op, "HotpStepV") == 0) { s = hexStr(&c, "arg"); doHotpV(&o, s); }
		else if (o.fam == F_HOTP && strcmp(c.op, "HotpStepG") == 0) doHotpG(&o);
		else if (o.fam == F_TOTP && strcmp(c.op, "TotpStepR") == 0) { a = vxHex(&c, "t", &n); if (n == 8) doTotpR(&o, timeOf(a), 0); }
		else if (o.fam == F_TOTP && strcmp(c.op, "TotpStepV") == 0) { a = vxHex(&c, "t", &n); s = hexStr(&c, "arg"); if (n == 8) doTotpV(&o, timeOf(a), s); }
		else if (o.fam == F_OCRA && strcmp(c.op, "OcraStepS") == 0)
		{
			a = vxHex(&c, "ctr", &n); b = vxHex(&c, "p", &m); d = vxHex(&c, "s", &k);
			if (n == 8) doOcraS(&o, a, b, m, d, k);
		}
		else if (o.fam == F_OCRA && strcmp(c.op, "OcraStepR") == 0) { a = vxHex(&c, "q", &n); b = vxHex(&c, "t", &m); if (m == 8) doOcraR(&o, a, n, timeOf(b), 0); }
		else if (o.fam == F_OCRA && strcmp(c.op, "OcraStepV") == 0)
		{
			a = vxHex(&c, "q", &n); b = vxHex(&c, "t", &m); s = hexStr(&c, "arg");
			if (m == 8) doOcraV(&o, a, n, timeOf(b), s);
		}
		else if (o.fam == F_OCRA && strcmp(c.op, "OcraStepG") == 0) doOcraG(&o);
		else { jBegin(); jStr("e", "UNKNOWN"); jStr("op", c.op); jEnd(); }
		free(a); free(b); free(d); free(s);
	}
	objFree(&o);
	return 0;
}

/* ------------------------------------------------------------------ rand: seeded random histories
   The arguments of StepV are built from the library's own one-shot functions on the counter the object holds
   (right / one digit altered / stale = the last generated password / the next counter's); whatever they are,
   the specification judges the outcome. */
static void ctrClass(octet ctr[8], size_t c)
{
	vxRandBuf(ctr, 8);
	switch (c % 7)
	{
	case 1: ctr[7] = 0xFE; break;
	case 2: ctr[7] = ctr[6] = 0xFF; break;
	case 3: memset(ctr + 4, 0xFF, 4); ctr[7] = 0xFD; break;
	case 4: memset(ctr, 0xFF, 8); ctr[7] = 0xFC; break;
	case 5: memset(ctr, 0, 8); break;
	case 6: memset(ctr, 0xFF, 8); break;
	default: break;
	}
}
static void alter(char* o) { size_t n = strlen(o); if (n) { size_t i = vxRandN(n); o[i] = (char)('0' + (o[i] - '0' + 1 + vxRandN(9)) % 10); } }
static void curCtr(octet pc[8], obj_t* o)
{
	octet* cp = blk(o->keep); memcpy(cp, o->st, o->keep);
	if (o->fam == F_HOTP) botpHOTPStepG(pc, cp); else botpOCRAStepG(pc, cp);
	free(cp);
}

static const size_t klens[] = {32, 0, 1, 31, 33, 64, 100};
static const char* rsuites[] = {
	"OCRA-1:HOTP-HBELT-8:C-QN08-PHBELT-S064-T1M", "OCRA-1:HOTP-HBELT-6:C-QA04", "OCRA-1:HOTP-HBELT-7:QH16-PSHA1-T1H",
	"OCRA-1:HOTP-HBELT-4:QN08", "OCRA-1:HOTP-HBELT-9:C-QN10-S008", "OCRA-1:HOTP-HBELT-5:C-QH64-PSHA512-S128-T59S"};
static const size_t rqmax[] = {8, 4, 16, 8, 10, 64};
static const size_t rplen[] = {32, 0, 20, 0, 0, 64};
static const size_t rslen[] = {64, 0, 0, 0, 8, 128};
static const int rctr[] = {1, 1, 0, 0, 1, 1};
static const int rts[] = {1, 0, 1, 0, 0, 1};

static void randHotp(obj_t* o, long len, size_t idx)
{
	octet key[128], ctr[8], pc[8]; char last[32] = "", arg[32]; size_t klen, digit; long k;
	digit = 6 + idx % 3; klen = klens[(idx / 3) % 7];
	vxRandBuf(key, klen);
	doHotpStart(o, digit, key, klen);
	ctrClass(ctr, idx / 2); doHotpS(o, ctr);
	for (k = 0; k < len; ++k)
	{
		size_t r = vxRandN(100);
		if (!o->sset) { ctrClass(ctr, vxRandN(7)); doHotpS(o, ctr); }
		else if (r < 30) doHotpR(o, last);
		else if (r < 65)
		{
			size_t v = vxRandN(5);
			curCtr(pc, o);
			if (v == 3) botpCtrNext(pc);
			if (v == 2 && last[0]) strcpy(arg, last);
			else if (botpHOTPRand(arg, digit, key, klen, pc) != ERR_OK) strcpy(arg, "000000");
			if (v == 1) alter(arg);
			if (v == 4) arg[strlen(arg) - 1] = 0;
			doHotpV(o, arg);
		}
		else if (r < 78) doHotpG(o);
		else if (r < 86) { ctrClass(ctr, vxRandN(7)); doHotpS(o, ctr); }
		else if (r < 95) doMove(o);
		else
		{
			digit = 6 + vxRandN(3); klen = klens[vxRandN(7)]; vxRandBuf(key, klen); last[0] = 0;
			doHotpStart(o, digit, key, klen);
		}
	}
}

static tm_time_t randTime(void)
{
	switch (vxRandN(6))
	{
	case 0: return (tm_time_t)0;
	case 1: return (tm_time_t)0xFFFFFFFFull;
	case 2: return (tm_time_t)0x100000000ull;
	case 3: return (tm_time_t)0xFFFFFFFFFFFFFFFEull;
	default: return (tm_time_t)(vxRand64() >> (8 * vxRandN(6)));
	}
}

static void randTotp(obj_t* o, long len, size_t idx)
{
	octet key[128]; char last[32] = "", arg[32]; size_t klen, digit; long k; tm_time_t t = randTime(), t2;
	digit = 6 + idx % 3; klen = klens[(idx / 3) % 7];
	vxRandBuf(key, klen);
	doTotpStart(o, digit, key, klen);
	for (k = 0; k < len; ++k)
	{
		size_t r = vxRandN(100);
		if (t == TIME_ERR) t = 0;
		if (r < 35) doTotpR(o, t, last);
		else if (r < 75)
		{
			size_t v = vxRandN(4);
			t2 = v == 3 ? (tm_time_t)((uint64_t)t + 1) : t;
			if (t2 == TIME_ERR) t2 = 1;
			if (v == 2 && last[0]) strcpy(arg, last);
			else if (botpTOTPRand(arg, digit, key, klen, t) != ERR_OK) strcpy(arg, "000000");
			if (v == 1) alter(arg);
			doTotpV(o, t2, arg);
		}
		else if (r < 85) t = randTime();
		else if (r < 94) doMove(o);
		else
		{
			digit = 6 + vxRandN(3); klen = klens[vxRandN(7)]; vxRandBuf(key, klen); last[0] = 0;
			doTotpStart(o, digit, key, klen);
		}
	}
}

static void randOcra(obj_t* o, long len, size_t idx)
{
	octet key[128], ctr[8], pc[8], q[128], p[64], s[128]; char last[32] = "", arg[32];
	size_t klen, si = idx % 6, qlen; long k; tm_time_t t = randTime();
	klen = klens[(idx / 6) % 7]; vxRandBuf(key, klen);
	if (!doOcraStart(o, rsuites[si], key, klen)) return;
	for (k = 0; k < len; ++k)
	{
		size_t r = vxRandN(100);
		int needS = rctr[si] || rplen[si] || rslen[si];
		if (t == TIME_ERR) t = 0;
		qlen = 4 + vxRandN(2 * rqmax[si] - 3); vxRandBuf(q, qlen);
		if ((needS && !o->sset) || r < 10)
		{
			ctrClass(ctr, vxRandN(7)); vxRandBuf(p, 64); vxRandBuf(s, 128);
			doOcraS(o, ctr, p, rplen[si], s, rslen[si]);
		}
		else if (r < 35) doOcraR(o, q, qlen, t, last);
		else if (r < 68)
		{
			size_t v = vxRandN(4);
			memset(pc, 0, 8);
			if (rctr[si]) curCtr(pc, o);
			if (v == 3) botpCtrNext(pc);
			if (v == 2 && last[0]) strcpy(arg, last);
			else if (botpOCRARand(arg, rsuites[si], key, klen, q, qlen, pc, p, s, t) != ERR_OK) strcpy(arg, "0000");
			if (v == 1) alter(arg);
			doOcraV(o, q, qlen, t, arg);
		}
		else if (r < 78) { if (o->sset) doOcraG(o); }
		else if (r < 84) t = randTime();
		else if (r < 93) doMove(o);
		else
		{
			si = vxRandN(6); klen = klens[vxRandN(7)]; vxRandBuf(key, klen); last[0] = 0;
			if (!doOcraStart(o, rsuites[si], key, klen)) return;
		}
	}
	(void)rts;
}

static int randMain(long n, long len)
{
	obj_t o; long i; char id[64];
	memset(&o, 0, sizeof o);
	for (i = 0; i < n; ++i)
	{
		objFree(&o);
		sprintf(id, "rand_%s_%ld", i % 3 == 0 ? "hotp" : i % 3 == 1 ? "totp" : "ocra", i);
		jBegin(); jStr("e", "Reset"); jStr("id", id); jEnd();
		if (i % 3 == 0) randHotp(&o, len, (size_t)(i / 3));
		else if (i % 3 == 1) randTotp(&o, len, (size_t)(i / 3));
		else randOcra(&o, len, (size_t)(i / 3));
	}
	objFree(&o);
	return 0;
}

int main(int argc, char** argv)
{
	const char* mode = argc > 1 ? argv[1] : "run";
	vxSeed(vxEnvSeed());
	if (strcmp(mode, "run") == 0) return runMain();
	if (strcmp(mode, "rand") == 0) return randMain(argc > 2 ? atol(argv[2]) : 12, argc > 3 ? atol(argv[3]) : 10);
	return 2;
}
