/* C14 part 2: control-flow noninterference sensor.
   For every entry point and public length, the call is executed in a forked child under
   ptrace(PTRACE_SINGLESTEP) for several SECRET variants (equal / first difference at every
   position / boundary values / multiples of the modulus / different keys); the parent hashes
   the sequence of program counters between two marker functions.  One ndjson line per
   observation; spec/mon/CT.tla requires all observations of one (entry, public length) to agree.
   The library under test is the optimised build of the current tree (variant rel = -O2, rel3 = -O3).

   usage: drv_ct list | drv_ct run <first> <count>   (entries are numbered; python shards them) */
#include "vx.h"
#include <sys/ptrace.h>
#include <sys/wait.h>
#include <sys/user.h>
#include <unistd.h>
#include <signal.h>
#include <bee2/core/mem.h>
#include <bee2/core/hex.h>
#include <bee2/core/u16.h>
#include <bee2/core/u32.h>
#include <bee2/core/u64.h>
#include <bee2/core/word.h>
#include <bee2/core/util.h>
#include <bee2/math/ww.h>
#include <bee2/math/zz.h>
#include <bee2/crypto/belt.h>
#include <bee2/crypto/bash.h>

volatile long long ct_sink;
__attribute__((noinline)) void ct_mark_begin(void) { __asm__ volatile("" ::: "memory"); }
__attribute__((noinline)) void ct_mark_end(void) { __asm__ volatile("" ::: "memory"); }
#define MEASURE(expr) do { ct_mark_begin(); ct_sink = (long long)(expr); ct_mark_end(); } while (0)
#define MEASUREV(stmt) do { ct_mark_begin(); stmt; ct_mark_end(); } while (0)

#define NW 9
static word A[2 * NW + 2], B[2 * NW + 2], C[2 * NW + 2], M[NW + 2], P[NW + 4];
static octet X[256], Y[256];
static octet ST[8192], STK[8192];

/* deterministic filler independent of the variant unless asked */
static void fillw(word* a, size_t n, unsigned salt)
{
	size_t i; uint64_t s = 0x9E3779B97F4A7C15ull * (salt + 1);
	for (i = 0; i < n; ++i) { s ^= s >> 29; s *= 0xBF58476D1CE4E5B9ull; s ^= s >> 32; a[i] = (word)s; }
}
static void fillo(octet* a, size_t n, unsigned salt)
{
	size_t i; uint64_t s = 0x9E3779B97F4A7C15ull * (salt + 1);
	for (i = 0; i < n; ++i) { s ^= s >> 29; s *= 0xBF58476D1CE4E5B9ull; s ^= s >> 32; a[i] = (octet)s; }
}

/* ---- entries.  n = public length (octets or words), v = secret variant, nv(n) = number of variants */
typedef struct { const char* name; const char* unit; int (*nv)(int n); void (*run)(int n, int v); const int* lens; } entry_t;

static const int LO[] = {0, 1, 7, 8, 9, 16, 33, -1};		/* octet lengths */
static const int LW[] = {0, 1, 2, 3, 4, 8, -1};			/* word lengths */
static const int LW1[] = {1, 2, 3, 4, 8, -1};
static const int LW2[] = {2, 3, 4, 8, -1};
static const int L1[] = {1, -1};
static const int LBLK[] = {16, 32, 48, -1};
static const int LMSG[] = {0, 13, 16, 33, -1};

static int nvCmp(int n) { return n + 4; }
/* two buffers: v = 0 equal; 1..n differ first at position v-1 (X<Y there); n+1 all 00 vs all FF; n+2 X>Y at the top; n+3 other equal data */
static void prepCmpO(int n, int v)
{
	fillo(X, (size_t)n, v == n + 3 ? 77 : 5); memcpy(Y, X, (size_t)n);
	if (v >= 1 && v <= n) { Y[v - 1] = (octet)(X[v - 1] ^ 0x40); fillo(Y + v, (size_t)(n - v), 9); }
	else if (v == n + 1) { memset(X, 0, (size_t)n); memset(Y, 0xFF, (size_t)n); }
	else if (v == n + 2 && n) X[n - 1] = 0xFF, Y[n - 1] = 0x00;
}
static void prepCmpW(int n, int v)
{
	fillw(A, (size_t)n, v == n + 3 ? 77 : 5); memcpy(B, A, sizeof(word) * (size_t)n);
	if (v >= 1 && v <= n) { B[v - 1] = A[v - 1] ^ ((word)1 << (v % B_PER_W)); fillw(B + v, (size_t)(n - v), 9); }
	else if (v == n + 1) { memset(A, 0, sizeof(word) * (size_t)n); memset(B, 0xFF, sizeof(word) * (size_t)n); }
	else if (v == n + 2 && n) A[n - 1] = WORD_MAX, B[n - 1] = 0;
}
static void r_memEq(int n, int v) { prepCmpO(n, v); MEASURE(SAFE(memEq)(X, Y, (size_t)n)); }
static void r_memCmp(int n, int v) { prepCmpO(n, v); MEASURE(SAFE(memCmp)(X, Y, (size_t)n)); }
static void r_memCmpRev(int n, int v) { prepCmpO(n, v); MEASURE(SAFE(memCmpRev)(X, Y, (size_t)n)); }
static void r_wwEq(int n, int v) { prepCmpW(n, v); MEASURE(SAFE(wwEq)(A, B, (size_t)n)); }
static void r_wwCmp(int n, int v) { prepCmpW(n, v); MEASURE(SAFE(wwCmp)(A, B, (size_t)n)); }
/* unequal lengths: the extra high words of the longer operand are secret data too (zero or not) */
static void r_wwCmp2(int n, int v) { prepCmpW(n, v); B[n] = (v % 2) ? 0 : (word)0x55 << (v % 31); B[n + 1] = (v % 3) ? 0 : 1; MEASURE(SAFE(wwCmp2)(A, (size_t)n, B, (size_t)n + 2)); }
static void r_wwCmp2b(int n, int v) { prepCmpW(n, v); B[n] = (v % 2) ? 0 : (word)0x55 << (v % 31); B[n + 1] = (v % 3) ? 0 : 1; MEASURE(SAFE(wwCmp2)(B, (size_t)n + 2, A, (size_t)n)); }
static char HX[600];
static void r_hexEq(int n, int v) { prepCmpO(n, v); hexFrom(HX, Y, (size_t)n); MEASURE(SAFE(hexEq)(X, HX)); }
static void r_hexEqRev(int n, int v) { prepCmpO(n, v); hexFrom(HX, Y, (size_t)n); MEASURE(SAFE(hexEqRev)(X, HX)); }

static int nvZero(int n) { return n + 3; }
/* one buffer: v = 0 all zero / all equal to the reference; 1..n single non-conforming position; n+1 random; n+2 all FF */
static void r_memIsZero(int n, int v)
{
	memset(X, 0, (size_t)n); if (v >= 1 && v <= n) X[v - 1] = 0x80; else if (v == n + 1) fillo(X, (size_t)n, 3); else if (v == n + 2) memset(X, 0xFF, (size_t)n);
	MEASURE(SAFE(memIsZero)(X, (size_t)n));
}
static void r_memIsRep(int n, int v)
{
	memset(X, 0x5C, (size_t)n); if (v >= 1 && v <= n) X[v - 1] = 0x5D; else if (v == n + 1) fillo(X, (size_t)n, 3); else if (v == n + 2) memset(X, 0xFF, (size_t)n);
	MEASURE(SAFE(memIsRep)(X, (size_t)n, 0x5C));
}
static void prepZeroW(int n, int v, word base)
{
	int i; for (i = 0; i < n; ++i) A[i] = base;
	if (v >= 1 && v <= n) A[v - 1] ^= (word)1 << (B_PER_W - 1); else if (v == n + 1) fillw(A, (size_t)n, 3); else if (v == n + 2) memset(A, 0xFF, sizeof(word) * (size_t)n);
}
static void r_wwIsZero(int n, int v) { prepZeroW(n, v, 0); MEASURE(SAFE(wwIsZero)(A, (size_t)n)); }
static void r_wwIsRepW(int n, int v) { prepZeroW(n, v, 0x1234); MEASURE(SAFE(wwIsRepW)(A, (size_t)n, 0x1234)); }
static void r_wwIsW(int n, int v) { prepZeroW(n, v, 0); if (n && v != n + 1 && v != n + 2 && v != 1) A[0] = 0x77; MEASURE(SAFE(wwIsW)(A, (size_t)n, 0x77)); }
static void r_wwCmpW(int n, int v) { prepZeroW(n, v, 0); if (n && v == 0) A[0] = 0x77; if (n && v == n + 1) A[0] = 0x76, memset(A + 1, 0, sizeof(word) * (size_t)(n - 1)); MEASURE(SAFE(wwCmpW)(A, (size_t)n, 0x77)); }

static int nvBits(int n) { (void)n; return 12; }
static u64 bitval(int v, int bits) { return v == 0 ? 0 : v == 1 ? ~(u64)0 >> (64 - bits) : v < 11 ? (u64)1 << ((v - 2) * (bits - 1) / 8) : 0x5A5A5A5A5A5A5A5Aull >> (64 - bits); }
static void r_u16CLZ(int n, int v) { volatile u16 x = (u16)bitval(v, 16); u16 y = x; (void)n; MEASURE(SAFE(u16CLZ)(y)); }
static void r_u16CTZ(int n, int v) { volatile u16 x = (u16)bitval(v, 16); u16 y = x; (void)n; MEASURE(SAFE(u16CTZ)(y)); }
static void r_u32CLZ(int n, int v) { volatile u32 x = (u32)bitval(v, 32); u32 y = x; (void)n; MEASURE(SAFE(u32CLZ)(y)); }
static void r_u32CTZ(int n, int v) { volatile u32 x = (u32)bitval(v, 32); u32 y = x; (void)n; MEASURE(SAFE(u32CTZ)(y)); }
static void r_u64CLZ(int n, int v) { volatile u64 x = (u64)bitval(v, 64); u64 y = x; (void)n; MEASURE(SAFE(u64CLZ)(y)); }
static void r_u64CTZ(int n, int v) { volatile u64 x = (u64)bitval(v, 64); u64 y = x; (void)n; MEASURE(SAFE(u64CTZ)(y)); }

/* ---- modular routines: operands a, b < mod in several secret classes */
static int nvMod(int n) { (void)n; return 8; }
static void prepMod(int n, int v)
{
	int i;
	fillw(M, (size_t)n, 11); M[0] |= 1; M[n - 1] |= (word)1 << (B_PER_W - 1);
	switch (v)
	{
	case 0: memset(A, 0, sizeof(word) * (size_t)n); memset(B, 0, sizeof(word) * (size_t)n); break;
	case 1: for (i = 0; i < n; ++i) A[i] = M[i], B[i] = 0; A[0] -= 1; break;						/* mod-1, 0 */
	case 2: for (i = 0; i < n; ++i) A[i] = M[i], B[i] = M[i]; A[0] -= 1; B[0] -= 1; break;			/* mod-1, mod-1 */
	case 3: for (i = 0; i < n; ++i) A[i] = M[i], B[i] = 0; A[0] -= 1; B[0] = 1; break;				/* sum = mod */
	case 4: memset(A, 0, sizeof(word) * (size_t)n); memset(B, 0, sizeof(word) * (size_t)n); A[0] = 1; B[0] = 2; break;
	case 5: fillw(A, (size_t)n, 21); fillw(B, (size_t)n, 22); A[n - 1] >>= 1; B[n - 1] >>= 1; break;
	case 6: fillw(A, (size_t)n, 23); fillw(B, (size_t)n, 24); A[n - 1] >>= 2; B[n - 1] >>= 1; break;
	default: for (i = 0; i < n; ++i) A[i] = M[i], B[i] = 0; A[0] -= 1; B[0] = 2; break;				/* sum = mod+1 */
	}
}
static void r_zzAddMod(int n, int v) { prepMod(n, v); MEASUREV(SAFE(zzAddMod)(C, A, B, M, (size_t)n)); }
static void r_zzSubMod(int n, int v) { prepMod(n, v); MEASUREV(SAFE(zzSubMod)(C, A, B, M, (size_t)n)); }
static void r_zzNegMod(int n, int v) { prepMod(n, v); MEASUREV(SAFE(zzNegMod)(C, A, M, (size_t)n)); }
static void r_zzDoubleMod(int n, int v) { prepMod(n, v); MEASUREV(SAFE(zzDoubleMod)(C, A, M, (size_t)n)); }
static void r_zzHalfMod(int n, int v) { prepMod(n, v); MEASUREV(SAFE(zzHalfMod)(C, A, M, (size_t)n)); }
static void r_zzAddWMod(int n, int v) { prepMod(n, v); MEASUREV(SAFE(zzAddWMod)(C, A, B[0] | 1, M, (size_t)n)); }
static void r_zzSubWMod(int n, int v) { prepMod(n, v); MEASUREV(SAFE(zzSubWMod)(C, A, B[0] | 1, M, (size_t)n)); }
static void r_zzIsSumEq(int n, int v)
{
	prepMod(n, v); zzAdd(C, A, B, (size_t)n);
	if (v & 1) C[(v / 2) % n] ^= 4;
	MEASURE(SAFE(zzIsSumEq)(C, A, B, (size_t)n));
}
static void r_zzIsSumWEq(int n, int v)
{
	prepMod(n, v); memcpy(C, A, sizeof(word) * (size_t)n); zzAddW2(C, (size_t)n, 5);
	if (v & 1) C[(v / 2) % n] ^= 4;
	MEASURE(SAFE(zzIsSumWEq)(C, A, (size_t)n, 5));
}
/* ---- reductions of a 2n-word number: classes < mod, = k*mod, maximal, random */
static int nvRed(int n) { (void)n; return 8; }
static void prepRed(int n, int v, int crand)
{
	int i; word k[NW];
	if (crand) { for (i = 0; i < n; ++i) M[i] = WORD_MAX; M[0] = (word)0 - 0x11F; }
	else { fillw(M, (size_t)n, 11); M[0] |= 1; M[n - 1] |= (word)1 << (B_PER_W - 1); }
	memset(A, 0, sizeof(word) * (size_t)(2 * n));
	switch (v)
	{
	case 0: break;
	case 1: memcpy(A, M, sizeof(word) * (size_t)n); A[0] -= 1; break;								/* mod - 1 */
	case 2: memcpy(A, M, sizeof(word) * (size_t)n); break;												/* mod */
	case 3: fillw(k, (size_t)n, 31); k[n - 1] >>= 1; zzMul(A, M, (size_t)n, k, (size_t)n, STK); break;	/* k * mod */
	case 4: for (i = 0; i < n; ++i) k[i] = WORD_MAX; k[n - 1] >>= 1; zzMul(A, M, (size_t)n, k, (size_t)n, STK); break;
	case 5: fillw(A, (size_t)(2 * n), 33); A[2 * n - 1] = 0; A[2 * n - 2] >>= 2; break;
	case 6: fillw(k, (size_t)n, 35); k[n - 1] |= (word)1 << (B_PER_W - 2); k[n - 1] &= WORD_MAX >> 1; zzMul(A, M, (size_t)n, k, (size_t)n, STK); zzAddW2(A, (size_t)(2 * n), 1); break;
	default: fillw(A, (size_t)(2 * n), 37); A[2 * n - 1] = 0; A[2 * n - 2] = 0; break;
	}
}
static void r_zzRedCrand(int n, int v) { prepRed(n, v, 1); MEASUREV(SAFE(zzRedCrand)(A, M, (size_t)n, STK)); }
static void r_zzRedMont(int n, int v) { prepRed(n, v, 0); { word mp = wordNegInv(M[0]); MEASUREV(SAFE(zzRedMont)(A, M, (size_t)n, mp, STK)); } }
static void r_zzRedCrandMont(int n, int v) { prepRed(n, v, 1); { word mp = wordNegInv(M[0]); MEASUREV(SAFE(zzRedCrandMont)(A, M, (size_t)n, mp, STK)); } }
static void r_zzRedBarr(int n, int v) { prepRed(n, v, 0); zzRedBarrStart(P, M, (size_t)n, STK); MEASUREV(SAFE(zzRedBarr)(A, M, (size_t)n, P, STK)); }

/* ---- verification of tags / hashes / key headers: the compared value is secret */
static int nvTag(int n) { (void)n; return 11; }
static void mutTag(octet* t, size_t len, int v) { if (v >= 1 && v <= (int)len) t[v - 1] ^= 1; else if (v == 9) memset(t, 0, len); else if (v == 10) memset(t, 0xFF, len); }
static void r_beltMACStepV(int n, int v)
{
	octet key[32], mac[8]; fillo(key, 32, 41); fillo(X, (size_t)n, 42);
	beltMACStart(ST, key, 32); beltMACStepA(X, (size_t)n, ST); beltMACStepG(mac, ST); mutTag(mac, 8, v);
	MEASURE(beltMACStepV(mac, ST));
}
static void r_beltHashStepV(int n, int v)
{
	octet h[32]; fillo(X, (size_t)n, 42);
	beltHashStart(ST); beltHashStepH(X, (size_t)n, ST); beltHashStepG(h, ST); mutTag(h, 32, v > 8 ? v : v * 4 - (v ? 1 : 0));
	MEASURE(beltHashStepV(h, ST));
}
static void r_beltHMACStepV(int n, int v)
{
	octet key[32], h[32]; fillo(key, 32, 41); fillo(X, (size_t)n, 42);
	beltHMACStart(ST, key, 32); beltHMACStepA(X, (size_t)n, ST); beltHMACStepG(h, ST); mutTag(h, 32, v > 8 ? v : v * 4 - (v ? 1 : 0));
	MEASURE(beltHMACStepV(h, ST));
}
static void r_beltDWPStepV(int n, int v)
{
	octet key[32], iv[16], mac[8]; fillo(key, 32, 41); fillo(iv, 16, 43); fillo(X, (size_t)n, 42);
	beltDWPStart(ST, key, 32, iv); beltDWPStepI(X, (size_t)n, ST); beltDWPStepG(mac, ST); mutTag(mac, 8, v);
	MEASURE(beltDWPStepV(mac, ST));
}
static void r_beltCHEStepV(int n, int v)
{
	octet key[32], iv[16], mac[8]; fillo(key, 32, 41); fillo(iv, 16, 43); fillo(X, (size_t)n, 42);
	beltCHEStart(ST, key, 32, iv); beltCHEStepI(X, (size_t)n, ST); beltCHEStepG(mac, ST); mutTag(mac, 8, v);
	MEASURE(beltCHEStepV(mac, ST));
}
static void r_bashHashStepV(int n, int v)
{
	octet h[32]; fillo(X, (size_t)n, 42);
	bashHashStart(ST, 128); bashHashStepH(X, (size_t)n, ST); bashHashStepG(h, 32, ST); mutTag(h, 32, v > 8 ? v : v * 4 - (v ? 1 : 0));
	MEASURE(bashHashStepV(h, 32, ST));
}
/* the header check of key unwrapping.  Acceptance / rejection is the public outcome, so the two
   are separate classes: rejected tokens (header differs at a secret position) must all look alike,
   and accepted ones (different keys and data) must all look alike */
static void r_beltKWPUnwrapRej(int n, int v)
{
	octet key[32], hdr[16], tok[80], out[64]; fillo(key, 32, 41); fillo(hdr, 16, 44); fillo(X, (size_t)n, 42);
	beltKWPWrap(tok, X, (size_t)n, hdr, key, 32);
	if (v <= 7) hdr[2 * v + 1] ^= 0x10; else if (v == 8) memset(hdr, 0, 16); else if (v == 9) tok[3] ^= 1; else hdr[0] ^= 0x80, hdr[15] ^= 1;
	MEASURE(beltKWPUnwrap(out, tok, (size_t)n + 16, hdr, key, 32));
}
static void r_beltKWPUnwrapAcc(int n, int v)
{
	octet key[32], hdr[16], tok[80], out[64]; fillo(key, 32, 41 + (unsigned)v); fillo(hdr, 16, 44 + (unsigned)v); fillo(X, (size_t)n, 42 + (unsigned)v);
	if (v == 0) memset(hdr, 0, 16);
	beltKWPWrap(tok, X, (size_t)n, hdr, key, 32);
	MEASURE(beltKWPUnwrap(out, tok, (size_t)n + 16, hdr, key, 32));
}
/* ---- symmetric primitives: key and data secret, lengths public */
static int nvKey(int n) { (void)n; return 6; }
static void prepKD(int n, int v, octet key[32], octet iv[16])
{
	if (v == 0) memset(key, 0, 32), memset(iv, 0, 16), memset(X, 0, (size_t)n);
	else if (v == 1) memset(key, 0xFF, 32), memset(iv, 0xFF, 16), memset(X, 0xFF, (size_t)n);
	else fillo(key, 32, 50 + (unsigned)v), fillo(iv, 16, 60 + (unsigned)v), fillo(X, (size_t)n, 70 + (unsigned)v);
}
static void r_beltBlockEncr(int n, int v) { octet key[32], iv[16]; u32 k[8]; prepKD(16, v, key, iv); (void)n; beltKeyExpand2(k, key, 32); MEASUREV(beltBlockEncr(X, k)); }
static void r_beltBlockDecr(int n, int v) { octet key[32], iv[16]; u32 k[8]; prepKD(16, v, key, iv); (void)n; beltKeyExpand2(k, key, 32); MEASUREV(beltBlockDecr(X, k)); }
static void r_beltKeyExpand(int n, int v) { octet key[32], iv[16]; u32 k[8]; prepKD(16, v, key, iv); MEASUREV(beltKeyExpand2(k, key, (size_t)n)); }
static void r_beltECB(int n, int v) { octet key[32], iv[16]; prepKD(n, v, key, iv); beltECBStart(ST, key, 32); MEASUREV(beltECBStepE(X, (size_t)n, ST)); }
static void r_beltCBC(int n, int v) { octet key[32], iv[16]; prepKD(n, v, key, iv); beltCBCStart(ST, key, 32, iv); MEASUREV(beltCBCStepE(X, (size_t)n, ST)); }
static void r_beltCFB(int n, int v) { octet key[32], iv[16]; prepKD(n, v, key, iv); beltCFBStart(ST, key, 32, iv); MEASUREV(beltCFBStepE(X, (size_t)n, ST)); }
static void r_beltCTR(int n, int v) { octet key[32], iv[16]; prepKD(n, v, key, iv); beltCTRStart(ST, key, 32, iv); MEASUREV(beltCTRStepE(X, (size_t)n, ST)); }
static void r_beltMAC(int n, int v) { octet key[32], iv[16], mac[8]; prepKD(n, v, key, iv); beltMACStart(ST, key, 32); MEASUREV((beltMACStepA(X, (size_t)n, ST), beltMACStepG(mac, ST))); }
static void r_beltHash(int n, int v) { octet key[32], iv[16], h[32]; prepKD(n, v, key, iv); beltHashStart(ST); MEASUREV((beltHashStepH(X, (size_t)n, ST), beltHashStepG(h, ST))); }
static void r_beltWBL(int n, int v) { octet key[32], iv[16]; prepKD(n, v, key, iv); beltWBLStart(ST, key, 32); MEASUREV(beltWBLStepE(X, (size_t)n, ST)); }
static void r_beltDWP(int n, int v) { octet key[32], iv[16], mac[8]; prepKD(n, v, key, iv); beltDWPStart(ST, key, 32, iv); MEASUREV((beltDWPStepE(X, (size_t)n, ST), beltDWPStepA(X, (size_t)n, ST), beltDWPStepG(mac, ST))); }
static void r_bashF(int n, int v) { octet key[32], iv[16]; prepKD(192, v, key, iv); (void)n; MEASUREV(bashF(X, STK)); }
static void r_bashHash(int n, int v) { octet key[32], iv[16], h[32]; prepKD(n, v, key, iv); bashHashStart(ST, 128); MEASUREV((bashHashStepH(X, (size_t)n, ST), bashHashStepG(h, 32, ST))); }

/* a deliberately irregular routine: the self-test of the sensor (must be reported as leaking) */
static void r_memEq_fast(int n, int v) { prepCmpO(n, v); MEASURE(FAST(memEq)(X, Y, (size_t)n)); }

static const entry_t E[] = {
	{"memEq", "o", nvCmp, r_memEq, LO}, {"memCmp", "o", nvCmp, r_memCmp, LO}, {"memCmpRev", "o", nvCmp, r_memCmpRev, LO},
	{"memIsZero", "o", nvZero, r_memIsZero, LO}, {"memIsRep", "o", nvZero, r_memIsRep, LO},
	{"hexEq", "o", nvCmp, r_hexEq, LO}, {"hexEqRev", "o", nvCmp, r_hexEqRev, LO},
	{"wwEq", "w", nvCmp, r_wwEq, LW}, {"wwCmp", "w", nvCmp, r_wwCmp, LW}, {"wwCmp2", "w", nvCmp, r_wwCmp2, LW}, {"wwCmp2:long-first", "w", nvCmp, r_wwCmp2b, LW},
	{"wwCmpW", "w", nvZero, r_wwCmpW, LW}, {"wwIsZero", "w", nvZero, r_wwIsZero, LW}, {"wwIsW", "w", nvZero, r_wwIsW, LW},
	{"wwIsRepW", "w", nvZero, r_wwIsRepW, LW},
	{"u16CLZ", "-", nvBits, r_u16CLZ, L1}, {"u16CTZ", "-", nvBits, r_u16CTZ, L1}, {"u32CLZ", "-", nvBits, r_u32CLZ, L1},
	{"u32CTZ", "-", nvBits, r_u32CTZ, L1}, {"u64CLZ", "-", nvBits, r_u64CLZ, L1}, {"u64CTZ", "-", nvBits, r_u64CTZ, L1},
	{"zzAddMod", "w", nvMod, r_zzAddMod, LW1}, {"zzSubMod", "w", nvMod, r_zzSubMod, LW1}, {"zzNegMod", "w", nvMod, r_zzNegMod, LW1},
	{"zzDoubleMod", "w", nvMod, r_zzDoubleMod, LW1}, {"zzHalfMod", "w", nvMod, r_zzHalfMod, LW1},
	{"zzAddWMod", "w", nvMod, r_zzAddWMod, LW1}, {"zzSubWMod", "w", nvMod, r_zzSubWMod, LW1},
	{"zzIsSumEq", "w", nvMod, r_zzIsSumEq, LW1}, {"zzIsSumWEq", "w", nvMod, r_zzIsSumWEq, LW1},
	{"zzRedCrand", "w", nvRed, r_zzRedCrand, LW2}, {"zzRedBarr", "w", nvRed, r_zzRedBarr, LW1},
	{"zzRedMont", "w", nvRed, r_zzRedMont, LW1}, {"zzRedCrandMont", "w", nvRed, r_zzRedCrandMont, LW2},
	{"beltMACStepV", "o", nvTag, r_beltMACStepV, LMSG}, {"beltHashStepV", "o", nvTag, r_beltHashStepV, LMSG},
	{"beltHMACStepV", "o", nvTag, r_beltHMACStepV, LMSG}, {"beltDWPStepV", "o", nvTag, r_beltDWPStepV, LMSG},
	{"beltCHEStepV", "o", nvTag, r_beltCHEStepV, LMSG}, {"bashHashStepV", "o", nvTag, r_bashHashStepV, LMSG},
	{"beltKWPUnwrap:reject", "o", nvTag, r_beltKWPUnwrapRej, LBLK}, {"beltKWPUnwrap:accept", "o", nvKey, r_beltKWPUnwrapAcc, LBLK},
	{"beltBlockEncr", "-", nvKey, r_beltBlockEncr, L1}, {"beltBlockDecr", "-", nvKey, r_beltBlockDecr, L1},
	{"beltKeyExpand2", "o", nvKey, r_beltKeyExpand, LBLK + 0},
	{"beltECBStepE", "o", nvKey, r_beltECB, LBLK}, {"beltCBCStepE", "o", nvKey, r_beltCBC, LBLK}, {"beltCFBStepE", "o", nvKey, r_beltCFB, LMSG},
	{"beltCTRStepE", "o", nvKey, r_beltCTR, LMSG}, {"beltMAC", "o", nvKey, r_beltMAC, LMSG}, {"beltHash", "o", nvKey, r_beltHash, LMSG},
	{"beltWBLStepE", "o", nvKey, r_beltWBL, LBLK + 1}, {"beltDWP", "o", nvKey, r_beltDWP, LMSG},
	{"bashF", "-", nvKey, r_bashF, L1}, {"bashHash128", "o", nvKey, r_bashHash, LMSG},
	{"SELFTEST_memEq_fast", "o", nvCmp, r_memEq_fast, LO},
};
#define NE ((int)(sizeof(E) / sizeof(E[0])))

static FILE* dumpf = 0;
static int measure(const entry_t* e, int n, int v, long* steps, uint64_t* hash)
{
	pid_t p = fork(); int stt; long cnt = 0; uint64_t h = 1469598103934665603ull; int in = 0, done = 0;
	if (p < 0) return -1;
	if (!p) { ptrace(PTRACE_TRACEME, 0, 0, 0); raise(SIGSTOP); e->run(n, v); _exit(0); }
	waitpid(p, &stt, 0);
	if (!WIFSTOPPED(stt)) return -1;
	{	/* run freely up to the first marker: plant a breakpoint at ct_mark_begin */
		long orig, addr = (long)(uintptr_t)ct_mark_begin; struct user_regs_struct r;
		orig = ptrace(PTRACE_PEEKTEXT, p, (void*)addr, 0);
		ptrace(PTRACE_POKETEXT, p, (void*)addr, (void*)((orig & ~0xFFL) | 0xCC));
		ptrace(PTRACE_CONT, p, 0, 0);
		if (waitpid(p, &stt, 0) < 0 || !WIFSTOPPED(stt) || WSTOPSIG(stt) != SIGTRAP) { kill(p, SIGKILL); waitpid(p, &stt, 0); return -5; }
		ptrace(PTRACE_POKETEXT, p, (void*)addr, (void*)orig);
		ptrace(PTRACE_GETREGS, p, 0, &r); r.rip = (unsigned long long)addr; ptrace(PTRACE_SETREGS, p, 0, &r);
		in = 1;
	}
	for (;;)
	{
		struct user_regs_struct r;
		if (ptrace(PTRACE_SINGLESTEP, p, 0, 0) < 0) break;
		if (waitpid(p, &stt, 0) < 0 || WIFEXITED(stt) || WIFSIGNALED(stt)) break;
		if (WIFSTOPPED(stt) && WSTOPSIG(stt) != SIGTRAP) { kill(p, SIGKILL); waitpid(p, &stt, 0); return -2; }	/* crash in the call */
		if (ptrace(PTRACE_GETREGS, p, 0, &r) < 0) break;
		if (r.rip == (unsigned long long)(uintptr_t)ct_mark_end) { done = 1; kill(p, SIGKILL); waitpid(p, &stt, 0); break; }
		if (in) { ++cnt; h ^= r.rip; h *= 1099511628211ull; if (dumpf) fprintf(dumpf, "%llx\n", (unsigned long long)r.rip); }
		if (cnt > 3000000) { kill(p, SIGKILL); waitpid(p, &stt, 0); return -3; }
	}
	*steps = cnt; *hash = h;
	return done ? 0 : -4;
}

int main(int argc, char** argv)
{
	int first = 0, count = NE, i;
	if (argc > 5 && strcmp(argv[1], "dump") == 0)
	{	/* dump <entry> <len> <variant> <file>: write the PC sequence (triage aid) */
		long s; uint64_t h; dumpf = fopen(argv[5], "w"); measure(&E[atoi(argv[2])], atoi(argv[3]), atoi(argv[4]), &s, &h); fclose(dumpf); return 0;
	}
	if (argc > 1 && strcmp(argv[1], "list") == 0) { for (i = 0; i < NE; ++i) printf("%d %s\n", i, E[i].name); return 0; }
	long budget = 0, used;
	if (argc > 3) first = atoi(argv[2]), count = atoi(argv[3]);
	if (argc > 4) budget = atol(argv[4]);	/* per-entry step budget (quick tier): stop adding lengths beyond it */
	{	/* ptrace available? */
		long s; uint64_t h; if (measure(&E[0], 1, 0, &s, &h) != 0) { jBegin(); jStr("e", "NoSensor"); jEnd(); return 0; }
	}
	for (i = first; i < first + count && i < NE; ++i)
	{
		const int* l;
		used = 0;
		for (l = E[i].lens; *l >= 0; ++l)
		{
			if (budget && used > budget) break;
			int v, nv = E[i].nv(*l);
			for (v = 0; v < nv; ++v)
			{
				long steps = 0; uint64_t h = 0; int rc = measure(&E[i], *l, v, &steps, &h);
				used += steps;
				long long hl[4];
				hl[0] = (long long)(h & 0xFFFF); hl[1] = (long long)((h >> 16) & 0xFFFF); hl[2] = (long long)((h >> 32) & 0xFFFF); hl[3] = (long long)(h >> 48);
				jBegin(); jStr("e", rc == 0 ? "Observe" : "Failed"); jStr("f", E[i].name); jStr("unit", E[i].unit); jInt("len", *l); jInt("variant", v);
				jInt("steps", steps); jIntArr("hash", hl, 4); jInt("rc", rc); jEnd();
				fflush(stdout);
			}
		}
	}
	return 0;
}
