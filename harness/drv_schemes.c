/* C16 driver: bign96, g12s (GOST R 34.10-2012), dstu (DSTU 4145-2002), pfok.
   usage: drv_schemes exec        commands on stdin, one ndjson line per command (judged by spec/trace/Trace_Schemes.tla)
   Every scenario command runs the whole life of a key / signature on a standard parameter set with caller-supplied
   generator TAPES (the octets the library's rng callback returns; zeros after the end of the tape):
     g12s   name=<oid> d=x<tape> k=x<tape> hash=x<l/8 octets> alts=<list>
     bign96 d=x<tape> k=x<tape> hash=x<24 octets> oid=x<der> alts=<list>
     dstu   name=<oid> gen=<int> d=x<tape> e=x<tape> hash=x<octets> ld=<bits> alts=<list>
     pfok   name=<oid|test> xa=x.. xb=x.. ua=x.. ub=x..
     gf2    f=m,k3,k2,k1       trace and quadratic solver over a complete small field
     dstuRetry name=<oid> gen=<int> plan=<branches> d=x<tape> hash=x.. ld=<bits> salt=<int>     constructed histories that force
     g12sRetry name=<oid> plan=<branches> d=x<tape> hash=x.. salt=<int>                         the repetitions of the signing
     bign96Retry plan=<branches> d=x<tape> hash=x.. oid=x<der> salt=<int>                       loops (see doDstuRetry)
   and logs inputs, every intermediate public value (keys, signature, compressed points, shared keys) and every
   return code.  alts: alterations of the produced signature / hash / public key (see altApply), each verified again.
   Arguments are echoed; numbers travel as octet arrays.  All buffers are malloc'ed at exactly the documented size. */
#include "vx.h"
#include <bee2/core/mem.h>
#include <bee2/core/err.h>
#include <bee2/core/util.h>
#include <bee2/core/prng.h>
#include <bee2/math/ww.h>
#include <bee2/math/zz.h>
#include <bee2/math/gf2.h>
#include <bee2/crypto/bign.h>
#include <bee2/crypto/bign96.h>
#include <bee2/crypto/g12s.h>
#include <bee2/crypto/dstu.h>
#include <bee2/crypto/pfok.h>

static void* xalloc(size_t n) { void* p = malloc(n ? n : 1); if (!p) { fprintf(stderr, "oom\n"); exit(3); } memset(p, 0, n ? n : 1); return p; }

/* ---- tape generator (gen_i): the octets of the tape, then zeros */
typedef struct { const octet* t; size_t len, pos, calls; } tape_t;
static void tapeStep(void* buf, size_t count, void* state)
{
	tape_t* s = (tape_t*)state; octet* b = (octet*)buf; size_t i;
	for (i = 0; i < count; ++i) b[i] = s->pos < s->len ? s->t[s->pos++] : 0;
	++s->calls;
}
static tape_t* tapeOf(const vx_cmd* c, const char* k)
{
	tape_t* s = (tape_t*)xalloc(sizeof(tape_t)); size_t n; octet* b = vxHex(c, k, &n);
	s->t = b ? b : (octet*)xalloc(1); s->len = b ? n : 0; s->pos = 0; s->calls = 0; return s;
}

/* ---- echo of the arguments */
static int isHex(const char* v) { if (*v != 'x') return 0; for (++v; *v; ++v) if (!isxdigit((unsigned char)*v)) return 0; return 1; }
static int isDec(const char* v) { if (*v == '-') ++v; if (!*v) return 0; for (; *v; ++v) if (!isdigit((unsigned char)*v)) return 0; return 1; }
static void echoArgs(const vx_cmd* c)
{
	int i;
	for (i = 0; i < c->n; ++i)
	{
		const char* k = c->k[i]; const char* v = c->v[i];
		if (isHex(v)) { size_t n; octet* b = vxHex(c, k, &n); jOct(k, b, n); free(b); }
		else if (isDec(v) && strlen(v) < 10) jInt(k, strtoll(v, 0, 10));
		else if (strchr(v, ',') && (isdigit((unsigned char)*v))) { jSep(); fprintf(vx_out, "\"%s\":[%s]", k, v); }
		else jStr(k, v);
	}
}

/* ---- little-endian octet-string arithmetic for the alterations (generator side) */
static int oAdd(octet* a, const octet* b, size_t n)      /* a += b, returns carry */
{
	unsigned c = 0; size_t i; for (i = 0; i < n; ++i) { c += a[i] + b[i]; a[i] = (octet)c; c >>= 8; } return (int)c;
}
static int oSub(octet* a, const octet* b, size_t n)      /* a -= b, returns borrow */
{
	int c = 0; size_t i; for (i = 0; i < n; ++i) { int t = a[i] - b[i] - c; c = t < 0; a[i] = (octet)(t + 256 * c); } return c;
}
static void oRev(octet* a, size_t n) { size_t i; for (i = 0; i < n / 2; ++i) { octet t = a[i]; a[i] = a[n - 1 - i]; a[n - 1 - i] = t; } }

/* one alteration of a little-endian number x[n] (modulus q[n]): "^<bit>", "=0", "=1", "=q", "=max", "+q", "-q", "=q-1", "=q+1";
   returns 0 if not applicable (does not fit) */
static int numAlt(octet* x, size_t n, const octet* q, const char* how)
{
	if (how[0] == '^') { size_t b = (size_t)strtoul(how + 1, 0, 10); if (b >= 8 * n) return 0; x[b / 8] ^= (octet)(1 << (b % 8)); return 1; }
	if (strcmp(how, "=0") == 0) { memset(x, 0, n); return 1; }
	if (strcmp(how, "=1") == 0) { memset(x, 0, n); x[0] = 1; return 1; }
	if (strcmp(how, "=max") == 0) { memset(x, 255, n); return 1; }
	if (strcmp(how, "=q") == 0) { memcpy(x, q, n); return 1; }
	if (strcmp(how, "=q-1") == 0) { octet one[1] = {1}; octet* t = (octet*)xalloc(n); t[0] = one[0]; memcpy(x, q, n); oSub(x, t, n); free(t); return 1; }
	if (strcmp(how, "=q+1") == 0) { octet* t = (octet*)xalloc(n); int c; t[0] = 1; memcpy(x, q, n); c = oAdd(x, t, n); free(t); return !c; }
	if (strcmp(how, "+q") == 0) { octet* t = (octet*)xalloc(n); int c; memcpy(t, x, n); c = oAdd(t, q, n); if (!c) memcpy(x, t, n); free(t); return !c; }
	if (strcmp(how, "-q") == 0) { octet* t = (octet*)xalloc(n); int c; memcpy(t, x, n); c = oSub(t, q, n); if (!c) memcpy(x, t, n); free(t); return !c; }
	return 0;
}

static const char* nextTok(const char* s, char* tok, size_t cap)
{
	size_t i = 0; while (*s == ',') ++s; if (!*s) return 0;
	while (*s && *s != ',' && i + 1 < cap) tok[i++] = *s++;
	tok[i] = 0; return s;
}

/* ------------------------------------------------------------------ g12s */
static void putG12sParams(const g12s_params* p, size_t no)
{
	jInt("l", p->l); jOct("p", p->p, no); jOct("a", p->a, no); jOct("b", p->b, no); jOct("q", p->q, p->l / 8);
	jInt("n", p->n); jOct("xP", p->xP, no); jOct("yP", p->yP, no);
}
static void doG12s(const vx_cmd* c)
{
	g12s_params* P = (g12s_params*)xalloc(sizeof(*P)); const char* name = vxArg(c, "name");
	size_t no, mo, hl; err_t e; tape_t* td = tapeOf(c, "d"); tape_t* tk = tapeOf(c, "k");
	octet* priv; octet* pub; octet* sig; octet* hash; const char* alts = vxArg(c, "alts"); char tok[64];
	e = g12sParamsStd(P, name ? name : "");
	jInt("rcStd", e);
	if (e != ERR_OK) { free(P); return; }
	no = memNonZeroSize(P->p, G12S_FIELD_SIZE * P->l / 512); mo = P->l / 8;
	putG12sParams(P, no);
	if (vxInt(c, "dirty", 0))
	{	/* g12s.h: "unused octets may be set arbitrarily": the same set in an object whose unused octets are all FF
		   (p, q: the first half for l = 256; a, b, xP, yP: no octets) */
		g12s_params* D = (g12s_params*)xalloc(sizeof(*D)); size_t pl = G12S_FIELD_SIZE * P->l / 512, ql = G12S_ORDER_SIZE * P->l / 512;
		memset(D, 0xFF, sizeof(*D)); D->l = P->l; D->n = P->n;
		memcpy(D->p, P->p, pl); memcpy(D->q, P->q, ql);
		memcpy(D->a, P->a, no); memcpy(D->b, P->b, no); memcpy(D->xP, P->xP, no); memcpy(D->yP, P->yP, no);
		free(P); P = D;
		jInt("rcValDirty", g12sParamsVal(P));
	}
	priv = (octet*)xalloc(mo); pub = (octet*)xalloc(2 * no); sig = (octet*)xalloc(2 * mo);
	hash = vxHex(c, "hash", &hl); if (!hash || hl != mo) { octet* h2 = (octet*)xalloc(mo); if (hash) memcpy(h2, hash, hl < mo ? hl : mo); free(hash); hash = h2; }
	e = g12sKeypairGen(priv, pub, P, tapeStep, td);
	jInt("rcGen", e); jInt("drawsGen", (long long)td->calls); jOct("priv", priv, mo); jOct("pub", pub, 2 * no);
	e = g12sSign(sig, P, hash, priv, tapeStep, tk);
	jInt("rcSign", e); jInt("drawsSign", (long long)tk->calls); jOct("sig", sig, 2 * mo);
	jInt("rcVerify", g12sVerify(P, hash, sig, pub));
	/* alterations: <comp><how> with comp in r s h (big-endian numbers) x y (little-endian coordinates), or Q- (negated key) */
	jSep(); fprintf(vx_out, "\"alts\":[");
	{
		int first = 1; const char* s = alts;
		while (s && (s = nextTok(s, tok, sizeof tok)) != 0)
		{
			octet* h2 = (octet*)xalloc(mo); octet* s2 = (octet*)xalloc(2 * mo); octet* q2 = (octet*)xalloc(2 * no); octet* qle = (octet*)xalloc(mo);
			int ok = 0; err_t rc;
			memcpy(h2, hash, mo); memcpy(s2, sig, 2 * mo); memcpy(q2, pub, 2 * no); memcpy(qle, P->q, mo);
			if (tok[0] == 'r' || tok[0] == 's' || tok[0] == 'h')
			{
				octet* t = tok[0] == 'r' ? s2 : tok[0] == 's' ? s2 + mo : h2;
				oRev(t, mo); ok = numAlt(t, mo, qle, tok + 1); oRev(t, mo);
			}
			else if (tok[0] == 'x' || tok[0] == 'y') ok = numAlt(tok[0] == 'x' ? q2 : q2 + no, no, P->p, tok + 1);
			else if (strcmp(tok, "Q-") == 0) { octet* t = (octet*)xalloc(no); memcpy(t, P->p, no); oSub(t, q2 + no, no); memcpy(q2 + no, t, no); free(t); ok = 1; }
			if (ok)
			{
				rc = g12sVerify(P, h2, s2, q2);
				fprintf(vx_out, "%s{\"a\":\"%s\",\"rc\":%d", first ? "" : ",", tok, (int)rc); first = 0;
				vx_first = 0; jOct("hash", h2, mo); jOct("sig", s2, 2 * mo); jOct("pub", q2, 2 * no); fputc('}', vx_out);
			}
			free(h2); free(s2); free(q2); free(qle);
		}
	}
	fputc(']', vx_out);
	free(hash); free(sig); free(pub); free(priv); free((void*)td->t); free(td); free((void*)tk->t); free(tk); free(P);
}

/* ------------------------------------------------------------------ bign96 */
static void doBign96(const vx_cmd* c)
{
	bign_params* P = (bign_params*)xalloc(sizeof(*P)); err_t e; tape_t* td = tapeOf(c, "d"); tape_t* tk = tapeOf(c, "k");
	size_t hl, ol; octet* hash = vxHex(c, "hash", &hl); octet* oid = vxHex(c, "oid", &ol);
	octet* priv = (octet*)xalloc(24); octet* pub = (octet*)xalloc(48); octet* sig = (octet*)xalloc(34); octet* sig2 = (octet*)xalloc(34);
	const char* alts = vxArg(c, "alts"); char tok[64];
	e = bign96ParamsStd(P, "1.2.112.0.2.0.34.101.45.3.0"); jInt("rcStd", e);
	if (!hash || hl != 24) { octet* h2 = (octet*)xalloc(24); if (hash) memcpy(h2, hash, hl < 24 ? hl : 24); free(hash); hash = h2; }
	jOct("p", P->p, 24); jOct("pa", P->a, 24); jOct("pb", P->b, 24); jOct("q", P->q, 24); jOct("yG", P->yG, 24);
	e = bign96KeypairGen(priv, pub, P, tapeStep, td);
	jInt("rcGen", e); jOct("priv", priv, 24); jOct("pub", pub, 48);
	jInt("rcKeypairVal", bign96KeypairVal(P, priv, pub)); jInt("rcPubkeyVal", bign96PubkeyVal(P, pub));
	{ octet* pub2 = (octet*)xalloc(48); jInt("rcCalc", bign96PubkeyCalc(pub2, P, priv)); jInt("calcSame", memcmp(pub, pub2, 48) == 0); free(pub2); }
	e = bign96Sign(sig, P, oid, ol, hash, priv, tapeStep, tk);
	jInt("rcSign", e); jOct("sig", sig, 34); jInt("rcVerify", bign96Verify(P, oid, ol, hash, sig, pub));
	e = bign96Sign2(sig2, P, oid, ol, hash, priv, 0, 0);
	jInt("rcSign2", e); jOct("sig2", sig2, 34); jInt("rcVerify2", bign96Verify(P, oid, ol, hash, sig2, pub));
	{	/* deterministic signing with the optional additional data t (empty, short, long): sign, then verify; twice the same */
		static const size_t TL[] = { 0, 1, 40 }; long long rcs[9]; size_t k;
		for (k = 0; k < 3; ++k)
		{
			octet* t = (octet*)xalloc(TL[k] ? TL[k] : 1); octet* s3 = (octet*)xalloc(34); octet* s4 = (octet*)xalloc(34); size_t j;
			for (j = 0; j < TL[k]; ++j) t[j] = (octet)(0xA0 + 7 * j + k);
			rcs[3 * k] = bign96Sign2(s3, P, oid, ol, hash, priv, t, TL[k]);
			rcs[3 * k + 1] = rcs[3 * k] == ERR_OK ? bign96Verify(P, oid, ol, hash, s3, pub) : -1;
			rcs[3 * k + 2] = (bign96Sign2(s4, P, oid, ol, hash, priv, t, TL[k]) == ERR_OK && memcmp(s3, s4, 34) == 0) ? 0 : 1;
			free(t); free(s3); free(s4);
		}
		jIntArr("sign2t", rcs, 9);
	}
	jSep(); fprintf(vx_out, "\"alts\":[");
	{
		int first = 1; const char* s = alts;
		while (s && (s = nextTok(s, tok, sizeof tok)) != 0)
		{
			octet* h2 = (octet*)xalloc(24); octet* s2 = (octet*)xalloc(34); octet* q2 = (octet*)xalloc(48); int ok = 0; err_t rc;
			memcpy(h2, hash, 24); memcpy(s2, sig, 34); memcpy(q2, pub, 48);
			if (tok[0] == 'u') ok = numAlt(s2, 10, P->q, tok + 1);                  /* s0: 80 bits */
			else if (tok[0] == 's') ok = numAlt(s2 + 10, 24, P->q, tok + 1);        /* s1 */
			else if (tok[0] == 'h') ok = numAlt(h2, 24, P->q, tok + 1);
			else if (tok[0] == 'x' || tok[0] == 'y') ok = numAlt(tok[0] == 'x' ? q2 : q2 + 24, 24, P->p, tok + 1);
			else if (strcmp(tok, "Q-") == 0) { octet* t = (octet*)xalloc(24); memcpy(t, P->p, 24); oSub(t, q2 + 24, 24); memcpy(q2 + 24, t, 24); free(t); ok = 1; }
			if (ok)
			{
				rc = bign96Verify(P, oid, ol, h2, s2, q2);
				fprintf(vx_out, "%s{\"a\":\"%s\",\"rc\":%d", first ? "" : ",", tok, (int)rc); first = 0;
				vx_first = 0; jOct("hash", h2, 24); jOct("sig", s2, 34); jOct("pub", q2, 48); fputc('}', vx_out);
			}
			free(h2); free(s2); free(q2);
		}
	}
	fputc(']', vx_out);
	free(sig2); free(sig); free(pub); free(priv); free(oid); free(hash); free((void*)td->t); free(td); free((void*)tk->t); free(tk); free(P);
}

/* ------------------------------------------------------------------ dstu */
static void doDstu(const vx_cmd* c)
{
	dstu_params* P = (dstu_params*)xalloc(sizeof(*P)); const char* name = vxArg(c, "name"); err_t e;
	size_t no, ono, hl, ld = (size_t)vxInt(c, "ld", 512); tape_t* td = tapeOf(c, "d"); tape_t* te = tapeOf(c, "e");
	octet* hash = vxHex(c, "hash", &hl); const char* alts = vxArg(c, "alts"); char tok[64];
	octet* priv; octet* pub; octet* sig; octet* xp; octet* rec; long long f[4];
	e = dstuParamsStd(P, name ? name : ""); jInt("rcStd", e);
	if (e != ERR_OK) { free(P); return; }
	no = O_OF_B(P->p[0]); ono = memNonZeroSize(P->n, no);
	{
		octet* st = (octet*)xalloc(prngCOMBO_keep()); prngCOMBOStart(st, (u32)vxInt(c, "gen", 1));
		e = dstuPointGen(P->P, P, prngCOMBOStepR, st); free(st); jInt("rcPointGen", e);
	}
	f[0] = P->p[0]; f[1] = P->p[1]; f[2] = P->p[2]; f[3] = P->p[3]; jIntArr("f", f, 4);
	jInt("A", P->A); jOct("B", P->B, no); jOct("n", P->n, no); jInt("c", P->c); jOct("Px", P->P, no); jOct("Py", P->P + no, no);
	jInt("rcParamsVal", dstuParamsVal(P)); jInt("rcPointVal", dstuPointVal(P, P->P));
	priv = (octet*)xalloc(ono); pub = (octet*)xalloc(2 * no); sig = (octet*)xalloc(ld / 8 ? ld / 8 : 1); xp = (octet*)xalloc(no); rec = (octet*)xalloc(2 * no);
	/* compression round trip of the base point */
	jInt("rcCompP", dstuPointCompress(xp, P, P->P)); jOct("xpP", xp, no);
	jInt("rcRecP", dstuPointRecover(rec, P, xp)); jOct("recP", rec, 2 * no);
	e = dstuKeypairGen(priv, pub, P, tapeStep, td);
	jInt("rcGen", e); jOct("priv", priv, ono); jOct("pub", pub, 2 * no); jInt("rcPubVal", dstuPointVal(P, pub));
	memset(xp, 0, no); memset(rec, 0, 2 * no);
	jInt("rcCompQ", dstuPointCompress(xp, P, pub)); jOct("xpQ", xp, no);
	jInt("rcRecQ", dstuPointRecover(rec, P, xp)); jOct("recQ", rec, 2 * no);
	/* C11 (dstu.h: "point and xpoint may overlap"): xpoint swept over every offset at which it shares an octet with point
	   (compression) and point over every such offset against xpoint (recovery), in one arena; the offsets at which the
	   result differs from the disjoint-buffer result above are logged (expected: none) */
	if (e == ERR_OK)
	{
		octet* ar = (octet*)xalloc(6 * no + 8); long o; long long bad[64]; size_t nb = 0, npl = 0;
		for (o = -(long)no + 1; o < (long)(2 * no); ++o)
		{
			octet* pt = ar + 2 * no; octet* x = pt + o;
			memset(ar, 0xC3, 6 * no + 8); memcpy(pt, pub, 2 * no); ++npl;
			if (dstuPointCompress(x, P, pt) != ERR_OK || memcmp(x, xp, no) != 0) { if (nb < 64) bad[nb++] = o; }
		}
		jInt("ovCompN", (long long)npl); jIntArr("ovComp", bad, nb);
		nb = 0; npl = 0;
		for (o = -(long)(2 * no) + 1; o < (long)no; ++o)
		{
			octet* x = ar + 2 * no + 4; octet* pt = x + o;
			memset(ar, 0xC3, 6 * no + 8); memcpy(x, xp, no); ++npl;
			if (dstuPointRecover(pt, P, x) != ERR_OK || memcmp(pt, rec, 2 * no) != 0) { if (nb < 64) bad[nb++] = o; }
		}
		jInt("ovRecN", (long long)npl); jIntArr("ovRec", bad, nb);
		free(ar);
	}
	/* recovery from the flipped trace bit: the other point with this abscissa (-Q) */
	xp[0] ^= 1; memset(rec, 0, 2 * no);
	jInt("rcRecQf", dstuPointRecover(rec, P, xp)); jOct("xpQf", xp, no); jOct("recQf", rec, 2 * no);
	if (!hash) hash = (octet*)xalloc(1), hl = 0;
	e = dstuSign(sig, P, ld, hash, hl, priv, tapeStep, te);
	jInt("rcSign", e); jInt("drawsSign", (long long)te->calls); jOct("sig", sig, ld / 8);
	jInt("rcVerify", e == ERR_OK ? dstuVerify(P, ld, hash, hl, sig, pub) : -1);
	jSep(); fprintf(vx_out, "\"alts\":[");
	if (e == ERR_OK)
	{
		int first = 1; const char* s = alts; size_t half = ld / 16;
		while (s && (s = nextTok(s, tok, sizeof tok)) != 0)
		{
			size_t hl2 = hl, ld2 = ld; octet* h2 = (octet*)xalloc(hl + 8); octet* s2 = (octet*)xalloc(ld / 8 + 64); octet* q2 = (octet*)xalloc(2 * no);
			int ok = 0; err_t rc; octet* nle = (octet*)xalloc(half + 1);
			memcpy(h2, hash, hl); memcpy(s2, sig, ld / 8); memcpy(q2, pub, 2 * no); memcpy(nle, P->n, ono < half ? ono : half);
			if (strcmp(tok, "rpad") == 0 || strcmp(tok, "spad") == 0)
			{
				/* a non-zero octet in the padding of the component (possible when ld / 16 exceeds the length of the order) */
				if (half > ono) { s2[(tok[0] == 's' ? half : 0) + half - 1] = 1; ok = 1; }
			}
			else if (tok[0] == 'r') ok = numAlt(s2, half, nle, tok + 1);
			else if (tok[0] == 's') ok = numAlt(s2 + half, half, nle, tok + 1);
			else if (tok[0] == 'h' && tok[1] == '^') { size_t b = (size_t)strtoul(tok + 2, 0, 10); if (b < 8 * hl) h2[b / 8] ^= (octet)(1 << (b % 8)), ok = 1; }
			else if (strcmp(tok, "h=0") == 0) { memset(h2, 0, hl); ok = 1; }
			else if (strcmp(tok, "h=1") == 0) { memset(h2, 0, hl); if (hl) h2[0] = 1, ok = 1; }
			else if (strcmp(tok, "hlen-1") == 0) { if (hl) hl2 = hl - 1, ok = 1; }
			else if (strcmp(tok, "hlen+1") == 0) { h2[hl] = 0x5A; hl2 = hl + 1; ok = 1; }
			else if (tok[0] == 'x' || tok[0] == 'y') { size_t b = (size_t)strtoul(tok + 2, 0, 10); if (tok[1] == '^' && b < P->p[0]) (tok[0] == 'x' ? q2 : q2 + no)[b / 8] ^= (octet)(1 << (b % 8)), ok = 1; }
			else if (strcmp(tok, "Q-") == 0) { size_t i; for (i = 0; i < no; ++i) q2[no + i] ^= q2[i]; ok = 1; }
			else if (strcmp(tok, "ld+16") == 0)
			{
				/* the same (r, s) in a longer signature */
				memset(s2, 0, ld / 8 + 64); memcpy(s2, sig, half); memcpy(s2 + half + 1, sig + half, half); ld2 = ld + 16; ok = 1;
			}
			else if (strcmp(tok, "ld-16") == 0 && half > 1)
			{
				/* the same (r, s) in a shorter signature (possible when the top octets are padding) */
				memset(s2, 0, ld / 8 + 64); memcpy(s2, sig, half - 1); memcpy(s2 + half - 1, sig + half, half - 1); ld2 = ld - 16;
				ok = sig[half - 1] == 0 && sig[2 * half - 1] == 0;
			}
			if (ok)
			{
				rc = dstuVerify(P, ld2, h2, hl2, s2, q2);
				fprintf(vx_out, "%s{\"a\":\"%s\",\"rc\":%d,\"ld\":%d", first ? "" : ",", tok, (int)rc, (int)ld2); first = 0;
				vx_first = 0; jOct("hash", h2, hl2); jOct("sig", s2, ld2 / 8); jOct("pub", q2, 2 * no); fputc('}', vx_out);
			}
			free(h2); free(s2); free(q2); free(nle);
		}
	}
	fputc(']', vx_out);
	free(rec); free(xp); free(sig); free(pub); free(priv); free(hash); free((void*)td->t); free(td); free((void*)te->t); free(te); free(P);
}

/* ------------------------------------------------------------------ retry branches of the signing algorithms
   The standards repeat the generation of the one-time key while it is out of range, while r = 0 and while s = 0.  Random
   tapes never reach the last two branches, so the histories are CONSTRUCTED: plan=<b1,b2,...> lists the branch every draw
   of the tape has to take before a final admissible draw:
     dstu    e0 (zero chunk)  etop (only bits >= |n| - 1: trimmed to zero)  r0 (hash tied to the draw: h = y0 / x(eP) with
             the low |n| - 1 bits of y0 zero)  s0 (private key tied to the draw: d = -e / r mod n, r read from a signature
             under the key 1 on the tape (e))
     g12s    k0  kq (= q)  kmax (all ones)  s0 (d = -k e / r mod q, r read from a signature under the key 1 on the tape (k))
     bign96  k0  kq  kmax   (the algorithm has no other repetition)
   The library's zz / gf2 functions are used for this CONSTRUCTION only; the line records (parameters, d, H, tape,
   signature, return codes, number of generator calls) and spec/trace/Trace_Schemes.tla recomputes from the standard's loop
   which draw is used and what the signature is. */
static int planNext(const char** s, char* tok, size_t cap) { const char* n = nextTok(*s, tok, cap); if (!n) return 0; *s = n; return 1; }
static tape_t* tapeOfBuf(const octet* b, size_t n) { tape_t* s = (tape_t*)xalloc(sizeof(tape_t)); s->t = b; s->len = n; return s; }
static void seedOf(const vx_cmd* c) { vxSeed(vxEnvSeed() * 1000003ull + (uint64_t)vxInt(c, "salt", 1)); }

/* the branch each draw of the plan has to take according to the standard's loop, then "used" for the final draw */
static void putWant(const char* plan)
{
	char tok[32]; const char* s = plan; int first = 1;
	jSep(); fprintf(vx_out, "\"want\":[");
	while (s && planNext(&s, tok, sizeof tok))
	{
		const char* w = strcmp(tok, "e0") == 0 || strcmp(tok, "etop") == 0 ? "e=0" : strcmp(tok, "r0") == 0 ? "r=0" : strcmp(tok, "s0") == 0 ? "s=0" :
			strcmp(tok, "k0") == 0 ? "k=0" : strcmp(tok, "kq") == 0 || strcmp(tok, "kmax") == 0 ? "k>=q" : 0;
		if (w) fprintf(vx_out, "%s\"%s\"", first ? "" : ",", w), first = 0;
	}
	fprintf(vx_out, "%s\"used\"]", first ? "" : ",");
}

static void doDstuRetry(const vx_cmd* c)
{
	dstu_params* P = (dstu_params*)xalloc(sizeof(*P)); const char* name = vxArg(c, "name"); const char* plan = vxArg(c, "plan"); err_t e;
	size_t no, ono, nb, n, m, hl, dlen, ld, ntape = 0, i, hasR0 = 0, hasS0 = 0, built = 1; long long f[4]; char tok[32]; const char* s;
	octet* hash = vxHex(c, "hash", &hl); octet* dt = vxHex(c, "d", &dlen);
	octet* tape = (octet*)xalloc(16 * DSTU_SIZE); octet* ea = (octet*)xalloc(DSTU_SIZE); octet* eb = (octet*)xalloc(DSTU_SIZE); octet* ec = (octet*)xalloc(DSTU_SIZE);
	octet* priv; octet* pub; octet* sig; octet* tmp; tape_t* t;
	word* wn; word* we; word* wr; word* wd; void* zst;
	seedOf(c);
	e = dstuParamsStd(P, name ? name : ""); jInt("rcStd", e);
	if (e != ERR_OK) { free(P); return; }
	m = P->p[0]; no = O_OF_B(m);
	{
		octet* st = (octet*)xalloc(prngCOMBO_keep()); prngCOMBOStart(st, (u32)vxInt(c, "gen", 1));
		e = dstuPointGen(P->P, P, prngCOMBOStepR, st); free(st); jInt("rcPointGen", e);
	}
	n = W_OF_O(no); wn = (word*)xalloc(O_OF_W(n)); we = (word*)xalloc(O_OF_W(n)); wr = (word*)xalloc(O_OF_W(n)); wd = (word*)xalloc(O_OF_W(n));
	wwFrom(wn, P->n, no); nb = wwBitSize(wn, n); ono = O_OF_B(nb); n = W_OF_B(nb);
	zst = xalloc(utilMax(2, zzInvMod_deep(n), zzMulMod_deep(n)));
	ld = (size_t)vxInt(c, "ld", 16 * (long long)ono);
	f[0] = P->p[0]; f[1] = P->p[1]; f[2] = P->p[2]; f[3] = P->p[3]; jIntArr("f", f, 4);
	jInt("A", P->A); jOct("B", P->B, no); jOct("n", P->n, no); jOct("Px", P->P, no); jOct("Py", P->P + no, no);
	priv = (octet*)xalloc(ono); pub = (octet*)xalloc(2 * no); sig = (octet*)xalloc(ld / 8 + 1); tmp = (octet*)xalloc(2 * no + ld / 8 + 1);
	for (s = plan; s && planNext(&s, tok, sizeof tok);) { if (strcmp(tok, "r0") == 0) ++hasR0; if (strcmp(tok, "s0") == 0) ++hasS0; }
	if (!hash) hash = (octet*)xalloc(1), hl = 0;
	/* seeded admissible draws: |n| - 1 bits, non-zero */
	vxRandBuf(ea, ono); vxRandBuf(eb, ono); vxRandBuf(ec, ono);
	ea[0] |= 1; eb[0] |= 1; ec[0] |= 1;
	for (i = nb - 1; i < 8 * ono; ++i) ea[i / 8] &= (octet)~(1 << (i % 8)), eb[i / 8] &= (octet)~(1 << (i % 8)), ec[i / 8] &= (octet)~(1 << (i % 8));
	if (hasR0)
	{
		/* h <- y0 / x(ea P): the abscissa is read from the public key -(ea P) of the "private key" ea; the bits of y0 below
		   |n| - 1 are zero, at least one of the bits |n| - 1 .. m - 1 is set */
		size_t p4[4]; qr_o* gf = (qr_o*)xalloc(gf2Create_keep(m)); void* st = xalloc(gf2Create_deep(m)); void* st2;
		word* x = (word*)xalloc(O_OF_W(W_OF_B(m))); word* y0 = (word*)xalloc(O_OF_W(W_OF_B(m))); octet* y0o = (octet*)xalloc(no);
		p4[0] = P->p[0]; p4[1] = P->p[1]; p4[2] = P->p[2]; p4[3] = P->p[3];
		t = tapeOfBuf(ea, ono);
		if (dstuKeypairGen(priv, pub, P, tapeStep, t) != ERR_OK || t->calls != 1 || !gf2Create(gf, p4, st)) built = 0;
		free(t);
		if (built)
		{
			st2 = xalloc(gf->deep);
			vxRandBuf(y0o, no);
			for (i = 0; i < 8 * no; ++i) if (i < nb - 1 || i >= m) y0o[i / 8] &= (octet)~(1 << (i % 8));
			y0o[(m - 1) / 8] |= (octet)(1 << ((m - 1) % 8));
			if (!qrFrom(y0, y0o, gf, st2) || !qrFrom(x, pub, gf, st2) || qrIsZero(x, gf)) built = 0;
			else
			{
				qrDiv(y0, y0, x, gf, st2);
				free(hash); hl = no; hash = (octet*)xalloc(no); qrTo(hash, y0, gf, st2);
			}
			free(st2);
		}
		free(y0o); free(y0); free(x); free(st); free(gf);
	}
	if (hasS0 && built)
	{
		/* d <- -eb / r mod n with r the first component of the signature under the key 1 on the tape (eb); d has to be a key
		   dstuKeypairGen itself returns (|n| - 1 bits): other seeded eb are tried until it is */
		size_t tries; octet* one = (octet*)xalloc(ono); one[0] = 1; built = 0;
		for (tries = 0; tries < 200 && !built; ++tries)
		{
			if (tries) { vxRandBuf(eb, ono); eb[0] |= 1; for (i = nb - 1; i < 8 * ono; ++i) eb[i / 8] &= (octet)~(1 << (i % 8)); }
			if (hasR0 && memcmp(ea, eb, ono) == 0) continue;
			t = tapeOfBuf(eb, ono);
			e = dstuSign(tmp, P, 16 * ono, hash, hl, one, tapeStep, t);
			if (e == ERR_OK && t->calls == 1)
			{
				wwFrom(wr, tmp, ono); wwFrom(we, eb, ono);
				zzInvMod(wd, wr, wn, n, zst); zzMulMod(wd, wd, we, wn, n, zst); zzNegMod(wd, wd, wn, n);
				if (!wwIsZero(wd, n) && !wwTestBit(wd, nb - 1)) built = 1;
			}
			free(t);
		}
		free(one);
		if (built) { free(dt); dt = (octet*)xalloc(ono); dlen = ono; wwTo(dt, ono, wd); }
	}
	/* the tape */
	for (s = plan; s && planNext(&s, tok, sizeof tok) && ntape + 2 * ono <= 16 * DSTU_SIZE;)
	{
		octet* ch = tape + ntape;
		if (strcmp(tok, "e0") == 0) memset(ch, 0, ono);
		else if (strcmp(tok, "etop") == 0) { memset(ch, 0, ono); for (i = nb - 1; i < 8 * ono; ++i) ch[i / 8] |= (octet)(1 << (i % 8)); }
		else if (strcmp(tok, "r0") == 0) memcpy(ch, ea, ono);
		else if (strcmp(tok, "s0") == 0) memcpy(ch, eb, ono);
		else continue;
		ntape += ono;
	}
	memcpy(tape + ntape, ec, ono); ntape += ono;
	jInt("built", (long long)built); putWant(plan); jOct("dtape", dt ? dt : tape, dt ? dlen : 0); jOct("H", hash, hl); jOct("tape", tape, ntape);
	t = tapeOfBuf(dt, dt ? dlen : 0);
	e = dstuKeypairGen(priv, pub, P, tapeStep, t); free(t);
	jInt("rcGen", e); jOct("priv", priv, ono); jOct("pub", pub, 2 * no); jInt("rcPubVal", dstuPointVal(P, pub));
	t = tapeOfBuf(tape, ntape);
	e = dstuSign(sig, P, ld, hash, hl, priv, tapeStep, t);
	jInt("rcSign", e); jInt("drawsSign", (long long)t->calls); jInt("ldSig", (long long)ld); jOct("sig", sig, ld / 8);
	jInt("rcVerify", e == ERR_OK ? dstuVerify(P, ld, hash, hl, sig, pub) : -1);
	free(t);
	free(zst); free(wd); free(wr); free(we); free(wn); free(tmp); free(sig); free(pub); free(priv);
	free(ec); free(eb); free(ea); free(tape); free(dt); free(hash); free(P);
}

/* out-of-range chunk of a zzRandNZMod draw for the modulus q[mo] (little-endian), nbits = |q| */
static int rangeChunk(octet* ch, const char* tok, const octet* q, size_t mo)
{
	if (strcmp(tok, "k0") == 0) { memset(ch, 0, mo); return 1; }
	if (strcmp(tok, "kq") == 0) { memcpy(ch, q, mo); return 1; }
	if (strcmp(tok, "kmax") == 0) { memset(ch, 255, mo); return 1; }
	return 0;
}

static void doG12sRetry(const vx_cmd* c)
{
	g12s_params* P = (g12s_params*)xalloc(sizeof(*P)); const char* name = vxArg(c, "name"); const char* plan = vxArg(c, "plan");
	size_t no, mo, m, hl, dlen, ntape = 0, built = 1, hasS0 = 0; err_t e; char tok[32]; const char* s;
	octet* hash = vxHex(c, "hash", &hl); octet* dt = vxHex(c, "d", &dlen);
	octet* tape; octet* kb; octet* kc; octet* priv; octet* pub; octet* sig; octet* tmp; tape_t* t;
	seedOf(c);
	e = g12sParamsStd(P, name ? name : ""); jInt("rcStd", e);
	if (e != ERR_OK) { free(P); return; }
	no = memNonZeroSize(P->p, G12S_FIELD_SIZE * P->l / 512); mo = P->l / 8; m = W_OF_O(mo);
	putG12sParams(P, no);
	tape = (octet*)xalloc(16 * mo); kb = (octet*)xalloc(mo); kc = (octet*)xalloc(mo);
	priv = (octet*)xalloc(mo); pub = (octet*)xalloc(2 * no); sig = (octet*)xalloc(2 * mo); tmp = (octet*)xalloc(2 * mo);
	if (!hash || hl != mo) { octet* h2 = (octet*)xalloc(mo); if (hash) memcpy(h2, hash, hl < mo ? hl : mo); free(hash); hash = h2; }
	for (s = plan; s && planNext(&s, tok, sizeof tok);) if (strcmp(tok, "s0") == 0) ++hasS0;
	{
		/* seeded admissible draws: uniform residues 1 .. q - 1 */
		word* wq = (word*)xalloc(O_OF_W(m)); word* wk = (word*)xalloc(O_OF_W(2 * m)); void* st = xalloc(utilMax(3, zzMod_deep(2 * m, m), zzInvMod_deep(m), zzMulMod_deep(m)));
		word* wr = (word*)xalloc(O_OF_W(m)); word* wd = (word*)xalloc(O_OF_W(m)); word* we = (word*)xalloc(O_OF_W(m)); octet* buf = (octet*)xalloc(2 * mo); int j;
		wwFrom(wq, P->q, mo);
		for (j = 0; j < 2; ++j)
		{
			do { vxRandBuf(buf, 2 * mo); wwFrom(wk, buf, 2 * mo); zzMod(wk, wk, 2 * m, wq, m, st); } while (wwIsZero(wk, m));
			wwTo(j ? kc : kb, mo, wk);
		}
		if (hasS0)
		{
			/* d <- -kb e / r mod q, r = first (big-endian) half of the signature under the key 1 on the tape (kb) */
			octet* one = (octet*)xalloc(mo); one[0] = 1;
			t = tapeOfBuf(kb, mo);
			e = g12sSign(tmp, P, hash, one, tapeStep, t);
			if (e != ERR_OK || t->calls != 1) built = 0;
			else
			{
				memcpy(buf, tmp, mo); oRev(buf, mo); wwFrom(wr, buf, mo);
				memcpy(buf, hash, mo); oRev(buf, mo); wwFrom(we, buf, mo); zzMod(we, we, m, wq, m, st); if (wwIsZero(we, m)) we[0] = 1;
				wwFrom(wk, kb, mo);
				zzInvMod(wd, wr, wq, m, st); zzMulMod(wd, wd, wk, wq, m, st); zzMulMod(wd, wd, we, wq, m, st); zzNegMod(wd, wd, wq, m);
				if (wwIsZero(wd, m)) built = 0;
				else { free(dt); dt = (octet*)xalloc(mo); dlen = mo; wwTo(dt, mo, wd); }
			}
			free(t); free(one);
		}
		free(buf); free(we); free(wd); free(wr); free(st); free(wk); free(wq);
	}
	for (s = plan; s && planNext(&s, tok, sizeof tok) && ntape + 2 * mo <= 16 * mo;)
	{
		octet* ch = tape + ntape;
		if (rangeChunk(ch, tok, P->q, mo)) ntape += mo;
		else if (strcmp(tok, "s0") == 0) { memcpy(ch, kb, mo); ntape += mo; }
	}
	memcpy(tape + ntape, kc, mo); ntape += mo;
	jInt("built", (long long)built); putWant(plan); jOct("dtape", dt ? dt : tape, dt ? dlen : 0); jOct("H", hash, mo); jOct("tape", tape, ntape);
	t = tapeOfBuf(dt, dt ? dlen : 0);
	e = g12sKeypairGen(priv, pub, P, tapeStep, t); free(t);
	jInt("rcGen", e); jOct("priv", priv, mo); jOct("pub", pub, 2 * no);
	t = tapeOfBuf(tape, ntape);
	e = g12sSign(sig, P, hash, priv, tapeStep, t);
	jInt("rcSign", e); jInt("drawsSign", (long long)t->calls); jOct("sig", sig, 2 * mo);
	jInt("rcVerify", e == ERR_OK ? g12sVerify(P, hash, sig, pub) : -1);
	free(t);
	free(tmp); free(sig); free(pub); free(priv); free(kc); free(kb); free(tape); free(dt); free(hash); free(P);
}

static void doBign96Retry(const vx_cmd* c)
{
	bign_params* P = (bign_params*)xalloc(sizeof(*P)); const char* plan = vxArg(c, "plan"); err_t e; char tok[32]; const char* s;
	size_t hl, ol, dlen, ntape = 0; octet* hash = vxHex(c, "hash", &hl); octet* oid = vxHex(c, "oid", &ol); octet* dt = vxHex(c, "d", &dlen);
	octet* tape = (octet*)xalloc(16 * 24); octet* kc = (octet*)xalloc(24); octet* priv = (octet*)xalloc(24); octet* pub = (octet*)xalloc(48); octet* sig = (octet*)xalloc(34);
	tape_t* t;
	seedOf(c);
	e = bign96ParamsStd(P, "1.2.112.0.2.0.34.101.45.3.0"); jInt("rcStd", e);
	if (!hash || hl != 24) { octet* h2 = (octet*)xalloc(24); if (hash) memcpy(h2, hash, hl < 24 ? hl : 24); free(hash); hash = h2; }
	jOct("p", P->p, 24); jOct("pa", P->a, 24); jOct("pb", P->b, 24); jOct("q", P->q, 24); jOct("yG", P->yG, 24);
	{
		word* wq = (word*)xalloc(24); word* wk = (word*)xalloc(48); void* st = xalloc(zzMod_deep(W_OF_O(48), W_OF_O(24))); octet* buf = (octet*)xalloc(48);
		wwFrom(wq, P->q, 24);
		do { vxRandBuf(buf, 48); wwFrom(wk, buf, 48); zzMod(wk, wk, W_OF_O(48), wq, W_OF_O(24), st); } while (wwIsZero(wk, W_OF_O(24)));
		wwTo(kc, 24, wk);
		free(buf); free(st); free(wk); free(wq);
	}
	for (s = plan; s && planNext(&s, tok, sizeof tok) && ntape + 48 <= 16 * 24;)
		if (rangeChunk(tape + ntape, tok, P->q, 24)) ntape += 24;
	memcpy(tape + ntape, kc, 24); ntape += 24;
	jInt("built", 1); putWant(plan); jOct("dtape", dt ? dt : tape, dt ? dlen : 0); jOct("H", hash, 24); jOct("tape", tape, ntape);
	t = tapeOfBuf(dt, dt ? dlen : 0);
	e = bign96KeypairGen(priv, pub, P, tapeStep, t); free(t);
	jInt("rcGen", e); jOct("priv", priv, 24); jOct("pub", pub, 48);
	t = tapeOfBuf(tape, ntape);
	e = bign96Sign(sig, P, oid, ol, hash, priv, tapeStep, t);
	jInt("rcSign", e); jInt("drawsSign", (long long)t->calls); jOct("sig", sig, 34);
	jInt("rcVerify", e == ERR_OK ? bign96Verify(P, oid, ol, hash, sig, pub) : -1);
	free(t);
	free(sig); free(pub); free(priv); free(kc); free(tape); free(dt); free(oid); free(hash); free(P);
}

/* compression / recovery of given abscissas on a standard curve (x = 0 and seeded abscissas) */
static void doDstuPoint(const vx_cmd* c)
{
	dstu_params* P = (dstu_params*)xalloc(sizeof(*P)); const char* name = vxArg(c, "name"); err_t e; size_t no, l; long long f[4];
	octet* xp; octet* rec; octet* xp2; octet* in;
	e = dstuParamsStd(P, name ? name : ""); jInt("rcStd", e);
	if (e != ERR_OK) { free(P); return; }
	no = O_OF_B(P->p[0]);
	f[0] = P->p[0]; f[1] = P->p[1]; f[2] = P->p[2]; f[3] = P->p[3]; jIntArr("f", f, 4); jInt("A", P->A); jOct("B", P->B, no);
	xp = (octet*)xalloc(no); rec = (octet*)xalloc(2 * no); xp2 = (octet*)xalloc(no);
	in = vxHex(c, "xp", &l); if (in) memcpy(xp, in, l < no ? l : no); free(in);
	memset(rec, 0xEE, 2 * no);
	jInt("rcRec", dstuPointRecover(rec, P, xp)); jOct("rec", rec, 2 * no);
	memset(xp2, 0xEE, no);
	jInt("rcComp", dstuPointCompress(xp2, P, rec)); jOct("xp2", xp2, no);
	free(xp2); free(rec); free(xp); free(P);
}

/* ------------------------------------------------------------------ pfok */
static void doPfok(const vx_cmd* c)
{
	pfok_params* P = (pfok_params*)xalloc(sizeof(*P)); const char* name = vxArg(c, "name"); err_t e; size_t no, mo, ko, i;
	static const char* T[4] = { "xa", "xb", "ua", "ub" }; octet* priv[4]; octet* pub[4]; char key[16];
	e = pfokParamsStd(P, 0, name ? name : ""); jInt("rcStd", e);
	if (e != ERR_OK) { free(P); return; }
	/* n=<bits>: another admissible length of the shared key (pfok.h: n < l; the result is [O_OF_B(n)]sharekey, n bits) */
	if (vxArg(c, "n")) P->n = (size_t)vxInt(c, "n", (long long)P->n);
	no = O_OF_B(P->l); mo = O_OF_B(P->r); ko = O_OF_B(P->n);
	jInt("l", (long long)P->l); jInt("r", (long long)P->r); jInt("n", (long long)P->n); jOct("p", P->p, no); jOct("g", P->g, no);
	for (i = 0; i < 4; ++i)
	{
		tape_t* t = tapeOf(c, T[i]); octet* calc = (octet*)xalloc(no);
		priv[i] = (octet*)xalloc(mo); pub[i] = (octet*)xalloc(no);
		e = pfokKeypairGen(priv[i], pub[i], P, tapeStep, t);
		snprintf(key, sizeof key, "rcGen_%s", T[i]); jInt(key, e);
		snprintf(key, sizeof key, "priv_%s", T[i]); jOct(key, priv[i], mo);
		snprintf(key, sizeof key, "pub_%s", T[i]); jOct(key, pub[i], no);
		snprintf(key, sizeof key, "rcVal_%s", T[i]); jInt(key, pfokPubkeyVal(P, pub[i]));
		e = pfokPubkeyCalc(calc, P, priv[i]);
		snprintf(key, sizeof key, "calc_%s", T[i]); jInt(key, e == ERR_OK && memcmp(calc, pub[i], no) == 0);
		free(calc); free((void*)t->t); free(t);
	}
	{
		octet* k1 = (octet*)xalloc(ko); octet* k2 = (octet*)xalloc(ko);
		/* 4.1 without authentication: (ua, vb) | (ub, va);  4.3 one-sided: (ua, yb) | (xb, va);  4.2 MTI */
		jInt("rcDH_a", pfokDH(k1, P, priv[2], pub[3])); jInt("rcDH_b", pfokDH(k2, P, priv[3], pub[2])); jOct("dh_a", k1, ko); jOct("dh_b", k2, ko);
		jInt("rcDH1_a", pfokDH(k1, P, priv[2], pub[1])); jInt("rcDH1_b", pfokDH(k2, P, priv[1], pub[2])); jOct("dh1_a", k1, ko); jOct("dh1_b", k2, ko);
		jInt("rcMTI_a", pfokMTI(k1, P, priv[0], priv[2], pub[1], pub[3])); jInt("rcMTI_b", pfokMTI(k2, P, priv[1], priv[3], pub[0], pub[2]));
		jOct("mti_a", k1, ko); jOct("mti_b", k2, ko);
		/* invalid inputs: public key 0 / p, private key with bit r set */
		{
			octet* z = (octet*)xalloc(no); octet* bad = (octet*)xalloc(mo + 1);
			jInt("rcDH_pub0", pfokDH(k1, P, priv[0], z)); jInt("rcDH_pubp", pfokDH(k1, P, priv[0], P->p));
			jInt("rcMTI_pub0", pfokMTI(k1, P, priv[0], priv[2], z, pub[3])); jInt("rcMTI_pubp", pfokMTI(k1, P, priv[0], priv[2], pub[1], P->p));
			memcpy(bad, priv[0], mo);
			if (P->r % 8) { bad[P->r / 8] |= (octet)(1 << (P->r % 8)); jInt("rcDH_privbig", pfokDH(k1, P, bad, pub[1])); jInt("rcCalc_privbig", pfokPubkeyCalc(z, P, bad)); }
			free(bad); free(z);
		}
		free(k1); free(k2);
	}
	for (i = 0; i < 4; ++i) free(priv[i]), free(pub[i]);
	free(P);
}

/* ------------------------------------------------------------------ gf2: trace and quadratic solver on a complete small field */
static void doGf2(const vx_cmd* c)
{
	/* the library builds GF(2^m) only for m - k >= B_PER_W: no complete small field; structured and seeded elements instead */
	unsigned long long ff[4] = {0, 0, 0, 0}; const char* v = vxArg(c, "f"); size_t i = 0, m, n, no, p[4], cnt = (size_t)vxInt(c, "cnt", 16), j; qr_o* f; void* st; size_t sd;
	while (v && *v && i < 4) { ff[i++] = strtoull(v, (char**)&v, 10); if (*v == ',') ++v; }
	for (i = 0; i < 4; ++i) p[i] = (size_t)ff[i];
	m = p[0]; n = W_OF_B(m); no = O_OF_B(m);
	if (m < 2 || m > 600) { jInt("rc", -2); return; }
	f = (qr_o*)xalloc(gf2Create_keep(m)); st = xalloc(gf2Create_deep(m));
	if (!gf2Create(f, p, st)) { jInt("rc", -1); free(st); free(f); return; }
	free(st);
	sd = utilMax(2, gf2Tr_deep(n, f->deep), gf2QSolve_deep(n, f->deep)); st = xalloc(sd);
	jInt("rc", 0);
	vxSeed(vxEnvSeed() * 31 + m);
	jSep(); fprintf(vx_out, "\"els\":[");
	for (j = 0; j < cnt + 5; ++j)
	{
		octet* xo = (octet*)xalloc(no); word* a = (word*)xalloc(O_OF_W(n)); word* z = (word*)xalloc(O_OF_W(n)); word* one = (word*)xalloc(O_OF_W(n));
		octet* zo = (octet*)xalloc(no); int tr, ok;
		if (j == 1) xo[0] = 1; else if (j == 2) xo[0] = 2; else if (j == 3) xo[(m - 1) / 8] = (octet)(1 << ((m - 1) % 8));
		else if (j == 4) { memset(xo, 255, no); if (m % 8) xo[no - 1] = (octet)((1 << (m % 8)) - 1); }
		else if (j >= 5) { vxRandBuf(xo, no); if (m % 8) xo[no - 1] &= (octet)((1 << (m % 8)) - 1); }
		wwFrom(a, xo, no); one[0] = 1;
		tr = gf2Tr(a, f, st) ? 1 : 0;
		ok = (m % 2) ? gf2QSolve(z, one, a, f, st) : 0;
		wwTo(zo, no, z);
		fprintf(vx_out, "%s{\"tr\":%d,\"ok\":%d", j ? "," : "", tr, ok); vx_first = 0; jOct("x", xo, no); jOct("z", zo, no); fputc('}', vx_out);
		free(zo); free(one); free(z); free(a); free(xo);
	}
	fputc(']', vx_out);
	free(st); free(f);
}

int main(int argc, char** argv)
{
	char* line = 0; size_t cap = 0; vx_cmd c;
	vxSeed(vxEnvSeed());
	if (argc < 2 || strcmp(argv[1], "exec") != 0) { fprintf(stderr, "usage: drv_schemes exec\n"); return 2; }
	while (getline(&line, &cap, stdin) > 0)
	{
		if (!vxParse(&c, line)) continue;
		jBegin(); jStr("op", c.op); echoArgs(&c);
		if (strcmp(c.op, "g12s") == 0) doG12s(&c);
		else if (strcmp(c.op, "bign96") == 0) doBign96(&c);
		else if (strcmp(c.op, "dstu") == 0) doDstu(&c);
		else if (strcmp(c.op, "dstuPoint") == 0) doDstuPoint(&c);
		else if (strcmp(c.op, "dstuRetry") == 0) doDstuRetry(&c);
		else if (strcmp(c.op, "g12sRetry") == 0) doG12sRetry(&c);
		else if (strcmp(c.op, "bign96Retry") == 0) doBign96Retry(&c);
		else if (strcmp(c.op, "pfok") == 0) doPfok(&c);
		else if (strcmp(c.op, "gf2") == 0) doGf2(&c);
		else jInt("unknown", 1);
		jEnd(); fflush(vx_out);
	}
	free(line);
	return 0;
}
