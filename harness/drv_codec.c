/* C08: record-direction driver for the codecs of bee2/core (der, oid, apdu, hex, b64, dec).
   Modes:
     agg <fn>            exhaustive aggregates per 2-symbol prefix (fn = tl size oid hex dec b64)
     expand <fn> a b     one ndjson line per member string of the prefix (a,b)
     record <quick|thorough>   structure-aware mutants and encode->decode round trips
   Every input lives in an exact-size malloc'ed buffer (an over-read faults under ASan), outputs
   go to exact-size buffers.  ASan runs in recover mode: a report sets the fault flag of the
   current case (field "fault": 1 asan, 2 segv/bus, 3 abort, 4 timeout) and the run goes on. */
#include "vx.h"
#include <signal.h>
#include <setjmp.h>
#include <unistd.h>
#include <bee2/core/der.h>
#include <bee2/core/oid.h>
#include <bee2/core/apdu.h>
#include <bee2/core/hex.h>
#include <bee2/core/b64.h>
#include <bee2/core/dec.h>
#include <bee2/core/str.h>
#include <bee2/core/err.h>
#include <bee2/crypto/bign.h>
#include <bee2/crypto/btok.h>

/* ------------------------------------------------------------------ faults */
static volatile int g_fault = 0;
static volatile long g_nfault = 0;
static sigjmp_buf g_jmp;
static volatile int g_armed = 0;
static void crashNote(void);
void __asan_on_error(void) { g_fault = 1; ++g_nfault; crashNote(); }
static void onSig(int sig)
{
	int k = sig == SIGABRT ? 3 : sig == SIGALRM ? 4 : 2;
	if (!g_armed) _exit(90 + k);
	g_fault = k; ++g_nfault;
	siglongjmp(g_jmp, k);
}
static void installHandlers(void)
{
	struct sigaction sa; memset(&sa, 0, sizeof sa);
	sa.sa_handler = onSig; sa.sa_flags = SA_NODEFER;
	sigaction(SIGSEGV, &sa, 0); sigaction(SIGBUS, &sa, 0);
	sigaction(SIGABRT, &sa, 0); sigaction(SIGALRM, &sa, 0);
}

/* guarded buffers: every input/output buffer ends exactly at a PROT_NONE page, so that a read or
   write past its end raises SIGSEGV in the very case that commits it (ASan in recover mode reports
   each faulting PC only once, so it is kept as a second sensor only) */
#include <sys/mman.h>
#define G_SLOTS 12
#define G_PAGES 40
static octet* g_guard[G_SLOTS]; static int g_slot = 0;
static void gInit(void)
{
	int i; size_t pg = 4096;
	for (i = 0; i < G_SLOTS; ++i)
	{
		octet* m = (octet*)mmap(0, (G_PAGES + 1) * pg, PROT_READ | PROT_WRITE, MAP_PRIVATE | MAP_ANONYMOUS, -1, 0);
		if (m == MAP_FAILED) { perror("mmap"); exit(3); }
		mprotect(m + G_PAGES * pg, pg, PROT_NONE);
		g_guard[i] = m + G_PAGES * pg;
	}
}
static octet* gbuf(size_t n)
{
	if (n > G_PAGES * 4096u || g_slot >= G_SLOTS) { fprintf(stderr, "driver: guarded pool exhausted (n=%zu slot=%d)\n", n, g_slot); _exit(4); }
	return g_guard[g_slot++] - n;
}
static octet* xbuf(const void* src, size_t n) { octet* p = gbuf(n); if (n) memcpy(p, src, n); return p; }
static int g_slot_base = 0;
static void xfree(void) { g_slot = g_slot_base; }
/* exact-size output buffer filled with a sentinel */
static octet* obuf(size_t n) { octet* p = gbuf(n); if (n) memset(p, 0xA5, n); return p; }

/* ------------------------------------------------------------------ json helpers */
static void jBN(const char* k, size_t v)       /* minimal big-endian octets, 0 -> [] */
{
	octet b[8]; int i, s = 0;
	for (i = 0; i < 8; ++i) b[i] = (octet)(v >> (8 * (7 - i)));
	while (s < 8 && b[s] == 0) ++s;
	jOct(k, b + s, 8 - s);
}
static void jU32(const char* k, u32 v)         /* 4 big-endian octets */
{
	octet b[4]; b[0] = (octet)(v >> 24); b[1] = (octet)(v >> 16); b[2] = (octet)(v >> 8); b[3] = (octet)v;
	jOct(k, b, 4);
}
static void jW(const char* k, u32 v)           /* <<lo16, hi16>> */
{
	long long a[2]; a[0] = v & 0xFFFF; a[1] = v >> 16; jIntArr(k, a, 2);
}
/* re-encoding of what was decoded: full octets when short, always its length and whether it equals
   the first relen octets of the input */
static const octet* g_in; static size_t g_inlen;
static void jRe(const octet* re, size_t e)
{
	int ok = re && e != SIZE_MAX;
	jBool("reok", ok); jInt("relen", ok ? (long long)e : 0);
	jBool("reeq", ok && e <= g_inlen && (e == 0 || memcmp(re, g_in, e) == 0));
	jOct("re", re, ok && e <= 1024 ? e : 0);
}
static void jChars(const char* k, const char* s) { jOct(k, s, strlen(s)); }

/* current case (for the line written after a signal) */
static const char* g_op = ""; static char g_cls[160];
static long g_lines = 0;
static void lineHead(void)
{
	jBegin(); jStr("op", g_op); jStr("cls", g_cls); jOct("in", g_in, g_inlen); jInt("fault", g_fault);
	++g_lines;
}
#define OKF(r) ((r) != SIZE_MAX)
#define NV(r) ((long long)((r) == SIZE_MAX ? 0 : (r) > 0x7FFFFFFF ? 0x7FFFFFFF : (r)))
#define SANE ((size_t)1 << 22)

/* run one case: body writes the whole line; after a signal a minimal line is written */
/* case counter and the list of cases to skip (VERIF_SKIP=n1,n2,...: cases that killed a previous run) */
static long g_case = 0; static long g_skip[64]; static int g_nskip = 0;
static int caseSkipped(void) { int i; for (i = 0; i < g_nskip; ++i) if (g_skip[i] == g_case) return 1; return 0; }
static void readSkip(void)
{
	const char* e = getenv("VERIF_SKIP");
	while (e && *e && g_nskip < 64) { g_skip[g_nskip++] = strtol(e, (char**)&e, 10); if (*e == ',') ++e; }
}
static int g_aggmode = 0, g_agg_a, g_agg_b;
/* called when ASan is about to report (and, without recover mode, to end the process) */
static void crashNote(void)
{
	if (g_aggmode) { fflush(stdout); fprintf(stderr, "@CRASH case=%ld prefix=%d,%d\n", g_case, g_agg_a, g_agg_b); return; }
	if (g_armed) { lineHead(); jBool("ok", 0); jEnd(); }
	fflush(stdout);
	fprintf(stderr, "@CRASH case=%ld op=%s cls=%s\n", g_case, g_op, g_cls);
}
#define CASE_BEGIN(op_, in_, n_) \
	g_op = (op_); g_in = (in_); g_inlen = (n_); g_fault = 0; ++g_case; \
	if (!caseSkipped()) { g_armed = 1; alarm(20); \
	if (sigsetjmp(g_jmp, 1) == 0) {
#define CASE_END \
	} else { lineHead(); jBool("ok", 0); jEnd(); } \
	g_armed = 0; alarm(0); } xfree();

/* ================================================================== DER decoders, one line each */
static void doTLDec(const octet* src, size_t n)
{
	CASE_BEGIN("derTLDec", src, n)
	const octet* p = xbuf(src, n); u32 tag = 0; size_t len = 0, r, e = SIZE_MAX; octet* re = 0;
	r = derTLDec(&tag, &len, p, n);
	if (OKF(r)) { e = derTLEnc(0, tag, len); if (OKF(e) && e < SANE) { re = obuf(e); if (derTLEnc(re, tag, len) != e) e = SIZE_MAX; } }
	lineHead(); jBool("ok", OKF(r)); jInt("n", NV(r)); jU32("tag", tag); jBN("len", len);
	jRe(re, e); jEnd(); 	CASE_END
}
static void doDec(const octet* src, size_t n)
{
	CASE_BEGIN("derDec", src, n)
	const octet* p = xbuf(src, n); u32 tag = 0; size_t len = 0, r, e = SIZE_MAX; const octet* v = 0; octet* re = 0; int oob = 0;
	r = derDec(&tag, &v, &len, p, n);
	if (OKF(r)) {
		if (r > n || len > n || v < p || v + len > p + n) oob = 1;
		else { e = derEnc(0, tag, 0, len); if (OKF(e) && e < SANE) { re = obuf(e); if (derEnc(re, tag, v, len) != e) e = SIZE_MAX; } }
	}
	lineHead(); jBool("ok", OKF(r)); jInt("n", NV(r)); jU32("tag", tag); jBool("oob", oob);
	jOct("val", v, OKF(r) && !oob ? len : 0); jRe(re, e); jEnd(); 	CASE_END
}
static void doIsValid(const octet* src, size_t n, int which, u32 atag)
{
	CASE_BEGIN(which == 0 ? "derIsValid" : which == 1 ? "derIsValid2" : "derStartsWith", src, n)
	const octet* p = xbuf(src, n); bool_t r;
	r = which == 0 ? derIsValid(p, n) : which == 1 ? derIsValid2(p, n, atag) : derStartsWith(p, n, atag);
	lineHead(); jBool("ok", r != 0); jU32("atag", atag); jEnd();
	CASE_END
}
static void doDec234(const octet* src, size_t n, int which, u32 atag, size_t alen, const octet* aval)
{
	CASE_BEGIN(which == 2 ? "derDec2" : which == 3 ? "derDec3" : "derDec4", src, n)
	const octet* p = xbuf(src, n); size_t len = 0, r; const octet* v = 0; int oob = 0;
	if (which == 2) r = derDec2(&v, &len, p, n, atag);
	else if (which == 3) r = derDec3(&v, p, n, atag, alen), len = alen;
	else r = derDec4(p, n, atag, xbuf(aval, alen), alen), len = 0;
	if (OKF(r) && which != 4 && (r > n || len > n || v < p || v + len > p + n)) oob = 1;
	if (OKF(r) && r > n) oob = 1;
	lineHead(); jBool("ok", OKF(r)); jInt("n", NV(r)); jU32("atag", atag); jInt("alen", (long long)alen); jOct("aval", aval, which == 4 ? alen : 0);
	jBool("oob", oob); jOct("val", v, OKF(r) && !oob && which != 4 ? len : 0); jEnd();
	CASE_END
}
static void doSizeDec(const octet* src, size_t n, u32 atag)
{
	CASE_BEGIN("derTSIZEDec", src, n)
	const octet* p = xbuf(src, n); size_t val = 0, r, r0, e = SIZE_MAX; octet* re = 0;
	r0 = derTSIZEDec(0, p, n, atag);
	r = derTSIZEDec(&val, p, n, atag);
	if (OKF(r)) { e = derTSIZEEnc(0, atag, val); if (OKF(e) && e < SANE) { re = obuf(e); if (derTSIZEEnc(re, atag, val) != e) e = SIZE_MAX; } }
	lineHead(); jBool("ok", OKF(r)); jInt("n", NV(r)); jU32("atag", atag); jBN("val", OKF(r) ? val : 0); jBool("pc", r0 == r);
	jRe(re, e); jEnd(); 	CASE_END
}
static void doSizeDec2(const octet* src, size_t n, u32 atag, size_t aval)
{
	CASE_BEGIN("derTSIZEDec2", src, n)
	const octet* p = xbuf(src, n); size_t r = derTSIZEDec2(p, n, atag, aval);
	lineHead(); jBool("ok", OKF(r)); jInt("n", NV(r)); jU32("atag", atag); jBN("aval", aval); jEnd();
	CASE_END
}
/* UINT / BIT / OCT / PSTR / OID share the two-pass shape: probe the length, then decode into an exact buffer */
static void doUintDec(const octet* src, size_t n, u32 atag)
{
	CASE_BEGIN("derTUINTDec", src, n)
	const octet* p = xbuf(src, n); size_t len0 = 0, len = 0, r0, r = SIZE_MAX, e = SIZE_MAX; octet* out = 0; octet* re = 0; int oob = 0;
	r0 = derTUINTDec(0, &len0, p, n, atag);
	if (OKF(r0)) { if (len0 > SANE || r0 > n) oob = 1; else { out = obuf(len0); r = derTUINTDec(out, &len, p, n, atag); } }
	if (OKF(r) && len0 > 0) { e = derTUINTEnc(0, atag, out, len); if (OKF(e) && e < SANE) { re = obuf(e); if (derTUINTEnc(re, atag, out, len) != e) e = SIZE_MAX; } }
	lineHead(); jBool("ok", OKF(r0)); jInt("n", NV(r0)); jU32("atag", atag); jBool("oob", oob); jBool("pc", oob || (r0 == r && len0 == len));
	jOct("val", out, OKF(r) ? len : 0); jRe(re, e); jEnd(); 	CASE_END
}
static void doUintDec2(const octet* src, size_t n, u32 atag, size_t alen)
{
	CASE_BEGIN("derTUINTDec2", src, n)
	const octet* p = xbuf(src, n); octet* out = obuf(alen); size_t r0 = derTUINTDec2(0, p, n, atag, alen), r = derTUINTDec2(out, p, n, atag, alen);
	lineHead(); jBool("ok", OKF(r)); jInt("n", NV(r)); jU32("atag", atag); jInt("alen", (long long)alen); jBool("pc", r0 == r);
	jOct("val", out, OKF(r) ? alen : 0); jEnd(); 	CASE_END
}
static void doBitDec(const octet* src, size_t n, u32 atag)
{
	CASE_BEGIN("derTBITDec", src, n)
	const octet* p = xbuf(src, n); size_t b0 = 0, bits = 0, r0, r = SIZE_MAX, e = SIZE_MAX; octet* out = 0; octet* re = 0; int oob = 0;
	r0 = derTBITDec(0, &b0, p, n, atag);
	if (OKF(r0)) { if (b0 > 8 * SANE || r0 > n) oob = 1; else { out = obuf((b0 + 7) / 8); r = derTBITDec(out, &bits, p, n, atag); } }
	if (OKF(r)) { e = derTBITEnc(0, atag, out, bits); if (OKF(e) && e < SANE) { re = obuf(e); if (derTBITEnc(re, atag, out, bits) != e) e = SIZE_MAX; } }
	lineHead(); jBool("ok", OKF(r0)); jInt("n", NV(r0)); jU32("atag", atag); jBool("oob", oob); jBool("pc", oob || (r0 == r && b0 == bits));
	jInt("bits", oob ? 0 : (long long)bits); jOct("val", out, OKF(r) ? (bits + 7) / 8 : 0);
	jRe(re, e); jEnd(); 	CASE_END
}
static void doBitDec2(const octet* src, size_t n, u32 atag, size_t abits)
{
	CASE_BEGIN("derTBITDec2", src, n)
	const octet* p = xbuf(src, n); octet* out = obuf((abits + 7) / 8); size_t r0 = derTBITDec2(0, p, n, atag, abits), r = derTBITDec2(out, p, n, atag, abits);
	lineHead(); jBool("ok", OKF(r)); jInt("n", NV(r)); jU32("atag", atag); jInt("abits", (long long)abits); jBool("pc", r0 == r);
	jOct("val", out, OKF(r) ? (abits + 7) / 8 : 0); jEnd(); 	CASE_END
}
static void doOctDec(const octet* src, size_t n, u32 atag)
{
	CASE_BEGIN("derTOCTDec", src, n)
	const octet* p = xbuf(src, n); size_t len0 = 0, len = 0, r0, r = SIZE_MAX; octet* out = 0; int oob = 0;
	r0 = derTOCTDec(0, &len0, p, n, atag);
	if (OKF(r0)) { if (len0 > n || r0 > n) oob = 1; else { out = obuf(len0); r = derTOCTDec(out, &len, p, n, atag); } }
	lineHead(); jBool("ok", OKF(r0)); jInt("n", NV(r0)); jU32("atag", atag); jBool("oob", oob); jBool("pc", oob || (r0 == r && len0 == len));
	jOct("val", out, OKF(r) ? len : 0); jEnd(); 	CASE_END
}
static void doOctDec2(const octet* src, size_t n, u32 atag, size_t alen)
{
	CASE_BEGIN("derTOCTDec2", src, n)
	const octet* p = xbuf(src, n); octet* out = obuf(alen); size_t r0 = derTOCTDec2(0, p, n, atag, alen), r = derTOCTDec2(out, p, n, atag, alen);
	lineHead(); jBool("ok", OKF(r)); jInt("n", NV(r)); jU32("atag", atag); jInt("alen", (long long)alen); jBool("pc", r0 == r);
	jOct("val", out, OKF(r) ? alen : 0); jEnd(); 	CASE_END
}
static void doNullDec(const octet* src, size_t n)
{
	CASE_BEGIN("derNULLDec", src, n)
	const octet* p = xbuf(src, n); size_t r = derNULLDec(p, n);
	lineHead(); jBool("ok", OKF(r)); jInt("n", NV(r)); jEnd();
	CASE_END
}
static void doPstrDec(const octet* src, size_t n, u32 atag)
{
	CASE_BEGIN("derTPSTRDec", src, n)
	const octet* p = xbuf(src, n); size_t len0 = 0, len = 0, r0, r = SIZE_MAX, e = SIZE_MAX; char* out = 0; octet* re = 0; int oob = 0, term = 1;
	r0 = derTPSTRDec(0, &len0, p, n, atag);
	if (OKF(r0)) { if (len0 > n || r0 > n) oob = 1; else { out = (char*)obuf(len0 + 1); r = derTPSTRDec(out, &len, p, n, atag); term = OKF(r) && out[len0] == 0; } }
	if (OKF(r) && term && strlen(out) == len) { e = derTPSTREnc(0, atag, out); if (OKF(e) && e < SANE) { re = obuf(e); if (derTPSTREnc(re, atag, out) != e) e = SIZE_MAX; } }
	lineHead(); jBool("ok", OKF(r0)); jInt("n", NV(r0)); jU32("atag", atag); jBool("oob", oob); jBool("pc", oob || (r0 == r && len0 == len && term));
	jOct("str", out, OKF(r) ? len : 0); jRe(re, e); jEnd(); 	CASE_END
}
static void doOidDec(const octet* src, size_t n)
{
	CASE_BEGIN("derOIDDec", src, n)
	const octet* p = xbuf(src, n); size_t len0 = 0, len = 0, r0, r = SIZE_MAX, e = SIZE_MAX; char* out = 0; octet* re = 0; int oob = 0, term = 1;
	r0 = derOIDDec(0, &len0, p, n);
	if (OKF(r0)) { if (len0 > 16 * n + 16 || r0 > n) oob = 1; else { out = (char*)obuf(len0 + 1); r = derOIDDec(out, &len, p, n); term = OKF(r) && out[len0] == 0 && strlen(out) == len0; } }
	if (OKF(r) && term) { e = derOIDEnc(0, out); if (OKF(e) && e < SANE) { re = obuf(e); if (derOIDEnc(re, out) != e) e = SIZE_MAX; } }
	lineHead(); jBool("ok", OKF(r0)); jInt("n", NV(r0)); jBool("oob", oob); jBool("pc", oob || (r0 == r && len0 == len && term));
	jOct("oid", out, OKF(r) ? len : 0); jRe(re, e); jEnd(); 	CASE_END
}
static void doOidDec2(const octet* src, size_t n, const char* aoid)
{
	CASE_BEGIN("derOIDDec2", src, n)
	const octet* p = xbuf(src, n); const char* a = (const char*)xbuf(aoid, strlen(aoid) + 1); size_t r = derOIDDec2(p, n, a);
	lineHead(); jBool("ok", OKF(r)); jInt("n", NV(r)); jChars("aoid", aoid); jEnd();
	CASE_END
}
static void doOidFromDer(const octet* src, size_t n)
{
	CASE_BEGIN("oidFromDER", src, n)
	const octet* p = xbuf(src, n); size_t r0, r = SIZE_MAX; char* out = 0; int oob = 0, term = 1;
	r0 = oidFromDER(0, p, n);
	if (OKF(r0)) { if (r0 > 16 * n + 16) oob = 1; else { out = (char*)obuf(r0 + 1); r = oidFromDER(out, p, n); term = OKF(r) && out[r0] == 0 && strlen(out) == r0; } }
	lineHead(); jBool("ok", OKF(r0)); jInt("n", NV(r0)); jBool("oob", oob); jBool("pc", oob || (r0 == r && term));
	jOct("oid", out, OKF(r) && !oob ? r : 0); jEnd(); 	CASE_END
}
/* SEQ anchors: Start, then Stop at the positions end-1, end, end+1 that lie inside the buffer */
static void doSeqDec(const octet* src, size_t n, u32 atag)
{
	CASE_BEGIN("seqDec", src, n)
	const octet* p = xbuf(src, n); der_anchor_t a[1]; size_t r; long long sp[3], sr[3]; int k = 0, d;
	memset(a, 0, sizeof a);
	r = derTSEQDecStart(a, p, n, atag);
	if (OKF(r) && r <= n)
		for (d = -1; d <= 1; ++d)
		{
			size_t pos = r + a->len + (size_t)d;
			if (a->len > n || pos > n || pos < r) continue;
			sp[k] = (long long)pos; sr[k] = derTSEQDecStop(p + pos, a) == 0; ++k;
		}
	lineHead(); jBool("ok", OKF(r)); jInt("n", NV(r)); jU32("atag", atag); jBN("len", OKF(r) ? a->len : 0);
	jIntArr("sp", sp, k); jIntArr("sr", sr, k); jEnd();
	CASE_END
}

/* ================================================================== DER encoders (the output is then fed to the decoder) */
static size_t g_last_n; static octet* g_last = 0;     /* last encoder output (exact copy) */
static void keep(const octet* out, size_t n) { free(g_last); g_last = (octet*)malloc(n ? n : 1); if (n) memcpy(g_last, out, n); g_last_n = n; }
static void doTLEnc(u32 atag, size_t alen)
{
	CASE_BEGIN("derTLEnc", 0, 0)
	size_t e = derTLEnc(0, atag, alen), e2 = e; octet* out = 0;
	if (OKF(e)) { out = obuf(e); e2 = derTLEnc(out, atag, alen); }
	lineHead(); jBool("ok", OKF(e)); jU32("atag", atag); jBN("alen", alen); jBool("pc", e == e2); jOct("out", out, OKF(e) ? e : 0); jEnd();
	keep(out, OKF(e) ? e : 0); 	CASE_END
}
static void doEnc(u32 atag, const octet* val, size_t len)
{
	CASE_BEGIN("derEnc", val, len)
	size_t e = derEnc(0, atag, 0, len), e2 = e; octet* out = 0;
	if (OKF(e)) { out = obuf(e); e2 = derEnc(out, atag, xbuf(val, len), len); }
	lineHead(); jBool("ok", OKF(e)); jU32("atag", atag); jBool("pc", e == e2); jOct("out", out, OKF(e) ? e : 0); jEnd();
	keep(out, OKF(e) ? e : 0); 	CASE_END
}
static void doSizeEnc(u32 atag, size_t aval)
{
	CASE_BEGIN("derTSIZEEnc", 0, 0)
	size_t e = derTSIZEEnc(0, atag, aval), e2 = e; octet* out = 0;
	if (OKF(e)) { out = obuf(e); e2 = derTSIZEEnc(out, atag, aval); }
	lineHead(); jBool("ok", OKF(e)); jU32("atag", atag); jBN("aval", aval); jBool("pc", e == e2); jOct("out", out, OKF(e) ? e : 0); jEnd();
	keep(out, OKF(e) ? e : 0); 	CASE_END
}
static void doUintEnc(u32 atag, const octet* val, size_t len)
{
	CASE_BEGIN("derTUINTEnc", val, len)
	const octet* v = xbuf(val, len); size_t e = derTUINTEnc(0, atag, v, len), e2 = e; octet* out = 0;
	if (OKF(e)) { out = obuf(e); e2 = derTUINTEnc(out, atag, v, len); }
	lineHead(); jBool("ok", OKF(e)); jU32("atag", atag); jBool("pc", e == e2); jOct("out", out, OKF(e) ? e : 0); jEnd();
	keep(out, OKF(e) ? e : 0); 	CASE_END
}
static void doBitEnc(u32 atag, const octet* val, size_t bits)
{
	CASE_BEGIN("derTBITEnc", val, (bits + 7) / 8)
	const octet* v = xbuf(val, (bits + 7) / 8); size_t e = derTBITEnc(0, atag, v, bits), e2 = e; octet* out = 0;
	if (OKF(e)) { out = obuf(e); e2 = derTBITEnc(out, atag, v, bits); }
	lineHead(); jBool("ok", OKF(e)); jU32("atag", atag); jInt("abits", (long long)bits); jBool("pc", e == e2); jOct("out", out, OKF(e) ? e : 0); jEnd();
	keep(out, OKF(e) ? e : 0); 	CASE_END
}
static void doOidEnc(const char* oid, int viaOid)
{
	CASE_BEGIN(viaOid ? "oidToDER" : "derOIDEnc", (const octet*)oid, strlen(oid))
	const char* s = (const char*)xbuf(oid, strlen(oid) + 1); size_t e, e2; octet* out = 0;
	e = viaOid ? oidToDER(0, s) : derOIDEnc(0, s); e2 = e;
	if (OKF(e)) { out = obuf(e); e2 = viaOid ? oidToDER(out, s) : derOIDEnc(out, s); }
	lineHead(); jBool("ok", OKF(e)); jBool("pc", e == e2); jOct("out", out, OKF(e) ? e : 0); jEnd();
	keep(out, OKF(e) ? e : 0); 	CASE_END
}
static void doPstrEnc(u32 atag, const char* str)
{
	CASE_BEGIN("derTPSTREnc", (const octet*)str, strlen(str))
	const char* s = (const char*)xbuf(str, strlen(str) + 1); size_t e = derTPSTREnc(0, atag, s), e2 = e; octet* out = 0;
	if (OKF(e)) { out = obuf(e); e2 = derTPSTREnc(out, atag, s); }
	lineHead(); jBool("ok", OKF(e)); jU32("atag", atag); jBool("pc", e == e2); jOct("out", out, OKF(e) ? e : 0); jEnd();
	keep(out, OKF(e) ? e : 0); 	CASE_END
}
/* SEQUENCE with raw contents: Start, contents, Stop - first with der = 0 (lengths only), then for real */
static void doSeqEnc(u32 atag, const octet* body, size_t blen)
{
	CASE_BEGIN("seqEnc", body, blen)
	der_anchor_t a[1]; size_t c0 = 0, c = 0, t, sh0 = SIZE_MAX, sh = SIZE_MAX; octet* out = 0; int ok = 0;
	t = derTSEQEncStart(a, 0, 0, atag);
	if (OKF(t)) { c0 = t + blen; sh0 = derTSEQEncStop(0, c0, a); if (OKF(sh0)) c0 += sh0; }
	if (OKF(t) && OKF(sh0))
	{
		out = obuf(c0);
		t = derTSEQEncStart(a, out, 0, atag); c = t;
		if (blen) memcpy(out + c, body, blen);
		c += blen; sh = derTSEQEncStop(out + c, c, a);
		if (OKF(sh)) c += sh, ok = 1;
	}
	lineHead(); jBool("ok", ok); jU32("atag", atag); jBool("pc", !ok || (c == c0 && sh == sh0)); jInt("shift", ok ? (long long)sh : 0);
	jOct("out", out, ok ? c : 0); jEnd();
	keep(out, ok ? c : 0); 	CASE_END
}

/* ================================================================== oid / hex / b64 / dec / apdu */
static void doStrPred(const char* op, const char* str, size_t n)   /* xIsValid on a C string of n symbols */
{
	CASE_BEGIN(op, (const octet*)str, n)
	char* s = (char*)gbuf(n + 1); bool_t r;
	memcpy(s, str, n); s[n] = 0;
	r = op[0] == 'o' ? oidIsValid(s) : op[0] == 'h' ? hexIsValid(s) : op[0] == 'b' ? b64IsValid(s) :
		strcmp(op, "decIsValid") == 0 ? decIsValid(s) : strcmp(op, "decLuhnVerify") == 0 ? decLuhnVerify(s) : decDammVerify(s);
	lineHead(); jBool("ok", r != 0); jEnd();
	CASE_END
}
static char* xstr(const char* str) { size_t n = strlen(str); char* t = (char*)gbuf(n + 1); memcpy(t, str, n + 1); return t; }
static void doHexTo(const char* str)          /* pre: valid */
{
	CASE_BEGIN("hexTo", (const octet*)str, strlen(str))
	char* s = xstr(str); size_t m = strlen(str) / 2; octet* o1 = obuf(m); octet* o2 = obuf(m);
	char* up = xstr(str); char* lo = xstr(str);
	hexTo(o1, s); hexToRev(o2, s); hexUpper(up); hexLower(lo);
	lineHead(); jOct("out", o1, m); jOct("outrev", o2, m); jChars("up", up); jChars("lo", lo);
	jBool("eq", hexEq(o1, s) != 0); jBool("eqrev", hexEqRev(o2, s) != 0);
	if (m) { o1[m - 1] ^= 1; o2[0] ^= 0x80; }
	jBool("neq", m == 0 || !hexEq(o1, s)); jBool("neqrev", m == 0 || !hexEqRev(o2, s)); jEnd(); 	CASE_END
}
static void doHexFrom(const octet* buf, size_t n)
{
	CASE_BEGIN("hexFrom", buf, n)
	const octet* b = xbuf(buf, n); char* s1 = (char*)obuf(2 * n + 1); char* s2 = (char*)obuf(2 * n + 1);
	hexFrom(s1, b, n); hexFromRev(s2, b, n);
	lineHead(); jBool("term", s1[2 * n] == 0 && s2[2 * n] == 0); jOct("out", s1, 2 * n); jOct("outrev", s2, 2 * n); jEnd(); 	CASE_END
}
static void doB64From(const octet* buf, size_t n)
{
	CASE_BEGIN("b64From", buf, n)
	const octet* b = xbuf(buf, n); size_t m = 4 * ((n + 2) / 3); char* s = (char*)obuf(m + 1);
	b64From(s, b, n);
	lineHead(); jBool("term", s[m] == 0); jOct("out", s, m); jEnd();
	keep((octet*)s, m); 	CASE_END
}
static void doB64To(const char* str)          /* pre: valid */
{
	CASE_BEGIN("b64To", (const octet*)str, strlen(str))
	char* s = xstr(str); size_t c0 = 0, c; octet* out;
	b64To(0, &c0, s); c = c0; out = obuf(c0); b64To(out, &c, s);
	lineHead(); jInt("n", (long long)c0); jBool("pc", c == c0); jOct("out", out, c0 < SANE ? c0 : 0); jEnd(); 	CASE_END
}
static void doDecStr(const char* str)         /* pre: valid decimal string */
{
	CASE_BEGIN("decStr", (const octet*)str, strlen(str))
	char* s = xstr(str);
	lineHead(); jInt("clz", (long long)decCLZ(s)); jW("u32", decToU32(s)); jInt("luhn", decLuhnCalc(s)); jInt("damm", decDammCalc(s));
	jBool("luhnv", decLuhnVerify(s) != 0); jBool("dammv", decDammVerify(s) != 0); jEnd();
	CASE_END
}
static void doDecFromU32(size_t count, u32 num)
{
	CASE_BEGIN("decFromU32", 0, 0)
	char* s = (char*)obuf(count + 1);
	decFromU32(s, count, num);
	lineHead(); jInt("acount", (long long)count); jW("anum", num); jBool("term", s[count] == 0); jOct("out", s, count); jEnd(); 	CASE_END
}
static void jCmd(const apdu_cmd_t* c, size_t cdf_len)
{
	jInt("cla", c->cla); jInt("ins", c->ins); jInt("p1", c->p1); jInt("p2", c->p2);
	jOct("cdf", c->cdf, cdf_len); jInt("rdf", (long long)(c->rdf_len > 0x7FFFFFFF ? 0x7FFFFFFF : c->rdf_len));
}
static void doCmdDec(const octet* src, size_t n)
{
	CASE_BEGIN("apduCmdDec", src, n)
	const octet* p = xbuf(src, n); size_t r0, r = SIZE_MAX, e = SIZE_MAX; apdu_cmd_t* c = 0; octet* re = 0; int oob = 0, val = 0;
	r0 = apduCmdDec(0, p, n);
	if (OKF(r0)) { if (r0 < sizeof(apdu_cmd_t) || r0 > sizeof(apdu_cmd_t) + n) oob = 1; else { c = (apdu_cmd_t*)obuf(r0); r = apduCmdDec(c, p, n); } }
	if (OKF(r) && c && sizeof(apdu_cmd_t) + c->cdf_len == r0) { val = apduCmdIsValid(c) != 0; if (val) { e = apduCmdEnc(0, c); if (OKF(e) && e < SANE) { re = obuf(e); if (apduCmdEnc(re, c) != e) e = SIZE_MAX; } } }
	lineHead(); jBool("ok", OKF(r0)); jBool("oob", oob); jBool("pc", !OKF(r0) || oob || (r0 == r && c && sizeof(apdu_cmd_t) + c->cdf_len == r0)); jBool("valid", val);
	if (OKF(r) && c && sizeof(apdu_cmd_t) + c->cdf_len == r0) jCmd(c, c->cdf_len);
	else { jInt("cla", 0); jInt("ins", 0); jInt("p1", 0); jInt("p2", 0); jOct("cdf", 0, 0); jInt("rdf", 0); }
	jRe(re, e); jEnd(); 	CASE_END
}
static void doCmdEnc(const octet hdr[4], const octet* cdf, size_t cdf_len, size_t rdf_len)
{
	CASE_BEGIN("apduCmdEnc", 0, 0)
	apdu_cmd_t* c = (apdu_cmd_t*)obuf(sizeof(apdu_cmd_t) + cdf_len); size_t e, e2; octet* out = 0;
	memset(c, 0, sizeof(apdu_cmd_t)); c->cla = hdr[0]; c->ins = hdr[1]; c->p1 = hdr[2]; c->p2 = hdr[3];
	c->cdf_len = cdf_len; c->rdf_len = rdf_len; if (cdf_len) memcpy(c->cdf, cdf, cdf_len);
	e = apduCmdEnc(0, c); e2 = e;
	if (OKF(e)) { out = obuf(e); e2 = apduCmdEnc(out, c); }
	lineHead(); jBool("ok", OKF(e)); jBool("pc", e == e2); jCmd(c, cdf_len); jOct("out", out, OKF(e) ? e : 0); jEnd();
	keep(out, OKF(e) ? e : 0); 	CASE_END
}
static void doRespDec(const octet* src, size_t n)
{
	CASE_BEGIN("apduRespDec", src, n)
	const octet* p = xbuf(src, n); size_t r0, r = SIZE_MAX, e = SIZE_MAX; apdu_resp_t* c = 0; octet* re = 0; int oob = 0, good;
	r0 = apduRespDec(0, p, n);
	if (OKF(r0)) { if (r0 < sizeof(apdu_resp_t) || r0 > sizeof(apdu_resp_t) + n) oob = 1; else { c = (apdu_resp_t*)obuf(r0); r = apduRespDec(c, p, n); } }
	good = OKF(r) && c && sizeof(apdu_resp_t) + c->rdf_len == r0;
	if (good && apduRespIsValid(c)) { e = apduRespEnc(0, c); if (OKF(e) && e < SANE) { re = obuf(e); if (apduRespEnc(re, c) != e) e = SIZE_MAX; } }
	lineHead(); jBool("ok", OKF(r0)); jBool("oob", oob); jBool("pc", !OKF(r0) || oob || (r0 == r && good));
	jInt("sw1", good ? c->sw1 : 0); jInt("sw2", good ? c->sw2 : 0); jOct("rdf", good ? c->rdf : 0, good ? c->rdf_len : 0);
	jRe(re, e); jEnd(); 	CASE_END
}

/* ================================================================== exhaustive aggregates */
/* result of fn on one string: ok, n, v1, v2 (see Gen_DerTL.tla Eval) */
typedef struct { int ok; unsigned long long n, v1, v2; } res_t;
static octet* g_eb[5];      /* exact buffers for lengths 0..4 (strings: +1 for NUL) */
static res_t evalFn(int fn, const octet* s, size_t len)
{
	res_t r; octet* p; r.ok = 0; r.n = r.v1 = r.v2 = 0;
	if (fn <= 2)
	{
		p = g_eb[len];
		if (len) memcpy(p, s, len);
		if (fn == 0) { u32 tag = 0; size_t l = 0, c = derTLDec(&tag, &l, p, len); if (OKF(c)) r.ok = 1, r.n = c, r.v1 = l, r.v2 = tag; }
		else if (fn == 1) { size_t v = 0, c = derTSIZEDec(&v, p, len, 0x02); if (OKF(c)) r.ok = 1, r.n = c, r.v1 = v; }
		else { size_t c = oidFromDER(0, p, len);
			if (OKF(c) && c < 64) { char* o = (char*)obuf(c + 1); size_t c2 = oidFromDER(o, p, len), i;
				r.ok = 1; r.n = c; if (c2 != c || o[c] != 0) r.v2 = 0xFFFFFF; for (i = 0; i < c; ++i) r.v1 += (octet)o[i], r.v2 ^= (octet)o[i] * (i + 1); xfree(); }
			else if (OKF(c)) r.ok = 1, r.n = c, r.v1 = 0xFFFFFF; }
	}
	else
	{
		char* str = (char*)g_eb[len]; size_t i;     /* g_eb[len] has len + 1 octets in string mode */
		memcpy(str, s, len); str[len] = 0;
		if (fn == 3) { if (hexIsValid(str)) { octet o[2]; r.ok = 1; r.n = len / 2; hexTo(o, str); for (i = 0; i < len / 2; ++i) r.v1 += o[i], r.v2 ^= o[i] * (i + 1); } }
		else if (fn == 4) { if (decIsValid(str)) { r.ok = 1; r.n = decCLZ(str); r.v1 = decToU32(str); r.v2 = (octet)decLuhnCalc(str) * 256 + (octet)decDammCalc(str); } }
		else { if (b64IsValid(str)) { octet o[3]; size_t c = 3; r.ok = 1; b64To(o, &c, str); r.n = c; for (i = 0; i < c && i < 3; ++i) r.v1 += o[i], r.v2 ^= o[i] * (i + 1); } }
	}
	return r;
}
static const int b64Rep[8] = { 'A', 'Q', '/', '=', 1, '-', 0x80, 0xFF };
static int fnIndex(const char* f)
{
	static const char* names[] = { "tl", "size", "oid", "hex", "dec", "b64" }; int i;
	for (i = 0; i < 6; ++i) if (strcmp(names[i], f) == 0) return i;
	return -1;
}
typedef struct { unsigned long long k, sn, s1, x1, s2, x2, sw; } agg_t;
static void aggAdd(agg_t* a, res_t r, unsigned w)
{
	if (!r.ok) return;
	a->k++; a->sn += r.n; a->s1 += r.v1; a->x1 ^= r.v1; a->s2 += r.v2; a->x2 ^= r.v2; a->sw += w;
}
static void aggPrefix(int fn, int a, int b, int expand)
{
	agg_t g; octet s[4]; int c, d, lo = fn <= 2 ? 0 : 1; long f0 = g_nfault;
	memset(&g, 0, sizeof g);
	g_agg_a = a; g_agg_b = b; ++g_case;
	if (caseSkipped()) { printf("%d %d 0 0 0 0 0 0 0 -1\n", a, b); return; }
	g_armed = 1; alarm(60);
	if (sigsetjmp(g_jmp, 1) == 0)
	{
		s[0] = (octet)a; s[1] = (octet)b;
		if (fn == 5)
		{	/* (c, d) over representatives x representatives and over all c with d = '=' */
			int i, j;
			for (i = 0; i < 8; ++i) for (j = 0; j < 8; ++j) { c = b64Rep[i]; d = b64Rep[j]; s[2] = (octet)c; s[3] = (octet)d; aggAdd(&g, evalFn(fn, s, 4), (unsigned)(c + d)); }
			for (c = 1; c < 256; ++c)
			{
				for (i = 0; i < 8 && b64Rep[i] != c; ++i);
				if (i < 8) continue;
				s[2] = (octet)c; s[3] = '='; aggAdd(&g, evalFn(fn, s, 4), (unsigned)(c + '='));
			}
		}
		else
		{
			for (c = lo; c < 256; ++c) { s[2] = (octet)c; aggAdd(&g, evalFn(fn, s, 3), (unsigned)c + 1); }
			aggAdd(&g, evalFn(fn, s, 2), 0);
			if (b == lo) aggAdd(&g, evalFn(fn, s, 1), 0);
			if (b == lo && a == lo) aggAdd(&g, evalFn(fn, s, 0), 0);
		}
	}
	g_armed = 0; alarm(0);
	printf("%d %d %llu %llu %llu %llu %llu %llu %llu %ld\n", a, b, g.k, g.sn, g.s1, g.x1, g.s2, g.x2, g.sw, g_nfault - f0);
}
static void expandPrefix(int fn, int a, int b)
{
	octet s[4]; int c, d, lo = fn <= 2 ? 0 : 1; size_t len;
	static const char* ops[] = { "derTLDec", "derTSIZEDec", "oidFromDER", "hexIsValid", "decIsValid", "b64IsValid" };
	strcpy(g_cls, "exhaustive");
	s[0] = (octet)a; s[1] = (octet)b;
	for (len = 0; len <= (fn == 5 ? 4u : 3u); ++len)
	{
		if (fn == 5 && len != 4) continue;
		if (len == 1 && b != lo) continue;
		if (len == 0 && (a != lo || b != lo)) continue;
		for (c = lo; c < 256; ++c) for (d = lo; d < 256; ++d)
		{
			s[2] = (octet)c; s[3] = (octet)d;
			if (fn == 5) { int i, j; for (i = 0; i < 8 && b64Rep[i] != c; ++i); for (j = 0; j < 8 && b64Rep[j] != d; ++j); if (!((i < 8 && j < 8) || d == '=')) continue; }
			if (len < 4 && d != lo) continue;
			if (len < 3 && c != lo) continue;
			if (fn == 0) doTLDec(s, len);
			else if (fn == 1) doSizeDec(s, len, 0x02);
			else if (fn == 2) doOidFromDer(s, len);
			else doStrPred(ops[fn], (const char*)s, len);
		}
	}
}
static int aggMain(int argc, char** argv)
{
	int fn = fnIndex(argv[2]), a, b, i, lo = fn <= 2 ? 0 : 1;
	if (fn < 0) return 2;
	g_aggmode = strcmp(argv[1], "agg") == 0;
	for (i = 0; i <= 4; ++i) g_eb[i] = gbuf(fn <= 2 ? i : i + 1);
	g_slot_base = g_slot;
	if (strcmp(argv[1], "expand") == 0) { expandPrefix(fn, atoi(argv[3]), atoi(argv[4])); return 0; }
	if (fn == 5) { for (a = 0; a < 8; ++a) for (b = 1; b < 256; ++b) aggPrefix(fn, b64Rep[a], b, 0); return 0; }
	for (a = lo; a < 256; ++a) for (b = lo; b < 256; ++b) aggPrefix(fn, a, b, 0);
	return 0;
}

/* ================================================================== record: mutants and round trips */
typedef struct { const char* name; int n; octet o[8]; u32 code; int bad; } form_t;
/* tag forms: bad = 1 -> the tag field alone makes the code invalid */
static const form_t TAGS[] = {
	{"short-tag/04", 1, {0x04}, 0x04, 0}, {"short-tag/constructed", 1, {0x30}, 0x30, 0}, {"short-tag/zero", 1, {0x00}, 0, 0},
	{"short-tag/30", 1, {0xDE}, 0xDE, 0},
	{"long-tag2/min", 2, {0x1F, 0x1F}, 0x1F1F, 0}, {"long-tag2/7F21", 2, {0x7F, 0x21}, 0x7F21, 0}, {"long-tag2/max", 2, {0x5F, 0x7F}, 0x5F7F, 0},
	{"long-tag-below-31", 2, {0x1F, 0x1E}, 0x1F1E, 1}, {"long-tag-leading-zero", 2, {0x1F, 0x00}, 0x1F00, 1},
	{"long-tag3/min", 3, {0x1F, 0x81, 0x00}, 0x1F8100, 0}, {"long-tag3/max", 3, {0xFF, 0xFF, 0x7F}, 0xFFFF7F, 0},
	{"long-tag-leading-zero", 3, {0x1F, 0x80, 0x7F}, 0x1F807F, 1},
	{"long-tag4/min", 4, {0x1F, 0x81, 0x80, 0x00}, 0x1F818000, 0}, {"long-tag4/max", 4, {0x3F, 0xFF, 0xFF, 0x7F}, 0x3FFFFF7F, 0},
	{"long-tag-leading-zero", 4, {0x1F, 0x80, 0x80, 0x01}, 0x1F808001, 1},
	{"long-tag5", 5, {0x1F, 0x81, 0x80, 0x80, 0x00}, 0x04, 1}, {"long-tag6", 6, {0x1F, 0x81, 0x80, 0x80, 0x80, 0x00}, 0x04, 1},
};
#define NTAGS (sizeof(TAGS) / sizeof(TAGS[0]))
/* unterminated long tags: the buffer ends inside the tag field (nothing may follow) */
static const form_t UTAGS[] = {
	{"long-tag-unterminated", 1, {0x1F}, 0x1F, 1}, {"long-tag-unterminated", 2, {0x1F, 0x81}, 0x1F81, 1},
	{"long-tag-unterminated", 3, {0x1F, 0x81, 0x80}, 0x1F8180, 1}, {"long-tag-unterminated", 4, {0x1F, 0x81, 0x80, 0x80}, 0x1F818080, 1},
	{"long-tag-unterminated", 5, {0x1F, 0x81, 0x80, 0x80, 0x80}, 0x04, 1}, {"long-tag-unterminated", 7, {0x7F, 0xFF, 0xFF, 0xFF, 0xFF, 0xFF, 0xFF}, 0x04, 1},
};
#define NUTAGS (sizeof(UTAGS) / sizeof(UTAGS[0]))
/* length forms: val = announced length when it is small (else -1), bad = 1 -> invalid field, 2 -> valid but huge */
typedef struct { const char* name; int n; octet o[10]; long val; int bad; } lform_t;
static const lform_t LENS[] = {
	{"len-short-0", 1, {0x00}, 0, 0}, {"len-short-1", 1, {0x01}, 1, 0}, {"len-short-127", 1, {0x7F}, 127, 0},
	{"len-long1-128", 2, {0x81, 0x80}, 128, 0}, {"len-long1-255", 2, {0x81, 0xFF}, 255, 0},
	{"len-nonminimal", 2, {0x81, 0x00}, 0, 1}, {"len-nonminimal", 2, {0x81, 0x01}, 1, 1}, {"len-nonminimal", 2, {0x81, 0x7F}, 127, 1},
	{"len-long2-256", 3, {0x82, 0x01, 0x00}, 256, 0}, {"len-long2-65535", 3, {0x82, 0xFF, 0xFF}, 65535, 0},
	{"len-nonminimal", 3, {0x82, 0x00, 0x80}, 128, 1}, {"len-nonminimal", 3, {0x82, 0x00, 0x00}, 0, 1},
	{"len-long3-65536", 4, {0x83, 0x01, 0x00, 0x00}, 65536, 0}, {"len-nonminimal", 4, {0x83, 0x00, 0x01, 0x00}, 256, 1},
	{"len-long4-huge", 5, {0x84, 0x01, 0x00, 0x00, 0x00}, -1, 2}, {"len-nonminimal", 5, {0x84, 0x00, 0x00, 0x00, 0x05}, 5, 1},
	{"len-long5-huge", 6, {0x85, 0x01, 0, 0, 0, 0}, -1, 2}, {"len-long6-huge", 7, {0x86, 0x01, 0, 0, 0, 0, 0}, -1, 2},
	{"len-long7-huge", 8, {0x87, 0x01, 0, 0, 0, 0, 0, 0}, -1, 2}, {"len-long8-huge", 9, {0x88, 0x01, 0, 0, 0, 0, 0, 0, 0}, -1, 2},
	{"len-nonminimal", 9, {0x88, 0, 0, 0, 0, 0, 0, 0, 0x05}, 5, 1},
	{"len-long8-2^63", 9, {0x88, 0x80, 0, 0, 0, 0, 0, 0, 0}, -1, 2},
	{"len-near-SIZE_MAX", 9, {0x88, 0xFF, 0xFF, 0xFF, 0xFF, 0xFF, 0xFF, 0xFF, 0xFE}, -1, 2},
	{"len-near-SIZE_MAX", 9, {0x88, 0xFF, 0xFF, 0xFF, 0xFF, 0xFF, 0xFF, 0xFF, 0xF0}, -1, 2},
	{"len-near-SIZE_MAX", 9, {0x88, 0xFF, 0xFF, 0xFF, 0xFF, 0xFF, 0xFF, 0xFF, 0x00}, -1, 2},
	{"len-SIZE_MAX", 9, {0x88, 0xFF, 0xFF, 0xFF, 0xFF, 0xFF, 0xFF, 0xFF, 0xFF}, -1, 1},
	{"len-long9", 10, {0x89, 0x01, 0, 0, 0, 0, 0, 0, 0, 0}, -1, 1}, {"len-long9", 10, {0x89, 0x00, 0xFF, 0xFF, 0xFF, 0xFF, 0xFF, 0xFF, 0xFF, 0x05}, -1, 1},
	{"len-0x80", 1, {0x80}, -1, 1}, {"len-0xFF", 1, {0xFF}, -1, 1}, {"len-long126", 1, {0xFE}, -1, 1},
	{"len-truncated", 1, {0x81}, -1, 3}, {"len-truncated", 2, {0x82, 0x01}, -1, 3}, {"len-truncated", 3, {0x88, 0x01, 0x02}, -1, 3},
	{"len-truncated", 8, {0x88, 0x01, 0x02, 0x03, 0x04, 0x05, 0x06, 0x07}, -1, 3},
};
#define NLENS (sizeof(LENS) / sizeof(LENS[0]))

static octet g_data[80000];      /* seeded data octets */
static void setCls(const char* a, const char* b, const char* c)
{
	if (b && c) snprintf(g_cls, sizeof g_cls, "%s/%s/%s", a, b, c);
	else if (b) snprintf(g_cls, sizeof g_cls, "%s/%s", a, b);
	else snprintf(g_cls, sizeof g_cls, "%s", a);
}
/* build T || L || V (vlen octets of seeded data) */
static size_t build(octet* dst, const form_t* t, const lform_t* l, size_t vlen)
{
	size_t n = 0;
	memcpy(dst, t->o, t->n); n += t->n;
	if (l) { memcpy(dst + n, l->o, l->n); n += l->n; memcpy(dst + n, g_data + 7, vlen); n += vlen; }
	return n;
}
static void tlOps(const octet* s, size_t n, const form_t* t, int full)
{
	doTLDec(s, n); doDec(s, n);
	if (!full) return;
	doIsValid(s, n, 0, 0); doIsValid(s, n, 1, t->code); doIsValid(s, n, 2, t->code); doIsValid(s, n, 2, t->code ^ 0x40);
	doDec234(s, n, 2, t->code, 0, 0); doOctDec(s, n, t->code);
	if (t->o[0] & 0x20) doSeqDec(s, n, t->code);
}
static void recTL(int thorough)
{
	static octet s[70000]; size_t i, j, n; int k;
	for (i = 0; i < NUTAGS; ++i)
	{
		setCls(UTAGS[i].name, 0, 0);
		n = build(s, &UTAGS[i], 0, 0); tlOps(s, n, &UTAGS[i], 1);
	}
	for (i = 0; i < NTAGS; ++i) for (j = 0; j < NLENS; ++j)
	{
		const form_t* t = &TAGS[i]; const lform_t* l = &LENS[j];
		/* quick: the full op set on a cross (all tags x 6 lengths, 3 tags x all lengths), TL/Dec on everything */
		int full = thorough || j < 4 || j == 8 || j == 22 || i == 0 || i == 5 || i == 12;
		long vl[4]; int nv = 0; const char* vn[4];
		if (l->val > 300 && !(thorough && (i == 0 || i == 12))) continue;    /* large bodies: thorough, two tag forms (quick has them in the OCT, derEnc and APDU parts) */
		if (l->val > 300) full = 0;
		if (t->bad) { vl[0] = l->val >= 0 && l->val <= 300 ? l->val : 2; vn[0] = 0; nv = 1; }
		else if (l->bad == 1 || l->bad == 3) { vl[0] = l->bad == 3 ? 0 : 2; vn[0] = 0; nv = 1; }
		else if (l->bad == 2) { vl[0] = 0; vn[0] = "v-none"; vl[1] = 3; vn[1] = "v-3"; nv = 2; }
		else { vl[nv] = l->val; vn[nv++] = "v-exact"; if (l->val > 0) { vl[nv] = l->val - 1; vn[nv++] = "v-short-by-1"; } if (l->val <= 300 || thorough) { vl[nv] = l->val + 1; vn[nv++] = "v-long-by-1"; } }
		for (k = 0; k < nv; ++k)
		{
			/* the first component names the least ordinary part: a bad or long tag, else a bad or huge length */
			if (t->bad) setCls(t->name, 0, 0);
			else if (strcmp(l->name, "len-near-SIZE_MAX") == 0 && t->n <= 2) setCls(l->name, t->name, vn[k]);
			else if (t->n > 1) setCls(t->name, l->name, vn[k]);
			else if (l->bad == 1 || l->bad == 3) setCls(l->name, 0, 0);
			else if (l->bad == 2) setCls(l->name, t->name, vn[k]);
			else setCls(t->name, l->name, vn[k]);
			n = build(s, t, l, (size_t)vl[k]); tlOps(s, n, t, full);
		}
	}
}
/* typed values: content mutants under a tag, with a correct minimal length field */
typedef struct { const char* name; int n; octet o[12]; } cform_t;
static size_t wrap(octet* dst, u32 tag, const octet* v, size_t vn)    /* hand-made TLV, lengths < 65536 */
{
	size_t n = 0;
	if (tag > 0xFFFFFF) dst[n++] = (octet)(tag >> 24);
	if (tag > 0xFFFF) dst[n++] = (octet)(tag >> 16);
	if (tag > 0xFF) dst[n++] = (octet)(tag >> 8);
	dst[n++] = (octet)tag;
	if (vn < 128) dst[n++] = (octet)vn; else if (vn < 256) dst[n++] = 0x81, dst[n++] = (octet)vn; else dst[n++] = 0x82, dst[n++] = (octet)(vn >> 8), dst[n++] = (octet)vn;
	if (vn) memcpy(dst + n, v, vn);
	return n + vn;
}
static const cform_t INTS[] = {
	{"int-empty", 0, {0}}, {"int-0", 1, {0x00}}, {"int-127", 1, {0x7F}}, {"int-negative", 1, {0x80}}, {"int-negative", 1, {0xFF}},
	{"int-padded", 2, {0x00, 0x7F}}, {"int-128", 2, {0x00, 0x80}}, {"int-padded", 2, {0x00, 0x00}}, {"int-padded", 3, {0x00, 0x00, 0x80}},
	{"int-256", 2, {0x01, 0x00}}, {"int-negative", 2, {0xFF, 0x7F}}, {"int-8-octets", 8, {0x7F, 0xFF, 0xFF, 0xFF, 0xFF, 0xFF, 0xFF, 0xFF}},
	{"int-SIZE_MAX", 9, {0x00, 0xFF, 0xFF, 0xFF, 0xFF, 0xFF, 0xFF, 0xFF, 0xFF}}, {"int-2^63", 9, {0x00, 0x80, 0, 0, 0, 0, 0, 0, 0}},
	{"int-2^64", 9, {0x01, 0, 0, 0, 0, 0, 0, 0, 0}}, {"int-9-octets", 9, {0x7F, 0xFF, 0xFF, 0xFF, 0xFF, 0xFF, 0xFF, 0xFF, 0xFF}},
	{"int-padded", 10, {0x00, 0x01, 0, 0, 0, 0, 0, 0, 0, 0}}, {"int-10-octets", 10, {0x01, 0, 0, 0, 0, 0, 0, 0, 0, 0}},
	{"int-padded", 9, {0x00, 0x7F, 0, 0, 0, 0, 0, 0, 0}},
};
static const cform_t BITS[] = {
	{"bit-empty", 0, {0}}, {"bit-0-bits", 1, {0x00}}, {"bit-pad-without-octet", 1, {0x01}}, {"bit-pad-without-octet", 1, {0x07}}, {"bit-pad-8", 1, {0x08}},
	{"bit-8-bits", 2, {0x00, 0xFF}}, {"bit-1-bit", 2, {0x07, 0x80}}, {"bit-nonzero-padding", 2, {0x07, 0xFF}}, {"bit-nonzero-padding", 2, {0x01, 0xFF}},
	{"bit-7-bits", 2, {0x01, 0xFE}}, {"bit-pad-8", 2, {0x08, 0x00}}, {"bit-pad-8", 2, {0xFF, 0x00}}, {"bit-nonzero-padding", 3, {0x04, 0xAA, 0x08}},
	{"bit-61-bits", 9, {0x03, 0x01, 0x23, 0x45, 0x67, 0x89, 0xAB, 0xCD, 0xE8}}, {"bit-nonzero-padding", 9, {0x03, 0x01, 0x23, 0x45, 0x67, 0x89, 0xAB, 0xCD, 0xEF}},
	{"bit-1-bit-zero", 2, {0x07, 0x00}},
};
static const cform_t OIDS[] = {
	{"oid-empty", 0, {0}}, {"oid-1.2", 1, {0x2A}}, {"oid-arc-truncated", 1, {0x81}}, {"oid-arc-truncated", 2, {0x2A, 0x86}}, {"oid-arc-truncated", 4, {0x2A, 0x86, 0x48, 0x86}},
	{"oid-arc-leading-zero", 2, {0x80, 0x01}}, {"oid-arc-leading-zero", 3, {0x2A, 0x80, 0x01}}, {"oid-arc-leading-zero", 2, {0x80, 0x7F}},
	{"oid-2.999", 2, {0x88, 0x37}}, {"oid-2.48", 2, {0x81, 0x00}}, {"oid-first-39", 1, {0x27}}, {"oid-first-40", 1, {0x28}}, {"oid-first-79", 1, {0x4F}},
	{"oid-first-80", 1, {0x50}}, {"oid-first-127", 1, {0x7F}}, {"oid-first-0", 1, {0x00}},
	{"oid-first-u32max", 5, {0x8F, 0xFF, 0xFF, 0xFF, 0x7F}}, {"oid-arc-overflow", 5, {0x90, 0x80, 0x80, 0x80, 0x00}}, {"oid-arc-overflow", 5, {0xFF, 0xFF, 0xFF, 0xFF, 0x7F}},
	{"oid-arc-u32max", 6, {0x2A, 0x8F, 0xFF, 0xFF, 0xFF, 0x7F}}, {"oid-arc-overflow", 6, {0x2A, 0x90, 0x80, 0x80, 0x80, 0x00}}, {"oid-arc-overflow", 7, {0x2A, 0x81, 0x80, 0x80, 0x80, 0x80, 0x00}},
	{"oid-rsa", 6, {0x2A, 0x86, 0x48, 0x86, 0xF7, 0x0D}}, {"oid-belt-hash", 9, {0x2A, 0x70, 0x00, 0x02, 0x00, 0x22, 0x65, 0x1F, 0x51}},
	{"oid-arc-overflow", 9, {0x81, 0xB1, 0xD1, 0xAF, 0x85, 0xEC, 0xA8, 0x80, 0x4F}}, {"oid-arc-leading-zero", 7, {0x01, 0x80, 0x80, 0x80, 0x80, 0x80, 0x7F}},
	{"oid-zero-arcs", 3, {0x2A, 0x00, 0x00}},
};
#define NOF(a) (sizeof(a) / sizeof(a[0]))
static void recTyped(int thorough)
{
	static octet s[70000]; size_t i, n, k; static const u32 itags[] = { 0x02, 0x5F29, 0x1F818000 };
	for (k = 0; k < 3; ++k) for (i = 0; i < NOF(INTS); ++i)
	{
		u32 tag = itags[k]; size_t vn = INTS[i].n;
		if (k == 2) setCls("long-tag4", INTS[i].name, 0); else setCls(INTS[i].name, 0, 0);
		n = wrap(s, tag, INTS[i].o, vn);
		doSizeDec(s, n, tag); doUintDec(s, n, tag); doSizeDec2(s, n, tag, 127); doSizeDec2(s, n, tag, 0);
		doUintDec2(s, n, tag, vn ? vn : 1); doUintDec2(s, n, tag, vn > 1 ? vn - 1 : 2);
		if (k == 0)
		{
			doSizeDec(s, n, 0x04); doUintDec(s, n, 0x04);                 /* wrong expected tag */
			setCls("v-truncated", INTS[i].name, 0);
			if (n > 2) { doSizeDec(s, n - 1, tag); doUintDec(s, n - 1, tag); }   /* value cut by one octet */
			doSizeDec(s, 2, tag); doUintDec(s, 2, tag);                   /* TL only */
			setCls(INTS[i].name, "v-garbage-after", 0);
			s[n] = 0x05; doSizeDec(s, n + 1, tag); doUintDec(s, n + 1, tag);
		}
	}
	/* long UINTs (seeded data) */
	for (k = 0; k < 4; ++k)
	{
		octet v[40]; size_t vn = k < 2 ? 32 : 33;
		memcpy(v, g_data + 100 + 40 * k, 40);
		if (k == 0) v[0] &= 0x7F, v[0] |= 0x40; else if (k == 1) v[0] |= 0x80; else if (k == 2) v[0] = 0, v[1] |= 0x80; else v[0] = 0, v[1] &= 0x7F;
		setCls(k == 0 ? "int-32-octets" : k == 1 ? "int-negative" : k == 2 ? "int-33-octets" : "int-padded", 0, 0);
		n = wrap(s, 0x02, v, vn); doUintDec(s, n, 0x02); doSizeDec(s, n, 0x02); doUintDec2(s, n, 0x02, 32);
	}
	for (i = 0; i < NOF(BITS); ++i)
	{
		size_t vn = BITS[i].n, bits = vn > 1 ? 8 * (vn - 1) - (BITS[i].o[0] & 7) : 0;
		setCls(BITS[i].name, 0, 0);
		n = wrap(s, 0x03, BITS[i].o, vn);
		doBitDec(s, n, 0x03); doBitDec2(s, n, 0x03, bits); doBitDec2(s, n, 0x03, bits + 1); doBitDec2(s, n, 0x03, bits ? bits - 1 : 8);
		doBitDec(s, n, 0x04);
		n = wrap(s, 0x7F21, BITS[i].o, vn); doBitDec(s, n, 0x7F21);
		setCls("v-truncated", BITS[i].name, 0);
		n = wrap(s, 0x03, BITS[i].o, vn); if (n > 2) doBitDec(s, n - 1, 0x03); doBitDec(s, 2, 0x03);
	}
	{	/* OCT: lengths around the length-field boundaries */
		static const size_t ol[] = { 0, 1, 127, 128, 255, 256, 65535, 65536 };
		for (i = 0; i < NOF(ol); ++i)
		{
			char c[40]; snprintf(c, sizeof c, "oct-%u", (unsigned)ol[i]); setCls(c, 0, 0);
			doEnc(0x04, g_data + 300, ol[i]); n = g_last_n; memcpy(s, g_last, n);
			doOctDec(s, n, 0x04); doOctDec2(s, n, 0x04, ol[i]);
			if (ol[i] <= 256 || thorough) { doOctDec2(s, n, 0x04, ol[i] + 1); if (ol[i]) doOctDec2(s, n, 0x04, ol[i] - 1);
			doDec234(s, n, 3, 0x04, ol[i], 0); doDec234(s, n, 3, 0x04, ol[i] + 1, 0); }
			if (ol[i] <= 256) { doDec234(s, n, 4, 0x04, ol[i], g_data + 300); if (ol[i]) { doDec234(s, n, 4, 0x04, ol[i], g_data + 301); doDec234(s, n, 4, 0x04, ol[i] - 1, g_data + 300); } }
			setCls("v-truncated", c, 0);
			doOctDec(s, n - 1, 0x04); if (ol[i] <= 256 || thorough) doOctDec2(s, n - 1, 0x04, ol[i]);
		}
	}
	{	/* NULL */
		static const cform_t nl[] = { {"null", 2, {0x05, 0x00}}, {"null-nonempty", 3, {0x05, 0x01, 0x00}}, {"len-nonminimal", 3, {0x05, 0x81, 0x00}},
			{"null-wrong-tag", 2, {0x04, 0x00}}, {"null-garbage-after", 3, {0x05, 0x00, 0x00}}, {"null-truncated", 1, {0x05}}, {"null-empty-input", 0, {0}} };
		for (i = 0; i < NOF(nl); ++i) { setCls(nl[i].name, 0, 0); doNullDec(nl[i].o, nl[i].n); }
	}
	for (i = 0; i < NOF(OIDS); ++i)
	{
		setCls(OIDS[i].name, 0, 0);
		n = wrap(s, 0x06, OIDS[i].o, OIDS[i].n);
		doOidDec(s, n); doOidFromDer(s, n); doOidDec2(s, n, "1.2"); doOidDec2(s, n, "1.2.840.113549"); doOidDec2(s, n, "2.999"); doOidDec2(s, n, "");
		doOidDec2(s, n, "1.2.840.11354"); doOidDec2(s, n, "1.2.840.1135490"); doOidDec2(s, n, "2.4294967215");
		/* one decimal digit off: leading / middle / last digit of a long arc, a one-digit arc */
		doOidDec2(s, n, "1.2.940.113549"); doOidDec2(s, n, "1.2.840.213549"); doOidDec2(s, n, "1.2.840.113559"); doOidDec2(s, n, "1.2.840.113548");
		doOidDec2(s, n, "1.3.840.113549"); doOidDec2(s, n, "1.2.841.113549"); doOidDec2(s, n, "2.998"); doOidDec2(s, n, "2.199"); doOidDec2(s, n, "2.3294967215");
		setCls(OIDS[i].name, "v-garbage-after", 0);
		s[n] = 0x00; doOidDec(s, n + 1); doOidFromDer(s, n + 1);
		setCls("v-truncated", OIDS[i].name, 0);
		if (OIDS[i].n) { doOidDec(s, n - 1); doOidFromDer(s, n - 1); }
		setCls(OIDS[i].name, "wrong-tag", 0);
		s[0] = 0x08; doOidDec(s, n); doOidFromDer(s, n);
	}
	{	/* PSTR: every single character, and a few strings */
		int c; octet v[64];
		for (c = 0; c < 256; ++c)
		{
			char cl[40]; snprintf(cl, sizeof cl, "pstr-char-%02X", c); setCls(cl, 0, 0);
			v[0] = 'A'; v[1] = (octet)c; v[2] = 'z';
			n = wrap(s, 0x13, v, 3); doPstrDec(s, n, 0x13);
		}
		setCls("pstr", 0, 0);
		n = wrap(s, 0x42, (const octet*)"BYCA0000", 8); doPstrDec(s, n, 0x42); doPstrDec(s, n, 0x13); doPstrDec(s, n - 1, 0x42);
		n = wrap(s, 0x13, 0, 0); doPstrDec(s, n, 0x13);
	}
	{	/* SEQ anchors: decoding of containers whose announced length is exact / short / long */
		static const size_t bl[] = { 0, 1, 127, 128, 255, 256 };
		for (i = 0; i < NOF(bl); ++i)
		{
			char c[40]; snprintf(c, sizeof c, "seq-%u", (unsigned)bl[i]); setCls(c, 0, 0);
			n = wrap(s, 0x30, g_data + 500, bl[i]);
			doSeqDec(s, n, 0x30); doSeqDec(s, n + 1, 0x30); doSeqDec(s, n, 0x31); doSeqDec(s, n, 0x04);
			if (n > 2) doSeqDec(s, n - 1, 0x30);
			n = wrap(s, 0x7F21, g_data + 500, bl[i]); doSeqDec(s, n, 0x7F21);
			setCls("long-tag4", c, 0); n = wrap(s, 0x3F818000, g_data + 500, bl[i]); doSeqDec(s, n, 0x3F818000);
		}
	}
}

static void feedLast(void (*f)(const octet*, size_t)) { if (g_last_n || g_last) { static octet t[140000]; size_t n = g_last_n; memcpy(t, g_last, n); f(t, n); } }
static u32 g_feed_tag;
static void fSize(const octet* s, size_t n) { doSizeDec(s, n, g_feed_tag); }
static void fUint(const octet* s, size_t n) { doUintDec(s, n, g_feed_tag); }
static void fBit(const octet* s, size_t n) { doBitDec(s, n, g_feed_tag); }
static void fPstr(const octet* s, size_t n) { doPstrDec(s, n, g_feed_tag); }
static void fSeq(const octet* s, size_t n) { doSeqDec(s, n, g_feed_tag); doDec(s, n); }
static void fTL(const octet* s, size_t n) { doTLDec(s, n); doIsValid(s, n, 2, g_feed_tag); }
static void fOid(const octet* s, size_t n) { doOidDec(s, n); doOidFromDer(s, n); }

static const u32 ETAGS[] = { 0, 0x04, 0x1E, 0x1F, 0x30, 0xFF, 0xDF, 0x1F1F, 0x1F1E, 0x1F00, 0x7F21, 0x5F29, 0x1F80, 0x041F, 0x0404,
	0x1F8100, 0x1F8001, 0x1FFF7F, 0x1F8181, 0x7F2100, 0x1F818000, 0x1FFFFF7F, 0x1F808001, 0x1F818080, 0x1F81807F, 0x001F1F, 0x1F000000 };
static const size_t ELENS[] = { 0, 1, 127, 128, 255, 256, 65535, 65536, 0xFFFFFF, 0x1000000, 0xFFFFFFFFull, 0x100000000ull,
	0x100000000000000ull, 0x8000000000000000ull, SIZE_MAX - 1, SIZE_MAX };
static const char* const EOIDS[] = { "0.0", "0.39", "1.0", "1.39", "2.0", "2.39", "2.40", "2.47", "2.48", "2.999", "2.4294967215", "2.4294967216", "2.4294967295",
	"1.2.840.113549", "1.2.112.0.2.0.34.101.31.81", "2.5.4.4294967295", "2.5.4.4294967296", "2.5.4.4294967299", "2.5.4.42949672950", "2.65500", "0.0.0", "1.2.0", "2.16383.16384.2097151.2097152.268435455.268435456",
	"", "1", "1.", ".1", "1..2", "3.1", "0.40", "1.40", "01.2", "1.02", "1.2.03", "1.2.00", "1.2a", "1.2.", "1,2", " 1.2", "1.2 ", "-1.2", "1.-2", "2", "10.1", "1.2.840.113549." };
/* family of a tag code given as u32 (by the number of octets it occupies) */
static const char* encFam(u32 t) { return t > 0xFFFFFF ? "long-tag4" : t > 0xFFFF ? "long-tag3" : t > 0xFF ? "long-tag2" : "short-tag"; }
static void recEnc(int thorough)
{
	size_t i, j;
	for (i = 0; i < NOF(ETAGS); ++i) for (j = 0; j < NOF(ELENS); ++j)
	{
		if (j > 3 && !(i == 1 || i == 10 || i == 20)) continue;
		snprintf(g_cls, sizeof g_cls, "%s/enc-tag-%08X/len-%d", encFam(ETAGS[i]), (unsigned)ETAGS[i], (int)j);
		doTLEnc(ETAGS[i], ELENS[j]); g_feed_tag = ETAGS[i]; if (g_last_n) feedLast(fTL);
	}
	for (i = 0; i < NOF(ETAGS); ++i) for (j = 0; j < 8; ++j)
	{
		if (j > 3 && !(i == 1 || i == 4 || i == 10 || i == 20)) continue;
		if (j > 5 && !thorough && i != 4) continue;
		snprintf(g_cls, sizeof g_cls, "%s/enc-tag-%08X/vlen-%d", encFam(ETAGS[i]), (unsigned)ETAGS[i], (int)ELENS[j]);
		if (j <= 5 || thorough) { doEnc(ETAGS[i], g_data + 900, ELENS[j]); if (g_last_n) feedLast(doDec); }
		if ((ETAGS[i] >> (ETAGS[i] > 0xFFFFFF ? 24 : ETAGS[i] > 0xFFFF ? 16 : ETAGS[i] > 0xFF ? 8 : 0)) & 0x20 || i == 1)
		{
			snprintf(g_cls, sizeof g_cls, "%s/enc-tag-%08X/seq-vlen-%d", encFam(ETAGS[i]), (unsigned)ETAGS[i], (int)ELENS[j]);
			doSeqEnc(ETAGS[i], g_data + 900, ELENS[j]); g_feed_tag = ETAGS[i]; if (g_last_n) feedLast(fSeq);
		}
	}
	{
		static const size_t sv[] = { 0, 1, 127, 128, 255, 256, 32767, 32768, 65535, 65536, 0xFFFFFF, 0x1000000, 0x7FFFFFFF, 0x80000000ull, 0xFFFFFFFFull, 0x100000000ull,
			0x7FFFFFFFFFFFFFFFull, 0x8000000000000000ull, SIZE_MAX - 1, SIZE_MAX, 0x0123456789ABCDEFull, 0x80FFFFFFFFFFFFull, 0x7FFFFFFFFFFFFFull };
		static const u32 tg[] = { 0x02, 0x5F29, 0x1F818000, 0x1F };
		for (i = 0; i < NOF(sv); ++i) for (j = 0; j < 4; ++j)
		{
			if (j && i > 5) continue;
			if (j == 0) snprintf(g_cls, sizeof g_cls, "size-%d", (int)i); else snprintf(g_cls, sizeof g_cls, "%s/enc-tag-%08X/size-%d", encFam(tg[j]), (unsigned)tg[j], (int)i);
			doSizeEnc(tg[j], sv[i]); g_feed_tag = tg[j]; if (g_last_n) { feedLast(fSize); feedLast(fUint); }
		}
	}
	{
		static const cform_t uv[] = { {"uint-0", 1, {0}}, {"uint-7F", 1, {0x7F}}, {"uint-80", 1, {0x80}}, {"uint-00-00", 2, {0, 0}}, {"uint-trailing-zeros", 3, {1, 0, 0}},
			{"uint-FFFF", 2, {0xFF, 0xFF}}, {"uint-0080", 2, {0x00, 0x80}}, {"uint-8000", 2, {0x80, 0x00}}, {"uint-trailing-zeros", 4, {0x00, 0x80, 0, 0}} };
		for (i = 0; i < NOF(uv); ++i)
		{
			setCls(uv[i].name, 0, 0); doUintEnc(0x02, uv[i].o, uv[i].n); g_feed_tag = 0x02; if (g_last_n) { feedLast(fUint); feedLast(fSize); }
		}
		for (i = 0; i < 6; ++i)
		{
			octet v[64]; size_t vn = i < 2 ? 32 : i < 4 ? 64 : 127 + (i - 4); 
			static octet big[130]; memcpy(big, g_data + 1000 + 130 * i, 130); memcpy(v, big, 64);
			if (i % 2) big[vn - 1] |= 0x80; else big[vn - 1] = (big[vn - 1] & 0x7F) | 1;
			if (i == 5) snprintf(g_cls, sizeof g_cls, "long-tag4/enc-tag-1F818000/uint-%u-octets", (unsigned)vn); else snprintf(g_cls, sizeof g_cls, "uint-%u-octets-%s", (unsigned)vn, i % 2 ? "top-set" : "top-clear");
			doUintEnc(i == 5 ? 0x1F818000 : 0x02, big, vn); g_feed_tag = i == 5 ? 0x1F818000 : 0x02; if (g_last_n) feedLast(fUint);
		}
	}
	for (i = 0; i <= 66; ++i)
	{
		size_t bits = i <= 17 ? i : i == 18 ? 61 : i == 19 ? 64 : i == 20 ? 1015 : i == 21 ? 1016 : i == 22 ? 1017 : 0;
		if (i > 22) break;
		snprintf(g_cls, sizeof g_cls, "bits-%u", (unsigned)bits);
		{ static octet v[200]; memcpy(v, g_data + 2000, 200); v[(bits + 7) / 8 ? (bits + 7) / 8 - 1 : 0] |= 0xFF >> (bits % 8 ? bits % 8 : 8) ;
		  doBitEnc(0x03, v, bits); g_feed_tag = 0x03; if (g_last_n) feedLast(fBit); }
	}
	for (i = 0; i < NOF(EOIDS); ++i)
	{
		snprintf(g_cls, sizeof g_cls, "oidstr-%d", (int)i);
		doStrPred("oidIsValid", EOIDS[i], strlen(EOIDS[i]));
		doOidEnc(EOIDS[i], 0); if (g_last_n) feedLast(fOid);
		doOidEnc(EOIDS[i], 1);
	}
	{
		static const char* const ps[] = { "BYCA0000", "", "ABCDEFGHIJKLMNOPQRSTUVWXYZabcdefghijklmnopqrstuvwxyz0123456789 '()+,-./:=?", "a@b", "a*b", "a_b", "a&b", "\x7F", "\x80" };
		for (i = 0; i < NOF(ps); ++i)
		{
			snprintf(g_cls, sizeof g_cls, "pstr-%d", (int)i);
			doPstrEnc(0x13, ps[i]); g_feed_tag = 0x13; if (g_last_n) feedLast(fPstr);
			doPstrEnc(0x42, ps[i]); doPstrEnc(0x1F, ps[i]);
		}
	}
}

static void recText(int thorough)
{
	size_t i, j;
	static const char* const hx[] = { "", "0", "00", "0g", "G0", "aF", "AbCdEf", "12345", "1234", "ABCDEFabcdef", "abcdefgh", "/0", ":0", "@0", "`0", "0 ", " 0", "0x", "\x80\x80", "00000", "0123456789abcdefABCDEF" };
	static const char* const b6[] = { "", "1234", "AbC=", "AbE=", "AbCBD4==", "AbCBDg==", "AbC78a8@", "AbC78a8", "AbC7===", "Ab=7==", "====", "A===", "AA==", "AB==", "AQ==", "AAA=", "AAB=", "AAE=", "=AAA", "AA=A",
		"Zm9vYmFy", "Zm9vYmE=", "Zm9vYg==", "Zm8=", "Zg==", "Zh==", "Zm9=", "A", "AA", "AAA", "AAAAA", "AAAA=", "AAAA==", "AAAAAA==", "AAAAAAA=", "AA==AAAA", "AAA=AAAA", "-___", "+/+/", "AA\n=", " AAA" };
	static const char* const dc[] = { "", "0", "9", "00", "09", "90", "0000", "00120", "7992739871", "79927398713", "69927398713", "572", "5724", "5274", "4294967295", "4294967296", "04294967295",
		"99999999999", "18446744073709551615", "18446744073709551616", "123456789012345678901234567890", "1a", "a1", " 1", "1 ", "/", ":", "-1", "+1", "1.0" };
	(void)thorough;
	for (i = 0; i < NOF(hx); ++i)
	{
		snprintf(g_cls, sizeof g_cls, "hex-%d", (int)i);
		doStrPred("hexIsValid", hx[i], strlen(hx[i]));
		if (hexIsValid(hx[i])) doHexTo(hx[i]);
	}
	for (i = 0; i < 8; ++i)
	{
		static const size_t ln[] = { 0, 1, 2, 3, 31, 32, 33, 256 };
		snprintf(g_cls, sizeof g_cls, "hexfrom-%u", (unsigned)ln[i]);
		doHexFrom(g_data + 3000 + i, ln[i]);
	}
	{ octet all[256]; for (i = 0; i < 256; ++i) all[i] = (octet)i; setCls("hexfrom-all-octets", 0, 0); doHexFrom(all, 256); }
	for (i = 0; i < NOF(b6); ++i)
	{
		snprintf(g_cls, sizeof g_cls, "b64-%d", (int)i);
		doStrPred("b64IsValid", b6[i], strlen(b6[i]));
		if (b64IsValid(b6[i])) doB64To(b6[i]);
	}
	for (i = 0; i <= 12 + 3; ++i)
	{
		size_t ln = i <= 12 ? i : i == 13 ? 254 : i == 14 ? 255 : 256;
		snprintf(g_cls, sizeof g_cls, "b64from-%u", (unsigned)ln);
		doB64From(g_data + 4000 + i, ln);
		if (g_last) { static char t[400]; memcpy(t, g_last, g_last_n); t[g_last_n] = 0; doStrPred("b64IsValid", t, g_last_n); if (b64IsValid(t)) doB64To(t); }
	}
	{ octet all[768]; for (i = 0; i < 768; ++i) all[i] = (octet)(i * 83 + (i >> 8)); setCls("b64from-768", 0, 0); doB64From(all, 768);
	  { static char t[1100]; memcpy(t, g_last, g_last_n); t[g_last_n] = 0; if (b64IsValid(t)) doB64To(t); } }
	for (i = 0; i < NOF(dc); ++i)
	{
		snprintf(g_cls, sizeof g_cls, "dec-%d", (int)i);
		doStrPred("decIsValid", dc[i], strlen(dc[i]));
		if (decIsValid(dc[i])) doDecStr(dc[i]);
	}
	for (i = 0; i <= 24; ++i)      /* seeded digit strings: check digits appended, then one digit corrupted */
	{
		char d[40]; char c;
		for (j = 0; j < i; ++j) d[j] = (char)('0' + g_data[5000 + 31 * i + j] % 10);
		d[i] = 0; snprintf(g_cls, sizeof g_cls, "dec-digits-%d", (int)i); doDecStr(d);
		c = decLuhnCalc(d); d[i] = c; d[i + 1] = 0; setCls("dec-luhn-appended", 0, 0); doDecStr(d);
		if (i) { d[i / 2] = (char)('0' + (d[i / 2] - '0' + 1 + g_data[5900 + i] % 9) % 10); setCls("dec-luhn-corrupted", 0, 0); doDecStr(d); }
		for (j = 0; j < i; ++j) d[j] = (char)('0' + g_data[5000 + 31 * i + j] % 10);
		d[i] = 0; c = decDammCalc(d); d[i] = c; d[i + 1] = 0; setCls("dec-damm-appended", 0, 0); doDecStr(d);
		if (i > 1) { char t = d[i / 2]; d[i / 2] = d[i / 2 - 1]; d[i / 2 - 1] = t; setCls("dec-damm-transposed", 0, 0); doDecStr(d); }
	}
	{
		static const u32 nums[] = { 0, 1, 9, 10, 99, 100, 123456789, 999999999, 1000000000, 4294967295u, 4294967290u, 2147483648u, 65535, 65536 };
		for (i = 0; i < NOF(nums); ++i) for (j = 0; j <= 12; ++j) { snprintf(g_cls, sizeof g_cls, "decfrom-%d", (int)j); doDecFromU32(j, nums[i]); }
	}
}

/* APDU: every Lc form x data length x Le form, exact and off-by-one data, header truncations, small tails */
static void recApdu(int thorough)
{
	static octet s[70000]; static const octet hdr[4] = { 0x00, 0xA4, 0x04, 0x04 };
	static const size_t dl[] = { 0, 1, 255, 256, 65535 }; static const size_t rl[] = { 0, 1, 255, 256, 257, 65535, 65536 };
	typedef struct { const char* name; int n; octet o[3]; } le_t;
	static const le_t LE[] = { {"Le-none", 0, {0}}, {"Le1-00", 1, {0x00}}, {"Le1-01", 1, {0x01}}, {"Le1-FF", 1, {0xFF}},
		{"Le2-0000", 2, {0, 0}}, {"Le2-0001", 2, {0, 1}}, {"Le2-0100", 2, {1, 0}}, {"Le2-0101", 2, {1, 1}}, {"Le2-FFFF", 2, {0xFF, 0xFF}},
		{"Le3-000000", 3, {0, 0, 0}}, {"Le3-000001", 3, {0, 0, 1}}, {"Le3-000100", 3, {0, 1, 0}}, {"Le3-000101", 3, {0, 1, 1}}, {"Le3-00FFFF", 3, {0, 0xFF, 0xFF}}, {"Le3-010000", 3, {1, 0, 0}} };
	size_t i, j, k, n; int d;
	for (i = 0; i < NOF(dl); ++i) for (j = 0; j < NOF(rl); ++j)
	{
		snprintf(g_cls, sizeof g_cls, "cmd-cdf%u-rdf%u", (unsigned)dl[i], (unsigned)rl[j]);
		doCmdEnc(hdr, g_data + 6000, dl[i], rl[j]); if (g_last_n) feedLast(doCmdDec);
	}
	/* Lc forms: none, short k, extended k */
	for (k = 0; k < 3; ++k) for (i = 0; i < NOF(dl); ++i) for (j = 0; j < NOF(LE); ++j) for (d = -1; d <= 1; ++d)
	{
		size_t lc = dl[i], dn;
		if (k == 0 && (i > 0 || d != 0)) continue;
		if (k == 1 && lc > 255) continue;
		if (lc == 65535 && !thorough && !(d == 0 ? (j == 0 || j == 1 || j == 4 || j == 7 || j == 12) : (j == 0 || j == 7))) continue;
		if ((long)lc + d < 0) continue;
		dn = (size_t)((long)lc + d);
		memcpy(s, hdr, 4); n = 4;
		if (k == 1) s[n++] = (octet)lc;
		else if (k == 2) s[n++] = 0, s[n++] = (octet)(lc >> 8), s[n++] = (octet)lc;
		if (k) { memcpy(s + n, g_data + 6100, dn); n += dn; }
		memcpy(s + n, LE[j].o, LE[j].n); n += LE[j].n;
		snprintf(g_cls, sizeof g_cls, "%s%u/%s/%s", k == 0 ? "Lc-none" : k == 1 ? "Lc1-" : "Lc3-", k ? (unsigned)lc : 0, d < 0 ? "data-short-by-1" : d ? "data-long-by-1" : "data-exact", LE[j].name);
		doCmdDec(s, n);
	}
	/* truncated headers and all tails of length 0..4 over {00, 01, 02, FF} */
	for (n = 0; n < 4; ++n) { snprintf(g_cls, sizeof g_cls, "hdr-truncated-%u", (unsigned)n); doCmdDec(hdr, n); }
	{
		static const octet al[4] = { 0x00, 0x01, 0x02, 0xFF }; size_t len, c;
		for (len = 0; len <= 4; ++len) for (c = 0; c < ((size_t)1 << (2 * len)); ++c)
		{
			memcpy(s, hdr, 4);
			for (k = 0; k < len; ++k) s[4 + k] = al[(c >> (2 * k)) & 3];
			snprintf(g_cls, sizeof g_cls, "tail%u/%02X%02X%02X%02X", (unsigned)len, len > 0 ? s[4] : 0, len > 1 ? s[5] : 0, len > 2 ? s[6] : 0, len > 3 ? s[7] : 0);
			doCmdDec(s, 4 + len);
		}
	}
	/* responses */
	{
		static const size_t rn[] = { 0, 1, 2, 3, 22, 257, 258, 65538 };
		for (i = 0; i < NOF(rn); ++i) { snprintf(g_cls, sizeof g_cls, "resp-%u", (unsigned)rn[i]); doRespDec(g_data + 100, rn[i]); }
	}
}

/* ================================================================== containers: bign ECParameters */
extern bool_t bignIsOperable(const bign_params* params);
static void jParams(const bign_params* P)
{
	size_t no = P->l == 128 || P->l == 192 || P->l == 256 ? P->l / 4 : 0;
	jInt("l", (long long)(P->l > 100000 ? 100000 : P->l)); jOct("p", P->p, no); jOct("a", P->a, no); jOct("b", P->b, no);
	jOct("seed", P->seed, 8); jOct("yG", P->yG, no); jOct("q", P->q, no);
}
static void doParamsDec(const octet* src, size_t n)
{
	CASE_BEGIN("bignParamsDec", src, n)
	const octet* p = xbuf(src, n); bign_params* P = (bign_params*)obuf(sizeof(bign_params)); err_t code; size_t e = 0; octet* re = 0; int op = 0, reok = 0;
	code = bignParamsDec(P, p, n);
	if (code == ERR_OK) { op = bignIsOperable(P) != 0; if (op && bignParamsEnc(0, &e, P) == ERR_OK && e < SANE) { re = obuf(e); reok = bignParamsEnc(re, &e, P) == ERR_OK; } }
	lineHead(); jBool("ok", code == ERR_OK); jInt("code", (long long)code); jBool("operable", op);
	if (code == ERR_OK) jParams(P); else { bign_params Z; memset(&Z, 0, sizeof Z); jParams(&Z); }
	jBool("reok", reok); jOct("re", re, reok ? e : 0); jEnd();
	CASE_END
}
static void doParamsEnc(const char* name)
{
	CASE_BEGIN("bignParamsEnc", 0, 0)
	bign_params P[1]; size_t e = 0, e2; octet* out = 0; err_t c1, c2 = ERR_OK;
	if (bignParamsStd(P, name) != ERR_OK) { fprintf(stderr, "driver: no params %s\n", name); _exit(5); }
	c1 = bignParamsEnc(0, &e, P); e2 = e;
	if (c1 == ERR_OK) { out = obuf(e); c2 = bignParamsEnc(out, &e2, P); }
	lineHead(); jBool("ok", c1 == ERR_OK && c2 == ERR_OK); jBool("pc", e == e2); jParams(P); jOct("out", out, c1 == ERR_OK ? e : 0); jEnd();
	keep(out, c1 == ERR_OK ? e : 0);
	CASE_END
}
/* container mutants: cut at every offset, change every octet three ways, append, splice in the optional field */
static void mutateAll(const octet* enc, size_t n, void (*f)(const octet*, size_t), const char* kind, const char* inst, int thorough, int reduced)
{
	static octet m[4096]; size_t i; int k;
	if (n + 8 > sizeof m) return;
	snprintf(g_cls, sizeof g_cls, "%s-valid/%s", kind, inst); f(enc, n);
	for (i = 0; i < n; ++i) { snprintf(g_cls, sizeof g_cls, "%s-truncated/%s", kind, inst); f(enc, i); }
	for (i = 0; i < n; ++i) for (k = 0; k < 4; ++k)
	{
		static const char* kn[] = { "octet+1", "octet-1", "octet^80", "octet=seeded" };
		if (k == 3 && !thorough && i > 40) continue;
		if (reduced && k != 2) continue;            /* quick tier, further instances: truncations and octet^80 only */
		memcpy(m, enc, n);
		m[i] = k == 0 ? (octet)(m[i] + 1) : k == 1 ? (octet)(m[i] - 1) : k == 2 ? (octet)(m[i] ^ 0x80) : g_data[9000 + i];
		if (m[i] == enc[i]) continue;
		snprintf(g_cls, sizeof g_cls, "%s-%s/%s", kind, kn[k], inst); f(m, n);
	}
	memcpy(m, enc, n); m[n] = 0x00; snprintf(g_cls, sizeof g_cls, "%s-garbage-after/%s", kind, inst); f(m, n + 1);
	m[n] = 0x05; m[n + 1] = 0x00; f(m, n + 2);
}
static void recParams(int thorough)
{
	static const char* names[] = { "1.2.112.0.2.0.34.101.45.3.1", "1.2.112.0.2.0.34.101.45.3.2", "1.2.112.0.2.0.34.101.45.3.3" };
	static octet enc[1024], m[1100]; size_t n; int i, c;
	for (i = 0; i < 3; ++i)
	{
		char what[32]; snprintf(what, sizeof what, "l%d", 128 + 64 * i);
		setCls("params-std", what, 0);
		doParamsEnc(names[i]); n = g_last_n; memcpy(enc, g_last, n);
		mutateAll(enc, n, doParamsDec, "params", what, thorough, !thorough && i > 0);
		/* optional cofactor: 02 01 c appended inside the outer SEQUENCE (its length grows by 3) */
		for (c = 0; c < 4; ++c)
		{
			static const octet cof[4][3] = { {2, 1, 1}, {2, 1, 2}, {2, 1, 0}, {2, 2, 0} };
			size_t hd = enc[1] == 0x81 ? 3 : 4, body = n - hd;
			memcpy(m, enc, n); memcpy(m + n, cof[c], 3);
			if (hd == 3) { if (body + 3 > 255) continue; m[2] = (octet)(body + 3); }
			else { m[2] = (octet)((body + 3) >> 8); m[3] = (octet)(body + 3); }
			snprintf(g_cls, sizeof g_cls, "params-cofactor-%d/%s", c, what); doParamsDec(m, n + 3);
			snprintf(g_cls, sizeof g_cls, "params-cofactor-outside/%s", what); memcpy(m, enc, n); memcpy(m + n, cof[c], 3); doParamsDec(m, n + 3);
		}
	}
}

/* ================================================================== containers: CV certificates */
static void doCvcUnwrap(const octet* src, size_t n)
{
	CASE_BEGIN("btokCVCUnwrap", src, n)
	const octet* p = xbuf(src, n); btok_cvc_t* c = (btok_cvc_t*)obuf(sizeof(btok_cvc_t)); err_t code; int fmt; size_t pl, sl;
	code = btokCVCUnwrap(c, p, n, 0, 0);
	fmt = code != ERR_BAD_FORMAT;
	pl = fmt && c->pubkey_len <= 128 ? c->pubkey_len : 0; sl = fmt && c->sig_len <= 96 ? c->sig_len : 0;
	lineHead(); jBool("ok", code == ERR_OK); jBool("fmt", fmt); jInt("code", (long long)code);
	jOct("authority", c->authority, fmt ? strnlen(c->authority, 13) : 0); jOct("holder", c->holder, fmt ? strnlen(c->holder, 13) : 0);
	jOct("pubkey", c->pubkey, pl); jOct("from", c->from, fmt ? 6 : 0); jOct("until", c->until, fmt ? 6 : 0);
	jOct("hat_eid", c->hat_eid, fmt ? 5 : 0); jOct("hat_esign", c->hat_esign, fmt ? 2 : 0); jOct("sig", c->sig, sl); jEnd();
	CASE_END
}
static void doCvcLen(const octet* src, size_t n)
{
	CASE_BEGIN("btokCVCLen", src, n)
	const octet* p = xbuf(src, n); size_t r = btokCVCLen(p, n);
	lineHead(); jBool("ok", OKF(r)); jInt("n", NV(r)); jEnd();
	CASE_END
}
static void fCvc(const octet* s, size_t n) { doCvcUnwrap(s, n); doCvcLen(s, n); }
static void recCvc(int thorough)
{
	static octet cert[1024]; int i;
	for (i = 0; i < 4; ++i)
	{
		btok_cvc_t c[1]; octet priv[64]; size_t pl = i == 0 ? 32 : i == 1 ? 48 : i == 2 ? 64 : 32, n = sizeof cert; char what[32]; err_t code;
		memset(c, 0, sizeof c);
		strcpy(c->authority, i == 1 ? "BYCA00000000" : "BYCA0000"); strcpy(c->holder, i == 2 ? "BYCA1000ABCD" : "BYCA1000");
		memcpy(c->from, "\x02\x02\x00\x07\x00\x07", 6); memcpy(c->until, "\x09\x09\x00\x07\x00\x07", 6);
		if (i != 3) memset(c->hat_eid, 0xEE, 5);
		if (i != 0) memset(c->hat_esign, 0x77, 2);
		memcpy(priv, g_data + 12000 + 64 * i, 64); priv[pl - 1] &= 0x7F; priv[0] |= 1;
		code = btokCVCWrap(cert, &n, c, priv, pl);
		if (code != ERR_OK) { fprintf(stderr, "driver: btokCVCWrap failed %u\n", (unsigned)code); _exit(6); }
		snprintf(what, sizeof what, "%d", i);
		mutateAll(cert, n, fCvc, "cvc", what, thorough, !thorough && i != 2);
	}
}

/* ================================================================== C11: DER functions whose header allows val (and len) to overlap der.
   The logical inputs are kept in separate buffers; the call is laid out in one arena with val (or len) at a
   given offset against der; the logged line has the format of the disjoint-buffer case, so the same
   reference semantics judges it: outputs = F(inputs as they were before the call). */
static octet* g_arena = 0;
#define AR_SIZE 4096
#define AR_DER 2000
static octet* arena(void) { if (!g_arena) g_arena = (octet*)malloc(AR_SIZE); memset(g_arena, 0x5A, AR_SIZE); return g_arena + AR_DER; }
/* kind: 0 derEnc, 1 derTUINTEnc, 2 derTBITEnc (len = bits), 3 derTPSTREnc (val = string) */
static void ovEnc(int kind, u32 atag, const octet* val, size_t len, long voff)
{
	static const char* const nm[] = { "derEnc", "derTUINTEnc", "derTBITEnc", "derTPSTREnc" };
	size_t vo = kind == 2 ? (len + 7) / 8 : len;
	CASE_BEGIN(nm[kind], val, vo)
	octet* der = arena(); octet* v = der + voff; size_t e, e2; const octet* sep = xbuf(val, vo + (kind == 3));
	e = kind == 0 ? derEnc(0, atag, sep, len) : kind == 1 ? derTUINTEnc(0, atag, sep, len) : kind == 2 ? derTBITEnc(0, atag, sep, len) : derTPSTREnc(0, atag, (const char*)sep);
	e2 = e;
	memcpy(v, val, vo); if (kind == 3) v[vo] = 0;
	if (OKF(e)) e2 = kind == 0 ? derEnc(der, atag, v, len) : kind == 1 ? derTUINTEnc(der, atag, v, len) : kind == 2 ? derTBITEnc(der, atag, v, len) : derTPSTREnc(der, atag, (const char*)v);
	lineHead(); jBool("ok", OKF(e)); jU32("atag", atag); if (kind == 2) jInt("abits", (long long)len); jBool("pc", e == e2); jOct("out", der, OKF(e) ? e : 0); jEnd();
	CASE_END
}
/* kind: 0 derTUINTDec, 1 derTBITDec, 2 derTOCTDec, 3 derTPSTRDec; where: 0 val at der + off, 1 len at der + off (val separate) */
static void ovDec(int kind, const octet* src, size_t n, u32 atag, int where, long off)
{
	static const char* const nm[] = { "derTUINTDec", "derTBITDec", "derTOCTDec", "derTPSTRDec" };
	CASE_BEGIN(nm[kind], src, n)
	octet* der = arena(); const octet* sep = xbuf(src, n); size_t len0 = 0, r0, r = SIZE_MAX, e = SIZE_MAX, vo = 0; octet* out = 0; octet* re = 0;
	size_t lenv = 0; size_t* plen = &lenv;
	r0 = kind == 0 ? derTUINTDec(0, &len0, sep, n, atag) : kind == 1 ? derTBITDec(0, &len0, sep, n, atag) : kind == 2 ? derTOCTDec(0, &len0, sep, n, atag) : derTPSTRDec(0, &len0, sep, n, atag);
	memcpy(der, src, n);
	if (OKF(r0))
	{
		vo = kind == 1 ? (len0 + 7) / 8 : kind == 3 ? len0 + 1 : len0;
		if (where == 0) out = der + off; else { out = obuf(vo); plen = (size_t*)(der + off); }
		r = kind == 0 ? derTUINTDec(out, plen, der, n, atag) : kind == 1 ? derTBITDec(out, plen, der, n, atag) : kind == 2 ? derTOCTDec(out, plen, der, n, atag) : derTPSTRDec((char*)out, plen, der, n, atag);
		if (where == 1) memcpy(&lenv, plen, sizeof lenv);
	}
	if (OKF(r) && lenv == len0 && (kind == 1 || kind == 3 || (kind == 0 && len0 > 0)))
	{
		octet* cp = xbuf(out, vo);
		e = kind == 0 ? derTUINTEnc(0, atag, cp, lenv) : kind == 1 ? derTBITEnc(0, atag, cp, lenv) : derTPSTREnc(0, atag, (const char*)cp);
		if (OKF(e) && e < SANE) { re = obuf(e); if ((kind == 0 ? derTUINTEnc(re, atag, cp, lenv) : kind == 1 ? derTBITEnc(re, atag, cp, lenv) : derTPSTREnc(re, atag, (const char*)cp)) != e) e = SIZE_MAX; }
	}
	if (lenv != len0) { e = SIZE_MAX; re = 0; }
	lineHead(); jBool("ok", OKF(r0)); jInt("n", NV(r0)); jU32("atag", atag); jBool("oob", 0); jBool("pc", r0 == r && len0 == lenv);
	if (lenv != len0) lenv = 0;		/* a wrong reported length is flagged by pc; do not print from it */
	if (kind == 1) jInt("bits", (long long)lenv);
	if (kind == 3) jOct("str", out, OKF(r) ? lenv : 0); else jOct("val", out, OKF(r) ? (kind == 1 ? (lenv + 7) / 8 : lenv) : 0);
	if (kind != 2) jRe(re, e);
	jEnd(); 	CASE_END
}
/* kind: 0 derTUINTDec2, 1 derTBITDec2 (alen = bits), 2 derTOCTDec2 */
static void ovDec2(int kind, const octet* src, size_t n, u32 atag, size_t alen, long off)
{
	static const char* const nm[] = { "derTUINTDec2", "derTBITDec2", "derTOCTDec2" };
	CASE_BEGIN(nm[kind], src, n)
	octet* der = arena(); const octet* sep = xbuf(src, n); octet* out = der + off; size_t vo = kind == 1 ? (alen + 7) / 8 : alen;
	size_t r0 = kind == 0 ? derTUINTDec2(0, sep, n, atag, alen) : kind == 1 ? derTBITDec2(0, sep, n, atag, alen) : derTOCTDec2(0, sep, n, atag, alen), r;
	memcpy(der, src, n);
	r = kind == 0 ? derTUINTDec2(out, der, n, atag, alen) : kind == 1 ? derTBITDec2(out, der, n, atag, alen) : derTOCTDec2(out, der, n, atag, alen);
	lineHead(); jBool("ok", OKF(r)); jInt("n", NV(r)); jU32("atag", atag); jInt(kind == 1 ? "abits" : "alen", (long long)alen); jBool("pc", r0 == r);
	jOct("val", out, OKF(r) ? vo : 0); jEnd(); 	CASE_END
}
static void recOverlap(int thorough)
{
	static const u32 tg[] = { 0x04, 0x5F29 };
	static const size_t vl[] = { 0, 1, 5, 126, 127, 128, 130, 255, 256, 300 };
	static octet enc[400]; static octet val[400];
	size_t ti, li; long o; int kind;
	for (ti = 0; ti < 2; ++ti) for (li = 0; li < NOF(vl); ++li)
	{
		size_t L = vl[li]; long step = (thorough || L <= 5) ? 1 : 0;
		u32 t = tg[ti];
		if (!thorough && ti == 1 && L > 130) continue;
		for (kind = 0; kind < 4; ++kind)
		{
			size_t e, i, len = kind == 2 ? L * 8 - (L ? 3 : 0) : L;
			if (kind == 1 && L == 0) continue;		/* derTUINTEnc: len > 0 */
			memcpy(val, g_data + 5000 + 31 * kind, L);
			if (kind == 1 && L) val[L - 1] |= 0x80;		/* UINT with the sign bit: a zero octet is inserted */
			if (kind == 3) for (i = 0; i < L; ++i) val[i] = (octet)("ABCDEFGHIJKLMNOPQRSTUVWXYZabcdefghijklmnopqrstuvwxyz0123456789 '()+,-./:=?"[val[i] % 74]);
			val[L] = 0;
			e = kind == 0 ? derEnc(0, t, val, len) : kind == 1 ? derTUINTEnc(0, t, val, len) : kind == 2 ? derTBITEnc(0, t, val, len) : derTPSTREnc(0, t, (const char*)val);
			if (!OKF(e) || e > sizeof enc) continue;
			/* encoders: val swept over [-(L+4), e+4] against der */
			for (o = -(long)L - 4; o <= (long)e + 4; ++o)
			{
				if (!step && !(o <= -(long)L + 2 || (o >= -4 && o <= 8) || o >= (long)e - (long)L - 4) && (o + (long)vxEnvSeed()) % 7) continue;
				snprintf(g_cls, sizeof g_cls, "overlap/%s/vlen-%d/val@%ld", encFam(t), (int)L, o);
				ovEnc(kind, t, val, len, o);
			}
			/* decoders: the code just made; val / len swept against der */
			if (kind == 0) derEnc(enc, t, val, len); else if (kind == 1) derTUINTEnc(enc, t, val, len); else if (kind == 2) derTBITEnc(enc, t, val, len); else derTPSTREnc(enc, t, (const char*)val);
			{
				int dk = kind == 0 ? 2 : kind == 1 ? 0 : kind == 2 ? 1 : 3;
				size_t vo = L + (kind == 3);
				for (o = -(long)vo - 4; o <= (long)e + 4; ++o)
				{
					if (!step && !(o <= -(long)vo + 2 || (o >= -4 && o <= 8) || o >= (long)e - (long)vo - 4) && (o + (long)vxEnvSeed()) % 7) continue;
					snprintf(g_cls, sizeof g_cls, "overlap/%s/vlen-%d/dec-val@%ld", encFam(t), (int)L, o);
					ovDec(dk, enc, e, t, 0, o);
					if (dk != 3) { snprintf(g_cls, sizeof g_cls, "overlap/%s/vlen-%d/dec2-val@%ld", encFam(t), (int)L, o); ovDec2(dk == 0 ? 0 : dk == 1 ? 1 : 2, enc, e, t, len, o); }
				}
				for (o = -8; o <= (long)e; o += (thorough ? 1 : 3))
				{
					snprintf(g_cls, sizeof g_cls, "overlap/%s/vlen-%d/dec-len@%ld", encFam(t), (int)L, o);
					ovDec(dk, enc, e, t, 1, o);
				}
			}
		}
	}
}

int main(int argc, char** argv)
{
	const char* mode = argc > 1 ? argv[1] : "record";
	static char obuf_[1 << 20];
	setvbuf(stdout, obuf_, _IOFBF, sizeof obuf_);
	installHandlers(); gInit(); readSkip();
	vxSeed(vxEnvSeed()); vxRandBuf(g_data, sizeof g_data);
	if ((strcmp(mode, "agg") == 0 && argc > 2) || (strcmp(mode, "expand") == 0 && argc > 4)) return aggMain(argc, argv);
	if (strcmp(mode, "record") == 0)
	{
		int thorough = argc > 2 && strcmp(argv[2], "thorough") == 0;
		const char* part = argc > 3 ? argv[3] : "all";
		int all = strcmp(part, "all") == 0;
		if (all || strcmp(part, "tl") == 0) recTL(thorough);
		if (all || strcmp(part, "typed") == 0) recTyped(thorough);
		if (all || strcmp(part, "enc") == 0) recEnc(thorough);
		if (all || strcmp(part, "text") == 0) recText(thorough);
		if (all || strcmp(part, "apdu") == 0) recApdu(thorough);
		if (all || strcmp(part, "params") == 0) recParams(thorough);
		/* CV certificates run bign (point validation): not part of "all", the check runs them in a build without UBSan */
		if (strcmp(part, "cvc") == 0) recCvc(thorough);
		/* C11: overlapping val / len and der (not part of "all") */
		if (strcmp(part, "overlap") == 0) recOverlap(thorough);
		fflush(stdout);
		fprintf(stderr, "@LINES %ld faults %ld\n", g_lines, g_nfault);
		return 0;
	}
	fprintf(stderr, "usage: drv_codec agg <fn> | expand <fn> a b | record <quick|thorough> [part]\n");
	return 2;
}
