/* C14 part 1, memory / hex pairs: SAFE and FAST editions of memEq, memCmp, memCmpRev, memIsZero,
   memIsRep, hexEq, hexEqRev called BY NAME on enumerated operands (equal; first difference at every
   position, both orders; boundary octets); one ndjson line per call, judged by spec/trace/Trace_MemSF.tla. */
#include "vx.h"
#include <bee2/core/mem.h>
#include <bee2/core/hex.h>

static void line(const char* op, const char* ed, const octet* a, const octet* b, size_t n, long long res, int o)
{
	jBegin(); jStr("op", op); jStr("ed", ed); jOct("a", a, n); if (b) jOct("b", b, n); if (o >= 0) jInt("o", o); jInt("res", res); jEnd();
}

int main(int argc, char** argv)
{
	static const size_t L[] = {0, 1, 2, 7, 8, 9, 15, 16, 17, 31, 33, 64};
	size_t li, i; int thorough = argc > 2 && strcmp(argv[2], "thorough") == 0;
	vxSeed(vxEnvSeed());
	for (li = 0; li < sizeof(L) / sizeof(L[0]); ++li)
	{
		size_t n = L[li]; int v;
		for (v = -3; v < (int)n * 2; ++v)
		{
			octet* a = (octet*)malloc(n ? n : 1); octet* b = (octet*)malloc(n ? n : 1); char* hex = (char*)malloc(2 * n + 1);
			if (!thorough && n > 17 && v >= 0 && v % 5) { free(a); free(b); free(hex); continue; }
			vxRandBuf(a, n); memcpy(b, a, n);
			if (v == -2) memset(a, 0, n), memset(b, 0xFF, n);
			else if (v == -1) memset(a, 0, n), memset(b, 0, n);
			else if (v >= 0)
			{	/* first difference at position v/2 (counted from the low end), a < b there or a > b */
				size_t p = (size_t)v / 2; octet x = a[p];
				if (v % 2 == 0) a[p] = (octet)(x & 0x7F), b[p] = (octet)(x | 0x80); else a[p] = (octet)(x | 0x80), b[p] = (octet)(x & 0x7F);
				for (i = p + 1; i < n; ++i) b[i] = (octet)(a[i] ^ (octet)vxRand64());		/* later octets arbitrary */
			}
			line("memEq", "safe", a, b, n, SAFE(memEq)(a, b, n), -1); line("memEq", "fast", a, b, n, FAST(memEq)(a, b, n), -1);
			line("memCmp", "safe", a, b, n, SAFE(memCmp)(a, b, n), -1); line("memCmp", "fast", a, b, n, FAST(memCmp)(a, b, n), -1);
			line("memCmpRev", "safe", a, b, n, SAFE(memCmpRev)(a, b, n), -1); line("memCmpRev", "fast", a, b, n, FAST(memCmpRev)(a, b, n), -1);
			line("memIsZero", "safe", b, 0, n, SAFE(memIsZero)(b, n), -1); line("memIsZero", "fast", b, 0, n, FAST(memIsZero)(b, n), -1);
			line("memIsZero", "safe", a, 0, n, SAFE(memIsZero)(a, n), -1); line("memIsZero", "fast", a, 0, n, FAST(memIsZero)(a, n), -1);
			{	/* repetition test: a buffer of 0x5C with (for v >= 0) one deviating octet at position v/2 */
				octet* r = (octet*)malloc(n ? n : 1); memset(r, 0x5C, n); if (v >= 0) r[v / 2] ^= (octet)(1 << (v % 8));
				line("memIsRep", "safe", r, 0, n, SAFE(memIsRep)(r, n, 0x5C), 0x5C); line("memIsRep", "fast", r, 0, n, FAST(memIsRep)(r, n, 0x5C), 0x5C);
				free(r);
			}
			hexFrom(hex, b, n); if (v % 3 == 0) hexLower(hex);
			line("hexEq", "safe", a, b, n, SAFE(hexEq)(a, hex), -1); line("hexEq", "fast", a, b, n, FAST(hexEq)(a, hex), -1);
			hexFromRev(hex, b, n);
			line("hexEqRev", "safe", a, b, n, SAFE(hexEqRev)(a, hex), -1); line("hexEqRev", "fast", a, b, n, FAST(hexEqRev)(a, hex), -1);
			free(a); free(b); free(hex);
		}
	}
	return 0;
}
