/* Common helpers of the verification harnesses: seeded PRNG, ndjson output,
   simple command-line reader ("op key=value ..." with hex or decimal values). */
#ifndef VX_H
#define VX_H
#include <stdio.h>
#include <stdlib.h>
#include <string.h>
#include <stdint.h>
#include <ctype.h>
#include <bee2/defs.h>

/* ---- PRNG (splitmix64) */
static uint64_t vx_seed_state = 0x9E3779B97F4A7C15ull;
static inline void vxSeed(uint64_t s) { vx_seed_state = s * 0x9E3779B97F4A7C15ull + 0x1234567ull; }
static inline uint64_t vxRand64(void)
{
	uint64_t z = (vx_seed_state += 0x9E3779B97F4A7C15ull);
	z = (z ^ (z >> 30)) * 0xBF58476D1CE4E5B9ull;
	z = (z ^ (z >> 27)) * 0x94D049BB133111EBull;
	return z ^ (z >> 31);
}
static inline size_t vxRandN(size_t n) { return n ? (size_t)(vxRand64() % n) : 0; }
static inline void vxRandBuf(void* p, size_t n)
{
	octet* b = (octet*)p;
	while (n--) *b++ = (octet)vxRand64();
}
static inline uint64_t vxEnvSeed(void)
{
	const char* s = getenv("VERIF_SEED");
	return s ? strtoull(s, 0, 10) : 1;
}

/* ---- ndjson output */
static FILE* vx_out = 0;
static int vx_first = 1;
static inline void jBegin(void) { if (!vx_out) vx_out = stdout; fputc('{', vx_out); vx_first = 1; }
static inline void jSep(void) { if (!vx_first) fputc(',', vx_out); vx_first = 0; }
static inline void jEnd(void) { fputs("}\n", vx_out); fflush(vx_out); }	/* flushed per line: a sanitizer abort must not lose completed lines */
static inline void jStr(const char* k, const char* v)
{
	jSep(); fprintf(vx_out, "\"%s\":\"", k);
	for (; *v; ++v)
	{
		if (*v == '"' || *v == '\\') fputc('\\', vx_out), fputc(*v, vx_out);
		else if ((unsigned char)*v < 32) fprintf(vx_out, "\\u%04x", *v);
		else fputc(*v, vx_out);
	}
	fputc('"', vx_out);
}
static inline void jInt(const char* k, long long v) { jSep(); fprintf(vx_out, "\"%s\":%lld", k, v); }
static inline void jBool(const char* k, int v) { jSep(); fprintf(vx_out, "\"%s\":%s", k, v ? "true" : "false"); }
/* octet string as array of small ints (TLC-friendly) */
static inline void jOct(const char* k, const void* p, size_t n)
{
	const octet* b = (const octet*)p; size_t i;
	jSep(); fprintf(vx_out, "\"%s\":[", k);
	for (i = 0; i < n; ++i) fprintf(vx_out, i ? ",%u" : "%u", b[i]);
	fputc(']', vx_out);
}
/* array of 16-bit limbs, little-endian, from an octet buffer of even length */
static inline void jLimbs16(const char* k, const void* p, size_t noct)
{
	const octet* b = (const octet*)p; size_t i;
	jSep(); fprintf(vx_out, "\"%s\":[", k);
	for (i = 0; i + 1 < noct; i += 2) fprintf(vx_out, i ? ",%u" : "%u", b[i] | (b[i + 1] << 8));
	if (noct & 1) fprintf(vx_out, noct > 1 ? ",%u" : "%u", b[noct - 1]);
	fputc(']', vx_out);
}
static inline void jIntArr(const char* k, const long long* a, size_t n)
{
	size_t i; jSep(); fprintf(vx_out, "\"%s\":[", k);
	for (i = 0; i < n; ++i) fprintf(vx_out, i ? ",%lld" : "%lld", a[i]);
	fputc(']', vx_out);
}

/* ---- command lines:  op k=v k=v ...   (v = decimal int or hex string prefixed by x) */
#define VX_MAXARG 48
typedef struct { char* line; char* op; int n; char* k[VX_MAXARG]; char* v[VX_MAXARG]; } vx_cmd;
static inline int vxParse(vx_cmd* c, char* line)
{
	char* p = line;
	c->line = line; c->n = 0; c->op = 0;
	while (*p)
	{
		char* tok;
		while (*p == ' ' || *p == '\t' || *p == '\n' || *p == '\r') ++p;
		if (!*p) break;
		tok = p;
		while (*p && *p != ' ' && *p != '\t' && *p != '\n' && *p != '\r') ++p;
		if (*p) *p++ = 0;
		if (!c->op) c->op = tok;
		else if (c->n < VX_MAXARG)
		{
			char* eq = strchr(tok, '=');
			if (!eq) continue;
			*eq = 0; c->k[c->n] = tok; c->v[c->n] = eq + 1; ++c->n;
		}
	}
	return c->op != 0 && c->op[0] != '#';
}
static inline const char* vxArg(const vx_cmd* c, const char* k)
{
	int i; for (i = 0; i < c->n; ++i) if (strcmp(c->k[i], k) == 0) return c->v[i];
	return 0;
}
static inline long long vxInt(const vx_cmd* c, const char* k, long long def)
{
	const char* v = vxArg(c, k); return v ? strtoll(v, 0, 10) : def;
}
static inline int vxHexVal(int ch) { return ch <= '9' ? ch - '0' : (ch | 32) - 'a' + 10; }
/* hex argument "x0a0b..." (or "x" for empty) -> malloc'ed buffer of exact size (>=1 byte allocated) */
static inline octet* vxHex(const vx_cmd* c, const char* k, size_t* len)
{
	const char* v = vxArg(c, k); size_t n, i; octet* b;
	if (!v) { *len = 0; return 0; }
	if (*v == 'x') ++v;
	n = strlen(v) / 2;
	b = (octet*)malloc(n ? n : 1);
	for (i = 0; i < n; ++i) b[i] = (octet)(vxHexVal(v[2 * i]) * 16 + vxHexVal(v[2 * i + 1]));
	*len = n; return b;
}
#endif
