/* C18: the shared generator rng.c and mtCallOnce / mtAtomic* under real threads.

   Modes (argv[1]); work items are read from stdin, one per line (structure comes from python,
   i.e. from enumerated programs or from TLC behaviours; VERIF_SEED only feeds data octets/jitter):

     stress   exec n=N p0=CSX p1=CVX ...            free-running threads, one execution per line;
                                                    ndjson events on stdout (validated by Trace_RngMT)
     replay   sched id=K n=N p0=.. steps=T.Act.. .  schedule replay: each line is forked into a cold
                                                    process and forced along the TLC interleaving
     once     once n=N rounds=K / ctr n=N ops=M     threads racing on once-triggers / one atomic counter

   Observation points:
     - link-time interposition (ld --wrap) of pthread_mutex_lock/unlock/init (mt.o), of
       brngCTRStepR/brngCTRStart/blobCreate/blobClose (cross-object calls of rng.o), of nanosleep;
     - the guarded VERIF_POINTs of mt.c (around the CAS and the publication) and rngVerifPeek()
       when the tree has them (weak references: the driver links without them and reports
       "hooks":false; then once-events and the _ctr/_state projection are missing).

   Stamping.  stamp=atomic (rel/asan builds): every event takes a number from one atomic counter;
   the CAS and the publication are bracketed by a harness spin lock between their before/after
   points, so that number and operation are one atomic step.  stamp=lock (tsan build): the hook
   pointer stays null and only events inside the generator's own critical section are numbered
   (plain counter, protected by the library's mutex itself) - the instrumentation adds no
   happens-before edge that the library does not have; thread-local events carry seq 0 and are
   merged by checks/C18.py in program order. */
#define _GNU_SOURCE
#include "vx.h"
#include "vsched.h"
#include <pthread.h>
#include <stdatomic.h>
#include <unistd.h>
#include <sys/wait.h>
#include <stddef.h>
#include <bee2/core/err.h>
#include <bee2/core/rng.h>
#include <bee2/core/util.h>

/* mt.h is not included: the hook declarations are taken weakly */
typedef void (*vp_fn)(int id, const void* obj);
extern vp_fn mtVerifPoint __attribute__((weak));
extern void rngVerifPeek(size_t* ctr, bool_t* valid, size_t* once, bool_t* inited) __attribute__((weak));
extern bool_t mtCallOnce(size_t* once, void (*fn)());
extern size_t mtAtomicIncr(size_t* ctr);
extern size_t mtAtomicDecr(size_t* ctr);
extern size_t mtAtomicCmpSwap(size_t* ctr, size_t cmp, size_t swap);
#define VP_ONCE_CAS_BEFORE 1
#define VP_ONCE_CAS_AFTER 2
#define VP_ONCE_PUB_BEFORE 3
#define VP_ONCE_PUB_AFTER 4
#define VP_RNG_LOCKED 5
#define VP_RNG_UNLOCKING 6

static int haveHooks(void) { return &mtVerifPoint != 0 && rngVerifPeek != 0; }

/* ------------------------------------------------------------------ events */
enum { C_CREATE, C_STEPR, C_STEPR2, C_REKEY, C_ISVALID, C_CLOSE, C_N };
static const char* cname[] = { "Create", "StepR", "StepR2", "Rekey", "IsValid", "Close" };
static const char cletter[] = "CSTRVX";
enum { E_CALL, E_CAS, E_PUB, E_LOCK, E_GEN, E_BLOB, E_UNLOCK, E_RET };
static const char* ename[] = { "Call", "Cas", "Pub", "Lock", "Gen", "Blob", "Unlock", "Ret" };
enum { CAS_WIN, CAS_SPIN, CAS_DONE };
static const char* casname[] = { "win", "spin", "done" };

#define MAXT 16
#define MAXCALLS 16
#define MAXUNITS 16            /* 8-octet units per request */
#define MAXEV 512

typedef struct {
	unsigned long seq;
	int kind, call;
	long ctr, valid;            /* -1: not observed */
	long a, b;                  /* Cas: result, repetitions; Pub: value before / after; Gen: locked?, which */
	int req, n, ntags;          /* Ret of a step: units requested / written */
	const char* rc;             /* Ret: "ok" "true" "false" "err_create" "err" */
	const char* fn;             /* Lock/Unlock with hooks: name passed by the point */
	octet tags[MAXUNITS][8];
} ev_t;

typedef struct {
	int idx, ncalls;
	int prog[MAXCALLS];
	int call, callno;
	const size_t* once;         /* the trigger of this call's (outermost) mtCallOnce */
	int in_init;                /* inside fn() of the outermost once */
	int lastcas, spins, cas_ours;
	int n_inits; void* init_first;   /* mutexes initialised during this call */
	void* held; int holding;
	const char* last_rc; int last_req, last_n; int dup;
	uint64_t prng;
	int nev, lost;
	vs_thread vs;
	pthread_t th;
	ev_t ev[MAXEV];             /* last member */
} tctx;

static __thread tctx* T = 0;
static tctx g_t[MAXT];
static int g_n = 0;
static int g_stamp_atomic = 1;
static atomic_ulong g_seq;
static unsigned long g_seq_plain;
static atomic_flag g_H = ATOMIC_FLAG_INIT;      /* harness lock bracketing CAS / publication */
static int g_jitter = 0;
static int g_hooks_installed = 0;
static pthread_barrier_t g_bar;
static octet g_alltags[MAXT * MAXCALLS * MAXUNITS][8]; static int g_nalltags;   /* replay only */

static uint64_t tRand(tctx* t)
{
	uint64_t z = (t->prng += 0x9E3779B97F4A7C15ull);
	z = (z ^ (z >> 30)) * 0xBF58476D1CE4E5B9ull;
	z = (z ^ (z >> 27)) * 0x94D049BB133111EBull;
	return z ^ (z >> 31);
}

static void hLock(void) { while (atomic_flag_test_and_set_explicit(&g_H, memory_order_acquire)) ; }
static void hUnlock(void) { atomic_flag_clear_explicit(&g_H, memory_order_release); }

static unsigned long stampAtomic(void) { return atomic_fetch_add(&g_seq, 1) + 1; }

static ev_t* evNew(tctx* t, int kind, unsigned long seq)
{
	ev_t* e;
	if (t->nev >= MAXEV) { t->lost++; return &t->ev[MAXEV - 1]; }
	e = &t->ev[t->nev++];
	memset(e, 0, sizeof(*e) - sizeof(e->tags));
	e->kind = kind, e->seq = seq, e->call = t->call, e->ctr = e->valid = -1;
	return e;
}

static void peek(ev_t* e)
{
	if (rngVerifPeek)
	{
		size_t c; bool_t v;
		rngVerifPeek(&c, &v, 0, 0);
		e->ctr = (long)c, e->valid = v ? 1 : 0;
	}
}

/* ------------------------------------------------------------------ interposed calls */
int __real_pthread_mutex_lock(pthread_mutex_t* m);
int __real_pthread_mutex_unlock(pthread_mutex_t* m);
int __real_pthread_mutex_init(pthread_mutex_t* m, const pthread_mutexattr_t* a);
int __real_nanosleep(const struct timespec* req, struct timespec* rem);
void __real_brngCTRStepR(void* buf, size_t count, void* state);
void __real_brngCTRStart(void* state, const octet key[32], const octet iv[32]);
void* __real_blobCreate(size_t size);
void __real_blobClose(void* blob);

static int g_fail_init = 0;     /* fault: the n-th pthread_mutex_init of a Create call fails */

/* the timer entropy source calls mtSleep(0) 2048 times per 32 octets (150 ms under the lock);
   its quality is not C18's subject: zero-length sleeps return at once */
int __wrap_nanosleep(const struct timespec* req, struct timespec* rem)
{
	if (req && req->tv_sec == 0 && req->tv_nsec == 0) return 0;
	return __real_nanosleep(req, rem);
}

int __wrap_pthread_mutex_init(pthread_mutex_t* m, const pthread_mutexattr_t* a)
{
	tctx* t = T;
	if (t && t->call == C_CREATE)
	{
		if (t->n_inits++ == 0) t->init_first = m;
		if (g_fail_init && t->n_inits == g_fail_init) return EAGAIN;
	}
	return __real_pthread_mutex_init(m, a);
}

/* the generator's mutex: the only mutex locked in a call except those of utilOnExit, which
   are locked inside rngInit (after this call has initialised the generator's mutex first) */
static int isRngMutex(tctx* t, void* m)
{
	if (!t || t->call < 0) return 0;
	if (t->in_init) return 0;
	return t->n_inits == 0 || m == t->init_first;
}

static void onLocked(tctx* t)
{
	ev_t* e;
	unsigned long s = g_stamp_atomic ? stampAtomic() : ++g_seq_plain;
	e = evNew(t, E_LOCK, s);
	peek(e);
}

static void onUnlocking(tctx* t)
{
	ev_t* e;
	unsigned long s = g_stamp_atomic ? stampAtomic() : ++g_seq_plain;
	e = evNew(t, E_UNLOCK, s);
	peek(e);
}

int __wrap_pthread_mutex_lock(pthread_mutex_t* m)
{
	tctx* t = T; int r;
	if (!isRngMutex(t, m)) return __real_pthread_mutex_lock(m);
	vsYield(&t->vs, Y_LOCK);
	r = __real_pthread_mutex_lock(m);
	t->held = m, t->holding = 1;
	onLocked(t);
	vsYield(&t->vs, Y_LOCKED);
	return r;
}

int __wrap_pthread_mutex_unlock(pthread_mutex_t* m)
{
	tctx* t = T;
	if (t && t->holding && t->held == m)
	{
		vsYield(&t->vs, Y_UNLOCKING);
		onUnlocking(t);
		t->holding = 0;
	}
	return __real_pthread_mutex_unlock(m);
}

/* generator steps and state allocation requested by rng.o: must happen inside the critical section */
static void onGen(int which)
{
	tctx* t = T; ev_t* e; unsigned long s;
	if (!t || t->call < 0 || t->in_init) return;
	s = g_stamp_atomic ? stampAtomic() : (t->holding ? ++g_seq_plain : 0);
	e = evNew(t, which < 2 ? E_GEN : E_BLOB, s);
	e->a = t->holding, e->b = which;
}
void __wrap_brngCTRStepR(void* buf, size_t count, void* state) { onGen(0); __real_brngCTRStepR(buf, count, state); }
void __wrap_brngCTRStart(void* state, const octet key[32], const octet iv[32]) { onGen(1); __real_brngCTRStart(state, key, iv); }
void* __wrap_blobCreate(size_t size) { onGen(2); return __real_blobCreate(size); }
void __wrap_blobClose(void* blob) { onGen(3); __real_blobClose(blob); }

/* ------------------------------------------------------------------ VERIF_POINTs (only stamp=atomic / replay) */
static void verifPoint(int id, const void* obj)
{
	tctx* t = T; ev_t* e;
	if (!t || t->call < 0) return;
	switch (id)
	{
	case VP_ONCE_CAS_BEFORE:
		if (t->call != C_CREATE) return;
		if (!t->once) t->once = (const size_t*)obj;
		t->cas_ours = obj == (const void*)t->once && !t->in_init;
		if (!t->cas_ours) return;                         /* another trigger: utilOnExit's (nested), tm.c's (under the lock) */
		vsYield(&t->vs, Y_CAS);
		hLock();
		break;
	case VP_ONCE_CAS_AFTER:
		if (t->call != C_CREATE || !t->cas_ours) return;
		t->cas_ours = 0;
		{
			size_t r = *(const size_t*)obj;
			int res = r == 0 ? CAS_WIN : r == 1 ? CAS_DONE : CAS_SPIN;
			if (res == CAS_SPIN && t->lastcas == CAS_SPIN && t->nev && t->ev[t->nev - 1].kind == E_CAS)
				t->ev[t->nev - 1].b++, t->ev[t->nev - 1].seq = stampAtomic();      /* collapse a run of spins */
			else
				e = evNew(t, E_CAS, stampAtomic()), e->a = res, e->b = 1;
			t->lastcas = res;
			if (res == CAS_WIN) t->in_init = 1;
		}
		hUnlock();
		if (t->lastcas != CAS_SPIN) vsYield(&t->vs, Y_CASAFTER);
		break;
	case VP_ONCE_PUB_BEFORE:
		if (t->call != C_CREATE || obj != (const void*)t->once || !t->in_init) return;
		t->in_init = 0;
		vsYield(&t->vs, Y_PUB);
		hLock();
		e = evNew(t, E_PUB, 0);
		e->a = (long)mtAtomicCmpSwap((size_t*)obj, 0, 0);      /* value before the publication */
		break;
	case VP_ONCE_PUB_AFTER:
		/* passed by every caller after the loop: only the publisher has an open Pub event */
		if (t->call != C_CREATE || obj != (const void*)t->once || !t->nev || t->ev[t->nev - 1].kind != E_PUB || t->ev[t->nev - 1].seq != 0) return;
		e = &t->ev[t->nev - 1];
		e->b = (long)mtAtomicCmpSwap((size_t*)obj, 0, 0);
		e->seq = stampAtomic();
		hUnlock();
		vsYield(&t->vs, Y_PUBAFTER);
		break;
	case VP_RNG_LOCKED:
	case VP_RNG_UNLOCKING:
		/* cross-check of the interposition: the point must lie inside the critical section the wrappers saw */
		e = t->nev ? &t->ev[t->nev - 1] : 0;
		if (id == VP_RNG_LOCKED && e && e->kind == E_LOCK && t->holding)
			e->fn = (const char*)obj;
		else if (id == VP_RNG_LOCKED || !t->holding)
		{
			e = evNew(t, E_GEN, stampAtomic());
			e->a = 0, e->b = 10 + id;                       /* reported as a step outside the lock */
		}
		break;
	}
}

/* ------------------------------------------------------------------ calls */
static err_t extraSource(size_t* read, void* buf, size_t count, void* st)
{
	tctx* t = (tctx*)st; size_t i;
	for (i = 0; i < count; ++i) ((octet*)buf)[i] = (octet)tRand(t);
	*read = count;
	return ERR_OK;
}

/* request lengths in octets: multiples of the 8-octet unit, block-aligned and not */
static const int g_lens[] = { 32, 8, 64, 40, 96, 72, 16, 104 };

static void jitter(tctx* t)
{
	if (g_jitter)
	{
		volatile unsigned k = (unsigned)(tRand(t) % (unsigned)g_jitter);
		while (k) --k;
		if (tRand(t) % 7 == 0) sched_yield();
	}
}

static void doCall(tctx* t, int c, int units)
{
	octet buf[8 * MAXUNITS + 16], pre[8 * MAXUNITS + 16];
	ev_t* e; size_t i, count = 8 * (size_t)units;
	const char* rc = "ok"; int n = 0;
	t->call = c, t->once = 0, t->in_init = 0, t->cas_ours = 0, t->n_inits = 0, t->init_first = 0, t->lastcas = -1;
	e = evNew(t, E_CALL, g_stamp_atomic ? stampAtomic() : 0);
	e->req = (c == C_STEPR || c == C_STEPR2) ? units : 0;
	switch (c)
	{
	case C_CREATE:
		{
			err_t code = rngCreate(extraSource, t);
			rc = code == ERR_OK ? "ok" : code == ERR_FILE_CREATE ? "err_create" : "err";
		}
		break;
	case C_STEPR:
	case C_STEPR2:
		for (i = 0; i < count + 16; ++i) pre[i] = (octet)tRand(t);
		memcpy(buf, pre, count + 16);
		if (c == C_STEPR) rngStepR(buf, count, 0); else rngStepR2(buf, count, 0);
		break;
	case C_REKEY: rngRekey(); break;
	case C_ISVALID: rc = rngIsValid() ? "true" : "false"; break;
	case C_CLOSE: rngClose(); break;
	}
	e = evNew(t, E_RET, g_stamp_atomic ? stampAtomic() : 0);
	e->rc = rc, e->req = 0;
	if (c == C_STEPR || c == C_STEPR2)
	{
		/* units written: every 8-octet unit must differ from the prefill, the 16 octets behind must not */
		for (i = 0; i < (size_t)units; ++i)
			if (memcmp(buf + 8 * i, pre + 8 * i, 8) != 0) ++n;
		if (memcmp(buf + count, pre + count, 16) != 0) n = units + 1;
		e->req = units, e->n = n, e->ntags = units;
		memcpy(e->tags, buf, count);
		if (vs_on)
			for (i = 0; i < (size_t)units; ++i)
			{
				int k;
				for (k = 0; k < g_nalltags; ++k) if (memcmp(g_alltags[k], buf + 8 * i, 8) == 0) t->dup++;
				memcpy(g_alltags[g_nalltags++], buf + 8 * i, 8);
			}
	}
	t->last_rc = rc, t->last_req = units, t->last_n = n;
	t->call = -1;
}

static int unitsOf(tctx* t, int callno) { return g_lens[(t->idx + callno) % (int)(sizeof(g_lens) / sizeof(g_lens[0]))] / 8; }

static void* worker(void* arg)
{
	tctx* t = (tctx*)arg; int i;
	T = t;
	if (!vs_on) pthread_barrier_wait(&g_bar);
	for (i = 0; i < t->ncalls; ++i)
	{
		t->callno = i;
		vsYield(&t->vs, Y_IDLE);
		jitter(t);
		doCall(t, t->prog[i], unitsOf(t, i));
		/* a thread whose rngCreate failed holds no reference: it must not use the generator
		   (stress programs assume success; replayed programs come from the specification, which knows) */
		if (!vs_on && t->prog[i] == C_CREATE && strcmp(t->last_rc, "ok") != 0) { t->ncalls = i + 1; break; }
	}
	t->callno = t->ncalls;
	vsYield(&t->vs, Y_IDLE);
	return 0;
}

static int parseProgs(const vx_cmd* c, int n, uint64_t salt)
{
	int i, k;
	for (i = 0; i < n; ++i)
	{
		char key[8]; const char* p; tctx* t = &g_t[i];
		sprintf(key, "p%d", i);
		p = vxArg(c, key);
		if (!p) p = "";
		memset(t, 0, offsetof(tctx, ev));
		t->idx = i, t->call = -1, t->nev = 0;
		t->prng = (vxEnvSeed() * 1000003ull + salt) * 64 + (uint64_t)i;
		for (k = 0; p[k] && p[k] != '-' && k < MAXCALLS; ++k)
		{
			const char* q = strchr(cletter, p[k]);
			if (!q) return 0;
			t->prog[k] = (int)(q - cletter);
		}
		t->ncalls = k;
	}
	return 1;
}

/* ------------------------------------------------------------------ output */
static void dumpEvent(int th, const ev_t* e)
{
	jBegin(); jStr("e", ename[e->kind]); jInt("seq", (long long)e->seq); jInt("th", th + 1);
	jStr("call", e->call >= 0 ? cname[e->call] : "none");
	switch (e->kind)
	{
	case E_CALL: jInt("req", e->req); break;
	case E_CAS: jStr("res", casname[e->a]); jInt("reps", e->b); break;
	case E_PUB: jInt("pre", e->a == -1 || (size_t)e->a == SIZE_MAX ? 2 : e->a); jInt("post", (size_t)e->b == SIZE_MAX ? 2 : e->b); break;
	case E_LOCK: case E_UNLOCK: jInt("ctr", e->ctr); jInt("valid", e->valid); if (e->fn) jStr("fn", e->fn); break;
	case E_GEN: case E_BLOB: jBool("locked", (int)e->a); jInt("which", e->b); break;
	case E_RET:
		jStr("rc", e->rc); jInt("req", e->req); jInt("n", e->n);
		{
			int i;
			jSep(); fprintf(vx_out, "\"tags\":[");
			for (i = 0; i < e->ntags; ++i)
			{
				int k; fprintf(vx_out, i ? ",[" : "[");
				for (k = 0; k < 8; ++k) fprintf(vx_out, k ? ",%u" : "%u", e->tags[i][k]);
				fputc(']', vx_out);
			}
			fputc(']', vx_out);
		}
		break;
	}
	jEnd();
}

/* ------------------------------------------------------------------ stress */
static int g_created_before = 0;

static int runStress(const vx_cmd* c, long execno)
{
	int n = (int)vxInt(c, "n", 2), i, k, lost = 0;
	if (n < 1 || n > MAXT || !parseProgs(c, n, (uint64_t)execno)) return 0;
	g_n = n;
	jBegin(); jStr("e", "Reset"); jInt("n", n); jInt("once", g_created_before ? 1 : 0); jBool("inited", g_created_before);
	jBool("first", execno == 1); jBool("hooks", haveHooks()); jBool("obs_once", g_hooks_installed); jBool("exact", g_stamp_atomic);
	{
		char progs[MAXT * (MAXCALLS + 1) + 1]; int pos = 0;
		for (i = 0; i < n; ++i) { for (k = 0; k < g_t[i].ncalls; ++k) progs[pos++] = cletter[g_t[i].prog[k]]; progs[pos++] = i + 1 < n ? '|' : 0; }
		jStr("progs", progs);
	}
	jEnd();
	pthread_barrier_init(&g_bar, 0, (unsigned)n);
	for (i = 0; i < n; ++i) pthread_create(&g_t[i].th, 0, worker, &g_t[i]);
	for (i = 0; i < n; ++i) pthread_join(g_t[i].th, 0);
	pthread_barrier_destroy(&g_bar);
	for (i = 0; i < n; ++i)
	{
		for (k = 0; k < g_t[i].nev; ++k) dumpEvent(i, &g_t[i].ev[k]);
		lost += g_t[i].lost;
		for (k = 0; k < g_t[i].ncalls; ++k) if (g_t[i].prog[k] == C_CREATE) g_created_before = 1;
	}
	jBegin(); jStr("e", "End"); jInt("lost", lost); jEnd();
	fflush(stdout);
	return 1;
}

/* ------------------------------------------------------------------ replay */
typedef struct { int th; char act[12]; long once, inited, ctr, valid; char ret[16]; int n; } step_t;

static const char* g_replay_call = "none";
static void replayFail(long id, int at, const step_t* s, const char* why, long a, long b)
{
	jBegin(); jStr("e", "Sched"); jInt("id", id); jBool("ok", 0); jInt("at", at);
	if (s) { jInt("th", s->th + 1); jStr("act", s->act); jStr("call", g_replay_call); }
	jStr("why", why); jInt("got", a); jInt("exp", b); jEnd();
	fflush(stdout);
	_exit(0);
}

static void runReplayChild(vx_cmd* c)
{
	long id = (long)vxInt(c, "id", 0);
	int n = (int)vxInt(c, "n", 2), i, nsteps = 0, done = 0;
	char* steps = (char*)vxArg(c, "steps"); char* tok; char* save = 0;
	static step_t st[4096];
	int timeout = (int)vxInt(c, "timeout", 4000);
	g_fail_init = (int)vxInt(c, "failinit", 0);
	if (!haveHooks()) { jBegin(); jStr("e", "Sched"); jInt("id", id); jBool("ok", 0); jStr("why", "hooks-missing"); jEnd(); fflush(stdout); _exit(0); }
	if (!parseProgs(c, n, (uint64_t)id)) replayFail(id, -1, 0, "bad-programs", 0, 0);
	for (tok = steps ? strtok_r(steps, ",", &save) : 0; tok && nsteps < 4096; tok = strtok_r(0, ",", &save))
	{
		step_t* s = &st[nsteps];
		memset(s, 0, sizeof *s);
		strcpy(s->ret, "-");
		if (sscanf(tok, "%d.%11[A-Za-z].%ld.%ld.%ld.%ld.%15[a-z_-].%d", &s->th, s->act, &s->once, &s->inited, &s->ctr, &s->valid, s->ret, &s->n) < 6)
			replayFail(id, nsteps, 0, "bad-step", 0, 0);
		s->th -= 1;
		++nsteps;
	}
	mtVerifPoint = verifPoint, g_hooks_installed = 1, g_stamp_atomic = 1;
	g_n = n;
	vs_on = 1;
	sem_init(&vs_arrived, 0, 0);
	for (i = 0; i < n; ++i) sem_init(&g_t[i].vs.go, 0, 0), g_t[i].vs.at = Y_NONE;
	for (i = 0; i < n; ++i) pthread_create(&g_t[i].th, 0, worker, &g_t[i]);
	for (i = 0; i < n; ++i) if (!vsAwait(timeout)) replayFail(id, -1, 0, "start-timeout", 0, 0);
	for (i = 0; i < nsteps; ++i)
	{
		step_t* s = &st[i]; tctx* t = &g_t[s->th];
		int from = t->vs.at, real = 1, want = -1, want2 = -1;
		const char* a = s->act;
		int call = t->callno < t->ncalls ? t->prog[t->callno] : -1;
		g_replay_call = call >= 0 ? cname[call] : "none";
		/* action of the specification -> segment of the code between two yield points */
		if (!strcmp(a, "Dispatch"))
		{
			if (from != Y_IDLE) replayFail(id, i, s, "dispatch-not-idle", from, Y_IDLE);
			if (call == C_ISVALID) real = 0;                  /* rngIsValid reads _inited at once: part of VChk */
			else want = call == C_CREATE ? Y_CAS : Y_LOCK;
		}
		else if (!strcmp(a, "CasWin") || !strcmp(a, "CasDone")) { if (from != Y_CAS) replayFail(id, i, s, "not-at-cas", from, Y_CAS); want = Y_CASAFTER; }
		else if (!strcmp(a, "CasSpin")) { if (from != Y_CAS) replayFail(id, i, s, "not-at-cas", from, Y_CAS); want = Y_CAS; }
		else if (!strcmp(a, "IMtx") || !strcmp(a, "IReg")) real = 0;      /* inside rngInit: executed with ISet */
		else if (!strcmp(a, "ISet")) { if (from != Y_CASAFTER) replayFail(id, i, s, "not-after-cas", from, Y_CASAFTER); want = Y_PUB; }
		else if (!strcmp(a, "IFail")) { if (from != Y_CASAFTER) replayFail(id, i, s, "not-after-cas", from, Y_CASAFTER); want = Y_PUB; }   /* rngInit fails and returns */
		else if (!strcmp(a, "Pub")) { if (from != Y_PUB) replayFail(id, i, s, "not-at-pub", from, Y_PUB); want = Y_PUBAFTER; }
		else if (!strcmp(a, "CChk")) { if (from != Y_PUBAFTER && from != Y_CASAFTER) replayFail(id, i, s, "not-past-once", from, Y_PUBAFTER); want = Y_LOCK, want2 = Y_IDLE; }
		else if (!strcmp(a, "VChkV")) real = 0;                            /* the trigger read 1: rngIsValid goes on to _inited */
		else if (!strcmp(a, "VChk")) { if (from != Y_IDLE) replayFail(id, i, s, "vchk-not-idle", from, Y_IDLE); want = Y_LOCK, want2 = Y_IDLE; }
		else if (!strcmp(a, "Lock")) { if (from != Y_LOCK) replayFail(id, i, s, "not-at-lock", from, Y_LOCK); want = Y_LOCKED; }
		else if (!strcmp(a, "Body")) { if (from != Y_LOCKED) replayFail(id, i, s, "not-locked", from, Y_LOCKED); want = Y_UNLOCKING; }
		else if (!strcmp(a, "Unlock")) { if (from != Y_UNLOCKING) replayFail(id, i, s, "not-unlocking", from, Y_UNLOCKING); want = Y_IDLE; }
		else replayFail(id, i, s, "unknown-action", 0, 0);
		if (real)
		{
			if (!vsStep(&t->vs, timeout)) replayFail(id, i, s, "step-timeout", from, want);
			if (t->vs.at != want && t->vs.at != want2) replayFail(id, i, s, "wrong-yield-point", t->vs.at, want);
			if (!strcmp(a, "CasWin") && t->lastcas != CAS_WIN) replayFail(id, i, s, "cas-result", t->lastcas, CAS_WIN);
			if (!strcmp(a, "CasDone") && t->lastcas != CAS_DONE) replayFail(id, i, s, "cas-result", t->lastcas, CAS_DONE);
			if (!strcmp(a, "CasSpin") && t->lastcas != CAS_SPIN) replayFail(id, i, s, "cas-result", t->lastcas, CAS_SPIN);
		}
		/* projection after the step */
		{
			size_t ctr, once; bool_t valid, inited;
			rngVerifPeek(&ctr, &valid, &once, &inited);
			if (once == SIZE_MAX) once = 2;
			if ((long)once != s->once) replayFail(id, i, s, "once", (long)once, s->once);
			if ((inited != 0) != (s->inited != 0)) replayFail(id, i, s, "inited", inited, s->inited);
			if ((long)ctr != s->ctr) replayFail(id, i, s, "ctr", (long)ctr, s->ctr);
			if ((valid != 0) != (s->valid != 0)) replayFail(id, i, s, "valid", valid, s->valid);
		}
		/* the call returned: its value */
		if (strcmp(s->ret, "-") != 0)
		{
			if (t->vs.at != Y_IDLE) replayFail(id, i, s, "return-expected", t->vs.at, Y_IDLE);
			if (strcmp(s->ret, t->last_rc ? t->last_rc : "?") != 0) replayFail(id, i, s, "return-value", t->last_rc ? t->last_rc[0] : 0, s->ret[0]);
			if (call == C_STEPR || call == C_STEPR2)
			{
				if (t->last_n != t->last_req) replayFail(id, i, s, "short-output", t->last_n, t->last_req);
				if (t->dup) replayFail(id, i, s, "duplicate-output-unit", t->dup, 0);
			}
		}
		else if (real && t->vs.at == Y_IDLE && strcmp(a, "Unlock") == 0) replayFail(id, i, s, "unexpected-return", 0, 0);
		done = i + 1;
	}
	if (vxInt(c, "probe", 0))
	{
		/* where did the threads get to?  (used to learn which variant of rngIsValid the tree has) */
		jBegin(); jStr("e", "Probe"); jInt("id", id); jBool("ok", 1); jStr("at", vs_yname[g_t[0].vs.at]); jStr("rc", g_t[0].last_rc ? g_t[0].last_rc : "-"); jEnd();
		fflush(stdout);
		_exit(0);
	}
	for (i = 0; i < n; ++i)
		if (g_t[i].vs.at != Y_IDLE || g_t[i].callno != g_t[i].ncalls) replayFail(id, done, 0, "program-unfinished", g_t[i].vs.at, g_t[i].callno);
	for (i = 0; i < n; ++i) sem_post(&g_t[i].vs.go);
	for (i = 0; i < n; ++i) pthread_join(g_t[i].th, 0);
	{
		int gens_unlocked = 0, k;
		for (i = 0; i < n; ++i) for (k = 0; k < g_t[i].nev; ++k)
			if ((g_t[i].ev[k].kind == E_GEN || g_t[i].ev[k].kind == E_BLOB) && !g_t[i].ev[k].a) ++gens_unlocked;
		if (gens_unlocked) replayFail(id, done, 0, "generator-step-outside-lock", gens_unlocked, 0);
	}
	jBegin(); jStr("e", "Sched"); jInt("id", id); jBool("ok", 1); jInt("steps", nsteps); jEnd();
	fflush(stdout);
	_exit(0);
}

/* ------------------------------------------------------------------ once-triggers and atomic counter */
#define MAXROUNDS 4096
static size_t o_once[MAXROUNDS];
static volatile size_t o_payload[MAXROUNDS];
static size_t o_runs[MAXROUNDS];
static __thread int o_round;
static int o_rounds, o_ops;
static size_t o_ctr;
static void oInit(void)
{
	/* plain accesses: ordered only by the once protocol */
	o_runs[o_round] = o_runs[o_round] + 1;
	o_payload[o_round] = 0xC18C18 + (size_t)o_round;
}
typedef struct { int idx; int seen_bad, ret_bad; size_t* vals; int nvals; pthread_t th; int mode; } octx;
static octx o_t[MAXT];
static void* onceWorker(void* arg)
{
	octx* t = (octx*)arg; int r;
	pthread_barrier_wait(&g_bar);
	for (r = 0; r < o_rounds; ++r)
	{
		o_round = r;
		if (!mtCallOnce(&o_once[r], oInit)) t->ret_bad++;
		if (o_payload[r] != 0xC18C18 + (size_t)r) t->seen_bad++;      /* effects visible to every caller that returns */
	}
	return 0;
}
static void* ctrWorker(void* arg)
{
	octx* t = (octx*)arg; int i;
	pthread_barrier_wait(&g_bar);
	for (i = 0; i < o_ops; ++i)
	{
		size_t v;
		if (t->mode == 0) v = mtAtomicIncr(&o_ctr);
		else if (t->mode == 1) v = mtAtomicDecr(&o_ctr);
		else
		{
			/* increment by compare-and-swap; v = value replaced */
			size_t cur = mtAtomicCmpSwap(&o_ctr, 0, 0), got;
			while ((got = mtAtomicCmpSwap(&o_ctr, cur, cur + 1)) != cur) cur = got;
			v = cur;
		}
		t->vals[t->nvals++] = v;
	}
	return 0;
}

static void runOnce(const vx_cmd* c)
{
	int n = (int)vxInt(c, "n", 4), i, r;
	o_rounds = (int)vxInt(c, "rounds", 100);
	if (o_rounds > MAXROUNDS) o_rounds = MAXROUNDS;
	memset(o_once, 0, sizeof o_once); memset((void*)o_payload, 0, sizeof o_payload); memset(o_runs, 0, sizeof o_runs);
	pthread_barrier_init(&g_bar, 0, (unsigned)n);
	for (i = 0; i < n; ++i) { memset(&o_t[i], 0, sizeof(octx)); o_t[i].idx = i; pthread_create(&o_t[i].th, 0, onceWorker, &o_t[i]); }
	for (i = 0; i < n; ++i) pthread_join(o_t[i].th, 0);
	pthread_barrier_destroy(&g_bar);
	for (r = 0; r < o_rounds; ++r)
	{
		jBegin(); jStr("e", "OnceRound"); jInt("n", n); jInt("runs", (long long)o_runs[r]);
		jInt("once", o_once[r] == SIZE_MAX ? 2 : (long long)o_once[r]); jBool("payload", o_payload[r] == 0xC18C18 + (size_t)r);
		jEnd();
	}
	{
		int stale = 0, retbad = 0;
		for (i = 0; i < n; ++i) stale += o_t[i].seen_bad, retbad += o_t[i].ret_bad;
		jBegin(); jStr("e", "OnceSummary"); jInt("n", n); jInt("rounds", o_rounds); jInt("stale", stale); jInt("retfalse", retbad); jEnd();
	}
}

static void runCtr(const vx_cmd* c)
{
	int n = (int)vxInt(c, "n", 4), i, k, phase;
	o_ops = (int)vxInt(c, "ops", 1000);
	o_ctr = 0;
	for (phase = 0; phase < 3; ++phase)
	{
		static const char* opn[] = { "Incr", "CasIncr", "Decr" };
		static const int modes[] = { 0, 2, 1 };
		size_t before = o_ctr;
		pthread_barrier_init(&g_bar, 0, (unsigned)n);
		for (i = 0; i < n; ++i)
		{
			memset(&o_t[i], 0, sizeof(octx)); o_t[i].idx = i, o_t[i].mode = modes[phase];
			o_t[i].vals = (size_t*)malloc(sizeof(size_t) * (size_t)o_ops);
			pthread_create(&o_t[i].th, 0, ctrWorker, &o_t[i]);
		}
		for (i = 0; i < n; ++i) pthread_join(o_t[i].th, 0);
		pthread_barrier_destroy(&g_bar);
		jBegin(); jStr("e", "CtrPhase"); jStr("op", opn[phase]); jInt("n", n); jInt("ops", o_ops);
		jInt("before", (long long)before); jInt("after", (long long)o_ctr); jEnd();
		for (i = 0; i < n; ++i)
		{
			for (k = 0; k < o_t[i].nvals; ++k)
			{ jBegin(); jStr("e", "CtrOp"); jStr("op", opn[phase]); jInt("th", i + 1); jInt("k", k); jInt("ret", (long long)o_t[i].vals[k]); jEnd(); }
			free(o_t[i].vals);
		}
	}
}

/* concurrent registration of destructors: utilOnExit from n threads, all run at exit exactly once */
static atomic_int x_ran[MAXT];
#define XFN(i) static void xfn##i(void) { atomic_fetch_add(&x_ran[i], 1); }
XFN(0) XFN(1) XFN(2) XFN(3) XFN(4) XFN(5) XFN(6) XFN(7) XFN(8) XFN(9) XFN(10) XFN(11) XFN(12) XFN(13) XFN(14) XFN(15)
static void (*xfns[MAXT])(void) = { xfn0, xfn1, xfn2, xfn3, xfn4, xfn5, xfn6, xfn7, xfn8, xfn9, xfn10, xfn11, xfn12, xfn13, xfn14, xfn15 };
static int x_n, x_ok[MAXT];
static void* exitWorker(void* arg)
{
	int i = (int)(size_t)arg;
	pthread_barrier_wait(&g_bar);
	x_ok[i] = utilOnExit(xfns[i]);
	return 0;
}
static void xReport(void)
{
	/* registered last -> runs first?  no: it is registered FIRST, so it runs LAST (LIFO) */
	int i;
	jBegin(); jStr("e", "OnExit"); jInt("n", x_n);
	{ long long a[MAXT], b[MAXT]; for (i = 0; i < x_n; ++i) a[i] = x_ok[i], b[i] = atomic_load(&x_ran[i]); jIntArr("registered", a, (size_t)x_n); jIntArr("ran", b, (size_t)x_n); }
	jEnd(); fflush(stdout);
}
static void runOnExit(const vx_cmd* c)
{
	pthread_t th[MAXT]; int i;
	x_n = (int)vxInt(c, "n", 4);
	if (!utilOnExit(xReport)) { jBegin(); jStr("e", "OnExit"); jInt("n", 0); jEnd(); return; }
	pthread_barrier_init(&g_bar, 0, (unsigned)x_n);
	for (i = 0; i < x_n; ++i) pthread_create(&th[i], 0, exitWorker, (void*)(size_t)i);
	for (i = 0; i < x_n; ++i) pthread_join(th[i], 0);
	pthread_barrier_destroy(&g_bar);
}

/* ------------------------------------------------------------------ main */
int main(int argc, char** argv)
{
	const char* mode = argc > 1 ? argv[1] : "stress";
	static char line[1 << 20]; vx_cmd c; long lineno = 0; int i;
	for (i = 2; i < argc; ++i)
	{
		if (!strcmp(argv[i], "stamp=lock")) g_stamp_atomic = 0;
		else if (!strncmp(argv[i], "jitter=", 7)) g_jitter = atoi(argv[i] + 7);
		else if (!strncmp(argv[i], "failinit=", 9)) g_fail_init = atoi(argv[i] + 9);
	}
	if (!strcmp(mode, "info"))
	{
		jBegin(); jStr("e", "Info"); jBool("hooks", haveHooks()); jEnd();
		return 0;
	}
	if (!strcmp(mode, "stress") && g_stamp_atomic && haveHooks())
		mtVerifPoint = verifPoint, g_hooks_installed = 1;
	while (fgets(line, sizeof line, stdin))
	{
		if (!vxParse(&c, line)) continue;
		++lineno;
		if (!strcmp(mode, "stress") && !strcmp(c.op, "exec")) runStress(&c, lineno);
		else if (!strcmp(mode, "replay") && !strcmp(c.op, "sched"))
		{
			pid_t pid; int st = 0;
			fflush(stdout);
			pid = fork();
			if (pid == 0) runReplayChild(&c);
			waitpid(pid, &st, 0);
			if (!WIFEXITED(st) || WEXITSTATUS(st) != 0)
			{ jBegin(); jStr("e", "Sched"); jInt("id", vxInt(&c, "id", 0)); jBool("ok", 0); jStr("why", "crash"); jInt("got", st); jInt("exp", 0); jEnd(); }
			fflush(stdout);
		}
		else if (!strcmp(mode, "once") && !strcmp(c.op, "once")) runOnce(&c);
		else if (!strcmp(mode, "once") && !strcmp(c.op, "ctr")) runCtr(&c);
		else if (!strcmp(mode, "once") && !strcmp(c.op, "onexit")) runOnExit(&c);
	}
	fflush(stdout);
	return 0;
}
