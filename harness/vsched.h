/* C18: cooperative scheduler for schedule replay (spec -> code).

   Real pthreads are forced along an interleaving chosen by TLC: every worker stops at its
   yield points (before a call, around the CAS and the publication in mtCallOnce, before and
   after pthread_mutex_lock, before pthread_mutex_unlock) and waits for the controller; the
   controller (main thread) lets exactly one worker run from its current yield point to its
   next one, which is one action of sm/RngMT.tla.  Only semaphores are used (the pthread
   mutex calls are interposed by the harness).

   Never used in the tsan build: the hand-offs are happens-before edges that would order
   every pair of accesses and blind ThreadSanitizer. */
#ifndef VSCHED_H
#define VSCHED_H
#include <semaphore.h>
#include <time.h>
#include <errno.h>

enum { Y_NONE = 0, Y_IDLE, Y_CAS, Y_CASAFTER, Y_PUB, Y_PUBAFTER, Y_LOCK, Y_LOCKED, Y_UNLOCKING, Y_EXIT };
static const char* vs_yname[] = { "none", "idle", "cas", "casafter", "pub", "pubafter", "lock", "locked", "unlocking", "exit" };

typedef struct {
	sem_t go;
	volatile int at;        /* yield point the worker waits at */
} vs_thread;

static int vs_on = 0;               /* replay mode? */
static sem_t vs_arrived;

/* worker side: stop at a yield point until the controller says go */
static void vsYield(vs_thread* t, int point)
{
	if (!vs_on) return;
	t->at = point;
	sem_post(&vs_arrived);
	while (sem_wait(&t->go) != 0 && errno == EINTR);
}

/* controller side: wait until one worker arrives at a yield point; 0 on timeout */
static int vsAwait(int timeout_ms)
{
	struct timespec ts;
	clock_gettime(CLOCK_REALTIME, &ts);
	ts.tv_sec += timeout_ms / 1000; ts.tv_nsec += (long)(timeout_ms % 1000) * 1000000l;
	if (ts.tv_nsec >= 1000000000l) ts.tv_sec++, ts.tv_nsec -= 1000000000l;
	for (;;)
	{
		if (sem_timedwait(&vs_arrived, &ts) == 0) return 1;
		if (errno != EINTR) return 0;
	}
}

/* controller side: let worker t run to its next yield point */
static int vsStep(vs_thread* t, int timeout_ms)
{
	sem_post(&t->go);
	return vsAwait(timeout_ms);
}
#endif
