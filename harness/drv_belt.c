/* belt driver (C01 record direction; C10 "steps" and C11 "overlap" replay directions).
   Every executed call is logged as one ndjson line that spec/trace/Trace_Belt.tla recomputes
   with the reference semantics of STB 34.101.31.
   Buffers handed to the library are malloc'ed at exactly the documented size. */
#include "vx.h"
#include <bee2/core/mem.h>
#include <bee2/core/err.h>
#include <bee2/core/util.h>
#include <bee2/core/u32.h>
#include <bee2/math/ww.h>
#include <bee2/crypto/belt.h>
#include "crypto/belt/belt_lcl.h"

static int g_thorough = 0;

typedef struct { const char* op; const octet* key; size_t klen; const octet* iv; size_t ivlen;
	const octet* in; size_t inlen; const octet* hdr; size_t hdrlen; const octet* tag; size_t taglen;
	const octet* out; size_t outlen; long long rc; long long iter; const char* cls; } rec_t;

static void emit(const rec_t* r)
{
	jBegin(); jStr("op", r->op);
	if (r->cls) jStr("cls", r->cls);
	if (r->key) jOct("key", r->key, r->klen);
	if (r->iv) jOct("iv", r->iv, r->ivlen);
	if (r->in) jOct("in", r->in, r->inlen);
	if (r->hdr) jOct("hdr", r->hdr, r->hdrlen);
	if (r->tag) jOct("tag", r->tag, r->taglen);
	if (r->out) jOct("out", r->out, r->outlen);
	if (r->iter) jInt("iter", r->iter);
	jInt("rc", r->rc); jEnd();
}

static octet* rnd(size_t n) { octet* p = (octet*)malloc(n ? n : 1); vxRandBuf(p, n); return p; }
static octet* dup(const void* s, size_t n) { octet* p = (octet*)malloc(n ? n : 1); if (n) memcpy(p, s, n); return p; }

static const size_t KL[3] = {16, 24, 32};

/* ---- one-shot functions over one (klen, len) point */
static void oneShots(size_t klen, size_t len, const char* cls)
{
	octet* key = rnd(klen); octet* iv = rnd(16); octet* in = rnd(len);
	octet* out = (octet*)malloc(len + 16); octet tag[32]; rec_t r;
	err_t e;
#define R0() memset(&r, 0, sizeof r); r.cls = cls; r.key = key; r.klen = klen
	if (len >= 16)
	{
		R0(); r.op = "ecbE"; r.in = in; r.inlen = len; r.rc = beltECBEncr(out, in, len, key, klen); r.out = out; r.outlen = len; emit(&r);
		R0(); r.op = "ecbD"; r.in = in; r.inlen = len; r.rc = beltECBDecr(out, in, len, key, klen); r.out = out; r.outlen = len; emit(&r);
		R0(); r.op = "cbcE"; r.iv = iv; r.ivlen = 16; r.in = in; r.inlen = len; r.rc = beltCBCEncr(out, in, len, key, klen, iv); r.out = out; r.outlen = len; emit(&r);
		R0(); r.op = "cbcD"; r.iv = iv; r.ivlen = 16; r.in = in; r.inlen = len; r.rc = beltCBCDecr(out, in, len, key, klen, iv); r.out = out; r.outlen = len; emit(&r);
	}
	R0(); r.op = "cfbE"; r.iv = iv; r.ivlen = 16; r.in = in; r.inlen = len; r.rc = beltCFBEncr(out, in, len, key, klen, iv); r.out = out; r.outlen = len; emit(&r);
	R0(); r.op = "cfbD"; r.iv = iv; r.ivlen = 16; r.in = in; r.inlen = len; r.rc = beltCFBDecr(out, in, len, key, klen, iv); r.out = out; r.outlen = len; emit(&r);
	R0(); r.op = "ctr"; r.iv = iv; r.ivlen = 16; r.in = in; r.inlen = len; r.rc = beltCTR(out, in, len, key, klen, iv); r.out = out; r.outlen = len; emit(&r);
	R0(); r.op = "mac"; r.in = in; r.inlen = len; r.rc = beltMAC(tag, in, len, key, klen); r.out = tag; r.outlen = 8; emit(&r);
	R0(); r.key = 0; r.op = "hash"; r.in = in; r.inlen = len; r.rc = beltHash(tag, in, len); r.out = tag; r.outlen = 32; emit(&r);
	R0(); r.op = "hmac"; r.in = in; r.inlen = len; r.rc = beltHMAC(tag, in, len, key, klen); r.out = tag; r.outlen = 32; emit(&r);
	if (len >= 16 && len % 16 == 0)
	{
		R0(); r.op = "bdeE"; r.iv = iv; r.ivlen = 16; r.in = in; r.inlen = len; r.rc = beltBDEEncr(out, in, len, key, klen, iv); r.out = out; r.outlen = len; emit(&r);
		R0(); r.op = "bdeD"; r.iv = iv; r.ivlen = 16; r.in = in; r.inlen = len; r.rc = beltBDEDecr(out, in, len, key, klen, iv); r.out = out; r.outlen = len; emit(&r);
	}
	if (len >= 32 && len % 16 == 0)
	{
		R0(); r.op = "sdeE"; r.iv = iv; r.ivlen = 16; r.in = in; r.inlen = len; r.rc = beltSDEEncr(out, in, len, key, klen, iv); r.out = out; r.outlen = len; emit(&r);
		R0(); r.op = "sdeD"; r.iv = iv; r.ivlen = 16; r.in = in; r.inlen = len; r.rc = beltSDEDecr(out, in, len, key, klen, iv); r.out = out; r.outlen = len; emit(&r);
	}
	if (len >= 16)
	{
		R0(); r.op = "kwpW"; r.hdr = iv; r.hdrlen = 16; r.in = in; r.inlen = len; r.rc = beltKWPWrap(out, in, len, iv, key, klen); r.out = out; r.outlen = len + 16; emit(&r);
		(void)e;
	}
	free(key); free(iv); free(in); free(out);
}

/* ---- AEAD (DWP, CHE) and KWP: wrap, honest unwrap, and single-octet alterations */
static void aead(int che, size_t klen, size_t len, size_t hlen, const char* cls)
{
	octet* key = rnd(klen); octet* iv = rnd(16); octet* in = rnd(len); octet* hdr = rnd(hlen);
	octet* ct = (octet*)malloc(len ? len : 1); octet* pt = (octet*)malloc(len ? len : 1); octet tag[8]; rec_t r;
	int alt;
	memset(&r, 0, sizeof r); r.cls = cls; r.op = che ? "cheW" : "dwpW"; r.key = key; r.klen = klen; r.iv = iv; r.ivlen = 16;
	r.in = in; r.inlen = len; r.hdr = hdr; r.hdrlen = hlen;
	r.rc = che ? beltCHEWrap(ct, tag, in, len, hdr, hlen, key, klen, iv) : beltDWPWrap(ct, tag, in, len, hdr, hlen, key, klen, iv);
	r.out = ct; r.outlen = len; r.tag = tag; r.taglen = 8; emit(&r);
	/* alterations: 0 none, 1 tag, 2 ciphertext, 3 header, 4 iv, 5 key */
	for (alt = 0; alt <= 5; ++alt)
	{
		octet* k2 = dup(key, klen); octet* iv2 = dup(iv, 16); octet* ct2 = dup(ct, len); octet* h2 = dup(hdr, hlen); octet t2[8];
		memcpy(t2, tag, 8);
		if (alt == 1) t2[vxRandN(8)] ^= (octet)(1u << vxRandN(8));
		if (alt == 2) { if (!len) goto next; ct2[vxRandN(len)] ^= (octet)(1u << vxRandN(8)); }
		if (alt == 3) { if (!hlen) goto next; h2[vxRandN(hlen)] ^= (octet)(1u << vxRandN(8)); }
		if (alt == 4) iv2[vxRandN(16)] ^= (octet)(1u << vxRandN(8));
		if (alt == 5) k2[vxRandN(klen)] ^= (octet)(1u << vxRandN(8));
		memset(pt, 0xEE, len);
		memset(&r, 0, sizeof r); r.cls = cls; r.op = che ? "cheU" : "dwpU"; r.key = k2; r.klen = klen; r.iv = iv2; r.ivlen = 16;
		r.in = ct2; r.inlen = len; r.hdr = h2; r.hdrlen = hlen; r.tag = t2; r.taglen = 8;
		r.rc = che ? beltCHEUnwrap(pt, ct2, len, h2, hlen, t2, k2, klen, iv2) : beltDWPUnwrap(pt, ct2, len, h2, hlen, t2, k2, klen, iv2);
		r.out = pt; r.outlen = len; r.iter = 0; emit(&r);
	next:
		free(k2); free(iv2); free(ct2); free(h2);
	}
	free(key); free(iv); free(in); free(hdr); free(ct); free(pt);
}

static void kwp(size_t klen, size_t len, const char* cls)
{
	octet* key = rnd(klen); octet* hdr = rnd(16); octet* in = rnd(len);
	octet* tok = (octet*)malloc(len + 16); octet* pt = (octet*)malloc(len); rec_t r; int alt;
	beltKWPWrap(tok, in, len, hdr, key, klen);
	for (alt = 0; alt <= 3; ++alt)
	{
		octet* k2 = dup(key, klen); octet* h2 = dup(hdr, 16); octet* t2 = dup(tok, len + 16);
		if (alt == 1) t2[vxRandN(len + 16)] ^= (octet)(1u << vxRandN(8));
		if (alt == 2) h2[vxRandN(16)] ^= (octet)(1u << vxRandN(8));
		if (alt == 3) k2[vxRandN(klen)] ^= (octet)(1u << vxRandN(8));
		memset(pt, 0xEE, len);
		memset(&r, 0, sizeof r); r.cls = cls; r.op = "kwpU"; r.key = k2; r.klen = klen; r.hdr = h2; r.hdrlen = 16; r.in = t2; r.inlen = len + 16;
		r.rc = beltKWPUnwrap(pt, t2, len + 16, h2, k2, klen); r.out = pt; r.outlen = len; emit(&r);
		free(k2); free(h2); free(t2);
	}
	free(key); free(hdr); free(in); free(tok); free(pt);
}

/* ---- block, wide block (all three decryption editions), compression, key expansion, KRP */
static void lowLevel(size_t klen)
{
	octet* key = rnd(klen); octet blk[16], out[16]; u32 k[8]; rec_t r; octet kx[32];
	vxRandBuf(blk, 16);
	beltKeyExpand2(k, key, klen);
	memcpy(out, blk, 16); beltBlockEncr(out, k);
	memset(&r, 0, sizeof r); r.op = "blockE"; r.key = key; r.klen = klen; r.in = blk; r.inlen = 16; r.out = out; r.outlen = 16; emit(&r);
	memcpy(out, blk, 16); beltBlockDecr(out, k);
	memset(&r, 0, sizeof r); r.op = "blockD"; r.key = key; r.klen = klen; r.in = blk; r.inlen = 16; r.out = out; r.outlen = 16; emit(&r);
	beltKeyExpand(kx, key, klen);
	memset(&r, 0, sizeof r); r.op = "keyExpand"; r.key = key; r.klen = klen; r.out = kx; r.outlen = 32; emit(&r);
	free(key);
}

static void wbl(size_t klen, size_t len)
{
	octet* key = rnd(klen); octet* in = rnd(len); octet* buf = (octet*)malloc(len);
	void* st = malloc(beltWBL_keep()); rec_t r;
	beltWBLStart(st, key, klen);
	memcpy(buf, in, len); beltWBLStepE(buf, len, st);
	memset(&r, 0, sizeof r); r.op = "wblE"; r.key = key; r.klen = klen; r.in = in; r.inlen = len; r.out = buf; r.outlen = len; emit(&r);
	memcpy(buf, in, len); beltWBLStepD(buf, len, st);
	memset(&r, 0, sizeof r); r.op = "wblD"; r.cls = "StepD"; r.key = key; r.klen = klen; r.in = in; r.inlen = len; r.out = buf; r.outlen = len; emit(&r);
	{	/* StepD2: the last block is held in a separate buffer */
		octet* b1 = dup(in, len - 16); octet* b2 = dup(in + len - 16, 16);
		beltWBLStepD2(b1, b2, len, st);
		memcpy(buf, b1, len - 16); memcpy(buf + len - 16, b2, 16);
		memset(&r, 0, sizeof r); r.op = "wblD"; r.cls = "StepD2"; r.key = key; r.klen = klen; r.in = in; r.inlen = len; r.out = buf; r.outlen = len; emit(&r);
		free(b1); free(b2);
	}
	free(key); free(in); free(buf); free(st);
}

static void compr(void)
{
	octet x[64], h[32], s[16]; u32 X[8], Hh[8], S[4]; void* stack = malloc(beltCompr_deep()); rec_t r;
	vxRandBuf(x, 64);
	/* sigma(X1..X4): h = X3 || X4 is the running hash, X = X1 || X2 the message block */
	u32From(X, x, 32); u32From(Hh, x + 32, 32); memset(S, 0, 16);
	beltCompr2(S, Hh, X, stack);
	u32To(h, 32, Hh); u32To(s, 16, S);
	memset(&r, 0, sizeof r); r.op = "compr"; r.cls = "beltCompr2"; r.in = x; r.inlen = 64; r.out = h; r.outlen = 32; r.tag = s; r.taglen = 16; emit(&r);
	free(stack);
}

static void krp(size_t n, size_t m)
{
	octet* key = rnd(n); octet level[12], hdr[16], out[32]; rec_t r;
	vxRandBuf(level, 12); vxRandBuf(hdr, 16);
	memset(&r, 0, sizeof r); r.op = "krp"; r.key = key; r.klen = n; r.iv = level; r.ivlen = 12; r.hdr = hdr; r.hdrlen = 16;
	r.rc = beltKRP(out, m, key, n, level, hdr); r.out = out; r.outlen = m; emit(&r);
	free(key);
}

static void pbkdf2(size_t plen, size_t slen, size_t iter)
{
	octet* pwd = rnd(plen); octet* salt = rnd(slen); octet out[32]; rec_t r;
	memset(&r, 0, sizeof r); r.op = "pbkdf2"; r.key = pwd; r.klen = plen; r.in = salt; r.inlen = slen; r.iter = (long long)iter;
	r.rc = beltPBKDF2(out, pwd, plen, iter, salt, slen); r.out = out; r.outlen = 32; emit(&r);
	free(pwd); free(salt);
}

/* ---- counters that wrap: the CTR/DWP counter starts at F(S), so S := F^-1(target) */
static void ctrWrap(size_t klen, const octet target[16], size_t len, const char* cls)
{
	octet* key = rnd(klen); octet iv[16]; u32 k[8]; octet* in = rnd(len); octet* out = (octet*)malloc(len); octet tag[8]; rec_t r;
	beltKeyExpand2(k, key, klen); memcpy(iv, target, 16); beltBlockDecr(iv, k);
	memset(&r, 0, sizeof r); r.cls = cls; r.op = "ctr"; r.key = key; r.klen = klen; r.iv = iv; r.ivlen = 16; r.in = in; r.inlen = len;
	r.rc = beltCTR(out, in, len, key, klen, iv); r.out = out; r.outlen = len; emit(&r);
	memset(&r, 0, sizeof r); r.cls = cls; r.op = "dwpW"; r.key = key; r.klen = klen; r.iv = iv; r.ivlen = 16; r.in = in; r.inlen = len; r.hdr = in; r.hdrlen = len > 20 ? 20 : len;
	r.rc = beltDWPWrap(out, tag, in, len, in, r.hdrlen, key, klen, iv); r.out = out; r.outlen = len; r.tag = tag; r.taglen = 8; emit(&r);
	memset(&r, 0, sizeof r); r.cls = cls; r.op = "cheW"; r.key = key; r.klen = klen; r.iv = iv; r.ivlen = 16; r.in = in; r.inlen = len; r.hdr = in; r.hdrlen = len > 20 ? 20 : len;
	r.rc = beltCHEWrap(out, tag, in, len, in, r.hdrlen, key, klen, iv); r.out = out; r.outlen = len; r.tag = tag; r.taglen = 8; emit(&r);
	memset(&r, 0, sizeof r); r.cls = cls; r.op = "bdeE"; r.key = key; r.klen = klen; r.iv = iv; r.ivlen = 16; r.in = in; r.inlen = len & ~(size_t)15;
	r.rc = beltBDEEncr(out, in, r.inlen, key, klen, iv); r.out = out; r.outlen = r.inlen; if (r.inlen >= 16) emit(&r);
	free(key); free(in); free(out);
}

/* ---- length-block arithmetic reached through the linkable helpers (messages >= 2^29 octets
        cannot be hashed here): block <- block + 8 * count */
static void addBitSize(void)
{
	static const unsigned long long counts[] = {0, 1, 31, 0x1FFFFFFFull, 0x20000000ull, 0x20000001ull, 0xFFFFFFFFull,
		0x100000000ull, 0x1FFFFFFFFFFFFFFFull, 0x2000000000000000ull, 0xFFFFFFFFFFFFFFFFull, 0x123456789ABCDEFull};
	static const octet pats[][4] = {{0,0,0,0},{0xFF,0xFF,0xFF,0xFF},{0xF8,0xFF,0xFF,0xFF},{0,0,0,0x80},{1,0,0,0}};
	size_t i, j, w;
	for (i = 0; i < sizeof(counts) / sizeof(counts[0]); ++i)
	for (j = 0; j < 5 * 5; ++j)
	{
		octet blk[16], out[16], cnt[8]; u32 b[4]; word hw[W_OF_B(64)]; rec_t r; unsigned long long c = counts[i];
		for (w = 0; w < 4; ++w) memcpy(blk + 4 * w, pats[(w == 0) ? j % 5 : (w == 1) ? j / 5 : (j + w) % 5], 4);
		if (j == 7) vxRandBuf(blk, 16);
		for (w = 0; w < 8; ++w) cnt[w] = (octet)(c >> (8 * w));
		u32From(b, blk, 16); beltBlockAddBitSizeU32(b, (size_t)c); u32To(out, 16, b);
		memset(&r, 0, sizeof r); r.op = "addBitSizeU32"; r.in = blk; r.inlen = 16; r.hdr = cnt; r.hdrlen = 8; r.out = out; r.outlen = 16; emit(&r);
		wwFrom(hw, blk, 8); beltHalfBlockAddBitSizeW(hw, (size_t)c); wwTo(out, 8, hw);
		memset(&r, 0, sizeof r); r.op = "addBitSizeW"; r.in = blk; r.inlen = 8; r.hdr = cnt; r.hdrlen = 8; r.out = out; r.outlen = 8; emit(&r);
	}
}

static void record(void)
{
	static const size_t L[] = {0, 1, 15, 16, 17, 31, 32, 33, 47, 48, 63, 64, 65, 79, 80, 81, 96, 97, 112, 113, 128, 160, 161};
	size_t i, k, len; char cls[64];
	/* modes x key lengths x length classes; CTS lengths 16..47 all */
	for (k = 0; k < 3; ++k)
	{
		for (i = 0; i < sizeof(L) / sizeof(L[0]); ++i)
			if (g_thorough || i % 3 == k || L[i] <= 48) sprintf(cls, "len=%u", (unsigned)L[i]), oneShots(KL[k], L[i], cls);
		for (len = 16; len <= 47; ++len)
			if (g_thorough || len % 3 == k) sprintf(cls, "cts=%u", (unsigned)len), oneShots(KL[k], len, cls);
		lowLevel(KL[k]); lowLevel(KL[k]);
	}
	/* wide block: every length 32..208 (both sides of the optimised-path switch), three editions */
	for (len = 32; len <= 208; ++len)
		if (g_thorough || len <= 100 || len % 4 == 1 || len % 16 == 0)
			wbl(KL[len % 3], len);
	if (g_thorough) for (len = 209; len <= 600; len += 37) wbl(KL[len % 3], len);
	for (i = 0; i < 6; ++i) compr();
	/* AEAD: data and header lengths straddling the block */
	{
		static const size_t DL[] = {0, 1, 15, 16, 17, 32, 33, 48}, HLn[] = {0, 1, 15, 16, 17, 32, 33};
		size_t a, b;
		for (a = 0; a < 8; ++a) for (b = 0; b < 7; ++b)
			if (g_thorough || (a + b) % 3 == 0 || a < 2 || b < 2)
			{
				sprintf(cls, "x=%u,i=%u", (unsigned)DL[a], (unsigned)HLn[b]);
				aead(0, KL[(a + b) % 3], DL[a], HLn[b], cls); aead(1, KL[(a + 2 * b) % 3], DL[a], HLn[b], cls);
			}
		for (a = 16; a <= 64; a += (g_thorough ? 1 : 7)) sprintf(cls, "kwp=%u", (unsigned)a), kwp(KL[a % 3], a, cls);
	}
	/* key transformation: all (n, m) with m <= n */
	{ size_t n, m; for (n = 0; n < 3; ++n) for (m = 0; m <= n; ++m) krp(KL[n], KL[m]); }
	/* counters wrapping one word, two words, all 128 bits */
	{
		static const octet T[][16] = {
			{0xFF,0xFF,0xFF,0xFF,0xFF,0xFF,0xFF,0xFF,0xFF,0xFF,0xFF,0xFF,0xFF,0xFF,0xFF,0xFF},
			{0xFE,0xFF,0xFF,0xFF,0xFF,0xFF,0xFF,0xFF,0xFF,0xFF,0xFF,0xFF,0xFF,0xFF,0xFF,0xFF},
			{0xFF,0xFF,0xFF,0xFF,0x12,0x34,0x56,0x78,0x9A,0xBC,0xDE,0xF0,0x11,0x22,0x33,0x44},
			{0xFE,0xFF,0xFF,0xFF,0xFF,0xFF,0xFF,0xFF,0x55,0x66,0x77,0x88,0x99,0xAA,0xBB,0xCC},
			{0xFF,0xFF,0xFF,0xFF,0xFF,0xFF,0xFF,0xFF,0xFF,0xFF,0xFF,0xFF,0x01,0x02,0x03,0x04},
			{0x00,0x00,0x00,0x00,0x00,0x00,0x00,0x00,0x00,0x00,0x00,0x00,0x00,0x00,0x00,0x80},
			{0xFF,0xFF,0xFF,0xFF,0xFF,0xFF,0xFF,0xFF,0xFF,0xFF,0xFF,0xFF,0xFF,0xFF,0xFF,0x7F}};
		for (i = 0; i < 7; ++i) sprintf(cls, "ctrwrap=%u", (unsigned)i), ctrWrap(KL[i % 3], T[i], 50, cls);
	}
	addBitSize();
	pbkdf2(8, 8, 1); pbkdf2(0, 0, 2); pbkdf2(33, 40, 3); pbkdf2(70, 17, g_thorough ? 50 : 5);
	/* hash / hmac around the 32-octet block and the key-length switch of HMAC */
	{
		static const size_t HK[] = {0, 1, 31, 32, 33, 64, 65};
		for (i = 0; i < 7; ++i)
		{
			octet* key = rnd(HK[i]); octet* in = rnd(40 + i); octet tag[32]; rec_t r;
			memset(&r, 0, sizeof r); r.cls = "hmac-keylen"; r.op = "hmac"; r.key = key; r.klen = HK[i]; r.in = in; r.inlen = 40 + i;
			r.rc = beltHMAC(tag, in, 40 + i, key, HK[i]); r.out = tag; r.outlen = 32; emit(&r);
			free(key); free(in);
		}
	}
}

/* ---- FMT: values and the block-count table */
static void fmt(u32 mod, size_t count, int maxsym, int noiv)
{
	size_t klen = KL[(mod + count) % 3], i; octet* key = rnd(klen); octet iv[16];
	u16* src = (u16*)malloc(2 * count); u16* dst = (u16*)malloc(2 * count); long long* a = (long long*)malloc(sizeof(long long) * count);
	err_t rc; int dir;
	vxRandBuf(iv, 16); if (noiv) memset(iv, 0, 16);
	for (i = 0; i < count; ++i) src[i] = (u16)(maxsym ? mod - 1 : vxRand64() % mod);
	for (dir = 0; dir < 2; ++dir)
	{
		rc = dir ? beltFMTDecr(dst, mod, src, count, key, klen, noiv ? 0 : iv) : beltFMTEncr(dst, mod, src, count, key, klen, noiv ? 0 : iv);
		jBegin(); jStr("op", dir ? "fmtD" : "fmtE"); jInt("mod", mod); jOct("key", key, klen); jOct("iv", iv, 16);
		for (i = 0; i < count; ++i) a[i] = src[i]; jIntArr("in", a, count);
		for (i = 0; i < count; ++i) a[i] = dst[i]; jIntArr("out", a, count);
		jInt("rc", rc); jEnd();
	}
	free(key); free(src); free(dst); free(a);
}

static size_t fmtB(u32 mod, size_t n)
{	/* block count as exposed by beltFMT_keep: keep(mod, 2n) = base + 8 * (b(mod, n) + 1) */
	static size_t base = 0;
	if (!base) base = beltFMT_keep(2, 2) - 16;
	return (beltFMT_keep(mod, 2 * n) - base) / 8 - 1;
}

#include <math.h>
static void fmtRow(size_t n)
{	/* breakpoints of row n: for every value b of the count, the largest alphabet with count <= b */
	u32 mod; size_t prev = fmtB(2, n);
	for (mod = 3; mod <= 65536; ++mod)
	{
		size_t b = fmtB(mod, n);
		if (b != prev)
		{
			jBegin(); jStr("op", b > prev ? "fmtBreak" : "fmtPoint"); jInt("n", (long long)n); jInt("mod", mod - 1); jInt("b", (long long)prev); jInt("rc", 0); jEnd();
			if (b < prev) { jBegin(); jStr("op", "fmtPoint"); jInt("n", (long long)n); jInt("mod", mod); jInt("b", (long long)b); jInt("rc", 0); jEnd(); }
			prev = b;
		}
	}
	jBegin(); jStr("op", "fmtPoint"); jInt("n", (long long)n); jInt("mod", 65536); jInt("b", (long long)prev); jInt("rc", 0); jEnd();
}

static void fmtTable(void)
{
	size_t n; u32 mod; size_t rows = 0;
	if (g_thorough) { for (n = 1; n <= 300; ++n) fmtRow(n); return; }
	/* quick: a few seeded rows + every pair whose n*log2(mod)/64 is nearly an integer (the
	   selection uses floating point, the decision never does) */
	for (rows = 0; rows < 5; ++rows) fmtRow(1 + vxRandN(300));
	for (n = 1; n <= 300; ++n)
		for (mod = 2; mod <= 65536; ++mod)
		{
			long double x = (long double)n * log2l((long double)mod) / 64.0L, d = fabsl(x - roundl(x));
			if (d < 1e-6L && ((mod & (mod - 1)) != 0 || vxRandN(40) == 0))
			{ jBegin(); jStr("op", "fmtPoint"); jInt("n", (long long)n); jInt("mod", mod); jInt("b", (long long)fmtB(mod, n)); jInt("rc", 0); jEnd(); }
		}
}

static void fmtAll(void)
{
	static const u32 M[] = {2, 3, 10, 16, 255, 256, 257, 1000, 49667, 65535, 65536};
	static const size_t C[] = {2, 3, 4, 5, 8, 9, 10, 11, 16, 17, 20, 21, 22, 43, 44, 319, 320, 599, 600};
	size_t i, j;
	for (i = 0; i < sizeof(M) / sizeof(M[0]); ++i) for (j = 0; j < sizeof(C) / sizeof(C[0]); ++j)
	{
		if (!g_thorough && C[j] > 44 && (i + j) % 4) continue;
		if (!g_thorough && C[j] <= 44 && (i + j) % 2 && C[j] > 5) continue;
		fmt(M[i], C[j], 0, 0);
		if ((i + j) % 5 == 0) fmt(M[i], C[j], 1, (i + j) % 10 == 0);
	}
	fmtTable();
}

/* ---- replay direction: execute cases generated by TLC (spec/gen/Gen_Belt.tla); stdin lines
        "x op=<op> key=x.. iv=x.. in=x.. hdr=x.. tag=x.. m=<outlen>"; prints record-format lines */
static int execMain(void)
{
	static char line[1 << 20]; vx_cmd c;
	while (fgets(line, sizeof line, stdin))
	{
		const char* op; size_t klen, ivlen, len, hlen, tlen, m; octet *key, *iv, *in, *hdr, *tag, *out; octet t8[32]; rec_t r;
		void* st;
		if (!vxParse(&c, line)) continue;
		op = vxArg(&c, "op"); if (!op) continue;
		key = vxHex(&c, "key", &klen); iv = vxHex(&c, "iv", &ivlen); in = vxHex(&c, "in", &len);
		hdr = vxHex(&c, "hdr", &hlen); tag = vxHex(&c, "tag", &tlen); m = (size_t)vxInt(&c, "m", 32);
		out = (octet*)malloc(len + 32);
		memset(&r, 0, sizeof r); r.op = op; r.cls = "exec"; r.key = key; r.klen = klen;
		if (iv) r.iv = iv, r.ivlen = ivlen;
		if (in) r.in = in, r.inlen = len;
		if (hdr) r.hdr = hdr, r.hdrlen = hlen;
		r.out = out; r.outlen = len;
#define X6(nm) r.rc = nm(out, in, len, key, klen, iv)
		if (!strcmp(op, "ecbE")) r.rc = beltECBEncr(out, in, len, key, klen);
		else if (!strcmp(op, "ecbD")) r.rc = beltECBDecr(out, in, len, key, klen);
		else if (!strcmp(op, "cbcE")) X6(beltCBCEncr); else if (!strcmp(op, "cbcD")) X6(beltCBCDecr);
		else if (!strcmp(op, "cfbE")) X6(beltCFBEncr); else if (!strcmp(op, "cfbD")) X6(beltCFBDecr);
		else if (!strcmp(op, "ctr")) X6(beltCTR);
		else if (!strcmp(op, "bdeE")) X6(beltBDEEncr); else if (!strcmp(op, "bdeD")) X6(beltBDEDecr);
		else if (!strcmp(op, "sdeE")) X6(beltSDEEncr); else if (!strcmp(op, "sdeD")) X6(beltSDEDecr);
		else if (!strcmp(op, "mac")) { r.rc = beltMAC(out, in, len, key, klen); r.outlen = 8; }
		else if (!strcmp(op, "hash")) { r.rc = beltHash(out, in, len); r.outlen = 32; r.key = 0; }
		else if (!strcmp(op, "hmac")) { r.rc = beltHMAC(out, in, len, key, klen); r.outlen = 32; }
		else if (!strcmp(op, "kwpW")) { r.rc = beltKWPWrap(out, in, len, hdr, key, klen); r.outlen = len + 16; }
		else if (!strcmp(op, "kwpU")) { r.rc = beltKWPUnwrap(out, in, len, hdr, key, klen); r.outlen = len - 16; }
		else if (!strcmp(op, "dwpW")) { r.rc = beltDWPWrap(out, t8, in, len, hdr, hlen, key, klen, iv); r.tag = t8; r.taglen = 8; }
		else if (!strcmp(op, "cheW")) { r.rc = beltCHEWrap(out, t8, in, len, hdr, hlen, key, klen, iv); r.tag = t8; r.taglen = 8; }
		else if (!strcmp(op, "dwpU")) { r.rc = beltDWPUnwrap(out, in, len, hdr, hlen, tag, key, klen, iv); r.tag = tag; r.taglen = tlen; }
		else if (!strcmp(op, "cheU")) { r.rc = beltCHEUnwrap(out, in, len, hdr, hlen, tag, key, klen, iv); r.tag = tag; r.taglen = tlen; }
		else if (!strcmp(op, "krp")) { r.rc = beltKRP(out, m, key, klen, iv, hdr); r.outlen = m; }
		else if (!strcmp(op, "wblE") || !strcmp(op, "wblD"))
		{
			st = malloc(beltWBL_keep()); beltWBLStart(st, key, klen); memcpy(out, in, len);
			if (op[3] == 'E') beltWBLStepE(out, len, st); else beltWBLStepD(out, len, st);
			free(st);
		}
		else if (!strcmp(op, "blockE") || !strcmp(op, "blockD"))
		{
			u32 k[8]; beltKeyExpand2(k, key, klen); memcpy(out, in, 16);
			if (op[5] == 'E') beltBlockEncr(out, k); else beltBlockDecr(out, k);
		}
		else { fprintf(stderr, "unknown op %s\n", op); return 3; }
		emit(&r);
		free(key); free(iv); free(in); free(hdr); free(tag); free(out);
	}
	return 0;
}

/* implemented in drv_belt_steps.c */
int stepsMain(void);
int overlapMain(void);
int msgsMain(void);
int ovstateMain(void);

int main(int argc, char** argv)
{
	const char* mode = argc > 1 ? argv[1] : "record";
	vxSeed(vxEnvSeed());
	g_thorough = argc > 2 && strcmp(argv[2], "thorough") == 0;
	if (strcmp(mode, "record") == 0) record();
	else if (strcmp(mode, "fmt") == 0) fmtAll();
	else if (strcmp(mode, "exec") == 0) return execMain();
	else if (strcmp(mode, "steps") == 0) return stepsMain();
	else if (strcmp(mode, "overlap") == 0) return overlapMain();
	else if (strcmp(mode, "msgs") == 0) return msgsMain();
	else if (strcmp(mode, "ovstate") == 0) return ovstateMain();
	return 0;
}
