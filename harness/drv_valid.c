/* C12 driver: validators of parameters, keys, dates, primes and polynomials.
   usage: drv_valid std                       dump every standard parameter set (one ndjson line each)
          drv_valid record <quick|thorough> [family ...]   families: date pri pp seed  (default all)
          drv_valid exec                      commands on stdin ("op k=v ..."), one ndjson line per command
   Record lines are recomputed by spec/trace/Trace_Valid.tla.  Structure (classes, windows, positions) is
   enumerated here; only data octets come from VERIF_SEED.  Numbers travel as little-endian octet arrays
   (BigNat!FromOctets) or 16-bit limb arrays (GF2Poly values), small values as JSON ints.
   Exec commands: every argument is echoed into the output line (x... values as octet arrays, others as
   ints or strings), so that a line is self-contained for TLC: the generator (checks/suite_valid.py) attaches
   the condition it perturbed and the certificate (factor, remainder, Pocklington nodes) as extra arguments.
   All states/stacks handed to the library are malloc'ed at exactly the documented _keep()/_deep() size. */
#include "vx.h"
#include <signal.h>
#include <setjmp.h>
#include <unistd.h>
#include <bee2/core/mem.h>
#include <bee2/core/err.h>
#include <bee2/core/util.h>
#include <bee2/core/tm.h>
#include <bee2/core/prng.h>
#include <bee2/math/ww.h>
#include <bee2/math/zz.h>
#include <bee2/math/pp.h>
#include <bee2/math/pri.h>
#include <bee2/math/gfp.h>
#include <bee2/math/ec.h>
#include <bee2/math/ecp.h>
#include <bee2/crypto/bign.h>
#include <bee2/crypto/bign96.h>
#include <bee2/crypto/g12s.h>
#include <bee2/crypto/stb99.h>
#include <bee2/crypto/dstu.h>
#include <bee2/crypto/pfok.h>
#include <bee2/crypto/bels.h>
#include <bee2/crypto/belt.h>

static int THOROUGH = 0;

/* exact-size scratch: the library sees a block of precisely the documented size */
static void* xalloc(size_t n) { void* p = malloc(n ? n : 1); if (!p) { fprintf(stderr, "oom\n"); exit(3); } return p; }

/* hang guard for calls that may not terminate (logged as "hang":1, judged by the spec as a wrong answer) */
static sigjmp_buf g_jmp;
static volatile int g_armed = 0;
static void on_alarm(int s) { (void)s; if (g_armed) siglongjmp(g_jmp, 1); }
#define GUARDED(secs, call, hung) do { hung = 0; g_armed = 1; if (sigsetjmp(g_jmp, 1) == 0) { alarm(secs); call; alarm(0); } \
	else hung = 1; g_armed = 0; } while (0)

/* ------------------------------------------------------------------ standard parameter sets */
static const char* BIGN_NAMES[] = { "1.2.112.0.2.0.34.101.45.3.1", "1.2.112.0.2.0.34.101.45.3.2", "1.2.112.0.2.0.34.101.45.3.3" };
static const char* BIGN96_NAMES[] = { "1.2.112.0.2.0.34.101.45.3.0" };
static const char* G12S_NAMES[] = { "1.2.643.2.2.35.0", "1.2.643.2.2.35.1", "1.2.643.2.2.35.2", "1.2.643.2.2.35.3",
	"1.2.643.2.9.1.8.1", "1.2.643.7.1.2.1.2.0", "1.2.643.7.1.2.1.2.1", "1.2.643.7.1.2.1.2.2" };
static const char* STB99_NAMES[] = { "test", "1.2.112.0.2.0.1176.2.3.3.1", "1.2.112.0.2.0.1176.2.3.6.1", "1.2.112.0.2.0.1176.2.3.10.1" };
static const char* PFOK_NAMES[] = { "test", "1.2.112.0.2.0.1176.2.3.3.2", "1.2.112.0.2.0.1176.2.3.6.2", "1.2.112.0.2.0.1176.2.3.10.2" };
static const char* DSTU_NAMES[] = { "1.2.804.2.1.1.1.1.3.1.1.1.2.0", "1.2.804.2.1.1.1.1.3.1.1.1.2.1", "1.2.804.2.1.1.1.1.3.1.1.1.2.2",
	"1.2.804.2.1.1.1.1.3.1.1.1.2.3", "1.2.804.2.1.1.1.1.3.1.1.1.2.4", "1.2.804.2.1.1.1.1.3.1.1.1.2.5", "1.2.804.2.1.1.1.1.3.1.1.1.2.6",
	"1.2.804.2.1.1.1.1.3.1.1.1.2.7", "1.2.804.2.1.1.1.1.3.1.1.1.2.8", "1.2.804.2.1.1.1.1.3.1.1.1.2.9" };

static void jSizes(const char* k, const size_t* a, size_t n)
{
	long long t[64]; size_t i; for (i = 0; i < n && i < 64; ++i) t[i] = (long long)a[i]; jIntArr(k, t, n);
}
static void jU16s(const char* k, const u16* a, size_t n)
{
	long long t[64]; size_t i; for (i = 0; i < n && i < 64; ++i) t[i] = a[i]; jIntArr(k, t, n);
}

static void putBign(const bign_params* p)
{
	size_t no = p->l == 96 ? 24 : p->l / 4;
	jInt("l", (long long)p->l); jOct("p", p->p, no); jOct("a", p->a, no); jOct("b", p->b, no); jOct("q", p->q, no);
	jOct("yG", p->yG, no); jOct("seed", p->seed, 8);
}
static void putG12s(const g12s_params* p)
{
	size_t no = memNonZeroSize(p->p, G12S_FIELD_SIZE * p->l / 512);
	jInt("l", p->l); jOct("p", p->p, no); jOct("a", p->a, no); jOct("b", p->b, no); jOct("q", p->q, p->l / 8);
	jInt("n", p->n); jOct("xP", p->xP, no); jOct("yP", p->yP, no);
}
static void putStb99(const stb99_params* p)
{
	jInt("l", (long long)p->l); jInt("r", (long long)p->r); jOct("p", p->p, O_OF_B(p->l)); jOct("q", p->q, O_OF_B(p->r));
	jOct("a", p->a, O_OF_B(p->l)); jOct("d", p->d, O_OF_B(p->l));
}
static void putStb99Seed(const stb99_seed* s)
{
	jInt("l", (long long)s->l); jU16s("zi", s->zi, 31); jSizes("di", s->di, 18); jSizes("ri", s->ri, 10);
}
static void putPfok(const pfok_params* p)
{
	jInt("l", (long long)p->l); jInt("r", (long long)p->r); jInt("n", (long long)p->n);
	jOct("p", p->p, O_OF_B(p->l)); jOct("g", p->g, O_OF_B(p->l));
}
static void putPfokSeed(const pfok_seed* s)
{
	jInt("l", (long long)s->l); jU16s("zi", s->zi, 31); jSizes("li", s->li, 20);
}
static void putDstu(const dstu_params* p)
{
	long long pp[4]; size_t no = O_OF_B(p->p[0]);
	pp[0] = p->p[0]; pp[1] = p->p[1]; pp[2] = p->p[2]; pp[3] = p->p[3];
	jIntArr("f", pp, 4); jInt("A", p->A); jOct("B", p->B, no); jOct("n", p->n, no); jInt("c", p->c);
	jOct("Px", p->P, no); jOct("Py", p->P + no, no);
}

/* bignParamsGen walked over its first seeds: on_seed() records every seed it is handed and interrupts the generation
   (bign.h: an error code of on_seed() ends the computation with that code) once `max` seeds have been processed;
   calc_q() records (seed, b) and answers ERR_NO_RESULT (bign.h: the generation moves to the next seed) */
typedef struct { size_t nseed, ncalc, max; octet seeds[8][8]; octet cseed[8][8]; octet cb[8][64]; } pgen_st;
static err_t pgOnSeed(const bign_params* p, void* st)
{
	pgen_st* s = (pgen_st*)st;
	if (s->nseed == s->max) return ERR_MAX;
	memcpy(s->seeds[s->nseed++], p->seed, 8); return ERR_OK;
}
static err_t pgCalcQ(bign_params* p, void* st)
{
	pgen_st* s = (pgen_st*)st;
	if (s->ncalc < 8) { memcpy(s->cseed[s->ncalc], p->seed, 8); memcpy(s->cb[s->ncalc], p->b, 64); ++s->ncalc; }
	return ERR_NO_RESULT;
}
static void jOcts8(const char* k, octet a[][8], size_t n)
{
	size_t i, j; jSep(); fprintf(vx_out, "\"%s\":[", k);
	for (i = 0; i < n; ++i) { fprintf(vx_out, "%s[", i ? "," : ""); for (j = 0; j < 8; ++j) fprintf(vx_out, "%s%u", j ? "," : "", a[i][j]); fputc(']', vx_out); }
	fputc(']', vx_out);
}

static void doStd(void)
{
	size_t i;
	for (i = 0; i < COUNT_OF(BIGN_NAMES); ++i)
	{
		bign_params p[1]; err_t e = bignParamsStd(p, BIGN_NAMES[i]);
		jBegin(); jStr("op", "std"); jStr("scheme", "bign"); jStr("name", BIGN_NAMES[i]); jInt("rcStd", e); putBign(p);
		jInt("rc", bignParamsVal(p)); jEnd();
	}
	for (i = 0; i < COUNT_OF(BIGN96_NAMES); ++i)
	{
		bign_params p[1]; err_t e = bign96ParamsStd(p, BIGN96_NAMES[i]);
		jBegin(); jStr("op", "std"); jStr("scheme", "bign96"); jStr("name", BIGN96_NAMES[i]); jInt("rcStd", e); putBign(p);
		jInt("rc", bign96ParamsVal(p)); jEnd();
	}
	for (i = 0; i < COUNT_OF(G12S_NAMES); ++i)
	{
		g12s_params p[1]; err_t e = g12sParamsStd(p, G12S_NAMES[i]);
		jBegin(); jStr("op", "std"); jStr("scheme", "g12s"); jStr("name", G12S_NAMES[i]); jInt("rcStd", e); putG12s(p);
		jInt("rc", g12sParamsVal(p)); jEnd();
	}
	for (i = 0; i < COUNT_OF(STB99_NAMES); ++i)
	{
		stb99_params p[1]; stb99_seed s[1]; err_t e = stb99ParamsStd(p, s, STB99_NAMES[i]);
		jBegin(); jStr("op", "std"); jStr("scheme", "stb99"); jStr("name", STB99_NAMES[i]); jInt("rcStd", e); putStb99(p);
		jInt("rc", stb99ParamsVal(p)); jEnd();
		jBegin(); jStr("op", "std"); jStr("scheme", "stb99seed"); jStr("name", STB99_NAMES[i]); jInt("rcStd", e); putStb99Seed(s);
		jInt("rc", stb99SeedVal(s)); jEnd();
	}
	for (i = 0; i < COUNT_OF(PFOK_NAMES); ++i)
	{
		pfok_params p[1]; pfok_seed s[1]; err_t e = pfokParamsStd(p, s, PFOK_NAMES[i]);
		jBegin(); jStr("op", "std"); jStr("scheme", "pfok"); jStr("name", PFOK_NAMES[i]); jInt("rcStd", e); putPfok(p);
		jInt("rc", pfokParamsVal(p)); jEnd();
		jBegin(); jStr("op", "std"); jStr("scheme", "pfokseed"); jStr("name", PFOK_NAMES[i]); jInt("rcStd", e); putPfokSeed(s);
		jInt("rc", pfokSeedVal(s)); jEnd();
	}
	for (i = 0; i < COUNT_OF(DSTU_NAMES); ++i)
	{
		dstu_params p[1]; err_t e = dstuParamsStd(p, DSTU_NAMES[i]);
		jBegin(); jStr("op", "std"); jStr("scheme", "dstu"); jStr("name", DSTU_NAMES[i]); jInt("rcStd", e); putDstu(p);
		jEnd();
	}
	{
		size_t len, num;
		for (len = 16; len <= 32; len += 8)
			for (num = 0; num <= 16; ++num)
			{
				octet m[32]; err_t e = belsStdM(m, len, num);
				jBegin(); jStr("op", "std"); jStr("scheme", "bels"); jInt("len", (long long)len); jInt("num", (long long)num);
				jInt("rcStd", e); jOct("m", m, len); jInt("rc", belsValM(m, len)); jEnd();
			}
	}
}


/* ------------------------------------------------------------------ helpers */
static size_t PRI_W16;      /* words per 16 bits are not integral: all numbers travel as octets */
static void putNum(const char* k, const word* a, size_t n)
{
	octet* o = (octet*)xalloc(O_OF_W(n)); wwTo(o, O_OF_W(n), a); jOct(k, o, O_OF_W(n)); free(o);
}
static void jResBegin(const char* k) { jSep(); fprintf(vx_out, "\"%s\":[", k); }
static void jResPut(size_t i, int v) { fprintf(vx_out, i ? ",%d" : "%d", v); }
static void jResEnd(void) { fputc(']', vx_out); }

/* ------------------------------------------------------------------ record: dates */
static void recDate(void)
{
	size_t yy, v, pos, i;
	/* all 10^6 digit strings: one line per YY, results indexed by the four digits of MMDD */
	for (yy = 0; yy < 100; ++yy)
	{
		octet* d = (octet*)xalloc(6);
		jBegin(); jStr("op", "dateYY"); d[0] = (octet)(yy / 10); d[1] = (octet)(yy % 10); jOct("yy", d, 2);
		jResBegin("res");
		for (v = 0; v < 10000; ++v)
		{
			d[2] = (octet)(v / 1000); d[3] = (octet)(v / 100 % 10); d[4] = (octet)(v / 10 % 10); d[5] = (octet)(v % 10);
			jResPut(v, tmDateIsValid2(d) ? 1 : 0);
		}
		jResEnd(); jEnd(); free(d);
	}
	/* every non-digit octet value at each position, the other positions from base dates (valid ones, one seeded) */
	{
		octet bases[5][6] = { {0,0,0,1,0,1}, {2,4,0,2,2,9}, {9,9,1,2,3,1}, {0,1,0,1,0,1}, {0,0,0,0,0,0} };
		size_t b, yr = vxRandN(100), mo = 1 + vxRandN(12), dy = 1 + vxRandN(28);
		bases[4][0] = (octet)(yr / 10); bases[4][1] = (octet)(yr % 10); bases[4][2] = (octet)(mo / 10); bases[4][3] = (octet)(mo % 10);
		bases[4][4] = (octet)(dy / 10); bases[4][5] = (octet)(dy % 10);
		for (b = 0; b < 5; ++b)
			for (pos = 0; pos < 6; ++pos)
			{
				octet* d = (octet*)xalloc(6);
				jBegin(); jStr("op", "dateND"); jInt("pos", (long long)pos); jOct("base", bases[b], 6);
				jResBegin("res");
				for (v = 10; v < 256; ++v)
				{
					memcpy(d, bases[b], 6); d[pos] = (octet)v;
					jResPut(v - 10, tmDateIsValid2(d) ? 1 : 0);
				}
				jResEnd(); jEnd(); free(d);
			}
		/* two non-digit positions at once: (pos, pos+1) with the value pairs that alias a valid field (10 a + b) */
		for (pos = 0; pos < 6; pos += 2)
		{
			octet* d = (octet*)xalloc(6); size_t a, c;
			jBegin(); jStr("op", "dateND2"); jInt("pos", (long long)pos); jOct("base", bases[1], 6);
			jResBegin("res");
			for (a = 0, i = 0; a < 16; ++a)
				for (c = 0; c < 32; ++c, ++i)
				{
					memcpy(d, bases[1], 6); d[pos] = (octet)a; d[pos + 1] = (octet)c;
					jResPut(i, tmDateIsValid2(d) ? 1 : 0);
				}
			jResEnd(); jEnd(); free(d);
		}
	}
	/* tmDateIsValid(y, m, d): year classes x months 0..13 x days 0..32 */
	{
		static const unsigned long long YS[] = { 0, 1, 4, 100, 400, 1500, 1581, 1582, 1583, 1584, 1600, 1700, 1800, 1900, 1999, 2000, 2001,
			2004, 2023, 2024, 2096, 2099, 2100, 2104, 2200, 2300, 2400, 9999, 10000, 65535, 65536, 400000, 2147483647ull, 2147483648ull,
			4294967295ull, 4294967296ull, 4294967696ull, 18446744073709551215ull, 18446744073709551615ull };
		size_t k, m, dd; unsigned long long seeded[3];
		seeded[0] = 1583 + vxRandN(1000); seeded[1] = 2000 + 4 * vxRandN(100); seeded[2] = vxRand64() | 1;
		for (k = 0; k < COUNT_OF(YS) + 3; ++k)
		{
			unsigned long long y = k < COUNT_OF(YS) ? YS[k] : seeded[k - COUNT_OF(YS)];
			octet yo[8]; size_t j;
			if (sizeof(size_t) < 8 && y > 0xFFFFFFFFull) continue;
			for (j = 0; j < 8; ++j) yo[j] = (octet)(y >> (8 * j));
			jBegin(); jStr("op", "dateYMD"); jOct("y", yo, 8);
			jResBegin("res");
			for (m = 0, i = 0; m < 14; ++m)
				for (dd = 0; dd < 33; ++dd, ++i)
					jResPut(i, tmDateIsValid((size_t)y, m, dd) ? 1 : 0);
			jResEnd(); jEnd();
		}
		/* large months / days */
		{
			static const size_t BIG[] = { 13, 32, 255, 256, 257, 65536 + 1, 0x80000001u, (size_t)-1, (size_t)-30, ((size_t)-1) / 2 + 2 };
			for (k = 0; k < COUNT_OF(BIG); ++k)
			{
				octet mo[8], dO[8]; size_t j;
				for (j = 0; j < 8; ++j) mo[j] = (octet)((unsigned long long)BIG[k] >> (8 * j));
				jBegin(); jStr("op", "dateBig"); jOct("m", mo, 8); jInt("rm", tmDateIsValid(2024, BIG[k], 1)); jInt("rd", tmDateIsValid(2024, 1, BIG[k])); jEnd();
				(void)dO;
			}
		}
	}
}

/* ------------------------------------------------------------------ record: primes */
static int isPrimeW(word a)
{
	void* st = xalloc(priIsPrimeW_deep()); int r = priIsPrimeW(a, st); free(st); return r;
}
static int isPrimeN(const word* a, size_t n)
{
	void* st = xalloc(priIsPrime_deep(n)); int r = priIsPrime(a, n, st); free(st); return r;
}
/* window [base, base + cnt): priIsPrimeW, priIsPrime (nn words), priNextPrimeW, priNextPrime (nn words, bc base primes)
   on every number of the window; next primes as offsets from base (-1: none).  margin tells the specification how far
   beyond the window its table of primes has to reach (larger than any prime gap in the range). */
static void window(const char* cls, unsigned long long base, size_t cnt, size_t margin, size_t nn, size_t bc)
{
	size_t i; const size_t iter = 20;
	long long* nw = (long long*)xalloc(cnt * sizeof(long long)); long long* nN = (long long*)xalloc(cnt * sizeof(long long));
	jBegin(); jStr("op", "win"); jStr("cls", cls);
	{ octet b[8]; size_t j; for (j = 0; j < 8; ++j) b[j] = (octet)(base >> (8 * j)); jOct("a", b, 8); }
	jInt("margin", margin == (size_t)-1 ? 0 : (long long)margin); jInt("nn", (long long)nn); jInt("bc", (long long)bc); jInt("iter", (long long)iter);
	jResBegin("resW");
	for (i = 0; i < cnt; ++i) jResPut(i, isPrimeW((word)(base + i)));
	jResEnd();
	jResBegin("resN");
	for (i = 0; i < cnt; ++i)
	{
		word* w = (word*)xalloc(O_OF_W(nn)); memset(w, 0, O_OF_W(nn)); w[0] = (word)(base + i);
		jResPut(i, isPrimeN(w, nn)); free(w);
	}
	jResEnd();
	for (i = 0; i < cnt; ++i)
	{
		word p[1]; void* st = xalloc(priNextPrimeW_deep()); int r;
		p[0] = 0; r = priNextPrimeW(p, (word)(base + i), st); free(st);
		nw[i] = r ? (long long)((unsigned long long)p[0] - base) : -1ll;
	}
	if (margin != (size_t)-1) jIntArr("nextW", nw, cnt);
	for (i = 0; margin != (size_t)-1 && i < cnt; ++i)
	{
		word* a = (word*)xalloc(O_OF_W(nn)); word* p = (word*)xalloc(O_OF_W(nn)); void* st = xalloc(priNextPrime_deep(nn, bc)); int r;
		memset(a, 0, O_OF_W(nn)); memset(p, 0, O_OF_W(nn)); a[0] = (word)(base + i);
		r = priNextPrime(p, a, nn, SIZE_MAX, bc, iter, st);
		nN[i] = r ? (long long)((unsigned long long)p[0] - base) : -1ll;
		if (r && nn > 1 && p[1]) nN[i] = -2;
		free(st); free(p); free(a);
	}
	if (margin != (size_t)-1) jIntArr("nextN", nN, cnt);
	jEnd(); free(nw); free(nN);
}
/* a few starts in a sparse range: priNextPrimeW / priNextPrime on seeded starts */
static void nextSeeded(const char* cls, unsigned long long a0, size_t nn, size_t bc)
{
	word p[1]; void* st = xalloc(priNextPrimeW_deep()); int r; octet b[8]; size_t j;
	word* a = (word*)xalloc(O_OF_W(nn)); word* q = (word*)xalloc(O_OF_W(nn)); void* st2 = xalloc(priNextPrime_deep(nn, bc));
	for (j = 0; j < 8; ++j) b[j] = (octet)(a0 >> (8 * j));
	p[0] = 0; r = priNextPrimeW(p, (word)a0, st); free(st);
	jBegin(); jStr("op", "nextPrime"); jStr("cls", cls); jStr("f", "priNextPrimeW"); jOct("a", b, 8); jInt("w", 1); putNum("p", p, 1);
	jInt("found", r); jInt("hang", 0); jEnd();
	memset(a, 0, O_OF_W(nn)); memset(q, 0, O_OF_W(nn)); a[0] = (word)a0;
	r = priNextPrime(q, a, nn, SIZE_MAX, bc, 20, st2);
	jBegin(); jStr("op", "nextPrime"); jStr("cls", cls); jStr("f", "priNextPrime"); jOct("a", b, 8); jInt("nwords", (long long)nn); jInt("base", (long long)bc);
	putNum("p", q, nn); jInt("found", r); jInt("hang", 0); jEnd();
	free(st2); free(q); free(a);
}
static void recPri(void)
{
	size_t k; unsigned long long b;
	static const size_t BC[4] = { 0, 10, 100, 1024 };
	/* exhaustive [0, 2^16); word counts 1 / 2 and factor-base sizes cycle over the lines */
	for (b = 0, k = 0; b < 65536; b += 256, ++k) window("lo16", b, 256, 100, 1 + (k & 1), BC[(k >> 1) & 3]);
#if (B_PER_W >= 64)
	{
		unsigned long long half = THOROUGH ? 8192 : 256;
		for (b = 4294967296ull - half; b < 4294967296ull + half; b += 256, ++k) window("at32", b, 256, 400, 1 + (k & 1), BC[(k >> 1) & 3]);
		/* seeded numbers in the 33..40-bit and 63-bit ranges (the oracle needs up to 12 bases up there) */
		for (k = 0; k < (THOROUGH ? 8u : 2u); ++k)
		{
			b = (1ull << (33 + vxRandN(7))) + (vxRand64() & 0xFFFFFFFFull);
			window("seeded40", b, 32, (size_t)-1, 1 + (k & 1), BC[k & 3]); nextSeeded("seeded40", b + 1, 1 + (k & 1), BC[(k + 1) & 3]);
		}
		for (k = 0; k < (THOROUGH ? 6u : 1u); ++k)
		{
			b = (1ull << 62) + (vxRand64() >> 3);
			window("seeded63", b, 16, (size_t)-1, 1, BC[k & 3]); nextSeeded("seeded63", b + 1, 1 + (k & 1), BC[(k + 2) & 3]);
		}
		/* the top of the word: the search must stop at the bit length, not wrap */
		window("top64", 18446744073709551615ull - 31, 32, 0, 1, 10);
	}
#else
	{
		unsigned long long half = THOROUGH ? 8192 : 256;
		for (b = 4294967296ull - half; b < 4294967296ull; b += 256, ++k) window("at32", b, 256, 400, 1 + (k & 1), BC[(k >> 1) & 3]);
	}
#endif
}

/* ------------------------------------------------------------------ record: binary polynomials */
static void recPP(void)
{
	unsigned long long b; size_t i, k;
	/* all polynomials of degree <= 12 (and 13 in the thorough tier) */
	for (b = 0; b < (THOROUGH ? 16384u : 8192u); b += 256)
	{
		jBegin(); jStr("op", "irredWin"); jInt("a", (long long)b); jResBegin("res");
		for (i = 0; i < 256; ++i)
		{
			size_t n = (i % 3 == 2) ? 2 : 1;       /* also with a leading zero word */
			word* a = (word*)xalloc(O_OF_W(n)); void* st = xalloc(ppIsIrred_deep(n)); int r;
			memset(a, 0, O_OF_W(n)); a[0] = (word)(b + i);
			r = ppIsIrred(a, n, st); free(st); free(a);
			jResPut(i, r);
		}
		jResEnd(); jEnd();
	}
	/* seeded polynomials of degree 128 / 192 / 256: x^l + m(x) as belsValM sees them, through ppIsIrred and belsValM */
	for (k = 0; k < 3; ++k)
	{
		size_t len = 16 + 8 * k, cnt = THOROUGH ? 160 : 16, j;
		for (j = 0; j < cnt; ++j)
		{
			octet* m = (octet*)xalloc(len); size_t n = W_OF_O(len) + 1; word* a = (word*)xalloc(O_OF_W(n));
			void* st = xalloc(ppIsIrred_deep(n)); int r; err_t e;
			vxRandBuf(m, len);
			if (j % 4 == 0) m[0] |= 1;                       /* constant term present (otherwise x divides) */
			if (j % 8 == 1) { memset(m + 4, 0, len - 4); }   /* short keys like the standard ones */
			wwFrom(a, m, len); a[n - 1] = 1;
			r = ppIsIrred(a, n, st); e = belsValM(m, len);
			jBegin(); jStr("op", "belsValM"); jInt("len", (long long)len); jOct("m", m, len); jInt("irred", r); jInt("rc", e); jEnd();
			free(st); free(a); free(m);
		}
	}
}

/* ------------------------------------------------------------------ exec */
static long long clip31(unsigned long long v) { return v > 2147483647ull ? 2147483647ll : (long long)v; }
static int isHex(const char* v) { if (*v != 'x') return 0; for (++v; *v; ++v) if (!isxdigit((unsigned char)*v)) return 0; return 1; }
static int isDec(const char* v) { if (*v == '-') ++v; if (!*v) return 0; for (; *v; ++v) if (!isdigit((unsigned char)*v)) return 0; return 1; }
static int isList(const char* v) { int c = 0; if (!*v) return 0; for (; *v; ++v) { if (*v == ',') c = 1; else if (!isdigit((unsigned char)*v)) return 0; } return c; }
static void echoArgs(const vx_cmd* c)
{
	int i;
	for (i = 0; i < c->n; ++i)
	{
		const char* k = c->k[i]; const char* v = c->v[i];
		if (isHex(v)) { size_t n; octet* b = vxHex(c, k, &n); jOct(k, b, n); free(b); }
		else if (isDec(v) && strlen(v) < 10) jInt(k, strtoll(v, 0, 10));
		else if (isList(v) || (isDec(v) && strlen(v) >= 10))
		{
			/* list of naturals; values above 2^31 - 1 are clipped (TLC integers), which no rule of the specifications accepts */
			const char* q = v; int first = 1; jSep(); fprintf(vx_out, "\"%s\":[", k);
			while (*q) { unsigned long long t = strtoull(q, (char**)&q, 10); fprintf(vx_out, first ? "%lld" : ",%lld", clip31(t)); first = 0; if (*q == ',') ++q; }
			fputc(']', vx_out);
		}
		else if (*v == '[' || *v == '{') { jSep(); fprintf(vx_out, "\"%s\":%s", k, v); }
		else jStr(k, v);
	}
}
/* field: hex argument copied into a zeroed buffer of cap octets */
static void fld(octet* dst, size_t cap, const vx_cmd* c, const char* k)
{
	size_t n; octet* b = vxHex(c, k, &n); memset(dst, 0, cap);
	if (b) { memcpy(dst, b, n < cap ? n : cap); free(b); }
}
/* list of unsigned values "1,2,3" (values above SIZE_MAX saturate); returns count */
static size_t lst(unsigned long long* dst, size_t cap, const vx_cmd* c, const char* k)
{
	const char* v = vxArg(c, k); size_t n = 0;
	memset(dst, 0, cap * sizeof(*dst));
	if (!v) return 0;
	while (*v && n < cap) { dst[n++] = strtoull(v, (char**)&v, 10); if (*v == ',') ++v; }
	return n;
}
/* number of words of the operand: the length of its hex argument (octets, zero octets included), at least one word */
static size_t numWords(const vx_cmd* c, const char* k)
{
	const char* v = vxArg(c, k); size_t no = v ? (strlen(v) - (*v == 'x')) / 2 : 0; size_t n = W_OF_O(no);
	return n ? n : 1;
}
static word* numArg(const vx_cmd* c, const char* k, size_t n)
{
	size_t len; octet* b = vxHex(c, k, &len); word* w = (word*)xalloc(O_OF_W(n ? n : 1)); octet* t = (octet*)xalloc(O_OF_W(n) + 1);
	memset(t, 0, O_OF_W(n) + 1); if (b) memcpy(t, b, len < O_OF_W(n) ? len : O_OF_W(n));
	wwFrom(w, t, O_OF_W(n)); free(t); free(b); return w;
}
static void jClipArr(const char* k, const size_t* a, size_t n)
{
	long long t[64]; size_t i; for (i = 0; i < n; ++i) t[i] = clip31(a[i]); jIntArr(k, t, n);
}
static void loadBign(bign_params* p, const vx_cmd* c)
{
	memset(p, 0, sizeof(*p)); p->l = (size_t)vxInt(c, "l", 128);
	fld(p->p, 64, c, "p"); fld(p->a, 64, c, "a"); fld(p->b, 64, c, "b"); fld(p->q, 64, c, "q"); fld(p->yG, 64, c, "yG"); fld(p->seed, 8, c, "seed");
}
static void loadG12s(g12s_params* p, const vx_cmd* c)
{
	memset(p, 0, sizeof(*p)); p->l = (u32)vxInt(c, "l", 256); p->n = (u32)vxInt(c, "n", 1);
	fld(p->p, G12S_FIELD_SIZE, c, "p"); fld(p->a, G12S_FIELD_SIZE, c, "a"); fld(p->b, G12S_FIELD_SIZE, c, "b");
	fld(p->q, G12S_ORDER_SIZE, c, "q"); fld(p->xP, G12S_FIELD_SIZE, c, "xP"); fld(p->yP, G12S_FIELD_SIZE, c, "yP");
}
static void loadStb99(stb99_params* p, const vx_cmd* c)
{
	memset(p, 0, sizeof(*p)); p->l = (size_t)vxInt(c, "l", 638); p->r = (size_t)vxInt(c, "r", 143);
	fld(p->p, sizeof(p->p), c, "p"); fld(p->q, sizeof(p->q), c, "q"); fld(p->a, sizeof(p->a), c, "a"); fld(p->d, sizeof(p->d), c, "d");
}
static void loadPfok(pfok_params* p, const vx_cmd* c)
{
	memset(p, 0, sizeof(*p)); p->l = (size_t)vxInt(c, "l", 638); p->r = (size_t)vxInt(c, "r", 130); p->n = (size_t)vxInt(c, "n", 256);
	fld(p->p, sizeof(p->p), c, "p"); fld(p->g, sizeof(p->g), c, "g");
}
static void loadDstu(dstu_params* p, const vx_cmd* c)
{
	unsigned long long f[4]; size_t no; size_t len; octet* b;
	memset(p, 0, sizeof(*p)); lst(f, 4, c, "f"); p->p[0] = (u16)f[0]; p->p[1] = (u16)f[1]; p->p[2] = (u16)f[2]; p->p[3] = (u16)f[3];
	p->A = (octet)vxInt(c, "A", 1); p->c = (u32)vxInt(c, "c", 2);
	fld(p->B, DSTU_SIZE, c, "B"); fld(p->n, DSTU_SIZE, c, "n");
	no = O_OF_B(p->p[0]); if (no > DSTU_SIZE) no = DSTU_SIZE;
	b = vxHex(c, "Px", &len); if (b) { memcpy(p->P, b, len < no ? len : no); free(b); }
	b = vxHex(c, "Py", &len); if (b) { memcpy(p->P + no, b, len < no ? len : no); free(b); }
}
static void loadStb99Seed(stb99_seed* s, const vx_cmd* c)
{
	unsigned long long t[31]; size_t i;
	memset(s, 0, sizeof(*s)); s->l = (size_t)vxInt(c, "l", 638);
	lst(t, 31, c, "zi"); for (i = 0; i < 31; ++i) s->zi[i] = (u16)t[i];
	lst(t, 18, c, "di"); for (i = 0; i < 18; ++i) s->di[i] = (size_t)t[i];
	lst(t, 10, c, "ri"); for (i = 0; i < 10; ++i) s->ri[i] = (size_t)t[i];
}
static void loadPfokSeed(pfok_seed* s, const vx_cmd* c)
{
	unsigned long long t[31]; size_t i;
	memset(s, 0, sizeof(*s)); s->l = (size_t)vxInt(c, "l", 638);
	lst(t, 31, c, "zi"); for (i = 0; i < 31; ++i) s->zi[i] = (u16)t[i];
	lst(t, 20, c, "li"); for (i = 0; i < 20; ++i) s->li[i] = (size_t)t[i];
}

static void doExecLine(vx_cmd* c)
{
	const char* op = c->op;
	const char* scheme = vxArg(c, "scheme");
	int hung = 0;
	jBegin(); jStr("op", op); echoArgs(c);
	if (strcmp(op, "pval") == 0 && scheme)
	{
		err_t e = -1;
		if (strcmp(scheme, "bign") == 0 || strcmp(scheme, "bign96") == 0)
		{
			bign_params* p = (bign_params*)xalloc(sizeof(bign_params)); loadBign(p, c);
			e = strcmp(scheme, "bign") == 0 ? bignParamsVal(p) : bign96ParamsVal(p); free(p);
		}
		else if (strcmp(scheme, "g12s") == 0) { g12s_params* p = (g12s_params*)xalloc(sizeof(*p)); loadG12s(p, c); e = g12sParamsVal(p); free(p); }
		else if (strcmp(scheme, "stb99") == 0) { stb99_params* p = (stb99_params*)xalloc(sizeof(*p)); loadStb99(p, c); e = stb99ParamsVal(p); free(p); }
		else if (strcmp(scheme, "pfok") == 0) { pfok_params* p = (pfok_params*)xalloc(sizeof(*p)); loadPfok(p, c); e = pfokParamsVal(p); free(p); }
		else if (strcmp(scheme, "dstu") == 0)
		{
			dstu_params* p = (dstu_params*)xalloc(sizeof(*p)); loadDstu(p, c);
			if (vxArg(c, "gen"))
			{
				/* the standard leaves the base point to the user: generate it as dstu.h prescribes (seeded COMBO generator) */
				octet* st = (octet*)xalloc(prngCOMBO_keep()); size_t no = O_OF_B(p->p[0]); err_t g;
				prngCOMBOStart(st, (u32)vxInt(c, "gen", 1));
				g = dstuPointGen(p->P, p, prngCOMBOStepR, st);
				jInt("rcGen", g); jOct("Px", p->P, no); jOct("Py", p->P + no, no); free(st);
			}
			e = dstuParamsVal(p); free(p);
		}
		jInt("rc", e);
	}
	else if (strcmp(op, "pubkeyVal") == 0 && scheme)
	{
		err_t e = -1; size_t len; octet* Q = vxHex(c, "Q", &len);
		if (strcmp(scheme, "pfok") == 0) { pfok_params* p = (pfok_params*)xalloc(sizeof(*p)); loadPfok(p, c); e = pfokPubkeyVal(p, Q); free(p); }
		else { bign_params* p = (bign_params*)xalloc(sizeof(*p)); loadBign(p, c); e = strcmp(scheme, "bign") == 0 ? bignPubkeyVal(p, Q) : bign96PubkeyVal(p, Q); free(p); }
		free(Q); jInt("rc", e);
	}
	else if (strcmp(op, "keypairVal") == 0 && scheme)
	{
		err_t e; size_t l1, l2; octet* Q = vxHex(c, "Q", &l1); octet* d = vxHex(c, "d", &l2);
		bign_params* p = (bign_params*)xalloc(sizeof(*p)); loadBign(p, c);
		e = strcmp(scheme, "bign") == 0 ? bignKeypairVal(p, d, Q) : bign96KeypairVal(p, d, Q);
		free(p); free(Q); free(d); jInt("rc", e);
	}
	else if (strcmp(op, "pubkeyCalc") == 0 && scheme)
	{
		/* generator aid: Q = dG computed by the library (judged by TLC on the value-oracle lines only) */
		err_t e; size_t l2; octet* d = vxHex(c, "d", &l2); bign_params* p = (bign_params*)xalloc(sizeof(*p)); size_t no;
		octet* Q;
		loadBign(p, c); no = p->l == 96 ? 24 : p->l / 4; Q = (octet*)xalloc(2 * no); memset(Q, 0, 2 * no);
		e = strcmp(scheme, "bign") == 0 ? bignPubkeyCalc(Q, p, d) : bign96PubkeyCalc(Q, p, d);
		jOct("Qx", Q, no); jOct("Qy", Q + no, no); jInt("rc", e); free(Q); free(p); free(d);
	}
	else if (strcmp(op, "bignGen") == 0)
	{
		const char* name = vxArg(c, "name"); size_t sl, i, j, no; octet* seed = vxHex(c, "seed", &sl);
		bign_params* p = (bign_params*)xalloc(sizeof(*p)); pgen_st* st = (pgen_st*)xalloc(sizeof(*st)); err_t e;
		e = bignParamsStd(p, name ? name : BIGN_NAMES[0]); no = p->l / 4;
		memset(st, 0, sizeof(*st)); st->max = (size_t)vxInt(c, "max", 3); if (st->max > 8) st->max = 8;
		if (e == ERR_OK && sl == 8)
		{
			memcpy(p->seed, seed, 8); memset(p->b, 0xA5, sizeof(p->b)); memset(p->q, 0xA5, sizeof(p->q)); memset(p->yG, 0xA5, sizeof(p->yG));
			jInt("l", (long long)p->l); jOct("p", p->p, no); jOct("a", p->a, no); jOct("seed0", seed, 8); jInt("nmax", (long long)st->max);
			e = bignParamsGen(p, pgCalcQ, pgOnSeed, st);
			jInt("rc", e); jInt("errmax", ERR_MAX); jOcts8("seeds", st->seeds, st->nseed); jOcts8("cseeds", st->cseed, st->ncalc);
			jSep(); fprintf(vx_out, "\"cbs\":[");
			for (i = 0; i < st->ncalc; ++i) { fprintf(vx_out, "%s[", i ? "," : ""); for (j = 0; j < no; ++j) fprintf(vx_out, "%s%u", j ? "," : "", st->cb[i][j]); fputc(']', vx_out); }
			fputc(']', vx_out);
		}
		else jInt("rc", -1);
		free(seed); free(p); free(st);
	}
	else if (strcmp(op, "paramsGen") == 0 && scheme)
	{
		/* parameter generation from the standard seed of the named set; the generated set is then validated */
		const char* name = vxArg(c, "name");
		if (strcmp(scheme, "stb99") == 0)
		{
			stb99_params* std = (stb99_params*)xalloc(sizeof(*std)); stb99_params* p = (stb99_params*)xalloc(sizeof(*p));
			stb99_seed* s = (stb99_seed*)xalloc(sizeof(*s)); err_t e = stb99ParamsStd(std, s, name ? name : "test");
			jInt("rcStd", e); e = stb99ParamsGen(p, s); jInt("rcGen", e);
			if (e == ERR_OK) { putStb99(p); jInt("sameAsStd", memcmp(p->p, std->p, sizeof(p->p)) == 0 && memcmp(p->q, std->q, sizeof(p->q)) == 0 && memcmp(p->a, std->a, sizeof(p->a)) == 0); }
			jInt("rc", e == ERR_OK ? stb99ParamsVal(p) : -1); free(s); free(p); free(std);
		}
		else if (strcmp(scheme, "pfok") == 0)
		{
			pfok_params* std = (pfok_params*)xalloc(sizeof(*std)); pfok_params* p = (pfok_params*)xalloc(sizeof(*p));
			pfok_seed* s = (pfok_seed*)xalloc(sizeof(*s)); err_t e = pfokParamsStd(std, s, name ? name : "test");
			jInt("rcStd", e); e = pfokParamsGen(p, s, 0); jInt("rcGen", e);
			if (e == ERR_OK) { putPfok(p); jInt("sameAsStd", memcmp(p->p, std->p, sizeof(p->p)) == 0 && p->l == std->l && p->r == std->r); }
			jInt("rc", e == ERR_OK ? pfokParamsVal(p) : -1); free(s); free(p); free(std);
		}
	}
	else if (strcmp(op, "beltHash") == 0)
	{
		/* generator aid (seed search for the "b is a non-residue" class); belt-hash itself is C01's business */
		size_t len; octet* in = vxHex(c, "in", &len); octet h[32]; beltHash(h, in, len); jOct("out", h, 32); free(in);
	}
	else if (strcmp(op, "belsValM") == 0)
	{
		size_t len; octet* m = vxHex(c, "m", &len); jInt("rc", belsValM(m, len)); free(m);
	}
	else if (strcmp(op, "stb99SeedVal") == 0) { stb99_seed* s = (stb99_seed*)xalloc(sizeof(*s)); loadStb99Seed(s, c); jInt("rc", stb99SeedVal(s)); free(s); }
	else if (strcmp(op, "stb99SeedAdj") == 0)
	{
		stb99_seed* s = (stb99_seed*)xalloc(sizeof(*s)); err_t e; loadStb99Seed(s, c); e = stb99SeedAdj(s);
		jInt("rc", e); jU16s("ozi", s->zi, 31); jClipArr("odi", s->di, 18); jClipArr("ori", s->ri, 10); free(s);
	}
	else if (strcmp(op, "pfokSeedVal") == 0) { pfok_seed* s = (pfok_seed*)xalloc(sizeof(*s)); loadPfokSeed(s, c); jInt("rc", pfokSeedVal(s)); free(s); }
	else if (strcmp(op, "pfokSeedAdj") == 0)
	{
		pfok_seed* s = (pfok_seed*)xalloc(sizeof(*s)); err_t e; loadPfokSeed(s, c); e = pfokSeedAdj(s);
		jInt("rc", e); jU16s("ozi", s->zi, 31); jClipArr("oli", s->li, 20); free(s);
	}
	else if (strcmp(op, "isPrime") == 0)
	{
		/* a = number; its argument length is the operand length handed to priIsPrime; w=1: priIsPrimeW (one machine word) */
		size_t n = numWords(c, "a");
		if (vxInt(c, "w", 0)) { word* a = numArg(c, "a", 1); jInt("res", isPrimeW(a[0])); free(a); }
		else { word* a = numArg(c, "a", n); jInt("res", isPrimeN(a, n)); free(a); }
	}
	else if (strcmp(op, "rmTest") == 0)
	{
		size_t n = numWords(c, "a"); size_t iter = (size_t)vxInt(c, "iter", 0); word* a = numArg(c, "a", n);
		void* st = xalloc(priRMTest_deep(n)); jInt("res", priRMTest(a, n, iter, st)); free(st); free(a);
	}
	else if (strcmp(op, "sgPrime") == 0)
	{
		size_t n = numWords(c, "a"); word* a = numArg(c, "a", n);
		void* st = xalloc(priIsSGPrime_deep(n)); jInt("res", priIsSGPrime(a, n, st)); free(st); free(a);
	}
	else if (strcmp(op, "nextPrime") == 0)
	{
		size_t n = numWords(c, "a"); size_t bc = (size_t)vxInt(c, "base", 0); size_t iter = (size_t)vxInt(c, "iter", 32);
		long long tr = vxInt(c, "trials", -1); word* a = numArg(c, "a", n); word* p = (word*)xalloc(O_OF_W(n));
		void* st = xalloc(priNextPrime_deep(n, bc)); int r = 0;
		memset(p, 0, O_OF_W(n));
		if (vxInt(c, "w", 0)) { free(p); p = (word*)xalloc(sizeof(word)); p[0] = 0; free(st); st = xalloc(priNextPrimeW_deep()); GUARDED(20, r = priNextPrimeW(p, a[0], st), hung); putNum("p", p, 1); }
		else { GUARDED(60, r = priNextPrime(p, a, n, tr < 0 ? SIZE_MAX : (size_t)tr, bc, iter, st), hung); putNum("p", p, n); }
		jInt("found", r); jInt("hang", hung);
		if (!hung) { free(st); free(p); free(a); }
	}
	else if (strcmp(op, "sieved") == 0 || strcmp(op, "smooth") == 0)
	{
		size_t n = numWords(c, "a"); size_t bc = (size_t)vxInt(c, "base", 0); word* a = numArg(c, "a", n); int r = 0;
		if (bc > priBaseSize()) bc = priBaseSize();
		if (op[1] == 'i') { void* st = xalloc(priIsSieved_deep(bc)); r = priIsSieved(a, n, bc, st); free(st); }
		else { void* st = xalloc(priIsSmooth_deep(n)); GUARDED(5, r = priIsSmooth(a, n, bc, st), hung); if (!hung) free(st); }
		jInt("res", r); jInt("hang", hung); jInt("baseSize", (long long)priBaseSize());
		free(a);
	}
	else if (strcmp(op, "basePrimes") == 0)
	{
		size_t i, cnt = priBaseSize(); jInt("size", (long long)cnt); jSep(); fprintf(vx_out, "\"primes\":[");
		for (i = 0; i < cnt; ++i) fprintf(vx_out, i ? ",%llu" : "%llu", (unsigned long long)priBasePrime(i));
		fputc(']', vx_out);
	}
	else if (strcmp(op, "ppIrred") == 0)
	{
		size_t n = numWords(c, "a"); word* a = numArg(c, "a", n); void* st = xalloc(ppIsIrred_deep(n));
		jInt("res", ppIsIrred(a, n, st)); free(st); free(a);
	}
	else if (strcmp(op, "safeGroup") == 0)
	{
		/* ecpIsSafeGroup(ec, mov_threshold) on a crafted pair (p, q): a curve description over GF(p) (A = 1, B = 5, as the
		   function looks only at the field and the group order) with group order q, one result per threshold of the list */
		size_t pl, ql; octet* po = vxHex(c, "p", &pl); octet* qo = vxHex(c, "q", &ql); unsigned long long thr[32]; size_t nt = lst(thr, 32, c, "thr"), i;
		size_t no = pl, n = W_OF_O(no);
		size_t f_keep = gfpCreate_keep(no), f_deep = gfpCreate_deep(no), ec_keep = ecpCreateJ_keep(n);
		size_t sd = utilMax(4, f_deep, ecpCreateJ_deep(n, f_deep), ecCreateGroup_deep(f_deep), ecpIsSafeGroup_deep(n));
		qr_o* f = (qr_o*)xalloc(f_keep); ec_o* ec = (ec_o*)xalloc(ec_keep); void* st = xalloc(sd);
		octet* A = (octet*)xalloc(no); octet* B = (octet*)xalloc(no);
		memset(A, 0, no); memset(B, 0, no); A[0] = 1; B[0] = 5;
		if (!po || !qo || !gfpCreate(f, po, no, st) || !ecpCreateJ(ec, f, A, B, st) || !ecCreateGroup(ec, 0, 0, qo, ql, 1, st)) jInt("rc", -1);
		else
		{
			jResBegin("res");
			for (i = 0; i < nt; ++i) jResPut(i, ecpIsSafeGroup(ec, (size_t)thr[i], st) ? 1 : 0);
			jResEnd(); jInt("rc", 0);
		}
		free(B); free(A); free(st); free(ec); free(f); free(qo); free(po);
	}
	else if (strcmp(op, "onA") == 0)
	{
		/* complete tiny curve y^2 = x^3 + A x + B over GF(p): every (x, y) in [0, 2^bits)^2 through the range test
		   (qrFrom) and the curve-equation test (ecpIsOnA), as bignPubkeyVal combines them; one result row per x */
		size_t pl; octet* po = vxHex(c, "p", &pl); size_t bits = (size_t)vxInt(c, "bits", 5); size_t x0 = (size_t)vxInt(c, "x", 0);
		size_t no = pl, n = W_OF_O(no), y, lim = (size_t)1 << bits;
		size_t f_keep = gfpCreate_keep(no), f_deep = gfpCreate_deep(no), ec_keep = ecpCreateJ_keep(n), ec_deep = ecpCreateJ_deep(n, f_deep);
		qr_o* f = (qr_o*)xalloc(f_keep); ec_o* ec = (ec_o*)xalloc(ec_keep);
		size_t sd = utilMax(3, f_deep, ec_deep, ecpIsOnA_deep(n, f_deep)); void* st = xalloc(sd);
		octet* A = (octet*)xalloc(no); octet* B = (octet*)xalloc(no); octet* xo = (octet*)xalloc(no); octet* yo = (octet*)xalloc(no);
		word* pt = (word*)xalloc(O_OF_W(2 * n));
		fld(A, no, c, "A"); fld(B, no, c, "B");
		if (!gfpCreate(f, po, no, st) || !ecpCreateJ(ec, f, A, B, st)) jInt("rc", -1);
		else
		{
			size_t j;
			jResBegin("res");
			for (y = 0; y < lim; ++y)
			{
				int ok;
				for (j = 0; j < no; ++j) xo[j] = (octet)(x0 >> (8 * j)), yo[j] = (octet)(y >> (8 * j));
				ok = qrFrom(ecX(pt), xo, f, st) && qrFrom(ecY(pt, n), yo, f, st) && ecpIsOnA(pt, ec, st);
				jResPut(y, ok ? 1 : 0);
			}
			jResEnd(); jInt("rc", 0);
		}
		free(pt); free(yo); free(xo); free(B); free(A); free(st); free(ec); free(f); free(po);
	}
	else jInt("unknown", 1);
	jEnd();
	fflush(vx_out);
	(void)hung;
}

static void doExec(void)
{
	char* line = 0; size_t cap = 0; vx_cmd c;
	while (getline(&line, &cap, stdin) > 0)
		if (vxParse(&c, line)) doExecLine(&c);
	free(line);
}

static int want(int argc, char** argv, const char* fam)
{
	int i; if (argc <= 3) return 1;
	for (i = 3; i < argc; ++i) if (strcmp(argv[i], fam) == 0) return 1;
	return 0;
}

int main(int argc, char** argv)
{
	signal(SIGALRM, on_alarm);
	vxSeed(vxEnvSeed());
	(void)PRI_W16;
	if (argc >= 2 && strcmp(argv[1], "std") == 0) { doStd(); return 0; }
	if (argc >= 2 && strcmp(argv[1], "exec") == 0) { doExec(); return 0; }
	if (argc >= 3 && strcmp(argv[1], "record") == 0)
	{
		THOROUGH = strcmp(argv[2], "thorough") == 0;
		if (want(argc, argv, "date")) recDate();
		if (want(argc, argv, "pri")) recPri();
		if (want(argc, argv, "pp")) recPP();
		return 0;
	}
	fprintf(stderr, "usage: drv_valid std | record <quick|thorough> [date pri pp] | exec\n");
	return 2;
}
