/* C12 driver: validators of parameters, keys, dates, primes and polynomials.
   usage: drv_valid std                       dump every standard parameter set (one ndjson line each)
          drv_valid record <quick|thorough> [family ...]   families: date pri pp seed  (default all)
          drv_valid exec                      commands on stdin ("op k=v ..."), one ndjson line per command
   Record lines are recomputed by spec/trace/Trace_Valid.tla.  Structure (classes, windows, positions) is
   enumerated here; only data octets come from VERIF_SEED.  Numbers travel as little-endian octet arrays
   (BigNat!FromOctets) or 16-bit limb arrays (GF2Poly values), small values as JSON ints.
   Exec commands: every argument is echoed into the output line (x... values as octet arrays, others as
   ints or strings), so that a line is self-contained for TLC: the generator (checks/suite_valid.py) attaches
   the condition it perturbed and the certificate (factor, remainder, Pocklington nodes) as extra arguments.
   All states/stacks handed to the library are malloc'ed at exactly the documented _keep()/_deep() size. */
#include "vx.h"
#include <signal.h>
#include <setjmp.h>
#include <unistd.h>
#include <bee2/core/mem.h>
#include <bee2/core/err.h>
#include <bee2/core/util.h>
#include <bee2/core/tm.h>
#include <bee2/core/prng.h>
#include <bee2/math/ww.h>
#include <bee2/math/zz.h>
#include <bee2/math/pp.h>
#include <bee2/math/pri.h>
#include <bee2/math/gfp.h>
#include <bee2/math/ecp.h>
#include <bee2/crypto/bign.h>
#include <bee2/crypto/bign96.h>
#include <bee2/crypto/g12s.h>
#include <bee2/crypto/stb99.h>
#include <bee2/crypto/dstu.h>
#include <bee2/crypto/pfok.h>
#include <bee2/crypto/bels.h>

static int THOROUGH = 0;

/* exact-size scratch: the library sees a block of precisely the documented size */
static void* xalloc(size_t n) { void* p = malloc(n ? n : 1); if (!p) { fprintf(stderr, "oom\n"); exit(3); } return p; }

/* hang guard for calls that may not terminate (logged as "hang":1, judged by the spec as a wrong answer) */
static sigjmp_buf g_jmp;
static volatile int g_armed = 0;
static void on_alarm(int s) { (void)s; if (g_armed) siglongjmp(g_jmp, 1); }
#define GUARDED(secs, call, hung) do { hung = 0; g_armed = 1; if (sigsetjmp(g_jmp, 1) == 0) { alarm(secs); call; alarm(0); } \
	else hung = 1; g_armed = 0; } while (0)

/* ------------------------------------------------------------------ standard parameter sets */
static const char* BIGN_NAMES[] = { "1.2.112.0.2.0.34.101.45.3.1", "1.2.112.0.2.0.34.101.45.3.2", "1.2.112.0.2.0.34.101.45.3.3" };
static const char* BIGN96_NAMES[] = { "1.2.112.0.2.0.34.101.45.3.0" };
static const char* G12S_NAMES[] = { "1.2.643.2.2.35.0", "1.2.643.2.2.35.1", "1.2.643.2.2.35.2", "1.2.643.2.2.35.3",
	"1.2.643.2.9.1.8.1", "1.2.643.7.1.2.1.2.0", "1.2.643.7.1.2.1.2.1", "1.2.643.7.1.2.1.2.2" };
static const char* STB99_NAMES[] = { "test", "1.2.112.0.2.0.1176.2.3.3.1", "1.2.112.0.2.0.1176.2.3.6.1", "1.2.112.0.2.0.1176.2.3.10.1" };
static const char* PFOK_NAMES[] = { "test", "1.2.112.0.2.0.1176.2.3.3.2", "1.2.112.0.2.0.1176.2.3.6.2", "1.2.112.0.2.0.1176.2.3.10.2" };
static const char* DSTU_NAMES[] = { "1.2.804.2.1.1.1.1.3.1.1.1.2.0", "1.2.804.2.1.1.1.1.3.1.1.1.2.1", "1.2.804.2.1.1.1.1.3.1.1.1.2.2",
	"1.2.804.2.1.1.1.1.3.1.1.1.2.3", "1.2.804.2.1.1.1.1.3.1.1.1.2.4", "1.2.804.2.1.1.1.1.3.1.1.1.2.5", "1.2.804.2.1.1.1.1.3.1.1.1.2.6",
	"1.2.804.2.1.1.1.1.3.1.1.1.2.7", "1.2.804.2.1.1.1.1.3.1.1.1.2.8", "1.2.804.2.1.1.1.1.3.1.1.1.2.9" };

static void jSizes(const char* k, const size_t* a, size_t n)
{
	long long t[64]; size_t i; for (i = 0; i < n && i < 64; ++i) t[i] = (long long)a[i]; jIntArr(k, t, n);
}
static void jU16s(const char* k, const u16* a, size_t n)
{
	long long t[64]; size_t i; for (i = 0; i < n && i < 64; ++i) t[i] = a[i]; jIntArr(k, t, n);
}

static void putBign(const bign_params* p)
{
	size_t no = p->l == 96 ? 24 : p->l / 4;
	jInt("l", (long long)p->l); jOct("p", p->p, no); jOct("a", p->a, no); jOct("b", p->b, no); jOct("q", p->q, no);
	jOct("yG", p->yG, no); jOct("seed", p->seed, 8);
}
static void putG12s(const g12s_params* p)
{
	size_t no = memNonZeroSize(p->p, G12S_FIELD_SIZE * p->l / 512);
	jInt("l", p->l); jOct("p", p->p, no); jOct("a", p->a, no); jOct("b", p->b, no); jOct("q", p->q, p->l / 8);
	jInt("n", p->n); jOct("xP", p->xP, no); jOct("yP", p->yP, no);
}
static void putStb99(const stb99_params* p)
{
	jInt("l", (long long)p->l); jInt("r", (long long)p->r); jOct("p", p->p, O_OF_B(p->l)); jOct("q", p->q, O_OF_B(p->r));
	jOct("a", p->a, O_OF_B(p->l)); jOct("d", p->d, O_OF_B(p->l));
}
static void putStb99Seed(const stb99_seed* s)
{
	jInt("l", (long long)s->l); jU16s("zi", s->zi, 31); jSizes("di", s->di, 18); jSizes("ri", s->ri, 10);
}
static void putPfok(const pfok_params* p)
{
	jInt("l", (long long)p->l); jInt("r", (long long)p->r); jInt("n", (long long)p->n);
	jOct("p", p->p, O_OF_B(p->l)); jOct("g", p->g, O_OF_B(p->l));
}
static void putPfokSeed(const pfok_seed* s)
{
	jInt("l", (long long)s->l); jU16s("zi", s->zi, 31); jSizes("li", s->li, 20);
}
static void putDstu(const dstu_params* p)
{
	long long pp[4]; size_t no = O_OF_B(p->p[0]);
	pp[0] = p->p[0]; pp[1] = p->p[1]; pp[2] = p->p[2]; pp[3] = p->p[3];
	jIntArr("f", pp, 4); jInt("A", p->A); jOct("B", p->B, no); jOct("n", p->n, no); jInt("c", p->c);
	jOct("Px", p->P, no); jOct("Py", p->P + no, no);
}

static void doStd(void)
{
	size_t i;
	for (i = 0; i < COUNT_OF(BIGN_NAMES); ++i)
	{
		bign_params p[1]; err_t e = bignParamsStd(p, BIGN_NAMES[i]);
		jBegin(); jStr("op", "std"); jStr("scheme", "bign"); jStr("name", BIGN_NAMES[i]); jInt("rcStd", e); putBign(p);
		jInt("rc", bignParamsVal(p)); jEnd();
	}
	for (i = 0; i < COUNT_OF(BIGN96_NAMES); ++i)
	{
		bign_params p[1]; err_t e = bign96ParamsStd(p, BIGN96_NAMES[i]);
		jBegin(); jStr("op", "std"); jStr("scheme", "bign96"); jStr("name", BIGN96_NAMES[i]); jInt("rcStd", e); putBign(p);
		jInt("rc", bign96ParamsVal(p)); jEnd();
	}
	for (i = 0; i < COUNT_OF(G12S_NAMES); ++i)
	{
		g12s_params p[1]; err_t e = g12sParamsStd(p, G12S_NAMES[i]);
		jBegin(); jStr("op", "std"); jStr("scheme", "g12s"); jStr("name", G12S_NAMES[i]); jInt("rcStd", e); putG12s(p);
		jInt("rc", g12sParamsVal(p)); jEnd();
	}
	for (i = 0; i < COUNT_OF(STB99_NAMES); ++i)
	{
		stb99_params p[1]; stb99_seed s[1]; err_t e = stb99ParamsStd(p, s, STB99_NAMES[i]);
		jBegin(); jStr("op", "std"); jStr("scheme", "stb99"); jStr("name", STB99_NAMES[i]); jInt("rcStd", e); putStb99(p);
		jInt("rc", stb99ParamsVal(p)); jEnd();
		jBegin(); jStr("op", "std"); jStr("scheme", "stb99seed"); jStr("name", STB99_NAMES[i]); jInt("rcStd", e); putStb99Seed(s);
		jInt("rc", stb99SeedVal(s)); jEnd();
	}
	for (i = 0; i < COUNT_OF(PFOK_NAMES); ++i)
	{
		pfok_params p[1]; pfok_seed s[1]; err_t e = pfokParamsStd(p, s, PFOK_NAMES[i]);
		jBegin(); jStr("op", "std"); jStr("scheme", "pfok"); jStr("name", PFOK_NAMES[i]); jInt("rcStd", e); putPfok(p);
		jInt("rc", pfokParamsVal(p)); jEnd();
		jBegin(); jStr("op", "std"); jStr("scheme", "pfokseed"); jStr("name", PFOK_NAMES[i]); jInt("rcStd", e); putPfokSeed(s);
		jInt("rc", pfokSeedVal(s)); jEnd();
	}
	for (i = 0; i < COUNT_OF(DSTU_NAMES); ++i)
	{
		dstu_params p[1]; err_t e = dstuParamsStd(p, DSTU_NAMES[i]);
		jBegin(); jStr("op", "std"); jStr("scheme", "dstu"); jStr("name", DSTU_NAMES[i]); jInt("rcStd", e); putDstu(p);
		jEnd();
	}
	{
		size_t len, num;
		for (len = 16; len <= 32; len += 8)
			for (num = 0; num <= 16; ++num)
			{
				octet m[32]; err_t e = belsStdM(m, len, num);
				jBegin(); jStr("op", "std"); jStr("scheme", "bels"); jInt("len", (long long)len); jInt("num", (long long)num);
				jInt("rcStd", e); jOct("m", m, len); jInt("rc", belsValM(m, len)); jEnd();
			}
	}
}

int main(int argc, char** argv)
{
	signal(SIGALRM, on_alarm);
	vxSeed(vxEnvSeed());
	if (argc >= 2 && strcmp(argv[1], "std") == 0) { doStd(); return 0; }
	fprintf(stderr, "usage: drv_valid std | record <quick|thorough> [families] | exec\n");
	(void)THOROUGH; (void)xalloc;
	return 2;
}
