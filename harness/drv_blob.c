/* C07: replay of the histories of spec/sm/Blob.tla on the real blob functions.
   stdin: lines "blob script=<tok>.<tok>..."  tok: C<n> blobCreate(n) -> A, R<n> A <- blobResize(A, n), F fill all of A with
   the next pattern, W blobWipe(A), Y B <- blobCopy(B, A), X close both.
   One ndjson line per history with the observation after every step: sizes, validity, content summary (longest prefix equal
   to the pattern written last, zeros after it, trailing zeros), descriptor kept, blobEq, sign of blobCmp.
   Run in the page-rounded and in the exact-size sanitizer builds: Fill touches every octet the caller owns. */
#include "vx.h"
#include <bee2/core/blob.h>
#include <bee2/core/mem.h>

static octet pat(unsigned k, size_t i) { return (octet)(1 + ((k * 37u + (unsigned)i * 11u + (unsigned)(i >> 8)) % 255u)); }

static void summary(const char* pfx, const blob_t x, unsigned k)
{
	size_t n = blobSize(x), p = 0, z = 0, tz = 0, i; const octet* o = (const octet*)x; char key[8];
	while (p < n && k && o[p] == pat(k, p)) ++p;
	while (p + z < n && o[p + z] == 0) ++z;
	for (i = n; i > 0 && o[i - 1] == 0; --i) ++tz;
	snprintf(key, sizeof key, "s%s", pfx); jInt(key, (long long)n);
	snprintf(key, sizeof key, "p%s", pfx); jInt(key, (long long)p);
	snprintf(key, sizeof key, "z%s", pfx); jInt(key, (long long)z);
	snprintf(key, sizeof key, "t%s", pfx); jInt(key, (long long)tz);
	snprintf(key, sizeof key, "v%s", pfx); jInt(key, blobIsValid(x) ? 1 : 0);
}

int main(void)
{
	static char line[1 << 12]; vx_cmd c;
	while (fgets(line, sizeof line, stdin))
	{
		const char* script; const char* p; blob_t A = 0, B = 0; unsigned k = 0, kA = 0, kB = 0; int first = 1;
		if (!vxParse(&c, line)) continue;
		script = vxArg(&c, "script"); if (!script) continue;
		jBegin(); jStr("op", "blob"); jStr("script", script); jSep(); fputs("\"obs\":[", vx_out);
		for (p = script; *p;)
		{
			char op = *p++; size_t n = 0, i; int same = 0, cmp;
			while (*p >= '0' && *p <= '9') n = n * 10 + (size_t)(*p++ - '0');
			if (*p == '.') ++p;
			switch (op)
			{
			case 'C': A = blobCreate(n); kA = 0; break;
			case 'R': { blob_t old = A; A = blobResize(A, n); same = (A == old && old != 0); if (!A) kA = 0; break; }
			case 'F': kA = ++k; for (i = 0, n = blobSize(A); i < n; ++i) ((octet*)A)[i] = pat(kA, i); break;
			case 'W': blobWipe(A); break;
			case 'Y': { blob_t old = B; B = blobCopy(B, A); same = (B == old && old != 0); kB = kA; break; }
			case 'X': blobClose(A); blobClose(B); A = B = 0; kA = kB = 0; break;
			default: fprintf(stderr, "bad token %c\n", op); return 3;
			}
			cmp = blobCmp(A, B);
			if (!first) fputc(',', vx_out);
			first = 0; fputc('{', vx_out); vx_first = 1;
			summary("a", A, kA); summary("b", B, kB);
			jInt("same", same); jInt("eq", blobEq(A, B) ? 1 : 0); jInt("cmp", cmp < 0 ? -1 : cmp > 0 ? 1 : 0);
			fputc('}', vx_out); vx_first = 0;
		}
		fputc(']', vx_out); jEnd();
	}
	return 0;
}
