/* bels driver (C13): shares and recoveries over enumerated (len, count, threshold, subset, order);
   every call is logged for spec/trace/Trace_Bels.tla (reference semantics of STB 34.101.60). */
#include "vx.h"
#include <bee2/core/mem.h>
#include <bee2/core/err.h>
#include <bee2/core/prng.h>
#include <bee2/core/util.h>
#include <bee2/crypto/bels.h>

/* the caller's generator as the library sees it: counts the octets the library asks for (the algorithm of the standard
   draws exactly (threshold - 1) * len octets per sharing) and delivers the echo tape */
static size_t g_drawn = 0; static void* g_echo = 0;
static void countingGen(void* buf, size_t count, void* state) { (void)state; g_drawn += count; prngEchoStepR(buf, count, g_echo); }


static int g_thorough = 0;

static void jOctArr(const char* k, const octet* p, size_t n, size_t len, const size_t* idx)
{	/* n blocks of len octets; idx (optional) selects/permutes blocks */
	size_t i, j; jSep(); fprintf(vx_out, "\"%s\":[", k);
	for (i = 0; i < n; ++i)
	{
		const octet* b = p + (idx ? idx[i] : i) * len;
		fprintf(vx_out, i ? ",[" : "[");
		for (j = 0; j < len; ++j) fprintf(vx_out, j ? ",%u" : "%u", b[j]);
		fputc(']', vx_out);
	}
	fputc(']', vx_out);
}

static void logRecover(size_t len, const octet* m0, const octet* mi, const octet* si, const size_t* idx, size_t u,
	size_t count, size_t thr, const octet* s)
{
	octet sel_s[16 * 32], sel_m[16 * 32], out[32]; size_t i; err_t rc;
	for (i = 0; i < u; ++i) memcpy(sel_s + i * len, si + idx[i] * len, len), memcpy(sel_m + i * len, mi + idx[i] * len, len);
	memset(out, 0xEE, 32);
	rc = belsRecover(out, u, len, sel_s, m0, sel_m);
	jBegin(); jStr("op", "recover"); jInt("len", (long long)len); jInt("count", (long long)count); jInt("thr", (long long)thr);
	jOct("m0", m0, len); jOctArr("mi", sel_m, u, len, 0); jOctArr("si", sel_s, u, len, 0);
	{ long long ii[16]; for (i = 0; i < u; ++i) ii[i] = (long long)idx[i] + 1; jIntArr("users", ii, u); }
	jOct("secret", s, len); jOct("out", out, len); jInt("rc", rc); jEnd();
}

static void perms(size_t len, const octet* m0, const octet* mi, const octet* si, size_t* a, size_t k, size_t u,
	size_t count, size_t thr, const octet* s)
{
	size_t i;
	if (k == u) { logRecover(len, m0, mi, si, a, u, count, thr, s); return; }
	for (i = k; i < u; ++i)
	{
		size_t t = a[k]; a[k] = a[i]; a[i] = t;
		perms(len, m0, mi, si, a, k + 1, u, count, thr, s);
		t = a[k]; a[k] = a[i]; a[i] = t;
	}
}

static void scheme(size_t len, size_t count, size_t thr, int gen_keys)
{
	octet m0[32], mi[16 * 32], si[16 * 32], s[32], tape[16 * 32]; octet echo[128]; size_t i; err_t rc;
	unsigned mask;
	vxRandBuf(s, len); vxRandBuf(tape, sizeof tape);
	belsStdM(m0, len, 0);
	for (i = 0; i < count; ++i)
	{
		if (gen_keys)
		{	/* user keys generated from identifiers (valid and deterministic in the identifier) */
			octet id[8], again[32]; size_t idl = 1 + vxRandN(7); vxRandBuf(id, idl); id[0] = (octet)i;
			rc = belsGenMid(mi + i * len, len, m0, id, idl);
			belsGenMid(again, len, m0, id, idl);
			jBegin(); jStr("op", "genmid"); jInt("len", (long long)len); jOct("m0", m0, len); jOct("id", id, idl);
			jOct("out", mi + i * len, len); jBool("det", memcmp(again, mi + i * len, len) == 0); jInt("rc", rc); jEnd();
			jBegin(); jStr("op", "valm"); jOct("m", mi + i * len, len); jInt("rc", belsValM(mi + i * len, len)); jEnd();
		}
		else belsStdM(mi + i * len, len, 1 + (i * 5 + count + thr) % 16 == 0 ? 16 : 1 + (i * 5 + count + thr) % 16);
	}
	if (!gen_keys)
	{	/* make the standard keys pairwise different: take 1 + ((start + i) mod 16) */
		size_t start = vxRandN(16);
		for (i = 0; i < count; ++i) belsStdM(mi + i * len, len, 1 + (start + i) % 16);
	}
	prngEchoStart(echo, tape, thr * len - len ? thr * len - len : 1);
	g_drawn = 0; g_echo = echo;
	rc = belsShare(si, count, thr, len, s, m0, mi, countingGen, 0);
	jBegin(); jStr("op", "share"); jInt("drawn", (long long)g_drawn); jInt("len", (long long)len); jInt("count", (long long)count); jInt("thr", (long long)thr);
	jOct("s", s, len); jOct("m0", m0, len); jOctArr("mi", mi, count, len, 0); jOct("k", tape, thr * len - len);
	jOctArr("si", si, count, len, 0); jInt("rc", rc); jEnd();
	if (rc != ERR_OK) return;
	/* all subsets of size >= thr (count <= 6) or seeded subsets (larger counts); all orders for small subsets */
	if (count <= 6)
	{
		for (mask = 1; mask < (1u << count); ++mask)
		{
			size_t idx[16], u = 0;
			for (i = 0; i < count; ++i) if (mask >> i & 1) idx[u++] = i;
			if (u < thr) continue;
			if (u <= (size_t)(g_thorough ? 4 : 3) && (g_thorough || (mask + len) % 3 == 0)) perms(len, m0, mi, si, idx, 0, u, count, thr, s);
			else logRecover(len, m0, mi, si, idx, u, count, thr, s);
		}
	}
	else
	{
		int rep;
		for (rep = 0; rep < (g_thorough ? 12 : 3); ++rep)
		{
			size_t idx[16], u = 0, j;
			for (i = 0; i < count; ++i) idx[i] = i;
			for (i = count; i > 1; --i) { j = vxRandN(i); u = idx[i - 1]; idx[i - 1] = idx[j]; idx[j] = u; }		/* shuffle */
			u = thr + vxRandN(count - thr + 1);
			logRecover(len, m0, mi, si, idx, u, count, thr, s);
		}
	}
}

static void genmi(size_t len, int cls)
{	/* user key generation from generator candidates: tape classes
	   0 random; 1 first candidate x (its minimal polynomial is f0: rejected), then random;
	   2 candidates 0, 1, random; 3 all three rejected (x, 0, 1) => error */
	octet m0[32], tape[96], out[32], echo[128]; err_t rc;
	belsStdM(m0, len, 0); vxRandBuf(tape, 96); memset(out, 0xEE, 32);
	if (cls == 1 || cls == 3) { memset(tape, 0, len); tape[0] = 2; }
	if (cls == 2) { memset(tape, 0, 2 * len); tape[len] = 1; }
	if (cls == 3) { memset(tape + len, 0, 2 * len); tape[2 * len] = 1; }
	prngEchoStart(echo, tape, 3 * len);
	rc = belsGenMi(out, len, m0, prngEchoStepR, echo);
	jBegin(); jStr("op", "genmi"); jInt("len", (long long)len); jInt("cls", cls); jOct("m0", m0, len); jOct("tape", tape, 3 * len);
	jOct("out", out, len); jInt("rc", rc); jEnd();
	if (rc == ERR_OK) { jBegin(); jStr("op", "valm"); jOct("m", out, len); jInt("rc", belsValM(out, len)); jEnd(); }
}

static void genmiBadM0(size_t len)
{	/* a common key whose polynomial is reducible (constant term cleared: divisible by x): bels.h documents
	   ERR_BAD_PUBKEY; the call must answer with an error in every build configuration, not stop */
	octet m0[32], tape[96], out[32], echo[128]; err_t rc;
	belsStdM(m0, len, 0); m0[0] &= 0xFE; vxRandBuf(tape, 96); memset(out, 0xEE, 32);
	prngEchoStart(echo, tape, 3 * len);
	rc = belsGenMi(out, len, m0, prngEchoStepR, echo);
	jBegin(); jStr("op", "genmi_badm0"); jInt("len", (long long)len); jOct("m0", m0, len); jInt("rc", rc); jEnd();
	rc = belsGenMid(out, len, m0, tape, 5);
	jBegin(); jStr("op", "genmid_badm0"); jInt("len", (long long)len); jOct("m0", m0, len); jInt("rc", rc); jEnd();
}

static void std2(size_t len, size_t count, size_t thr)
{	/* Share2 / Recover2 on the standard keys (blocks of len + 1 octets, first octet = user number) */
	octet si[16 * 33], s[32], tape[16 * 32], out[32], echo[128]; err_t rc; size_t i;
	vxRandBuf(s, len); vxRandBuf(tape, sizeof tape);
	prngEchoStart(echo, tape, thr * len - len ? thr * len - len : 1);
	rc = belsShare2(si, count, thr, len, s, prngEchoStepR, echo);
	jBegin(); jStr("op", "share2"); jInt("len", (long long)len); jInt("count", (long long)count); jInt("thr", (long long)thr);
	jOct("s", s, len); jOct("k", tape, thr * len - len); jOctArr("si", si, count, len + 1, 0); jInt("rc", rc); jEnd();
	if (rc != ERR_OK) return;
	{	/* recover from the LAST thr shares, reversed */
		octet sel[16 * 33];
		for (i = 0; i < thr; ++i) memcpy(sel + i * (len + 1), si + (count - 1 - i) * (len + 1), len + 1);
		rc = belsRecover2(out, thr, len, sel);
		jBegin(); jStr("op", "recover2"); jInt("len", (long long)len); jOctArr("si", sel, thr, len + 1, 0); jOct("secret", s, len);
		jOct("out", out, len); jInt("rc", rc); jEnd();
	}
}

int main(int argc, char** argv)
{
	static const size_t LN[3] = {16, 24, 32}; size_t l, count, thr;
	vxSeed(vxEnvSeed());
	g_thorough = argc > 2 && strcmp(argv[2], "thorough") == 0;
	if (argc > 1 && strcmp(argv[1], "suite") == 0)
	{	/* small deterministic run for the configuration / sanitizer sweeps */
		for (l = 0; l < 3; ++l) { scheme(LN[l], 3, 2, 0); scheme(LN[l], 5, 3, 0); std2(LN[l], 16, 3); }
		scheme(16, 2, 2, 1); genmi(16, 1); genmi(24, 2); genmiBadM0(16); genmiBadM0(32);
		return 0;
	}
	for (l = 0; l < 3; ++l)
		for (count = 1; count <= 16; ++count)
			for (thr = 1; thr <= count; ++thr)
			{
				if (count > 6 && !g_thorough && (count + thr + l) % 7) continue;
				if (count > 6 && g_thorough && (count + thr + l) % 2) continue;
				if (count <= 6 && !g_thorough && l > 0 && (count > 4 || (count + thr + l) % 2)) continue;
				scheme(LN[l], count, thr, 0);
			}
	for (l = 0; l < 3; ++l) genmiBadM0(LN[l]);
	for (l = 0; l < 3; ++l) { int c; for (c = 0; c < 4; ++c) if (g_thorough || l == 0 || c == 1) genmi(LN[l], c); }
	for (l = 0; l < 3; ++l) { scheme(LN[l], 3, 2, 1); std2(LN[l], 16, 1 + vxRandN(16)); std2(LN[l], 1, 1); std2(LN[l], 16, 16); }
	return 0;
}
