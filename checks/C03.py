"""C03 — bash, brng and botp compute exactly what STB 34.101.77 / 34.101.47 define.
 (0) anchors: the reference semantics (ref/BashF, sm/BashPrg, ref/Brng, ref/Botp over ref/BeltModes)
     evaluates the appendix vectors A.2-A.6, B.2, B.4, HOTP/TOTP/OCRA in TLC (a failure here is a
     specification error: inconclusive, never a violation);
 (1) record direction (Pattern F): drv_bash calls bashF / bashHash* / brngCTR* / brngHMAC* / botp* on
     enumerated structure (every hash level x lengths straddling the rate, IVs whose counter carries
     through 1..32 octets, HMAC key/IV lengths {0,1,32,64,65,100}, DT offsets 0..15, digits, counters
     ..FF / FF..FF, time encodings, OCRA suites by token enumeration) with seeded data; TLC recomputes
     every line (trace/Trace_Bash).  bashF / bashHash are recorded in every bash-f platform variant
     the CPU supports (lines identical to the BASH_64 build's are validated once);
 (2) model checking of the automaton (mc/MC_BashPrg over sm/BashPrg): exhaustive BFS over command
     histories x data-length classes x the 12 configurations with the invariants (pos < buflen, buflen
     table, capacity, key mode) and Decr(Encr(X)) = X; deeper histories by simulation;
 (3) replay direction: every maximal explored behaviour is executed by the real bashPrg* functions in
     every platform variant, compared after every command (output, pos, buflen, the 192 state octets);
 (4) record direction (Pattern S): seeded random command scripts of the real automaton are stepped
     through the specification's actions (trace/Trace_Bash, cfg Trace_BashPrg).
"""
import os, json, glob, re, shutil, time
import vlib

LEVEL = "model_checking"

VARIANTS = [("rel", "BASH_64", None), ("bash32", "BASH_32", None), ("bashsse2", "BASH_SSE2", "sse2"),
            ("bashavx2", "BASH_AVX2", "avx2"), ("bashavx512", "BASH_AVX512", "avx512f")]
ALL_CONFIGS = [(l, d, k) for l in (128, 192, 256) for d in (1, 2) for k in (True, False)]
CLASSES5 = ["0", "1", "b-1", "b", "b+1"]


# ------------------------------------------------------------------ helpers
def brief(row):
    return {k: (v if not isinstance(v, list) or len(v) <= 40 else v[:40] + ["...(%d)" % len(v)]) for k, v in row.items()}


def key_of(row, variant="rel"):
    op, cls = row.get("op", "?"), str(row.get("cls", ""))
    if op.startswith("brngCTR") and ("ff=32" in cls or "FF..FF" in cls):
        return "brngCTR:iv=FF..FF"          # all 256 bits of the counter wrap
    k = "%s:%s" % (op, cls)
    return k if variant == "rel" else k + ":" + variant


def cpu_flags():
    try:
        for l in open("/proc/cpuinfo"):
            if l.startswith("flags"):
                return set(l.split(":", 1)[1].split())
    except OSError:
        pass
    return set()


def hx(a):
    return "x" + "".join("%02x" % b for b in a)


def cfg_code(l, d, alen, klen):
    return l * 100000 + d * 10000 + alen * 100 + klen


def start_lens(l, d, keyed):
    """announcement / key lengths of the main runs (all admissible lengths are enumerated by the 'starts' run)"""
    return (8, l // 8) if keyed else (0, 0)


def case_to_script(c):
    out = ["case id=%s" % c["id"]]
    for h in c["hist"]:
        st = "pos=%d buflen=%d s=%s" % (h["pos"], h["buflen"], hx(h["s"]))
        op = h["op"]
        if op == "start":
            out.append("start l=%d d=%d ann=%s key=%s %s" % (h["l"], h["d"], hx(h["data"][:h["n"]]), hx(h["data"][h["n"]:]), st))
        elif op == "restart":
            out.append("restart ann=%s key=%s %s" % (hx(h["data"][:h["n"]]), hx(h["data"][h["n"]:]), st))
        elif op == "absorbStep":
            out.append("absorbStep data=%s %s" % (hx(h["data"]), st))
        elif op == "squeezeStep":
            out.append("squeezeStep n=%d out=%s %s" % (h["n"], hx(h["out"]), st))
        elif op in ("encrStep", "decrStep"):
            out.append("%s data=%s out=%s %s" % (op, hx(h["data"]), hx(h["out"]), st))
        else:
            out.append("%s %s" % (op, st))
    out.append("end")
    return "\n".join(out) + "\n"


def suite_candidates():
    """OCRA suites by token enumeration: all combinations of valid tokens, and every invalid
    alternative of every slot (and order / repetition / trailing faults) on three baselines."""
    D = ["4", "6", "9"]; C = ["", "C-"]; Q = ["QN08", "QA04", "QH64"]
    P = ["", "-PHBELT", "-PSHA1", "-PSHA256", "-PSHA512"]; S = ["", "-S064", "-S512", "-S000"]
    T = ["", "-T1S", "-T59S", "-T1M", "-T59M", "-T1H", "-T48H", "-T30S"]
    pre = "OCRA-1:HOTP-HBELT-"
    out = []
    for d in D:
        for c in C:
            for q in Q:
                for p in P:
                    for s in S:
                        for t in T:
                            out.append(pre + d + ":" + c + q + p + s + t)
    base = [("8", "C-", "QN08", "-PHBELT", "-S064", "-T1M"), ("6", "", "QA10", "", "", ""), ("9", "", "QH64", "-PSHA512", "", "-T48H")]
    alts = {
        0: ["OCRA-1:HOTP-SHA1-", "OCRA-2:HOTP-HBELT-", "OCRA-1:HOTP-HBELT", "ocra-1:HOTP-HBELT-", "OCRA-1:HOTP-HBELT--", "", "OCRA-1:HOTP-HBEL-", "OCRA-1-HOTP-HBELT-"],
        1: ["3", "0", "10", "A", "", "5", "7", "8"],
        2: ["-", "", "::"],
        3: ["C", "c-", "C--", "C-C-"],
        4: ["QA65", "QN03", "QX08", "QN8", "Q08", "QN008", "N08", "QN00", "QN99", "QN64", "QN04", "qN08", "QA4", ""],
        5: ["-PSHA", "-PMD5", "-P", "-PHBELT1", "-Phbelt", "-PSHA2566", "-PSHA1024", "PHBELT", "-PSHA384"],
        6: ["-S64", "-SA13", "-S513", "-S999", "-S0640", "-S", "-S06", "-S511", "-S001", "S064"],
        7: ["-T", "-T0S", "-T60S", "-T60M", "-T49H", "-T0H", "-T05S", "-T1N", "-T100S", "-T1", "-TS", "-T1s", "-T59H", "-T9H", "-T10M", "T1M", "-T1M-T1M",
            "-T1M-", "-T1Mx", "-T1M ", "-T1M:", "-T1M-S064", "-T1M-PHBELT"],
    }
    for b in base:
        for slot, al in alts.items():
            for a in al:
                tok = [pre, b[0], ":", b[1], b[2], b[3], b[4], b[5]]
                tok[slot] = a
                out.append("".join(tok))
        out.append(pre + b[0] + ":" + b[1] + b[2] + b[4] + b[3] + b[5])     # S before P
        out.append(pre + b[0] + ":" + b[2] + b[1] + b[3] + b[4] + b[5])     # C after Q
        out.append(pre + b[0] + ":" + b[1] + b[2] + b[3] + b[4] + b[4] + b[5])
    seen, res = set(), []
    for s in out:
        if s not in seen and "\n" not in s:
            seen.add(s); res.append(s)
    return res


# ------------------------------------------------------------------ the check
class Run:
    def __init__(self, ctx):
        self.ctx = ctx
        self.ev = ctx.ev
        self.env = {"VERIF_SEED": ctx.seed}
        self.tier = "quick" if ctx.quick else "thorough"
        self.drv = {}
        self.lines_validated = 0
        self.replayed = 0
        self.states = 0
        self.transitions = 0
        self.distinct = set()

    # ---- (0)
    def anchors(self):
        r = vlib.tlc("BashVectors", timeout=900, extra=["-continue"], quiet=True)
        failed = sorted(set(re.findall(r'"@BADVEC",\s*"(\w+)"', r.out)))
        self.ev.cov["appendix_vectors_evaluated"] = max(0, (r.distinct - 1) // 2)
        if vlib.tlc_infra_failed(r) or failed or r.rc != 0:
            self.ctx.note_inconclusive("reference semantics fails its appendix vectors %s (specification error, rc=%s)" % (failed, r.rc))
            return False
        return True

    def drivers(self):
        flags = cpu_flags()
        skipped = []
        for v, plat, need in VARIANTS:
            if need and need not in flags:
                skipped.append(v + " (CPU lacks " + need + ")")
                continue
            b = vlib.harness("drv_bash", ["drv_bash.c"], v)
            rc, out, err = vlib.run_harness(b, ["platform"], timeout=60)
            if rc != 0 or out.strip() != plat:
                skipped.append("%s (library reports %r)" % (v, out.strip()))
                continue
            self.drv[v] = b
        self.ev.cov["bashf_platform_variants"] = sorted(self.drv)
        if skipped:
            self.ev.cov["bashf_platform_variants_skipped"] = skipped
        if "rel" not in self.drv:
            self.ctx.note_inconclusive("default build does not report BASH_64")
            return False
        return True

    INFRA_RC = (124, 125, 126, 127, 137)

    def run_drv(self, v, args, what, **kw):
        """Run the driver of variant v.  A missing binary (cache cleaned by a concurrent build) is rebuilt;
        exec failures / timeouts are infrastructure (inconclusive), never a finding.  Returns (rc, out, err)
        with rc None when there is no verdict."""
        for attempt in (0, 1):
            b = self.drv[v]
            if not os.path.exists(b):
                b = self.drv[v] = vlib.harness("drv_bash", ["drv_bash.c"], v)
            rc, out, err = vlib.run_harness(b, args, **kw)
            if rc not in self.INFRA_RC:
                return rc, out, err
            if rc in (124, 137) or os.path.exists(b):
                break
        self.ctx.note_inconclusive("driver %s (%s) could not be run / timed out (rc=%s): %s" % (v, what, rc, (err or "")[-200:]))
        return None, out, err

    def record(self, v, what, stdin=None, timeout=600):
        p = self.ctx.path("rec_%s_%s.ndjson" % (what, v))
        rc, _, err = self.run_drv(v, ["record", what, self.tier], "record " + what, stdin=stdin, out_path=p, env=self.env, timeout=timeout)
        if rc is None:
            return []
        rows = []
        try:
            rows = [json.loads(l) for l in open(p) if l.strip().endswith("}")]
        except Exception:
            pass
        if rc != 0:
            self.ctx.violation("record-crash:%s:%s" % (what, v), "driver stopped in a library call (record %s, variant %s, rc=%d): %s" % (what, v, rc, err[-800:]),
                               {"variant": v, "what": what, "stderr": err[-3000:]})
        return rows

    def judge(self, rows, what, timeout=1500):
        """rows: list of (row, variant). Returns indices (0-based) of bad rows."""
        if not rows:
            return []
        plain = [r for r, _ in rows]
        n, bad, r = vlib.validate_lines(self.ctx, "Trace_Bash", plain, timeout=timeout)
        if n < len(plain):
            n, bad, r = vlib.validate_lines(self.ctx, "Trace_Bash", plain, timeout=timeout)
            if n < len(plain):
                self.ctx.note_inconclusive("%s: TLC evaluated %d of %d lines (rc=%s)" % (what, n, len(plain), r.rc))
        self.ev.add("tlc_line_states", r.distinct)
        self.lines_validated += n
        groups = {}
        for i in bad:
            row, v = rows[i - 1]
            groups.setdefault(key_of(row, v), []).append((len(json.dumps(row)), i, row, v))
        for key, g in groups.items():
            g.sort(key=lambda t: t[:2])
            _, i, row, v = g[0]                     # the smallest failing line of the class is the replay datum
            self.ctx.violation(key, "%s (variant %s): the recorded call differs from the value the standard defines (%d line(s) of %s, classes %s)"
                               % (row["op"], v, len(g), what, sorted(set(str(x[2].get("cls")) for x in g))[:8]),
                               json.dumps({"line": row, "variant": v, "other_failing_classes": sorted(set(str(x[2].get("cls")) for x in g)),
                                           "how": "VERIF_SEED=%d ./check C03 --tier %s; recomputed by spec/trace/Trace_Bash.tla LineOk" % (self.ctx.seed, self.tier)}))
        return [i - 1 for i in bad]

    # ---- (1)
    def lines(self):
        ctx = self.ctx
        rel = []
        for what in ("bash", "brng", "botp"):
            rel += self.record("rel", what)
        cands = suite_candidates()
        if ctx.quick:
            # all fault cases, every 6th of the valid-token products (offset by the seed)
            prod = 3 * 2 * 3 * 5 * 4 * 8
            cands = cands[ctx.seed % 6:prod:6] + cands[prod:]
        rel += self.record("rel", "suites", stdin=("\n".join(cands) + "\n").encode())
        self.ev.cov["ocra_suite_candidates"] = len(cands)
        rows = [(r, "rel") for r in rel]
        relbash = [r for r in rel if r["op"] in ("bashF", "bashHash", "bashHashV")]
        same = 0
        for v in self.drv:
            if v == "rel":
                continue
            vr = self.record(v, "bash")
            if len(vr) != len(relbash):
                ctx.violation("record-shape:" + v, "variant %s recorded %d bash lines, BASH_64 %d" % (v, len(vr), len(relbash)))
            for a, b in zip(vr, relbash):
                if a == b:
                    same += 1          # the very same line is validated once (as the rel line)
                else:
                    rows.append((a, v))
        self.ev.cov["variant_lines_identical_to_BASH_64"] = same
        bad = self.judge(rows, "record")
        badset = set(bad)
        self.good_rel = [r for i, (r, v) in enumerate(rows) if v == "rel" and i not in badset]
        self.lines_validated += same
        self.distinct |= set(key_of(r, v) for r, v in rows)
        ops = {}
        for r, _ in rows:
            ops[r["op"]] = ops.get(r["op"], 0) + 1
        self.ev.cov["recorded_lines_by_op"] = ops
        for want in ("bashF", "bashHash", "brngCTR", "brngHMAC", "ocra"):
            for r in rel:
                if r["op"] == want:
                    self.ev.sample(brief(r), cap=12)
                    break
        return rel

    def selftest_lines(self, rel):
        """Binding: corrupt one recorded field of one line per kind (among the lines TLC accepted);
        TLC must flag exactly those."""
        rel = getattr(self, "good_rel", rel)
        mut = []
        def pick(op, pred=lambda r: True):
            for r in rel:
                if r["op"] == op and pred(r):
                    return dict(r)
            return None
        def flip(r, field, at=0):
            o = list(r[field]); o[at] ^= 1; r[field] = o; return r
        for op, field in (("bashF", "out"), ("bashHash", "out"), ("brngCTR", "iv2"), ("brngHMAC", "out"), ("dt", "otp"), ("ctrNext", "out"),
                          ("hotp", "otp"), ("totp", "otp"), ("ocra", "otp"), ("hotpSeq", "ctr2")):
            ok = (lambda r: r.get("err", "OK") == "OK" and len(r.get(field, [])) > 0 and "ff=32" not in r.get("cls", "") and "FF..FF" not in r.get("cls", ""))
            r = pick(op, ok)
            if r:
                mut.append(flip(r, field, len(r[field]) - 1))
        r = pick("ocraSuite")
        if r:
            r["ok"] = not r["ok"]; mut.append(r)
        r = pick("bashHashV")
        if r:
            r["ok"] = not r["ok"]; mut.append(r)
        r = pick("brngCTR", lambda r: "ff=8:zero" in r.get("cls", ""))
        if r:
            mut.append(flip(r, "out", 40))          # second block
        n, bad, res = vlib.validate_lines(self.ctx, "Trace_Bash", mut, timeout=600)
        self.ev.cov["selftest_corrupted_lines"] = len(mut)
        self.ev.cov["selftest_lines_rejected"] = len(bad)
        if n != len(mut) or len(bad) != len(mut):
            self.ctx.note_inconclusive("binding self-test (lines): %d of %d corrupted lines rejected, %d evaluated" % (len(bad), len(mut), n))

    # ---- (2) + (3)
    def mc(self, name, configs, depth, maxsteps, classes, restarts, simulate=None, simdepth=None, workers=None, timeout=1500):
        ctx = self.ctx
        out = ctx.path(name + "_cases")
        shutil.rmtree(out, ignore_errors=True)
        os.makedirs(out, exist_ok=True)
        cfg = ctx.path(name + ".cfg")
        with open(cfg, "w") as f:
            f.write("SPECIFICATION MCSpec\nCONSTANTS\n Configs = {%s}\n Depth = %d\n MaxSteps = %d\n Classes = {%s}\n Restarts = {%s}\n Seed = %d\n OutDir = \"%s\"\n"
                    % (", ".join(str(c) for c in configs), depth, maxsteps, ", ".join('"%s"' % c for c in classes),
                       ", ".join(str(r) for r in restarts), ctx.seed % 1000, out))
            f.write("INVARIANT TypeOK PosInv BufLenInv CapacityInv KeyModeInv OutLenInv EmitCases\nPROPERTY EncrDecrLaw DecrEncrLaw\n")
        r = vlib.tlc("MC_BashPrg", cfg, timeout=timeout, simulate=simulate, depth=simdepth, seed=ctx.seed if simulate else None,
                     workers=workers, quiet=True)
        vlib.log("[mc] %s rc=%s states=%d/%d depth=%d %.1fs" % (name, r.rc, r.generated, r.distinct, r.depth, r.wall))
        if simulate:
            m = re.search(r"The number of states generated: (\d+)", r.out)
            if m:
                r.generated = r.distinct = int(m.group(1))
        files = sorted(glob.glob(os.path.join(out, "*.json")))
        if vlib.tlc_infra_failed(r):
            ctx.note_inconclusive("MC_BashPrg run %s gave no verdict (rc=%s): %s" % (name, r.rc, (r.error or "")[-300:]))
        elif r.rc != 0:
            # a property of the specification fails on the model itself: a specification problem, not a finding about the code
            ctx.note_inconclusive("MC_BashPrg run %s: the specification violates its own property %s (model-level, not reported)"
                                  % (name, vlib.violated_property(r.out)))
        else:
            self.states += r.distinct
            self.transitions += r.generated
            self.ev.cov.setdefault("mc_runs", {})[name] = {"states": r.distinct, "transitions": r.generated, "depth": r.depth,
                                                            "cases": len(files), "exhaustive": not simulate, "wall_s": round(r.wall, 1)}
        return files

    def replay(self, name, files):
        """Execute the predicted scripts on every variant; compare after every command."""
        ctx = self.ctx
        if not files:
            return
        cases = []
        for f in files:
            try:
                cases.append(json.load(open(f)))
            except Exception:
                pass
        script = "".join(case_to_script(c) for c in cases).encode()
        byid = {c["id"]: c for c in cases}
        opcount = {}
        for c in cases:
            for h in c["hist"]:
                opcount[h["op"]] = opcount.get(h["op"], 0) + 1
                self.distinct.add("prg:%s:%s" % (c["hist"][0]["code"], h["code"]))
        agg = self.ev.cov.setdefault("replayed_commands_by_op", {})
        for k, n in opcount.items():
            agg[k] = agg.get(k, 0) + n * len(self.drv)
        for v in list(self.drv):
            rc, out, err = self.run_drv(v, ["replay"], "replay " + name, stdin=script, timeout=1800)
            if rc is None:
                continue
            res = [json.loads(l) for l in out.splitlines() if l.strip().endswith("}")]
            if rc != 0:
                last = res[-1]["id"] if res else "(first case)"
                ctx.violation("replay-crash:%s:%s" % (name, v), "bashPrg* crashed while replaying a predicted script (variant %s, after case %s, rc=%d): %s"
                              % (v, last, rc, err[-600:]), {"variant": v, "after": last})
            self.replayed += len(res)
            groups = {}
            for x in res:
                if x.get("ok"):
                    continue
                c = byid.get(x["id"], {})
                hist = c.get("hist", [])
                st = hist[x["step"] - 1] if 0 < x.get("step", 0) <= len(hist) else {}
                key = "bashPrg:%s:%s:%s" % (x.get("at"), st.get("code", "?"), x.get("what", "").split(":")[0].replace(" ", "_"))
                if v != "rel":
                    key += ":" + v
                groups.setdefault(key, []).append((len(hist), x["id"], x, c))
            for key, g in groups.items():
                g.sort(key=lambda t: t[:2])
                _, cid, x, c = g[0]                   # the shortest failing script of the class
                ctx.violation(key, "real automaton differs from the specification's prediction at command %d (%s) of case %s, variant %s: %s (%d case(s) of this class)"
                              % (x.get("step", -1), x.get("at"), cid, v, x.get("what"), len(g)),
                              json.dumps({"variant": v, "case": cid, "result": x, "other_cases": [t[1] for t in g[1:30]],
                                          "script": case_to_script(c) if c else None,
                                          "how": "build/bin/drv_bash-%s-* replay < script (the lines of 'script')" % v}))
        for c in cases[:1] + cases[len(cases) // 2:len(cases) // 2 + 1]:
            self.ev.sample({"replay_case": c["id"], "commands": [{k: (h[k] if not isinstance(h[k], list) or len(h[k]) <= 24 else h[k][:24] + ["...(%d)" % len(h[k])])
                                                              for k in ("op", "n", "data", "out", "pos", "buflen")} for h in c["hist"]]}, cap=12)
        if not ctx.quick:
            shutil.rmtree(os.path.dirname(files[0]), ignore_errors=True)     # thorough: hundreds of MB of cases
        return cases

    def selftest_replay(self, cases):
        """Binding of the replay direction: a corrupted prediction must be reported by the driver."""
        c = None
        for x in cases or []:
            if any(h["op"] == "squeezeStep" and h["n"] > 0 for h in x["hist"]):
                c = json.loads(json.dumps(x)); break
        if c is None:
            return
        good = case_to_script(c)
        for h in c["hist"]:
            if h["op"] == "squeezeStep" and h["n"] > 0:
                h["out"][0] ^= 1; break
        bad1 = case_to_script(c)
        c2 = json.loads(json.dumps(byfirst(cases)))
        c2["hist"][-1]["pos"] = (c2["hist"][-1]["pos"] + 1) % 192
        rc, out, _ = self.run_drv("rel", ["replay"], "replay self-test", stdin=(good + bad1 + case_to_script(c2)).encode(), timeout=120)
        if rc is None:
            return
        res = [json.loads(l) for l in out.splitlines() if l.strip().endswith("}")]
        verdicts = [x.get("ok") for x in res]
        self.ev.cov["selftest_replay_verdicts"] = verdicts
        if verdicts != [True, False, False]:
            self.ctx.note_inconclusive("binding self-test (replay): expected [ok, differs, differs], got %s" % verdicts)

    # ---- (4)
    def scripts(self, nscripts, length, shards):
        ctx = self.ctx
        files = {}
        for v in list(self.drv):
            p = ctx.path("scripts_%s.ndjson" % v)
            rc, _, err = self.run_drv(v, ["scripts", nscripts, length], "scripts", out_path=p, env=self.env, timeout=600)
            if rc is None:
                continue
            if rc != 0:
                ctx.violation("scripts-crash:" + v, "bashPrg* crashed in a random script (variant %s, rc=%d): %s" % (v, rc, err[-600:]))
                continue
            files[v] = p
        if "rel" not in files:
            return
        todo = [("rel", files["rel"])]
        ref = open(files["rel"], "rb").read()
        same = 0
        for v, p in files.items():
            if v == "rel":
                continue
            if open(p, "rb").read() == ref:
                same += 1
            else:
                todo.append((v, p))
        self.ev.cov["script_files_identical_to_BASH_64"] = same
        jobs = []
        for v, p in todo:
            rows = vlib.read_ndjson(p)
            groups, cur = [], []
            for r in rows:
                if r["e"] == "Reset" and cur:
                    groups.append(cur); cur = []
                cur.append(r)
            if cur:
                groups.append(cur)
            k = max(1, min(shards, len(groups)))
            for i in range(k):
                part = [r for g in groups[i::k] for r in g]
                sp = ctx.path("scripts_%s_%d.ndjson" % (v, i))
                vlib.write_ndjson(sp, part)
                jobs.append((v, sp, part))
        def one(job):
            v, sp, part = job
            time.sleep(0.1 * jobs.index(job))          # distinct TLC metadir names (vlib names them by the millisecond)
            r = vlib.tlc("Trace_Bash", "Trace_BashPrg.cfg", env={"TRACE": sp}, workers=1, timeout=1500, quiet=True, xmx="3g")
            return job, r
        results = vlib.parallel([(lambda j=j: one(j)) for j in jobs], n=min(len(jobs), vlib.NCPU))
        nlines = nscr = 0
        for (v, sp, part), r in results:
            self.ev.add("tlc_trace_states", r.distinct)
            if vlib.tlc_infra_failed(r) and "@REJECT" not in r.out:
                ctx.note_inconclusive("trace validation of %s gave no verdict (rc=%s) %s" % (os.path.basename(sp), r.rc, (r.error or "")[-300:]))
                continue
            m = re.search(r'"@REJECT",\s*(\d+)', r.out)
            if r.rc == 0 and not m:
                nlines += len(part); nscr += sum(1 for x in part if x["e"] == "Reset")
                continue
            if m:
                at = int(m.group(1))
                row = part[at - 1] if at <= len(part) else {"e": "end"}
                j = at - 1
                while j > 0 and part[j]["e"] != "Reset":
                    j -= 1
                hist = [x["e"] + (":%d" % len(x.get("data", x.get("out", []))) if "Step" in x["e"] else "") for x in part[j + 1:at]]
                key = "bashPrgTrace:%s%s" % (row["e"], "" if v == "rel" else ":" + v)
                ctx.violation(key, "recorded script (variant %s) is not a behaviour of the specification: rejected at line %d (%s) after %s"
                              % (v, at, row["e"], hist[-6:]), {"variant": v, "script": [brief(x) for x in part[j:at]]})
            else:
                inv = vlib.violated_property(r.out)
                ctx.note_inconclusive("trace validation of %s: rc=%s %s" % (os.path.basename(sp), r.rc, inv))
        self.lines_validated += nlines
        self.ev.cov["recorded_scripts_accepted"] = nscr
        self.ev.cov["recorded_script_lines_accepted"] = nlines
        # binding self-test: a corrupted / shortened script must be rejected
        v, sp, part = jobs[0]
        tests = []
        step = next((i for i, x in enumerate(part) if x["e"].endswith("Step")), None)
        if step is not None:
            a = json.loads(json.dumps(part)); a[step]["pos"] = (a[step]["pos"] + 1) % a[step]["buflen"]; tests.append(("pos", a[:step + 2]))
        st = next((i for i, x in enumerate(part) if x["e"].endswith("Start") and x["e"] != "Start"), None)
        if st is not None:
            b = json.loads(json.dumps(part)); b[st]["s"][100] ^= 4; tests.append(("state", b[:st + 2]))
            c = json.loads(json.dumps(part)); del c[st]; tests.append(("dropped", c[:st + 3]))
        rej = 0
        for nm, rows in tests:
            tp = ctx.path("selftest_trace_%s.ndjson" % nm)
            vlib.write_ndjson(tp, rows)
            r = vlib.tlc("Trace_Bash", "Trace_BashPrg.cfg", env={"TRACE": tp}, workers=1, timeout=300, quiet=True, xmx="2g")
            if "@REJECT" in r.out:
                rej += 1
        self.ev.cov["selftest_corrupted_scripts"] = len(tests)
        self.ev.cov["selftest_scripts_rejected"] = rej
        if rej != len(tests):
            ctx.note_inconclusive("binding self-test (scripts): %d of %d corrupted scripts rejected" % (rej, len(tests)))


def byfirst(cases):
    return cases[0]


def run(ctx):
    R = Run(ctx)
    ev = ctx.ev
    if not R.anchors():
        return
    if not R.drivers():
        return
    # (1) one-shot lines
    t0 = time.time()
    rel = R.lines()
    R.selftest_lines(rel)
    vlib.log("[C03] one-shot lines %.1fs" % (time.time() - t0))

    # (2)+(3) automaton: exhaustive exploration + replay
    def codes(cfgs):
        return [cfg_code(l, d, *start_lens(l, d, k)) for l, d, k in cfgs]
    allc = codes(ALL_CONFIGS)
    keyless = [c for c in ALL_CONFIGS if not c[2]]
    keyed = [c for c in ALL_CONFIGS if c[2]]
    first = None
    if ctx.quick:
        # depth 2 on all 12 configurations, all five length classes
        f = R.mc("d2_all", allc, 2, 1, CLASSES5, [0, 41], timeout=900)
        first = R.replay("d2_all", f)
        # depth 3 on two configurations (seed picks which; keyless ones, whose restart-with-key
        # subtrees are in key mode), the two classes straddling the rate
        two = [keyless[ctx.seed % 3], keyless[3 + (ctx.seed // 3) % 3]]
        f = R.mc("d3_two", codes(two), 3, 1, ["b-1", "b+1"], [0, 41], timeout=900)
        R.replay("d3_two", f)
        ev.cov["depth3_configurations"] = ["l=%d d=%d keyless" % (l, d) for l, d, _ in two]
        # every admissible announcement / key length at start (depth 1, squeeze only is enough to see the state)
        starts = []
        for l, d, k in [ALL_CONFIGS[(ctx.seed + i) % 12] for i in range(0, 12, 3)]:
            for al in (0, 4, 60):
                for kl in ((l // 8, l // 8 + 4, 60) if k else (0,)):
                    starts.append(cfg_code(l, d, al, kl))
        f = R.mc("starts", starts, 1, 1, ["b+1"], [602, 41, 0], timeout=600)
        R.replay("starts", f)
        # deeper histories by simulation
        simc = codes([keyed[ctx.seed % 6], keyless[(ctx.seed + 1) % 6]])
        f = R.mc("sim", simc, 6, 2, CLASSES5 + ["2b"], [0, 41, 602], simulate=8, simdepth=30, workers=8, timeout=600)
        R.replay("sim", f)
    else:
        # depth 3 on all 12 configurations: keyless with all five classes, keyed with the classes {1, b-1, b+1}
        # (a keyed level has 27 continuations with five classes: 6 x 25k states; with three: 6 x 4.5k)
        f = R.mc("d2_all", allc, 2, 1, CLASSES5, [0, 41], timeout=2400)
        first = R.replay("d2_all", f)
        for i in range(0, 6, 3):
            f = R.mc("d3_keyless_%d" % i, codes(keyless[i:i + 3]), 3, 1, CLASSES5, [0, 41], timeout=2400)
            R.replay("d3_keyless_%d" % i, f)
        for i in range(0, 6, 3):
            f = R.mc("d3_keyed_%d" % i, codes(keyed[i:i + 3]), 3, 1, ["1", "b-1", "b+1"], [0, 41], timeout=2400)
            R.replay("d3_keyed_%d" % i, f)
        starts = []
        for l, d, k in ALL_CONFIGS:
            for al in (0, 4, 32, 60):
                for kl in ((l // 8, l // 8 + 4, 60) if k else (0,)):
                    starts.append(cfg_code(l, d, al, kl))
        f = R.mc("starts", starts, 1, 1, CLASSES5, [602, 41, 0], timeout=2400)
        R.replay("starts", f)
        # chains of up to three Steps per command (the position carries over between Steps)
        f = R.mc("steps3", allc, 1, 3, CLASSES5 + ["2b"], [0], timeout=2400)
        R.replay("steps3", f)
        f = R.mc("sim", allc, 8, 2, CLASSES5 + ["2b"], [0, 41, 602], simulate=32, simdepth=40, workers=16, timeout=2400)
        R.replay("sim", f)
    R.selftest_replay(first)

    # (4) recorded random scripts
    t0 = time.time()
    if ctx.quick:
        R.scripts(12, 9, 6)
    else:
        R.scripts(96, 14, 16)

    vlib.log("[C03] recorded scripts %.1fs" % (time.time() - t0))
    ev.cov["states"] = R.states
    ev.cov["transitions"] = R.transitions
    ev.cov["replayed_behaviours"] = R.replayed
    ev.cov["validated_lines"] = R.lines_validated
    ev.cov["traces_validated_against_impl"] = R.replayed + R.lines_validated
    ev.cov["distinct_structural_classes"] = len(R.distinct)
    ev.cov["exhaustive"] = False
    ev.cov["rule"] = ("automaton: BFS over Start x {restart, ratchet, absorb/squeeze/encr/decr Start + Steps} x data-length classes relative to "
                      "the free buffer {0,1,free-1,free,free+1} (exhaustive to the stated depth per run, see mc_runs), deeper by simulation; "
                      "one-shots: structure enumerated by the driver, data octets from the seed; each case involves >= 1 bash-f / belt-hash "
                      "evaluation by TLC from the standard's definition")
    ev.assume("STB 34.101.77 / 34.101.47 as transcribed in spec/ref/BashF.tla, spec/sm/BashPrg.tla, spec/ref/Brng.tla, spec/ref/Botp.tla, "
              "anchored by the appendix vectors evaluated by TLC in this run")
    ev.assume("OCRA time step: 1..59 S/M, 1..48 H without leading zero (botp.h profile; RFC 6287's 0H is not admitted); "
              "the counter returned by botpOCRAStepG is compared only for suites with a counter")
    ev.assume("data lengths beyond 2*buflen + 3 octets and histories beyond the stated depths are sampled (simulation, random scripts), not enumerated")
