"""C03 — bash, brng and botp compute exactly what STB 34.101.77 / 34.101.47 define.
 (0) anchors: the reference semantics (ref/BashF, sm/BashPrg, ref/Brng, ref/Botp over ref/BeltModes)
     evaluates the appendix vectors A.2-A.6, B.2, B.4, HOTP/TOTP/OCRA in TLC (a failure here is a
     specification error: inconclusive, never a violation);
 (1) record direction (Pattern F): drv_bash calls bashF / bashHash* / brngCTR* / brngHMAC* / botp* on
     enumerated structure (every hash level x lengths straddling the rate, IVs whose counter carries
     through 1..32 octets, HMAC key/IV lengths {0,1,32,64,65,100}, DT offsets 0..15, digits, counters
     ..FF / FF..FF, time encodings, OCRA suites by token enumeration) with seeded data; TLC recomputes
     every line (trace/Trace_Bash).  bashF / bashHash are recorded in every bash-f platform variant
     the CPU supports (lines identical to the BASH_64 build's are validated once);
 (2) model checking of the automaton (mc/MC_BashPrg over sm/BashPrg): exhaustive BFS over command
     histories x data-length classes x the 12 configurations with the invariants (pos < buflen, buflen
     table, capacity, key mode) and Decr(Encr(X)) = X; deeper histories by simulation;
 (3) replay direction: every maximal explored behaviour is executed by the real bashPrg* functions in
     every platform variant, compared after every command (output, pos, buflen, the 192 state octets);
 (4) record direction (Pattern S): seeded random command scripts of the real automaton are stepped
     through the specification's actions (trace/Trace_Bash, cfg Trace_BashPrg);
 (5) the one-time-password state objects (sm/BotpSM: one action per botpHOTP / botpTOTP / botpOCRA Start / StepS / StepR /
     StepV / StepG with the effect on the counter that botp.h documents).  Replay direction: TLC enumerates ALL call
     histories of bounded length over an action alphabet (mc/MC_BotpSM: counters at the octet / 16-bit / 32-bit / 2^64
     wrap-arounds, digits 6..8, verification with the right / an altered / the next / the previous counter's / a too short /
     a too long password, StepS in the middle, relocation, re-Start) and predicts every output; harness/drv_botp executes
     each history on ONE real state object and every call's outputs (password, verdict, StepG, the counter held after the
     call) are compared.  Record direction: seeded random histories of the driver (and a sample of the replayed ones) are
     stepped through the specification's actions (trace/Trace_Botp).
"""
import os, json, glob, re, shutil, time
import vlib

LEVEL = "model_checking"

VARIANTS = [("rel", "BASH_64", None), ("bash32", "BASH_32", None), ("bashsse2", "BASH_SSE2", "sse2"),
            ("bashavx2", "BASH_AVX2", "avx2"), ("bashavx512", "BASH_AVX512", "avx512f")]
ALL_CONFIGS = [(l, d, k) for l in (128, 192, 256) for d in (1, 2) for k in (True, False)]
CLASSES5 = ["0", "1", "b-1", "b", "b+1"]

# (5) action alphabets of the botp state objects (spec/mc/MC_BotpSM.tla)
HOTP_CORE = ["S", "R", "Vc", "Vw", "Vn", "G"]
HOTP_FULL = ["S", "S6", "R", "Vc", "Vw", "Vn", "Vp", "Vs", "Vl", "G", "M", "Z"]
TOTP_FULL = ["R1", "R2", "Vc1", "Vc2", "Vx", "Vw", "M", "Z"]
OCRA_CORE = ["S", "S2", "R", "Vc", "Vw", "Vn", "G", "M"]
OCRA_FULL = ["S", "S2", "S6", "R", "Rq", "Vc", "Vw", "Vn", "Vp", "Vs", "Vl", "Vq", "G", "M", "Z"]


# ------------------------------------------------------------------ helpers
def brief(row):
    return {k: (v if not isinstance(v, list) or len(v) <= 40 else v[:40] + ["...(%d)" % len(v)]) for k, v in row.items()}


def key_of(row, variant="rel"):
    op, cls = row.get("op", "?"), str(row.get("cls", ""))
    if op.startswith("brngCTR") and ("ff=32" in cls or "FF..FF" in cls):
        return "brngCTR:iv=FF..FF"          # all 256 bits of the counter wrap
    k = "%s:%s" % (op, cls)
    return k if variant == "rel" else k + ":" + variant


def cpu_flags():
    try:
        for l in open("/proc/cpuinfo"):
            if l.startswith("flags"):
                return set(l.split(":", 1)[1].split())
    except OSError:
        pass
    return set()


def hx(a):
    return "x" + "".join("%02x" % b for b in a)


def cfg_code(l, d, alen, klen):
    return l * 100000 + d * 10000 + alen * 100 + klen


def start_lens(l, d, keyed):
    """announcement / key lengths of the main runs (all admissible lengths are enumerated by the 'starts' run)"""
    return (8, l // 8) if keyed else (0, 0)


def case_to_script(c):
    out = ["case id=%s" % c["id"]]
    for h in c["hist"]:
        st = "pos=%d buflen=%d s=%s" % (h["pos"], h["buflen"], hx(h["s"]))
        op = h["op"]
        if op == "start":
            out.append("start l=%d d=%d ann=%s key=%s %s" % (h["l"], h["d"], hx(h["data"][:h["n"]]), hx(h["data"][h["n"]:]), st))
        elif op == "restart":
            out.append("restart ann=%s key=%s %s" % (hx(h["data"][:h["n"]]), hx(h["data"][h["n"]:]), st))
        elif op == "absorbStep":
            out.append("absorbStep data=%s %s" % (hx(h["data"]), st))
        elif op == "squeezeStep":
            out.append("squeezeStep n=%d out=%s %s" % (h["n"], hx(h["out"]), st))
        elif op in ("encrStep", "decrStep"):
            out.append("%s data=%s out=%s %s" % (op, hx(h["data"]), hx(h["out"]), st))
        else:
            out.append("%s %s" % (op, st))
    out.append("end")
    return "\n".join(out) + "\n"


def t_be(limbs):
    """time stamp: four 16-bit limbs (least significant first) -> 8 big-endian octets"""
    return [limbs[3] >> 8, limbs[3] & 255, limbs[2] >> 8, limbs[2] & 255, limbs[1] >> 8, limbs[1] & 255, limbs[0] >> 8, limbs[0] & 255]


def botp_cmd(h):
    """one predicted call of a botp history -> command line of drv_botp (the arguments only)"""
    e = h["e"]
    if e in ("HotpStart", "TotpStart"):
        return "%s digit=%d key=%s" % (e, h["digit"], hx(h["key"]))
    if e == "OcraStart":
        return "OcraStart suite=%s key=%s" % (hx(h["suite"]), hx(h["key"]))
    if e == "HotpStepS":
        return "HotpStepS ctr=%s" % hx(h["ctr"])
    if e == "HotpStepV":
        return "HotpStepV arg=%s" % hx(h["arg"])
    if e == "TotpStepR":
        return "TotpStepR t=%s" % hx(t_be(h["t"]))
    if e == "TotpStepV":
        return "TotpStepV t=%s arg=%s" % (hx(t_be(h["t"])), hx(h["arg"]))
    if e == "OcraStepS":
        return "OcraStepS ctr=%s p=%s s=%s" % (hx(h["ctr"]), hx(h["p"]), hx(h["s"]))
    if e == "OcraStepR":
        return "OcraStepR q=%s t=%s" % (hx(h["q"]), hx(t_be(h["t"])))
    if e == "OcraStepV":
        return "OcraStepV q=%s t=%s arg=%s" % (hx(h["q"]), hx(t_be(h["t"])), hx(h["arg"]))
    return e            # HotpStepR, HotpStepG, OcraStepG, Move


def botp_script(c):
    return "case id=%s\n%s\nend\n" % (c["id"], "\n".join(botp_cmd(h) for h in c["hist"]))


def botp_diff(pred, got):
    """first disagreement between the predicted history and the logged one: (step (1-based), event, field) or None.
    Every predicted field is compared; pc / got = [] means the header does not define the value."""
    for i, h in enumerate(pred):
        if i >= len(got):
            return (i + 1, h["e"], "missing-line")
        g = got[i]
        if g.get("e") != h["e"]:
            return (i + 1, h["e"], "event:" + str(g.get("e")))
        for k, v in h.items():
            if k in ("pc", "got") and v == []:
                continue
            if g.get(k) != v:
                return (i + 1, h["e"], k)
    if len(got) > len(pred):
        return (len(pred) + 1, got[len(pred)].get("e"), "extra-line")
    return None


def botp_class(h):
    """history class of a call: the event and, for a verification, the verdict the specification predicts"""
    e = h["e"]
    return e + ((":accept" if h.get("ok") else ":reject") if e.endswith("StepV") else "")


def suite_candidates():
    """OCRA suites by token enumeration: all combinations of valid tokens, and every invalid
    alternative of every slot (and order / repetition / trailing faults) on three baselines."""
    D = ["4", "6", "9"]; C = ["", "C-"]; Q = ["QN08", "QA04", "QH64"]
    P = ["", "-PHBELT", "-PSHA1", "-PSHA256", "-PSHA512"]; S = ["", "-S064", "-S512", "-S000"]
    T = ["", "-T1S", "-T59S", "-T1M", "-T59M", "-T1H", "-T48H", "-T30S"]
    pre = "OCRA-1:HOTP-HBELT-"
    out = []
    for d in D:
        for c in C:
            for q in Q:
                for p in P:
                    for s in S:
                        for t in T:
                            out.append(pre + d + ":" + c + q + p + s + t)
    base = [("8", "C-", "QN08", "-PHBELT", "-S064", "-T1M"), ("6", "", "QA10", "", "", ""), ("9", "", "QH64", "-PSHA512", "", "-T48H")]
    alts = {
        0: ["OCRA-1:HOTP-SHA1-", "OCRA-2:HOTP-HBELT-", "OCRA-1:HOTP-HBELT", "ocra-1:HOTP-HBELT-", "OCRA-1:HOTP-HBELT--", "", "OCRA-1:HOTP-HBEL-", "OCRA-1-HOTP-HBELT-"],
        1: ["3", "0", "10", "A", "", "5", "7", "8"],
        2: ["-", "", "::"],
        3: ["C", "c-", "C--", "C-C-"],
        4: ["QA65", "QN03", "QX08", "QN8", "Q08", "QN008", "N08", "QN00", "QN99", "QN64", "QN04", "qN08", "QA4", ""],
        5: ["-PSHA", "-PMD5", "-P", "-PHBELT1", "-Phbelt", "-PSHA2566", "-PSHA1024", "PHBELT", "-PSHA384"],
        6: ["-S64", "-SA13", "-S513", "-S999", "-S0640", "-S", "-S06", "-S511", "-S001", "S064"],
        7: ["-T", "-T0S", "-T60S", "-T60M", "-T49H", "-T0H", "-T05S", "-T1N", "-T100S", "-T1", "-TS", "-T1s", "-T59H", "-T9H", "-T10M", "T1M", "-T1M-T1M",
            "-T1M-", "-T1Mx", "-T1M ", "-T1M:", "-T1M-S064", "-T1M-PHBELT"],
    }
    for b in base:
        for slot, al in alts.items():
            for a in al:
                tok = [pre, b[0], ":", b[1], b[2], b[3], b[4], b[5]]
                tok[slot] = a
                out.append("".join(tok))
        out.append(pre + b[0] + ":" + b[1] + b[2] + b[4] + b[3] + b[5])     # S before P
        out.append(pre + b[0] + ":" + b[2] + b[1] + b[3] + b[4] + b[5])     # C after Q
        out.append(pre + b[0] + ":" + b[1] + b[2] + b[3] + b[4] + b[4] + b[5])
    seen, res = set(), []
    for s in out:
        if s not in seen and "\n" not in s:
            seen.add(s); res.append(s)
    return res


# ------------------------------------------------------------------ the check
class Run:
    def __init__(self, ctx):
        self.ctx = ctx
        self.ev = ctx.ev
        self.env = {"VERIF_SEED": ctx.seed}
        self.tier = "quick" if ctx.quick else "thorough"
        self.drv = {}
        self.lines_validated = 0
        self.replayed = 0
        self.states = 0
        self.transitions = 0
        self.distinct = set()

    # ---- (0)
    def anchors(self):
        r = vlib.tlc("BashVectors", timeout=900, extra=["-continue"], quiet=True)
        failed = sorted(set(re.findall(r'"@BADVEC",\s*"(\w+)"', r.out)))
        self.ev.cov["appendix_vectors_evaluated"] = max(0, (r.distinct - 1) // 2)
        if vlib.tlc_infra_failed(r) or failed or r.rc != 0:
            self.ctx.note_inconclusive("reference semantics fails its appendix vectors %s (specification error, rc=%s)" % (failed, r.rc))
            return False
        return True

    def drivers(self):
        flags = cpu_flags()
        skipped = []
        for v, plat, need in VARIANTS:
            if need and need not in flags:
                skipped.append(v + " (CPU lacks " + need + ")")
                continue
            b = vlib.harness("drv_bash", ["drv_bash.c"], v)
            rc, out, err = vlib.run_harness(b, ["platform"], timeout=60)
            if rc != 0 or out.strip() != plat:
                skipped.append("%s (library reports %r)" % (v, out.strip()))
                continue
            self.drv[v] = b
        self.ev.cov["bashf_platform_variants"] = sorted(self.drv)
        if skipped:
            self.ev.cov["bashf_platform_variants_skipped"] = skipped
        if "rel" not in self.drv:
            self.ctx.note_inconclusive("default build does not report BASH_64")
            return False
        return True

    INFRA_RC = (124, 125, 126, 127, 137)

    def run_drv(self, v, args, what, **kw):
        """Run the driver of variant v.  A missing binary (cache cleaned by a concurrent build) is rebuilt;
        exec failures / timeouts are infrastructure (inconclusive), never a finding.  Returns (rc, out, err)
        with rc None when there is no verdict."""
        for attempt in (0, 1):
            b = self.drv[v]
            if not os.path.exists(b):
                b = self.drv[v] = vlib.harness("drv_bash", ["drv_bash.c"], v)
            rc, out, err = vlib.run_harness(b, args, **kw)
            if rc not in self.INFRA_RC:
                return rc, out, err
            if rc in (124, 137) or os.path.exists(b):
                break
        self.ctx.note_inconclusive("driver %s (%s) could not be run / timed out (rc=%s): %s" % (v, what, rc, (err or "")[-200:]))
        return None, out, err

    def record(self, v, what, stdin=None, timeout=600):
        p = self.ctx.path("rec_%s_%s.ndjson" % (what, v))
        rc, _, err = self.run_drv(v, ["record", what, self.tier], "record " + what, stdin=stdin, out_path=p, env=self.env, timeout=timeout)
        if rc is None:
            return []
        rows = []
        try:
            rows = [json.loads(l) for l in open(p) if l.strip().endswith("}")]
        except Exception:
            pass
        if rc != 0:
            self.ctx.violation("record-crash:%s:%s" % (what, v), "driver stopped in a library call (record %s, variant %s, rc=%d): %s" % (what, v, rc, err[-800:]),
                               {"variant": v, "what": what, "stderr": err[-3000:]})
        return rows

    def judge(self, rows, what, timeout=1500):
        """rows: list of (row, variant). Returns indices (0-based) of bad rows."""
        if not rows:
            return []
        plain = [r for r, _ in rows]
        n, bad, r = vlib.validate_lines(self.ctx, "Trace_Bash", plain, timeout=timeout)
        if n < len(plain):
            n, bad, r = vlib.validate_lines(self.ctx, "Trace_Bash", plain, timeout=timeout)
            if n < len(plain):
                self.ctx.note_inconclusive("%s: TLC evaluated %d of %d lines (rc=%s)" % (what, n, len(plain), r.rc))
        self.ev.add("tlc_line_states", r.distinct)
        self.lines_validated += n
        groups = {}
        for i in bad:
            row, v = rows[i - 1]
            groups.setdefault(key_of(row, v), []).append((len(json.dumps(row)), i, row, v))
        for key, g in groups.items():
            g.sort(key=lambda t: t[:2])
            _, i, row, v = g[0]                     # the smallest failing line of the class is the replay datum
            self.ctx.violation(key, "%s (variant %s): the recorded call differs from the value the standard defines (%d line(s) of %s, classes %s)"
                               % (row["op"], v, len(g), what, sorted(set(str(x[2].get("cls")) for x in g))[:8]),
                               json.dumps({"line": row, "variant": v, "other_failing_classes": sorted(set(str(x[2].get("cls")) for x in g)),
                                           "how": "VERIF_SEED=%d ./check C03 --tier %s; recomputed by spec/trace/Trace_Bash.tla LineOk" % (self.ctx.seed, self.tier)}))
        return [i - 1 for i in bad]

    # ---- (1)
    def lines(self):
        ctx = self.ctx
        rel = []
        for what in ("bash", "brng", "botp"):
            rel += self.record("rel", what)
        cands = suite_candidates()
        if ctx.quick:
            # all fault cases, every 6th of the valid-token products (offset by the seed)
            prod = 3 * 2 * 3 * 5 * 4 * 8
            cands = cands[ctx.seed % 6:prod:6] + cands[prod:]
        rel += self.record("rel", "suites", stdin=("\n".join(cands) + "\n").encode())
        self.ev.cov["ocra_suite_candidates"] = len(cands)
        rows = [(r, "rel") for r in rel]
        relbash = [r for r in rel if r["op"] in ("bashF", "bashHash", "bashHashV")]
        same = 0
        for v in self.drv:
            if v == "rel":
                continue
            vr = self.record(v, "bash")
            if len(vr) != len(relbash):
                ctx.violation("record-shape:" + v, "variant %s recorded %d bash lines, BASH_64 %d" % (v, len(vr), len(relbash)))
            for a, b in zip(vr, relbash):
                if a == b:
                    same += 1          # the very same line is validated once (as the rel line)
                else:
                    rows.append((a, v))
        self.ev.cov["variant_lines_identical_to_BASH_64"] = same
        bad = self.judge(rows, "record")
        badset = set(bad)
        self.good_rel = [r for i, (r, v) in enumerate(rows) if v == "rel" and i not in badset]
        self.lines_validated += same
        self.distinct |= set(key_of(r, v) for r, v in rows)
        ops = {}
        for r, _ in rows:
            ops[r["op"]] = ops.get(r["op"], 0) + 1
        self.ev.cov["recorded_lines_by_op"] = ops
        for want in ("bashF", "bashHash", "brngCTR", "brngHMAC", "ocra"):
            for r in rel:
                if r["op"] == want:
                    self.ev.sample(brief(r), cap=12)
                    break
        return rel

    def selftest_lines(self, rel):
        """Binding: corrupt one recorded field of one line per kind (among the lines TLC accepted);
        TLC must flag exactly those."""
        rel = getattr(self, "good_rel", rel)
        mut = []
        def pick(op, pred=lambda r: True):
            for r in rel:
                if r["op"] == op and pred(r):
                    return dict(r)
            return None
        def flip(r, field, at=0):
            o = list(r[field]); o[at] ^= 1; r[field] = o; return r
        for op, field in (("bashF", "out"), ("bashHash", "out"), ("brngCTR", "iv2"), ("brngHMAC", "out"), ("dt", "otp"), ("ctrNext", "out"),
                          ("hotp", "otp"), ("totp", "otp"), ("ocra", "otp"), ("hotpSeq", "ctr2")):
            ok = (lambda r: r.get("err", "OK") == "OK" and len(r.get(field, [])) > 0 and "ff=32" not in r.get("cls", "") and "FF..FF" not in r.get("cls", ""))
            r = pick(op, ok)
            if r:
                mut.append(flip(r, field, len(r[field]) - 1))
        r = pick("ocraSuite")
        if r:
            r["ok"] = not r["ok"]; mut.append(r)
        r = pick("bashHashV")
        if r:
            r["ok"] = not r["ok"]; mut.append(r)
        r = pick("brngCTR", lambda r: "ff=8:zero" in r.get("cls", ""))
        if r:
            mut.append(flip(r, "out", 40))          # second block
        n, bad, res = vlib.validate_lines(self.ctx, "Trace_Bash", mut, timeout=600)
        self.ev.cov["selftest_corrupted_lines"] = len(mut)
        self.ev.cov["selftest_lines_rejected"] = len(bad)
        if n != len(mut) or len(bad) != len(mut):
            self.ctx.note_inconclusive("binding self-test (lines): %d of %d corrupted lines rejected, %d evaluated" % (len(bad), len(mut), n))

    # ---- (2) + (3)
    def mc(self, name, configs, depth, maxsteps, classes, restarts, simulate=None, simdepth=None, workers=None, timeout=1500):
        ctx = self.ctx
        out = ctx.path(name + "_cases")
        shutil.rmtree(out, ignore_errors=True)
        os.makedirs(out, exist_ok=True)
        cfg = ctx.path(name + ".cfg")
        with open(cfg, "w") as f:
            f.write("SPECIFICATION MCSpec\nCONSTANTS\n Configs = {%s}\n Depth = %d\n MaxSteps = %d\n Classes = {%s}\n Restarts = {%s}\n Seed = %d\n OutDir = \"%s\"\n"
                    % (", ".join(str(c) for c in configs), depth, maxsteps, ", ".join('"%s"' % c for c in classes),
                       ", ".join(str(r) for r in restarts), ctx.seed % 1000, out))
            f.write("INVARIANT TypeOK PosInv BufLenInv CapacityInv KeyModeInv OutLenInv EmitCases\nPROPERTY EncrDecrLaw DecrEncrLaw\n")
        r = vlib.tlc("MC_BashPrg", cfg, timeout=timeout, simulate=simulate, depth=simdepth, seed=ctx.seed if simulate else None,
                     workers=workers, quiet=True)
        vlib.log("[mc] %s rc=%s states=%d/%d depth=%d %.1fs" % (name, r.rc, r.generated, r.distinct, r.depth, r.wall))
        if simulate:
            m = re.search(r"The number of states generated: (\d+)", r.out)
            if m:
                r.generated = r.distinct = int(m.group(1))
        files = sorted(glob.glob(os.path.join(out, "*.json")))
        if vlib.tlc_infra_failed(r):
            ctx.note_inconclusive("MC_BashPrg run %s gave no verdict (rc=%s): %s" % (name, r.rc, (r.error or "")[-300:]))
        elif r.rc != 0:
            # a property of the specification fails on the model itself: a specification problem, not a finding about the code
            ctx.note_inconclusive("MC_BashPrg run %s: the specification violates its own property %s (model-level, not reported)"
                                  % (name, vlib.violated_property(r.out)))
        else:
            self.states += r.distinct
            self.transitions += r.generated
            self.ev.cov.setdefault("mc_runs", {})[name] = {"states": r.distinct, "transitions": r.generated, "depth": r.depth,
                                                            "cases": len(files), "exhaustive": not simulate, "wall_s": round(r.wall, 1)}
        return files

    def replay(self, name, files):
        """Execute the predicted scripts on every variant; compare after every command."""
        ctx = self.ctx
        if not files:
            return
        cases = []
        for f in files:
            try:
                cases.append(json.load(open(f)))
            except Exception:
                pass
        script = "".join(case_to_script(c) for c in cases).encode()
        byid = {c["id"]: c for c in cases}
        opcount = {}
        for c in cases:
            for h in c["hist"]:
                opcount[h["op"]] = opcount.get(h["op"], 0) + 1
                self.distinct.add("prg:%s:%s" % (c["hist"][0]["code"], h["code"]))
        agg = self.ev.cov.setdefault("replayed_commands_by_op", {})
        for k, n in opcount.items():
            agg[k] = agg.get(k, 0) + n * len(self.drv)
        for v in list(self.drv):
            rc, out, err = self.run_drv(v, ["replay"], "replay " + name, stdin=script, timeout=1800)
            if rc is None:
                continue
            res = [json.loads(l) for l in out.splitlines() if l.strip().endswith("}")]
            if rc != 0:
                last = res[-1]["id"] if res else "(first case)"
                ctx.violation("replay-crash:%s:%s" % (name, v), "bashPrg* crashed while replaying a predicted script (variant %s, after case %s, rc=%d): %s"
                              % (v, last, rc, err[-600:]), {"variant": v, "after": last})
            self.replayed += len(res)
            groups = {}
            for x in res:
                if x.get("ok"):
                    continue
                c = byid.get(x["id"], {})
                hist = c.get("hist", [])
                st = hist[x["step"] - 1] if 0 < x.get("step", 0) <= len(hist) else {}
                key = "bashPrg:%s:%s:%s" % (x.get("at"), st.get("code", "?"), x.get("what", "").split(":")[0].replace(" ", "_"))
                if v != "rel":
                    key += ":" + v
                groups.setdefault(key, []).append((len(hist), x["id"], x, c))
            for key, g in groups.items():
                g.sort(key=lambda t: t[:2])
                _, cid, x, c = g[0]                   # the shortest failing script of the class
                ctx.violation(key, "real automaton differs from the specification's prediction at command %d (%s) of case %s, variant %s: %s (%d case(s) of this class)"
                              % (x.get("step", -1), x.get("at"), cid, v, x.get("what"), len(g)),
                              json.dumps({"variant": v, "case": cid, "result": x, "other_cases": [t[1] for t in g[1:30]],
                                          "script": case_to_script(c) if c else None,
                                          "how": "build/bin/drv_bash-%s-* replay < script (the lines of 'script')" % v}))
        for c in cases[:1] + cases[len(cases) // 2:len(cases) // 2 + 1]:
            self.ev.sample({"replay_case": c["id"], "commands": [{k: (h[k] if not isinstance(h[k], list) or len(h[k]) <= 24 else h[k][:24] + ["...(%d)" % len(h[k])])
                                                              for k in ("op", "n", "data", "out", "pos", "buflen")} for h in c["hist"]]}, cap=12)
        if not ctx.quick:
            shutil.rmtree(os.path.dirname(files[0]), ignore_errors=True)     # thorough: hundreds of MB of cases
        return cases

    def selftest_replay(self, cases):
        """Binding of the replay direction: a corrupted prediction must be reported by the driver."""
        c = None
        for x in cases or []:
            if any(h["op"] == "squeezeStep" and h["n"] > 0 for h in x["hist"]):
                c = json.loads(json.dumps(x)); break
        if c is None:
            return
        good = case_to_script(c)
        for h in c["hist"]:
            if h["op"] == "squeezeStep" and h["n"] > 0:
                h["out"][0] ^= 1; break
        bad1 = case_to_script(c)
        c2 = json.loads(json.dumps(byfirst(cases)))
        c2["hist"][-1]["pos"] = (c2["hist"][-1]["pos"] + 1) % 192
        rc, out, _ = self.run_drv("rel", ["replay"], "replay self-test", stdin=(good + bad1 + case_to_script(c2)).encode(), timeout=120)
        if rc is None:
            return
        res = [json.loads(l) for l in out.splitlines() if l.strip().endswith("}")]
        verdicts = [x.get("ok") for x in res]
        self.ev.cov["selftest_replay_verdicts"] = verdicts
        if verdicts != [True, False, False]:
            self.ctx.note_inconclusive("binding self-test (replay): expected [ok, differs, differs], got %s" % verdicts)

    # ---- (4)
    def scripts(self, nscripts, length, shards):
        ctx = self.ctx
        files = {}
        for v in list(self.drv):
            p = ctx.path("scripts_%s.ndjson" % v)
            rc, _, err = self.run_drv(v, ["scripts", nscripts, length], "scripts", out_path=p, env=self.env, timeout=600)
            if rc is None:
                continue
            if rc != 0:
                ctx.violation("scripts-crash:" + v, "bashPrg* crashed in a random script (variant %s, rc=%d): %s" % (v, rc, err[-600:]))
                continue
            files[v] = p
        if "rel" not in files:
            return
        todo = [("rel", files["rel"])]
        ref = open(files["rel"], "rb").read()
        same = 0
        for v, p in files.items():
            if v == "rel":
                continue
            if open(p, "rb").read() == ref:
                same += 1
            else:
                todo.append((v, p))
        self.ev.cov["script_files_identical_to_BASH_64"] = same
        jobs = []
        for v, p in todo:
            rows = vlib.read_ndjson(p)
            groups, cur = [], []
            for r in rows:
                if r["e"] == "Reset" and cur:
                    groups.append(cur); cur = []
                cur.append(r)
            if cur:
                groups.append(cur)
            k = max(1, min(shards, len(groups)))
            for i in range(k):
                part = [r for g in groups[i::k] for r in g]
                sp = ctx.path("scripts_%s_%d.ndjson" % (v, i))
                vlib.write_ndjson(sp, part)
                jobs.append((v, sp, part))
        def one(job):
            v, sp, part = job
            time.sleep(0.1 * jobs.index(job))          # distinct TLC metadir names (vlib names them by the millisecond)
            r = vlib.tlc("Trace_Bash", "Trace_BashPrg.cfg", env={"TRACE": sp}, workers=1, timeout=1500, quiet=True, xmx="3g")
            return job, r
        results = vlib.parallel([(lambda j=j: one(j)) for j in jobs], n=min(len(jobs), vlib.NCPU))
        nlines = nscr = 0
        for (v, sp, part), r in results:
            self.ev.add("tlc_trace_states", r.distinct)
            if vlib.tlc_infra_failed(r) and "@REJECT" not in r.out:
                ctx.note_inconclusive("trace validation of %s gave no verdict (rc=%s) %s" % (os.path.basename(sp), r.rc, (r.error or "")[-300:]))
                continue
            m = re.search(r'"@REJECT",\s*(\d+)', r.out)
            if r.rc == 0 and not m:
                nlines += len(part); nscr += sum(1 for x in part if x["e"] == "Reset")
                continue
            if m:
                at = int(m.group(1))
                row = part[at - 1] if at <= len(part) else {"e": "end"}
                j = at - 1
                while j > 0 and part[j]["e"] != "Reset":
                    j -= 1
                hist = [x["e"] + (":%d" % len(x.get("data", x.get("out", []))) if "Step" in x["e"] else "") for x in part[j + 1:at]]
                key = "bashPrgTrace:%s%s" % (row["e"], "" if v == "rel" else ":" + v)
                ctx.violation(key, "recorded script (variant %s) is not a behaviour of the specification: rejected at line %d (%s) after %s"
                              % (v, at, row["e"], hist[-6:]), {"variant": v, "script": [brief(x) for x in part[j:at]]})
            else:
                inv = vlib.violated_property(r.out)
                ctx.note_inconclusive("trace validation of %s: rc=%s %s" % (os.path.basename(sp), r.rc, inv))
        self.lines_validated += nlines
        self.ev.cov["recorded_scripts_accepted"] = nscr
        self.ev.cov["recorded_script_lines_accepted"] = nlines
        # binding self-test: a corrupted / shortened script must be rejected
        v, sp, part = jobs[0]
        tests = []
        step = next((i for i, x in enumerate(part) if x["e"].endswith("Step")), None)
        if step is not None:
            a = json.loads(json.dumps(part)); a[step]["pos"] = (a[step]["pos"] + 1) % a[step]["buflen"]; tests.append(("pos", a[:step + 2]))
        st = next((i for i, x in enumerate(part) if x["e"].endswith("Start") and x["e"] != "Start"), None)
        if st is not None:
            b = json.loads(json.dumps(part)); b[st]["s"][100] ^= 4; tests.append(("state", b[:st + 2]))
            c = json.loads(json.dumps(part)); del c[st]; tests.append(("dropped", c[:st + 3]))
        rej = 0
        for nm, rows in tests:
            tp = ctx.path("selftest_trace_%s.ndjson" % nm)
            vlib.write_ndjson(tp, rows)
            r = vlib.tlc("Trace_Bash", "Trace_BashPrg.cfg", env={"TRACE": tp}, workers=1, timeout=300, quiet=True, xmx="2g")
            if "@REJECT" in r.out:
                rej += 1
        self.ev.cov["selftest_corrupted_scripts"] = len(tests)
        self.ev.cov["selftest_scripts_rejected"] = rej
        if rej != len(tests):
            ctx.note_inconclusive("binding self-test (scripts): %d of %d corrupted scripts rejected" % (rej, len(tests)))


    # ---- (5) the one-time-password state objects
    def botp_plan(self):
        """(name, family, cases, alphabet, depth, TLC workers).  Cases = digit (suite) * 10 + counter (time) class; the quick
        tier takes a subset picked by the seed, the thorough tier every digit x class."""
        s = self.ctx.seed
        rot = lambda c: 6 + (c + s) % 3
        if self.ctx.quick:
            cs, ns = [1, 2, 5][s % 3], [4, 3][s % 2]
            return [("hotp_core", "hotp", [rot(0) * 10 + 1 + s % 7], HOTP_CORE, 6, 5),
                    # classes 2 (32-bit word wrap) and 3 (2^64 wrap) always, two of the others by the seed; S6 brings in FF..FF
                    ("hotp_full", "hotp", [rot(c) * 10 + c for c in sorted({2, 3, [1, 4, 5, 7][s % 4], [1, 4, 5, 7][(s % 4 + 1 + (s // 4) % 3) % 4]})], HOTP_FULL, 3, 4),
                    ("totp", "totp", [rot(c) * 10 + c for c in range(1, 6)], TOTP_FULL, 3, 3),
                    ("ocra", "ocra", [cs * 10 + 1 + (s // 3) % 7, ns * 10 + 1], OCRA_CORE, 4, 4),
                    # challenges of different lengths on one state (suite QA04: 8 octets = a double challenge, then 4)
                    ("ocra_q", "ocra", [2 * 10 + 1 + s % 3], ["S", "R", "Rq", "Vc", "Vq", "Vw"], 4, 4)]
        return [("hotp_core", "hotp", [rot(0) * 10 + 2, rot(1) * 10 + 3], HOTP_CORE, 7, 8),
                ("hotp_full", "hotp", [d * 10 + c for d in (6, 7, 8) for c in range(1, 8)], HOTP_FULL, 4, 8),
                ("totp", "totp", [d * 10 + c for d in (6, 7, 8) for c in range(1, 6)], TOTP_FULL, 4, 6),
                ("ocra_core", "ocra", [10 + 2, 20 + 3, 50 + 6, 30 + 1, 40 + 1], OCRA_CORE, 5, 8),
                ("ocra_full", "ocra", [10 + 3, 20 + 6, 50 + 4, 30 + 1, 40 + 1], OCRA_FULL, 3, 8)]

    def botp_mc(self, name, fam, cases, alpha, depth, workers):
        cfg = self.ctx.path("botp_%s.cfg" % name)
        with open(cfg, "w") as f:
            f.write('SPECIFICATION MCSpec\nCONSTANTS\n Family = "%s"\n Cases = {%s}\n Alphabet = {%s}\n Depth = %d\n Seed = %d\n'
                    ' OtpH <- OtpHTab\n OtpO <- OtpOTab\nINVARIANT TypeOK CtrShape OtpShape SessShape Emit\n'
                    'PROPERTY P_FailKeeps P_CtrMoves P_Consumes P_GetPure P_GetCtr P_Sync\n'
                    % (fam, ", ".join(str(c) for c in cases), ", ".join('"%s"' % a for a in alpha), depth, self.ctx.seed % 1000))
        r = vlib.tlc("MC_BotpSM", cfg, timeout=600 if self.ctx.quick else 3000, workers=workers, quiet=True)
        vlib.log("[botp] %s rc=%s states=%d/%d %.1fs" % (name, r.rc, r.generated, r.distinct, r.wall))
        return r

    def botp_exec(self, script, what):
        """run histories on the real state object; returns {id: [logged lines]} or None"""
        b = vlib.harness("drv_botp", ["drv_botp.c"], "rel")
        p = self.ctx.path("botp_log_%s.ndjson" % what)
        rc, _, err = vlib.run_harness(b, ["run"], stdin=script.encode(), out_path=p, timeout=900)
        if rc in self.INFRA_RC:
            self.ctx.note_inconclusive("drv_botp (%s) could not be run / timed out (rc=%s)" % (what, rc))
            return None
        logs, cur = {}, None
        for l in open(p):
            l = l.strip()
            if not l.endswith("}"):
                continue
            x = json.loads(l)
            if x.get("e") == "Reset":
                cur = logs.setdefault(x["id"], [])
            elif cur is not None:
                cur.append(x)
        if rc != 0:
            self.ctx.violation("botpSM:crash:" + what, "a botp Step function crashed while a predicted history was executed (%s, rc=%d, after history %s): %s"
                               % (what, rc, list(logs)[-1] if logs else "(first)", err[-600:]), {"what": what, "stderr": err[-3000:]})
        return logs

    def botp_compare(self, name, fam, cases, logs):
        """every predicted output of every call against the log; disagreements are grouped by (family, call class, field)
        over all runs and reported once per group (botp_report).  Returns (calls compared, histories disagreeing)."""
        steps = nbad = 0
        for c in cases:
            got = logs.get(c["id"])
            if got is None:
                d = (1, c["hist"][0]["e"], "history-not-executed")
            else:
                d = botp_diff(c["hist"], got)
            steps += len(c["hist"])
            if d:
                i, e, field = d
                h = c["hist"][i - 1] if i <= len(c["hist"]) else {"e": e}
                self.botp_groups.setdefault("botpSM:%s:%s:%s" % (fam, botp_class(h), field), []).append((i, len(c["id"]), c["id"], c, got, name))
                nbad += 1
        return steps, nbad

    def botp_report(self):
        for key, g in sorted(self.botp_groups.items()):
            g.sort(key=lambda t: t[:3])
            i, _, cid, c, got, name = g[0]              # the history that fails earliest (shortest prefix) is the replay datum
            field = key.rsplit(":", 1)[1]
            pred = c["hist"][i - 1] if i <= len(c["hist"]) else {}
            self.ctx.violation(key, "botp state object differs from botp.h's documented semantics at call %d (%s) of history %s: field '%s' predicted %s, "
                               "real object %s (%d histories fail in this class, runs %s; shortest failing prefix %s)"
                               % (i, pred.get("e", "?"), cid, field, pred.get(field), (got[i - 1].get(field) if got and i <= len(got) else None),
                                  len(g), sorted(set(t[5] for t in g)), ".".join(cid.split(".")[:i])),
                               json.dumps({"history": cid, "failing_call": i, "predicted": c["hist"], "logged": got,
                                           "other_histories": [t[2] for t in g[1:30]], "script": botp_script(c),
                                           "how": "build/bin/drv_botp-rel-* run < script; predicted by spec/mc/MC_BotpSM.tla over spec/sm/BotpSM.tla"}))

    def botp_trace(self, rows, what, shards):
        """record direction: logged histories stepped through BotpSM's actions (Trace_Botp), sharded at Reset lines.
        Returns (histories accepted, lines accepted)."""
        ctx = self.ctx
        hs, cur = [], []
        for r in rows:
            if r["e"] == "Reset" and cur:
                hs.append(cur); cur = []
            cur.append(r)
        if cur:
            hs.append(cur)
        k = max(1, min(shards, len(hs)))
        jobs = []
        for i in range(k):
            part = [r for h in hs[i::k] for r in h]
            sp = ctx.path("botp_trace_%s_%d.ndjson" % (what, i))
            vlib.write_ndjson(sp, part)
            jobs.append((sp, part))
        res = vlib.parallel([(lambda j=j: vlib.tlc("Trace_Botp", env={"TRACE": j[0]}, workers=1, timeout=900, quiet=True, xmx="2g")) for j in jobs],
                            n=min(len(jobs), vlib.NCPU))
        nh = nl = 0
        for (sp, part), r in zip(jobs, res):
            self.ev.add("tlc_trace_states", r.distinct)
            m = re.search(r'"@REJECT",\s*(\d+)', r.out)
            if r.rc == 0 and not m:
                nl += len(part); nh += sum(1 for x in part if x["e"] == "Reset")
                continue
            if m:
                at = int(m.group(1))
                row = part[at - 1] if at <= len(part) else {"e": "end"}
                j = at - 1
                while j > 0 and part[j]["e"] != "Reset":
                    j -= 1
                fam = next((x["e"][:4].lower() for x in part[j + 1:at] if x["e"].endswith("Start")), "botp")
                cls = row["e"] + ((":accept" if row.get("ok") else ":reject") if row["e"].endswith("StepV") else "")
                key = "botpSM:%s:%s:trace" % (fam, cls)
                if key in self.botp_trace_keys:
                    continue
                self.botp_trace_keys.add(key)
                ctx.violation(key, "recorded history %s of a botp state object is not a behaviour of sm/BotpSM: rejected at call %d (%s) after %s"
                              % (part[j].get("id"), at - j - 1, row["e"], [x["e"] for x in part[j + 1:at - 1]][-8:]),
                              json.dumps({"history": part[j:at], "how": "TRACE=<these lines as ndjson> tlc spec/trace/Trace_Botp.tla -workers 1"}))
            elif vlib.tlc_infra_failed(r):
                ctx.note_inconclusive("trace validation of %s gave no verdict (rc=%s) %s" % (os.path.basename(sp), r.rc, (r.error or "")[-300:]))
            else:
                # an invariant / action property of BotpSM fails on a recorded step
                inv = vlib.violated_property(r.out)
                ctx.violation("botpSM:trace:" + str(inv), "a recorded history of a botp state object violates %s of sm/BotpSM (%s)" % (inv, os.path.basename(sp)),
                              {"file": sp, "tlc": (r.violation or "")[:3000]})
        return nh, nl

    def botp_sm(self):
        ctx = self.ctx
        t0 = time.time()
        plan = self.botp_plan()
        self.botp_groups = {}
        self.botp_trace_keys = set()
        b = vlib.harness("drv_botp", ["drv_botp.c"], "rel")
        # record direction input: seeded random histories of the driver
        nrand, lrand = (18, 10) if ctx.quick else (120, 24)
        prand = ctx.path("botp_rand.ndjson")
        rc, _, err = vlib.run_harness(b, ["rand", nrand, lrand], out_path=prand, env=self.env, timeout=300)
        rand_rows = []
        if rc in self.INFRA_RC:
            ctx.note_inconclusive("drv_botp rand could not be run (rc=%s)" % rc)
        else:
            rand_rows = [json.loads(l) for l in open(prand) if l.strip().endswith("}")]
            if rc != 0:
                ctx.violation("botpSM:crash:rand", "a botp Step function crashed in a random history (rc=%d): %s" % (rc, err[-600:]), {"stderr": err[-3000:]})
        # all TLC runs at once: the enumerations and the validation of the random histories
        jobs = [(lambda p=p: self.botp_mc(*p)) for p in plan]
        jobs.append(lambda: self.botp_trace(rand_rows, "rand", 4 if ctx.quick else 14) if rand_rows else (0, 0))
        jobs.append(lambda: self.botp_selftest_trace(rand_rows))
        results = vlib.parallel(jobs, n=len(jobs))
        nh, nl = results[-2]
        runs = self.ev.cov.setdefault("botp_sm_runs", {})
        tot_h = tot_s = tot_bad = 0
        sample_rows, first_cases, first_logs = [], None, None
        for (name, fam, cases_code, alpha, depth, _), r in zip(plan, results[:-2]):
            if vlib.tlc_infra_failed(r):
                ctx.note_inconclusive("MC_BotpSM run %s gave no verdict (rc=%s): %s" % (name, r.rc, (r.error or "")[-300:]))
                continue
            if r.rc != 0:
                ctx.note_inconclusive("MC_BotpSM run %s: the specification violates its own property %s (model-level, not reported)"
                                      % (name, vlib.violated_property(r.out)))
                continue
            cases = r.jsons()
            r.out = ""; r.prints = []
            ids = set(c["id"] for c in cases)
            if not cases or len(ids) != len(cases):
                ctx.note_inconclusive("MC_BotpSM run %s emitted %d histories (%d distinct ids)" % (name, len(cases), len(ids)))
                continue
            logs = self.botp_exec("".join(botp_script(c) for c in cases), name)
            if logs is None:
                continue
            steps, nbad = self.botp_compare(name, fam, cases, logs)
            tot_h += len(cases); tot_s += steps; tot_bad += nbad
            self.states += r.distinct; self.transitions += r.generated
            runs[name] = {"family": fam, "cases": cases_code, "alphabet": alpha, "depth": depth, "states": r.distinct, "transitions": r.generated,
                          "histories": len(cases), "calls_compared": steps, "histories_disagreeing": nbad, "exhaustive": True, "wall_s": round(r.wall, 1)}
            for c in cases:
                for code in c["id"].split(".")[1:]:
                    self.distinct.add("botp:%s:%s" % (fam, code))
            # a spread sample of the executed histories also goes through the record direction
            step = max(1, len(cases) // (4 if ctx.quick else 12))
            for c in cases[step // 2::step]:
                sample_rows.append({"e": "Reset", "id": c["id"]}); sample_rows += logs.get(c["id"], [])
            if first_cases is None and fam == "hotp":
                first_cases, first_logs = cases, logs
            if cases:
                c = cases[len(cases) // 2]
                self.ev.sample({"botp_history": c["id"], "calls": [brief(h) for h in c["hist"]]}, cap=14)
        self.botp_report()
        sh, sl = self.botp_trace(sample_rows, "sample", 3 if ctx.quick else 14) if sample_rows else (0, 0)
        self.replayed += tot_h
        self.lines_validated += nl + sl
        self.ev.cov["botp_histories_replayed"] = tot_h
        self.ev.cov["botp_calls_compared"] = tot_s
        self.ev.cov["botp_histories_disagreeing"] = tot_bad
        self.ev.cov["botp_recorded_histories_accepted"] = nh + sh
        self.ev.cov["botp_recorded_calls_accepted"] = nl + sl
        self.botp_selftest_replay(first_cases, first_logs)
        vlib.log("[C03] botp state objects: %d histories / %d calls replayed, %d recorded calls accepted, %.1fs" % (tot_h, tot_s, nl + sl, time.time() - t0))

    def botp_selftest_replay(self, cases, logs):
        """Binding (replay): one corrupted logged output per kind must be reported by the comparison, the untouched log must not."""
        ctx = self.ctx
        if cases and logs:
            verdicts = []
            def first(pred):
                for c in cases:
                    for i, h in enumerate(c["hist"]):
                        if pred(h):
                            return c, i
                return None, None
            for kind, pred in (("otp", lambda h: h["e"] == "HotpStepR"), ("pc", lambda h: h["e"] == "HotpStepV" and not h["ok"]),
                               ("ok", lambda h: h["e"] == "HotpStepV" and h["ok"]), ("got", lambda h: h["e"] == "HotpStepG")):
                c, i = first(pred)
                if c is None:
                    continue
                got = json.loads(json.dumps(logs[c["id"]]))
                clean = botp_diff(c["hist"], got)
                if kind == "ok":
                    got[i]["ok"] = not got[i]["ok"]
                else:
                    got[i][kind][-1] ^= 1
                d = botp_diff(c["hist"], got)
                verdicts.append(clean is None and d is not None and d[0] == i + 1 and d[2] == kind)
            self.ev.cov["selftest_botp_replay_corruptions"] = len(verdicts)
            self.ev.cov["selftest_botp_replay_detected"] = sum(verdicts)
            if not verdicts or not all(verdicts):
                ctx.note_inconclusive("binding self-test (botp replay): %s" % verdicts)

    def botp_selftest_trace(self, rand_rows):
        """Binding (record): a corrupted / dropped logged line must be rejected by Trace_Botp at that line."""
        ctx = self.ctx
        if rand_rows:
            tests = []
            def cut(rows, i):          # the history containing line i, up to one line after it
                j = i
                while j > 0 and rows[j]["e"] != "Reset":
                    j -= 1
                return rows[j:i + 2], i - j + 1
            def find(pred):
                return next((i for i, r in enumerate(rand_rows) if pred(r)), None)
            for kind, pred in (("pc", lambda r: r["e"] == "HotpStepV" and not r["ok"]), ("otp", lambda r: r["e"] == "HotpStepR"),
                               ("ok", lambda r: r["e"] == "OcraStepV"), ("got", lambda r: r["e"] == "HotpStepG"), ("totp", lambda r: r["e"] == "TotpStepR")):
                i = find(pred)
                if i is None:
                    continue
                a = json.loads(json.dumps(rand_rows))
                if kind == "ok":
                    a[i]["ok"] = not a[i]["ok"]
                elif kind == "totp":
                    a[i]["otp"][0] = 48 + (a[i]["otp"][0] - 47) % 10
                elif kind == "otp":
                    a[i]["otp"][-1] = 48 + (a[i]["otp"][-1] - 47) % 10
                else:
                    a[i][kind][-1] ^= 1
                rows, at = cut(a, i)
                tests.append((kind, rows, at))
            # a dropped StepS: the next call (one that needs the counter) is then not enabled
            i = next((i for i in range(len(rand_rows) - 1) if rand_rows[i]["e"] == "HotpStepS" and rand_rows[i - 1]["e"] == "HotpStart"
                      and rand_rows[i + 1]["e"] in ("HotpStepR", "HotpStepV", "HotpStepG")), None)
            if i is not None:
                a = json.loads(json.dumps(rand_rows)); rows, at = cut(a, i + 1); del rows[at - 2]
                tests.append(("dropped", rows, at - 1))
            def one(t):
                kind, rows, at = t
                tp = ctx.path("selftest_botp_%s.ndjson" % kind)
                vlib.write_ndjson(tp, rows)
                r = vlib.tlc("Trace_Botp", env={"TRACE": tp}, workers=1, timeout=300, quiet=True, xmx="2g")
                m = re.search(r'"@REJECT",\s*(\d+)', r.out)
                return bool(m) and int(m.group(1)) == at
            rej = vlib.parallel([(lambda t=t: one(t)) for t in tests], n=max(1, len(tests)))
            self.ev.cov["selftest_botp_corrupted_histories"] = len(tests)
            self.ev.cov["selftest_botp_histories_rejected"] = sum(rej)
            if not tests or not all(rej):
                ctx.note_inconclusive("binding self-test (botp trace): %s rejected at the corrupted line: %s" % ([t[0] for t in tests], rej))


def byfirst(cases):
    return cases[0]


def run(ctx):
    R = Run(ctx)
    ev = ctx.ev
    if not R.anchors():
        return
    if not R.drivers():
        return
    # (1) one-shot lines
    t0 = time.time()
    rel = R.lines()
    R.selftest_lines(rel)
    vlib.log("[C03] one-shot lines %.1fs" % (time.time() - t0))

    # (5) the botp state objects: all bounded histories replayed, random histories recorded
    R.botp_sm()

    # (2)+(3) automaton: exhaustive exploration + replay
    def codes(cfgs):
        return [cfg_code(l, d, *start_lens(l, d, k)) for l, d, k in cfgs]
    allc = codes(ALL_CONFIGS)
    keyless = [c for c in ALL_CONFIGS if not c[2]]
    keyed = [c for c in ALL_CONFIGS if c[2]]
    first = None
    if ctx.quick:
        # depth 2 on all 12 configurations, all five length classes
        f = R.mc("d2_all", allc, 2, 1, CLASSES5, [0, 41], timeout=900)
        first = R.replay("d2_all", f)
        # depth 3 on two configurations (seed picks which; keyless ones, whose restart-with-key
        # subtrees are in key mode), the two classes straddling the rate
        two = [keyless[ctx.seed % 3], keyless[3 + (ctx.seed // 3) % 3]]
        f = R.mc("d3_two", codes(two), 3, 1, ["b-1", "b+1"], [0, 41], timeout=900)
        R.replay("d3_two", f)
        ev.cov["depth3_configurations"] = ["l=%d d=%d keyless" % (l, d) for l, d, _ in two]
        # every admissible announcement / key length at start (depth 1, squeeze only is enough to see the state)
        starts = []
        for l, d, k in [ALL_CONFIGS[(ctx.seed + i) % 12] for i in range(0, 12, 3)]:
            for al in (0, 4, 60):
                for kl in ((l // 8, l // 8 + 4, 60) if k else (0,)):
                    starts.append(cfg_code(l, d, al, kl))
        f = R.mc("starts", starts, 1, 1, ["b+1"], [602, 41, 0], timeout=600)
        R.replay("starts", f)
        # deeper histories by simulation
        simc = codes([keyed[ctx.seed % 6], keyless[(ctx.seed + 1) % 6]])
        f = R.mc("sim", simc, 6, 2, CLASSES5 + ["2b"], [0, 41, 602], simulate=8, simdepth=30, workers=8, timeout=600)
        R.replay("sim", f)
    else:
        # depth 3 on all 12 configurations: keyless with all five classes, keyed with the classes {1, b-1, b+1}
        # (a keyed level has 27 continuations with five classes: 6 x 25k states; with three: 6 x 4.5k)
        f = R.mc("d2_all", allc, 2, 1, CLASSES5, [0, 41], timeout=2400)
        first = R.replay("d2_all", f)
        for i in range(0, 6, 3):
            f = R.mc("d3_keyless_%d" % i, codes(keyless[i:i + 3]), 3, 1, CLASSES5, [0, 41], timeout=2400)
            R.replay("d3_keyless_%d" % i, f)
        for i in range(0, 6, 3):
            f = R.mc("d3_keyed_%d" % i, codes(keyed[i:i + 3]), 3, 1, ["1", "b-1", "b+1"], [0, 41], timeout=2400)
            R.replay("d3_keyed_%d" % i, f)
        starts = []
        for l, d, k in ALL_CONFIGS:
            for al in (0, 4, 32, 60):
                for kl in ((l // 8, l // 8 + 4, 60) if k else (0,)):
                    starts.append(cfg_code(l, d, al, kl))
        f = R.mc("starts", starts, 1, 1, CLASSES5, [602, 41, 0], timeout=2400)
        R.replay("starts", f)
        # chains of up to three Steps per command (the position carries over between Steps)
        f = R.mc("steps3", allc, 1, 3, CLASSES5 + ["2b"], [0], timeout=2400)
        R.replay("steps3", f)
        f = R.mc("sim", allc, 8, 2, CLASSES5 + ["2b"], [0, 41, 602], simulate=32, simdepth=40, workers=16, timeout=2400)
        R.replay("sim", f)
    R.selftest_replay(first)

    # (4) recorded random scripts
    t0 = time.time()
    if ctx.quick:
        R.scripts(12, 9, 6)
    else:
        R.scripts(96, 14, 16)

    vlib.log("[C03] recorded scripts %.1fs" % (time.time() - t0))
    # ---- (6) the one-call forms of the automaton commands (bashPrgAbsorb / Squeeze / Encr / Decr incl. empty texts) and the
    #          bash256 / bash384 / bash512 macro families: lines of harness/drv_misc.c judged by Trace_Misc (reuses BashF / BashPrg)
    try:
        md = vlib.harness("drv_misc", ["drv_misc.c"], "rel")
        mrows = []
        for part in ("prg", "bash"):
            mp = ctx.path("misc_%s.ndjson" % part)
            rc, _, err = vlib.run_harness(md, ["record", "quick" if ctx.quick else "thorough", part], out_path=mp, env={"VERIF_SEED": ctx.seed}, timeout=600)
            if rc != 0:
                ctx.violation("onecall:%s:crash" % part, "one-call automaton commands / hash macro families: driver stopped (rc=%d): %s" % (rc, err[-1200:]), err[-4000:])
            mrows += [json.loads(l) for l in open(mp) if l.strip().endswith("}")]
        nm, badm, rm = vlib.validate_lines(ctx, "Trace_Misc", mrows, timeout=1500)
        if nm < len(mrows):
            ctx.note_inconclusive("Trace_Misc evaluated %d of %d one-call / macro lines (rc=%s)" % (nm, len(mrows), rm.rc))
        for i in badm:
            x = mrows[i - 1]
            ctx.violation("onecall:%s:l=%s:d=%s:%s" % (x.get("op"), x.get("l", x.get("nnn", "")), x.get("d", ""), "keyed" if x.get("key") else "keyless"),
                          "one-call command sequence / macro family differs from the specification (empty and boundary text lengths included)", {"line": {k: (v if not isinstance(v, list) or len(v) < 48 else v[:48]) for k, v in x.items()}})
        R.lines_validated += nm
        ev.cov["onecall_macro_lines_validated"] = nm
    except (FileNotFoundError, vlib.BuildError) as e:
        ev.cov["onecall_macro_lines_validated"] = "not available: %s" % str(e)[:80]
    ev.cov["states"] = R.states
    ev.cov["transitions"] = R.transitions
    ev.cov["replayed_behaviours"] = R.replayed
    ev.cov["validated_lines"] = R.lines_validated
    ev.cov["traces_validated_against_impl"] = R.replayed + R.lines_validated
    ev.cov["distinct_structural_classes"] = len(R.distinct)
    ev.cov["exhaustive"] = False
    ev.cov["rule"] = ("automaton: BFS over Start x {restart, ratchet, absorb/squeeze/encr/decr Start + Steps} x data-length classes relative to "
                      "the free buffer {0,1,free-1,free,free+1} (exhaustive to the stated depth per run, see mc_runs), deeper by simulation; "
                      "one-shots: structure enumerated by the driver, data octets from the seed; each case involves >= 1 bash-f / belt-hash "
                      "evaluation by TLC from the standard's definition")
    ev.assume("STB 34.101.77 / 34.101.47 as transcribed in spec/ref/BashF.tla, spec/sm/BashPrg.tla, spec/ref/Brng.tla, spec/ref/Botp.tla, "
              "anchored by the appendix vectors evaluated by TLC in this run")
    ev.assume("OCRA time step: 1..59 S/M, 1..48 H without leading zero (botp.h profile; RFC 6287's 0H is not admitted); "
              "the counter returned by botpOCRAStepG is compared only for suites with a counter")
    ev.assume("botp state objects: the semantics of the Step functions is the text of include/bee2/crypto/botp.h as transcribed in spec/sm/BotpSM.tla "
              "(StepR: password, then counter + 1 mod 2^64; StepV: counter + 1 iff the passwords coincide, else unchanged; StepG: the counter); histories "
              "violating the header's call order / preconditions are not generated; all histories up to the stated depth over the stated alphabet are "
              "enumerated by TLC (botp_sm_runs), longer ones are seeded random (record direction)")
    ev.assume("data lengths beyond 2*buflen + 3 octets and histories beyond the stated depths are sampled (simulation, random scripts), not enumerated")
