# the shared generator and its entropy sources write exactly the requested number of octets (exact-size buffers for every
# count 0..67 and a few long ones): sensors only, the octets are random => C07 only
SUITES = [{"name": "rngbuf", "sources": ["drv_rngbuf.c"], "libs": [], "trace": None, "only": ["C07"], "runs": [(["run"], None)]}]
