"""C11 — functions documented as overlap-tolerant give the disjoint-buffer result.
 spec/sm/Overlap.tla holds the headers' rule set (parameters, lengths, forbidden pairs) and
 enumerates the placements (dest swept against src over [-(len+16), len+16]; key / IV / header /
 tag inside or straddling the output and input regions), never a forbidden combination; TLC checks
 the rule table is closed.  The harness lays every placement out in one arena, snapshots the
 logical inputs, calls the real function, and TLC judges the recorded call with the reference
 semantics (Trace_Belt): outputs = F(inputs as they were before the call)."""
import os, json, glob
import vlib

LEVEL = "exploration"


def der_cls(cls):
    """overlap/<tag family>/vlen-<n>/<what>@<off> -> family of the placement (one defect = one key family)"""
    parts = cls.split("/")
    what = parts[-1].split("@")[0] if parts else cls
    return "%s:%s" % (what, parts[2] if len(parts) > 2 else "")


def run(ctx):
    ev = ctx.ev
    drv = vlib.harness("drv_belt", ["drv_belt.c", "drv_belt_steps.c"], "asan", libs=["-lm"])
    gdir = ctx.path("gen")
    os.makedirs(gdir, exist_ok=True)
    r = vlib.tlc("Overlap", env={"GEN_DIR": gdir}, timeout=600, quiet=True)
    if r.rc != 0:
        ctx.note_inconclusive("Overlap.tla gave no placements rc=%s %s" % (r.rc, (r.violation or r.error or "")[:300]))
        return
    ev.cov["tlc_states"] = r.distinct
    cmds, meta = [], []
    for fpath in sorted(glob.glob(os.path.join(gdir, "*.json"))):
        if os.path.basename(fpath).startswith("state_"):
            continue
        d = json.load(open(fpath))
        pls = sorted(d["placements"], key=lambda p: (p["doff"], p["key"], p["iv"], p["hdr"], p["tag"]))
        if ctx.quick:      # the seed picks which half of the sweep a quick run takes (aux placements all)
            pls = [p for i, p in enumerate(pls) if any(p[k] != -100000 for k in ("key", "iv", "hdr", "tag"))
                   or (i + ctx.seed) % 2 == 0 or abs(p["doff"]) <= 2]
        for p in pls:
            c = "overlap f=%s klen=32 len=%d hlen=%d doff=%d" % (d["f"], d["len"], d["hlen"], p["doff"])
            for k, a in (("key", "kpos"), ("iv", "ipos"), ("hdr", "hpos"), ("tag", "tpos")):
                if p[k] != -100000:
                    c += " %s=%d" % (a, p[k])
            cmds.append(c + "\n")
            meta.append((d["f"], d["len"], p))
    out_path = ctx.path("overlap.ndjson")
    rc, _, err = vlib.run_harness(drv, ["overlap"], stdin="".join(cmds).encode(), out_path=out_path,
                                  env={"VERIF_SEED": ctx.seed}, timeout=900)
    rows = [json.loads(l) for l in open(out_path) if l.strip().endswith("}")]
    if rc != 0:
        nxt = cmds[len(rows)].strip() if len(rows) < len(cmds) else "?"
        ctx.violation("overlap-crash:" + nxt.replace(" ", "_"), "crash / sanitizer report on a permitted placement: %s\n%s" % (nxt, err[-1500:]),
                      {"command": nxt, "stderr": err[-4000:]})
    n, bad, r = vlib.validate_lines(ctx, "Trace_Belt", rows, timeout=2000)
    if n < len(rows):
        ctx.note_inconclusive("Trace_Belt evaluated %d of %d placements (rc=%s)" % (n, len(rows), r.rc))
    # group disagreements by (function, which parameter overlaps) so that one defect = one key family
    for i in bad:
        row = rows[i - 1]
        f, ln, p = meta[i - 1]
        aux = [k for k in ("key", "iv", "hdr", "tag") if p[k] != -100000]
        cls = ("aux=%s@%d,doff=%d" % (aux[0], p[aux[0]], p["doff"])) if aux else ("doff=%d" % p["doff"])
        ctx.violation("%s:len=%d:%s" % (f, ln, cls),
                      "%s with overlapping buffers (%s) differs from the disjoint-buffer result" % (f, cls),
                      {"command": cmds[i - 1].strip(), "line": row})
    ev.cov["evaluations"] = n
    ev.cov["traces_validated_against_impl"] = n
    ev.cov["distinct_nontrivial"] = len(set((m[0], m[1], json.dumps(m[2], sort_keys=True)) for m in meta[:len(rows)]
                                            if m[2]["doff"] != 0 or any(m[2][k] != -100000 for k in ("key", "iv", "hdr", "tag"))))
    ev.cov["functions"] = sorted(set(m[0] for m in meta))
    ev.cov["rule"] = ("placements enumerated by TLC from spec/sm/Overlap.tla: dest offset against src in [-(len+16), len+16] for every "
                      "listed length, plus each auxiliary buffer at 11 positions inside / straddling the output and input regions for "
                      "4 dest offsets, minus the header's forbidden pairs; non-trivial = some pair of buffers actually shares memory "
                      "or dest is shifted; data seeded")
    for row in rows[:1] + rows[len(rows) // 2:len(rows) // 2 + 1]:
        ev.sample({k: (v if not isinstance(v, list) or len(v) < 40 else v[:40] + ["..."]) for k, v in row.items()})
    # ---- bash: bashHash one-shot (bash.h: buffers may overlap), driven through the bash driver
    try:
        bdrv = vlib.harness("drv_bash", ["drv_bash.c"], "asan")
        bcmds = []
        for l in (128, 256):
            hl = l // 4
            for ln in (0, 1, 40, 150):
                offs = sorted(set(list(range(-(hl + 4), ln + 5, 1 if ctx.quick and ln < 50 or not ctx.quick else 7)) + [0, 1, -1, ln - hl, ln]))
                if ctx.quick:
                    offs = [o for i, o in enumerate(offs) if (i + ctx.seed) % 2 == 0 or abs(o) <= 1]
                for o in offs:
                    bcmds.append("overlap f=bashHash l=%d len=%d doff=%d\n" % (l, ln, o))
        # bashHashStepG: the hash buffer inside / straddling the state (every offset sharing an octet with it)
        rc, kout, _ = vlib.run_harness(bdrv, ["overlap"], stdin=b"overlap f=bashHashStepG q=1\n", timeout=60)
        bkeep = json.loads([l for l in kout.splitlines() if l.strip().endswith("}")][0])["keep"]
        for l, hl in ((128, 32), (256, 64), (192, 5)):
            offs = list(range(-(hl - 1), bkeep))
            if ctx.quick:
                offs = [o for o in offs if (o + ctx.seed) % 4 == 0 or abs(o) <= 2 or o >= bkeep - 3 or abs(o - (bkeep - hl)) <= 2 or o <= -(hl - 3)]
            for o in offs:
                bcmds.append("overlap f=bashHashStepG l=%d len=%d hlen=%d off=%d\n" % (l, (0, 40, 150)[o % 3], hl, o))
        bout = ctx.path("bash_overlap.ndjson")
        rc, _, err = vlib.run_harness(bdrv, ["overlap"], stdin="".join(bcmds).encode(), out_path=bout, env={"VERIF_SEED": ctx.seed}, timeout=600)
        brows = [json.loads(l) for l in open(bout) if l.strip().endswith("}")]
        if rc != 0:
            ctx.violation("overlap-crash:bashHash", "bashHash crashed on an overlapping placement: %s" % err[-1200:], err[-4000:])
        nb, badb, rb = vlib.validate_lines(ctx, "Trace_Bash", brows, timeout=1500)
        if nb < len(brows):
            ctx.note_inconclusive("Trace_Bash evaluated %d of %d bashHash placements" % (nb, len(brows)))
        for i in badb:
            ctx.violation("bashHash:%s" % brows[i - 1].get("cls", i), "bashHash with hash overlapping src differs from the disjoint-buffer result", {"line": brows[i - 1]})
        ev.cov["evaluations"] += nb
        ev.cov["traces_validated_against_impl"] += nb
        ev.cov["distinct_nontrivial"] += len(brows)
        ev.cov["functions"] += ["bashHash", "state:bashHashStepG"]
    except (FileNotFoundError, vlib.BuildError) as e:
        ev.cov["bash_overlap"] = "not available: %s" % str(e)[:100]
    # ---- buffers that may overlap the state object (key of *Start, tag of StepG / StepG2): second rule group of Overlap.tla
    scmds = []
    for fpath in sorted(glob.glob(os.path.join(gdir, "state_*.json"))):
        d = json.load(open(fpath))
        for p in sorted(d["placements"], key=lambda p: (p["pos"], p["klen"], p["len"])):
            scmds.append("ovstate f=%s kind=%s pos=%s klen=%d len=%d\n" % (d["f"], d["kind"], p["pos"], p["klen"], p["len"]))
    # the sweep rule: every offset at which the buffer shares an octet with the state (keep() asked from the implementation)
    kq = "".join("ovstate f=%s kind=keep\n" % json.load(open(f))["f"] for f in sorted(glob.glob(os.path.join(gdir, "state_*.json"))))
    rc, kout, _ = vlib.run_harness(drv, ["ovstate"], stdin=kq.encode(), timeout=60)
    keeps = {}
    for l in kout.splitlines():
        if l.strip().endswith("}"):
            k = json.loads(l); keeps[k["f"]] = (k["keep"], k["taglen"])
    for fpath in sorted(glob.glob(os.path.join(gdir, "state_*.json"))):
        d = json.load(open(fpath))
        if d["f"] not in keeps:
            continue
        keep, tl = keeps[d["f"]]
        blen = d["sweep"]["klen"] if d["kind"] == "start" else tl
        offs = list(range(-(blen - 1), keep))
        if ctx.quick:       # quick: a seeded third of the sweep plus the neighbourhood of the ends
            offs = [o for o in offs if (o + ctx.seed) % 3 == 0 or o <= -(blen - 3) or abs(o) <= 2 or o >= keep - 3 or abs(o - (keep - blen)) <= 2]
        for o in offs:
            scmds.append("ovstate f=%s kind=%s off=%d klen=%d len=%d\n" % (d["f"], d["kind"], o, d["sweep"]["klen"], d["sweep"]["len"]))
            if d["kind"] == "start":        # the same placement on a USED state (re-Start after a first key and a processed message)
                scmds.append("ovstate f=%s kind=%s off=%d klen=%d len=%d used=1\n" % (d["f"], d["kind"], o, d["sweep"]["klen"], d["sweep"]["len"]))
    sout = ctx.path("ovstate.ndjson")
    rc, _, err = vlib.run_harness(drv, ["ovstate"], stdin="".join(scmds).encode(), out_path=sout, env={"VERIF_SEED": ctx.seed}, timeout=900)
    srows = [json.loads(l) for l in open(sout) if l.strip().endswith("}")]
    if rc != 0:
        nxt = scmds[len(srows)].strip() if len(srows) < len(scmds) else "?"
        ctx.violation("state-crash:" + nxt.replace(" ", "_"), "crash / sanitizer report with a buffer overlapping the state: %s\n%s" % (nxt, err[-1500:]),
                      {"command": nxt, "stderr": err[-4000:]})
    ns, bads, rs = vlib.validate_lines(ctx, "Trace_Belt", srows, timeout=1500)
    if ns < len(srows):
        ctx.note_inconclusive("Trace_Belt evaluated %d of %d state-overlap lines (rc=%s)" % (ns, len(srows), rs.rc))
    for i in bads:
        x = srows[i - 1]
        ctx.violation("state:%s:%s%s:%s" % (x["f"], x["kind"], ":used" if x.get("used") else "", x["pos"] if x["pos"] != "sweep" else "off%d" % x.get("off", 0)),
                      "%s with the %s %s the state (%s) differs from the disjoint-buffer result"
                      % (x["f"], "key inside / straddling" if x["kind"] == "start" else "tag buffer inside / straddling", "of *Start" if x["kind"] == "start" else "of StepG", "%s, offset %s" % (x["pos"], x.get("off", "-"))),
                      {"command": scmds[i - 1].strip(), "line": x})
    ev.cov["evaluations"] += ns
    ev.cov["traces_validated_against_impl"] += ns
    ev.cov["state_overlap_lines"] = ns
    ev.cov["distinct_nontrivial"] += len(set((x["f"], x["pos"], x.get("off"), len(x.get("key", [])), len(x.get("in", []))) for x in srows))
    ev.cov["functions"] += sorted(set("state:" + x["f"] for x in srows))
    # ---- DER: encoders / decoders whose header lets val (and len) overlap der, through the codec driver
    try:
        cdrv = vlib.harness("drv_codec", ["drv_codec.c"], "asan")
        cout = ctx.path("der_overlap.ndjson")
        rc, _, err = vlib.run_harness(cdrv, ["record", "quick" if ctx.quick else "thorough", "overlap"], out_path=cout,
                                      env={"VERIF_SEED": ctx.seed}, timeout=900)
        crows = [json.loads(l) for l in open(cout) if l.strip().endswith("}")]
        if rc != 0:
            ctx.violation("overlap-crash:der", "DER overlap driver stopped (rc=%d): %s" % (rc, err[-1200:]), err[-4000:])
        for x in crows:
            if x.get("fault"):
                ctx.violation("der:%s:%s" % (x["op"], der_cls(x["cls"])), "%s: fault %s (assertion / sanitizer / signal) with val or len overlapping der: %s"
                              % (x["op"], x["fault"], x["cls"]), {"line": x})
        crows = [x for x in crows if not x.get("fault")]
        nshard = 8 if len(crows) > 4000 else 1
        res = vlib.parallel([(lambda sh=sh: vlib.validate_lines(ctx, "Trace_Codec", sh, timeout=2500, workers=2)) for sh in vlib.shard(crows, nshard)], n=nshard)
        nd = 0
        for sh, (nv, badv, rv) in zip(vlib.shard(crows, nshard), res):
            if nv < len(sh):
                ctx.note_inconclusive("Trace_Codec evaluated %d of %d DER overlap lines (rc=%s)" % (nv, len(sh), rv.rc))
            nd += nv
            for i in badv:
                x = sh[i - 1]
                ctx.violation("der:%s:%s" % (x["op"], der_cls(x["cls"])), "%s with val/len overlapping der differs from the disjoint-buffer result (%s)" % (x["op"], x["cls"]), {"line": x})
        ev.cov["evaluations"] += nd
        ev.cov["traces_validated_against_impl"] += nd
        ev.cov["der_overlap_lines"] = nd
        ev.cov["distinct_nontrivial"] += len(set((x["op"], x["cls"]) for x in crows))
        ev.cov["functions"] += sorted(set(x["op"] for x in crows))
        if crows:
            ev.sample({k: (v if not isinstance(v, list) or len(v) < 40 else v[:40] + ["..."]) for k, v in crows[len(crows) // 3].items()})
    except (FileNotFoundError, vlib.BuildError) as e:
        ev.cov["der_overlap"] = "not available: %s" % str(e)[:100]
    # binding self-test
    mut = []
    for row in [x for x in rows if x.get("rc") == 0 and x.get("out")][:4000:500]:
        m = json.loads(json.dumps(row)); m["out"][0] ^= 1; mut.append(m)
    if mut:
        n2, bad2, _ = vlib.validate_lines(ctx, "Trace_Belt", mut, timeout=300)
        ev.cov["selftest_corrupted_lines"] = len(mut)
        ev.cov["selftest_rejected"] = len(bad2)
        if n2 == len(mut) and len(bad2) != len(mut):
            ctx.note_inconclusive("binding self-test failed")
    ev.assume("ECB one-shots and brng: the headers make no overlap statement (not driven)")
    ev.assume("KWP wrap with src overlapping header is rejected by the implementation with ERR_BAD_INPUT and is treated as forbidden")
