"""Replayable suite of the token layer (C17) for C07 (exact-size sanitizer builds) and C19 (build
configurations): a SMALL deterministic version of the secure-messaging and CV-certificate runs of
checks/C17.py plus the container round trips, every line judged on its own by spec/trace/Trace_Btok.tla
(Pattern F).  SM states are allocated at exactly btokSM_keep(), APDU buffers at the lengths the library
announces, certificates and containers at their exact lengths.  Deterministic given VERIF_SEED.
   sm_forms          every Lc/Le form x data length {0,1,255,256,300}: inc, wrap, unwrap (values)
   sm_alter quick    every position of 3 protected commands / responses altered, then unwrapped
   cvc_alter small   a certificate issued by a root (l = 128): every single-octet alteration, Unwrap / Val / Val2
   bpki small        key and share containers: wrap (value), right and wrong passwords
(the registry checks/suites.py imports this module when "suite_btok" is in its list)"""

SUITES = [
    {"name": "btok", "sources": ["drv_btok.c"], "libs": [], "trace": "Trace_Btok",
     "runs": [(["sm_forms"], None), (["sm_alter", "quick"], None), (["cvc_alter", "small"], None), (["bpki", "small"], None)]},
]
