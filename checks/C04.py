"""C04 — bake (BMQV, BSTS, BPACE) / BAUTH: honest runs agree on one key, tampered runs never do.

 (1) spec/sm/Bake.tla: two parties, a channel, one attacker action (alteration of one part of one message:
     other valid point / negated point / off-curve / x >= p / zero / octet flip; or a corrupted set-up: hello,
     password, private key, certificate refused / off-curve / different data).  TLC explores protocol x kca x kcb
     x action x interleavings (MC_Bake) and checks: Honest => all steps OK and equal keys; tampered => never both
     accept the same key; a party that gets a confirmation accepts only its peer's key; with a confirmation
     somebody returns an error; without, the keys differ.  The specification PREDICTS the failing step and code.
 (2) every terminal state of the exploration is replayed by harness/drv_bake.c on the real Start/StepN functions
     and through RunA/RunB over an in-memory channel, on concrete keys/tapes; octet flips at enumerated positions
     are added.  Each recorded run is judged by TLC (Trace_Bake): the altered point is classified on the standard
     curve with BigNat arithmetic (an octet flip can give another valid point), the class selects the model's
     action, RunCase() gives the expected code of every step, who holds a key and whether the keys agree.
"""
import os, json, re
import vlib

LEVEL = "model_checking"

_hits = {}


def viol(ctx, key, text, data=None):
    _hits[key] = _hits.get(key, 0) + 1
    ctx.ev.cov["hits_per_key"] = dict(sorted(_hits.items())[:60])
    if _hits[key] == 1:
        ctx.violation(key, text, data)


POINT_PARTS = ("Va", "Vb", "Vct")


def part_len(proto, part, l, kcb):
    no = l // 4
    cl = 9 + l // 2
    if part in POINT_PARTS:
        return 2 * no
    if part in ("Ta", "Tb", "Tt", "Tct"):
        return 8
    if part == "Rt":
        return 16
    if part in ("Ya", "Yb"):
        return no // 2 if proto == "BPACE" else no + cl
    if part == "Zct":
        return no // 2 + 16
    if part == "Zct2":
        return no + cl
    return 1


def key_of(row, first_bad=None):
    steps = row.get("steps", [])
    bad = [s for s in steps if not s.endswith("=OK")]
    got = bad[0] if bad else "all-OK"
    if row["proto"] == "BAUTH" and row["l"] > 128 and row["kcb"] and "Step4=AUTH" in steps and row["at"] not in ("M2",) \
            and not (row["at"] == "setup" and row["kind"] == "hello"):
        return "bauth:l=%d:kcb=1:Step4:AUTH-on-honest-M2" % row["l"]
    return "bake:%s:l=%d:kca=%d:kcb=%d:alter=%s.%s:%s%s:mode=%s:got=%s:keys=%s" % (
        row["proto"], row["l"], int(row["kca"]), int(row["kcb"]), row["at"], row["part"], row["kind"],
        (":who=" + row["who"]) if row["who"] != "-" else "", row["mode"], got,
        "agree" if row["agree"] else ("both-differ" if row["doneA"] and row["doneB"] else "A%dB%d" % (row["doneA"], row["doneB"])))


def run(ctx):
    ev = ctx.ev
    _hits.clear()
    env = {"VERIF_SEED": ctx.seed}
    # ---- (1) the model
    r = vlib.tlc("MC_Bake", workers=4, timeout=900, quiet=True)
    if vlib.tlc_infra_failed(r):
        ctx.note_inconclusive("MC_Bake gave no verdict rc=%s %s" % (r.rc, (r.error or "")[-300:]))
        return
    if r.rc != 0:
        # a failure of the abstract model alone is a specification error (rule 1)
        ctx.note_inconclusive("Bake.tla violates its own property %s (specification error): %s" % (vlib.violated_property(r.out), (r.violation or "")[:500]))
        return
    ev.cov["states"] = r.distinct
    ev.cov["transitions"] = r.generated
    pred = {}
    for p in r.prints:
        if not p.startswith('"@C '):
            continue
        c, log, fin = p[4:-1].split(" |")
        steps = [s for s in log.split() if not s.startswith("Start")]
        pred[c] = (steps, fin.split())
    ev.cov["model_terminal_cases"] = len(pred)
    if not pred:
        ctx.note_inconclusive("MC_Bake printed no terminal states")
        return
    # ---- (2) concrete cases
    cmds, meta = [], []

    def add(proto, l, kca, kcb, mode, at, part, kind, who, j=0, mask=1, model=None):
        if mode == "run" and proto == "BAUTH":
            return
        i = len(cmds) + 1
        cmds.append("bake id=%d proto=%s l=%d kca=%s kcb=%s mode=%s at=%s part=%s kind=%s who=%s j=%d mask=%d\n"
                    % (i, proto, l, kca, kcb, mode, at, part, kind, who, j, mask))
        meta.append(model)
    ls_all = [128] if ctx.quick else [128, 192, 256]
    for c in sorted(pred):
        proto, kca, kcb, at, part, kind, who = c.split()
        for l in ls_all:
            for mode in ("steps", "run"):
                add(proto, l, kca, kcb, mode, at, part, kind, who, model=c)
        if ctx.quick and (at == "none" or (at == "M1" and kind in ("off", "flip")) or (at == "setup" and kind == "hello" and who == "A")):
            for l in (192, 256):          # the other curves: honest runs and a few tampered ones in the quick tier
                for mode in ("steps", "run"):
                    add(proto, l, kca, kcb, mode, at, part, kind, who, model=c)
        # octet flips: positions enumerated (all of them in the thorough tier), the mask is seeded
        if at.startswith("M") and (kind == "flip" or kind == "off"):
            for l in ([128] if ctx.quick else [128, 192, 256]):
                n = part_len(proto, part, l, kcb == "1")
                if ctx.quick:
                    js = sorted(set([0, n // 2 - 1, n // 2, n - 1])) if part in POINT_PARTS else sorted(set([0, n // 2, n - 1]))
                else:
                    js = range(n)                     # every octet of every message part, on all three curves
                for j in js:
                    for rep in range(1 if ctx.quick else 2):          # thorough: two seeded masks per position
                        for mode in (("steps", "run") if ctx.quick or j % 4 == 0 else ("steps",)):
                            add(proto, l, kca, kcb, mode, at, part, "flip", who, j=j, mask=1 << ctx.rng.randrange(8), model=None)
    drv = vlib.harness("drv_bake", ["drv_bake.c"], "rel")
    shards = vlib.shard(list(range(len(cmds))), 6)
    outs = vlib.parallel([(lambda sh=sh: vlib.run_harness(drv, [], stdin="".join(cmds[i] for i in sh).encode(), env=env, timeout=3000)) for sh in shards], n=6)
    rows = {}
    for (rc, out, err), sh in zip(outs, shards):
        if rc != 0:
            m = re.search(r"#\d+ 0x[0-9a-f]+ in (\w+) /repo/src/([\w/\.]+):(\d+)", err or "")
            viol(ctx, "crash:drv_bake:%s" % ("%s@%s" % (m.group(1), m.group(2)) if m else "rc=%d" % rc), "driver stopped inside a library call (rc=%d): %s" % (rc, (err or "")[-1200:]), (err or "")[-4000:])
        for l in out.splitlines():
            if l.endswith("}"):
                x = json.loads(l)
                rows[x["id"]] = x
    order = sorted(rows)
    lines = [rows[i] for i in order]
    if len(lines) != len(cmds) and all(o[0] == 0 for o in outs):
        ctx.note_inconclusive("drv_bake answered %d of %d cases" % (len(lines), len(cmds)))
    # ---- direct replay comparison: the terminal states printed by TLC vs the real step codes (mode = steps, l as run)
    nrep = 0
    for i in order:
        row, c = rows[i], meta[i - 1]
        if c is None or row["mode"] != "steps":
            continue
        nrep += 1
        steps, fin = pred[c]
        got = [s for s in row["steps"] if not s.startswith("Start")]
        if got != steps or [int(row["doneA"]), int(row["doneB"]), int(row["agree"])] != [int(x) for x in fin]:
            viol(ctx, key_of(row), "replay of a TLC behaviour: the specification predicts %s (doneA doneB agree = %s), the real code gives %s (%d %d %d)"
                 % (steps, " ".join(fin), got, row["doneA"], row["doneB"], row["agree"]), {"case": c, "line": row, "command": cmds[i - 1].strip()})
    # ---- every recorded run judged by TLC (classification + RunCase)
    path = ctx.path("runs.ndjson")
    vlib.write_ndjson(path, lines)
    n, bad, r2 = vlib.validate_lines(ctx, "Trace_Bake", path, timeout=3000, workers=4)
    if n < len(lines):
        n, bad, r2 = vlib.validate_lines(ctx, "Trace_Bake", path, timeout=3000, workers=4)
        if n < len(lines):
            ctx.note_inconclusive("Trace_Bake evaluated %d of %d runs (rc=%s)" % (n, len(lines), r2.rc))
    kinds = dict((int(a), b) for a, b in re.findall(r'"@BAD",\s*(\d+),\s*"([^"]*)"', r2.out))
    for i in bad:
        row = lines[i - 1]
        mk = kinds.get(i, "?")
        if mk == "?" and row["at"].startswith("M"):
            ctx.note_inconclusive("harness did not build the alteration it claims (%s %s %s j=%d)" % (row["proto"], row["part"], row["kind"], row["j"]))
            continue
        viol(ctx, key_of(row), "run of %s (l=%d kca=%d kcb=%d, %s) with attacker action %s.%s %s%s (model action: %s) differs from the specification: steps %s, keys: A %s, B %s, agree %s"
             % (row["proto"], row["l"], row["kca"], row["kcb"], row["mode"], row["at"], row["part"], row["kind"],
                " who=" + row["who"] if row["who"] != "-" else "", mk, row["steps"], row["doneA"], row["doneB"], row["agree"]),
             {"line": row, "command": cmds[row["id"] - 1].strip(), "how": "echo '<command>' | build/bin/drv_bake-rel-*; judged by spec/trace/Trace_Bake.tla"})
    ev.add("tlc_states_lines", r2.distinct)
    # informational: sign changes of a point are invisible where only x-coordinates are used
    benign = sorted(set("%s:%s.%s" % (x["proto"], x["at"], x["part"]) for x in lines if x["kind"] == "neg" and x["agree"]))
    if benign:
        print("OBSERVATION property=C04 negated points are accepted with equal keys (x-coordinate-only protocols, as the specification predicts): %s" % ", ".join(benign))
    ev.cov["negated_point_accepted_with_equal_keys"] = benign
    # ---- binding self-test
    mut = []
    ok_lines = [x for i, x in enumerate(lines) if (i + 1) not in bad]
    for x in [y for y in ok_lines if y["mode"] == "steps" and len(y["steps"]) > 3][:60:12]:
        m = dict(x); s = list(x["steps"]); s[-1] = s[-1].split("=")[0] + ("=AUTH" if s[-1].endswith("=OK") else "=OK"); m["steps"] = s; mut.append(m)
    for x in [y for y in ok_lines if y["agree"]][:2]:
        m = dict(x); m["agree"] = False; mut.append(m)
    for x in [y for y in ok_lines if y["doneA"] and y["doneB"] and not y["agree"]][:2]:
        m = dict(x); m["agree"] = True; mut.append(m)                     # tampered run "agreeing"
    for x in [y for y in ok_lines if y["kind"] == "off" and y["pt"]][:2]:
        m = dict(x); m["pt"] = x["orig"]; mut.append(m)                   # "off-curve" point that is on the curve
    for x in [y for y in ok_lines if y["mode"] == "run" and y["steps"][0] != "RunA=OK"][:2]:
        m = dict(x); m["steps"] = ["RunA=OK", x["steps"][1]]; mut.append(m)
    if mut:
        mp = ctx.path("selftest.ndjson")
        vlib.write_ndjson(mp, mut)
        n2, bad2, r3 = vlib.validate_lines(ctx, "Trace_Bake", mp, timeout=900, workers=4)
        ev.cov["selftest_corrupted_lines"] = len(mut)
        ev.cov["selftest_rejected"] = len(bad2)
        if n2 == len(mut) and len(bad2) != len(mut):
            ctx.note_inconclusive("binding self-test: %d of %d corrupted runs were not rejected" % (len(mut) - len(bad2), len(mut)))
    ev.cov["runs_executed"] = len(lines)
    ev.cov["replayed_model_behaviours"] = nrep
    ev.cov["traces_validated_against_impl"] = n + nrep
    ev.cov["curves"] = sorted(set(x["l"] for x in lines))
    ev.cov["exhaustive"] = ("model: protocol x kca x kcb x (none | set-up corruption | part x kind) x interleavings; concrete: every model case at l=128 "
                            "(step by step and through RunA/RunB)%s; octet flips at %s" % ("" if ctx.quick else " and at l=192, 256", "4 positions per point part / 3 per opaque part" if ctx.quick else "every position of every part, two masks, all three curves"))
    for x in [y for y in lines if y["at"] != "none"][:1] + [y for y in lines if y["kind"] == "flip" and y["pt"]][:1] + lines[:1]:
        ev.sample({k: (v if not isinstance(v, list) or len(v) <= 16 else v[:16] + ["...(%d)" % len(v)]) for k, v in x.items()})
    ev.assume("the step-by-step content of the protocols follows STB 34.101.66 / 34.101.79 as described in bake.h / btok.h and the step comments of bake.c, btok_bauth.c; "
              "cryptography is symbolic (DH equation, x-coordinate-only hashing, MAC/encryption opened only by the same key)")
    ev.assume("a negated point (x, p - y) is not an alteration of anything BPACE / BAUTH-without-kcb use (they hash x-coordinates only): the specification predicts "
              "equal keys there, and an ERR_AUTH at the Schnorr-like check in BSTS / BAUTH-with-kcb; the property's 'tampered => differ' is read modulo this sign")
    ev.assume("values of honest runs (the derived key as a function of the tapes) are not recomputed in TLC (EC scalar multiplication at 256..512 bits): "
              "the appendix vectors of bake_test.c cover one run per protocol")
