"""C08 - decoders are total, bounded and canonical; encode/decode are mutually inverse.

  1. spec anchors: ref/CodecVectors.tla (known encodings, round-trip laws) evaluated by TLC;
  2. EXHAUSTIVE: TLC evaluates the reference decoder (ref/Der.tla, ref/Codecs.tla through
     gen/Gen_DerTL.tla) on every string of <= 3 symbols and prints one aggregate per 2-symbol
     prefix; harness/drv_codec.c computes the same aggregates over the real derTLDec,
     derTSIZEDec, oidFromDER, hexIsValid(+hexTo), decIsValid(+CLZ/ToU32/Luhn/Damm),
     b64IsValid(+b64To, 4-symbol strings); the tables are compared, a differing prefix is
     expanded to its member strings and every member is validated by trace/Trace_Codec.tla;
  3. MUTANTS / ROUND TRIPS: drv_codec.c record - structure-aware mutants of valid encodings and
     encode->decode round trips, one ndjson line per call, each line recomputed by TLC;
  4. totality: inputs/outputs live in buffers that end at a PROT_NONE page, the library is built
     with ASan+UBSan; SIGSEGV / ASan report / assertion / timeout inside a call is a violation;
  5. binding self-test: corrupted copies of accepted lines must be rejected by TLC.
Violations are keyed "<first failing function>:<structural class of the input>".
"""
import os, re, json, time, collections
import vlib

LEVEL = "model_checking"

# development knob: VERIF_WORKERS=4 limits TLC's worker threads (the default is all cores)
WORKERS = int(os.environ.get("VERIF_WORKERS", "0")) or None
# the record part (JSON parsing, few long lines) and the exhaustive part run side by side: split the cores
W_REC = WORKERS or max(2, vlib.NCPU // 4)
W_EXH = WORKERS or max(2, vlib.NCPU - vlib.NCPU // 4)
ASAN_ENV = "detect_leaks=0:handle_segv=0:handle_abort=0:allocator_may_return_null=1:exitcode=86:abort_on_error=0"
FNS = ["tl", "size", "oid", "hex", "dec", "b64"]
FN_OP = {"tl": "derTLDec", "size": "derTSIZEDec", "oid": "oidFromDER", "hex": "hexIsValid", "dec": "decIsValid", "b64": "b64IsValid"}
# priority of functions when one input class fails in several of them
OP_ORDER = ["derTLDec", "derTLEnc", "derDec", "derEnc", "derIsValid", "derIsValid2", "derStartsWith", "derDec2", "derDec3", "derDec4",
            "derTSIZEDec", "derTSIZEDec2", "derTSIZEEnc", "derTUINTDec", "derTUINTDec2", "derTUINTEnc", "derTBITDec", "derTBITDec2",
            "derTBITEnc", "derTOCTDec", "derTOCTDec2", "derNULLDec", "derOIDDec", "derOIDDec2", "derOIDEnc", "oidFromDER", "oidToDER",
            "oidIsValid", "derTPSTRDec", "derTPSTREnc", "seqDec", "seqEnc", "apduCmdDec", "apduCmdEnc", "apduRespDec",
            "hexIsValid", "hexTo", "hexFrom", "b64IsValid", "b64To", "b64From", "decIsValid", "decStr", "decFromU32",
            "bignParamsDec", "bignParamsEnc", "btokCVCUnwrap", "btokCVCLen"]
FAULTS = {1: "asan-report", 2: "read-or-write-past-buffer-end", 3: "assertion", 4: "timeout"}


# ------------------------------------------------------------------ structural classes of exhaustive strings
def tag_class(b):
    """(class, bad?, tag length) of the tag field at the start of b"""
    if not b:
        return "empty-input", True, 0
    if b[0] & 31 != 31:
        return "short-tag", False, 1
    j = next((i for i in range(1, min(len(b), 5)) if b[i] < 128), None)
    if len(b) > 1 and (b[1] & 127) == 0:
        return "long-tag-leading-zero", True, 0
    if j is None:
        return "long-tag-unterminated", True, 0
    if j == 1 and b[1] < 31:
        return "long-tag-below-31", True, 0
    return "long-tag%d" % (j + 1), j + 1 > 4, j + 1


def len_class(b):
    if not b:
        return "len-missing", True, 0, 0
    o = b[0]
    if o == 0x80:
        return "len-0x80", True, 0, 0
    if o == 0xFF:
        return "len-0xFF", True, 0, 0
    if o < 0x80:
        return "len-short", False, 1, o
    r = o - 0x80
    if len(b) < 1 + r:
        return "len-truncated", True, 0, 0
    if b[1] == 0 or (r == 1 and b[1] < 128):
        return "len-nonminimal", True, 0, 0
    return "len-long%d" % r, r > 8, 1 + r, int.from_bytes(bytes(b[1:1 + r]), "big")


def der_class(fn, b):
    tc, tbad, tn = tag_class(b)
    if tbad:
        return tc
    lc, lbad, ln, lv = len_class(b[tn:])
    if lbad:
        return lc
    if fn == "tl":
        return tc + "/" + lc
    v = b[tn + ln:]
    if fn == "size":
        if b[0] != 2:
            return "wrong-tag"
        if len(v) < lv:
            return "v-truncated"
        if lv == 0:
            return "int-empty"
        if v[0] >= 128:
            return "int-negative"
        if lv > 1 and v[0] == 0 and v[1] < 128:
            return "int-padded"
        return "int"
    if fn == "oid":
        if b[0] != 6:
            return "wrong-tag"
        if len(v) < lv:
            return "v-truncated"
        if len(v) > lv:
            return "v-garbage-after"
        if lv == 0:
            return "oid-empty"
        if v[-1] >= 128:
            return "oid-arc-truncated"
        if any(v[i] == 0x80 and (i == 0 or v[i - 1] < 128) for i in range(len(v))):
            return "oid-arc-leading-zero"
        return "oid"
    return tc + "/" + lc


def exhaustive_class(fn, b):
    if fn in ("tl", "size", "oid"):
        return der_class(fn, b)
    return "%s-len%d" % (fn, len(b))


# ------------------------------------------------------------------ harness runs
def run_driver(ctx, drv, args, out_path, timeout=900):
    """Runs the driver; a run killed by an ASan report is restarted with the offending case skipped.
    Returns (ok, crashes) where crashes = list of breadcrumb strings."""
    skip, crashes = [], []
    for attempt in range(12):
        env = {"VERIF_SEED": ctx.seed, "ASAN_OPTIONS": ASAN_ENV, "VERIF_SKIP": ",".join(skip)}
        part = out_path + ".part%d" % attempt
        rc, _, err = vlib.run_harness(drv, args, out_path=part, env=env, timeout=timeout)
        if rc == 0:
            os.replace(part, out_path)
            return True, crashes
        m = re.search(r"@CRASH case=(\d+)(.*)", err)
        if rc == 124 or not m:
            ctx.note_inconclusive("driver %s ended rc=%s without a breadcrumb: %s" % (" ".join(map(str, args)), rc, err[-400:]))
            return False, crashes
        summ = re.search(r"SUMMARY: (.*)", err)
        crashes.append("case %s%s | %s" % (m.group(1), m.group(2), summ.group(1) if summ else err[-200:]))
        skip.append(m.group(1))
    ctx.note_inconclusive("driver %s crashed more than 12 times" % " ".join(map(str, args)))
    return False, crashes


class Bad:
    """one disagreement: function, class, input, what the code did, what the specification says"""
    def __init__(self, op, cls, line, spec, src):
        self.op, self.cls, self.line, self.spec, self.src = op, cls, line, spec, src


def validate(ctx, path, rows, src, bads, classify=None):
    """Pattern F over an ndjson file; appends Bad records; returns number of lines TLC evaluated."""
    n, bad, r = vlib.validate_lines(ctx, "Trace_Codec", path, timeout=1000, workers=W_EXH if src == "exhaustive" else W_REC)
    if n < len(rows):
        ctx.note_inconclusive("TLC evaluated %d of %d lines of %s: %s" % (n, len(rows), os.path.basename(path), (r.violation or r.error or "")[:300]))
    spec = {}
    for m in re.finditer(r'<<\s*"@SPEC",\s*(\d+),(.*?)>>\n(?=<<|\S)', r.out, re.S):
        spec[int(m.group(1))] = " ".join(m.group(2).split())[:400]
    for i in bad:
        x = rows[i - 1]
        cls = classify(x) if classify else x["cls"]
        bads.append(Bad(x["op"], cls, x, spec.get(i, ""), src))
    ctx.ev.add("states", r.distinct)
    ctx.ev.add("transitions", r.generated)
    return n, set(bad)


# ------------------------------------------------------------------ exhaustive part
def gen_env(ctx, fn):
    """which prefixes TLC enumerates: everything in thorough; in quick the full TL space, the tag
    numbers that matter for SIZE / OID, and a seeded quarter of the second symbols for hex / dec"""
    e = {"GEN_FN": fn, "GEN_MOD": 1, "GEN_REM": 0, "GEN_R1": "n1", "GEN_R2": "n1", "GEN_R3": "n1"}
    if ctx.quick:
        if fn == "tl":      # first octets: every long-form lead, tag number 4 in all classes, one seeded tag number
            e.update(GEN_R1=31, GEN_R2=4, GEN_R3=(ctx.seed * 7 + 16) % 31)
        elif fn == "size":
            e.update(GEN_R1=2, GEN_R2=31, GEN_R3=0)
        elif fn == "oid":
            e.update(GEN_R1=6, GEN_R2=31, GEN_R3=0)
        elif fn in ("hex", "dec"):
            e.update(GEN_MOD=4, GEN_REM=ctx.seed % 4)
    return e


def parse_agg_tlc(out):
    t = {}
    for m in re.finditer(r'<<"@A", (\d+), (\d+), <<([^>]*)>>>>', out):
        t[(int(m.group(1)), int(m.group(2)))] = tuple(int(x) for x in m.group(3).split(","))
    return t


def strings_of_prefix(fn, a, b):
    lo = 0 if fn in ("tl", "size", "oid") else 1
    if fn == "b64":
        return 64 + 255 - 8
    return (256 - lo) + 1 + (1 if b == lo else 0) + (1 if (a == lo and b == lo) else 0)


def exhaustive(ctx, drv, fn, bads):
    ev = ctx.ev
    t0 = time.time()
    aggf = ctx.path("agg_%s.txt" % fn)
    ok, crashes = run_driver(ctx, drv, ["agg", fn], aggf)
    for c in crashes:
        ev.cov.setdefault("harness_crashes", []).append("agg %s: %s" % (fn, c))
    if not ok:
        return
    impl = {}
    for l in open(aggf):
        p = l.split()
        impl[(int(p[0]), int(p[1]))] = (tuple(int(x) for x in p[2:9]), int(p[9]))
    r = vlib.tlc("Gen_DerTL", env=gen_env(ctx, fn), timeout=1000, quiet=True, workers=W_EXH)
    if vlib.tlc_infra_failed(r) or r.rc != 0:
        ctx.note_inconclusive("Gen_DerTL(%s) gave no table rc=%s %s" % (fn, r.rc, (r.violation or r.error or "")[-300:]))
        return
    spec = parse_agg_tlc(r.out)
    ev.add("states", r.distinct)
    ev.add("transitions", r.generated)
    nstr = sum(strings_of_prefix(fn, a, b) for (a, b) in spec)
    ev.add("strings_compared_exhaustively", nstr)
    ev.cov.setdefault("exhaustive_prefixes", {})[fn] = len(spec)
    if r.distinct != len({a for a, _ in spec}) + 2 * len(spec) and ctx.quick is False:
        ctx.note_inconclusive("Gen_DerTL(%s): %d states for %d prefixes" % (fn, r.distinct, len(spec)))
    diff = sorted(k for k in spec if k not in impl or impl[k][0] != spec[k] or impl[k][1] != 0)
    ev.cov.setdefault("prefixes_differing", {})[fn] = len(diff)
    if len(ev.cov["samples"]) < 2 and spec:
        k = sorted(spec)[len(spec) // 3]
        ev.sample({"exhaustive": fn, "prefix": list(k), "spec_aggregate": list(spec[k]), "impl_aggregate": list(impl.get(k, ((), 0))[0])})
    cap = 48 if ctx.quick else 400
    if len(diff) > cap:
        ev.cov.setdefault("prefixes_not_expanded", {})[fn] = len(diff) - cap
    unexplained = 0
    lines_total = 0
    for chunk in range(0, min(len(diff), cap), 24):
        part = diff[chunk:chunk + 24]
        allrows, path = [], ctx.path("expand_%s_%d.ndjson" % (fn, chunk))
        with open(path, "w") as fo:
            for (a, b) in part:
                one = ctx.path("expand_one.ndjson")
                ok, crashes = run_driver(ctx, drv, ["expand", fn, a, b], one, timeout=300)
                if not ok:
                    continue
                for c in crashes:
                    bads.append(Bad(FN_OP[fn], "prefix-%02X%02X" % (a, b), {"in": [a, b], "fault": 1, "crash": c}, "", "exhaustive"))
                rows = vlib.read_ndjson(one)
                allrows += rows
                fo.write(open(one).read())
        if not allrows:
            continue
        before = len(bads)
        n, badset = validate(ctx, path, allrows, "exhaustive", bads, classify=lambda x: exhaustive_class(fn, x["in"]))
        lines_total += n
        if len(bads) == before:
            unexplained += len(part)
    ev.add("expanded_lines_validated", lines_total)
    vlib.log("[C08] exhaustive %s: %d prefixes, %d differ, %.1fs (TLC %.1fs)" % (fn, len(spec), len(diff), time.time() - t0, r.wall))
    if unexplained:
        ctx.note_inconclusive("%s: %d prefixes differ in the aggregate but no member string disagrees (generator/driver mismatch)" % (fn, unexplained))


# ------------------------------------------------------------------ mutants / round trips
def record(ctx, drv, drv_plain, bads):
    """core part in the ASan+UBSan build; CV certificates (which run bign's point validation, where the
    UBSan build stops on an unrelated null-pointer-offset in obj.c) in the plain debug build - the guard
    pages work in both"""
    ev = ctx.ev
    allrows, allbad, off = [], set(), 0
    for name, d, part in (("core", drv, "all"), ("cvc", drv_plain, "cvc")):
        path = ctx.path("record_%s.ndjson" % name)
        ok, crashes = run_driver(ctx, d, ["record", ctx.tier, part], path)
        for c in crashes:
            ev.cov.setdefault("harness_crashes", []).append("record %s: %s" % (name, c))
            m = re.search(r"op=(\S+) cls=(\S+)", c)
            if m:
                bads.append(Bad(m.group(1), m.group(2), {"in": [], "fault": 1, "crash": c}, "", "mutants"))
        if not ok:
            continue
        rows = vlib.read_ndjson(path)
        t0 = time.time()
        n, badset = validate(ctx, path, rows, "mutants", bads)
        vlib.log("[C08] record %s: %d lines validated in %.1fs" % (name, n, time.time() - t0))
        ev.add("traces_validated_against_impl", n)
        allbad |= {off + i for i in badset}
        off += len(rows)
        allrows += rows
    ev.cov["record_lines_by_function"] = dict(collections.Counter(x["op"] for x in allrows))
    ev.cov["record_classes"] = len({(x["op"], x["cls"]) for x in allrows})
    return allrows, allbad


def selftest(ctx, rows, badset):
    """corrupt one recorded field of accepted lines; TLC must reject every corrupted copy"""
    picks, seen = [], set()
    for i, x in enumerate(rows):
        if (i + 1) in badset or x["fault"] or x["op"] in seen or len(x.get("in", [])) > 64:
            continue
        y = json.loads(json.dumps(x))
        if x["op"] == "apduCmdDec":
            if not x.get("ok"):
                continue
            y["rdf"] = x["rdf"] + 1
        elif x["op"] == "btokCVCUnwrap":      # "ok" also depends on the semantic checks; the bound field is fmt
            y["fmt"] = not x["fmt"]
        elif x.get("ok") is True and isinstance(x.get("n"), int) and "n" in x:
            y["n"] = x["n"] + 1
        elif "out" in x and x["out"]:
            y["out"] = x["out"][:-1] + [(x["out"][-1] + 1) % 256]
        elif "ok" in x:
            y["ok"] = not x["ok"]
        else:
            continue
        seen.add(x["op"])
        picks.append(y)
        z = json.loads(json.dumps(x))
        z["fault"] = 2                      # a call that left its buffers is never acceptable
        picks.append(z)
    if not picks:
        ctx.note_inconclusive("self-test: no accepted line to corrupt")
        return
    n, bad, r = vlib.validate_lines(ctx, "Trace_Codec", picks, timeout=300, workers=WORKERS)
    ctx.ev.cov["selftest_corrupted_lines"] = len(picks)
    ctx.ev.cov["selftest_rejected"] = len(bad)
    ctx.ev.cov["selftest_functions"] = len(seen)
    if n != len(picks) or len(bad) != len(picks):
        ctx.note_inconclusive("binding self-test: TLC rejected %d of %d corrupted lines (evaluated %d)" % (len(bad), len(picks), n))


def hexs(v):
    return " ".join("%02X" % o for o in v[:40]) + (" ...(%d octets)" % len(v) if len(v) > 40 else "")


def report(ctx, bads):
    groups = collections.OrderedDict()
    def head(cls):
        c = cls.split("/")
        return c[0] if c[0] != "short-tag" or len(c) < 3 else c[0] + "/" + c[2]
    for b in bads:
        groups.setdefault(head(b.cls), []).append(b)
    for first, items in groups.items():
        ops = sorted({b.op for b in items}, key=lambda o: OP_ORDER.index(o) if o in OP_ORDER else 99)
        key = "%s:%s" % (ops[0], first)
        items.sort(key=lambda b: ((OP_ORDER.index(b.op) if b.op in OP_ORDER else 99), len(b.line.get("in", [])), b.line.get("in", [])))
        ex = items[0]
        faults = sorted({FAULTS.get(b.line.get("fault", 0), "") for b in items if b.line.get("fault", 0)})
        short = {k: v for k, v in ex.line.items() if k not in ("op", "cls") and not (isinstance(v, list) and len(v) > 80)}
        text = ("%s disagrees with the reference semantics on input class '%s' (%d inputs, functions: %s%s). "
                "Minimal input: [%s] code: %s spec: %s" %
                (ops[0], first, len(items), ", ".join(ops), ("; faults: " + ", ".join(faults)) if faults else "",
                 hexs(ex.line.get("in", [])), json.dumps(short)[:400], ex.spec or "(see ref/Der.tla, ref/Codecs.tla)"))
        data = {"key": key, "functions": ops, "classes": sorted({b.cls for b in items})[:40],
                "examples": [{"op": b.op, "cls": b.cls, "source": b.src, "spec": b.spec,
                              "line": {k: (v if not (isinstance(v, list) and len(v) > 200) else v[:200] + ["..."]) for k, v in b.line.items()}}
                             for b in items[:12]],
                "replay": "build/bin/drv_codec-asan-* record %s | grep '\"cls\":\"%s' ; validate with spec/trace/Trace_Codec.tla (TRACE=<file>)" % (ctx.tier, first)}
        ctx.violation(key, text, data)


def run(ctx):
    ev = ctx.ev
    t0 = time.time()
    drv = vlib.harness("drv_codec", ["drv_codec.c"], "asan")
    drv_plain = vlib.harness("drv_codec", ["drv_codec.c"], "dbg")
    bads = []

    # 1. anchors of the reference semantics (a failure here means the SPECIFICATION is wrong)
    def vectors():
        r = vlib.tlc("CodecVectors", timeout=600, quiet=True, workers=W_REC)
        ev.cov["spec_vectors_states"] = r.distinct
        if r.rc != 0:
            ctx.note_inconclusive("ref/CodecVectors.tla fails (specification error, nothing is reported against the code): %s"
                                  % (r.violation or r.error or "")[:400])
        return r

    # 2./3. the record part runs beside the exhaustive part (its JSON parsing is single-threaded)
    state = {}

    def rec():
        state["rows"], state["badset"] = record(ctx, drv, drv_plain, bads)
        vectors()

    def exh():
        for fn in FNS:
            exhaustive(ctx, drv, fn, bads)

    vlib.parallel([rec, exh], n=2)
    if state.get("rows"):
        selftest(ctx, state["rows"], state["badset"])
        for x in state["rows"][:1] + state["rows"][2000:2001]:
            ev.sample({k: v for k, v in x.items() if not (isinstance(v, list) and len(v) > 40)})
    report(ctx, bads)
    ev.cov.setdefault("states", 0)
    ev.cov.setdefault("transitions", 0)
    ev.cov.setdefault("traces_validated_against_impl", 0)
    ev.cov["disagreeing_lines"] = len(bads)
    ev.cov["exhaustive"] = "all strings of <= 3 symbols for %s" % ("tl, size, oid, hex, dec; 4-symbol b64 strings (a: 8 representatives, b: all, (c,d): 8x8 representatives and all c with d = '=')"
                           if not ctx.quick else "quick slices: tl (first octets with tag numbers 31, 4 and one seeded number, all second/third octets), size/oid (tag numbers 0, 2/6, 31), hex/dec (1/4 of second symbols); b64 as in thorough")
    ev.assume("size_t has 8 octets (LP64); a length equal to SIZE_MAX is not representable (reserved error code)")
    ev.assume("apduCmdDec may refuse well-formed codes in a non-minimal (extended where short fits) form; it must accept every canonical code")
    ev.assume("under-reads (before the start of a buffer) are only seen by ASan, over-reads/over-writes by the guard page")
    ev.cov["wall_check_s"] = round(time.time() - t0, 1)
