"""C07 — no call reads or writes outside its buffers or its declared state / stack size; no debug
self-check fires.  Role of the specification: a resource monitor (spec/mon/Regions.tla, checked by TLC)
over instrumented executions.  The behaviours are the enumerated suites of all functional checks
(checks/suites.py: every length / level / alphabet / fragmenting / overlap they sweep), executed in
EXACT-SIZE mode: clang ASan+UBSan build with assertions on, blobs not page-rounded (guarded hook
BEE2_VERIF_EXACT_BLOB), every state / stack / caller buffer malloc'ed at exactly the documented size,
in the 64-bit and the 32-bit word configuration; thorough adds a valgrind memcheck pass (uninitialised values).
The deciding sensor is ASan / UBSan / utilAssert / valgrind; TLC validates the recorded region / abort events."""
import os, json, re
import vlib, suites

LEVEL = "exploration"


def classify(err, rc):
    if "AddressSanitizer" in err:
        kind = "asan"
    elif "runtime error" in err or "UndefinedBehaviorSanitizer" in err:
        kind = "ubsan"
    elif "Assertion" in err or "ASSERT" in err or rc in (134, -6):
        kind = "assert"
    else:
        kind = "signal"
    m = re.search(r"#\d+ 0x[0-9a-f]+ in (\w+) /repo/(src/[\w/\.]+):(\d+)", err)
    if not m:
        m2 = re.search(r"(src/[\w/\.]+):(\d+)", err)
        site = "%s:%s" % (m2.group(1), m2.group(2)) if m2 else "unknown"
    else:
        site = "%s@%s" % (m.group(1), m.group(2))
    return kind, site


def run(ctx):
    ev = ctx.ev
    tier = "quick" if ctx.quick else "thorough"
    variants = ["asan", "asanw32"]
    events = []
    ncalls = 0
    classes = set()
    os.environ["VERIF_REGIONS"] = "1"
    for var in variants:
        for s in suites.SUITES:
            drv = vlib.harness("s_" + s["name"], s["sources"], var, libs=s.get("libs", ()))
            for argv, stdin_fn in s["runs"]:
                args = [a.replace("{tier}", tier if argv[0] != "fmt" else "quick") for a in argv]
                stdin = stdin_fn(ctx, tier) if stdin_fn else None
                out_path = ctx.path("c07_%s_%s_%s.ndjson" % (s["name"], var, args[0]))
                rc, _, err = vlib.run_harness(drv, args, stdin=stdin, out_path=out_path,
                                              env={"VERIF_SEED": ctx.seed, "VERIF_REGIONS": "1"}, timeout=3000)
                events.append({"e": "Run", "suite": s["name"], "run": args[0], "cfg": var})
                n = 0
                for l in open(out_path):
                    l = l.strip()
                    if not l.endswith("}"):
                        continue
                    try:
                        row = json.loads(l)
                    except ValueError:
                        continue
                    if row.get("e") == "Region":
                        events.append(row)
                    elif row.get("fault") or row.get("abort") or row.get("hang") or row.get("overrun") or row.get("op") == "abort":
                        # drivers that survive a fault (guard page / sanitizer in recover mode / assertion / hang
                        # guard) log it in the line of the case that committed it
                        n += 1
                        kind = {1: "asan", 2: "segv", 3: "abort", 4: "timeout"}.get(row.get("fault"), "abort" if row.get("abort") else "hang" if row.get("hang") else "overrun" if row.get("overrun") else "fault")
                        if row.get("op") == "abort":
                            kind = "abort"
                        events.append({"e": "Abort", "kind": kind, "site": "%s:%s" % (row.get("in", row.get("op")), row.get("cls", ""))})
                        events.append({"e": "Run", "suite": s["name"], "run": args[0], "cfg": var})
                        ctx.violation("%s:%s:%s:%s" % (kind, row.get("in", row.get("op")), str(row.get("cls", ""))[:40], s["name"]),
                                      "exact-size %s build: %s inside %s (%s) during suite %s" % (var, kind, row.get("op"), row.get("cls", ""), s["name"]),
                                      {"variant": var, "line": {k: (v if not isinstance(v, list) or len(v) < 64 else v[:64]) for k, v in row.items()}})
                    else:
                        n += 1
                        classes.add((s["name"], var, row.get("op", row.get("e")), str(row.get("b", row.get("cls", "")))[:12],
                                     len(row.get("in", []) or [])))
                ncalls += n
                if rc != 0:
                    kind, site = classify(err, rc)
                    cmd = None
                    if stdin:
                        lines = stdin.decode().splitlines()
                        cmd = lines[n] if n < len(lines) else None
                    events.append({"e": "Abort", "kind": kind, "site": site})
                    ctx.violation("%s:%s:%s:%s" % (kind, site, s["name"], args[0]),
                                  "exact-size %s build: %s at %s during suite %s run %s%s\n%s"
                                  % (var, kind, site, s["name"], args[0], (" command: " + cmd) if cmd else "", err[-1800:]),
                                  {"variant": var, "run": args, "command": cmd, "stderr": err[-6000:]})
                else:
                    events.append({"e": "Done", "calls": n})
    trace = ctx.path("regions.ndjson")
    vlib.write_ndjson(trace, events)
    r = vlib.tlc("Regions", env={"TRACE": trace}, workers=1, timeout=900, extra=["-continue"], quiet=True)
    ev.add("monitor_states", r.distinct)
    if vlib.tlc_infra_failed(r) and not vlib.violated_property(r.out):
        ctx.note_inconclusive("Regions monitor gave no verdict rc=%s" % r.rc)
    elif "InBounds" in r.out and "is violated" in r.out:
        for e in events:
            if e.get("e") == "Region" and e["hwm"] > e["size"]:
                ctx.violation("region-overrun:%s:%s" % (e["f"], e["kind"]), "%s region of %s written beyond its declared size" % (e["kind"], e["f"]), e)
    regs = [e for e in events if e.get("e") == "Region"]
    ev.cov["region_events"] = len(regs)
    ev.cov["region_max_fill"] = sorted(set("%s:%d/%d" % (e["f"], e["hwm"], e["size"]) for e in regs))[:40]
    blob_histories(ctx)
    if not ctx.quick:
        valgrind_pass(ctx)
    ev.cov["evaluations"] = ncalls
    ev.cov["distinct_nontrivial"] = len(classes)
    ev.cov["traces_validated_against_impl"] = len(events)
    ev.cov["rule"] = ("every library call of every replay suite (checks/suites.py) executed in the ASan+UBSan+assert build with exact-size "
                      "buffers/states/blobs, for 64- and 32-bit words; distinct = (suite, word size, operation, class, input length) tuples")
    for e in regs[:1] + [x for x in events if x["e"] == "Done"][:1]:
        ev.sample(e)
    ev.sample({"suites": [s["name"] for s in suites.SUITES], "variants": variants})
    ev.assume("sensor: AddressSanitizer + UBSan (alignment check off: the library accesses octet buffers as words by design) + utilAssert; "
              "a TLA+ model does not decide memory safety, it supplies the systematic behaviour space and validates the event trace")


def blob_histories(ctx):
    """spec/sm/Blob.tla: TLC explores the create / resize / fill / wipe / copy / close histories over sizes around the page
    size and the header, with the predicted observation after every step; the real blob functions replay them in the
    page-rounded and in the exact-size sanitizer builds (Fill touches every octet the caller owns)."""
    import glob
    gdir = ctx.path("blob_gen")
    os.makedirs(gdir, exist_ok=True)
    cfg = None
    if not ctx.quick:
        cfg = ctx.path("blob_full.cfg")
        with open(cfg, "w") as f:
            f.write(open(vlib.find_spec("MC_Blob")[:-4] + ".cfg").read().replace("SizesQuick", "SizesFull"))
    r = vlib.tlc("MC_Blob", cfg, env={"GEN_DIR": gdir}, timeout=1500, workers=8, quiet=True)
    if vlib.tlc_infra_failed(r) or r.rc != 0:
        ctx.note_inconclusive("MC_Blob gave no verdict / violates its own invariants: rc=%s %s" % (r.rc, (r.violation or r.error or "")[:300]))
        return
    cases = [json.load(open(f)) for f in sorted(glob.glob(os.path.join(gdir, "*.json")))]
    ctx.ev.cov["blob_model_states"] = r.distinct
    ctx.ev.cov["blob_histories"] = len(cases)
    cmds = "".join("blob script=%s\n" % c["script"] for c in cases).encode()
    nsteps = 0
    for var in ("asanpage", "asan", "asanw32"):
        drv = vlib.harness("drv_blob", ["drv_blob.c"], var)
        out_path = ctx.path("blob_%s.ndjson" % var)
        rc, _, err = vlib.run_harness(drv, [], stdin=cmds, out_path=out_path, timeout=1800)
        rows = []
        for l in open(out_path):
            try:
                rows.append(json.loads(l))
            except ValueError:
                pass
        if rc != 0:
            kind, site = classify(err, rc)
            nxt = cases[len(rows)]["script"] if len(rows) < len(cases) else "?"
            ctx.violation("blob:%s:%s:%s" % (kind, site, var), "%s build: %s at %s while replaying the blob history %s\n%s" % (var, kind, site, nxt, err[-1800:]),
                          {"variant": var, "script": nxt, "stderr": err[-6000:]})
        for c, x in zip(cases, rows):
            for i, (e, o) in enumerate(zip(c["obs"], x["obs"])):
                nsteps += 1
                bad = blob_step_bad(e, o)
                if bad:
                    tok = c["script"].split(".")[i]
                    ctx.violation("blob:%s:%s:%s" % (tok[0], bad, var), "%s build: blob history %s, step %d (%s): %s differs from what blob.h promises"
                                  % (var, c["script"], i + 1, tok, bad), {"variant": var, "script": c["script"], "step": i + 1, "expected": e, "observed": o})
                    break
    ctx.ev.cov["blob_steps_compared"] = nsteps


def blob_step_bad(e, o):
    """expected observation (model) against the observed one; returns the name of the first differing field"""
    for side in ("a", "b"):
        kind = e["k" + side]
        if o["s" + side] != e["s" + side]:
            return "size-" + side
        if not o["v" + side]:
            return "valid-" + side
        if kind == "pat":
            if o["p" + side] != e["p" + side] or o["z" + side] != e["z" + side]:
                return "content-" + side
        elif kind == "junk":
            if o["t" + side] < e["z" + side]:
                return "zero-tail-" + side
    if e["same"] == "y" and not o["same"]:
        return "descriptor"
    if e["eq"] in ("T", "F") and (o["eq"] == 1) != (e["eq"] == "T"):
        return "blobEq"
    want = {"<": -1, ">": 1, "=": 0}.get(e["cmp"])
    if want is not None and o["cmp"] != want:
        return "blobCmp"
    return None


def valgrind_pass(ctx):
    """thorough: uninitialised-value use, on the rel build of the belt record run."""
    s = suites.SUITES[0]
    drv = vlib.harness("s_" + s["name"], s["sources"], "dbg", libs=s.get("libs", ()))
    import subprocess
    p = subprocess.run(["timeout", "3000", "valgrind", "--error-exitcode=99", "--track-origins=yes", "-q", drv, "record", "quick"],
                       stdout=subprocess.DEVNULL, stderr=subprocess.PIPE, env=dict(os.environ, VERIF_SEED=str(ctx.seed)))
    err = p.stderr.decode(errors="replace")
    ctx.ev.cov["valgrind_rc"] = p.returncode
    if p.returncode == 99:
        m = re.search(r"(?:at|by) 0x[0-9A-F]+: (\w+) \((\w+\.c):(\d+)\)", err)
        site = "%s@%s" % (m.group(1), m.group(2)) if m else "unknown"
        ctx.violation("valgrind:" + site, "valgrind memcheck: " + err[:1500], err[:6000])
