"""C14 — regular (SAFE) routines and tag checks are data-independent; SAFE equals FAST.
 Part 2 (this file, sensor = ptrace single-stepper): every SAFE edition of the 33 SAFE/FAST pairs,
   the verification entry points (belt MAC/Hash/HMAC/DWP/CHE StepV, bashHashStepV, the header check of
   beltKWPUnwrap) and the symmetric primitives are executed under PTRACE_SINGLESTEP for several secret
   variants per public length, on the -O2 (and -O3) objects built from the current tree; the PC-trace
   events are validated by the noninterference monitor spec/mon/CT.tla (TLC, -continue: every leaking
   observation is reported).  The irregular FAST(memEq) is measured too and MUST be flagged (sensor self-test).
 Part 1 (SAFE == FAST == specification, value oracle) runs through the arithmetic driver (see part1())."""
import os, json, re
import vlib

LEVEL = "other"


def run(ctx):
    ev = ctx.ev
    variants = ["rel"] if ctx.quick else ["rel", "rel3", "clangO2"]
    if os.environ.get("VERIF_C14_PART1_ONLY"):      # development aid: part 1 alone (the registered commands never set it)
        variants = []
    total_obs = 0
    publics = set()
    leaks_total = 0
    for var in variants:
        drv = vlib.harness("drv_ct", ["drv_ct.c"], var, libs=["-Wl,-z,now"])
        rc, out, err = vlib.run_harness(drv, ["list"])
        names = [l.split()[1] for l in out.splitlines() if l.strip()]
        ne = len(names)
        nsh = 6
        per = (ne + nsh - 1) // nsh
        budget = 25000 if ctx.quick else 0

        def shard(i):
            return vlib.run_harness(drv, ["run", i * per, per, budget], timeout=3000)
        res = vlib.parallel([(lambda i=i: shard(i)) for i in range(nsh)], n=3)
        rows = []
        for rc, out, err in res:
            rows += [json.loads(l) for l in out.splitlines() if l.strip().endswith("}")]
        if any(r["e"] == "NoSensor" for r in rows) or not rows:
            ctx.note_inconclusive("ptrace single-stepping is not available: part 2 cannot run")
            break
        crashed = [r for r in rows if r["e"] == "Failed" and r.get("rc") == -2]
        for r in crashed[:5]:
            ctx.violation("ct-crash:%s:len=%d" % (r["f"], r["len"]), "%s crashed under the sensor (variant %d)" % (r["f"], r["variant"]), r)
        trace = ctx.path("ct_%s.ndjson" % var)
        vlib.write_ndjson(trace, rows)
        r = vlib.tlc("CT", env={"TRACE": trace}, workers=1, timeout=900, extra=["-continue"], quiet=True)
        if vlib.tlc_infra_failed(r) and "NonInterference" not in r.out:
            ctx.note_inconclusive("CT monitor gave no verdict (rc=%s) %s" % (r.rc, (r.error or "")[-300:]))
            continue
        ev.add("monitor_states", r.distinct)
        # leaking observations: recompute which lines TLC flagged (states with verdict = "leak")
        leak_lines = sorted(set(int(x) - 1 for x in re.findall(r'/\\ l = (\d+)\n(?:/\\ .*\n)*?/\\ verdict = "leak"', reorder(r.out))))
        flagged = {}
        for i in leak_lines:
            if 1 <= i <= len(rows):
                row = rows[i - 1]
                flagged.setdefault((row["f"], row["len"]), []).append(row)
        selftest_ok = any(k[0].startswith("SELFTEST_") for k in flagged)
        ev.cov["sensor_selftest_flagged_" + var] = selftest_ok
        if not selftest_ok:
            ctx.note_inconclusive("sensor self-test: the irregular FAST(memEq) was not flagged in build %s" % var)
        for (f, ln), obs in sorted(flagged.items()):
            if f.startswith("SELFTEST_"):
                continue
            leaks_total += 1
            first = [x for x in rows if x["f"] == f and x["len"] == ln][0]
            ctx.violation("ct:%s:%s:len=%d" % (var, f, ln),
                          "%s (build %s): executed branches depend on secret data: public length %d gives %d different PC traces "
                          "(e.g. variant %d: %d instructions vs variant %d: %d)" % (f, var, ln, 1 + len(set(x["steps"] for x in obs)),
                          first["variant"], first["steps"], obs[0]["variant"], obs[0]["steps"]),
                          {"first": first, "differing": obs[:6], "how": "build/bin/drv_ct-%s-* run <entry> 1" % var})
        if "Exercised" in (vlib.violated_property(r.out) or ""):
            ctx.note_inconclusive("some public part was observed under fewer than two secret variants")
        obs = [x for x in rows if x["e"] == "Observe" and not x["f"].startswith("SELFTEST_")]
        total_obs += len(obs)
        publics |= set((var, x["f"], x["len"]) for x in obs)
        if var == "rel":
            for x in obs[:1] + obs[len(obs) // 2:len(obs) // 2 + 1]:
                ev.sample(x)
    part1(ctx)
    ev.cov["explanation"] = ("2-safety monitor (spec/mon/CT.tla, checked by TLC) over program-counter traces recorded by a ptrace "
                             "single-stepper on the optimised objects of the current tree: %d observations, %d (build, entry, public length) "
                             "classes, each under >= 2 secret variants; %d leaking classes. Data-dependent ADDRESSES (table look-ups) are "
                             "outside the statement and not checked." % (total_obs, len(publics), leaks_total))
    ev.cov["evaluations"] = total_obs
    ev.cov["distinct_nontrivial"] = len(publics)
    ev.cov["traces_validated_against_impl"] = total_obs
    ev.assume("sensor: PTRACE_SINGLESTEP PC sequence between two markers; builds: " + ", ".join(variants))
    ev.assume("secret variants are enumerated classes (equal / first difference at every position / boundary / multiples of the modulus / different keys), not all values")


def reorder(out):
    """TLC prints state variables in its own order; normalise each state block so that 'l' precedes 'verdict'."""
    blocks = re.split(r"\n(?=State \d+:)", out)
    res = []
    for b in blocks:
        m_l = re.search(r"/\\ l = (\d+)", b)
        m_v = re.search(r'/\\ verdict = "(\w+)"', b)
        if m_l and m_v:
            res.append("/\\ l = %s\n/\\ verdict = \"%s\"\n" % (m_l.group(1), m_v.group(1)))
    return "".join(res)


def part1(ctx):
    try:
        import C14_part1
    except ImportError:
        ctx.ev.cov["part1_safe_equals_fast"] = "not wired yet"
        return
    C14_part1.run(ctx)
