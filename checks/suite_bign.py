"""Replayable suite of bign (C02) for the configuration sweep (C19) and the exact-size sanitizer run (C07):
harness/drv_bign.c `record suite` (every class at l = 128, every ninth at l = 192 / 256; relations and ranges only,
no long scalar multiplication for the specification), judged by spec/trace/Trace_Bign.tla.  Lines do not depend on the
word size.  Each case runs in a forked child, so an abort of an assert-enabled configuration is one `abort` line
(rejected by the trace module) and not the end of the run."""

SUITES = [
    {"name": "bign", "sources": ["drv_bign.c"], "libs": [], "trace": "Trace_Bign",
     "runs": [(["record", "suite"], None)]},
]
