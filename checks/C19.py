"""C19 — all build configurations compute the same function.
 The replay suites of the functional checks (checks/suites.py: belt record / FMT / TLC-generated cases /
 fragment scripts / overlap placements, and the suites contributed by the other drivers) are executed by
 a harness built once per configuration: word size {64, 32} x edition {SAFE, FAST} x optimisation {-O0..-O3}
 x assertions {off, on} x bash-f platform.  Identical answers are merged; TLC
   (a) judges every DISTINCT answer with the reference semantics (the right value is pinned, not merely
       a common one), and
   (b) checks with spec/mon/Configs.tla that every case was answered identically by every configuration."""
import os, json, hashlib
import vlib, suites
import C01

LEVEL = "translation_validation"

QUICK = [("rel", ()), ("w32", ()), ("fast", ()), ("O0dbg", ()), ("rel3", ()), ("bash32", ())]


def thorough_configs():
    cfgs = []
    for w in ((), ("-DBEE2_VERIF_W32",)):
        for e in ((), ("-DSAFE_FAST",)):
            for o in ("-O0", "-O1", "-O2", "-O3"):
                for nd in (("-DNDEBUG",), ()):
                    cfgs.append(("base", tuple([o]) + w + e + nd))
    for b, fl in (("BASH_32", ()), ("BASH_SSE2", ("-msse2",)), ("BASH_AVX2", ("-mavx2",)),
                  ("BASH_AVX512", ("-mavx512f", "-fno-asynchronous-unwind-tables"))):
        for w in ((), ("-DBEE2_VERIF_W32",)):
            cfgs.append(("base", ("-O2", "-DNDEBUG", "-D" + b) + fl + w))
    cfgs.append(("clangO2", ()))
    return cfgs


def cfg_name(c):
    return c[0] if not c[1] else c[0] + ":" + " ".join(c[1])


def run(ctx):
    ev = ctx.ev
    tier = "quick" if ctx.quick else "thorough"
    cfgs = QUICK if ctx.quick else thorough_configs()
    cpu = open("/proc/cpuinfo").read()
    skipped = []

    def usable(c):
        fl = " ".join(c[1]) + c[0]
        if ("AVX512" in fl or "avx512" in fl) and "avx512f" not in cpu:
            return False
        if ("AVX2" in fl or "avx2" in fl) and "avx2" not in cpu:
            return False
        return True
    answers = {}      # (suite, run, index) -> {line_json: [cfg names]}
    nprog = 0
    names = []
    for c in cfgs:
        if not usable(c):
            skipped.append(cfg_name(c))
            continue
        name = cfg_name(c)
        names.append(name)
        for s in suites.SUITES:
            if s.get("only") and "C19" not in s["only"]:
                continue
            drv_rows, failures = run_suite_cfg(ctx, s, c, tier)
            nprog += 1
            for (args, rc, err, cmd) in failures:
                ctx.violation("cfg=%s:crash:%s:%s" % (name, s["name"], args[0]),
                              "configuration %s: suite %s run %s stopped (rc=%d) %s\n%s" % (name, s["name"], args, rc, cmd or "", err[-1200:]),
                              {"config": name, "run": args, "command": cmd, "stderr": err})
            counters = {}
            for row in drv_rows:
                runname = row.pop("_run")
                i = counters.get(runname, 0)
                counters[runname] = i + 1
                answers.setdefault((s["name"], runname, i), {}).setdefault(json.dumps(row, sort_keys=True), []).append(name)
    ev.cov["programs"] = nprog
    ev.cov["configurations"] = names
    ev.cov["configurations_skipped_cpu"] = skipped
    # (b) consistency monitor
    mon = [{"all": names}]
    keys = sorted(answers)
    for k in keys:
        mon.append({"case": "%s/%s/%d" % k,
                    "answers": [{"cfgs": v, "digest": hashlib.sha256(a.encode()).hexdigest()[:16]} for a, v in sorted(answers[k].items())]})
    n, bad, r = vlib.validate_lines(ctx, "Configs", mon, timeout=1500)
    ev.add("monitor_states", r.distinct)
    inconsistent = [keys[i - 2] for i in bad if i >= 2]
    # (a) every distinct answer is judged by the reference semantics
    disagreements = 0
    for s in suites.SUITES:
        if s.get("only") and "C19" not in s["only"]:
            continue
        lines, owners = [], []
        for k in keys:
            if k[0] != s["name"]:
                continue
            for a, v in answers[k].items():
                lines.append(json.loads(a))
                owners.append((k, v))
        if not lines:
            continue
        nn, bad2, r2 = vlib.validate_lines(ctx, s["trace"], lines, timeout=3000)
        if nn < len(lines):
            ctx.note_inconclusive("%s evaluated %d of %d distinct answers (rc=%s)" % (s["trace"], nn, len(lines), r2.rc))
        ev.add("distinct_answers_judged", nn)
        for i in bad2:
            k, v = owners[i - 1]
            disagreements += 1
            ctx.violation("cfg=%s:%s" % (v[0], C01.key_of(lines[i - 1]) if s["name"] == "belt" else "%s/%s/%d" % k),
                          "configurations %s give a result that differs from the specification (case %s/%s/%d)" % (v[:4], k[0], k[1], k[2]),
                          {"configs": v, "line": lines[i - 1]})
    for k in inconsistent:
        # configurations disagree; if every distinct answer passed the judge above (cannot happen for a
        # deterministic specification) or a configuration is missing an answer, report the disagreement itself
        got = set(x for v in answers[k].values() for x in v)
        missing = [n for n in names if n not in got]
        if missing:
            continue      # already reported as a crash of that configuration
        disagreements += 1
        ctx.violation("cfgs-disagree:%s/%s/%d" % k, "configurations give %d different answers for case %s/%s/%d: %s"
                      % (len(answers[k]), k[0], k[1], k[2], [v[:3] for v in answers[k].values()]),
                      {"answers": {a[:300]: v for a, v in answers[k].items()}})
    ev.cov["disagreements_checked"] = len(keys)
    ev.cov["cases"] = len(keys)
    ev.cov["disagreements_found"] = disagreements
    ev.cov["traces_validated_against_impl"] = len(keys) * len(names)
    if keys:
        k = keys[len(keys) // 2]
        ev.sample({"case": "%s/%s/%d" % k, "configs_agreeing": list(answers[k].values())[0][:8],
                   "answer": json.loads(list(answers[k])[0]).get("op")})
        ev.sample({"configuration": names[-1]})
    ev.assume("cases are those of checks/suites.py (deterministic given VERIF_SEED); AVX-512/AVX2/SSE2 variants run only if /proc/cpuinfo lists them")
    ev.assume("32-bit words are selected by the guarded BEE2_VERIF_W32 hook on a 64-bit host (no 32-bit libc in the sandbox)")


def run_suite_cfg(ctx, s, c, tier):
    variant, extra = c
    drv = vlib.harness("s_" + s["name"], s["sources"], variant, libs=s.get("libs", ()), lib_extra=extra)
    rows, failures = [], []
    for argv, stdin_fn in s["runs"]:
        args = [a.replace("{tier}", "quick") for a in argv]     # data volume of the quick suites; the configuration product is the point
        stdin = stdin_fn(ctx, tier) if stdin_fn else None
        tag = hashlib.sha256((variant + " ".join(extra)).encode()).hexdigest()[:8]
        out_path = ctx.path("s_%s_%s_%s.ndjson" % (s["name"], tag, args[0]))
        rc, _, err = vlib.run_harness(drv, args, stdin=stdin, out_path=out_path, env={"VERIF_SEED": ctx.seed}, timeout=3000)
        got = []
        for l in open(out_path):
            l = l.strip()
            if l.endswith("}"):
                try:
                    got.append(json.loads(l))
                except ValueError:
                    pass
        for g in got:
            g["_run"] = args[0]
        rows += got
        if rc != 0:
            cmd = None
            if stdin:
                lines = stdin.decode().splitlines()
                cmd = lines[len(got)] if len(got) < len(lines) else None
            failures.append((args, rc, err[-3000:], cmd))
    return rows, failures
