"""C10, non-belt Start/Step/Get bundles (called from checks/C10.py: run(ctx)).
 Bundles of harness/drv_bash.c (mode "steps"):
   bashHash (Start/StepH/StepG/StepV), prgAbsorb / prgSqueeze / prgEncr / prgDecr (bashPrg*Start/*Step),
   brngCTR (Start/StepR/StepG), brngHMAC (Start/StepR), hotp / totp / ocra (Start/StepS/StepR/StepG).
 Fragment scripts come from the same specification as the belt bundles (spec/sm/StepApi.tla explored by
 mc/MC_StepApi with a symbolic block of 8: fragment lengths {0,1,blk-1,blk,blk+1,2blk-1,2blk,2blk+1}, Get /
 Verify / Reloc marks at every position) and are mapped onto each bundle's real block (the sponge rate of
 the level / configuration, 32 octets for brng).  The harness executes them with fresh exact-size fragment
 buffers and state RELOCATION (state copied to a fresh buffer, the old copy overwritten with 0x5A);
 TLC judges every executed script with the reference semantics (trace/Trace_Bash.tla, StepsOk):
 whatever the fragmentation, the outputs are the one-shot values and every Get is the value of the prefix.
"""
import os, json, glob, hashlib
import vlib

DISC = {"eager": ["bashHash", "prgAbsorb"], "stream": ["prgSqueeze", "prgEncr", "prgDecr", "brngCTR", "brngHMAC"]}
BOTP = {"hotp": ["S0,S0,S0", "S0,R,S0,G,S0", "R,S0,G,R,S0,G", "G,S0,R,G,S0,S0,G"],
        "totp": ["S0,S0", "S0,R,S0", "R,S0,R,S0"],
        "ocra": ["S0,S0,S0", "S0,R,S0,G,S0", "R,S0,G,R,S0,G", "G,S0,G"]}
#        tier: (MaxFrags, MaxTotal in blocks, MaxMarks, scripts per sponge bundle, scripts per brng bundle)
BOUNDS = {"quick": (3, 3, 2, 24, 60), "thorough": (4, 3, 2, 300, 600)}
HL = [128, 192, 256, 16, 80]


def block_of(b, p):
    """mirror of the parameter table of drv_bash.c runSteps()"""
    if b == "bashHash":
        return 192 - HL[p % 5] // 2
    if b.startswith("prg"):
        l, d = HL[p % 3], 1 + (p // 3) % 2
        keyed = b in ("prgEncr", "prgDecr") or (p // 6) % 2 == 0
        return 192 - l * (2 + d) // 16 if keyed else 192 - d * l // 4
    return 32


def map_script(s, B):
    out = []
    for tok in s.split(","):
        if tok[0] == "S" or tok[0] == "I":
            n = int(tok[1:]); q = (n + 1) // 8; r = n - 8 * q
            out.append("S%d" % (q * B + r))
        else:
            out.append(tok)
    return ",".join(out)


def key_of(row):
    if row["b"] == "brngHMAC" and "R" in row["script"]:
        return "steps:brngHMAC:reloc"
    return "steps:%s:%s" % (row["b"], row["script"])


def run(ctx):
    ev = ctx.ev
    tier = "quick" if ctx.quick else "thorough"
    fr, tot, mk, cap_sponge, cap_brng = BOUNDS[tier]
    drv = vlib.harness("drv_bash", ["drv_bash.c"], "asan")
    cmds = []
    info = {}
    for d, bundles in DISC.items():
        gdir = ctx.path("gen_other_" + d)
        os.makedirs(gdir, exist_ok=True)
        cfg = ctx.path("other_" + d + ".cfg")
        with open(cfg, "w") as f:
            f.write("SPECIFICATION Spec\nCONSTANTS Discipline = \"%s\"\n Blk = 8\n MaxFrags = %d\n MaxTotal = %d\n MaxMarks = %d\n"
                    " Alphabet <- Alpha\nINVARIANT FilledRange Conservation LazyKeepsLast IFilledRange Emit\nPROPERTY MarksInvisible\n"
                    % (d, fr, tot * 8, mk))
        r = vlib.tlc("MC_StepApi", cfg, env={"GEN_DIR": gdir}, timeout=1200, workers=4 if ctx.quick else 8, quiet=True)
        if vlib.tlc_infra_failed(r) or r.rc != 0:
            ctx.note_inconclusive("MC_StepApi(%s, symbolic block) gave no scripts for the non-belt bundles rc=%s" % (d, r.rc))
            continue
        ev.add("states", r.distinct)
        ev.add("transitions", r.generated)
        ss = sorted(json.load(open(f))["script"] for f in glob.glob(os.path.join(gdir, "*.json")))
        ss = [s for s in ss if s]
        info["scripts_" + d] = len(ss)
        for b in bundles:
            cap = cap_brng if b.startswith("brng") else cap_sponge
            pick = sorted(ss, key=lambda s: hashlib.sha256(("%d:%s:%s" % (ctx.seed, b, s)).encode()).hexdigest())[:cap]
            # relocation followed by more output is the interesting shape for the generators: keep some of them in any subset
            if b.startswith("brng"):
                withr = [s for s in ss if "R" in s and s.rfind("S") > s.find("R")]
                pick = sorted(set(pick[:cap - 12] + sorted(withr, key=lambda s: hashlib.sha256(("%d:%s" % (ctx.seed, s)).encode()).hexdigest())[:12]))
            for i, s in enumerate(pick):
                cmds.append("steps b=%s p=%d script=%s\n" % (b, i, map_script(s, block_of(b, i))))
    for b, ss in BOTP.items():
        for i, s in enumerate(ss):
            for p in range(3 if ctx.quick else 6):
                cmds.append("steps b=%s p=%d script=%s\n" % (b, p + i, s))
    out_path = ctx.path("steps_other.ndjson")
    rc, _, err = vlib.run_harness(drv, ["steps"], stdin="".join(cmds).encode(), out_path=out_path,
                                  env={"VERIF_SEED": ctx.seed}, timeout=1800)
    if rc in (124, 125, 126, 127, 137):
        ctx.note_inconclusive("non-belt bundles: driver could not be run / timed out (rc=%s): %s" % (rc, err[-200:]))
        return
    rows = [json.loads(l) for l in open(out_path) if l.strip().endswith("}")]
    if rc != 0:
        nxt = cmds[len(rows)].strip() if len(rows) < len(cmds) else "?"
        ctx.violation("steps-crash:" + nxt.replace(" ", "_"), "non-belt bundle crashed / sanitizer report on a legal fragment script: %s\n%s" % (nxt, err[-1500:]),
                      {"command": nxt, "stderr": err[-4000:]})
    n, bad, r = vlib.validate_lines(ctx, "Trace_Bash", rows, timeout=3000, workers=None)
    if n < len(rows):
        ctx.note_inconclusive("Trace_Bash evaluated %d of %d non-belt script lines (rc=%s)" % (n, len(rows), r.rc))
    groups = {}
    for i in bad:
        row = rows[i - 1]
        groups.setdefault(key_of(row), []).append(row)
    for key, g in groups.items():
        g.sort(key=lambda x: (len(x["script"]), x["script"]))
        row = g[0]
        ctx.violation(key, "bundle %s: script %s gives a result different from the one-shot value / a wrong Get (%d script(s) of this class)"
                      % (row["b"], row["script"], len(g)),
                      json.dumps({"line": row, "other_scripts": [x["script"] for x in g[1:20]],
                                  "how": "echo 'steps b=%s p=<i> script=%s' | build/bin/drv_bash-asan-* steps ; judged by Trace_Bash!StepsOk" % (row["b"], row["script"])}))
    ev.add("trace_states", r.distinct)
    ev.add("traces_validated_against_impl", n)
    per = {}
    for x in rows:
        per[x["b"]] = per.get(x["b"], 0) + 1
    info["scripts_replayed_by_bundle"] = per
    info["relocations"] = sum(x["script"].count("R") for x in rows)
    # binding self-test: one corrupted line per bundle must be rejected
    mut, seen = [], set()
    for row in rows:
        if row["b"] in seen:
            continue
        m = json.loads(json.dumps(row))
        if m["b"] in ("bashHash", "prgAbsorb"):
            if not m["gets"]:
                continue
            m["gets"][0]["tag"][0] ^= 1
        elif m["b"] in ("prgSqueeze", "prgEncr", "prgDecr"):
            if not m["out"]:
                continue
            m["out"][-1] ^= 1
        else:
            if not m["outs"] or not m["outs"][-1]:
                continue
            m["outs"][-1][0] ^= 1
        seen.add(m["b"])
        mut.append(m)
    if mut:
        n2, bad2, _ = vlib.validate_lines(ctx, "Trace_Bash", mut, timeout=600)
        info["selftest_corrupted_lines"] = len(mut)
        info["selftest_rejected"] = len(bad2)
        if n2 == len(mut) and len(bad2) != len(mut):
            ctx.note_inconclusive("binding self-test (non-belt bundles) failed: %d/%d rejected" % (len(bad2), len(mut)))
    ev.cov["non_belt_bundles"] = info
    for row in rows[:1]:
        ev.sample({k: (v if not isinstance(v, list) or len(v) < 24 else v[:24] + ["..."]) for k, v in row.items()})
    ev.assume("non-belt bundles: scripts of MC_StepApi explored with a symbolic block of 8 octets are mapped onto the real block "
              "(sponge rate / 32); a seeded subset is replayed per bundle (see BOUNDS in checks/C10_other.py)")
