# arithmetic layer (harness/drv_arith.c) in the exact-size build: the result arrays carry canaries beyond the documented
# output length ("overrun" lines), assertions and hangs are logged per call => sensors only, C07 only
# (the values are C05's business; the lines depend on the word size, so the suite is not part of C19)
SUITES = [{"name": "arith", "sources": ["drv_arith.c"], "libs": [], "trace": None, "only": ["C07"], "runs": [(["record", "{tier}"], None)]}]
