"""Message-level reuse of a belt state (spec/sm/MsgApi.tla): shared by C01 and C10.
TLC explores every history of whole-message calls (StepE / StepD / StepD2 / StepR, synchro classes) on one
state within the bounds, checks the header's statements on the model's call records and writes each history as
a replay case; the harness runs the histories on ONE real state object (drv_belt msgs) and TLC judges every
call with the reference semantics (Trace_Belt: one-shot value of the call's own arguments)."""
import os, json, glob, hashlib
import vlib

BUNDLES = {"wbl": "LensWbl", "sde": "LensSde", "fmt": "LensFmt"}


def gen_histories(ctx, maxcalls, workers=4):
    """-> ({bundle: [script,...]}, states, transitions); None for a bundle whose model run gave no verdict."""
    out, states, trans = {}, 0, 0

    def mc(b):
        gdir = ctx.path("msgs_gen_%s_%d" % (b, maxcalls))
        os.makedirs(gdir, exist_ok=True)
        for f in glob.glob(os.path.join(gdir, "*.json")):
            os.unlink(f)
        cfgs = []
        lens = ["{10}", "{17}", "{21}"] if b == "fmt" else [None]     # FMT: one Start fixes (mod, count)
        rs = []
        for i, ln in enumerate(lens):
            cfg = ctx.path("msgs_%s_%d_%d.cfg" % (b, maxcalls, i))
            with open(cfg, "w") as f:
                f.write("SPECIFICATION Spec\nCONSTANTS Bundle = \"%s\"\n MaxCalls = %d\n Lens %s\n MixedR = FALSE\n"
                        "INVARIANT EFresh DFresh RContinues NullIvIsZero IvIsOwn RoundRange Emit\n"
                        % (b, maxcalls, ("= " + ln) if ln else ("<- " + BUNDLES[b])))
            rs.append(vlib.tlc("MC_MsgApi", cfg, env={"GEN_DIR": gdir}, timeout=900, workers=workers, quiet=True))
        return b, rs, gdir

    for b, rs, gdir in vlib.parallel([(lambda b=b: mc(b)) for b in BUNDLES], n=3):
        bad = [r for r in rs if vlib.tlc_infra_failed(r) or r.rc != 0]
        if bad:
            ctx.note_inconclusive("MC_MsgApi(%s) gave no verdict / violates its own invariant: rc=%s %s"
                                  % (b, bad[0].rc, (bad[0].violation or bad[0].error or "")[:300]))
            out[b] = None
            continue
        states += sum(r.distinct for r in rs)
        trans += sum(r.generated for r in rs)
        out[b] = sorted(json.load(open(f))["script"] for f in glob.glob(os.path.join(gdir, "*.json")))
    return out, states, trans


def pick(scripts, cap, seed, always_len=2):
    """All histories of up to always_len calls, plus a seeded sample of the longer ones up to cap."""
    short = [s for s in scripts if s.count(".") < always_len]
    longer = [s for s in scripts if s.count(".") >= always_len]
    longer = sorted(longer, key=lambda s: hashlib.sha256(("%d:%s" % (seed, s)).encode()).hexdigest())[:max(0, cap - len(short))]
    return short + longer


def run_histories(ctx, drv, hist, what="msgs"):
    """hist: {bundle: [script]} -> (lines validated, set of distinct history keys).  Reports violations."""
    cmds = []
    for b, ss in hist.items():
        for i, s in enumerate(ss or []):
            cmds.append("msgs b=%s klen=%d reloc=%d script=%s\n" % (b, (16, 24, 32)[i % 3], (i // 3) % 2, s))
    if not cmds:
        return 0, set()
    out_path = ctx.path(what + ".ndjson")
    rc, _, err = vlib.run_harness(drv, ["msgs"], stdin="".join(cmds).encode(), out_path=out_path,
                                  env={"VERIF_SEED": ctx.seed}, timeout=1800)
    rows = [json.loads(l) for l in open(out_path) if l.strip().endswith("}")]
    if rc != 0:
        ctx.violation("msgs-crash", "belt state reused for several messages: crash / sanitizer report (rc=%d): %s" % (rc, err[-1500:]),
                      {"stderr": err[-4000:], "last_line": rows[-1] if rows else None})
    nshard = 8 if len(rows) > 1500 else 4 if len(rows) > 300 else 1
    shards = vlib.shard(rows, nshard)
    res = vlib.parallel([(lambda sh=sh: vlib.validate_lines(ctx, "Trace_Belt", sh, timeout=2500, workers=2)) for sh in shards], n=nshard)
    nval = 0
    for sh, (n, bad, r) in zip(shards, res):
        if n < len(sh):
            ctx.note_inconclusive("Trace_Belt evaluated %d of %d message-history lines (rc=%s)" % (n, len(sh), r.rc))
        nval += n
        for i in bad:
            row = sh[i - 1]
            ctx.violation("msgs:%s:%s:call%d" % (row["b"], hist_class(row["script"], row["idx"]), row["idx"]),
                          "%s state reused: call %d of the history %s differs from the one-shot value of its own arguments"
                          % (row["b"], row["idx"], row["script"]), {"line": row})
        ctx.ev.add("trace_states", r.distinct)
    return nval, set((r["b"], r["script"]) for r in rows)


def hist_class(script, idx):
    """ops (without lengths) of the history up to the failing call: one defect = one key family"""
    toks = script.split(".")[:idx]
    return "".join(t[0] + (t[-1] if t[-1] in "abn" else "") for t in toks)
