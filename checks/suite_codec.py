# decoders / encoders (C08's record run): inputs end at guard pages, so an over-read faults in any build
SUITES = [{"name": "codec", "sources": ["drv_codec.c"], "libs": [], "trace": "Trace_Codec", "runs": [(["record", "quick"], None)]}]
