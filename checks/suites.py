"""Registry of replayable suites: the enumerated behaviours of the functional checks, re-executed by
C07 (exact-size ASan/UBSan/assert builds, both word sizes) and C19 (every build configuration).
Each suite: harness sources, extra link libs, a list of runs (argv, optional stdin producer) whose
stdout is ndjson judged by a Pattern-F trace module.  A suite is deterministic given VERIF_SEED."""
import os, json, glob
import vlib


def belt_exec_cmds(ctx, tier):
    """TLC-generated belt cases (Gen_Belt) as exec commands."""
    gdir = ctx.path("suite_gen_belt")
    os.makedirs(gdir, exist_ok=True)
    if not glob.glob(os.path.join(gdir, "*.json")):
        vlib.tlc("Gen_Belt", env={"GEN_SEED": ctx.seed, "GEN_DIR": gdir, "GEN_TIER": tier}, timeout=1000, quiet=True)
    def hx(a):
        return "x" + "".join("%02x" % b for b in a)
    cases = [json.load(open(f)) for f in sorted(glob.glob(os.path.join(gdir, "*.json")))]
    return "".join("x op=%s key=%s iv=%s in=%s hdr=%s tag=%s m=%d\n" % (
        c["op"], hx(c["key"]), hx(c["iv"]), hx(c["in"]), hx(c["hdr"]), hx(c["tag"]), c["m"]) for c in cases).encode()


def overlap_cmds(ctx, tier):
    gdir = ctx.path("suite_gen_overlap")
    os.makedirs(gdir, exist_ok=True)
    if not glob.glob(os.path.join(gdir, "*.json")):
        vlib.tlc("Overlap", env={"GEN_DIR": gdir}, timeout=600, quiet=True)
    cmds = []
    for fpath in sorted(glob.glob(os.path.join(gdir, "*.json"))):
        if os.path.basename(fpath).startswith("state_"):
            continue
        d = json.load(open(fpath))
        pls = sorted(d["placements"], key=lambda p: (p["doff"], p["key"], p["iv"], p["hdr"], p["tag"]))
        if tier == "quick":
            pls = pls[::5]
        for p in pls:
            c = "overlap f=%s klen=32 len=%d hlen=%d doff=%d" % (d["f"], d["len"], d["hlen"], p["doff"])
            for k, a in (("key", "kpos"), ("iv", "ipos"), ("hdr", "hpos"), ("tag", "tpos")):
                if p[k] != -100000:
                    c += " %s=%d" % (a, p[k])
            cmds.append(c + "\n")
    return "".join(cmds).encode()


def ovstate_cmds(ctx, tier):
    """buffers overlapping the state object: the named positions of Overlap.tla's second rule group"""
    gdir = ctx.path("suite_gen_overlap")
    os.makedirs(gdir, exist_ok=True)
    if not glob.glob(os.path.join(gdir, "state_*.json")):
        vlib.tlc("Overlap", env={"GEN_DIR": gdir}, timeout=600, quiet=True)
    cmds = []
    for fpath in sorted(glob.glob(os.path.join(gdir, "state_*.json"))):
        d = json.load(open(fpath))
        for p in sorted(d["placements"], key=lambda p: (p["pos"], p["klen"], p["len"])):
            cmds.append("ovstate f=%s kind=%s pos=%s klen=%d len=%d\n" % (d["f"], d["kind"], p["pos"], p["klen"], p["len"]))
    return "".join(cmds).encode()


def msgs_cmds(ctx, tier):
    """message-level reuse of WBL / SDE / FMT states: all histories of <= 2 calls of spec/sm/MsgApi.tla"""
    import msgs
    hist, _, _ = msgs.gen_histories(ctx, 2)
    cmds = []
    for b, ss in sorted(hist.items()):
        for i, s in enumerate(ss or []):
            cmds.append("msgs b=%s klen=%d reloc=%d script=%s\n" % (b, (16, 24, 32)[i % 3], (i // 3) % 2, s))
    return "".join(cmds).encode()


def steps_cmds(ctx, tier):
    """A fixed family of fragment scripts (the complete families are C10's business)."""
    fr = [0, 1, 15, 16, 17, 31, 32, 33]
    cmds = []
    for b, alpha in (("mac", fr), ("hash", fr + [63, 64, 65]), ("hmac", fr), ("cfbE", fr), ("cfbD", fr), ("ctr", fr),
                     ("dwpE", fr), ("dwpD", fr), ("cheE", fr), ("cheD", fr)):
        for i, a in enumerate(alpha):
            for j, c in enumerate(alpha):
                if tier == "quick" and (i + j) % 3:
                    continue
                pre = "I%d," % alpha[(i + j) % len(alpha)] if b[:3] in ("dwp", "che") else ""
                cmds.append("steps b=%s klen=%d script=%sS%d,G,R,S%d,V\n" % (b, (16, 24, 32)[(i + j) % 3], pre, a, c))
    # stream bundles: two short fragments inside one block, then data crossing the following blocks
    for b in ("cfbE", "cfbD", "ctr", "dwpE", "cheE"):
        for a, c in ((3, 2), (5, 11), (1, 15), (15, 1), (7, 9)):
            cmds.append("steps b=%s klen=%d script=S%d,S%d,S43%s\n" % (b, (16, 24, 32)[(a + c) % 3], a, c, ",G" if b[:3] in ("dwp", "che") else ""))
    for b in ("ecbE", "ecbD", "cbcE", "cbcD"):
        for a in (16, 32, 48):
            for c in (16, 17, 31, 33):
                cmds.append("steps b=%s klen=32 script=S%d,R,S%d\n" % (b, a, c))
    for b in ("bdeE", "bdeD"):
        cmds.append("steps b=%s klen=24 script=S16,S0,R,S32\n" % b)
    return "".join(cmds).encode()


SUITES = [
    {"name": "belt", "sources": ["drv_belt.c", "drv_belt_steps.c"], "libs": ["-lm"], "trace": "Trace_Belt",
     "runs": [(["record", "{tier}"], None), (["fmt", "{tier}"], None), (["exec"], belt_exec_cmds),
              (["steps"], steps_cmds), (["overlap"], overlap_cmds), (["ovstate"], ovstate_cmds), (["msgs"], msgs_cmds)]},
]
# suites contributed by the other checks: checks/suite_<name>.py with a SUITES list, enabled by a line
# "<name>" in checks/suites_enabled.txt (a suite is enabled once its builder reports it deterministic,
# word-size independent at the level of its logged lines, and clean on the unchanged tree)
_here = os.path.dirname(os.path.abspath(__file__))
try:
    _enabled = [l.strip() for l in open(os.path.join(_here, "suites_enabled.txt")) if l.strip() and not l.startswith("#")]
except OSError:
    _enabled = []
for _name in _enabled:
    try:
        m = __import__("suite_" + _name)
        SUITES += m.SUITES
    except Exception as _e:
        vlib.log("[suites] suite_%s not loaded: %s" % (_name, _e))


def run_suite(ctx, suite, variant, tier, fmt_quick=True):
    """Execute all runs of a suite in one library variant.  Returns (rows, failures) where failures is a
    list of (run argv, rc, stderr tail, command that was being executed or None)."""
    drv = vlib.harness("s_" + suite["name"], suite["sources"], variant, libs=suite.get("libs", ()))
    rows, failures = [], []
    for argv, stdin_fn in suite["runs"]:
        args = [a.replace("{tier}", tier) for a in argv]
        if fmt_quick and args[0] == "fmt":
            args = ["fmt", "quick"]
        stdin = stdin_fn(ctx, tier) if stdin_fn else None
        out_path = ctx.path("suite_%s_%s_%s.ndjson" % (suite["name"], variant, args[0]))
        rc, _, err = vlib.run_harness(drv, args, stdin=stdin, out_path=out_path, env={"VERIF_SEED": ctx.seed}, timeout=3000)
        got = []
        for l in open(out_path):
            l = l.strip()
            if l.endswith("}"):
                try:
                    got.append(json.loads(l))
                except ValueError:
                    pass
        for g in got:
            g["_run"] = args[0]
        rows += got
        if rc != 0:
            cmd = None
            if stdin:
                lines = stdin.decode().splitlines()
                cmd = lines[len(got)] if len(got) < len(lines) else None
            failures.append((args, rc, err[-3000:], cmd))
    return rows, failures
