"""C12 - validators accept exactly the valid parameters, keys, dates, primes and polynomials.

 (0) anchors: spec/ref/ValidatorVectors.tla (known primes / Carmichael numbers / strong pseudoprimes, certificates,
     irreducible polynomials, calendar facts, chain rules) evaluated by TLC - a failure is a specification error;
 (1) record direction (harness/drv_valid.c record): all 10^6 digit dates + every non-digit octet class + (y, m, d) grids,
     exhaustive prime windows [0, 2^16) and around 2^32 (priIsPrimeW, priIsPrime, priNextPrimeW, priNextPrime),
     all binary polynomials of degree <= 12, seeded ones of degree 128/192/256 (ppIsIrred, belsValM);
 (2) exec direction: the generators of checks/suite_valid.py enumerate the standard parameter sets of bign, bign96,
     g12s, stb99, pfok, dstu with every single-field perturbation, each carrying the name of the violated condition
     and the evidence that lets TLC verify the violation cheaply (factor, remainder, recomputed belt-hash ...);
     accepted sets are expanded into one line per condition of the standard's list (primes: Pocklington certificates
     found offline by tools/pricert.py and CHECKED by TLC); keys on the standard curves by class and on complete tiny
     curves exhaustively; seeds of stb99 / pfok at every boundary of the chain rules; Carmichael numbers, strong
     pseudoprimes, products of two primes, known primes, next-prime searches, the factor base.
 Every line is judged by spec/trace/Trace_Valid.tla.  A line whose evidence TLC does not accept is re-judged with the
 recorded answer flipped: only if the flipped line passes is the code wrong (otherwise: generator fault, inconclusive).
"""
import os, re, json, time, random, collections
import vlib
import suite_valid as G

LEVEL = "exploration"
WORKERS = int(os.environ.get("VERIF_WORKERS", "0")) or None


def brief(row):
    return {k: (v if not isinstance(v, list) or len(v) <= 24 else v[:24] + ["...(%d)" % len(v)]) for k, v in row.items()
            if k not in ("pcert", "qcert", "ncert", "cert")}


def win_part(off):
    return ("priIsPrimeW", "priIsPrime", "priNextPrimeW", "priNextPrime")[min(off // 1000, 3)]


def key_of(row, off=0):
    op = row.get("op")
    cls = str(row.get("cls", ""))
    if op in ("dateND", "dateND2"):
        v = [off + 10] if op == "dateND" else [off // 32, off % 32]
        return "tmDateIsValid2:octet>9-accepted" if max(v) > 9 else "tmDateIsValid2:digits:pos=%d" % row.get("pos", 0)
    if op == "dateYY":
        return "tmDateIsValid2:digits:mmdd=%04d" % off
    if op == "dateYMD":
        return "tmDateIsValid:m=%d:d=%d" % (off // 33, off % 33)
    if op == "win":
        f = win_part(off)
        if f == "priNextPrime" and row.get("nn", 1) > 1 and row.get("bc", 0) > 0:
            return "priNextPrime:leading-zero-words:factor-base-prime-skipped"
        extra = ""
        if f in ("priIsPrime", "priNextPrime"):
            extra = ":n=%d" % row.get("nn", 0)
        if f == "priNextPrime":
            extra += ":bc=%d" % row.get("bc", 0)
        return "%s:%s%s" % (f, cls, extra)
    if op == "irredWin":
        return "ppIsIrred:deg<=13"
    if op == "pval":
        return "%sParamsVal:%s:%s:%s" % (row.get("scheme"), row.get("expect"), row.get("cond"), cls)
    if op in ("pubkeyVal", "keypairVal"):
        return "%s%s:%s" % (row.get("scheme"), op[0].upper() + op[1:], cls)
    if op == "onA":
        return "ecpIsOnA:%s" % cls
    if op == "safeGroup":
        thr = row.get("thr", [])
        t = thr[off] if 0 <= off < len(thr) else off
        k = row.get("k", 0)
        rel = ("threshold=k" if t == k else "threshold=k-1" if t == k - 1 else "threshold>k" if t > k else "threshold<k") if k else "threshold=%s" % t
        return "ecpIsSafeGroup:%s:%s" % (cls.split(":")[0] if k else cls, rel)
    if op == "smooth" and row.get("hang") and G.le(row.get("a", [0])) == 0:
        return "priIsSmooth:a=0:hang"
    if op == "nextPrime" and len(row.get("a", [])) > 8 and row.get("base", 0) > 0 and G.le(row.get("a", [0])) < 10000:
        return "priNextPrime:leading-zero-words:factor-base-prime-skipped"
    if op == "stb99SeedVal" and cls.startswith("di0=") and row.get("rc") == 0:
        return "stb99SeedVal:di0>7l/8-r:accepted"
    if op == "stb99SeedVal" and cls.startswith("ri:") and row.get("rc") != 0:
        return "stb99SeedVal:ri-chain:5y/4<x<=5y/4+4:rejected"
    if op in ("smooth", "sieved"):
        a = G.le(row.get("a", [0]))
        return "priIs%s:a=%s:octets=%d:bc=%d%s" % (op.capitalize(), a if a < 1000 else "big", len(row.get("a", [])), row.get("base", 0), ":hang" if row.get("hang") else "")
    if op == "nextPrime":
        return "%s:%s:octets=%d:bc=%d" % (row.get("f", "priNextPrimeW" if row.get("w") else "priNextPrime"), cls, len(row.get("a", [])), row.get("base", 0))
    if op == "isPrime":
        return "%s:%s" % ("priIsPrimeW" if row.get("w") else "priIsPrime", cls)
    return "%s:%s" % (op, cls)


def evals_of(row):
    n = 0
    for k in ("res", "resW", "resN", "nextW", "nextN"):
        if isinstance(row.get(k), list):
            n += len(row[k])
    return max(n, 1)


class Judge:
    def __init__(self, ctx):
        self.ctx = ctx
        self.total = 0
        self.lines = 0
        self.distinct = set()
        self.tlc_states = 0
        self.bad_rows = []
        self.by_key = {}

    def run(self, rows, what, timeout=1500):
        ctx = self.ctx
        if not rows:
            return []
        n, bad, r = vlib.validate_lines(ctx, "Trace_Valid", rows, timeout=timeout, workers=WORKERS)
        if n < len(rows):
            ctx.note_inconclusive("%s: TLC evaluated %d of %d lines (rc=%s): %s" % (what, n, len(rows), r.rc, (r.violation or r.error or "")[:300]))
            return None
        det = {int(i): (int(c), int(m)) for i, c, m in re.findall(r'<<\s*"@DETAIL",\s*(\d+),\s*(\d+),\s*(-?\d+)\s*>>', r.out)}
        self.tlc_states += r.distinct
        self.lines += len(rows)
        for row in rows:
            self.total += evals_of(row)
            self.distinct.add(key_of(row).replace("fail:", "").replace("hold:", ""))
        return [(i, rows[i - 1], det.get(i, (1, 0))) for i in bad]

    def report(self, bads, what):
        """bads: [(index, row, (count, least offset))] -> violations, after the flip test for evidence-carrying lines"""
        ctx = self.ctx
        flip = []
        for i, row, (cnt, off) in bads:
            if row["op"] == "safeGroup" and off in (900, 901):
                ctx.note_inconclusive("%s: crafted (p, q) pair not accepted by TLC (code %d, generator fault): %s" % (what, off, json.dumps(brief(row))[:300]))
            elif row["op"] in ("pval", "isPrime", "sgPrime"):
                f = dict(row)
                if "rc" in f:
                    f["rc"] = 0 if f["rc"] else 1
                else:
                    f["res"] = 1 - f["res"]
                flip.append((row, f))
            else:
                self.violate(row, cnt, off, what)
        if flip:
            n, bad, r = vlib.validate_lines(ctx, "Trace_Valid", [f for _, f in flip], timeout=1500, workers=WORKERS)
            if n < len(flip):
                ctx.note_inconclusive("%s: flip test not evaluated" % what)
                return
            for k, (row, f) in enumerate(flip, 1):
                if k in bad:
                    ctx.note_inconclusive("%s: evidence of line %s not accepted by TLC either way (generator / specification fault): %s"
                                          % (what, key_of(row), json.dumps(brief(row))[:300]))
                else:
                    self.violate(row, 1, 0, what)

    def violate(self, row, cnt, off, what):
        key = key_of(row, off)
        self.bad_rows.append(row)
        self.by_key[key] = self.by_key.get(key, 0) + 1
        if self.by_key[key] > 1:
            return
        self.ctx.violation(key, "%s: recorded answer of the library differs from the specification (%d differing entr%s, first at offset %d; %s)"
                           % (row.get("op"), cnt, "y" if cnt == 1 else "ies", off, describe(row, off)),
                           {"line": brief(row), "first_offset": off, "how": "re-run ./check C12; the line is decided by spec/trace/Trace_Valid.tla"})


def describe(row, off):
    op = row.get("op")
    if op == "dateND":
        d = list(row["base"]); d[row["pos"]] = off + 10
        return "tmDateIsValid2(%s) returned %d" % (d, row["res"][off])
    if op == "dateND2":
        d = list(row["base"]); d[row["pos"]] = off // 32; d[row["pos"] + 1] = off % 32
        return "tmDateIsValid2(%s) returned %d" % (d, row["res"][off])
    if op == "win":
        a = G.le(row["a"]) + off % 1000
        f = win_part(off)
        arr = ("resW", "resN", "nextW", "nextN")[min(off // 1000, 3)]
        v = row[arr][off % 1000]
        if f.startswith("priNext"):
            return "%s(a=%d, n=%d words, base_count=%d) -> %s" % (f, a, row.get("nn", 1), row.get("bc", 0), "none" if v < 0 else G.le(row["a"]) + v)
        return "%s(%d) = %d" % (f, a, v)
    return json.dumps(brief(row))[:300]


def run_exec(ctx, drv, cmds, name, timeout=1800):
    path = ctx.path(name + ".cmds")
    with open(path, "w") as f:
        f.write("\n".join(cmds) + "\n")
    rc, out, err = vlib.run_harness(drv, ["exec"], stdin=("\n".join(cmds) + "\n").encode(), env={"VERIF_SEED": ctx.seed}, timeout=timeout)
    rows = []
    for l in (out or "").splitlines():
        if l.strip().endswith("}"):
            try:
                rows.append(json.loads(l))
            except ValueError:
                pass
    if rc != 0 or len(rows) != len(cmds):
        cmd = cmds[len(rows)] if len(rows) < len(cmds) else "?"
        site = re.search(r"#\d+ 0x[0-9a-f]+ in (\w+) [^\n]*?/src/([\w/\.]+):(\d+)", err or "")
        ctx.violation("crash:%s:%s" % (cmd.split(" ")[0], site.group(1) if site else ("timeout" if rc == 124 else "rc%d" % rc)),
                      "driver stopped in a library call (rc=%d) while executing: %s\n%s" % (rc, cmd[:300], (err or "")[-1500:]),
                      {"cmd": cmd, "stderr": (err or "")[-3000:]})
    return rows


def attach_certs(row, ps):
    """evidence for the primality conditions of an accepted standard set"""
    sch = row["scheme"]
    if row["cond"] == "pprime":
        c = G.cert_for(ps.v["p"])
        if c:
            row["pcert"] = json.loads(G.cert_arg(c))
        return c is not None
    if row["cond"] == "qprime":
        qv = (ps.v["p"] - 1) // 2 if sch == "pfok" else ps.v["q"]
        c = G.cert_for(qv)
        if c:
            row["qcert"] = json.loads(G.cert_arg(c))
        return c is not None
    if row["cond"] == "nprime":
        c = G.cert_for(ps.v["n"])
        if c:
            row["ncert"] = json.loads(G.cert_arg(c))
        return c is not None
    return True


CONDS = {
    "bign": ["l", "pad", "plen", "p3mod4", "pprime", "arange", "brange", "bseed", "bqr", "disc", "qlen", "qprime", "qnep", "mov", "yG", "order"],
    "g12s": ["l", "pprime", "arange", "brange", "J", "disc", "qlen", "qprime", "qnep", "mnep", "hasse", "mov", "base", "order"],
    "stb99": ["lr", "pad", "plen", "pprime", "qlen", "qprime", "qdiv", "arange", "drange", "agen", "anotone"],
    "pfok": ["lr", "nl", "plen", "pprime", "qprime", "grange", "gord"],
    "dstu": ["fshape", "firred", "A", "B", "n160", "nprime", "hasse", "mov"],
}
CONDS["bign96"] = CONDS["bign"]
HEAVY = {"pprime", "qprime", "nprime", "order", "agen", "gord", "bqr", "yG", "firred"}


def cond_affordable(sch, cond, bits, quick):
    """which conditions of an accepted set TLC evaluates in this tier (the others are listed as assumptions)"""
    if cond not in HEAVY:
        return True
    if not quick:
        return bits <= 1100 or cond in ("firred",)
    if cond in ("bqr", "yG"):
        return bits <= 512
    if cond == "firred":
        return bits <= 260
    if cond in ("pprime", "qprime", "nprime"):
        return bits <= 260
    if cond == "order":
        return bits <= 200
    return bits <= 700


def run(ctx):
    ev = ctx.ev
    tier = "quick" if ctx.quick else "thorough"
    rng = random.Random(int(ctx.seed) * 1000003 + 12)
    J = Judge(ctx)
    t00 = time.time()
    # (0) anchors
    r = vlib.tlc("ValidatorVectors", timeout=900, extra=["-continue"], workers=WORKERS, quiet=True)
    failed = re.findall(r'/\\ ok = FALSE\s*\n/\\ phase = \d+\s*\n/\\ name = "(\w+)"', r.out) + re.findall(r'name = "(\w+)"\s*\n/\\ ok = FALSE', r.out)
    if "ok = FALSE" in r.out and not failed:
        failed = ["?"]
    ev.cov["anchor_vectors_evaluated"] = max(0, (r.distinct - 1) // 2)
    if r.rc != 0 or failed or r.distinct < 3:
        ctx.note_inconclusive("specification anchors fail (specification error, no verdict): %s %s" % (failed, (r.violation or r.error or "")[:300]))
        return
    drv = vlib.harness("drv_valid", ["drv_valid.c"], "asan")          # ASan + UBSan, exact-size buffers
    env = {"VERIF_SEED": ctx.seed}
    # (1) record direction
    rec = ctx.path("record.ndjson")
    rc, _, err = vlib.run_harness(drv, ["record", tier], out_path=rec, env=env, timeout=1800)
    rows = vlib.read_ndjson(rec) if rc == 0 else []
    if rc != 0:
        ctx.violation("crash:record", "driver stopped in a library call (rc=%d): %s" % (rc, err[-1500:]), err[-4000:])
    bads = J.run(rows, "record", timeout=2400)
    if bads:
        J.report(bads, "record")
    selftest(ctx, rows)
    for x in rows[:1] + [y for y in rows if y["op"] == "win"][:1]:
        ev.sample(brief(x))
    ev.cov["dates_digit_strings"] = sum(len(x["res"]) for x in rows if x["op"] == "dateYY")
    ev.cov["dates_nondigit_cases"] = sum(len(x["res"]) for x in rows if x["op"] in ("dateND", "dateND2"))
    ev.cov["window_numbers"] = sum(len(x["resW"]) for x in rows if x["op"] == "win")
    ev.cov["polynomials_small_degree"] = sum(len(x["res"]) for x in rows if x["op"] == "irredWin")
    # (2) exec direction
    std = G.load_std(drv, env=env)
    if not std:
        ctx.note_inconclusive("driver produced no standard parameter sets")
        return
    sets = [G.PSet(r_["scheme"], r_) for r_ in std if r_["scheme"] in G.FIELDS]
    seeds_std = [r_ for r_ in std if r_["scheme"] in ("stb99seed", "pfokseed")]
    bels_std = [r_ for r_ in std if r_["scheme"] == "bels"]

    def aid(op, args):
        rc_, out_, _ = vlib.run_harness(drv, ["exec"], stdin=("%s %s\n" % (op, args)).encode(), timeout=60)
        return json.loads(out_.splitlines()[0])["out"]
    cmds = []
    accept = {}
    for ps in sets:
        sch = ps.scheme
        bits = ps.v["f"][0] if sch == "dstu" else ps.v["p"].bit_length()
        big = bits > 600
        accept[(sch, ps.name)] = ps
        if sch == "dstu":
            # the standard curves come without a base point: it is generated as dstu.h prescribes (dstuPointGen, seeded)
            g = ps.copy()
            for f in ("Px", "Py"):
                g.v.pop(f)
            cmds.append("pval " + " ".join(a for a in g.args_without(("Px", "Py")) + ["expect=hold", "cond=ALL", "cls=std+generated-point",
                                                                                     "set=" + ps.name, "gen=%d" % (int(ctx.seed) + 7)]))
            cmds += G.dstu_perturbations(ps, rng, tier)
            continue
        cmds.append(G.pval_cmd(ps, "hold", "ALL", "std"))
        if sch in ("bign", "bign96", "g12s"):
            cmds += G.ec_perturbations(ps, rng, tier, aid if sch != "g12s" else None, heavy=(bits <= 400 or not ctx.quick))
        else:
            cmds += G.dl_perturbations(ps, rng, tier, heavy=(bits <= 700 if ctx.quick else bits <= 1100))
        if sch in ("bign", "bign96"):
            heavy = (sch == "bign96") or (not ctx.quick and bits <= 256)
            cmds += G.key_cmds(ps, rng, tier, heavy)
        if sch == "pfok":
            base = " ".join(ps.args())
            no = ps.n["p"]
            for cls, y in (("y=0", 0), ("y=1", 1), ("y=p-1", ps.v["p"] - 1), ("y=p", ps.v["p"]), ("y=p+1", ps.v["p"] + 1), ("y=seeded", rng.randrange(2, ps.v["p"])),
                           ("y=all-ones", (1 << (8 * no)) - 1)):
                cmds.append("pubkeyVal %s Q=%s cls=%s" % (base, G.hx(y, no), cls))
            # word-structured comparisons: the part above a split point greater and the part below smaller (y > p), and the
            # converse (y < p), for split points at word / half-word boundaries from both ends (partial top words included)
            P = ps.v["p"]
            for sbits in sorted(set([32, 64, 128, 8 * no - 64, 8 * no - 32, 8 * no - 8, 8 * (no // 2), 8 * (no - no % 8), 8 * (no - no % 4)])):
                if sbits <= 0 or sbits >= 8 * no:
                    continue
                mask = (1 << sbits) - 1
                hi, lo = P >> sbits, P & mask
                if (hi + 1) << sbits < (1 << (8 * no)) and lo > 0:
                    cmds.append("pubkeyVal %s Q=%s cls=y-hi-greater-lo-smaller@%d" % (base, G.hx(((hi + 1) << sbits) | (lo - 1), no), sbits))
                    cmds.append("pubkeyVal %s Q=%s cls=y-hi-greater-lo-zero@%d" % (base, G.hx((hi + 1) << sbits, no), sbits))
                if hi > 0:
                    cmds.append("pubkeyVal %s Q=%s cls=y-hi-smaller-lo-greater@%d" % (base, G.hx(((hi - 1) << sbits) | mask, no), sbits))
    # parameter generation from the standard seeds (stb99: every level; pfok: the test level - the others take hours)
    for nm in ["test", "1.2.112.0.2.0.1176.2.3.3.1", "1.2.112.0.2.0.1176.2.3.6.1", "1.2.112.0.2.0.1176.2.3.10.1"]:
        cmds.append("paramsGen scheme=stb99 name=%s cls=from-standard-seed" % nm)
    cmds.append("paramsGen scheme=pfok name=test cls=from-standard-seed")
    # bignParamsGen walked over its first seeds (carries of seed + 1 across one, two, ... octets; the standard's own seeds)
    bg = [("1.2.112.0.2.0.34.101.45.3.1", "5E38010000000000", 2, "std"), ("1.2.112.0.2.0.34.101.45.3.1", "FF30010000000000", 3, "carry1"),
          ("1.2.112.0.2.0.34.101.45.3.1", "FEFFFF0000000000", 4, "carry3"), ("1.2.112.0.2.0.34.101.45.3.1", "FDFFFFFFFFFFFFFF", 4, "wrap"),
          ("1.2.112.0.2.0.34.101.45.3.2", "FFFF000000000000", 3, "carry2"), ("1.2.112.0.2.0.34.101.45.3.3", "00FFFFFFFF000000", 3, "inner")]
    if tier != "quick":
        bg += [("1.2.112.0.2.0.34.101.45.3.%d" % (1 + i % 3), "%02XFF%02X%02XFF000000" % (250 + i % 6, (i * 37) % 256, 255 if i % 2 else (i * 11) % 256), 4, "rand") for i in range(12)]
    for nm, sd, mx, cls in bg:
        cmds.append("bignGen name=%s seed=%s max=%d cls=gen-%s" % (nm, sd, mx, cls))
    cmds += G.seed_cmds(rng, tier)
    for s in seeds_std:
        L = lambda a: ",".join(str(x) for x in a)
        if s["scheme"] == "stb99seed":
            cmds.append("stb99SeedVal l=%d zi=%s di=%s ri=%s cls=std" % (s["l"], L(s["zi"]), L(s["di"]), L(s["ri"])))
        else:
            cmds.append("pfokSeedVal l=%d zi=%s li=%s cls=std" % (s["l"], L(s["zi"]), L(s["li"])))
    cmds += G.prime_cmds(rng, tier)
    cmds += G.poly_cmds(rng, tier, bels_std)
    cmds += G.tiny_curve_cmds(rng, tier)
    cmds += G.safe_group_cmds(rng, tier)
    rows2 = run_exec(ctx, drv, cmds, "exec")
    # expand accepted standard sets into one line per condition
    lines = []
    assumed = collections.Counter()
    for row in rows2:
        if row.get("op") == "pval" and row.get("cond") == "ALL":
            ps = accept.get((row["scheme"], row.get("set")))
            bits = (ps.v["f"][0] if row["scheme"] == "dstu" else ps.v["p"].bit_length()) if ps else 0
            for c in CONDS[row["scheme"]]:
                x = dict(row); x["cond"] = c
                if not cond_affordable(row["scheme"], c, bits, ctx.quick):
                    assumed["%s:%s" % (row["scheme"], c)] += 1
                    continue
                if not attach_certs(x, ps):
                    assumed["%s:%s(no certificate)" % (row["scheme"], c)] += 1
                    continue
                lines.append(x)
        elif row.get("op") in ("beltHash", "pubkeyCalc"):
            continue
        else:
            lines.append(row)
    ev.cov["exec_lines"] = len(lines)
    # heavy lines first is not needed: TLC takes lines in any order; shard into two runs to bound memory
    bads = J.run(lines, "exec", timeout=3000)
    if bads:
        J.report(bads, "exec")
    for x in [y for y in lines if y["op"] == "pval"][:2] + [y for y in lines if y["op"] == "stb99SeedVal"][:1]:
        ev.sample(brief(x))
    ev.cov["param_lines_reject"] = sum(1 for x in lines if x.get("op") == "pval" and x.get("expect") == "fail")
    ev.cov["param_lines_accept_conditions"] = sum(1 for x in lines if x.get("op") == "pval" and x.get("expect") == "hold")
    ev.cov["key_lines"] = sum(1 for x in lines if x.get("op") in ("pubkeyVal", "keypairVal"))
    ev.cov["safe_group_calls"] = sum(len(x.get("res", [])) for x in lines if x.get("op") == "safeGroup")
    ev.cov["tiny_curve_points"] = sum(len(x.get("res", [])) for x in lines if x.get("op") == "onA")
    ev.cov["seed_lines"] = sum(1 for x in lines if "Seed" in x.get("op", ""))
    ev.cov["number_lines"] = sum(1 for x in lines if x.get("op") in ("isPrime", "sgPrime", "nextPrime", "sieved", "smooth"))
    ev.cov["evaluations"] = J.total
    ev.cov["lines_validated"] = J.lines
    ev.cov["distinct_nontrivial"] = len(J.distinct)
    ev.cov["traces_validated_against_impl"] = J.lines
    ev.cov["tlc_states"] = J.tlc_states
    ev.cov["rule"] = ("structure enumerated: (validator, parameter set, perturbed field, violated condition) / (function, window or class of number) / "
                      "(seed rule, boundary) / (curve, x row); data seeded; distinct = distinct structural keys (op, class, condition); every "
                      "key is decided by TLC from the standard's condition list, Miller-Rabin with proven base sets or a checked certificate")
    ev.assume("condition lists transcribed in spec/ref/Validators.tla from the headers and standards (bign 6.1.4, GOST R 34.10-2012 5.2, "
              "stb99.h, pfok.h, dstu.h), anchored by spec/ref/ValidatorVectors.tla in this run")
    ev.assume("level tables (l, r) of STB 1176.2 / the pfok draft are taken as published in the library's tables, cross-checked with the "
              "standard parameter sets of levels 1, 3, 6, 10")
    if assumed:
        ev.assume("conditions of accepted standard sets NOT evaluated by TLC in this tier (cost) and taken from the publication of the "
                  "standard: " + ", ".join("%s x%d" % kv for kv in sorted(assumed.items())))
    ev.cov["wall_breakdown"] = {"total": round(time.time() - t00, 1)}


def selftest(ctx, rows):
    """binding: corrupt one recorded result of a few lines; TLC must flag exactly those"""
    mut = []
    for op, arr in (("dateYY", "res"), ("dateYMD", "res"), ("win", "resW"), ("win", "nextW"), ("irredWin", "res"), ("belsValM", None)):
        cand = [r for r in rows if r["op"] == op]
        if not cand:
            continue
        m = json.loads(json.dumps(cand[len(cand) // 2]))
        if arr:
            k = len(m[arr]) // 3
            m[arr][k] = 1 - m[arr][k] if m[arr][k] in (0, 1) else m[arr][k] + 2
        else:
            m["rc"] = 0 if m["rc"] else 505
            m["irred"] = 1 - m["irred"]
        mut.append(m)
    if not mut:
        return
    n, bad, r = vlib.validate_lines(ctx, "Trace_Valid", mut, timeout=600, workers=WORKERS)
    ctx.ev.cov["selftest_corrupted_lines"] = len(mut)
    ctx.ev.cov["selftest_rejected"] = len(bad)
    if n == len(mut) and len(bad) != len(mut):
        ctx.note_inconclusive("binding self-test: %d of %d corrupted lines were not rejected" % (len(mut) - len(bad), len(mut)))
