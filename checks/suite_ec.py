"""Replayable suite of the elliptic-curve layer (C06) for the configuration sweep (C19) and the exact-size
sanitizer run (C07): harness/drv_ec.c `record suite` emits self-contained lines (a complete small curve, two
multi-word subgroup curves in the plain (two words), Crandall and Montgomery rings, law lines on the four standard curves) that
spec/trace/Trace_EC.tla recomputes.  Lines do not depend on the word size; every description / stack / point buffer
is malloc'ed at exactly its documented size."""

SUITES = [
    {"name": "ec", "sources": ["drv_ec.c"], "libs": [], "trace": "Trace_EC",
     "runs": [(["record", "suite"], None)]},
]
