"""C16 - bign96, g12s (GOST R 34.10-2012), dstu (DSTU 4145-2002) signatures and pfok key agreement are sound.

 (0) anchors: spec/ref/SchemeVectors.tla - GOST A.1 / A.2, DSTU B.1, the bign96 and pfok reference vectors, tape and
     hash-reduction facts, group laws on complete tiny structures - evaluated by TLC (failure = specification error);
 (1) scenarios (checks/suite_schemes.py -> harness/drv_schemes.c): every standard parameter set x private-key class
     {1, order - 1 / largest, seeded} x hash class {0, all ones, = order, >= order, seeded; DSTU: shorter / longer than
     the field} x generator tapes (admissible first draw, inadmissible draws first, all zero; GOST: a private key that
     makes s = 0 on the first nonce) x alterations of r, s, hash, public key, signature length;
     each scenario records key generation, validation calls, signature, verification and every altered verification;
 (1r) constructed histories for the REPETITIONS of the signing loops (S.retry_cmds): every dstu curve, g12s set and bign96 x
     plans of draws (one-time key 0 / trimmed to 0 / = q / > q; dstu: r = 0 by a hash tied to the draw; dstu, g12s: s = 0 by a
     private key tied to the draw d = -e / r, d = -k e / r; several repetitions in one call).  The line carries parameters,
     d, H, the whole tape, signature, return codes, number of generator calls.  Cheap form on every line (signature equation
     for the draw the library stopped at, ranges, Sign -> Verify); on the sets picked by the seed (quick) / all sets (thorough)
     G12sSign / B96Sign / DstuSign of ref/Schemes.tla recompute the whole loop (which draw is used, the signature it defines),
     the verification equation and the public key; TLC also confirms that every draw takes the planned branch;
 (2) spec/trace/Trace_Schemes.tla decides every line: private key = first admissible draw of the tape, components in
     range, the signature equation for s given r, Sign -> Verify, Gen -> Val, compression values and round trips,
     both pfok parties agree; alterations: out of range / padding / bad length => rejected, reduced hash unchanged =>
     same answer; "heavy" copies of selected lines let TLC recompute the expensive values as well (Q = dP, r from the
     nonce, the verification equation of an altered signature, Montgomery powers);
 (3) GF(2^m) trace and quadratic solver exhaustively on complete small fields.
 Assumption A1 (stated in the evidence): an in-range alteration that changes r, s, the reduced hash or the public key
 is expected to be rejected; TLC confirms it with the verification equation only on the heavy copies.
"""
import os, re, json, time, random, collections
import vlib
import suite_schemes as S

LEVEL = "exploration"
WORKERS = int(os.environ.get("VERIF_WORKERS", "0")) or None
PART = {0: "whole-line", 1: "keypair-generation", 2: "signature-value", 3: "sign-then-verify", 4: "validation-call", 5: "compress-recover", 6: "key-agreement",
        7: "planned-branches-not-taken", 8: "point-xpoint-overlap"}
RETRY_OPS = ("g12sRetry", "bign96Retry", "dstuRetry")


def brief(row):
    out = {}
    for k, v in row.items():
        if k == "alts":
            out[k] = [{"a": a["a"], "rc": a["rc"]} for a in v] if isinstance(v, list) else v
        elif isinstance(v, list) and len(v) > 40:
            out[k] = v[:40] + ["...(%d)" % len(v)]
        else:
            out[k] = v
    return out


def key_of(row, part):
    op = row.get("op")
    cls = str(row.get("cls", ""))
    name = row.get("name", "")
    sset = name.split(".")[-1] if name else ""
    if op == "gf2":
        return "gf2Tr/gf2QSolve:f=%s" % ",".join(str(x) for x in row.get("f", []))
    if op in RETRY_OPS:
        # scheme + the repetition branches the history goes through
        scheme = op[:-5]
        plan = str(row.get("plan", "")).replace(",", "+")
        if part in (2, 3):
            return "%sSign:retry:%s" % (scheme, plan)
        return "%sSign:retry:%s:%s" % (scheme, plan, PART.get(part, str(part)))
    if part >= 10:
        alts = row.get("alts", [])
        a = alts[part - 11]["a"] if 0 < part - 10 <= len(alts) else "?"
        a = re.sub(r"\^\d+", "^bit", a)
        return "%sVerify:alt=%s" % (op, a)
    what = PART.get(part, str(part))
    if part in (2, 3) and "s=0" in cls:
        return "%sSign:s=0-not-redrawn" % op
    dcls = cls.split(":")[0]
    hcls = cls.split(":")[1] if ":" in cls else ""
    if part in (2, 3):
        return "%s:%s:%s" % (op, what, hcls or cls)
    if part == 5:
        return "%s:%s:%s" % (op, what, cls if op == "dstuPoint" else "")
    return "%s:%s:%s" % (op, what, dcls)


def crash_key(cmd, err, rc):
    toks = dict(t.split("=", 1) for t in cmd.split(" ")[1:] if "=" in t)
    m = re.search(r"Assertion in [^\n]*?/src/([\w/\.]+)::(\d+)", err or "") or re.search(r"#\d+ 0x[0-9a-f]+ in (\w+) [^\n]*?/src/([\w/\.]+):(\d+)", err or "")
    where = ("assert@%s" % m.group(1)) if m and "Assertion" in m.group(0) else (m.group(1) if m else ("timeout" if rc == 124 else "rc%d" % rc))
    cls = toks.get("cls", "")
    return "crash:%s:%s:%s" % (cmd.split(" ")[0], cls.split(":")[1] if ":" in cls else cls, where)


def run_exec(ctx, drv, cmds, name, timeout=2400):
    """executes the commands; a command that stops the driver (assertion, sanitizer report, signal) is reported and skipped"""
    with open(ctx.path(name + ".cmds"), "w") as f:
        f.write("\n".join(cmds) + "\n")
    rows, todo, crashes, seen_crash = [], list(cmds), 0, set()
    while todo and crashes < 40:
        rc, out, err = vlib.run_harness(drv, ["exec"], stdin=("\n".join(todo) + "\n").encode(), env={"VERIF_SEED": ctx.seed}, timeout=timeout)
        got = []
        for l in (out or "").splitlines():
            if l.strip().endswith("}"):
                try:
                    got.append(json.loads(l))
                except ValueError:
                    pass
        rows += got
        if rc == 0 and len(got) == len(todo):
            break
        crashes += 1
        cmd = todo[len(got)] if len(got) < len(todo) else "?"
        ck = crash_key(cmd, err, rc)
        todo = todo[len(got) + 1:]
        if ck in seen_crash:
            continue
        seen_crash.add(ck)
        ctx.violation(ck, "driver stopped in a library call (rc=%d) while executing: %s\n%s" % (rc, cmd[:400], (err or "")[-1200:]),
                      {"cmd": cmd, "stderr": (err or "")[-3000:]})
    return rows


def heavy_copies(rows, quick, rng):
    """copies of selected scenario lines in which TLC recomputes the expensive values (one expensive part per copy)"""
    out = []
    budget = collections.Counter()

    def alt_index(row, names):
        idx = []
        for nm in names:
            for i, a in enumerate(row.get("alts", []), 1):
                if a["a"] == nm:
                    idx.append(i)
                    break
        return idx
    for row in rows:
        op, cls = row["op"], str(row.get("cls", ""))
        if row.get("rcStd", 0) != 0:
            continue
        if op == "g12s":
            bits = row["l"]
            lim = (1 if bits == 256 else 0) if quick else (2 if bits == 256 else 1)
            special = "s=0" in cls
            # quick: the whole loop of a first nonce with s = 0 is recomputed on the g12sRetry lines (retry_copies) instead
            if special and budget[("g12s-s0", bits)] < (0 if quick else 1):
                budget[("g12s-s0", bits)] += 1
                out.append(dict(row, hs=1, copy="sign"))
            if "seeded" in cls and not special and budget[("g12s", row["name"])] < lim and budget[("g12s-all", bits)] < (1 if quick else 6):
                budget[("g12s", row["name"])] += 1
                budget[("g12s-all", bits)] += 1
                out.append(dict(row, hg=1, copy="gen"))
                out.append(dict(row, hs=1, copy="sign"))
                for i in alt_index(row, ["Q-"] if quick else ["Q-", "s^0", "r^0", "h^0"]):
                    out.append(dict(row, ha=[i], copy="alt%d" % i))
        elif op == "bign96":
            if budget["bign96"] < (2 if quick else 8) and "tape-zero" not in cls:
                budget["bign96"] += 1
                out.append(dict(row, hg=1, copy="gen"))
                out.append(dict(row, hs=1, copy="sign"))
                for i in alt_index(row, ["u^0", "Q-"] if quick else ["u^0", "Q-", "s^0", "h^0", "s+q"]):
                    out.append(dict(row, ha=[i], copy="alt%d" % i))
        elif op == "dstu":
            m = row["f"][0]
            if m <= (163 if quick else 233) and budget[("dstu", m)] < (1 if quick else 2) and "seeded" in cls and row.get("rcSign") == 0:
                budget[("dstu", m)] += 1
                out.append(dict(row, hg=1, copy="gen"))
                out.append(dict(row, hs=1, copy="sign"))
                if not quick:
                    out.append(dict(row, hp=1, copy="order"))
                for i in alt_index(row, ["Q-"] if quick else ["Q-", "s^0", "h^0"]):
                    out.append(dict(row, ha=[i], copy="alt%d" % i))
        elif op == "pfok":
            l = row["l"]
            if l <= (700 if quick else 1100) and budget[("pfok", l)] < (1 if quick else 3):
                budget[("pfok", l)] += 1
                out.append(dict(row, hg=1, copy="gen"))
                out.append(dict(row, hs=1, copy="agree"))
    return out


def retry_copies(rows, quick, rng):
    """heavy copies of the constructed repetition histories: hs = the whole signing loop, hv = the verification equation,
    hg = the public key.  quick: one dstu curve of the five smallest fields (plans s0 and e0,r0,s0: every branch), the s0 plan on
    one of the next two fields, one 256-bit g12s set (plans s0 and kmax,s0,k0), bign96 - chosen by the seed; thorough: every
    set and plan, except that of the three 512-bit g12s sets only one (by the seed) gets the s = 0 loops.  A line on which the library did not use the planned number of draws (or failed) always gets the loop copy:
    only the specification may decide it."""
    out = []
    dstu_m = sorted({x["f"][0] for x in rows if x["op"] == "dstuRetry"})
    g256 = sorted({x["name"] for x in rows if x["op"] == "g12sRetry" and x["l"] == 256})
    pick_d1 = rng.choice(dstu_m[:5]) if dstu_m else None
    pick_d2 = rng.choice(dstu_m[5:7]) if len(dstu_m) > 5 else None
    pick_g = rng.choice(g256) if g256 else None
    g512 = sorted({x["name"] for x in rows if x["op"] == "g12sRetry" and x["l"] != 256})
    pick_g512 = rng.choice(g512) if g512 else None
    for row in rows:
        op = row["op"]
        if op not in RETRY_OPS:
            continue
        plan = row["plan"]
        odd = row.get("rcSign") != 0 or row.get("drawsSign") != len(row.get("want", []))
        if op == "dstuRetry":
            m = row["f"][0]
            loop = (not quick) or (m == pick_d1 and plan in ("s0", "e0,r0,s0")) or (m == pick_d2 and plan == "s0")
            ver = "s0" in plan.split(",") if not quick else (m == pick_d1 and plan == "s0")
            gen = plan == "s0" and (not quick or m == pick_d1)
            cost = (m / 163.0) ** 2 * 7
        elif op == "g12sRetry":
            # a 512-bit scalar multiplication costs TLC minutes: thorough recomputes the s = 0 loops and the equation on one 512-bit
            # set chosen by the seed (the out-of-range plan on all three); every 256-bit set completely
            big = row["l"] != 256
            mine = row["name"] == (pick_g512 if big else pick_g)
            if quick:
                loop = mine and not big and plan in ("s0", "kmax,s0,k0")
                ver = mine and not big and plan == "s0"
                gen = False
            else:
                loop = (not big) or mine or plan == "k0,kq,kmax"
                ver = "s0" in plan.split(",") and ((not big) or (mine and plan == "s0"))
                gen = plan == "s0" and not big
            cost = 215 if big else 18
        else:
            loop = True
            ver = plan == "k0,kq,kmax"
            gen = plan == "k0,kq,kmax" and not quick
            cost = 10
        nmul = sum(1 for w in row.get("want", []) if w in ("r=0", "s=0", "used"))
        if loop or odd:
            out.append(dict(row, hs=1, copy="loop", cost=int(cost * nmul)))
        if ver:
            out.append(dict(row, hv=1, copy="verify", cost=int(cost * 2)))
        if gen:
            out.append(dict(row, hg=1, copy="gen", cost=int(cost)))
    return out


def run(ctx):
    ev = ctx.ev
    tier = "quick" if ctx.quick else "thorough"
    rng = random.Random(int(ctx.seed) * 1000003 + 16)
    t0 = time.time()
    r = vlib.tlc("SchemeVectors", timeout=3000, extra=["-continue"], workers=WORKERS, quiet=True, env={"VSEL": tier})
    failed = re.findall(r'/\\ ok = FALSE\s*\n/\\ phase = \d+\s*\n/\\ name = "(\w+)"', r.out) + re.findall(r'name = "(\w+)"\s*\n/\\ ok = FALSE', r.out)
    if "ok = FALSE" in r.out and not failed:
        failed = ["?"]
    ev.cov["anchor_vectors_evaluated"] = max(0, (r.distinct - 1) // 2)
    if r.rc != 0 or failed or r.distinct < 3:
        ctx.note_inconclusive("specification anchors fail (specification error, no verdict): %s %s" % (failed, (r.violation or r.error or "")[:300]))
        return
    t_anchor = time.time() - t0
    drv = vlib.harness("drv_schemes", ["drv_schemes.c"], "asan")
    env = {"VERIF_SEED": ctx.seed}
    pr = S.load_params(drv, env)
    if len(pr) < 8 + 1 + 10 + 4:
        ctx.note_inconclusive("driver did not return the standard parameter sets (%d)" % len(pr))
        return
    cmds = []
    cmds += S.g12s_cmds(rng, tier, {n: pr[("g12s", n)] for n in S.G12S_SETS})
    cmds += S.bign96_cmds(rng, tier, pr[("bign96", "")])
    dpr = S.dstu_params(drv, env)
    cmds += S.dstu_cmds(rng, tier, dpr)
    cmds += S.pfok_cmds(rng, tier, {n: pr[("pfok", n)] for n in S.PFOK_SETS})
    cmds += S.gf2_cmds(tier)
    cmds += S.retry_cmds(rng, tier, pr, dpr)
    t1 = time.time()
    rows = run_exec(ctx, drv, cmds, "exec")
    t_exec = time.time() - t1
    # bign96 once more in the release build (no assertions): a wrong answer instead of an abort when H >= q
    drv_rel = vlib.harness("drv_schemes", ["drv_schemes.c"], "rel")
    rel_cmds = [c for c in cmds if c.startswith("bign96 ") and ("h=ones" in c or "h=q" in c)]
    rows_rel = [dict(x, variant="rel") for x in run_exec(ctx, drv_rel, rel_cmds, "exec_rel")]
    rows += rows_rel
    unbuilt = [x for x in rows if x["op"] in RETRY_OPS and x.get("rcStd", 0) == 0 and x.get("built") != 1]
    if unbuilt:
        ctx.note_inconclusive("%d repetition histories could not be constructed by the driver: %s" % (len(unbuilt), [(x["op"], x.get("name"), x.get("plan")) for x in unbuilt][:5]))
        rows = [x for x in rows if x not in unbuilt]
    base = [x for x in rows if "variant" not in x]
    heavy = heavy_copies(base, ctx.quick, rng) + retry_copies(base, ctx.quick, random.Random(int(ctx.seed) * 7919 + 16))
    # the expensive copies first: TLC's workers take the lines in order, so the long evaluations start at once
    for h in heavy:
        if "cost" not in h:
            h["cost"] = {"g12s": 18 if h.get("l") == 256 else 215, "bign96": 10, "pfok": 30}.get(h["op"], int((h["f"][0] / 163.0) ** 2 * 7) if h["op"] == "dstu" else 5)
    heavy.sort(key=lambda x: -x.get("cost", 0))
    lines = heavy + rows
    t2 = time.time()
    n, bad, res = vlib.validate_lines(ctx, "Trace_Schemes", lines, timeout=3300, workers=WORKERS)
    t_tlc = time.time() - t2
    if n < len(lines):
        ctx.note_inconclusive("TLC evaluated %d of %d lines (rc=%s): %s" % (n, len(lines), res.rc, (res.violation or res.error or "")[:300]))
    parts = {int(i): [int(x) for x in re.findall(r"-?\d+", lst)] for i, lst in re.findall(r'<<\s*"@PARTS",\s*(\d+),\s*<<([^>]*)>>\s*>>', res.out)}
    seen = {}
    unreached = []
    for i in bad:
        row = lines[i - 1]
        for part in parts.get(i, [0]):
            if part == 7 and row["op"] in RETRY_OPS:
                # the specification finds other branches than the planned ones: the history is not the intended one (no verdict
                # on the code from this part; the other parts of the line are still decided by the specification's loop)
                unreached.append((row["op"], row.get("name", ""), row.get("plan")))
                continue
            key = key_of(row, part)
            seen[key] = seen.get(key, 0) + 1
            if seen[key] > 1:
                continue
            if row["op"] in RETRY_OPS:
                ctx.violation(key, "%s %s [%s]: on the constructed tape whose draws take the branches %s of the standard's signing loop the library "
                              "stopped at draw %s (rcSign=%s, its own verification returned %s): %s differs from what the loop of ref/Schemes.tla defines%s" % (
                                  row["op"][:-5], row.get("name", ""), row.get("cls", ""), row.get("want"), row.get("drawsSign"), row.get("rcSign"), row.get("rcVerify"),
                                  PART.get(part, str(part)), " (whole loop recomputed by TLC)" if row.get("copy") == "loop" else ""),
                              {"line": brief(row), "part": part, "how": "re-run ./check C16; the line is decided by spec/trace/Trace_Schemes.tla (G12sRetryBad / B96RetryBad / DstuRetryBad)"})
                continue
            alt = row["alts"][part - 11] if part >= 10 and row.get("op") != "gf2" and 0 < part - 10 <= len(row.get("alts", [])) else None
            ctx.violation(key, "%s %s [%s]: %s differs from the specification%s" % (
                row.get("op"), row.get("name", ""), row.get("cls", ""), PART.get(part, "alteration %s" % (alt["a"] if alt else part)),
                (": altered verification returned %d" % alt["rc"]) if alt else ""),
                {"line": brief(row), "part": part, "alteration": alt, "how": "re-run ./check C16; the line is decided by spec/trace/Trace_Schemes.tla"})
    if unreached:
        ctx.note_inconclusive("constructed histories do not take the planned repetition branches according to the specification: %s" % unreached[:5])
    selftest(ctx, rows)
    retry_stats(ctx, rows, lines, bad)
    nalts = sum(len(x.get("alts", [])) for x in rows if isinstance(x.get("alts"), list))
    distinct = set()
    for x in rows:
        distinct.add((x["op"], x.get("name", ""), str(x.get("cls", ""))))
        for a in (x.get("alts") if isinstance(x.get("alts"), list) else []):
            distinct.add((x["op"], x.get("name", ""), re.sub(r"\d+", "", a["a"])))
    ev.cov["scenarios"] = len(rows)
    ev.cov["altered_verifications"] = nalts
    ev.cov["heavy_copies"] = len(heavy)
    ev.cov["gf2_elements"] = sum(len(x.get("els", [])) for x in rows if x["op"] == "gf2")
    ev.cov["evaluations"] = len(rows) + nalts + ev.cov["gf2_elements"] + ev.cov["heavy_copies"]
    ev.cov["distinct_nontrivial"] = len(distinct)
    ev.cov["lines_validated"] = n
    ev.cov["traces_validated_against_impl"] = n
    ev.cov["tlc_states"] = res.distinct
    ev.cov["wall_breakdown"] = {"anchors": round(t_anchor, 1), "driver": round(t_exec, 1), "tlc": round(t_tlc, 1)}
    for x in rows[:1] + [y for y in rows if y["op"] == "dstu"][:1] + [y for y in rows if y["op"] == "pfok"][:1]:
        ev.sample(brief(x))
    ev.cov["rule"] = ("structure enumerated: scheme x standard parameter set x private-key class x hash class x tape class x signature length x "
                      "alteration kind; data seeded; distinct = distinct (scheme, set, class) and (scheme, set, alteration kind) tuples; every one "
                      "is decided by TLC from the standard's equations (cheap parts on every line, expensive values on the heavy copies)")
    ev.assume("A1: an in-range alteration that changes r, s, the reduced hash or the public key of a valid signature is expected to be rejected "
              "(accidental acceptance has probability about 1/order); TLC confirms it with the verification equation on the heavy copies only")
    ev.assume("standards as transcribed in spec/ref/Schemes.tla (GOST R 34.10-2012 6.1/6.2, DSTU 4145-2002 5.8-5.10, 6.9, 6.10, 11-13, bign 7.1 at "
              "l = 96 with the library's s0 encoding, pfok.h), anchored by spec/ref/SchemeVectors.tla in this run")
    ev.assume("the standard parameter sets are those returned by the library (validated by C12)")


def retry_stats(ctx, rows, lines, bad):
    """measured counts of the repetition histories: lines, plans, and - from the loop copies TLC accepted, i.e. where the
    specification itself found the planned branch for every draw - how often each branch was reached"""
    ev = ctx.ev
    retry = [x for x in rows if x["op"] in RETRY_OPS]
    badset = set(bad)
    reached = collections.Counter()
    loops = 0
    for i, x in enumerate(lines, 1):
        if x["op"] in RETRY_OPS and x.get("copy") == "loop":
            loops += 1
            if i not in badset:
                for w in x.get("want", [])[:-1]:
                    reached["%s:%s" % (x["op"][:-5], w)] += 1
    ev.cov["retry_histories"] = len(retry)
    ev.cov["retry_histories_by_scheme"] = dict(collections.Counter(x["op"][:-5] for x in retry))
    ev.cov["retry_plans"] = sorted({"%s:%s" % (x["op"][:-5], x["plan"]) for x in retry})
    ev.cov["retry_draws_discarded_by_library"] = sum(max(0, x.get("drawsSign", 1) - 1) for x in retry)
    ev.cov["retry_loop_copies"] = loops
    ev.cov["retry_verify_copies"] = sum(1 for x in lines if x["op"] in RETRY_OPS and x.get("copy") == "verify")
    ev.cov["retry_gen_copies"] = sum(1 for x in lines if x["op"] in RETRY_OPS and x.get("copy") == "gen")
    ev.cov["retry_branches_confirmed_by_specification"] = dict(reached)
    ev.cov["retry_sets_with_loop_copy"] = sorted({"%s:%s" % (x["op"][:-5], x.get("name", "")) for x in lines if x["op"] in RETRY_OPS and x.get("copy") == "loop"})
    for x in [y for y in retry if y["op"] == "dstuRetry" and "s0" in y["plan"]][:1]:
        ev.sample(brief(x))


def selftest(ctx, rows):
    """binding: corrupt recorded fields of a few lines; TLC must flag exactly those"""
    mut = []
    for op in ("g12s", "bign96", "dstu", "pfok", "gf2"):
        cand = [r for r in rows if r["op"] == op and r.get("rcStd", 0) == 0 and r.get("rcSign", 0) == 0 and "tape-zero" not in str(r.get("cls"))]
        if not cand:
            continue
        m = json.loads(json.dumps(cand[len(cand) // 2]))
        if op in ("g12s", "bign96", "dstu"):
            m["sig"][len(m["sig"]) - 1 if op != "dstu" else len(m["sig"]) // 2] ^= 1        # s changes: the signature equation fails
        elif op == "pfok":
            m["mti_b"][0] ^= 1
        else:
            if not m.get("els"):
                continue
            m["els"][len(m["els"]) // 2]["tr"] ^= 1
        mut.append(m)
        if op == "g12s":
            m2 = json.loads(json.dumps(cand[0])); m2["rcVerify"] = 510; mut.append(m2)
    # repetition histories: (a) s of a dstu signature produced after the s = 0 repetition changed; (b) the library claims to have
    # stopped one draw earlier (at the draw that gives s = 0); (c) the loop copy: the tape's discarded draw replaced by an
    # admissible one - the specification's loop then defines another signature than the recorded one
    for op, plan in (("dstuRetry", "s0"), ("g12sRetry", "s0"), ("bign96Retry", "k0,kq,kmax")):
        cand = [r for r in rows if r["op"] == op and r.get("plan") == plan and r.get("rcSign") == 0 and r.get("built") == 1]
        if not cand:
            continue
        m = json.loads(json.dumps(cand[int(ctx.seed) % len(cand)]))
        if op == "dstuRetry":
            m["sig"][len(m["sig"]) // 2] ^= 1
        elif op == "g12sRetry":
            m["drawsSign"] -= 1
        else:
            m["tape"][0] = 1; m["hs"] = 1
        mut.append(m)
    if not mut:
        return
    n, bad, r = vlib.validate_lines(ctx, "Trace_Schemes", mut, timeout=900, workers=WORKERS)
    ctx.ev.cov["selftest_corrupted_lines"] = len(mut)
    ctx.ev.cov["selftest_rejected"] = len(bad)
    if n == len(mut) and len(bad) != len(mut):
        ctx.note_inconclusive("binding self-test: %d of %d corrupted lines were not rejected" % (len(mut) - len(bad), len(mut)))
