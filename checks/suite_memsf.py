# the regular and fast editions of the memory / hex comparison functions called BY NAME (C14 part 1): lengths with
# partial top words, first difference at every position; octet lines judged by Trace_MemSF
SUITES = [{"name": "memsf", "sources": ["drv_memsf.c"], "libs": [], "trace": "Trace_MemSF", "runs": [(["record", "quick"], None)]}]
