"""C14 part 1: every SAFE / FAST pair returns identical results = the single specification value.
 29 pairs (zz modular / reduction routines, ww comparisons, CLZ / CTZ) are called BY NAME by the arithmetic driver
 (harness/drv_arith.c, lines with ed = safe | fast) and judged by Trace_Arith; so are the alias macros of zm.h / gfp.h /
 qr.h (zmAdd, zmSub, zmNeg, zmIsIn, gfpDouble, gfpHalf, qrIsUnity, qrCmp: family "ring"), each expanded once with the
 callee's default name bound to the regular and once to the fast edition; the 7 memory / hex pairs by
 harness/drv_memsf.c and Trace_MemSF.  safe = spec and fast = spec  =>  safe = fast on every recorded operand."""
import json
import vlib


def run(ctx):
    ev = ctx.ev
    tier = "quick" if ctx.quick else "thorough"
    total = 0
    pairs = set()
    # memory / hex pairs
    d = vlib.harness("drv_memsf", ["drv_memsf.c"], "rel")
    out = ctx.path("memsf.ndjson")
    rc, _, err = vlib.run_harness(d, ["record", tier], out_path=out, env={"VERIF_SEED": ctx.seed}, timeout=600)
    rows = [json.loads(l) for l in open(out) if l.strip().endswith("}")]
    if rc != 0:
        ctx.violation("part1:memsf-crash", "memory / hex pair crashed: %s" % err[-800:], err[-3000:])
    n, bad, r = vlib.validate_lines(ctx, "Trace_MemSF", rows, timeout=900)
    if n < len(rows):
        ctx.note_inconclusive("Trace_MemSF evaluated %d of %d lines" % (n, len(rows)))
    for i in bad:
        x = rows[i - 1]
        ctx.violation("part1:%s:%s:n=%d" % (x["op"], x["ed"], len(x["a"])), "%s edition of %s differs from its definition (so SAFE != FAST here)" % (x["ed"], x["op"]), x)
    total += n
    pairs |= set(x["op"] for x in rows)
    # arithmetic pairs through the arithmetic driver (families with two editions)
    try:
        import C05
    except ImportError:
        ev.cov["part1_arith_pairs"] = "arithmetic driver not available"
    else:
        da = vlib.harness("drv_arith", ["drv_arith.c"], "rel")
        out = ctx.path("arith_sf.ndjson")
        rc, _, err = vlib.run_harness(da, ["record", tier, "zz", "mod", "red", "ww", "word", "ring"], out_path=out, env={"VERIF_SEED": ctx.seed}, timeout=1500)
        rows = [x for x in (json.loads(l) for l in open(out) if l.strip().endswith("}")) if x.get("ed") in ("safe", "fast")]
        if ctx.quick and len(rows) > 30000:      # the seed picks the subset; every (op, edition, n) keeps its first lines
            keep, seen = [], {}
            for x in rows:
                ring = x.get("fam") == "qr"          # alias macros: per ring (constructor, strategy, length), sparser
                k = (x.get("op"), x.get("fn"), x.get("ed"), x.get("n"), x.get("ctor"), x.get("strat"), x.get("no"))
                seen[k] = seen.get(k, 0) + 1
                if seen[k] <= (3 if ring else 12) or (seen[k] + ctx.seed) % (16 if ring else 4) == 0:
                    keep.append(x)
            rows = keep
        if not ctx.quick and len(rows) > 120000:
            # thorough: the enumeration is ~700 k edition lines; every (op, edition, n, ring) group keeps its first 80 lines and
            # every 6th of the rest (fixed phase + seed), then the lines are judged in shards (one TLC run cannot hold them)
            keep, seen = [], {}
            for x in rows:
                k = (x.get("op"), x.get("fn"), x.get("ed"), x.get("n"), x.get("ctor"), x.get("strat"), x.get("no"))
                seen[k] = seen.get(k, 0) + 1
                if seen[k] <= 80 or (seen[k] + ctx.seed) % 6 == 0:
                    keep.append(x)
            ev.cov["part1_edition_lines_recorded"] = len(rows)
            rows = keep
        SH = 20000
        if len(rows) <= SH:
            n, bad, r = vlib.validate_lines(ctx, "Trace_Arith", rows, timeout=3000)
        else:
            parts = [(s0, rows[s0:s0 + SH]) for s0 in range(0, len(rows), SH)]
            res = {}

            def job(s0, part):
                def f():
                    nn, bb, rr = vlib.validate_lines(ctx, "Trace_Arith", part, timeout=3000, workers=4)
                    if nn < len(part):
                        nn, bb, rr = vlib.validate_lines(ctx, "Trace_Arith", part, timeout=3000, workers=4)
                    res[s0] = (nn, [s0 + i for i in bb])
                return f
            vlib.parallel([job(s0, part) for s0, part in parts], n=4)
            n = sum(v[0] for v in res.values())
            bad = sorted(i for v in res.values() for i in v[1])
        if n < len(rows):
            ctx.note_inconclusive("Trace_Arith evaluated %d of %d edition lines" % (n, len(rows)))
        for i in bad[:40]:
            x = rows[i - 1]
            ctx.violation("part1:" + C05.key_of(x), "%s edition of %s differs from its definition (so SAFE != FAST here)" % (x.get("ed"), x.get("op")), x)
        total += n
        pairs |= set((x.get("fn") or x.get("op")) for x in rows)
    ev.cov["part1_edition_lines_validated"] = total
    ev.cov["part1_pairs"] = sorted(str(p) for p in pairs)
