"""C01 — belt computes what STB 34.101.31 defines.
 (0) the reference semantics (spec/ref/BeltBlock, BeltModes, BeltFmt) is anchored: the appendix
     vectors A.1-A.28, B.1 are evaluated by TLC (a failure here is a specification error: inconclusive);
 (1) record direction: drv_belt calls every belt mechanism on enumerated lengths / key lengths /
     header lengths / counter-wrap IVs / alteration classes with seeded data, in the ASan build with
     exact-size buffers; TLC recomputes every logged call (Trace_Belt);
 (2) FMT: values over alphabets x word lengths and the block-count table (breakpoints; complete in
     the thorough tier) decided with exact integer arithmetic in TLC;
 (3) replay direction: TLC generates cases with predicted outputs (Gen_Belt), the harness executes them;
 (4) WBL / SDE / FMT states reused for several messages (spec/sm/MsgApi.tla): every history of <= 2 calls.
"""
import os, json, glob, re
import vlib

LEVEL = "exploration"


def key_of(row):
    cls = str(row.get("cls", ""))
    if row["op"].startswith("fmt"):
        if row["op"] in ("fmtPoint", "fmtBreak"):
            return "%s:mod=%s:n=%s" % (row["op"], row.get("mod"), row.get("n"))
        return "%s:mod=%s:count=%d" % (row["op"], row.get("mod"), len(row.get("in", [])))
    klen = len(row.get("key", []) or [])
    return "%s:%s:klen=%d:len=%d" % (row["op"], cls, klen, len(row.get("in", []) or []))


def brief(row):
    return {k: (v if not isinstance(v, list) or len(v) <= 48 else v[:48] + ["...(%d)" % len(v)]) for k, v in row.items()}


def judge(ctx, rows, what, module="Trace_Belt", timeout=1000):
    """Validate rows with TLC; report bad lines; returns number validated."""
    n, bad, r = vlib.validate_lines(ctx, module, rows, timeout=timeout)
    if n < len(rows):
        # TLC gave no verdict for some lines: retry once, then inconclusive
        n, bad, r = vlib.validate_lines(ctx, module, rows, timeout=timeout)
        if n < len(rows):
            ctx.note_inconclusive("%s: TLC evaluated %d of %d lines (rc=%s)" % (what, n, len(rows), r.rc))
    for i in bad:
        row = rows[i - 1]
        ctx.violation(key_of(row), "%s: recorded call differs from the value STB 34.101.31 defines (line %d of %s)" % (row["op"], i, what),
                      {"line": row, "how": "re-run ./check %s; the line is recomputed by spec/trace/%s.tla" % (ctx.pid, module)})
    ctx.ev.add("tlc_states", r.distinct)
    return n, bad


def selftest(ctx, rows, module="Trace_Belt"):
    """Binding: corrupt one logged output octet of a few lines; TLC must flag exactly those."""
    pick = [r for r in rows if r.get("out") and r.get("rc", 0) == 0][:400:40][:8]
    if not pick:
        return
    mut = []
    for r in pick:
        m = dict(r); o = list(r["out"]); o[len(o) // 2] ^= 1; m["out"] = o
        mut.append(m)
    n, bad, r = vlib.validate_lines(ctx, module, mut, timeout=300)
    ctx.ev.cov["selftest_corrupted_lines"] = len(mut)
    ctx.ev.cov["selftest_rejected"] = len(bad)
    if n == len(mut) and len(bad) != len(mut):
        ctx.note_inconclusive("binding self-test: %d of %d corrupted lines were not rejected" % (len(mut) - len(bad), len(mut)))


def run(ctx):
    ev = ctx.ev
    tier = "thorough" if not ctx.quick else "quick"
    # (0) anchors
    r = vlib.tlc("BeltVectors", timeout=600, extra=["-continue"], quiet=True)
    failed = vlib.failed_vectors(r.out)
    ev.cov["appendix_vectors_evaluated"] = max(0, (r.distinct - 1) // 2)
    if r.rc not in (0, 12) or failed or r.distinct < 3:
        ctx.note_inconclusive("reference semantics fails its appendix vectors %s (specification error)" % failed)
        return
    drv = vlib.harness("drv_belt", ["drv_belt.c", "drv_belt_steps.c"], "asan", libs=["-lm"])
    env = {"VERIF_SEED": ctx.seed}
    total = 0
    distinct = set()
    # (1) record direction
    rec = ctx.path("record.ndjson")
    rc, _, err = vlib.run_harness(drv, ["record", tier], out_path=rec, env=env, timeout=900)
    rows = vlib.read_ndjson(rec) if rc == 0 else []
    if rc != 0:
        ctx.violation("record-crash:" + crash_site(err), "belt driver stopped in a library call (rc=%d): %s" % (rc, err[-1500:]), err[-4000:])
        try:
            rows = [json.loads(l) for l in open(rec) if l.strip().endswith("}")]
        except Exception:
            rows = []
    n, bad = judge(ctx, rows, "record")
    total += n
    distinct |= set(key_of(x) for x in rows)
    selftest(ctx, rows)
    for x in rows[:1] + rows[700:701]:
        ev.sample(brief(x))
    # (1b) the mechanisms through their Start/Step/Get bundles on a fixed family of fragmentings (as the
    #      appendix tests do; the complete fragment families are C10's business)
    import suites
    sp = ctx.path("steps.ndjson")
    rc, _, err = vlib.run_harness(drv, ["steps"], stdin=suites.steps_cmds(ctx, tier), out_path=sp, env=env, timeout=900)
    srows = [json.loads(l) for l in open(sp) if l.strip().endswith("}")]
    if rc != 0:
        ctx.violation("steps-crash:" + crash_site(err), "belt bundle crashed on a legal fragment script: %s" % err[-1500:], err[-4000:])
    n, bad, r = vlib.validate_lines(ctx, "Trace_Belt", srows, timeout=1500)
    if n < len(srows):
        ctx.note_inconclusive("steps: TLC evaluated %d of %d lines" % (n, len(srows)))
    for i in bad:
        row = srows[i - 1]
        ctx.violation("steps:%s:%s" % (row["b"], row["script"]), "bundle %s with fragments %s differs from the value the standard defines" % (row["b"], row["script"]), {"line": row})
    total += n
    distinct |= set("steps:%s:%s" % (x["b"], x["script"]) for x in srows)
    ev.cov["bundle_scripts_validated"] = n
    # (1c) WBL / SDE / FMT states reused for several messages: every history of up to 2 whole-message calls
    #      TLC explores in spec/sm/MsgApi.tla (3 calls: C10), each call judged by its own arguments
    import msgs
    hist, st, tr = msgs.gen_histories(ctx, 2)
    nm, dm = msgs.run_histories(ctx, drv, hist)
    total += nm
    distinct |= set("msgs:%s:%s" % k for k in dm)
    ev.cov["message_history_calls_validated"] = nm
    ev.cov["message_histories"] = len(dm)
    ev.add("tlc_states", st)
    # (2) FMT
    fmt = ctx.path("fmt.ndjson")
    rc, _, err = vlib.run_harness(drv, ["fmt", tier], out_path=fmt, env=env, timeout=1800)
    if rc != 0:
        ctx.violation("fmt-crash:" + crash_site(err), "FMT driver stopped in a library call (rc=%d): %s" % (rc, err[-1500:]), err[-4000:])
    else:
        frows = vlib.read_ndjson(fmt)
        n, bad = judge(ctx, frows, "fmt", timeout=3000)
        total += n
        distinct |= set(key_of(x) for x in frows)
        ev.cov["fmt_block_count_breakpoints"] = sum(1 for x in frows if x["op"] == "fmtBreak")
        ev.cov["fmt_block_count_points"] = sum(1 for x in frows if x["op"] == "fmtPoint")
        ev.cov["fmt_table_complete"] = not ctx.quick
        for x in [y for y in frows if y["op"] == "fmtBreak"][:1] + [y for y in frows if y["op"] == "fmtE"][:1]:
            ev.sample(brief(x))
    # (3) replay direction
    gdir = ctx.path("gen")
    os.makedirs(gdir, exist_ok=True)
    r = vlib.tlc("Gen_Belt", env={"GEN_SEED": ctx.seed, "GEN_DIR": gdir, "GEN_TIER": tier}, timeout=1000, quiet=True)
    cases = [json.load(open(f)) for f in sorted(glob.glob(os.path.join(gdir, "*.json")))]
    if vlib.tlc_infra_failed(r) or not cases:
        ctx.note_inconclusive("Gen_Belt produced no cases (rc=%s)" % r.rc)
    else:
        def hx(a):
            return "x" + "".join("%02x" % b for b in a)
        cmds = "".join("x op=%s key=%s iv=%s in=%s hdr=%s tag=%s m=%d\n" % (
            c["op"], hx(c["key"]), hx(c["iv"]), hx(c["in"]), hx(c["hdr"]), hx(c["tag"]), c["m"]) for c in cases)
        rc, out, err = vlib.run_harness(drv, ["exec"], stdin=cmds.encode(), timeout=600)
        res = [json.loads(l) for l in out.splitlines() if l.strip().endswith("}")]
        if rc != 0:
            ctx.violation("exec-crash:" + crash_site(err), "library call crashed on a TLC-generated case: %s" % err[-1500:], err[-4000:])
        nrep = 0
        for c, x in zip(cases, res):
            nrep += 1
            exp_tag = c["tag"] if c["op"] in ("dwpW", "cheW") else None
            okv = x.get("rc") == 0 and x.get("out") == c["out"] and (exp_tag is None or x.get("tag") == exp_tag)
            if not okv:
                ctx.violation("replay:%s:klen=%d:len=%d" % (c["op"], len(c["key"]), len(c["in"])),
                              "real code differs from the output the specification predicts for a generated case",
                              {"case": c, "real": x})
        ev.cov["replayed_generated_cases"] = nrep
        ev.add("tlc_states", r.distinct)
        total += nrep
        distinct |= set("gen:%s:%d:%d" % (c["op"], len(c["key"]), len(c["in"])) for c in cases)
    ev.cov["evaluations"] = total
    ev.cov["distinct_nontrivial"] = len(distinct)
    ev.cov["traces_validated_against_impl"] = total
    ev.cov["rule"] = ("structure enumerated (mechanism x key length {16,24,32} x message-length classes incl. all CTS lengths 16..47 "
                      "and wide-block lengths 32..208 x header lengths straddling 16 x counter-wrap IVs x alteration class), data octets "
                      "seeded; distinct = distinct (op, class, key length, length) tuples; every one involves >= 1 block operation "
                      "recomputed by TLC from the standard's definition")
    ev.assume("STB 34.101.31 as transcribed in spec/ref/Belt*.tla, anchored by the 50 appendix vectors evaluated by TLC in this run")
    ev.assume("messages >= 2^29 octets are reached only through the exported length-block helpers (addBitSize ops)")


def crash_site(err):
    m = re.search(r"#\d+ 0x[0-9a-f]+ in (\w+) /repo/src/([\w/\.]+):(\d+)", err)
    if m:
        return "%s@%s" % (m.group(1), m.group(2))
    m = re.search(r"Assertion.*?failed|ASSERT|assert", err)
    return "assert" if m else "unknown"
