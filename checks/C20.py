"""C20 — PIN/CAN/PUK automaton.  Decided exhaustively:
  1. the transition table of the real btokPwdTransition is extracted (16 x 4 states x 9 events
     + out-of-range event values);
  2. TLC checks every rule R1..R8 of sm/BtokPwd.tla on that table from every initial PIN state
     (one TLC run per rule, so that every violated rule is reported);
  3. each TLC counterexample is re-executed through the real function before it is reported;
  4. the same rules are model-checked on the reference automaton (oracle sanity), the table is
     compared with the reference transition by transition (deviations are reported, see DESIGN),
  5. seeded random walks of the real function are validated by trace/Trace_Pwd.tla.
"""
import os, json, re
import vlib

LEVEL = "model_checking"

INVARIANTS = ["TypeOK", "TableComplete", "OutOfRangeRejected", "R1", "R4b", "R6", "R7Impl"]
PROPERTIES = ["R2", "R2b", "R3", "R4", "R4c", "R5", "R8"]
EVN = ["pin_ok", "pin_bad", "pin_deactivate", "pin_activate", "can_ok", "can_bad", "puk_ok", "puk_bad", "auth_close"]
PIN = ["puk0", "puk1", "puk2", "puk3", "puk4", "puk5", "puk6", "puk7", "puk8", "puk9",
       "pin0", "pin1", "pind", "pins", "pin2", "pin3"]
AUTH = ["none", "pin", "can", "puk"]


def run(ctx):
    ev = ctx.ev
    drv = vlib.harness("drv_pwd", ["drv_pwd.c"], "rel")
    table = ctx.path("pwd_table.ndjson")
    rc, _, err = vlib.run_harness(drv, ["table"], out_path=table)
    if rc != 0:
        ctx.violation("table-extraction-crash", "btokPwdTransition crashed during table extraction rc=%d %s" % (rc, err[-500:]))
        return
    rows = vlib.read_ndjson(table)
    inrange = [r for r in rows if r["ev"] in EVN]
    ev.cov["transitions_extracted"] = len(inrange)
    ev.cov["out_of_range_probes"] = len(rows) - len(inrange)
    env = {"PWD_TABLE": table}

    # ---- rules on the implementation's own graph, one TLC run per rule
    def one(rule, kind):
        cfg = ctx.path("impl_%s.cfg" % rule)
        with open(cfg, "w") as f:
            f.write("SPECIFICATION Spec\nCONSTANT T <- ImplT\n%s %s\n" % (kind, rule))
        return rule, vlib.tlc("MC_Pwd", cfg, env=env, workers=2, timeout=300, coverage=(rule == "R1"), quiet=True)

    jobs = [(lambda r=r: one(r, "INVARIANT")) for r in INVARIANTS] + [(lambda r=r: one(r, "PROPERTY")) for r in PROPERTIES]
    results = vlib.parallel(jobs, n=8)
    states = trans = 0
    for rule, r in results:
        if vlib.tlc_infra_failed(r):
            r2 = one(rule, "INVARIANT" if rule in INVARIANTS else "PROPERTY")[1]
            if vlib.tlc_infra_failed(r2):
                ctx.note_inconclusive("TLC gave no verdict for rule %s (rc=%s): %s" % (rule, r2.rc, (r2.error or "")[-300:]))
                continue
            r = r2
        if r.rc == 0:
            states = max(states, r.distinct)
            trans = max(trans, r.generated)
            continue
        # counterexample: history of the real function (the graph IS the implementation's)
        tr = vlib.parse_tlc_trace(r.out)
        hist = [s[1].get("lastEv", '"none"').strip('"') for s in tr[1:]]
        p0 = int(tr[0][1].get("pin", 15)) if tr else 15
        a0 = int(tr[0][1].get("auth", 0)) if tr else 0
        key = "%s:%s:%s" % (rule, PIN[p0], "-".join(hist)) if tr else "%s:table" % rule
        confirmed, steps = replay_history(drv, p0, a0, hist, tr) if tr else (True, [])
        if not confirmed:
            ctx.note_inconclusive("counterexample of %s not followed by the real code (model/extraction error)" % rule)
            continue
        ctx.violation(key, "rule %s of BtokPwd.tla fails on the implementation's transition graph: from pin=%s auth=%s events %s; %s"
                      % (rule, PIN[p0], AUTH[a0], hist, (r.violation or "")[:200]),
                      {"rule": rule, "start": {"pin": p0, "auth": a0}, "events": hist, "real_code_steps": steps,
                       "replay": "build/bin/drv_pwd-rel-* walk   with stdin: walk pin=%d auth=%d evs=%s" % (p0, a0, ",".join(hist))})
    ev.cov["states"] = states
    ev.cov["transitions"] = trans
    ev.cov["rules_checked"] = INVARIANTS + PROPERTIES

    # ---- oracle sanity: rules on the reference automaton
    r = vlib.tlc("MC_Pwd", "MC_PwdRef.cfg", env=env, timeout=300, quiet=True)
    ev.cov["reference_automaton_states"] = r.distinct
    if r.rc != 0:
        ctx.note_inconclusive("reference automaton violates its own rules: " + (r.violation or r.error or "")[:300])

    # ---- refinement against the reference automaton, transition by transition (informational)
    r = vlib.tlc("MC_Pwd", "MC_PwdEquiv.cfg", env=env, timeout=300, quiet=True)
    devs = re.findall(r'<< "@DIFF",\s*(\d+),\s*(\d+),\s*"(\w+)"', r.out)
    devs = sorted(set(devs))
    ev.cov["deviations_from_reference_automaton"] = ["%s/%s/%s" % (PIN[int(p)], AUTH[int(a)], e) for p, a, e in devs][:40]
    for p, a, e in devs[:10]:
        print("DEVIATION property=C20 transition (%s,%s,%s) differs from the reference automaton of btok.h (informational)"
              % (PIN[int(p)], AUTH[int(a)], e))

    # ---- record direction: seeded random walks validated by TLC
    walks, steps = (60, 80) if ctx.quick else (2000, 120)
    trf = ctx.path("walks.ndjson")
    rc, _, err = vlib.run_harness(drv, ["record", walks, steps], out_path=trf, env={"VERIF_SEED": ctx.seed})
    ntr = 0
    if rc != 0:
        ctx.violation("walk-crash", "btokPwdTransition crashed in a random walk rc=%d" % rc)
    else:
        lines = vlib.read_ndjson(trf)
        # (a) monitor: rules evaluated on the recorded behaviour itself
        r = vlib.tlc("Trace_Pwd", "Trace_PwdMon.cfg", env={"TRACE": trf}, workers=1, timeout=900, quiet=True)
        if vlib.tlc_infra_failed(r):
            ctx.note_inconclusive("trace validation gave no verdict rc=%s" % r.rc)
        elif r.rc != 0:
            rule = vlib.violated_property(r.out) or "trace"
            m = re.search(r'"@REJECT",\s*(\d+)', r.out)
            at = int(m.group(1)) if m else r.depth
            hist = history_before(lines, at)
            ctx.violation("trace:%s:%s" % (rule, "-".join(hist[1])), "recorded walk violates %s at line %d" % (rule, at),
                          {"rule": rule, "start": hist[0], "events": hist[1]})
        else:
            ntr = sum(1 for x in lines if x["e"] == "Reset")
        # (b) against the reference automaton (deviation report only)
        r = vlib.tlc("Trace_Pwd", "Trace_Pwd.cfg", env={"TRACE": trf}, workers=1, timeout=900, quiet=True)
        ev.cov["walk_lines"] = len(lines)
        ev.cov["walks_accepted_by_reference_automaton"] = (r.rc == 0)
        ev.add("trace_states", r.distinct)
    ev.cov["traces_validated_against_impl"] = ntr + len(inrange)
    ev.cov["exhaustive"] = True
    for s in inrange[:2] + inrange[300:301]:
        ev.sample(s)
    ev.sample({"rule": "R4", "text": "[][pin = puk0 => pin' = puk0]_vars checked on the extracted graph from all 16 initial pin states"})
    ev.assume("the transition function is deterministic and depends only on (pin, auth, event): extracted once per build")
    ev.assume("R2 is read structurally (a correct CAN must be accepted between the 2nd and the last PIN attempt); "
              "comment 5 of btok.h (CAN status still in force at the last attempt) is not part of the statement")


def replay_history(drv, p0, a0, hist, tr):
    """Run the counterexample through the real function; confirmed iff it follows the same states."""
    cmd = "walk pin=%d auth=%d evs=%s\n" % (p0, a0, ",".join(hist))
    rc, out, err = vlib.run_harness(drv, ["walk"], stdin=cmd.encode())
    if rc != 0:
        return True, ["crash rc=%d" % rc]
    steps = [json.loads(l) for l in out.splitlines() if l.strip()]
    evs = [s for s in steps if s["e"] == "Ev"]
    ok = len(evs) == len(hist)
    for s, (lab, st) in zip(evs, tr[1:]):
        if str(s["pin2"]) != st.get("pin") or str(s["auth2"]) != st.get("auth"):
            ok = False
    return ok, evs


def history_before(lines, at):
    i = min(at, len(lines)) - 1
    j = i
    while j > 0 and lines[j]["e"] != "Reset":
        j -= 1
    start = {"pin": lines[j].get("pin"), "auth": lines[j].get("auth")}
    return start, [x["ev"] for x in lines[j + 1:i + 1]]
