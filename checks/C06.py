"""C06 — EC group law and scalar multiplication are exact in every special case.
 (0) the ORACLE is validated before use (spec/ref/ECpVectors.tla): on complete small curves the affine definition of
     ref/ECp.tla is a group, ScalarMul (double-and-add) = iterated sum = the Jacobian evaluation, SWU lands on the
     curve, the BigNat instantiation agrees with the integer one, a known multiple on bign-curve256v1.  A failure here
     is a specification error (inconclusive), never a violation.
 (1) replay direction, exhaustive: for every complete small curve (and every cyclic subgroup of known order over a
     multi-word prime) TLC computes the complete tables (spec/gen/Gen_ECSmall.tla); harness/drv_ec.c runs the library's
     own functions over ALL ordered pairs / all scalars 0..2*order+2 / all (x, y) / all SWU inputs under every
     admissible aliasing and representation, and every returned entry is compared with TLC's table.
 (2) record direction: self-contained lines (small curves, multi-word subgroups, the bign curves with boundary
     scalars) are recomputed / law-checked by TLC (spec/trace/Trace_EC.tla) over BigNat.
 The binary curves of src/math/ec2.c (Lopez-Dahab coordinates over GF(2^m)) are decided the same way by checks/C06_ec2.py
 (ref/EC2.tla, EC2Int / EC2Big / EC2Embed, EC2Vectors, gen/Gen_EC2Small.tla, trace/Trace_EC2.tla, harness/drv_ec2.c): complete
 curves over subfields GF(2^d) of the fields that gf2Create accepts, the standard DSTU 4145 curves; violation keys `ec2:...`.
"""
import os, json, glob, re, time
import vlib

LEVEL = "model_checking"

# ---------------------------------------------------------------------------------------------- the curves
# complete small curves (name, p, A, B): p = 3 and 1 mod 4, A = -3 and A # -3 (incl. A = 0, B = 0), prime and
# composite orders, points of order 2 (y = 0) and 3.  Attributes are COMPUTED by TLC, not assumed.
TINY = [("p11a", 11, 8, 0), ("p11b", 11, 1, 6), ("p13a", 13, 0, 3), ("p23a", 23, 1, 2), ("p19a", 19, 16, 9)]
QUICK_INT = TINY + [("p67a", 67, 64, 1), ("p73a", 73, 70, 32), ("p103a", 103, 1, 2)]
THOROUGH_INT = QUICK_INT + [("p131a", 131, 1, 24), ("p193a", 193, 0, 2), ("p751a", 751, 748, 5), ("p1019a", 1019, 1016, 7),
                            ("p1021a", 1021, 3, 11), ("p509a", 509, 1, 0)]
# multi-word primes (all = 3 mod 4), by ring strategy of zmCreate in the 64-bit build
BIGP = {
    "b64":   "FFFFFFFFFFFFFF43",                                   # one full word, plain ring
    "b100":  "0F80A4DF5A51C9BC701E7EA41B",                          # 13 octets, two words, plain ring
    "b128":  "EBAD6BE28E7AA6E99F19950499DD251F",                    # two words, plain ring (Montgomery with 32-bit words)
    "b192c": "FFFFFFFFFFFFFFFFFFFFFFFFFFFFFFFFFFFFFFFFFFFFFF13",    # 2^192 - 237: Crandall ring
    "b192m": "C72877B17EAC0D53CEF48CDA167E71DAF9B75D10C76F910F",    # generic: Montgomery ring
    "b256c": "FFFFFFFFFFFFFFFFFFFFFFFFFFFFFFFFFFFFFFFFFFFFFFFFFFFFFFFFFFFFFF43",   # the bign-curve256v1 prime
}
# (name, prime, N, want A = -3)
QUICK_BIG = [("b64n5", "b64", 5, 0), ("b100n7a3", "b100", 7, 1), ("b128n5a3", "b128", 5, 1), ("b192cn7a3", "b192c", 7, 1),
             ("b192mn5a3", "b192m", 5, 1)]
THOROUGH_BIG = QUICK_BIG + [("b192cn5", "b192c", 5, 0), ("b192mn7", "b192m", 7, 0), ("b64n7a3", "b64", 7, 1), ("b100n5", "b100", 5, 0), ("b128n7", "b128", 7, 0), ("b256cn7a3", "b256c", 7, 1),
                            ("b256cn5", "b256c", 5, 0)]

CFUNC = {"addJ": "ecpAddJ", "subJ": "ecpSubJ", "addAJ": "ecpAddAJ", "subAJ": "ecpSubAJ", "addAA": "ecpAddAA", "subAA": "ecpSubAA",
         "negJ": "ecpNegJ", "dblJ": "ecpDblJ", "tplJ": "ecpTplJ", "dblAJ": "ecpDblAJ", "negA": "ecpNegA", "fromAtoA": "ecpFromAJ/ecpToAJ"}


def bits_of(p):
    return max(1, p.bit_length())


# ---------------------------------------------------------------------------------------------- TLC tables
class Tables:
    """The complete tables of one curve as emitted by Gen_ECSmall (entries = indices into the point list)."""

    def __init__(self, name, gdir):
        self.name = name
        d = json.load(open(os.path.join(gdir, "pts_0.json")))
        self.kind = d["kind"]
        self.n = d["n"]
        self.raw = d
        if self.kind == "int":
            self.p, self.A, self.B = d["p"], d["A"], d["B"]
            self.no = (self.p.bit_length() + 7) // 8
            codes = d["pts"]
            self.idx = {c: i for i, c in enumerate(codes)}
            self.pts = [None] + [(c >> 15, c & 32767) for c in codes[1:]]
            cv = lambda row: [self.idx.get(c, -2) for c in row]
            self.a3 = self.A == self.p - 3
        else:
            self.no = d["no"]
            l2i = lambda l: sum(v << (16 * i) for i, v in enumerate(l))
            self.p, self.A, self.B = l2i(d["p"]), l2i(d["A"]), l2i(d["B"])
            self.pts = [None] + [(l2i(q[0]), l2i(q[1])) for q in d["pts"][1:]]
            cv = lambda row: list(row)
            self.a3 = bool(d["a3"])
        self.neg, self.dbl, self.tpl = cv(d["neg"]), cv(d["dbl"]), cv(d["tpl"])
        self.add, self.sub, self.mul = [None] * self.n, [None] * self.n, [None] * self.n
        for f in glob.glob(os.path.join(gdir, "add_*.json")):
            r = json.load(open(f))
            self.add[r["i"]], self.sub[r["i"]] = cv(r["add"]), cv(r["sub"])
        for f in glob.glob(os.path.join(gdir, "mul_*.json")):
            r = json.load(open(f))
            self.mul[r["i"]] = cv(r["mul"])
        self.ison = {}
        for f in glob.glob(os.path.join(gdir, "ison_*.json")):
            r = json.load(open(f))
            for k, ys in enumerate(r["ys"]):
                self.ison[r["x0"] + k] = list(ys)
        self.swu = None
        f = os.path.join(gdir, "swu_0.json")
        if os.path.exists(f):
            self.swu = cv(json.load(open(f))["swu"])
        self.mults = [(m["mo"], sum(v << (16 * i) for i, v in enumerate(m["d16"]))) for m in d["mults"]]
        self.complete = (all(x is not None for x in self.add) and all(x is not None for x in self.mul)
                         and all(m["zero"] for m in d["mults"]) and d["smooth"])
        self.K = 2 * self.n + 2
        # order of every point (from the table of multiples)
        self.order = [1] + [next(k for k in range(1, self.n + 1) if self.mul[i][k] == 0) for i in range(1, self.n)] if self.complete else []
        self.entries = 3 * self.n + 2 * self.n * self.n + self.n * (self.K + 1) + sum(len(v) for v in self.ison.values()) + (len(self.swu) if self.swu else 0)

    def cls(self, i, j):
        if i == 0 and j == 0:
            return "P=Q=O"
        if i == 0:
            return "P=O"
        if j == 0:
            return "Q=O"
        o2 = ":ord2" if self.neg[i] == i else (":ord3" if self.dbl[i] == self.neg[i] else "")
        if i == j:
            return "P=Q" + o2
        if self.neg[i] == j:
            return "P=-Q"
        if self.neg[j] == j:
            return "Q:ord2"
        if self.dbl[i] == j or self.dbl[j] == i:
            return "Q=2P" if self.dbl[i] == j else "P=2Q"
        return "generic" + (":P" + o2[1:] if o2 else "")

    def kcls(self, k):
        n = self.n
        names = {0: "0", 1: "1", 2: "2", 3: "3", n - 1: "ord-1", n: "ord", n + 1: "ord+1", 2 * n: "2ord", 2 * n + 1: "2ord+1", 2 * n + 2: "2ord+2"}
        return names.get(k, "other")


def le_hex(v, no):
    return "x" + v.to_bytes(no, "little").hex()


def gen_tables(ctx, name, env, workers=4, timeout=2400):
    gdir = ctx.path("gen_" + name)
    os.makedirs(gdir, exist_ok=True)
    e = {"GEN_KIND": "int", "GEN_DIR": gdir, "GEN_SEED": ctx.seed, "GEN_P": "5", "GEN_A": "1", "GEN_B": "1", "GEN_BITS": "3",
         "GEN_PHEX": "0B", "GEN_N": "5", "GEN_A3": "0", "GEN_T": "2"}
    e.update(env)
    r = vlib.tlc("Gen_ECSmall", env=e, workers=workers, timeout=timeout, quiet=True)
    vlib.log("[C06] Gen_ECSmall %s: %.0fs" % (name, r.wall))
    if vlib.tlc_infra_failed(r) or r.rc != 0 or not os.path.exists(os.path.join(gdir, "pts_0.json")):
        return None, r
    t = Tables(name, gdir)
    return (t if t.complete else None), r


def naf_width(mo):
    bits = mo * 8
    return 6 if bits >= 336 else 5 if bits >= 120 else 4 if bits >= 40 else 3


def commands(t, tier, w32=False):
    """The harness command stream of one curve."""
    no = t.no
    pts = b"".join(x.to_bytes(no, "little") + y.to_bytes(no, "little") for (x, y) in t.pts[1:])
    out = ["curve name=%s no=%d p=%s a=%s b=%s ord=%s pts=x%s" % (t.name, no, le_hex(t.p, no), le_hex(t.A, no), le_hex(t.B, no),
                                                                  le_hex(t.n, 4), pts.hex())]
    for mo, d in t.mults:
        out.append("mult mo=%d d=%s" % (mo, le_hex(d, mo)))
    out += ["unary", "pairs"]
    n = t.n
    bnd = sorted(set(k for k in (0, 1, 2, 3, n - 1, n, n + 1, 2 * n - 1, 2 * n, 2 * n + 1, 2 * n + 2, (n * 7) // 5, n // 2) if 0 <= k <= t.K))
    bl = ",".join(str(k) for k in bnd)
    small = t.kind == "big" or n <= 40
    if w32:
        out.append("mul mo=4 hi=0 ks=all")
        out.append("hasorder mo=4 hi=0 ks=all")
    big = n > BIG_N            # ~1000-point curves: two complete scalar sweeps (widths 4 and 6) instead of five
    for mo in (8, 16, 48):
        out.append("mul mo=%d hi=0 ks=%s" % (mo, "all" if (not big or mo != 16) else bl))
        out.append("mul mo=%d hi=1 ks=%s" % (mo, "all" if ((mo == 8 and not big) or small) else bl))
        out.append("hasorder mo=%d hi=0 ks=%s" % (mo, "all" if (mo == 8 and not big) else bl.replace("0,", "", 1)))
        out.append("hasorder mo=%d hi=1 ks=%s" % (mo, bl.replace("0,", "", 1)))
    ds = [(0, 0), (0, 1), (1, 0), (1, 1), (1, n - 1), (n - 1, 1), (2, n - 2), (n, 1), (1, n), (n + 1, n - 1), (3, 5), (2 * n + 2, 2 * n + 1)]
    for k, (d1, d2) in enumerate(ds):
        mo1, mo2 = (8, 8) if k % 3 == 0 else ((8, 48) if k % 3 == 1 else (16, 8))
        out.append("addmul mo1=%d mo2=%d hi=%d d1=%d d2=%d" % (mo1, mo2, k % 2, d1, d2))
    if w32:
        out.append("addmul mo1=4 mo2=4 hi=0 d1=3 d2=%d" % (n - 2))
        out.append("addmul mo1=4 mo2=8 hi=0 d1=%d d2=5" % (n + 1))
    # the full grid of scalar pairs for a few first operands
    for i in sorted(set([1, 2, max(1, n // 2), n - 1])):
        if i >= 1 and i <= n - 1:
            for d1 in (range(0, n + 2) if small else bnd):
                out.append("addmul mo1=8 mo2=8 hi=0 i=%d d1=%d d2=%d" % (i, d1, (d1 * 3 + 1) % (n + 2)))
    for l in sorted(set([1, n - 1])):
        out.append("addmul mo1=8 mo2=16 mo3=48 hi=1 d1=2 d2=%d d3=%d l=%d" % (n - 1, n - 1, l))
        out.append("addmul mo1=8 mo2=8 mo3=8 hi=0 d1=1 d2=1 d3=%d l=%d" % (n - 2, l))
    if t.kind == "int":
        out.append("ison bits=%d" % t.raw["bits"])
        if t.swu is not None:
            out.append("swu")
    return "\n".join(out) + "\n"


def is_composite(k):
    return k > 3 and any(k % q == 0 for q in range(2, int(k ** 0.5) + 1))


def compare(ctx, t, rows, build, stats):
    """Every returned entry against TLC's table.  Returns the number of entries compared."""
    n = t.n
    cnt = 0

    def bad(key, text, data):
        stats["bad"] += 1
        seen = stats.setdefault("keys", {})
        seen[key] = seen.get(key, 0) + 1
        if seen[key] == 1:                      # one report per structural class; the count goes to the evidence
            ctx.violation(key, text, data)

    for r in rows:
        op = r["op"]
        if op == "create":
            if not r.get("ok") or not r.get("valid"):
                bad("create:curve=%s" % t.name, "the curve could not be created / ecpIsValid rejected a smooth curve (%s build)" % build, r)
            continue
        row = r.get("row")
        if op in ("addJ", "subJ", "addAJ", "subAJ", "addAA", "subAA"):
            tab = t.add if op.startswith("add") else t.sub
            if r.get("diag"):
                exp = [tab[i][i] for i in range(n)]
                pairs = [(i, i) for i in range(n)]
            else:
                i = r["i"]
                exp = tab[i]
                pairs = [(i, j) for j in range(n)]
            if row == exp or (row[0] == -9 and row[1:] == exp[1:]):
                cnt += len(row) - (1 if row[0] == -9 else 0)
                continue
            for (i, j), e, g in zip(pairs, exp, row):
                if g == -9:
                    continue
                cnt += 1
                if e != g:
                    fn = CFUNC[op]
                    bad("%s:%s:alias=%s:%s:curve=%s" % (fn, t.cls(i, j), r["al"], "Z=1" if r["rep"] == 0 else "Z=rnd", t.name),
                        "%s(%s) on curve %s: P=#%d %s, Q=#%d %s: the library returns #%d %s, the group law gives #%d %s (%s build)"
                        % (fn, r["al"], t.name, i, t.pts[i], j, t.pts[j], g, t.pts[g] if g >= 0 else "not a point of the group", e, t.pts[e], build),
                        {"curve": {"p": t.p, "A": t.A, "B": t.B}, "row": r, "P": i, "Q": j, "expected": e, "got": g, "points": t.pts[:50]})
            continue
        if op in ("negJ", "dblJ", "tplJ", "dblAJ", "negA", "fromAtoA"):
            exp = {"negJ": t.neg, "negA": t.neg, "dblJ": t.dbl, "dblAJ": t.dbl, "tplJ": t.tpl, "fromAtoA": list(range(n))}[op]
            for i, (e, g) in enumerate(zip(exp, row)):
                if g == -9:
                    continue
                cnt += 1
                if e != g:
                    fn = CFUNC[op] + ("A3" if t.a3 and op in ("dblJ", "tplJ") else "")
                    c = "P=O" if i == 0 else ("ord2" if t.neg[i] == i else "ord3" if t.dbl[i] == t.neg[i] else "generic")
                    bad("%s:%s:alias=%s:%s:curve=%s" % (fn, c, r["al"], "Z=1" if r["rep"] == 0 else "Z=rnd", t.name),
                        "%s on curve %s: P=#%d %s: the library returns #%d, the group law gives #%d %s (%s build)" % (fn, t.name, i, t.pts[i], g, e, t.pts[e], build),
                        {"curve": {"p": t.p, "A": t.A, "B": t.B}, "row": r, "P": i, "expected": e, "got": g})
            continue
        if op in ("mulA", "hasOrderA"):
            i = r["i"]
            for k, g in zip(r["ks"], row):
                if g == -9:
                    continue
                cnt += 1
                e = t.mul[i][k]
                if op == "hasOrderA":
                    e = 1 if e == 0 else 0
                    if e == 1 and k != t.order[i] and is_composite(k):
                        continue        # ec.h: for composite q a point of order q1 | q "may be recognised"; both answers admitted
                if e != g:
                    fn = "ecMulA" if op == "mulA" else "ecHasOrderA"
                    bad("%s:w=%d:hi=%d:k=%s:%s:curve=%s" % (fn, naf_width(r["mo"]), r["hi"], t.kcls(k), "ord(P)=%d" % t.order[i] if t.order[i] <= 3 else "P", t.name),
                        "%s on curve %s: P=#%d %s (order %d), scalar %d%s in %d octets: library gives %d, specification %d (%s build)"
                        % (fn, t.name, i, t.pts[i], t.order[i], k, " + multiple of the group order" if r["hi"] else "", r["mo"], g, e, build),
                        {"curve": {"p": t.p, "A": t.A, "B": t.B}, "row": r, "k": k, "expected": e, "got": g})
            continue
        if op in ("addMulA", "addMulA3"):
            i, d1, d2 = r["i"], r["d1"], r["d2"]
            for j, g in enumerate(row):
                if g == -9:
                    continue
                cnt += 1
                e = t.add[t.mul[i][d1]][t.mul[j][d2]]
                if op == "addMulA3":
                    e = t.add[e][t.mul[r["l"]][r["d3"]]]
                if e != g:
                    bad("ecAddMulA:terms=%d:w=%d,%d:hi=%d:d=%s,%s:%s:curve=%s" % (3 if op == "addMulA3" else 2, naf_width(r["mo1"]), naf_width(r["mo2"]), r["hi"],
                                                                               t.kcls(d1), t.kcls(d2), t.cls(i, j), t.name),
                        "ecAddMulA on curve %s: %d*#%d + %d*#%d%s: library gives #%d, specification #%d (%s build)"
                        % (t.name, d1, i, d2, j, " + %d*#%d" % (r["d3"], r["l"]) if op == "addMulA3" else "", g, e, build),
                        {"curve": {"p": t.p, "A": t.A, "B": t.B}, "row": r, "j": j, "expected": e, "got": g})
            continue
        if op == "isOnA":
            x = r["x"]
            cnt += 1 << t.raw["bits"]
            if sorted(r["ys"]) != sorted(t.ison.get(x, [])):
                c = "x>=p" if x >= t.p else ("y>=p" if any(y >= t.p for y in r["ys"]) else "x,y<p")
                bad("ecpIsOnA:%s:curve=%s" % (c, t.name), "ecpIsOnA on curve %s, x=%d: accepted y=%s, curve equation (coordinates < p) gives %s (%s build)"
                    % (t.name, x, r["ys"], t.ison.get(x, []), build), {"curve": {"p": t.p, "A": t.A, "B": t.B}, "row": r, "expected": t.ison.get(x, [])})
            continue
        if op == "swu":
            for s, (e, g) in enumerate(zip(t.swu, row)):
                cnt += 1
                if e != g:
                    bad("ecpSWU:s=%s:curve=%s" % ("0" if s == 0 else "1" if s == 1 else "p-1" if s == t.p - 1 else "other", t.name),
                        "ecpSWU(%d) on curve %s: library gives #%d, STB 34.101.66 gives #%d %s (%s build)" % (s, t.name, g, e, t.pts[e] if e >= 0 else "", build),
                        {"curve": {"p": t.p, "A": t.A, "B": t.B}, "s": s, "expected": e, "got": g})
            continue
        bad("unknown-row:%s" % op, "harness emitted an unknown row", r)
    return cnt


# assert-enabled ASan builds, 64- and 32-bit words: an internal precondition tripped by an admissible input aborts.
# Curves with more than BIG_N points (thorough tier: 10^6 ordered pairs x 24 call shapes) run in the release builds.
BUILDS = {"asan": ("asan", []), "asan-w32": ("asanw32", []), "rel": ("rel", []), "w32": ("w32", [])}
BIG_N = 300


def builds_for(t):
    return ["rel", "w32"] if t.n > BIG_N else ["asan", "asan-w32"]


def read_rows(path):
    rows = []
    for l in open(path):
        l = l.strip()
        if l.endswith("}"):
            try:
                rows.append(json.loads(l))
            except ValueError:
                pass
    return rows


def run_curve(ctx, t, build, tier, stats, drv):
    """Run the command stream of one curve with exact-size stacks.  A stop inside the library is a violation with
    the crash site as key; the run is then repeated with slack on the stacks so that the values are still compared."""
    cmds = commands(t, tier, w32=build.endswith("w32"))
    outp = ctx.path("exec_%s_%s.ndjson" % (t.name, build))
    env = {"VERIF_SEED": ctx.seed}
    rc, _, err = vlib.run_harness(drv, ["exec"], stdin=cmds.encode(), out_path=outp, env=env, timeout=3000)
    rows = read_rows(outp)
    if rc != 0:
        site = crash_site(err)
        overflow = "heap-buffer-overflow" in err
        ctx.violation("crash:%s:%s" % ("stack-overflow" if overflow else "abort", site),
                      "drv_ec stopped inside the library on curve %s (%s build, rc=%d) after %d rows, %s: %s"
                      % (t.name, build, rc, len(rows), "a stack of exactly the documented depth was overrun" if overflow else "abort", err[-1500:]),
                      {"curve": t.name, "stderr": err[-6000:], "last_row": rows[-1] if rows else None})
        env["VERIF_STACK_SLACK"] = 256
        rc, _, err = vlib.run_harness(drv, ["exec"], stdin=cmds.encode(), out_path=outp, env=env, timeout=3000)
        rows = read_rows(outp)
        if rc != 0:
            ctx.violation("crash:abort:%s" % crash_site(err), "drv_ec stopped inside the library on curve %s (%s build, stacks with slack, rc=%d): %s"
                          % (t.name, build, rc, err[-1500:]), {"stderr": err[-6000:]})
    return rows


def crash_site(err):
    fr = re.findall(r"#\d+ 0x[0-9a-f]+ in (\w+) [^\n]*/src/([\w/\.]+):(\d+)", err)
    fr = [f for f in fr if f[0] not in ("wwCopy", "wwSetZero", "memCopy", "memSet")]
    if fr:
        return "%s@%s" % (fr[0][0], fr[0][1])
    m = re.search(r"Assertion in \S*?/src/([\w/\.]+)::(\d+)", err)
    if m:
        return "assert@%s:%s" % (m.group(1), m.group(2))
    return "unknown"


def rec_key(row):
    f = row.get("f", "")
    cls = ""
    if row["op"] == "pair":
        P, Q = row["P"], row["Q"]
        cls = "P=Q=O" if not P and not Q else "P=O" if not P else "Q=O" if not Q else "P=Q" if P == Q else "P=-Q" if P[0] == Q[0] else "generic"
        cls = ":%s:alias=%s:%s" % (cls, row["al"], "Z=1" if row["rep"] == 0 else "Z=rnd")
    elif row["op"] == "unary":
        cls = ":alias=%s" % row["al"]
    elif row["op"] == "mul":
        cls = ":k=%s" % row["cls"]
    elif row["op"] == "isonraw":
        cls = ":v=%d" % row["v"]
    return "record:%s%s%s:curve=%s" % (CFUNC.get(f, f) or row["op"], "" if f else row["op"], cls, row["cv"])


def oracle(ctx, tier):
    """(0) the oracle is validated before use."""
    cur = TINY if tier == "quick" else THOROUGH_INT[:9]
    path = ctx.path("curves.ndjson")
    vlib.write_ndjson(path, [{"name": n, "p": p, "A": A, "B": B} for (n, p, A, B) in cur])
    r = vlib.tlc("ECpVectors", env={"CURVES": path, "ASSOC_MAX": 30 if tier == "quick" else 80, "WITH_BIGN": 1},
                 workers=6 if tier == "quick" else 8, timeout=900 if tier == "quick" else 3000, quiet=True)
    bad = re.findall(r'<<\s*"@BAD",\s*(<<[^>]*>>)', r.out)
    vlib.log("[C06] ECpVectors: %.0fs" % r.wall)
    return r, bad, cur


def record(ctx, tier, drv):
    outp = ctx.path("record.ndjson")
    env = {"VERIF_SEED": ctx.seed}
    rc, _, err = vlib.run_harness(drv, ["record", tier], out_path=outp, env=env, timeout=900)
    crash = None
    if rc != 0:
        crash = (rc, err)
        env["VERIF_STACK_SLACK"] = 256
        rc, _, err = vlib.run_harness(drv, ["record", tier], out_path=outp, env=env, timeout=900)
    rows = read_rows(outp)
    n, bad, r = vlib.validate_lines(ctx, "Trace_EC", outp, timeout=1200 if tier == "quick" else 6000, workers=8 if tier == "quick" else None)
    # binding self-test: one corrupted field per operation kind must be rejected
    mut, seen = [], set()
    for row in rows:
        k = (row["op"], row.get("f"))
        if k in seen or len(mut) >= 14 or row.get("heavy"):
            continue
        m = json.loads(json.dumps(row))
        if row["op"] in ("pair", "unary", "mulsub", "addmulsub", "swu", "law_addmul") and m.get("R"):
            m["R"][0][0] ^= 1
        elif row["op"] in ("hasordersub", "isonraw") and (row["op"] != "hasordersub" or sum(row["d"][1:]) == 0):
            m["res"] = not m["res"]
        elif row["op"] == "isonrow" and m["ys"]:
            m["ys"] = m["ys"][1:]
        elif row["op"] in ("law_succ", "law_neg") and m.get("R2"):
            m["R2"][1][0] ^= 1
        elif row["op"] == "law_order":
            m["mul_affine"] = True
        else:
            continue
        seen.add(k)
        mut.append(m)
    mp = ctx.path("record_mut.ndjson")
    vlib.write_ndjson(mp, mut)
    n2, bad2, r2 = vlib.validate_lines(ctx, "Trace_EC", mp, timeout=600, workers=4)
    vlib.log("[C06] Trace_EC: %d lines %.0fs, self-test %.0fs" % (len(rows), r.wall, r2.wall))
    return rows, n, bad, r, crash, (len(mut), n2, len(bad2), r2), (rc, err)


def run(ctx):
    """GF(p) part (below) and binary-curve part (checks/C06_ec2.py) run concurrently; the counts are added up."""
    import concurrent.futures as cf
    import C06_ec2
    drvs2 = C06_ec2.build_drivers(ctx)          # builds the library variants once, before the two parts share them
    with cf.ThreadPoolExecutor(max_workers=1) as ex:
        f2 = ex.submit(C06_ec2.run_part, ctx, drvs2)
        try:
            run_gfp(ctx)
        finally:
            s2, t2, v2 = f2.result()
    cov = ctx.ev.cov
    cov["states"] = cov.get("states", 0) + s2
    cov["transitions"] = cov.get("transitions", 0) + t2
    cov["traces_validated_against_impl"] = cov.get("traces_validated_against_impl", 0) + v2


def run_gfp(ctx):
    ev = ctx.ev
    tier = "quick" if ctx.quick else "thorough"
    t0 = time.time()
    states = trans = 0
    ints = QUICK_INT if ctx.quick else THOROUGH_INT
    bigs = QUICK_BIG if ctx.quick else THOROUGH_BIG
    builds = list(BUILDS) if not ctx.quick else ["asan", "asan-w32"]
    drvs = {b: vlib.harness("drv_ec", ["drv_ec.c"], BUILDS[b][0], lib_extra=BUILDS[b][1]) for b in builds}
    # ---- everything TLC-side runs concurrently: (0) oracle validation, (2) record lines, (1) the tables
    jobs = []
    for (name, p, A, B) in ints:
        jobs.append((name, {"GEN_KIND": "int", "GEN_P": p, "GEN_A": A, "GEN_B": B, "GEN_BITS": bits_of(p)}))
    for (name, pr, N, a3) in bigs:
        jobs.append((name, {"GEN_KIND": "big", "GEN_PHEX": BIGP[pr], "GEN_N": N, "GEN_A3": a3, "GEN_T": 2}))
    fns = [lambda: oracle(ctx, tier), lambda: record(ctx, tier, drvs["asan"])]
    fns += [(lambda j=j: gen_tables(ctx, j[0], j[1], workers=2 if ctx.quick else 4)) for j in jobs]
    res = vlib.parallel(fns, n=10 if ctx.quick else 5)
    (ro, obad, ocur), rec, res = res[0], res[1], res[2:]
    # (0)
    states += ro.distinct
    trans += ro.generated
    ev.cov["oracle_cases_evaluated"] = max(0, (ro.distinct - 1) // 2)
    ev.cov["oracle_curves"] = [c[0] for c in ocur] + ["bign-curve128v1 (table G.1 key pair, qG = O)"]
    if ro.rc != 0 or obad or ro.distinct < 3:
        ctx.note_inconclusive("the reference semantics ref/ECp.tla fails its own validation (ECpVectors rc=%s, bad cases %s): specification error" % (ro.rc, obad[:5]))
        return
    vlib.log("[C06] oracle validated: %d cases, %.0fs" % ((ro.distinct - 1) // 2, time.time() - t0))
    # (1)
    tables = []
    for (name, _), (t, r) in zip(jobs, res):
        states += r.distinct
        trans += r.generated
        if t is None:
            ctx.note_inconclusive("Gen_ECSmall gave no complete tables for %s (rc=%s): %s" % (name, r.rc, (r.violation or r.error or "")[:300]))
        else:
            tables.append(t)
    vlib.log("[C06] tables of %d curves, %.0fs" % (len(tables), time.time() - t0))
    stats = {"bad": 0}
    compared = 0

    def one(t, b):
        rows = run_curve(ctx, t, b, tier, stats, drvs[b])
        return t, b, rows
    outs = vlib.parallel([(lambda t=t, b=b: one(t, b)) for t in sorted(tables, key=lambda x: -x.n) for b in builds_for(t)], n=8)
    per_op = {}
    for t, b, rows in outs:
        c = compare(ctx, t, rows, b, stats)
        compared += c
        for r in rows:
            per_op[r["op"]] = per_op.get(r["op"], 0) + 1
    # binding self-test of the replay comparison: one altered entry of one row must be reported
    class Probe:
        def __init__(self): self.keys = []
        def violation(self, key, text, data=None): self.keys.append(key)
    pr = Probe()
    for t, b, rows in outs[:1]:
        alt = [json.loads(json.dumps(r)) for r in rows if r["op"] in ("addJ", "mulA", "tplJ")][:400:57]
        for r in alt:
            r["row"][len(r["row"]) // 2] = (r["row"][len(r["row"]) // 2] + 1) % t.n
        st = {"bad": 0}
        compare(pr, t, alt, b, st)
        ev.cov["selftest_replay_altered_entries"] = len(alt)
        ev.cov["selftest_replay_reported"] = st["bad"]
        if st["bad"] != len(alt) or not pr.keys:
            ctx.note_inconclusive("binding self-test (replay): %d altered entries, %d reported" % (len(alt), st["bad"]))
    # (2)
    rows, n, bad, r, crash, (nm, n2, nb2, r2), (rc2, err2) = rec
    states += r.distinct + r2.distinct
    trans += r.generated + r2.generated
    if crash:
        site = crash_site(crash[1])
        ctx.violation("crash:%s:%s" % ("stack-overflow" if "heap-buffer-overflow" in crash[1] else "abort", site),
                      "drv_ec record stopped inside the library with exact-size stacks (rc=%d): %s" % (crash[0], crash[1][-1500:]), crash[1][-6000:])
    if rc2 != 0:
        ctx.violation("crash:abort:%s" % crash_site(err2), "drv_ec record stopped inside the library (stacks with slack, rc=%d): %s" % (rc2, err2[-1500:]), err2[-6000:])
    if n < len(rows):
        ctx.note_inconclusive("Trace_EC evaluated %d of %d recorded lines (rc=%s)" % (n, len(rows), r.rc))
    for i in bad:
        row = rows[i - 1]
        ctx.violation(rec_key(row), "recorded call differs from the group law / the law it must satisfy (line %d of record.ndjson, op %s on %s)"
                      % (i, row["op"], row["cv"]), {"line": row, "how": "re-run ./check C06; the line is recomputed by spec/trace/Trace_EC.tla"})
    ev.cov["selftest_record_corrupted_lines"] = nm
    ev.cov["selftest_record_rejected"] = nb2
    if n2 == nm and nb2 != nm:
        ctx.note_inconclusive("binding self-test (record): %d of %d corrupted lines were not rejected" % (nm - nb2, nm))
    rec_ops = {}
    for row in rows:
        rec_ops[row["op"]] = rec_ops.get(row["op"], 0) + 1
    ev.cov["mismatches_by_key"] = dict(sorted(stats.get("keys", {}).items())[:40])
    ev.cov["curves"] = [{"name": t.name, "points": t.n, "kind": t.kind, "A=-3": t.a3} for t in tables]
    ev.cov["builds"] = builds
    ev.cov["rows_by_operation"] = per_op
    ev.cov["record_lines_by_operation"] = rec_ops
    ev.cov["table_entries_from_tlc"] = sum(t.entries for t in tables)
    ev.cov["table_entries_compared"] = compared
    ev.cov["record_lines_validated"] = n
    ev.cov["states"] = states
    ev.cov["transitions"] = trans
    ev.cov["traces_validated_against_impl"] = compared + n
    for t in tables[:2]:
        ev.sample({"curve": t.name, "p": t.p, "A": t.A, "B": t.B, "points": t.n, "P1": t.pts[1], "P1+P1": t.pts[t.add[1][1]] if t.add[1][1] else "O",
                   "order(P1)": t.order[1]})
    for row in [x for x in rows if x["op"] == "mul" and x.get("heavy")][:1] + [x for x in rows if x["op"] == "law_neg"][:1]:
        ev.sample({k: (v if not isinstance(v, list) else "...") for k, v in row.items() if k in ("op", "cv", "cls", "heavy")})
    ev.assume("the oracle is the affine chord-and-tangent law of ref/ECp.tla, validated by TLC in this run (group axioms on complete small curves, "
              "ScalarMul = iterated sum = Jacobian evaluation, BigNat = integer instantiation, STB 34.101.45 table G.1 on bign-curve128v1)")
    ev.assume("multi-word moduli %s are prime (Miller-Rabin offline); completeness over them is on a cyclic subgroup of order 5 / 7 whose order TLC checks" % sorted(set(b[1] for b in bigs)))
    ev.assume("q G = O for bign-curve128v1 is evaluated by TLC (ECpVectors v128/3); for bign96/192/256 the law lines take the standard's q as the order of G")
    ev.assume("fully aliased calls a = b = c are not generated (ambiguous in ec.h); ecHasOrderA with a composite proper multiple of the point order admits both answers (ec.h)")
    vlib.log("[C06] %d entries compared, %d record lines, %d bad, %.0fs" % (compared, n, stats["bad"] + len(bad), time.time() - t0))


