"""C02 — bign: signatures, key pairs, DH, key transport and identity-based signatures are sound and complete.
 (0) ref/Bign.tla (STB 34.101.45 transcribed from the standard: rejection sampling of d and k from the caller's
     generator tape, alg. 7.1.3 / 7.1.4 / 6.3.3 / 7.2.3 / 7.2.4, appendix B.2.3 / B.2.4 / B.2.5) is anchored by the
     appendix tables G.1 - G.10 evaluated by TLC (spec/ref/BignVectors.tla).  A failure there is a specification error
     (inconclusive).
 (1) record direction: harness/drv_bign.c runs the enumerated classes (d x H x nonce / tape classes, verifier and
     token alterations CLASSIFIED BY THE SPECIFICATION, key transport, DH) in the `rel` AND the assert-enabled `dbg`
     build, each case in its own process; TLC (spec/trace/Trace_Bign.tla) judges every distinct line: error class,
     ranges, the signing equation for the k the tape defines, sign -> verify, gen -> val, wrap -> unwrap, DH symmetry;
     lines with lvl = 1 are recomputed in full (scalar multiplications over BigNat).
     Appendix B is recorded as CHAINS: trusted party's key pair -> bignSign of the identifier hash (nonce tape) ->
     bignIdExtract -> bignIdSign / bignIdSign2 -> bignIdVerify, with the trusted party's key CONSTRUCTED (test-input
     construction, driver) so that the extracted identity key is the boundary value e = 0, 1, q-1 on all three levels,
     plus 22 extractor and 28 verifier alterations and the e x H x nonce classes of the id-signing functions.  The
     verdicts are TLC's: IdExtract / IdSign / IdVerify of ref/Bign.tla on the logged inputs.
 (2) replay direction: TLC generates cases with predicted outputs (spec/gen/Gen_Bign.tla), the harness executes them.
 Observations (coordinator's ruling: outside the listed properties, recorded in the evidence, not violations): for a
 public key whose coordinates are in the field but OFF the curve bignVerify answers ERR_BAD_SIG (rejected; bign.h names
 ERR_BAD_PUBKEY) and bignKeyWrap answers ERR_OK (alg. 7.2.3 takes the recipient key as valid).  Coordinates >= p must
 be answered with ERR_BAD_PUBKEY."""
import os, json, glob, re, time
import vlib

LEVEL = "exploration"

Q = {128: int.from_bytes(bytes.fromhex("07663D2699BF5A7EFC4DFB0DD68E5CD9FFFFFFFFFFFFFFFFFFFFFFFFFFFFFFFF"), "little"),
     192: int.from_bytes(bytes.fromhex("B7A70CF33FDCB73D0AFFA4A6E7DA4680BB7BAF7303C4CC6CFEFFFFFFFFFFFFFFFFFFFFFFFFFFFFFFFFFFFFFFFFFFFFFF"), "little"),
     256: int.from_bytes(bytes.fromhex("F18E060D49ADFFDC32DF5695E5CA1B36F413212EB0EB6BF24E0098012C09C0B2" + "FF" * 32), "little")}
PM = {128: 2 ** 256 - 189, 192: 2 ** 384 - 317, 256: 2 ** 512 - 569}


def num(o):
    return int.from_bytes(bytes(o), "little")


def key_of(row):
    """Structural class of a line: operation, level and the enumerated class; seeded data never enters the key."""
    op, l, cls = row["op"], row.get("l"), row.get("cls", "")
    fn = {"keygen": "bignKeypairGen", "pubcalc": "bignPubkeyCalc", "sign": "bignSign", "sign2": "bignSign2", "verify": "bignVerify",
          "wrap": "bignKeyWrap", "unwrap": "bignKeyUnwrap", "dh": "bignDH", "idextract": "bignIdExtract", "idsign": "bignIdSign",
          "idsign2": "bignIdSign2", "idverify": "bignIdVerify"}.get(op if op != "abort" else row.get("in"), op)
    if fn == "bignKeypairGen" and "tape" in row:
        no = l // 4
        smp = [num(row["tape"][i:i + no]) for i in range(0, len(row["tape"]) - no + 1, no)]
        first_valid = next((i for i, v in enumerate(smp) if 0 < v < Q[l]), len(smp))
        if any(Q[l] <= v < PM[l] for v in smp[:first_valid + 1][:66]):
            return "bignKeypairGen:sample-in-[q,p)-accepted"
    if fn in ("bignSign", "bignSign2"):
        m = re.search(r"H=([^:]+)", cls)
        if m and m.group(1) in ("q", "q+1", "2^2l-1"):
            return "%s:H>=q:%s" % (fn, "abort" if op == "abort" else "s1-wrong")
    if op == "abort":
        return "%s:abort:%s" % (fn, cls)
    return "%s:l=%s:%s" % (fn, l, cls)


def brief(row):
    return {k: (v if not isinstance(v, list) or len(v) <= 40 else v[:40] + ["...(%d)" % len(v)]) for k, v in row.items()}


def hx(a):
    return "x" + bytes(a).hex()


def anchors(tier):
    return vlib.tlc("BignVectors", env={"VEC_TIER": tier}, workers=12, timeout=2400 if tier == "quick" else 7200, quiet=True)


# rough cost of a line for the specification (units of one long scalar multiplication): the costly lines go first, so
# that TLC's workers finish together (the order of the lines has no meaning)
COST = {"idverify": 2.0, "idextract": 1.6, "verify": 1.5, "wrap": 2.0, "unwrap": 1.3, "dh": 1.0, "sign2": 1.0, "idsign2": 1.0,
        "sign": 0.5, "idsign": 0.3, "keygen": 0.5, "pubcalc": 0.5}


def cost_of(row):
    return (COST.get(row["op"], 0.1) if row.get("lvl") == 1 else 0.0) * {128: 1, 192: 3.4, 256: 8}.get(row.get("l"), 1)


def gen_cases(ctx, tier):
    gdir = ctx.path("gen")
    os.makedirs(gdir, exist_ok=True)
    r = vlib.tlc("Gen_Bign", env={"GEN_SEED": ctx.seed, "GEN_DIR": gdir, "GEN_TIER": tier}, workers=6, timeout=2400, quiet=True)
    cases = [json.load(open(f)) for f in sorted(glob.glob(os.path.join(gdir, "c_*.json")), key=lambda p: int(re.findall(r"c_(\d+)", p)[0]))]
    return r, cases


def record_builds(ctx, tier, drvs):
    out = {}
    for b, drv in drvs.items():
        p = ctx.path("record_%s.ndjson" % b)
        rc, _, err = vlib.run_harness(drv, ["record", tier], out_path=p, env={"VERIF_SEED": ctx.seed}, timeout=900)
        rows = []
        for l in open(p):
            l = l.strip()
            if l.endswith("}"):
                try:
                    rows.append(json.loads(l))
                except ValueError:
                    pass
        out[b] = (rc, err, rows)
    return out


def run(ctx):
    ev = ctx.ev
    tier = "quick" if ctx.quick else "thorough"
    t0 = time.time()
    drvs = {b: vlib.harness("drv_bign", ["drv_bign.c"], b) for b in ("rel", "dbg")}
    # the anchors and the case generation run beside the record direction (all of them are TLC evaluations competing for
    # the same cores); nothing is REPORTED before the anchors have passed
    import concurrent.futures as cf
    pool = cf.ThreadPoolExecutor(max_workers=2)
    fa = pool.submit(anchors, tier)
    fg = pool.submit(gen_cases, ctx, tier)
    rec = record_builds(ctx, tier, drvs)
    pending = []          # violations found before the anchors' verdict is known

    def violation(*a):
        pending.append(a)
    tlc_states = 0
    # ---- (1) record: distinct lines of both builds are judged once
    lines, owners, aborts = [], {}, []
    for b, (rc, err, rows) in rec.items():
        if rc != 0:
            violation("crash:drv_bign:%s" % b, "drv_bign record stopped (rc=%d, %s build): %s" % (rc, b, err[-1200:]), err[-4000:])
        for row in rows:
            if row["op"] == "abort":
                aborts.append((b, row))
                continue
            k = json.dumps(row, sort_keys=True)
            if k not in owners:
                owners[k] = []
                lines.append(row)
            owners[k].append(b)
    aseen = {}
    for b, row in aborts:
        k = key_of(row)
        aseen[k] = aseen.get(k, 0) + 1
        if aseen[k] > 1:
            continue
        violation(k, "%s build: the library ABORTED on an admissible input (%s, class %s, level %s, signal %s): an internal precondition "
                  "is violated by the caller-visible contract" % (b, row.get("in"), row.get("cls"), row.get("l"), row.get("signal")),
                  {"build": b, "line": row, "how": "VERIF_SEED=%d drv_bign(%s) record %s, case idx %s" % (ctx.seed, b, tier, row.get("idx"))})
    lines.sort(key=cost_of, reverse=True)        # stable: equal costs keep the order of the enumeration
    path = ctx.path("lines.ndjson")
    vlib.write_ndjson(path, lines)
    n, bad, r = vlib.validate_lines(ctx, "Trace_Bign", path, timeout=3000 if ctx.quick else 20000)
    tlc_states += r.distinct
    if n < len(lines):
        ctx.note_inconclusive("Trace_Bign evaluated %d of %d lines (rc=%s)" % (n, len(lines), r.rc))
    seen = {}
    for i in bad:
        row = lines[i - 1]
        k = key_of(row)
        seen[k] = seen.get(k, 0) + 1
        if seen[k] == 1:
            violation(k, "%s (builds %s): the recorded call differs from STB 34.101.45 as transcribed in ref/Bign.tla (class %s, l=%s, rc=%s%s%s)"
                      % (row["op"], owners[json.dumps(row, sort_keys=True)], row.get("cls"), row.get("l"), row.get("rc", row.get("ra")),
                         ", identity key e = %d" % num(row["e"]) if row["op"] in ("idsign", "idsign2") and num(row["e"]) < 2 else "",
                         ", verify after sign: %s" % row["vrc"] if "vrc" in row else ", KeypairVal: %s" % row["val"] if "val" in row else ""),
                      {"line": row, "how": "re-run ./check C02; the line is judged by spec/trace/Trace_Bign.tla"})
    ev.cov["disagreeing_lines_by_key"] = seen
    obs = {}
    for row in lines:
        if row["op"] == "wrap" and row.get("cls", "").startswith("Q=y^1"):
            obs["bignKeyWrap: recipient key in the field but off the curve (bign.h: \\expect{ERR_BAD_PUBKEY})"] = row["rc"]
        if row["op"] == "verify" and row.get("cls", "").startswith(("alt=Q.y^1", "alt=Q:=(0,0)")):
            obs["bignVerify: public key in the field but off the curve, class %s (bign.h: \\expect{ERR_BAD_PUBKEY})" % row["cls"]] = row["rc"]
        if row["op"] in ("idextract", "idverify") and row.get("cls", "").startswith(("alt=Q.y^1", "alt=Q:=(0,0)")):
            obs["%s: trusted party's key in the field but off the curve, class %s (bign.h: \\expect{ERR_BAD_PUBKEY})" % (key_of(row).split(":")[0], row["cls"])] = row["rc"]
    ev.cov["observations"] = obs
    ev.cov["aborts_by_key"] = aseen
    vlib.log("[C02] %d distinct lines judged, %d disagree, %d aborts (%.0fs)" % (n, len(bad), len(aborts), time.time() - t0))
    # binding self-test: corrupt one output / flip one verdict per operation
    mut, ops = [], set()
    badset = set(bad)
    for i, row in enumerate(lines):
        if (i + 1) in badset or row["op"] in ops or row.get("rc", row.get("ra")) != "OK":
            continue
        m = json.loads(json.dumps(row))
        m["lvl"] = 0
        if row["op"] == "keygen":
            m["d"][0] ^= 1
        elif row["op"] in ("sign", "sign2"):
            m["sig"][-1] ^= 1
        elif row["op"] == "pubcalc":
            m["Q"][0] ^= 1
        elif row["op"] == "wrap":
            m["used"] += 1
        elif row["op"] == "dh":
            m["kB"][0] ^= 1
        elif row["op"] == "idextract":
            m["e"][0] ^= 1                       # the extracted key is not (S1 + H0) mod q
        elif row["op"] in ("idsign", "idsign2"):
            m["sig"][-1] ^= 1                    # S1 violates the equation of B.2.4
        elif row["op"] == "verify" and "s1:=q" not in row["cls"]:
            continue
        elif row["op"] == "unwrap":
            continue
        else:
            continue
        ops.add(row["op"])
        mut.append(m)
    for row in lines:
        if row["op"] == "verify" and "s1:=q" in row["cls"]:
            m = json.loads(json.dumps(row)); m["rc"] = "OK"; mut.append(m); break
    for row in lines:
        if row["op"] == "unwrap" and "len=min-1" in row["cls"]:
            m = json.loads(json.dumps(row)); m["rc"] = "OK"; mut.append(m); break
    # appendix B: an extracted public key moved off the curve, the legitimate key e = 0 "refused", a dropped input-integrity
    # flag, verdicts of the verifier / extractor flipped on lines the specification decides without a long scalar
    for row in lines:
        if row["op"] == "idextract" and row["rc"] == "OK":
            m = json.loads(json.dumps(row)); m["lvl"] = 0; m["R"][-1] ^= 1; mut.append(m)
            m = json.loads(json.dumps(row)); m["lvl"] = 0; m["inmod"] = 1; mut.append(m); break
    for row in lines:
        if row["op"] == "idsign" and row["rc"] == "OK" and num(row["e"]) == 0:
            m = json.loads(json.dumps(row)); m["lvl"] = 0; m["rc"] = "BAD_PRIVKEY"; m["sig"] = []; mut.append(m); break
    for op, cls in (("idverify", "alt=s1:=q"), ("idverify", "alt=R.y^1"), ("idextract", "alt=s1+=q")):
        for row in lines:
            if row["op"] == op and row.get("cls", "").startswith(cls) and row["rc"] != "OK":
                m = json.loads(json.dumps(row)); m["rc"] = "OK"; mut.append(m); break
    # ... and one verdict that needs the point V of B.2.5: the cheapest genuine line recomputed in full, answered BAD_SIG
    gen = [row for row in lines if row["op"] == "idverify" and row.get("lvl") == 1 and row["rc"] == "OK" and row.get("l") == 128 and "e=0" in row.get("cls", "")]
    if gen:
        m = json.loads(json.dumps(gen[0])); m["rc"] = "BAD_SIG"; mut.append(m)
    n2, bad2, r2 = vlib.validate_lines(ctx, "Trace_Bign", mut, timeout=900, workers=4)
    tlc_states += r2.distinct
    ev.cov["selftest_corrupted_lines"] = len(mut)
    ev.cov["selftest_rejected"] = len(bad2)
    if n2 == len(mut) and len(bad2) != len(mut):
        ctx.note_inconclusive("binding self-test: %d of %d corrupted lines were not rejected" % (len(mut) - len(bad2), len(mut)))
    # ---- (0) the anchors' verdict; only now the findings are reported
    ra = fa.result()
    rg, cases = fg.result()
    pool.shutdown()
    abad = re.findall(r'<<\s*"@BAD",\s*(\d+)', ra.out)
    ev.cov["appendix_vectors_evaluated"] = max(0, (ra.distinct - 1) // 2)
    if ra.rc != 0 or abad or ra.distinct < 3:
        ctx.note_inconclusive("ref/Bign.tla fails its appendix vectors %s (rc=%s): specification error" % (abad, ra.rc))
        return
    tlc_states += ra.distinct + rg.distinct
    vlib.log("[C02] anchors ok (%.0fs), %d generated cases (%.0fs)" % (ra.wall, len(cases), rg.wall))
    for a in pending:
        ctx.violation(*a)
    # ---- (2) replay
    nrep = 0
    if vlib.tlc_infra_failed(rg) or not cases:
        ctx.note_inconclusive("Gen_Bign produced no cases (rc=%s)" % rg.rc)
    else:
        cmds = ""
        for c in cases:
            cmds += "x op=%s l=%d oid=%s H=%s d=%s tape=%s X=%s I=%s Q=%s token=%s t=%s H0=%s e=%s tape2=%s\n" % (
                c["op"], c["l"], hx(c["oid"]), hx(c["H"]), hx(c["d"]), hx(c["tape"]), hx(c["X"]), hx(c["I"]), hx(c["Q"]), hx(c["token"]), hx(c["t"]),
                hx(c["H0"]), hx(c["e"]), hx(c["tape2"]))
        for b, drv in drvs.items():
            rc, out, err = vlib.run_harness(drv, ["exec"], stdin=cmds.encode(), env={"VERIF_FORK": "0"}, timeout=600)
            got = [json.loads(l) for l in out.splitlines() if l.strip().endswith("}")]
            if rc != 0:
                c = cases[len(got)] if len(got) < len(cases) else {}
                hq = c.get("op") in ("sign", "sign2") and num(c.get("H", [0])) >= Q[c.get("l", 128)]
                ctx.violation("%s:H>=q:abort" % ("bignSign" if c.get("op") == "sign" else "bignSign2") if hq else "replay:abort:%s" % c.get("op"),
                              "%s build aborted on the TLC-generated case %d (%s): %s" % (b, len(got) + 1, c.get("op"), err[-800:]), {"case": c, "stderr": err[-3000:]})
            for c, x in zip(cases, got):
                nrep += 1
                okv = x.get("rc") == "OK"
                if c["op"] == "keygen":
                    okv = okv and x["d"] == c["d"] and x["Q"] == c["Q"]
                elif c["op"] in ("sign", "sign2"):
                    okv = okv and (x["sig"] == c["sig"] or not c["sig"]) and x["vrc"] == "OK"
                elif c["op"] == "wrap":
                    okv = okv and x["token"] == c["token"]
                elif c["op"] == "unwrap":
                    okv = okv and x["key"] == c["key"]
                elif c["op"] == "idsign":
                    okv = okv and x["sig"] == c["sig"]
                elif c["op"] == "idchain":
                    okv = (x["rcPub"] == "OK" and x["Q"] == c["Q"] and x["rcSign"] == "OK" and x["casig"] == c["casig"] and x["rcExtract"] == "OK"
                           and x["e"] == c["e"] and x["R"] == c["R"] and x["rcIdSign"] == "OK" and x["sig"] == c["sig"]
                           and (x["rcIdVerify"] == "OK") == (c["verdict"] == "ok") and c["verdict"] == "ok")
                if not okv and c["op"] in ("idsign", "idchain"):
                    e = num(c["e"])
                    ctx.violation("%s:l=%d:gen:e=%s" % ("bignIdSign" if c["op"] == "idsign" else "ibs-chain", c["l"], e if e < 2 else "q-1" if e == Q[c["l"]] - 1 else "other"),
                                  "%s build differs from the outputs the specification predicts for a generated %s case (identity key e = %s)"
                                  % (b, c["op"], e if e < 2 else hex(e)), {"case": c, "real": x})
                elif not okv:
                    x["tape"] = c["tape"]
                    x["cls"] = "H=%s" % ("q" if num(c["H"]) == Q[c["l"]] else "q+1" if num(c["H"]) == Q[c["l"]] + 1 else "2^2l-1" if c["H"] and min(c["H"]) == 255 else "other")
                    k = key_of(x) if c["op"] in ("keygen", "sign", "sign2") else "replay:%s" % c["op"]
                    if not (k.startswith("bignKeypairGen:sample") or ":H>=q:" in k):
                        k = "replay:%s:l=%d" % (c["op"], c["l"])
                    ctx.violation(k, "%s build differs from the output the specification predicts for a generated %s case" % (b, c["op"]), {"case": c, "real": x})
    ev.cov["replayed_generated_cases"] = nrep
    classes = set((row["op"], row.get("l"), row.get("cls")) for row in lines) | set(("gen", c["op"], i) for i, c in enumerate(cases))
    ev.cov["lines_judged"] = n
    ev.cov["lines_recomputed_in_full"] = sum(1 for row in lines if row.get("lvl") == 1)
    ibs = [row for row in lines if row["op"] in ("idextract", "idsign", "idsign2", "idverify")]
    ev.cov["ibs_lines_judged"] = len(ibs)
    ev.cov["ibs_lines_recomputed_in_full"] = sum(1 for row in ibs if row.get("lvl") == 1)
    ev.cov["ibs_boundary_identity_keys"] = sorted(set("l=%d:e=%s" % (row["l"], "0" if num(row["e"]) == 0 else "1" if num(row["e"]) == 1 else "q-1")
                                                      for row in ibs if row["op"] == "idextract" and row["rc"] == "OK" and "chain:e=" in row["cls"]
                                                      and num(row["e"]) in (0, 1, Q[row["l"]] - 1)))
    ev.cov["aborts_in_assert_build"] = len(aborts)
    ev.cov["builds"] = list(drvs)
    ev.cov["tlc_states"] = tlc_states
    ev.cov["evaluations"] = n + nrep + ev.cov["appendix_vectors_evaluated"]
    ev.cov["distinct_nontrivial"] = len(classes)
    ev.cov["traces_validated_against_impl"] = n + nrep
    ev.cov["rule"] = ("structure enumerated: level x operation x class (private key {1, 2, q-1, 16-bit, seeded} x hash {0, 1, q-1, q, q+1, 2^2l-1, seeded} x "
                      "nonce {1, 2, 16-bit, 2^l-1, 2^l, 2^l+seeded, q-1, seeded}; generator tapes with samples 0, q, q+1, (q+p)/2, p-1, 2^2l-1 before "
                      "the first valid one, 3 / 64 / 65 / all rejected; 20 verifier alterations and 15 token alterations classified by the specification; "
                      "key lengths straddling 16; DH lengths straddling l/2; appendix B: call chains sign -> extract -> id-sign / id-sign2 -> id-verify with the "
                      "extracted identity key {0, 1, q-1 (constructed, every level), 16-bit, generic} x H0 {seeded, 2^2l-1}, 22 extractor and 28 verifier "
                      "alterations (single bits, +-q, s1 in {0, q, s1 + q, 2^2l-1}, other / negated / swapped / off-curve / out-of-field keys, identifiers), "
                      "id-signing with e in {0, 1, q-1, q, q+1, 2^2l-1, seeded} x H in {0, q, 2^2l-1, seeded} x nonce tapes x identifiers); "
                      "data octets seeded; distinct = distinct (operation, level, class) tuples, "
                      "each involving >= 1 evaluation of the standard's equations by TLC")
    for row in [x for x in lines if x["op"] == "sign" and x.get("lvl") == 1][:1] + [x for x in lines if x["op"] == "keygen"][7:8] + \
            [x for x in lines if x["op"] == "verify" and x.get("lvl") == 1][:1] + [x for x in lines if x["op"] == "unwrap"][2:3] + \
            [x for x in lines if x["op"] == "idextract" and x.get("lvl") == 1 and x.get("rc") == "OK" and num(x["e"]) == 0][:1] + \
            [x for x in lines if x["op"] == "idsign" and x.get("lvl") == 1 and x.get("rc") == "OK" and num(x["e"]) == 0][:1]:
        ev.sample(brief(row))
    ev.assume("STB 34.101.45 as transcribed in spec/ref/Bign.tla, anchored by the appendix tables G.1-G.10 evaluated by TLC in this run")
    ev.assume("appendix B: the identity private key ranges over {0, .., q-1} (B.2.3 defines e = (S1 + H0) mod q with no exclusion; bign.h asks only "
              "that it comes from bignIdExtract); the identity public key must be a point of the curve; lines with lvl = 0 are judged by the "
              "error class, e = (S1 + H0) mod q, the signing equation of B.2.4 and the agreement extract <-> verify, sign -> id-verify")
    ev.assume("the number of sampling attempts before ERR_BAD_RNG is B_PER_IMPOSSIBLE + 1 = 65 (defs.h / zz.h); the deterministic nonce is "
              "modelled for its first candidate (a second round has probability < 2^-%d)" % 120)
    vlib.log("[C02] done %.0fs" % (time.time() - t0))
