"""C16 generators (shared by checks/C16.py and the C07 / C19 re-executions through SUITES).
Scenario commands for harness/drv_schemes.c: standard parameter set x private-key class x hash class x generator tape
x alterations, and constructed histories that force the repetitions of the signing loops (retry_cmds).  Structure is
enumerated, data seeded.  Python's elliptic-curve arithmetic below only CONSTRUCTS inputs
(e.g. the private key that makes the GOST signature component s vanish for a given nonce); every verdict is TLC's."""
import os, sys, json, random
sys.path.insert(0, os.path.join(os.path.dirname(os.path.abspath(__file__)), "..", "tools"))
import vlib
from suite_valid import ec_mul, le, hx

G12S_SETS = ["1.2.643.2.2.35.0", "1.2.643.2.2.35.1", "1.2.643.2.2.35.2", "1.2.643.2.2.35.3", "1.2.643.2.9.1.8.1",
             "1.2.643.7.1.2.1.2.0", "1.2.643.7.1.2.1.2.1", "1.2.643.7.1.2.1.2.2"]
DSTU_SETS = ["1.2.804.2.1.1.1.1.3.1.1.1.2.%d" % i for i in range(10)]
PFOK_SETS = ["test", "1.2.112.0.2.0.1176.2.3.3.2", "1.2.112.0.2.0.1176.2.3.6.2", "1.2.112.0.2.0.1176.2.3.10.2"]
OID_BELT = "x06092a7000020022651f51"


def be(v, n):
    return "x" + (v % (1 << (8 * n))).to_bytes(n, "big").hex()


def probe(drv, cmds, env=None):
    rc, out, err = vlib.run_harness(drv, ["exec"], stdin=("\n".join(cmds) + "\n").encode(), env=env or {}, timeout=600)
    return [json.loads(l) for l in (out or "").splitlines() if l.strip().endswith("}")]


def thin(pairs, quick, k):
    """quick: a diagonal selection of k pairs that still shows every first and every second component"""
    if not quick:
        return pairs
    a = sorted({p[0] for p in pairs}, key=str)
    b = sorted({p[1] for p in pairs}, key=str)
    n = max(len(a), len(b), k)
    return [(a[i % len(a)], b[i % len(b)]) for i in range(n)]


# ------------------------------------------------------------------ g12s
G12S_ALTS = "r^0,r^%d,s^0,s^%d,r=0,s=0,r=q,s=q,r+q,s+q,r=max,s=max,h+q,h-q,h=0,h=1,h=q,h=q+1,h^0,h^%d,Q-,x^0,y^3"


def g12s_cmds(rng, tier, params):
    """params: {name: probe line}"""
    out = []
    quick = tier == "quick"
    for name in G12S_SETS:
        P = params[name]
        l = P["l"]; mo = l // 8
        q = le(P["q"]); p = le(P["p"]); a = le(P["a"]); Pt = (le(P["xP"]), le(P["yP"]))
        qb = q.bit_length()
        dcls = {"d=1": 1, "d=q-1": q - 1, "d=seeded": rng.randrange(2, q - 1)}
        hcls = {"h=0": 0, "h=ones": (1 << l) - 1, "h=q": q, "h>=q": q + 5 if q + 5 < (1 << l) else q, "h=seeded": rng.getrandbits(l)}
        alts = G12S_ALTS % (qb - 1, qb // 2, l - 1)
        for dc, hc in thin([(x, y) for x in dcls for y in hcls], quick, 5):
            k = rng.randrange(1, q)
            out.append("g12s name=%s d=%s k=%s hash=%s alts=%s cls=%s:%s" % (name, hx(dcls[dc], mo), hx(k, mo), be(hcls[hc], mo), alts, dc, hc))
        # tape whose first draws are inadmissible (0, all ones >= q when q is not 2^l - small) before a valid one
        k = rng.randrange(1, q)
        tape = hx(0, mo) + hx((1 << (8 * mo)) - 1, mo)[1:] + hx(q, mo)[1:] + hx(k, mo)[1:]
        out.append("g12s name=%s d=%s k=%s hash=%s alts=%s cls=d=redrawn:tape-rejects" % (name, tape, tape, be(rng.getrandbits(l), mo), "r^0,s=0"))
        out.append("g12s name=%s d=%s k=%s hash=%s alts= cls=tape-zero" % (name, hx(0, mo), hx(1, mo), be(1, mo)))
        # the set in an object whose unused octets are arbitrary (g12s.h): validate, generate, sign, verify
        out.append("g12s name=%s d=%s k=%s hash=%s alts= dirty=1 cls=d=seeded:dirty-object" % (name, hx(rng.getrandbits(l - 2) + 1, mo), hx(rng.getrandbits(l - 2) + 1, mo), be(rng.getrandbits(l), mo)))
        # s = 0 on the first nonce: d = -k e r^(-1) (mod q); the standard repeats the draw, the signature must verify
        k = rng.randrange(1, q); k2 = rng.randrange(1, q)
        H = rng.getrandbits(l)
        e = H % q or 1
        C = ec_mul(k, Pt, a, p)
        r = C[0] % q
        if r:
            d = (-k * e * pow(r, -1, q)) % q
            if d:
                out.append("g12s name=%s d=%s k=%s hash=%s alts=%s cls=s=0-on-first-nonce" % (name, hx(d, mo), hx(k, mo) + hx(k2, mo)[1:], be(H, mo), "s=0,r^0") + " redraw=1")
    return out


# ------------------------------------------------------------------ bign96
B96_ALTS = "u^0,u^79,s^0,s^191,s=q,s+q,s=max,s=0,h^0,h^191,h+q,h-q,Q-,x^0,y^7"


def bign96_cmds(rng, tier, P):
    out = []
    q = le(P["q"])
    dcls = {"d=1": 1, "d=q-1": q - 1, "d=seeded": rng.randrange(2, q - 1)}
    hcls = {"h=0": 0, "h=ones": (1 << 192) - 1, "h=q": q, "h=q+3": q + 3, "h=seeded": rng.getrandbits(192)}
    for dc, hc in thin([(x, y) for x in dcls for y in hcls], tier == "quick", 5):
        k = rng.randrange(1, q)
        out.append("bign96 d=%s k=%s hash=%s oid=%s alts=%s cls=%s:%s" % (hx(dcls[dc], 24), hx(k, 24), hx(hcls[hc], 24), OID_BELT, B96_ALTS, dc, hc))
    # hash >= q with a small k - (s0 + 2^103) d: the subtraction of an unreduced H needs two corrections
    for t in range(2):
        k = (1 << 103) + (1 << 80) + rng.getrandbits(70)
        out.append("bign96 d=%s k=%s hash=%s oid=%s alts=s^0 cls=d=1:h=ones:small-k-minus-s0d" % (hx(1, 24), hx(k, 24), hx((1 << 192) - 1, 24), OID_BELT))
    k = rng.randrange(1, q)
    tape = hx(0, 24) + hx((1 << 192) - 1, 24)[1:] + hx(q, 24)[1:] + hx(k, 24)[1:]
    out.append("bign96 d=%s k=%s hash=%s oid=%s alts=s^0 cls=d=redrawn:tape-rejects" % (tape, tape, hx(rng.getrandbits(192), 24), OID_BELT))
    out.append("bign96 d=%s k=%s hash=%s oid=%s alts= cls=tape-zero" % (hx(0, 24), hx(1, 24), hx(1, 24), OID_BELT))
    return out


# ------------------------------------------------------------------ dstu
def dstu_cmds(rng, tier, params):
    out = []
    quick = tier == "quick"
    for name in DSTU_SETS:
        P = params[name]
        m = P["f"][0]; no = (m + 7) // 8
        n = le(P["n"]); nb = n.bit_length(); ono = (nb + 7) // 8
        dl = (nb + 7) // 8                         # octets per draw (|n| bits), trimmed to |n| - 1 bits
        dcls = {"d=1": 1, "d=max": (1 << (8 * dl)) - 1, "d=seeded": rng.getrandbits(nb - 1) | 1}
        hcls = {"h=0": (0, no), "h=ones": ((1 << (8 * no)) - 1, no), "h=short": (rng.getrandbits(64), 8), "h=long": (rng.getrandbits(512), 64),
                "h=exact": (rng.getrandbits(8 * no), no)}
        lds = [16 * ono, 16 * ono + 16, 1024]
        alts = "r^0,s^0,r^%d,s^%d,r=0,s=0,r=q,s=q,r+q,s+q,r=max,h^0,h^%d,h^%d,h=0,h=1,hlen+1,hlen-1,Q-,x^0,y^1,ld+16,ld-16,rpad,spad" % (nb - 2, nb // 2, m - 1, min(m, 8 * no - 1))
        for i, (dc, hc) in enumerate(thin([(x, y) for x in dcls for y in hcls], quick, 5)):
            for ld in (lds if not quick else [lds[i % 3]]):
                hv, hl = hcls[hc]
                e = rng.getrandbits(nb - 1) | 2
                out.append("dstu name=%s gen=%d d=%s e=%s hash=%s ld=%d alts=%s cls=%s:%s:ld%s" % (
                    name, rng.randrange(1, 1 << 30), hx(dcls[dc], dl), hx(e, dl), hx(hv, hl), ld, alts, dc, hc,
                    "=min" if ld == lds[0] else ("=min+16" if ld == lds[1] else "=1024")))
        # inadmissible draws first (zero), bad signature lengths
        e = rng.getrandbits(nb - 1) | 2
        out.append("dstu name=%s gen=7 d=%s e=%s hash=%s ld=%d alts=r^0 cls=tape-rejects" % (name, hx(0, dl) + hx(5, dl)[1:], hx(0, dl) + hx(e, dl)[1:], hx(77, no), lds[1]))
        for ld, cls in ((16 * ono - 16, "ld=min-16"), (16 * ono + 8, "ld=odd")):
            out.append("dstu name=%s gen=7 d=%s e=%s hash=%s ld=%d alts= cls=%s" % (name, hx(5, dl), hx(e, dl), hx(77, no), ld, cls))
        # point recovery / compression from given compressed values
        for cls, xp in [("xp=0", 0), ("xp=1", 1), ("xp=ones", (1 << m) - 1), ("xp=2^m", 1 << m if m % 8 else 0)] + \
                       [("xp=seeded", rng.getrandbits(m)) for _ in range(3 if quick else 12)]:
            out.append("dstuPoint name=%s xp=%s cls=%s" % (name, hx(xp, no), cls))
    return out


# ------------------------------------------------------------------ repetitions of the signing loops (constructed histories)
# plan = the branch every draw of the tape takes before the final admissible draw; the driver constructs hash / private key
# so that the draws really take them (harness/drv_schemes.c doDstuRetry); structure (plans x sets x hash / key / ld classes)
# is enumerated, octets are seeded through salt
DSTU_PLANS = ["e0,etop", "r0", "s0", "e0,r0,s0", "s0,etop,r0"]
G12S_PLANS = ["k0,kq,kmax", "s0", "kmax,s0,k0"]
B96_PLANS = ["k0,kq,kmax", "kmax,k0"]
WHY = {"e0": "e=0", "etop": "e=0", "r0": "r=0", "s0": "s=0", "k0": "k=0", "kq": "k>=q", "kmax": "k>=q"}


def want_of(plan):
    """the branch the specification has to find for every draw of the tape (the driver logs the same list as `want`)"""
    return [WHY[t] for t in plan.split(",") if t] + ["used"]


def retry_cmds(rng, tier, pr, dstu_pr):
    out = []
    for si, name in enumerate(DSTU_SETS):
        P = dstu_pr[name]
        m = P["f"][0]; no = (m + 7) // 8
        n = le(P["n"]); nb = n.bit_length(); ono = (nb + 7) // 8
        hcls = [("h=exact", rng.getrandbits(8 * no), no), ("h=short", rng.getrandbits(64), 8), ("h=long", rng.getrandbits(512), 64)]
        dcls = [("d=seeded", rng.getrandbits(nb - 1) | 1), ("d=1", 1), ("d=max", (1 << (nb - 1)) - 1)]
        lds = [("ld=min", 16 * ono), ("ld=min+16", 16 * ono + 16), ("ld=1024", 1024)]
        for pi, plan in enumerate(DSTU_PLANS):
            hc, hv, hl = hcls[(si + pi) % 3]; dc, dv = dcls[(si + pi) % 3]; lc, ld = lds[(si + 2 * pi) % 3]
            cls = "%s:%s:%s" % ("d=tied" if "s0" in plan else dc, "h=tied" if "r0" in plan else hc, lc)
            out.append("dstuRetry name=%s gen=%d plan=%s d=%s hash=%s ld=%d salt=%d cls=%s" % (
                name, rng.randrange(1, 1 << 30), plan, hx(dv, ono), hx(hv, hl), ld, rng.randrange(1, 1 << 30), cls))
    for si, name in enumerate(G12S_SETS):
        P = pr[("g12s", name)]
        l = P["l"]; mo = l // 8; q = le(P["q"])
        hcls = [("h=seeded", rng.getrandbits(l)), ("h=q", q), ("h=0", 0)]
        for pi, plan in enumerate(G12S_PLANS):
            hc, hv = hcls[(si + pi) % 3]
            cls = "%s:%s" % ("d=tied" if "s0" in plan else "d=seeded", hc)
            out.append("g12sRetry name=%s plan=%s d=%s hash=%s salt=%d cls=%s" % (name, plan, hx(rng.randrange(1, q), mo), be(hv, mo), rng.randrange(1, 1 << 30), cls))
    q = le(pr[("bign96", "")]["q"])
    for pi, plan in enumerate(B96_PLANS):
        hv = [rng.getrandbits(192), (1 << 192) - 1][pi % 2]
        out.append("bign96Retry plan=%s d=%s hash=%s oid=%s salt=%d cls=d=seeded:%s" % (plan, hx(rng.randrange(1, q), 24), hx(hv, 24), OID_BELT, rng.randrange(1, 1 << 30), ["h=seeded", "h=ones"][pi % 2]))
    return out


# ------------------------------------------------------------------ pfok
def pfok_cmds(rng, tier, params):
    out = []
    for name in PFOK_SETS:
        P = params[name]
        mo = (P["r"] + 7) // 8
        tapes = {"zero": 0, "ones": (1 << (8 * mo)) - 1, "seeded": None, "one": 1}
        combos = [("seeded", "seeded", "seeded", "seeded"), ("zero", "ones", "one", "seeded"), ("ones", "zero", "seeded", "one")]
        if tier != "quick":
            combos += [("one", "one", "ones", "ones"), ("seeded", "seeded", "zero", "zero")] + [("seeded",) * 4] * 3
        for c in combos:
            vals = [tapes[t] if tapes[t] is not None else rng.getrandbits(8 * mo) for t in c]
            out.append("pfok name=%s xa=%s xb=%s ua=%s ub=%s cls=%s" % (name, hx(vals[0], mo), hx(vals[1], mo), hx(vals[2], mo), hx(vals[3], mo), "/".join(c)))
    # shared-key lengths that are not a multiple of 8 (pfok.h admits every n < l; the standard sets all use 256)
    P = params["test"]
    mo = (P["r"] + 7) // 8
    for nb in (255, 250, 13, 1, 9) if tier == "quick" else (255, 254, 250, 249, 248, 100, 13, 9, 8, 7, 1):
        vals = [rng.getrandbits(8 * mo) for _ in range(4)]
        out.append("pfok name=test n=%d xa=%s xb=%s ua=%s ub=%s cls=n=%d" % (nb, hx(vals[0], mo), hx(vals[1], mo), hx(vals[2], mo), hx(vals[3], mo), nb))
    return out


# GF(2^m) rings: the smallest ones gf2Create accepts (m - k >= 64; two words) and the DSTU fields; the driver hands
# gf2Tr / gf2QSolve stacks of exactly the documented depth
GF2_FIELDS = ["71,6,0,0", "73,4,3,2", "79,9,0,0", "89,6,5,3", "163,7,6,3", "167,6,0,0", "173,10,2,1", "179,4,2,1", "191,9,0,0", "233,9,4,1",
              "257,12,0,0", "307,8,4,2", "367,21,0,0", "431,5,3,1"]


def gf2_cmds(tier):
    return ["gf2 f=%s cnt=%d" % (f, 10 if tier == "quick" else 100) for f in GF2_FIELDS]


def load_params(drv, env=None):
    cmds = ["g12s name=%s d=x01 k=x01 hash=x01 alts=" % n for n in G12S_SETS] + ["bign96 d=x01 k=x01 hash=x01 oid=%s alts=" % OID_BELT] + \
           ["dstuPoint name=%s xp=x00" % n for n in DSTU_SETS] + ["pfok name=%s xa=x01 xb=x01 ua=x01 ub=x01" % n for n in PFOK_SETS]
    rows = probe(drv, cmds, env)
    pr = {}
    for r in rows:
        pr[(r["op"], r.get("name", ""))] = r
    return pr


def dstu_params(drv, env=None):
    rows = probe(drv, ["dstu name=%s gen=1 d=x05 e=x07 hash=x01 ld=1024 alts=" % n for n in DSTU_SETS], env)
    return {r["name"]: r for r in rows}


# ------------------------------------------------------------------ the suite for C07 / C19 (small, seconds)
def _suite_cmds(ctx, tier):
    rng = random.Random(int(ctx.seed) * 104729 + 16)
    drv = vlib.harness("s_schemes_probe", ["drv_schemes.c"], "rel")
    pr = load_params(drv)
    g = {n: pr[("g12s", n)] for n in G12S_SETS}
    cmds = g12s_cmds(rng, "quick", g)[::6] + bign96_cmds(rng, "quick", pr[("bign96", "")])[::3]
    dpr = dstu_params(drv)
    cmds += dstu_cmds(rng, "quick", dpr)[::9] + pfok_cmds(rng, "quick", {n: pr[("pfok", n)] for n in PFOK_SETS})[:2] + gf2_cmds("quick")[::3]
    cmds += retry_cmds(rng, "quick", pr, dpr)[::7]
    return ("\n".join(cmds) + "\n").encode()


SUITES = [
    {"name": "schemes", "sources": ["drv_schemes.c"], "libs": [], "trace": "Trace_Schemes", "runs": [(["exec"], _suite_cmds)]},
]
