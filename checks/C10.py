"""C10 — incremental APIs: chunking, get-then-continue, state relocation change nothing.
 (1) spec/sm/StepApi.tla is model-checked per buffering discipline (exhaustive over fragment
     scripts within the bounds): bookkeeping invariants (range of filled/reserved, conservation,
     Get/Reloc invisible);
 (2) every script TLC explored is a replay case: the harness runs it on every real bundle of that
     discipline (fresh exact-size fragment buffers, Get/Verify at the scripted positions, state
     relocated with the old copy overwritten), and
 (3) TLC judges every executed script with the reference semantics (Trace_Belt!StepsOk): concatenated
     outputs = one-shot value of the concatenated input, every Get = one-shot value of the prefix.
 (4) message-level reuse (WBL / SDE / FMT: one Start, many whole-message StepE/StepD/StepD2/StepR calls):
     spec/sm/MsgApi.tla is model-checked, its histories are replayed on one real state and every call is
     judged by its own arguments (checks/msgs.py).
 Non-belt bundles (bash, brng, botp) are driven by the same scheme in checks of C03's driver: see run_other().
"""
import os, json, glob, hashlib
import vlib

LEVEL = "model_checking"

#            discipline: (Blk, alphabet, bundles)
DISC = {
    "lazy":   (16, "Alpha", ["mac"]),
    "eager":  (32, "Alpha", ["hash", "hmac"]),
    "stream": (16, "Alpha", ["cfbE", "cfbD", "ctr"]),
    "block":  (16, "AlphaBlock", ["ecbE", "ecbD", "cbcE", "cbcD"]),
    "whole":  (16, "AlphaWhole", ["bdeE", "bdeD"]),
    "aead":   (16, "Alpha", ["dwpE", "dwpD", "cheE", "cheD"]),
}
#            tier: discipline -> (MaxFrags, MaxTotal in blocks, MaxMarks, cap of scripts per bundle)
BOUNDS = {
    "quick":    {"lazy": (3, 4, 2, 1500), "eager": (3, 4, 2, 900), "stream": (4, 4, 1, 1200), "block": (4, 5, 1, 400),
                 "whole": (4, 4, 1, 500), "aead": (3, 3, 2, 900)},
    "thorough": {"lazy": (5, 4, 2, 20000), "eager": (4, 4, 2, 12000), "stream": (6, 4, 1, 10000), "block": (5, 6, 2, 6000),
                 "whole": (6, 4, 2, 8000), "aead": (4, 3, 2, 8000)},
}


def run(ctx):
    ev = ctx.ev
    tier = "quick" if ctx.quick else "thorough"
    drv = vlib.harness("drv_belt", ["drv_belt.c", "drv_belt_steps.c"], "asan", libs=["-lm"])
    states = trans = 0
    scripts = {}

    def mc(d):
        blk, alpha, _ = DISC[d]
        fr, tot, mk, cap = BOUNDS[tier][d]
        gdir = ctx.path("gen_" + d)
        os.makedirs(gdir, exist_ok=True)
        cfg = ctx.path(d + ".cfg")
        with open(cfg, "w") as f:
            f.write("SPECIFICATION Spec\nCONSTANTS Discipline = \"%s\"\n Blk = %d\n MaxFrags = %d\n MaxTotal = %d\n MaxMarks = %d\n"
                    " Alphabet <- %s\nINVARIANT FilledRange Conservation LazyKeepsLast IFilledRange Emit\nPROPERTY MarksInvisible\n"
                    % (d, blk, fr, tot * blk, mk, alpha))
        r = vlib.tlc("MC_StepApi", cfg, env={"GEN_DIR": gdir}, timeout=2400, workers=6 if ctx.quick else 16,
                     coverage=(d == "lazy"), quiet=True)
        return d, r, gdir

    results = vlib.parallel([(lambda d=d: mc(d)) for d in DISC], n=3 if ctx.quick else 1)
    for d, r, gdir in results:
        if vlib.tlc_infra_failed(r):
            ctx.note_inconclusive("MC_StepApi(%s) gave no verdict rc=%s" % (d, r.rc))
            continue
        if r.rc != 0:
            # a design-level counterexample of the abstract bookkeeping: not a statement about the code
            ctx.note_inconclusive("StepApi model violates its own invariant for %s: %s" % (d, (r.violation or "")[:300]))
            continue
        states += r.distinct
        trans += r.generated
        ss = sorted(json.load(open(f))["script"] for f in glob.glob(os.path.join(gdir, "*.json")))
        ev.cov["scripts_" + d] = len(ss)
        cap = BOUNDS[tier][d][3]
        if len(ss) > cap:      # the seed picks which subset of the enumerated family is replayed
            ss = sorted(ss, key=lambda s: hashlib.sha256(("%d:%s" % (ctx.seed, s)).encode()).hexdigest())[:cap]
        scripts[d] = ss
    ev.cov["states"] = states
    ev.cov["transitions"] = trans

    # ---- replay on the real bundles
    cmds = []
    for d, ss in scripts.items():
        for bi, b in enumerate(DISC[d][2]):
            for si, s in enumerate(ss):
                cmds.append("steps b=%s klen=%d reloc=%d script=%s\n" % (b, (16, 24, 32)[(si + bi) % 3], (si + bi) % 2, s))
    out_path = ctx.path("steps.ndjson")
    rc, _, err = vlib.run_harness(drv, ["steps"], stdin="".join(cmds).encode(), out_path=out_path,
                                  env={"VERIF_SEED": ctx.seed}, timeout=1800)
    rows = [json.loads(l) for l in open(out_path) if l.strip().endswith("}")]
    if rc != 0:
        nxt = cmds[len(rows)].strip() if len(rows) < len(cmds) else "?"
        ctx.violation("steps-crash:" + nxt.replace(" ", "_"), "bundle crashed / sanitizer report on a legal fragment script: %s\n%s" % (nxt, err[-1500:]),
                      {"command": nxt, "stderr": err[-4000:]})
    ev.cov["scripts_replayed"] = len(rows)

    # ---- TLC judges every executed script
    nval = 0
    # shards of <= 4000 lines, 6 TLC processes at a time (one large file is parsed and evaluated far slower than several small ones)
    shards = vlib.shard(rows, max(1, (len(rows) + 3999) // 4000))
    results = vlib.parallel([(lambda sh=sh: vlib.validate_lines(ctx, "Trace_Belt", sh, timeout=3000, workers=2)) for sh in shards], n=6)
    for sh, (n, bad, r) in zip(shards, results):
        if n < len(sh):
            ctx.note_inconclusive("Trace_Belt evaluated %d of %d script lines (rc=%s)" % (n, len(sh), r.rc))
        nval += n
        for i in bad:
            row = sh[i - 1]
            ctx.violation("steps:%s:%s%s" % (row["b"], row["script"], ":reloc" if row.get("reloc") else ""),
                          "bundle %s: script %s gives a result different from the one-shot value (or a wrong Get/Verify)" % (row["b"], row["script"]),
                          {"line": row})
        ev.add("trace_states", r.distinct)
    ev.cov["traces_validated_against_impl"] = nval

    # ---- binding self-test: corrupt one output octet / one tag octet
    mut = []
    for row in rows[:2000:250]:
        m = json.loads(json.dumps(row))
        if m["out"]:
            m["out"][0] ^= 1
        elif m["gets"]:
            m["gets"][0]["tag"][0] ^= 1
        else:
            continue
        mut.append(m)
    if mut:
        n, bad, r = vlib.validate_lines(ctx, "Trace_Belt", mut, timeout=300)
        ev.cov["selftest_corrupted_lines"] = len(mut)
        ev.cov["selftest_rejected"] = len(bad)
        if n == len(mut) and len(bad) != len(mut):
            ctx.note_inconclusive("binding self-test failed: %d/%d rejected" % (len(bad), len(mut)))
    for row in rows[:1] + rows[len(rows) // 2:len(rows) // 2 + 1]:
        ev.sample({k: (v if not isinstance(v, list) or len(v) < 40 else v[:40] + ["..."]) for k, v in row.items()})
    run_msgs(ctx, drv)
    run_aead(ctx, drv)
    run_other(ctx)
    ev.cov["exhaustive"] = False
    ev.assume("fragment scripts are exhaustive within the bounds of BOUNDS[tier] (fragments, total length, Get/Reloc marks) over the "
              "boundary alphabet {0,1,blk-1,blk,blk+1,2blk-1,2blk,2blk+1}; quick replays a seeded subset when a family exceeds its cap")
    ev.assume("one-shot values are the reference semantics of spec/ref (C01 ties them to the standard)")


def run_msgs(ctx, drv):
    """WBL / SDE / FMT: one Start, then whole-message calls (spec/sm/MsgApi.tla): histories of <= 3 calls
    (quick: all of <= 2 calls and a seeded sample of the 3-call ones; thorough: all)."""
    import msgs
    hist, st, tr = msgs.gen_histories(ctx, 3, workers=4 if ctx.quick else 8)
    ctx.ev.cov["states"] += st
    ctx.ev.cov["transitions"] += tr
    for b, ss in hist.items():
        ctx.ev.cov["histories_" + b] = len(ss or [])
    if ctx.quick:
        hist = {b: msgs.pick(ss, 450, ctx.seed) for b, ss in hist.items() if ss}
    n, d = msgs.run_histories(ctx, drv, hist)
    ctx.ev.cov["message_history_calls_validated"] = n
    ctx.ev.cov["message_histories_replayed"] = len(d)
    ctx.ev.cov["traces_validated_against_impl"] += n


def run_aead(ctx, drv):
    """DWP / CHE with the cipher half and the authentication half decoupled (spec/sm/StepAead.tla): E and A are separate
    tokens, Get / Verify / Reloc marks anywhere.  quick: alphabet {5, 16, 21}, a seeded third of the scripts; thorough:
    alphabet {1, 5, 7, 15, 16, 21}, a seeded sample of 40000 per direction."""
    nstates = ntrans = 0
    cmds = []

    def mc(d):
        gdir = ctx.path("gen_aead" + d)
        os.makedirs(gdir, exist_ok=True)
        cfg = ctx.path("aead%s.cfg" % d)
        with open(cfg, "w") as f:
            f.write("SPECIFICATION Spec\nCONSTANTS Dir = \"%s\"\n Blk = 16\n MaxToks = 4\n MaxTotal = 40\n MaxMarks = 2\n Alphabet <- %s\n"
                    "INVARIANT Ranges Bookkeeping Order Emit\nPROPERTY MarksInvisible\n" % (d, "Alpha" if ctx.quick else "AlphaFull"))
        return d, vlib.tlc("MC_StepAead", cfg, env={"GEN_DIR": gdir}, timeout=2400, workers=6 if ctx.quick else 8, quiet=True), gdir

    for d, r, gdir in vlib.parallel([(lambda d=d: mc(d)) for d in ("E", "D")], n=2):
        if vlib.tlc_infra_failed(r) or r.rc != 0:
            ctx.note_inconclusive("MC_StepAead(%s) gave no verdict / violates its own invariants: rc=%s %s" % (d, r.rc, (r.violation or r.error or "")[:300]))
            continue
        nstates += r.distinct
        ntrans += r.generated
        ss = sorted(json.load(open(f))["script"] for f in glob.glob(os.path.join(gdir, "*.json")))
        ctx.ev.cov["scripts_aead" + d] = len(ss)
        cap = (len(ss) + 2) // 3 if ctx.quick else 40000
        if len(ss) > cap:
            ss = sorted(ss, key=lambda x: hashlib.sha256(("%d:%s" % (ctx.seed, x)).encode()).hexdigest())[:cap]
        for bi, b in enumerate(("dwp" + d, "che" + d)):
            for si, x in enumerate(ss):
                cmds.append("steps b=%s klen=%d reloc=%d script=%s\n" % (b, (16, 24, 32)[(si + bi) % 3], (si + bi) % 2, x))
    ctx.ev.cov["states"] += nstates
    ctx.ev.cov["transitions"] += ntrans
    if not cmds:
        return
    out_path = ctx.path("steps_aead.ndjson")
    rc, _, err = vlib.run_harness(drv, ["steps"], stdin="".join(cmds).encode(), out_path=out_path, env={"VERIF_SEED": ctx.seed}, timeout=1800)
    rows = [json.loads(l) for l in open(out_path) if l.strip().endswith("}")]
    if rc != 0:
        nxt = cmds[len(rows)].strip() if len(rows) < len(cmds) else "?"
        ctx.violation("steps-crash:" + nxt.replace(" ", "_"), "AEAD bundle crashed / sanitizer report on a legal decoupled script: %s\n%s" % (nxt, err[-1500:]),
                      {"command": nxt, "stderr": err[-4000:]})
    shards = vlib.shard(rows, max(1, (len(rows) + 3999) // 4000))
    results = vlib.parallel([(lambda sh=sh: vlib.validate_lines(ctx, "Trace_Belt", sh, timeout=3000, workers=2)) for sh in shards], n=6)
    nval = 0
    for sh, (n, bad, r) in zip(shards, results):
        if n < len(sh):
            ctx.note_inconclusive("Trace_Belt evaluated %d of %d decoupled AEAD script lines (rc=%s)" % (n, len(sh), r.rc))
        nval += n
        for i in bad:
            row = sh[i - 1]
            ctx.violation("steps:%s:%s%s" % (row["b"], row["script"], ":reloc" if row.get("reloc") else ""),
                          "bundle %s: decoupled script %s gives a result different from the one-shot value (or a wrong Get/Verify)" % (row["b"], row["script"]),
                          {"line": row})
        ctx.ev.add("trace_states", r.distinct)
    ctx.ev.cov["decoupled_aead_scripts_replayed"] = nval
    ctx.ev.cov["traces_validated_against_impl"] += nval


def run_other(ctx):
    """bash / brng / botp bundles: driven when their reference semantics and driver are present."""
    try:
        import C10_other
    except ImportError:
        ctx.ev.cov["non_belt_bundles"] = "not built yet"
        return
    C10_other.run(ctx)
