# API completion of the core helper layer (harness/drv_core.c): mem.h (copy / move / set / neg / rev / swap / xor, the interval
# predicates over all placements of 2 / 3 / 4 buffers, alignment), str.h, dec.h (U64), util.h (min / max, CRC32, FNV32), obj.h
# (accessors, operability, objCopy / objAppend of nested objects) and the u32-array editions of belt-block / belt-compress.
# Every buffer is malloc'ed at exactly the documented size; the lines are word-size independent (octets and small integers),
# deterministic given VERIF_SEED, and judged by spec/trace/Trace_Core.tla against spec/ref/Core.tla.
SUITES = [{"name": "core", "sources": ["drv_core.c"], "libs": [], "trace": "Trace_Core", "runs": [(["record", "{tier}"], None)]}]
