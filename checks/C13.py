"""C13 — bels: any threshold-sized subset of shares recovers the secret.
 Reference semantics spec/ref/Bels.tla (STB 34.101.60 over GF(2)[x]: share = ((x^l+m0) k + s) mod (x^l+m_i),
 recovery = CRT + reduction, key validity = irreducibility, genmid = minimal polynomial), anchored by 84
 TLC-evaluated vectors (appendix B.1-B.7, irreducibility of all 51 standard keys).
 The driver splits secrets for len in {16,24,32} x count 1..16 x threshold 1..count (enumerated; quick takes a
 slice) with one-time keys from a tape, and recovers from ALL subsets of size >= threshold for count <= 6 and
 all orders of small subsets (seeded subsets/orders above); TLC recomputes every share and every recovery and
 checks recovered = secret whenever |subset| >= threshold."""
import json, re
import vlib
import C01

LEVEL = "exploration"


def key_of(row):
    if row["op"] in ("share", "share2"):
        return "%s:len=%d:count=%d:thr=%d" % (row["op"], row["len"], row["count"], row["thr"])
    if row["op"] == "recover":
        return "recover:len=%d:count=%d:thr=%d:users=%s" % (row["len"], row["count"], row["thr"], "-".join(str(u) for u in row["users"]))
    return "%s:len=%d" % (row["op"], row.get("len", len(row.get("m", row.get("m0", [])))))


def run(ctx):
    ev = ctx.ev
    tier = "quick" if ctx.quick else "thorough"
    # anchors (cheap subset in quick: shares / recoveries / genmid; the irreducibility of all keys in thorough)
    if not ctx.quick:
        r = vlib.tlc("BelsVectors", timeout=2400, extra=["-continue"], quiet=True)
        failed = vlib.failed_vectors(r.out)
        ev.cov["appendix_vectors_evaluated"] = max(0, (r.distinct - 1) // 2)
        if r.rc not in (0, 12) or failed or r.distinct < 3:
            ctx.note_inconclusive("Bels reference semantics fails its vectors %s (specification error)" % failed)
            return
    drv = vlib.harness("drv_bels", ["drv_bels.c"], "asan")
    out = ctx.path("bels.ndjson")
    rc, _, err = vlib.run_harness(drv, ["record", tier], out_path=out, env={"VERIF_SEED": ctx.seed}, timeout=1800)
    rows = [json.loads(l) for l in open(out) if l.strip().endswith("}")]
    if rc != 0:
        ctx.violation("bels-crash:" + C01.crash_site(err), "bels driver stopped inside a library call (rc=%d): %s" % (rc, err[-1500:]), err[-5000:])
    n, bad, r = vlib.validate_lines(ctx, "Trace_Bels", rows, timeout=3300)
    if n < len(rows):
        ctx.note_inconclusive("Trace_Bels evaluated %d of %d lines (rc=%s)" % (n, len(rows), r.rc))
    for i in bad:
        row = rows[i - 1]
        ctx.violation(key_of(row), "%s differs from STB 34.101.60 (or a threshold-sized subset did not recover the secret)" % row["op"], {"line": row})
    ev.cov["evaluations"] = n
    ev.cov["traces_validated_against_impl"] = n
    ev.cov["tlc_states"] = r.distinct
    ev.cov["distinct_nontrivial"] = len(set(key_of(x) for x in rows if x["op"] != "recover" or len(x["si"]) >= 2))
    ev.cov["recoveries"] = sum(1 for x in rows if x["op"] == "recover")
    ev.cov["rule"] = ("enumerated (len, count, threshold), for count <= 6 every subset of size >= threshold and every order of subsets of "
                      "size <= 3 (quick) / 4 (thorough), seeded subsets for larger counts; secrets and one-time keys seeded; distinct = "
                      "distinct (op, len, count, threshold, ordered user list); non-trivial = at least two shares combined")
    for x in rows[:1] + [y for y in rows if y["op"] == "recover"][5:6]:
        ev.sample({k: (v if not isinstance(v, list) or len(json.dumps(v)) < 300 else "...") for k, v in x.items()})
    # binding self-test
    mut = []
    for row in [x for x in rows if x["op"] == "recover"][:300:60]:
        m = json.loads(json.dumps(row)); m["out"][0] ^= 1; m["secret"] = m["out"]; mut.append(m)
    if mut:
        n2, bad2, _ = vlib.validate_lines(ctx, "Trace_Bels", mut, timeout=600)
        ev.cov["selftest_corrupted_lines"] = len(mut)
        ev.cov["selftest_rejected"] = len(bad2)
        if n2 == len(mut) and len(bad2) != len(mut):
            ctx.note_inconclusive("binding self-test failed")
    ev.assume("STB 34.101.60 as transcribed in spec/ref/Bels.tla, anchored by appendix B (evaluated by TLC in the thorough tier; the quick tier relies on the committed anchors)")
