"""Replayable suite of the binary-curve layer (C06, src/math/ec2.c) for the configuration sweep (C19) and the exact-size
sanitizer run (C07): harness/drv_ec2.c `record` emits self-contained lines that spec/trace/Trace_EC2.tla recomputes over
GF(2)[x]/(F): every function / aliasing / Z class on pairs of two COMPLETE curves over subfields (GF(2^3) in the two-word
trinomial field x^81 + x^4 + 1; GF(2^4) in the pentanomial field x^128 + x^7 + x^2 + x + 1 whose degree is a multiple of the
word size), scalar multiples with scalars of 8 / 16 / 48 octets, on-curve tests incl. coordinates outside the field, the
group description (Hasse bound) and law lines on two standard DSTU curves.  The curves (field embedding, point lists) are
computed by TLC (spec/gen/Gen_EC2Small.tla) once per run.  Lines do not depend on the word size (word vectors are logged
without trailing zero limbs); every description / stack / point buffer is malloc'ed at exactly its documented size."""
import os, threading
import C06_ec2

_lock = threading.Lock()


def ec2_record_cmds(ctx, tier):
    tables = []
    with _lock:
        for cur in C06_ec2.QUICK2:
            if cur[0] not in ("t81d3a", "p128d4"):
                continue
            gdir = ctx.path("gen2_" + cur[0])
            t = None
            if os.path.exists(os.path.join(gdir, "pts_0.json")):
                try:
                    t = C06_ec2.Tables2(cur[0], gdir)
                    t = t if t.complete else None
                except Exception:
                    t = None
            if t is None:
                t, _ = C06_ec2.gen_tables(ctx, cur, workers=4)
            if t is not None:
                tables.append(t)
    return C06_ec2.record_cmds(tables, "quick", suite=True).encode()


SUITES = [
    {"name": "ec2", "sources": ["drv_ec2.c"], "libs": [], "trace": "Trace_EC2",
     "runs": [(["record"], ec2_record_cmds)]},
]
