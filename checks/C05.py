"""C05 - arithmetic layer equals exact integer, modular and GF(2)[x] arithmetic
(+ the value half of C14: SAFE edition == FAST edition == specification).

  1. harness/drv_arith.c (record direction) is built against the library compiled from the current tree in the
     variants rel, w32 (quick) + fast, dbg (thorough) and enumerates STRUCTURE: operand lengths crossing the
     algorithm switches, boundary-alphabet shapes, multiples of the modulus with the quotient drawn word by word
     from the alphabet, Knuth-D estimate corrections, modulus classes (odd/even, Crandall, top bit set/clear,
     prime/composite), aliasing patterns; all u16 helpers on all 65536 words.  One ndjson line per call.
  2. trace/Trace_Arith.tla recomputes every line with ref/ZZ.tla, WW.tla, PP.tla, WordOps.tla over
     lib/BigNat.tla, lib/GF2Poly.tla (TLC, two-level pattern F).  A rejected line is a violation whose key is the
     structural class of the call (function : edition : length : class), never the raw data.
  3. Oracle validation before use: lines of family "py" carry results computed by Python's integers on the same
     kinds of operands; if the TLA+ libraries disagree with Python the run is inconclusive, not a violation.
  4. Binding self-test: one output of a recorded good line per family is corrupted (and one op renamed);
     TLC must reject exactly those lines.
  API completion: wwNAF (all widths), zzRandMod / zzRandNZMod (generator tapes), the comparison macros of word.h, u64Rev_,
  the alias macros of qr.h / zm.h / gfp.h / gf2.h (ref/QR.tla; zmAdd ... qrCmp in both editions of their callee),
  priBaseMod / priExtendPrime / priExtendPrime2 (family "pri", ref/PriBase.tla over ref/Pri.tla).
"""
import json, math, os, re, random, collections, zlib
import vlib

LEVEL = "exploration"

QUICK_VARIANTS = ["rel", "w32"]
THOROUGH_VARIANTS = ["rel", "w32", "fast", "dbg"]
QUICK_CAP = 400          # quick tier: lines kept per (build, reduction function, edition) (stride subset) ...
QUICK_CAP_OTHER = 120    # ... and per (build, other function, edition)
QUICK_CAP_OP = {"wwNAF": 700, "priBaseMod": 260}    # functions whose classes are (window width / count) x operand pattern
THOROUGH_CAP = {"rel": 2000, "w32": 1500, "fast": 600, "dbg": 600}
SHARD = 70000            # lines per TLC run
# functions whose specification is a Euclid / square-and-multiply loop over BigNat (seconds per line on long operands):
# beyond HEAVY_N words at most HEAVY_KEEP lines per (build, function, edition, length) are validated
HEAVY_OPS = {"zzInvMod", "zzDivMod", "zzAlmostInvMod", "zzGCD", "zzExGCD", "zzLCM", "zzIsCoprime", "zzJacobi", "zzPowerMod",
             "qrInv", "qrDiv", "qrPower", "ppInvMod", "ppDivMod", "ppGCD", "ppExGCD", "ppIsIrred", "ppMinPoly", "zzSqrt"}
HEAVY_N = 4
HEAVY_KEEP = 6
DRV_TIMEOUT = 900


_GRP = re.compile(r'"op":"([^"]+)","ed":"([^"]+)"')
_FN = re.compile(r'"fn":"([^"]+)"')
_D = re.compile(r'"d":(\d+)')
_N = re.compile(r'"(?:n|no)":(\d+)')
_CLS = re.compile(r'"cls":"[^"]*","alias":"[^"]*"')


def _nof(l):
    m = _N.search(l)
    return int(m.group(1)) if m else -1


def _grp(m, l):
    op = m.group(1)
    if op in ("word1", "wordRot", "u16blk", "wordCmp"):
        fn = _FN.search(l)
        d = _D.search(l) if op == "u16blk" else None
        return (op, m.group(2), fn.group(1) if fn else "", d.group(1) if d else "")
    return (op, m.group(2), "", "")


# ------------------------------------------------------------------ keys
def coarse(cls):
    c = re.sub(r"(^|,)mod=[^,]*", "", cls)
    c = re.sub(r",?[kq]=g[^,]*", "", c)
    c = re.sub(r"(^|,)[kq]=[^,]*", "", c)
    return c.strip(",") or "any"


def key_of(r):
    tail = ":hang" if "hang" in r else ":abort" if "abort" in r else ":overrun" if "overrun" in r else ""
    if r["fam"] == "gf2":
        return "gf2:%s:%s%s" % (r["op"], re.sub(r"(^|,)field=[^,]*,?", "", r.get("cls", "")), tail)
    if r["fam"] == "qr":
        return "%s%s:%s:%s:%s%s" % (r["op"], "" if r["ed"] == "def" else "/" + r["ed"], r.get("ctor"), r.get("strat"), coarse(r.get("cls", "")), tail)
    if r["fam"] == "word":
        return "%s%s:%s:%s%s" % (r.get("famw", "u16"), r.get("fn", r["op"]), r["ed"], re.sub(r"\d+$", "", r.get("cls", "")), tail)
    # the operand length is not part of the key (the same class fails at every length); it is given in the text
    return "%s:%s:%s%s" % (r["op"], r["ed"], coarse(r.get("cls", "")), tail)


def group_of(r):
    return (r["fam"], r["op"] if r["fam"] != "word" else r.get("famw", "u16") + r.get("fn", ""), r["ed"],
            r.get("ctor", ""), "hang" in r, "abort" in r)


def cls_id(r):
    """identity of the structural case (for distinct_nontrivial)"""
    return (r["fam"], r["op"], r["ed"], r.get("W"), r.get("n"), r.get("m"), r.get("fn"), r.get("ctor"), r.get("strat"),
            r.get("cls"), r.get("alias"), r.get("base"), str(r.get("d")) if r["fam"] == "word" else "")


def val16(x):
    return sum(l << (16 * i) for i, l in enumerate(x))


# ------------------------------------------------------------------ Python-side oracle lines (family "py")
def l16(v, L):
    return [(v >> (16 * i)) & 0xFFFF for i in range(L)]


def clmul(a, b):
    r = 0
    while b:
        if b & 1:
            r ^= a
        a <<= 1
        b >>= 1
    return r


def pdivmod(a, b):
    q, db = 0, b.bit_length()
    while a.bit_length() >= db:
        s = a.bit_length() - db
        a ^= b << s
        q |= 1 << s
    return q, a


def pgcd(a, b):
    while b:
        a, b = b, pdivmod(a, b)[1]
    return a


def pinv(a, m):
    r0, r1, u0, u1 = a, m, 1, 0
    while r1:
        q, r = pdivmod(r0, r1)
        r0, r1 = r1, r
        u0, u1 = u1, u0 ^ clmul(q, u1)
    return pdivmod(u0, m)[1] if r0 == 1 else 0


def jacobi(a, n):
    a %= n
    r = 1
    while a:
        while a % 2 == 0:
            a //= 2
            if n % 8 in (3, 5):
                r = -r
        a, n = n, a
        if a % 4 == 3 and n % 4 == 3:
            r = -r
        a %= n
    return r if n == 1 else 0


def wnaf(a, w):
    """textbook width-w NAF (a_0 first), then the replacement of the suffix prescribed by ww.h"""
    d = []
    while a:
        if a & 1:
            t = a % (1 << w)
            if t >= 1 << (w - 1):
                t -= 1 << w
            a -= t
        else:
            t = 0
        d.append(t)
        a >>= 1
    if len(d) >= w + 1 and d[-1] == 1 and d[-1 - w] < 0 and all(x == 0 for x in d[-w:-1]):
        d = d[:-w - 1] + [d[-1 - w] + (1 << (w - 1))] + [0] * (w - 2) + [1]
    return d


def naf_encode(d, w, L):
    """code of a_{l-1} in the lowest bits; a non-zero symbol = w bits: sign * 2^(w-1) + |a_i|"""
    v, pos = 0, 0
    for t in reversed(d):
        if t == 0:
            pos += 1
        else:
            v |= (abs(t) | ((1 << (w - 1)) if t < 0 else 0)) << pos
            pos += w
    return l16(v, L)


def naf_rows(rnd, count):
    rows = []
    for i in range(count):
        w = rnd.choice([2, 3, 4, 5, 6, 8, 13, 31, 63])
        L = rnd.choice([1, 2, 4, 8])
        c = i % 5
        a = (rnd.getrandbits(16 * L) if c == 0 else (1 << (16 * L)) - 1 - rnd.randrange(4) if c == 1
             else ((1 << w) - 1 - 2 * rnd.randrange(1 << (w - 2))) << rnd.randrange(8) if c == 2
             else int("0" + "".join(rnd.choice(["1" * rnd.randrange(1, 2 * w), "0" * rnd.randrange(1, w + 2)]) for _ in range(6)), 2) % (1 << (16 * L)) if c == 3
             else rnd.randrange(0, 3))
        a %= 1 << (16 * L)
        d = wnaf(a, w)
        good = 1
        mut = i % 4                 # every 4th line is a correct one, the others break exactly one rule
        if mut == 1 and len(d) > w + 1:
            # the same value with two adjacent non-zero symbols: (x, 0) -> (x - 2, 1) or (x + 2, -1)
            j = next((k for k in range(len(d) - 1) if d[k] != 0 and abs(d[k]) + 2 < (1 << (w - 1)) and d[k + 1] == 0), None)
            if j is not None:
                d = d[:j] + ([d[j] - 2, 1] if d[j] > 0 else [d[j] + 2, -1]) + d[j + 2:]
                good = 0
        elif mut == 2 and len(d) >= 1:
            d = d + [0]             # a_{l-1} = 0
            good = 0
        elif mut == 3 and len(d) >= w + 1:
            # undo the replacement (the suffix alpha, 0.., 1 left in place) when it was made
            if d[-1] == 1 and d[-w] > 0 and all(x == 0 for x in d[-w + 1:-1]) and len(d) >= w:
                d = d[:-w] + [d[-w] - (1 << (w - 1))] + [0] * (w - 1) + [1]
                good = 0
        rows.append(dict(fam="py", op="naf", ed="def", W=16, n=L, cls="w=%d" % w, alias="none", w=w, a=l16(a, L),
                         naf=naf_encode(d, w, (len(d) + (w - 1) * sum(1 for x in d if x)) // 16 + 2), l=len(d), good=good))
    return rows


def py_lines(rnd, count, big):
    def val(L):
        c, bits = rnd.randrange(5), 16 * L
        if c == 0:
            return rnd.getrandbits(bits)
        if c == 1:
            return (1 << bits) - 1 - rnd.randrange(3)
        if c == 2:
            return rnd.randrange(3)
        if c == 3:
            return rnd.getrandbits(rnd.randrange(1, bits + 1))
        return int.from_bytes(bytes(rnd.choice([0, 0xff, 0x80, 0x7f, 1]) for _ in range(2 * L)), "little")
    ops = ["add", "sub", "mul", "divmod", "gcd", "inv", "exp", "sqrt", "jacobi", "shl", "shr", "bitlen", "octets",
           "pmul", "pdivmod", "pgcd", "pexgcd", "pinv"]
    Ls = [1, 2, 3, 4, 5, 8, 12] + ([40, 84] if big else [24])
    rows = []
    for i in range(count):
        op = ops[i % len(ops)]
        L = rnd.choice(Ls if op not in ("exp", "inv", "pinv", "jacobi") else [1, 2, 3, 4, 8])
        a, b = val(L), val(L)
        r = dict(fam="py", op=op, ed="def", W=16, n=L, cls="L=%d" % L, alias="none")
        if op == "add":
            r.update(a=l16(a, L), b=l16(b, L), c=l16(a + b, L + 1))
        elif op == "sub":
            a, b = max(a, b), min(a, b)
            r.update(a=l16(a, L), b=l16(b, L), c=l16(a - b, L))
        elif op == "mul":
            r.update(a=l16(a, L), b=l16(b, L), c=l16(a * b, 2 * L))
        elif op == "divmod":
            if rnd.randrange(2):
                b >>= rnd.randrange(16 * L)
            b = b or 1
            r.update(a=l16(a, L), b=l16(b, L), q=l16(a // b, L), r=l16(a % b, L))
        elif op == "gcd":
            r.update(a=l16(a, L), b=l16(b, L), c=l16(math.gcd(a, b), L))
        elif op == "inv":
            b = b if b > 1 else 3
            a %= b
            r.update(a=l16(a, L), b=l16(b, L), c=l16(pow(a, -1, b) if math.gcd(a, b) == 1 else 0, L))
        elif op == "exp":
            b = b or 3
            e = val(min(L, 2))
            r.update(a=l16(a, L), b=l16(b, L), e=l16(e, min(L, 2)), c=l16(pow(a, e, b), L))
        elif op == "sqrt":
            r.update(a=l16(a, L), c=l16(math.isqrt(a), L))
        elif op == "jacobi":
            b |= 1
            r.update(a=l16(a, L), b=l16(b, L), ret=jacobi(a, b))
        elif op == "shl":
            k = rnd.choice([0, 1, 11, 12, 13, 16, 63, 64, 65, 100])
            r.update(a=l16(a, L), k=k, c=l16(a << k, L + 8))
        elif op == "shr":
            k = rnd.choice([0, 1, 11, 12, 13, 16, 63, 64, 65, 100])
            r.update(a=l16(a, L), k=k, c=l16(a >> k, L))
        elif op == "bitlen":
            r.update(a=l16(a, L), ret=a.bit_length())
        elif op == "octets":
            no = rnd.randrange(0, 2 * L + 1)
            a &= (1 << (8 * no)) - 1
            r.update(a=l16(a, L), o=list(a.to_bytes(no, "little")))
        elif op == "pmul":
            r.update(a=l16(a, L), b=l16(b, L), c=l16(clmul(a, b), 2 * L))
        elif op == "pdivmod":
            b = b or 1
            q, rr = pdivmod(a, b)
            r.update(a=l16(a, L), b=l16(b, L), q=l16(q, L), r=l16(rr, L))
        elif op == "pgcd" or op == "pexgcd":
            r.update(a=l16(a, L), b=l16(b, L), c=l16(pgcd(a, b), L))
        elif op == "pinv":
            b = b if b > 1 else 7
            a = pdivmod(a, b)[1]
            r.update(a=l16(a, L), b=l16(b, L), c=l16(pinv(a, b), L))
        rows.append(r)
    return rows + naf_rows(rnd, count // 3)


# ------------------------------------------------------------------ self-test lines
def corrupt(r):
    """a copy of a good line with one recorded output changed"""
    c = json.loads(json.dumps(r))
    for f in ("c", "out", "r", "q", "d", "naf", "mods", "p", "ret"):
        if f in c:
            v = c[f]
            if isinstance(v, list) and v:
                v[0] ^= 1
                return c, f
            if isinstance(v, int):
                c[f] = v + 1
                return c, f
    return None, None


def run(ctx):
    ev = ctx.ev
    variants = QUICK_VARIANTS if ctx.quick else THOROUGH_VARIANTS
    tier = "quick" if ctx.quick else "thorough"
    wk = int(os.environ.get("C05_WORKERS", "0")) or None

    # ---- 1. record
    def rec(v):
        try:
            b = vlib.harness("drv_arith", ["drv_arith.c"], v)
        except vlib.BuildError:
            raise
        out = ctx.path("arith_%s.ndjson" % v)
        rc, _, err = vlib.run_harness(b, ["record", tier], out_path=out, env={"VERIF_SEED": ctx.seed}, timeout=DRV_TIMEOUT)
        return v, b, out, rc, err

    results = [rec(v) for v in variants]        # builds are cached; the driver runs a few seconds
    lines = []
    per_variant = {}
    nskipped = 0
    for v, b, out, rc, err in results:
        if rc != 0:
            # locate the crash: unbuffered re-run, the last complete line precedes the crashing call
            out2 = ctx.path("arith_%s_unbuf.ndjson" % v)
            rc2, _, err2 = vlib.run_harness(b, ["record", tier], out_path=out2, timeout=DRV_TIMEOUT,
                                            env={"VERIF_SEED": ctx.seed, "VX_UNBUF": "1"})
            last = {}
            try:
                with open(out2) as f:
                    ls = [l for l in f if l.strip().endswith("}")]
                last = json.loads(ls[-1]) if ls else {}
            except Exception:
                pass
            if rc in (124, 137):
                ctx.note_inconclusive("driver (%s) timed out after %s" % (v, last.get("op")))
            else:
                ctx.violation("crash:%s:after=%s:%s" % (v, last.get("op"), coarse(last.get("cls", ""))),
                              "driver built as %s stopped with rc=%d after the call %s (%s): %s"
                              % (v, rc, last.get("op"), last.get("cls"), (err2 or err)[-300:]), last)
            out = out2
        # two streaming passes (the thorough enumeration is ~800 k lines per build): 1. size of every
        # (function, edition) group, 2. parse only the selected lines: every k-th call of a group larger than its cap
        # (fixed phase: the same classes for every seed, so that keys are stable; seeds vary the data).  Lines of calls
        # that hung / aborted are always kept, the complete enumeration of the u16 helpers is never reduced.
        cnt = collections.Counter()
        minn = {}
        nrec = 0
        with open(out) as f:
            for l in f:
                m = _GRP.search(l)
                if m and l.rstrip().endswith("}"):
                    g = _grp(m, l)
                    cnt[g] += 1
                    nrec += 1
                    nn = _nof(l)
                    if nn < minn.get(g, 1 << 30):
                        minn[g] = nn
        pos = collections.Counter()
        heavy = collections.Counter()
        rows = []
        with open(out) as f:
            for l in f:
                m = _GRP.search(l)
                if not (m and l.rstrip().endswith("}")):
                    continue
                if '"skip":1' in l:
                    nskipped += 1
                    continue
                g = _grp(m, l)
                cap = (QUICK_CAP if g[0].startswith("zzRed") else QUICK_CAP_OP.get(g[0], QUICK_CAP_OTHER)) if ctx.quick else THOROUGH_CAP.get(v, 1200)
                stride = 1 if (cnt[g] <= cap or g[0] == "u16blk") else (cnt[g] + cap - 1) // cap
                # the smallest operand length of every function is never reduced (the minimal failing class, hence the
                # key of a finding, is then the same for every seed and tier); longer operands: classes whose hash is 0
                # modulo the stride (a class is kept or dropped as a whole, independently of the data)
                small = _nof(l) <= max(1, minn.get(g, 0))
                if g[0] in HEAVY_OPS:
                    nn = _nof(l)
                    if g[0].startswith("qr"):
                        nn = (nn + 7) // 8
                    if nn > HEAVY_N:
                        hk = (g, nn)
                        heavy[hk] += 1
                        if heavy[hk] > HEAVY_KEEP:
                            continue
                if not small and stride > 1 and '"hang":1' not in l and '"abort":1' not in l and '"overrun":' not in l:
                    c = _CLS.search(l)
                    if zlib.crc32(("%s|%s|%s" % (g, _nof(l), c.group(0) if c else "")).encode()) % stride:
                        continue
                try:
                    r = json.loads(l)
                except Exception:
                    continue
                r["variant"] = v
                rows.append(r)
        per_variant[v] = nrec
        lines += rows
    ev.cov["lines_recorded"] = per_variant
    ev.cov["calls_skipped_after_repeated_hang"] = nskipped
    ev.cov["subset_dropped"] = sum(per_variant.values()) - nskipped - len(lines)
    ev.assume("per build, function and edition at most %s recorded calls are validated (every k-th call of the enumeration); "
              "the u16 helpers are always complete" % ("%d (reductions) / %d (others)" % (QUICK_CAP, QUICK_CAP_OTHER) if ctx.quick else json.dumps(THOROUGH_CAP)))

    # ---- 3. oracle lines and 4. self-test lines
    n_impl = len(lines)
    py = py_lines(random.Random(ctx.seed), 180 if ctx.quick else 1500, not ctx.quick)
    st_rows, st_expect = [], []
    seen_fam = set()
    for r in lines:
        f = (r["fam"], r["op"] in ("zzRedMont", "zzAddW", "zzMulMod", "u16blk"))
        if f in seen_fam or "hang" in r or "abort" in r:
            continue
        if r["op"] in ("zzRedMont",) and r["ed"] == "safe":
            continue
        c, fld = corrupt(r)
        if c is None:
            continue
        seen_fam.add(f)
        good = json.loads(json.dumps(r))
        st_rows += [good, c]
        st_expect += [None, True]           # the good copy is whatever it was; the corrupted one must be rejected
    ren = json.loads(json.dumps(py[0]))
    ren["op"] = "no-such-op"
    st_rows.append(ren)
    st_expect.append(True)
    allrows = lines + py + st_rows
    # (the variant tag is not part of the specification's input)

    # ---- oracle anchors (ref/ArithVectors.tla), evaluated concurrently with the first shard
    import threading
    anchor = {}
    def run_anchor():
        anchor["r"] = vlib.tlc("ArithVectors", workers=4, timeout=1200, quiet=True)
    th = threading.Thread(target=run_anchor)
    th.start()

    # ---- 2. TLC (shards of SHARD lines, each run on all cores)
    bad, n_eval_total, states, wall = [], 0, 0, 0.0
    stripped = [{k: v for k, v in r.items() if k != "variant"} for r in allrows]
    for s0 in range(0, len(stripped), SHARD):
        part = stripped[s0:s0 + SHARD]
        spath = ctx.path("arith_shard_%d.ndjson" % (s0 // SHARD))
        vlib.write_ndjson(spath, part)
        n_eval, b, res = vlib.validate_lines(ctx, "Trace_Arith", spath, timeout=1500, workers=wk)
        if n_eval < len(part):
            # one retry (memory pressure / load), then no verdict for the shard
            n_eval, b, res = vlib.validate_lines(ctx, "Trace_Arith", spath, timeout=1500, workers=wk)
        if n_eval < len(part):
            ctx.note_inconclusive("TLC evaluated %d of %d lines of shard %d (rc=%s): %s" % (n_eval, len(part), s0 // SHARD, res.rc,
                                  (res.violation or res.error or "")[-400:]))
            if res.rc != 0:
                ev.cov["evaluations"] = 0
                ev.cov["distinct_nontrivial"] = 0
                ev.cov["rule"] = "no verdict"
                return
        vlib.log("[C05] shard %d: %d lines, %d rejected, %.0f s" % (s0 // SHARD, len(part), len(b), res.wall))
        bad += [s0 + i for i in b]
        n_eval_total += n_eval
        states += res.distinct
        wall += res.wall
    badset = set(bad)
    ev.cov["tlc_states"] = states
    ev.cov["tlc_wall_s"] = round(wall, 1)
    ev.cov["tlc_runs"] = (len(stripped) + SHARD - 1) // SHARD

    th.join()
    ar = anchor.get("r")
    if ar is None or vlib.tlc_infra_failed(ar):
        ctx.note_inconclusive("ArithVectors gave no verdict (rc=%s)" % (ar.rc if ar else None))
    elif ar.rc != 0:
        ctx.note_inconclusive("the anchors of the oracle fail (ArithVectors): %s %s" % (ar.prints[:5], (ar.violation or "")[:200]))
    else:
        ev.cov["oracle_anchor_vectors"] = (ar.distinct - 1) // 2
    # oracle self-check
    py_bad = [i for i in range(n_impl + 1, n_impl + len(py) + 1) if i in badset]
    ev.cov["oracle_lines_checked_against_python"] = len(py)
    if py_bad:
        ctx.note_inconclusive("the TLA+ libraries disagree with Python on %d oracle lines, e.g. %s"
                              % (len(py_bad), json.dumps(allrows[py_bad[0] - 1])[:300]))
    # binding self-test
    base = n_impl + len(py)
    st_ok = 0
    for j, exp in enumerate(st_expect):
        if exp is None:
            continue
        if (base + j + 1) in badset:
            st_ok += 1
        else:
            ctx.note_inconclusive("binding self-test: corrupted line was accepted: %s" % json.dumps(st_rows[j])[:300])
    ev.cov["selftest_corrupted_lines_rejected"] = st_ok
    ev.cov["selftest_corrupted_lines"] = sum(1 for e in st_expect if e)

    # ---- violations: by structural class; one report per (function, edition) at a time, the minimal class first
    fails = collections.OrderedDict()
    for i in sorted(badset):
        if i > n_impl:
            continue
        r = lines[i - 1]
        fails.setdefault(group_of(r), collections.OrderedDict()).setdefault(key_of(r), []).append(r)
    hist = {}
    for g, keys in fails.items():
        def size(k):
            r0 = keys[k][0]
            seeded = bool(re.search(r"rand|=s\b|ws\b|seeded", coarse(r0.get("cls", ""))))
            return (r0.get("n") or r0.get("no") or r0.get("m") or 0, seeded, k)
        order = sorted(keys, key=size)
        total = sum(len(v) for v in keys.values())
        hist["%s:%s" % (g[1], g[2]) + (":hang" if g[4] else ":abort" if g[5] else "")] = {"lines": total, "classes": len(keys)}
        for k in order:
            rs = keys[k]
            r0 = min(rs, key=lambda r: sum(val16(v) if isinstance(v, list) else 0 for kk, v in r.items() if kk in ("a", "b", "mod")))
            what = ("did not return (hang)" if "hang" in r0 else "stopped on an assertion" if "abort" in r0
                    else "wrote beyond the documented length of an output" if "overrun" in r0
                    else "returned a value different from the specification")
            text = ("%s [%s edition, build %s, W=%s] %s on class '%s' (alias %s): %d line(s) of this class, %d failing line(s) in "
                    "%d class(es) for this function; example %s"
                    % (r0["op"] + ("/" + r0["fn"] if "fn" in r0 else ""), r0["ed"], r0.get("variant"), r0.get("W"), what,
                       r0.get("cls"), r0.get("alias"), len(rs), total, len(keys),
                       json.dumps({kk: v for kk, v in r0.items() if kk not in ("cls", "alias", "fam")})[:700]))
            if ctx.violation(k, text, {"line": r0, "other_failing_classes": [x for x in order if x != k][:40],
                                       "replay": "build/bin/drv_arith-<variant>-* record %s ; spec/trace/Trace_Arith.tla" % tier}):
                break           # one new report per function and edition; the next class surfaces when this one is settled
    ev.cov["failing_functions"] = hist

    # ---- evidence
    n_valid = sum(1 for i in range(1, n_impl + 1))
    ev.cov["evaluations"] = n_impl + len(py)
    ev.cov["traces_validated_against_impl"] = n_impl
    distinct = set(cls_id(r) for r in lines)
    ev.cov["distinct_nontrivial"] = len(distinct)
    ev.cov["rule"] = ("distinct = number of different (family, function, edition, word size, operand lengths, structural class, "
                      "aliasing pattern) tuples among the validated calls; every tuple is a different branch/length/boundary "
                      "combination of the arithmetic layer (seeded operands of one class count once)")
    ev.cov["functions_covered"] = sorted(set((r["op"] if r["fam"] != "word" else r.get("famw", "u16") + r.get("fn", r["op"]))
                                             for r in lines))
    ev.cov["functions_covered_count"] = len(ev.cov["functions_covered"])
    ev.cov["editions_by_name"] = dict(collections.Counter(r["ed"] for r in lines))
    ev.cov["word_sizes"] = dict(collections.Counter(str(r.get("W")) for r in lines))
    ev.cov["builds"] = variants
    ev.cov["qr_strategies_reached_through_zmCreate"] = dict(collections.Counter(
        r.get("strat") for r in lines if r["fam"] == "qr" and r.get("ctor") == "zmCreate"))
    ev.cov["u16_helpers_complete"] = sum(1 for r in lines if r["op"] == "u16blk") * 256
    for s in (lines[:1] + [r for r in lines if r["op"] == "zzRedMont"][:1] + [r for r in lines if r["op"] == "ppMul" and r.get("n", 0) >= 10][:1]
              + [r for r in lines if r["fam"] == "qr"][:1]):
        ev.sample({k: (v if not isinstance(v, list) or len(v) <= 24 else v[:24] + ["..."]) for k, v in s.items()})
    ev.assume("Euclid / exponentiation type functions (%s) are validated on at most %d calls per build, function and length "
              "beyond %d words (their TLA+ evaluation costs seconds per call there)" % (", ".join(sorted(HEAVY_OPS)), HEAVY_KEEP, HEAVY_N))
    ev.assume("preconditions of the headers are generator constraints (operands < mod, mod odd where required, b != 0, "
              "moduli > 1, deg a >= 1 for ppIsIrred, sequences of linear complexity <= l for ppMinPoly)")
    ev.assume("borrow of zzSub*/zzSubMulW is specified by the identity c - B^n*borrow == a - x of the header of zzSub "
              "(for n = 0 the literal reading 'borrow <- (a < w)' would give 1 where the code returns w)")
    ev.assume("zzRandMod / zzRandNZMod / priExtendPrime(2) are driven by a deterministic generator tape; zz.h / pri.h do not define how "
              "the octets become the result, so only the promised range / form (p = 2qar + 1 prime of l bits, l <= 81) and success "
              "on a seeded tape are judged; priExtendPrime(2) gets trials = SIZE_MAX only where >= 2^12 values of r are admissible "
              "(with no prime of the form the unbounded search does not return: q = 257, l = 10)")
    ev.assume("qrCmp compares representations: the number itself in plain / Crandall / Barrett rings, a * R mod mod (R the least "
              "B^k > mod) in Montgomery rings, as zm.h states; the strategy chosen by zmCreate / gfpCreate is read off the function table")
    ev.assume("wwNAF: a w-symbol code is read as the w-bit number sign * 2^(w-1) + |a_i| (the only reading of ww.h under which "
              "the code can be told from the one-symbol code of zero); nothing but the code may be stored in [2n+1]naf")
    ev.assume("qrInv/qrDiv are exercised for odd moduli only (they are zzInvMod/zzDivMod) and their result is left open "
              "for non-invertible elements, as qr.h states")
